import LaunchpadModel.Lemmas.LaunchpadSystemOE2Inv
/-!
# Open-edition system composite 2: one accepted step, classified (`e2e_step`), and `SInv` as an invariant

From a state with a minter, an accepted step without impersonation of the minter address is exactly one of
* a **mint** of the minter (`Mint {}` of a buyer, `MintTo` of the admin): `TOKEN_INDEX + 1` is appended to the collection's token
  list, owned by the recipient, `NumTokens + 1`;
* a **burn** (`Burn` from outside): one existing id disappears;
* anything else: the id list and `TOKEN_INDEX` stay.
From a state without a minter the only step that creates one is `CreateMinter`: empty collection, `TOKEN_INDEX = 0`.
-/
namespace LP.SysOE2
open LP
open LP.Sys2 (tokView ttView viewOfColl cfKind ttKind CollInit instMsg runSub)

def isMintOp : Op → Bool
  | .sys (.mint ..) => true
  | .sys (.minter (.mintTo ..)) => true
  | _ => false

/-- the recipient of a mint op -/
def mintRcpt : Op → Option Addr
  | .sys (.mint sender ..) => some sender
  | .sys (.minter (.mintTo _ _ rcpt)) => some rcpt
  | _ => none

def isBurnOp : Op → Bool
  | .collExec _ _ (.burn _) => true
  | .sys (.minter (.collBurn ..)) => true
  | _ => false

/-- the classification of one accepted step from a state with minter `m` and collection `c` -/
def Step3 (op : Op) (m m' : Minter) (c c' : CF.Coll) : Prop :=
  (isMintOp op = true ∧ isBurnOp op = false ∧ m'.seq.tokenIndex = m.seq.tokenIndex + 1 ∧
    (∃ rcpt uri ext, mintRcpt op = some rcpt ∧
      c'.core.tokens = c.core.tokens ++ [⟨m.seq.tokenIndex + 1, rcpt, [], uri, ext⟩]) ∧
    c'.core.count = c.core.count + 1 ∧ m.seq.tokenIndex + 1 ∉ c.core.ids ∧
    c'.core.info.startTradingTime = c.core.info.startTradingTime) ∨
  (isBurnOp op = true ∧ isMintOp op = false ∧ m'.seq.tokenIndex = m.seq.tokenIndex ∧
    (∃ id, id ∈ c.core.ids ∧ c'.core.ids = c.core.ids.filter (fun x => !decide (x = id))) ∧
    c'.core.info.startTradingTime = c.core.info.startTradingTime) ∨
  (isMintOp op = false ∧ isBurnOp op = false ∧ m'.seq.tokenIndex = m.seq.tokenIndex ∧ c'.core.ids = c.core.ids ∧
    c'.core.count = c.core.count ∧
    (c'.core.info.startTradingTime = c.core.info.startTradingTime ∨
     ∃ sender funds t, op = .sys (.minter (.updateStartTradingTime sender funds t)) ∧ c'.core.info.startTradingTime = t))

theorem toExec_burn {c : Sg721.State} {b : Sg721.Block} {msg : CF.ExecMsg} {id : Nat} (h : CF.toExec c b msg = .burn id) :
    msg = .burn id := by
  cases msg <;> simp only [CF.toExec] at h <;> cases h <;> rfl

/-- `Supply.QInv` survives an accepted collection message that creates no token -/
theorem qinv_coll_msg {f : Supply.Seq} {c c' : Sg721.State} {b : Sg721.Block} {sender : Addr} {funds : List Coin}
    {msg : CF.ExecMsg} (hi : Supply.QInv f) (hf : f.coll = tokView c) (hn : c.ids.Nodup) (hm : Sys2.isMintMsg msg = false)
    (e : Sg721.Eff c b sender funds (CF.toExec c b msg) c') : Supply.QInv { f with coll := tokView c' } := by
  have htok := Sys2.tok_effect hn e
  have hc : Supply.CInv (tokView c) := hf ▸ hi.cinv
  have key : (∀ id ∈ (tokView c').ids, id ∈ (tokView c).ids) ∧ Supply.CInv (tokView c') := by
    cases msg <;> simp only [Sys2.isMintMsg] at hm <;> simp only [Sys2.TokEff] at htok
    case transferNft r id =>
      obtain ⟨_, _, ht⟩ := htok
      obtain ⟨_, hids, _⟩ := Supply.Coll.transfer_spec ht
      exact ⟨fun x hx => by rwa [hids] at hx, Supply.Coll.transfer_inv hc ht⟩
    case sendNft r id ok =>
      obtain ⟨_, _, ht⟩ := htok
      obtain ⟨_, hids, _⟩ := Supply.Coll.transfer_spec ht
      exact ⟨fun x hx => by rwa [hids] at hx, Supply.Coll.transfer_inv hc ht⟩
    case burn id =>
      obtain ⟨_, _, hb⟩ := htok
      obtain ⟨_, hids, _⟩ := Supply.Coll.burn_spec hb
      exact ⟨fun x hx => by rw [hids] at hx; exact (List.mem_filter.mp hx).1, Supply.Coll.burn_inv hc hb⟩
    case mint => cases hm
    all_goals (rw [htok]; exact ⟨fun _ h => h, hc⟩)
  exact hi.withColl (fun id h => hf ▸ key.1 id h) key.2

theorem count_eq_of_ids {q q' : Supply.Seq} {c c' : Sg721.State} (hi : Supply.QInv q) (hq : q.coll = tokView c)
    (hi' : Supply.QInv q') (hq' : q'.coll = tokView c') (hids : c'.ids = c.ids) : c'.count = c.count := by
  have h1 := count_of_qinv hi hq
  have h2 := count_of_qinv hi' hq'
  have : c'.tokens.length = c.tokens.length := by
    have := congrArg List.length hids
    simpa [Sg721.State.ids] using this
  omega

/-- an accepted message to the collection from outside, by anybody but the minter contract -/
theorem collExec_post {s s' : State} {sender : Addr} {funds : List Coin} {msg : CF.ExecMsg} {m : Minter} {c : CF.Coll}
    (hi : SInv s) (hmc : s.mc = some (m, c)) (hs : sender ≠ m.addr) (h : collExec s sender funds msg = .ok s') :
    ∃ c', s'.mc = some (m, c') ∧ c'.core.ids.Nodup ∧ c'.legacy = none ∧ c'.core.ownership = c.core.ownership ∧
      c'.core.info.startTradingTime = c.core.info.startTradingTime ∧ Supply.QInv (omOf m c').seq ∧
      ((∃ id, msg = .burn id ∧ id ∈ c.core.ids ∧ c'.core.ids = c.core.ids.filter (fun x => !decide (x = id))) ∨
       ((∀ id, msg ≠ .burn id) ∧ c'.core.ids = c.core.ids ∧ c'.core.count = c.core.count)) := by
  obtain ⟨m0, c0, b1, core', b2, hmc0, _, hex, _, rfl⟩ := collExec_ok h
  rw [hmc] at hmc0
  simp only [Option.some.injEq, Prod.mk.injEq] at hmc0
  obtain ⟨rfl, rfl⟩ := hmc0
  obtain ⟨hn, hl⟩ := hi.good m c hmc
  obtain ⟨_, e⟩ := Sg721.exec_eff' hex
  obtain ⟨_, _, _, hnm⟩ := Sys2.eff_stranger (hi.own m c hmc) hs e
  obtain ⟨ho, hst, hids⟩ := eff_stranger (hi.own m c hmc) hs e
  have hq' : Supply.QInv (omOf m { c with core := core' }).seq :=
    qinv_coll_msg (hi.sup m c hmc) rfl hn (Sys2.toExec_not_mint hnm) e
  refine ⟨{ c with core := core' }, rfl, Sys2.nodup_eff hn e, hl, ho, hst, hq', ?_⟩
  rcases hids with ⟨id, hmsg, hmem, hf⟩ | ⟨hnb, hsame⟩
  · exact Or.inl ⟨id, toExec_burn hmsg, hmem, hf⟩
  · refine Or.inr ⟨fun id hx => hnb id (by rw [hx]; rfl), hsame, ?_⟩
    exact count_eq_of_ids (hi.sup m c hmc) rfl hq' rfl hsame

theorem create_ok {s s' : State} {sender : Addr} {funds : List Coin} {msg : OE.CreateMsg} {w : OE.CreateWit} {ci : CollInit}
    {uri ext : Nat} (h : create s sender funds msg w ci uri ext = .ok s') :
    ∃ r om q, SysOE.step (sysOf s) (.minter (.create sender funds { msg with collOk := true } w)) = .ok r ∧
      r.minter = some om ∧
      CF.instantiate ⟨s.block, r.bank, none⟩ (cfKind om.tt.kind) om.addr [] ci.name ci.symbol
        (instMsg om.addr msg.creator om.tt.trading ci) om.sg721 = .ok q ∧
      s' = setSys s r q.bank q.coll uri ext := by
  unfold create at h
  split at h
  · cases h
  · rename_i r hr
    split at h
    · cases h
    · rename_i om hom
      split at h
      · cases h
      · rename_i q hq
        cases h
        exact ⟨r, om, q, hr, hom, hq, rfl⟩

/-- an accepted `CreateMinter`: there was no minter; the new one has `TOKEN_INDEX = 0` and an empty collection it owns -/
theorem create_post {s s' : State} {sender : Addr} {funds : List Coin} {msg : OE.CreateMsg} {w : OE.CreateWit} {ci : CollInit}
    {uri ext : Nat} (h : create s sender funds msg w ci uri ext = .ok s') :
    s.mc = none ∧ ∃ m' c', s'.mc = some (m', c') ∧ m'.seq.tokenIndex = 0 ∧ c'.core.tokens = [] ∧ c'.core.count = 0 ∧
      c'.legacy = none ∧ c'.core.ownership = ⟨some m'.addr, none, none⟩ ∧ Supply.QInv (omOf m' c').seq ∧
      TT.boundedOrDefault msg.startTime s.params.maxTradingOffsetSecs msg.trading = .ok c'.core.info.startTradingTime ∧
      m'.admin = msg.creator ∧ m'.startTime = msg.startTime := by
  obtain ⟨r, om, q, hr, hom, hq, rfl⟩ := create_ok h
  obtain ⟨_, c0, hc0, rfl⟩ := SysOE.step_minter_ok hr
  simp only [OE.step] at hc0
  obtain ⟨_, _, b2, v, m0, hnone, _, _, _, _, hinst, rfl⟩ := OE.createMinter_ok hc0
  have hom' : om = m0 := by
    have : (SysOE.setOe (sysOf s) { SysOE.oeOf (sysOf s) with bank := b2, minter := some m0 }).minter = some m0 := rfl
    rw [hom] at this
    exact Option.some.inj this
  subst hom'
  obtain ⟨wl, trading, ck, _, _, htr, _, _, hm0⟩ := OE.instantiateMinter_ok hinst
  obtain ⟨b1, core, _, _, hcore, rfl⟩ := CF.instantiate_ok hq
  obtain ⟨_, ht, hc, ho, hinfo, _⟩ := Sys2.sg_instantiate_ok hcore
  have hsnone : s.mc = none := by
    have : (sysOf s).minter = none := hnone
    cases hmc : s.mc with
    | none => rfl
    | some mc => simp [sysOf, hmc] at this
  refine ⟨hsnone, ofOm om uri ext, { core := core, self := om.sg721, name := ci.name, symbol := ci.symbol, legacy := none }, ?_, ?_, ht, hc, rfl, ?_, ?_, ?_, ?_, ?_⟩
  · rw [setSys_mc_some, hom]; rfl
  · show om.seq.tokenIndex = 0
    rw [hm0]; rfl
  · rw [ho]
    show (⟨some om.addr, none, none⟩ : Sg721.Ownership) = ⟨some om.addr, none, none⟩
    rfl
  · rw [seq_view om _ _ _ (by rw [hm0]; simp [tokView, ht, hc, Supply.Seq.create, Supply.Coll.empty])]
    rw [hm0]
    exact Supply.Seq.create_inv _ _ _ _
  · show TT.boundedOrDefault msg.startTime s.params.maxTradingOffsetSecs msg.trading = .ok core.info.startTradingTime
    rw [hinfo]
    show _ = Except.ok om.tt.trading
    rw [hm0]
    exact htr
  · show om.admin = msg.creator
    rw [hm0]
  · show om.startTime = msg.startTime
    rw [hm0]

/-- an accepted migration / stored-version step of the collection -/
theorem collEnv_post {s s' : State} {op : CF.Op} {m : Minter} {c : CF.Coll}
    (hop : op = .migrateUpdatable ∨ op = .migrateSelf ∨ ∃ v, op = .setVersion v) (hi : SInv s) (hmc : s.mc = some (m, c))
    (h : collEnv s op = .ok s') :
    ∃ c', s'.mc = some (m, c') ∧ tokView c'.core = tokView c.core ∧ c'.core.ids = c.core.ids ∧
      c'.core.ownership = c.core.ownership ∧ c'.legacy = none ∧ (ttView c'.core).trading = (ttView c.core).trading := by
  obtain ⟨m0, c0, c', hmc0, rfl, hx⟩ := collEnv_parts h hop
  rw [hmc] at hmc0
  simp only [Option.some.injEq, Prod.mk.injEq] at hmc0
  obtain ⟨rfl, rfl⟩ := hmc0
  obtain ⟨_, hl⟩ := hi.good m c hmc
  refine ⟨c', rfl, ?_⟩
  rcases hx with ⟨_, hf⟩ | ⟨_, hf⟩ | ⟨v, _, rfl⟩
  · obtain ⟨h1, h2, h3, h4, h5, _⟩ := Sys2.migrateUpdatable_view hl hf
    exact ⟨h1, h2, h3, h5, by rw [h4]⟩
  · obtain ⟨h1, h2, h3, h4, h5, _⟩ := Sys2.migrateSelf_view hl hf
    exact ⟨h1, h2, h3, h5, by rw [h4]⟩
  · exact ⟨rfl, rfl, rfl, hl, rfl⟩

theorem sub_trading {o : SysOE.Op} {t : Option Nat} (h : subOf o = .trading t) :
    ∃ sender funds, o = .minter (.updateStartTradingTime sender funds t) := by
  cases o with
  | mint sender funds stage alloc proof => cases h
  | wlInst v sender funds self m => cases h
  | wlExec k sender funds m => cases h
  | minter vo =>
    cases vo
    case updateStartTradingTime sender funds t' =>
      simp only [subOf, Sub.trading.injEq] at h
      subst h
      exact ⟨sender, funds, rfl⟩
    all_goals cases h

theorem isMint_sub (o : SysOE.Op) :
    (∃ rcpt, subOf o = .mint rcpt ∧ isMintOp (.sys o) = true ∧ mintRcpt (.sys o) = some rcpt ∧ isBurnOp (.sys o) = false) ∨
    ((∀ rcpt, subOf o ≠ .mint rcpt) ∧ isMintOp (.sys o) = false ∧ (plainOp o = true → isBurnOp (.sys o) = false)) := by
  cases o with
  | mint sender funds stage alloc proof => exact Or.inl ⟨sender, rfl, rfl, rfl, rfl⟩
  | wlInst v sender funds self m => exact Or.inr ⟨(fun _ h => by cases h), rfl, fun _ => rfl⟩
  | wlExec k sender funds m => exact Or.inr ⟨(fun _ h => by cases h), rfl, fun _ => rfl⟩
  | minter vo =>
    cases vo
    case mintTo sender funds rcpt => exact Or.inl ⟨rcpt, rfl, rfl, rfl, rfl⟩
    case collBurn sender id => exact Or.inr ⟨(fun _ h => by cases h), rfl, fun hp => by simp [plainOp, plainOE, ifaceMsg] at hp⟩
    all_goals exact Or.inr ⟨(fun _ h => by cases h), rfl, fun _ => rfl⟩

theorem iface_burn {vo : OE.Op} {sender : Addr} {mm : CF.ExecMsg} (h : ifaceMsg vo = some (sender, mm)) :
    isMintOp (.sys (.minter vo)) = false ∧ (isBurnOp (.sys (.minter vo)) = true ↔ ∃ id, mm = .burn id) := by
  cases vo with
  | collTransfer s id to =>
    simp only [ifaceMsg, Option.some.injEq, Prod.mk.injEq] at h; obtain ⟨_, rfl⟩ := h; exact ⟨rfl, by simp [isBurnOp]⟩
  | collBurn s id =>
    simp only [ifaceMsg, Option.some.injEq, Prod.mk.injEq] at h; obtain ⟨_, rfl⟩ := h; exact ⟨rfl, by simp [isBurnOp]⟩
  | collTrading s t =>
    simp only [ifaceMsg, Option.some.injEq, Prod.mk.injEq] at h; obtain ⟨_, rfl⟩ := h; exact ⟨rfl, by simp [isBurnOp]⟩
  | collCreator s n =>
    simp only [ifaceMsg, Option.some.injEq, Prod.mk.injEq] at h; obtain ⟨_, rfl⟩ := h; exact ⟨rfl, by simp [isBurnOp]⟩
  | collFreeze s =>
    simp only [ifaceMsg, Option.some.injEq, Prod.mk.injEq] at h; obtain ⟨_, rfl⟩ := h; exact ⟨rfl, by simp [isBurnOp]⟩
  | collOwn s a =>
    cases a <;> simp only [ifaceMsg, Option.some.injEq, Prod.mk.injEq] at h <;> obtain ⟨_, rfl⟩ := h <;>
      exact ⟨rfl, by simp [isBurnOp]⟩
  | _ => simp [ifaceMsg] at h

/-- **one accepted step without impersonation, from a state satisfying the invariant** -/
theorem e2e_step {s s' : State} {op : Op} (hi : SInv s) (hno : NoImp s op) (h : step s op = .ok s') :
    SInv s' ∧
    (∀ m c, s.mc = some (m, c) → ∃ m' c', s'.mc = some (m', c') ∧ m'.addr = m.addr ∧ Step3 op m m' c c') ∧
    (s.mc = none → ∀ m' c', s'.mc = some (m', c') → m'.seq.tokenIndex = 0 ∧ c'.core.tokens = [] ∧ c'.core.count = 0) := by
  -- a reusable packaging: the post-state has exactly one (minter, collection) pair with the three invariant clauses
  have pack : ∀ (m' : Minter) (c' : CF.Coll), s'.mc = some (m', c') → c'.core.ids.Nodup → c'.legacy = none →
      c'.core.ownership = ⟨some m'.addr, none, none⟩ → Supply.QInv (omOf m' c').seq → SInv s' := by
    intro m' c' hmc' h1 h2 h3 h4
    refine ⟨?_, ?_, ?_⟩ <;> intro m'' c'' hx <;> rw [hmc'] at hx <;>
      simp only [Option.some.injEq, Prod.mk.injEq] at hx <;> obtain ⟨rfl, rfl⟩ := hx
    · exact ⟨h1, h2⟩
    · exact h3
    · exact h4
  have hcoll : ∀ (sender : Addr) (funds : List Coin) (msg : CF.ExecMsg), collSender op = some sender →
      (isMintOp op = false) → (isBurnOp op = true ↔ ∃ id, msg = .burn id) →
      collExec s sender funds msg = .ok s' →
      SInv s' ∧
      (∀ m c, s.mc = some (m, c) → ∃ m' c', s'.mc = some (m', c') ∧ m'.addr = m.addr ∧ Step3 op m m' c c') ∧
      (s.mc = none → ∀ m' c', s'.mc = some (m', c') → m'.seq.tokenIndex = 0 ∧ c'.core.tokens = [] ∧ c'.core.count = 0) := by
    intro sender funds msg hsnd hnm hburn hx
    obtain ⟨m, c, _, _, _, hmc, _⟩ := collExec_ok hx
    have hs : sender ≠ m.addr := fun heq => hno m c hmc (by rw [hsnd, heq])
    obtain ⟨c', hmc', h1, h2, h3, h4, h5, h6⟩ := collExec_post hi hmc hs hx
    refine ⟨pack m c' hmc' h1 h2 (by rw [h3]; exact hi.own m c hmc) h5, ?_, fun hn => by rw [hmc] at hn; cases hn⟩
    intro m0 c0 hmc0
    rw [hmc] at hmc0
    simp only [Option.some.injEq, Prod.mk.injEq] at hmc0
    obtain ⟨rfl, rfl⟩ := hmc0
    refine ⟨m, c', hmc', rfl, ?_⟩
    rcases h6 with ⟨id, hmsg, hmem, hf⟩ | ⟨hnb, hsame, hcnt⟩
    · exact Or.inr (Or.inl ⟨hburn.2 ⟨id, hmsg⟩, hnm, rfl, ⟨id, hmem, hf⟩, h4⟩)
    · refine Or.inr (Or.inr ⟨hnm, ?_, rfl, hsame, hcnt, Or.inl h4⟩)
      cases hb : isBurnOp op with
      | false => rfl
      | true => obtain ⟨id, hid⟩ := hburn.1 hb; exact absurd hid (hnb id)
  cases op with
  | sys o =>
    rcases step_sys_cases s o with ⟨vo, sender, mm, rfl, hif, hst⟩ | ⟨vo, rfl, _, hst⟩ | ⟨hp, hst⟩
    · rw [hst] at h
      exact hcoll sender [] mm (by simp [collSender, hif]) (iface_burn hif).1 (iface_burn hif).2 h
    · rw [hst] at h; cases h
    · rw [hst] at h
      cases hmc : s.mc with
      | none =>
        obtain ⟨r, _, hcase⟩ := sysStep_ok h
        rcases hcase with ⟨_, rfl⟩ | ⟨m0, c0, _, _, _, hmc0, _⟩
        · have hn' : (setSys s r r.bank none 0 0).mc = none := setSys_mc_none _ _ _ _ _
          refine ⟨⟨?_, ?_, ?_⟩, (fun _ _ hx => by cases hx), (fun _ m' c' hx => by rw [hn'] at hx; cases hx)⟩ <;>
            intro m' c' hx <;> rw [hn'] at hx <;> cases hx
        · rw [hmc] at hmc0; cases hmc0
      | some mc =>
        obtain ⟨m, c⟩ := mc
        obtain ⟨m', c', hmc', ha, _, h1, h2, h3, h4, hk⟩ := sysStep_post hp hi hmc h
        refine ⟨pack m' c' hmc' h1 h2 (by rw [h3, ha]; exact hi.own m c hmc) h4, ?_, fun hn => by cases hn⟩
        intro m0 c0 hmc0
        simp only [Option.some.injEq, Prod.mk.injEq] at hmc0
        obtain ⟨rfl, rfl⟩ := hmc0
        refine ⟨m', c', hmc', ha, ?_⟩
        rcases isMint_sub o with ⟨rcpt, hsub, hm1, hm2, hm3⟩ | ⟨hsub, hm1, hm3⟩
        · rw [hsub] at hk
          obtain ⟨uri, ext, k1, k2, k3, k4, k5⟩ := hk
          exact Or.inl ⟨hm1, hm3, k1, ⟨rcpt, uri, ext, hm2, k2⟩, k3, k4, k5⟩
        · cases hso : subOf o with
          | mint rcpt => exact absurd hso (hsub rcpt)
          | trading t =>
            rw [hso] at hk
            obtain ⟨k1, k2, k3, k4⟩ := hk
            obtain ⟨sd, fu, rfl⟩ := sub_trading hso
            exact Or.inr (Or.inr ⟨hm1, hm3 hp, k1, k2, k3, Or.inr ⟨sd, fu, t, rfl, k4⟩⟩)
          | none =>
            rw [hso] at hk
            obtain ⟨k1, rfl⟩ := hk
            exact Or.inr (Or.inr ⟨hm1, hm3 hp, k1, rfl, rfl, Or.inl rfl⟩)
  | create sender funds msg w ci uri ext =>
    obtain ⟨hnone, m', c', hmc', k1, k2, k3, k4, k5, k6, _⟩ := create_post (show create s sender funds msg w ci uri ext = .ok s' from h)
    refine ⟨pack m' c' hmc' (by simp [Sg721.State.ids, k2]) k4 k5 k6, (fun m c hx => by rw [hnone] at hx; cases hx), ?_⟩
    intro _ m'' c'' hx
    rw [hmc'] at hx
    simp only [Option.some.injEq, Prod.mk.injEq] at hx
    obtain ⟨rfl, rfl⟩ := hx
    exact ⟨k1, k2, k3⟩
  | block hh t =>
    simp only [step] at h
    split at h
    · cases h
    · cases h
      refine ⟨⟨hi.good, hi.own, hi.sup⟩, ?_, fun hn _ _ hx => by rw [show ({ s with height := hh, now := t } : State).mc = s.mc from rfl, hn] at hx; cases hx⟩
      intro m c hmc
      exact ⟨m, c, hmc, rfl, Or.inr (Or.inr ⟨rfl, rfl, rfl, rfl, rfl, Or.inl rfl⟩)⟩
  | collExec sender funds msg =>
    refine hcoll sender funds msg rfl rfl ?_ h
    cases msg <;> simp [isBurnOp]
  | collMigrateUpdatable =>
    have hx : collEnv s .migrateUpdatable = .ok s' := h
    obtain ⟨m, c, _, hmc, _⟩ := collEnv_parts hx (Or.inl rfl)
    obtain ⟨c', hmc', h1, h2, h3, h4, h5⟩ := collEnv_post (Or.inl rfl) hi hmc hx
    obtain ⟨hn, _⟩ := hi.good m c hmc
    have hq : Supply.QInv (omOf m c').seq := by
      have : (omOf m c').seq = (omOf m c).seq := by simp only [omOf, h1]
      rw [this]; exact hi.sup m c hmc
    refine ⟨pack m c' hmc' (by rw [h2]; exact hn) h4 (by rw [h3]; exact hi.own m c hmc) hq, ?_, fun hn => by rw [hmc] at hn; cases hn⟩
    intro m0 c0 hmc0
    rw [hmc] at hmc0
    simp only [Option.some.injEq, Prod.mk.injEq] at hmc0
    obtain ⟨rfl, rfl⟩ := hmc0
    exact ⟨m, c', hmc', rfl, Or.inr (Or.inr ⟨rfl, rfl, rfl, h2, count_eq_of_ids (hi.sup m c hmc) rfl hq rfl h2, Or.inl h5⟩)⟩
  | collMigrateSelf =>
    have hx : collEnv s .migrateSelf = .ok s' := h
    obtain ⟨m, c, _, hmc, _⟩ := collEnv_parts hx (Or.inr (Or.inl rfl))
    obtain ⟨c', hmc', h1, h2, h3, h4, h5⟩ := collEnv_post (Or.inr (Or.inl rfl)) hi hmc hx
    obtain ⟨hn, _⟩ := hi.good m c hmc
    have hq : Supply.QInv (omOf m c').seq := by
      have : (omOf m c').seq = (omOf m c).seq := by simp only [omOf, h1]
      rw [this]; exact hi.sup m c hmc
    refine ⟨pack m c' hmc' (by rw [h2]; exact hn) h4 (by rw [h3]; exact hi.own m c hmc) hq, ?_, fun hn => by rw [hmc] at hn; cases hn⟩
    intro m0 c0 hmc0
    rw [hmc] at hmc0
    simp only [Option.some.injEq, Prod.mk.injEq] at hmc0
    obtain ⟨rfl, rfl⟩ := hmc0
    exact ⟨m, c', hmc', rfl, Or.inr (Or.inr ⟨rfl, rfl, rfl, h2, count_eq_of_ids (hi.sup m c hmc) rfl hq rfl h2, Or.inl h5⟩)⟩
  | collSetVersion v =>
    have hx : collEnv s (.setVersion v) = .ok s' := h
    obtain ⟨m, c, _, hmc, _⟩ := collEnv_parts hx (Or.inr (Or.inr ⟨v, rfl⟩))
    obtain ⟨c', hmc', h1, h2, h3, h4, h5⟩ := collEnv_post (Or.inr (Or.inr ⟨v, rfl⟩)) hi hmc hx
    obtain ⟨hn, _⟩ := hi.good m c hmc
    have hq : Supply.QInv (omOf m c').seq := by
      have : (omOf m c').seq = (omOf m c).seq := by simp only [omOf, h1]
      rw [this]; exact hi.sup m c hmc
    refine ⟨pack m c' hmc' (by rw [h2]; exact hn) h4 (by rw [h3]; exact hi.own m c hmc) hq, ?_, fun hn => by rw [hmc] at hn; cases hn⟩
    intro m0 c0 hmc0
    rw [hmc] at hmc0
    simp only [Option.some.injEq, Prod.mk.injEq] at hmc0
    obtain ⟨rfl, rfl⟩ := hmc0
    exact ⟨m, c', hmc', rfl, Or.inr (Or.inr ⟨rfl, rfl, rfl, h2, count_eq_of_ids (hi.sup m c hmc) rfl hq rfl h2, Or.inl h5⟩)⟩

/-- an accepted `UpdateStartTradingTime` of the minter: by its admin, no funds, within the factory's bound for the offset and
the minter's start time of that moment -/
theorem trading_guard {s s' : State} {sender : Addr} {funds : List Coin} {t : Option Nat} {m : Minter} {c : CF.Coll}
    (hmc : s.mc = some (m, c)) (h : step s (.sys (.minter (.updateStartTradingTime sender funds t))) = .ok s') :
    funds = [] ∧ sender = m.admin ∧
      TT.tradingUpdateOk .openEdition s.now m.startTime s.params.maxTradingOffsetSecs t = true := by
  have hst : step s (.sys (.minter (.updateStartTradingTime sender funds t))) =
      sysStep s (.minter (.updateStartTradingTime sender funds t)) := rfl
  rw [hst] at h
  obtain ⟨r, hr, _⟩ := sysStep_ok h
  obtain ⟨_, c0, hc0, _⟩ := SysOE.step_minter_ok hr
  simp only [OE.step] at hc0
  obtain ⟨m0, m1, hm0, hf, _⟩ := OE.withMinter_ok hc0
  have : (SysOE.oeOf (sysOf s)).minter = some (omOf m c) := sysOf_minter_some hmc
  rw [this] at hm0
  cases hm0
  obtain ⟨_, h1, h2, h3, _, _⟩ := OE.updateStartTradingTime_ok hf
  exact ⟨h1, h2, h3⟩

/-! ## `SInv` is an invariant -/

theorem sinv_step' {s : State} (op : Op) (hi : SInv s) (hno : NoImp s op) : SInv (step' s op) := by
  rcases step'_cases s op with ⟨s', hs, hs'⟩ | ⟨_, hs'⟩
  · rw [hs']; exact (e2e_step hi hno hs).1
  · rw [hs']; exact hi

theorem sinv_run {s : State} (ops : List Op) (hi : SInv s) (hno : NoImpRun s ops) : SInv (run s ops) := by
  induction ops generalizing s with
  | nil => exact hi
  | cons op ops ih => exact ih (sinv_step' op hi hno.1) hno.2

theorem sinv_init (height now : Nat) (codes : VF.Codes) (fac : Addr) (p : OE.Params) : SInv (init height now codes fac p) :=
  ⟨(fun _ _ h => by cases h), (fun _ _ h => by cases h), (fun _ _ h => by cases h)⟩

/-- every prefix of a history without impersonation satisfies the invariant, and its next op is no impersonation -/
theorem sinv_prefix {s : State} (pre : List Op) (op : Op) (post : List Op) (hi : SInv s)
    (hno : NoImpRun s (pre ++ op :: post)) : SInv (run s pre) ∧ NoImp (run s pre) op := by
  induction pre generalizing s with
  | nil => exact ⟨hi, hno.1⟩
  | cons p pre ih => exact ih (sinv_step' p hi hno.1) hno.2

end LP.SysOE2
