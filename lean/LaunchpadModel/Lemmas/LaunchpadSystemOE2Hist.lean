import LaunchpadModel.Lemmas.LaunchpadSystemOE2E2E
/-!
# Open-edition system composite 2: histories — the ids ever created, the number of accepted mints and burns

`createdRun s ops`: the token ids that come into existence in the collection along the history, in order of creation (`newIds`: the
ids present after a step that were not present before it).  `mintsRun` / `burnsRun`: accepted mint ops of the minter (`Mint {}`,
`MintTo`) / accepted `Burn` messages.  `hist_step`: one step of a history without impersonation; `hist_run`: the whole history.
-/
namespace LP.SysOE2
open LP

def idsOf (s : State) : List Nat :=
  match s.mc with
  | some (_, c) => c.core.ids
  | none => []

/-- `TOKEN_INDEX` -/
def idxOf (s : State) : Nat :=
  match s.mc with
  | some (m, _) => m.seq.tokenIndex
  | none => 0

/-- `TotalMintCount {}` -/
def totalOf (s : State) : Nat :=
  match s.mc with
  | some (m, _) => m.seq.totalMint
  | none => 0

/-- the collection's `NumTokens {}` -/
def numTokens (s : State) : Nat :=
  match s.mc with
  | some (_, c) => c.core.count
  | none => 0

/-- ids that exist after the step and did not before -/
def newIds (s s' : State) : List Nat := (idsOf s').filter fun i => !(idsOf s).contains i

def createdRun : State → List Op → List Nat
  | _, [] => []
  | s, op :: ops => newIds s (step' s op) ++ createdRun (step' s op) ops

/-- 1 when the op is an accepted mint of the minter -/
def mintBit (s : State) (op : Op) : Nat := if accepted s op && isMintOp op then 1 else 0

/-- 1 when the op is an accepted `Burn` -/
def burnBit (s : State) (op : Op) : Nat := if accepted s op && isBurnOp op then 1 else 0

def mintsRun : State → List Op → Nat
  | _, [] => 0
  | s, op :: ops => mintBit s op + mintsRun (step' s op) ops

def burnsRun : State → List Op → Nat
  | _, [] => 0
  | s, op :: ops => burnBit s op + burnsRun (step' s op) ops

/-! ## lists -/

theorem filter_not_contains_self (l : List Nat) : (l.filter fun i => !l.contains i) = [] := by
  rw [List.filter_eq_nil_iff]
  intro a ha
  simp [ha]

theorem filter_not_contains_sub (l l' : List Nat) (h : ∀ a ∈ l', a ∈ l) : (l'.filter fun i => !l.contains i) = [] := by
  rw [List.filter_eq_nil_iff]
  intro a ha
  simp [h a ha]

theorem filter_not_contains_snoc (l : List Nat) (x : Nat) (hx : x ∉ l) : ((l ++ [x]).filter fun i => !l.contains i) = [x] := by
  rw [List.filter_append, filter_not_contains_self]
  simp [hx]

theorem length_filter_not_eq (l : List Nat) (id : Nat) (hn : l.Nodup) (hm : id ∈ l) :
    (l.filter fun x => !decide (x = id)).length + 1 = l.length := by
  have := Supply.length_filter_ne_of_nodup l id hn hm
  have hf : (l.filter fun x => !decide (x = id)) = l.filter (· != id) := by
    apply List.filter_congr
    intro x _
    by_cases hx : x = id <;> simp [hx, bne]
  rw [hf]; exact this

/-! ## a mint / burn needs a minter -/

theorem none_not_mint_burn {s s' : State} {op : Op} (hn : s.mc = none) (h : step s op = .ok s') :
    isMintOp op = false ∧ isBurnOp op = false := by
  cases op with
  | sys o =>
    rcases step_sys_cases s o with ⟨vo, sender, mm, rfl, hif, hst⟩ | ⟨vo, rfl, _, hst⟩ | ⟨hp, hst⟩
    · rw [hst] at h
      obtain ⟨m, c, _, _, _, hmc, _⟩ := collExec_ok h
      rw [hn] at hmc; cases hmc
    · rw [hst] at h; cases h
    · rw [hst] at h
      obtain ⟨r, hr, _⟩ := sysStep_ok h
      have hmn : (SysOE.oeOf (sysOf s)).minter = none := sysOf_minter_none hn
      cases o with
      | mint sender funds stage alloc proof =>
        obtain ⟨c, hc, _⟩ := SysOE.step_mint_ok hr
        simp only [SysOE.mintOp, OE.step] at hc
        obtain ⟨m, hm, _⟩ := OE.withMinterS_ok hc
        rw [hmn] at hm; cases hm
      | wlInst v sender funds self m => exact ⟨rfl, rfl⟩
      | wlExec k sender funds m => exact ⟨rfl, rfl⟩
      | minter vo =>
        cases vo
        case mintTo sender funds rcpt =>
          obtain ⟨_, c, hc, _⟩ := SysOE.step_minter_ok hr
          simp only [OE.step] at hc
          obtain ⟨m, hm, _⟩ := OE.withMinterS_ok hc
          rw [hmn] at hm; cases hm
        case collBurn sender id => simp [plainOp, plainOE, ifaceMsg] at hp
        all_goals exact ⟨rfl, rfl⟩
  | create sender funds msg w ci uri ext => exact ⟨rfl, rfl⟩
  | block hh t => exact ⟨rfl, rfl⟩
  | collExec sender funds msg =>
    obtain ⟨m, c, _, _, _, hmc, _⟩ := collExec_ok (show collExec s sender funds msg = .ok s' from h)
    rw [hn] at hmc; cases hmc
  | collMigrateUpdatable => exact ⟨rfl, rfl⟩
  | collMigrateSelf => exact ⟨rfl, rfl⟩
  | collSetVersion v => exact ⟨rfl, rfl⟩

/-! ## one step of a history -/

theorem ids_of_tokens_snoc (c c' : Sg721.State) (t : Sg721.Token) (h : c'.tokens = c.tokens ++ [t]) : c'.ids = c.ids ++ [t.id] := by
  simp [Sg721.State.ids, h]

theorem numTokens_eq_length {s : State} (hi : SInv s) : numTokens s = (idsOf s).length := by
  unfold numTokens idsOf
  cases hmc : s.mc with
  | none => rfl
  | some mc =>
    obtain ⟨m, c⟩ := mc
    have := count_of_qinv (hi.sup m c hmc) rfl
    simp only [this, Sg721.State.ids, List.length_map]

/-- **one step of a history without impersonation** -/
theorem hist_step {s : State} (op : Op) (hi : SInv s) (hno : NoImp s op) :
    newIds s (step' s op) = (if mintBit s op = 1 then [idxOf s + 1] else []) ∧
    idxOf (step' s op) = idxOf s + mintBit s op ∧
    numTokens (step' s op) + burnBit s op = numTokens s + mintBit s op := by
  by_cases hacc : ∃ e, step s op = .error e
  · obtain ⟨e, he⟩ := hacc
    rw [step'_err he]
    have ha := accepted_err he
    simp [mintBit, burnBit, ha, newIds]
  obtain ⟨s', hs⟩ : ∃ s', step s op = .ok s' := by
    cases hx : step s op with
    | ok s' => exact ⟨s', rfl⟩
    | error e => exact absurd ⟨e, hx⟩ hacc
  rw [step'_ok hs]
  have ha := accepted_ok hs
  obtain ⟨hi', hsome, hnone⟩ := e2e_step hi hno hs
  cases hmc : s.mc with
  | none =>
    obtain ⟨hm, hb⟩ := none_not_mint_burn hmc hs
    have h0 : idsOf s = [] := by simp [idsOf, hmc]
    cases hmc' : s'.mc with
    | none => simp [mintBit, burnBit, hm, hb, newIds, idsOf, idxOf, numTokens, hmc, hmc']
    | some mc' =>
      obtain ⟨m', c'⟩ := mc'
      obtain ⟨k1, k2, k3⟩ := hnone hmc m' c' hmc'
      simp [mintBit, burnBit, hm, hb, newIds, idsOf, idxOf, numTokens, hmc, hmc', k1, k2, k3, Sg721.State.ids]
  | some mc =>
    obtain ⟨m, c⟩ := mc
    obtain ⟨m', c', hmc', _, h3⟩ := hsome m c hmc
    have hn := (hi.good m c hmc).1
    have hlen := numTokens_eq_length hi
    have hlen' := numTokens_eq_length hi'
    simp only [numTokens, idsOf, hmc, hmc'] at hlen hlen'
    rcases h3 with ⟨hm, hb, kidx, ⟨rcpt, uri, ext, _, ktoks⟩, kcnt, kfresh, _⟩ | ⟨hb, hm, kidx, ⟨id, kmem, kids⟩, _⟩ |
      ⟨hm, hb, kidx, kids, kcnt, _⟩
    · have hids := ids_of_tokens_snoc c.core c'.core _ ktoks
      simp only [mintBit, burnBit, ha, hm, hb, newIds, idsOf, idxOf, numTokens, hmc, hmc', Bool.and_self, Bool.and_false,
        if_true, Bool.false_eq_true, if_false, hids, kidx, kcnt, Nat.add_zero, and_self, and_true]
      exact filter_not_contains_snoc _ _ kfresh
    · have hl := length_filter_not_eq c.core.ids id hn kmem
      rw [← kids] at hl
      simp only [mintBit, burnBit, ha, hm, hb, newIds, idsOf, idxOf, numTokens, hmc, hmc', Bool.and_self, Bool.and_false,
        if_true, Bool.false_eq_true, if_false, kidx, Nat.add_zero, true_and, Nat.zero_ne_one]
      refine ⟨?_, ?_⟩
      · apply filter_not_contains_sub
        intro a h
        rw [kids] at h
        exact (List.mem_filter.mp h).1
      · omega
    · simp only [mintBit, burnBit, ha, hm, hb, newIds, idsOf, idxOf, numTokens, hmc, hmc', Bool.and_false,
        Bool.false_eq_true, if_false, kidx, kids, kcnt, Nat.add_zero, and_self, and_true, Nat.zero_ne_one]
      exact filter_not_contains_self _

/-! ## whole histories -/

theorem range'_bit (a b n : Nat) (hb : b = 0 ∨ b = 1) :
    (if b = 1 then [a + 1] else []) ++ List.range' (a + b + 1) n = List.range' (a + 1) (b + n) := by
  rcases hb with rfl | rfl
  · simp
  · simp only [if_true, List.singleton_append]
    rw [Nat.add_comm 1 n, List.range'_succ]

theorem mintBit_cases (s : State) (op : Op) : mintBit s op = 0 ∨ mintBit s op = 1 := by
  unfold mintBit; split <;> simp

/-- **every history without impersonation, from any state satisfying the invariant** -/
theorem hist_run {s : State} (ops : List Op) (hi : SInv s) (hno : NoImpRun s ops) :
    createdRun s ops = List.range' (idxOf s + 1) (mintsRun s ops) ∧
    idxOf (run s ops) = idxOf s + mintsRun s ops ∧
    numTokens (run s ops) + burnsRun s ops = numTokens s + mintsRun s ops := by
  induction ops generalizing s with
  | nil => simp [createdRun, mintsRun, burnsRun, run_nil]
  | cons op ops ih =>
    obtain ⟨h1, h2, h3⟩ := hist_step op hi hno.1
    obtain ⟨i1, i2, i3⟩ := ih (sinv_step' op hi hno.1) hno.2
    refine ⟨?_, ?_, ?_⟩
    · simp only [createdRun, mintsRun]
      rw [h1, i1, h2]
      exact range'_bit _ _ _ (mintBit_cases s op)
    · rw [run_cons, i2, h2]; simp only [mintsRun]; omega
    · rw [run_cons]; simp only [mintsRun, burnsRun]; omega

/-- an id that is gone stays gone: ids only enter the collection as `TOKEN_INDEX + 1` -/
theorem never_back {s : State} (ops : List Op) (hi : SInv s) (hno : NoImpRun s ops) (id : Nat) (hle : id ≤ idxOf s)
    (hgone : id ∉ idsOf s) : id ∉ idsOf (run s ops) := by
  induction ops generalizing s with
  | nil => exact hgone
  | cons op ops ih =>
    obtain ⟨h1, h2, _⟩ := hist_step op hi hno.1
    rw [run_cons]
    refine ih (sinv_step' op hi hno.1) hno.2 (by omega) ?_
    intro hmem
    by_cases hc : id ∈ idsOf s
    · exact hgone hc
    · have : id ∈ newIds s (step' s op) := by
        unfold newIds
        rw [List.mem_filter]
        exact ⟨hmem, by simp [hc]⟩
      rw [h1] at this
      split at this
      · simp only [List.mem_singleton] at this; omega
      · cases this

end LP.SysOE2
