import LaunchpadModel.Model.MintPay
/-!
# Helper lemmas for C02: the bank ledger, conservation over a duplicate-free account list, arithmetic of the fee split.
Core Lean only.
-/
namespace LP.MintPay
open LP

/-! ## Arithmetic -/

theorem mulFloor_bps (p b : Nat) : mulFloor p (bps b) = p * b / 10000 := by
  unfold mulFloor bps
  have h : (10:Nat)^18 = 10000 * 10^14 := by decide
  rw [h, ← Nat.mul_assoc]
  exact Nat.mul_div_mul_right (p * b) 10000 (by decide)

theorem mulFloor_le (x dec : Nat) (h : dec ≤ 10^18) : mulFloor x dec ≤ x := by
  unfold mulFloor
  have h1 : x * dec ≤ x * 10^18 := Nat.mul_le_mul_left x h
  generalize x * dec = p at h1
  omega

theorem mulCeil_le (x dec : Nat) (h : dec ≤ 10^18) : mulCeil x dec ≤ x := by
  unfold mulCeil
  have h1 : x * dec ≤ x * 10^18 := Nat.mul_le_mul_left x h
  generalize x * dec = p at h1
  simp only []
  split <;> omega

theorem bps_le (b : Nat) (h : b ≤ 10000) : bps b ≤ 10^18 := by
  unfold bps; omega

theorem burnPercent_le : percent Gen.sg1_FEE_BURN_PERCENT ≤ 10^18 := by decide

theorem ratio5_le : fromRatio 1 5 ≤ 10^18 := by decide
theorem ratio8_le : fromRatio 1 8 ≤ 10^18 := by decide

/-! ## Flows of the `sg1` message lists -/

theorem outflow_append (d : Denom) (xs ys : List Msg) : outflow d (xs ++ ys) = outflow d xs + outflow d ys := by
  induction xs with
  | nil => simp [outflow]
  | cons x xs ih => simp [outflow, ih]; omega

theorem inflow_append (a : Addr) (d : Denom) (xs ys : List Msg) : inflow a d (xs ++ ys) = inflow a d xs + inflow a d ys := by
  induction xs with
  | nil => simp [inflow]
  | cons x xs ih => simp [inflow, ih]; omega

theorem burnt_append (d : Denom) (xs ys : List Msg) : burnt d (xs ++ ys) = burnt d xs + burnt d ys := by
  induction xs with
  | nil => simp [burnt]
  | cons x xs ih => simp [burnt, ih]; omega

/-- liquidity-DAO share of `distribute_mint_fees` -/
def liqRatio (ft : Bool) : Nat := if ft then fromRatio 1 8 else fromRatio 1 5

theorem liqRatio_le (ft : Bool) : liqRatio ft ≤ 10^18 := by
  cases ft
  · exact ratio5_le
  · exact ratio8_le

theorem distribute_none (fd : Denom) (F : Nat) (ft : Bool) :
    Sg1.distributeMintFees ⟨fd, F⟩ ft none =
      [ Msg.send LIQUIDITY_DAO ⟨fd, mulCeil F (liqRatio ft)⟩, Msg.send LAUNCHPAD_DAO ⟨fd, F - mulCeil F (liqRatio ft)⟩ ] := by
  cases ft <;> rfl

theorem distribute_some (fd : Denom) (F : Nat) (ft : Bool) (dv : Addr) :
    Sg1.distributeMintFees ⟨fd, F⟩ ft (some dv) =
      [ Msg.send dv ⟨fd, mulCeil F (percent Gen.sg1_FEE_BURN_PERCENT)⟩,
        Msg.send LIQUIDITY_DAO ⟨fd, mulCeil (F - mulCeil F (percent Gen.sg1_FEE_BURN_PERCENT)) (liqRatio ft)⟩,
        Msg.send LAUNCHPAD_DAO ⟨fd, F - mulCeil F (percent Gen.sg1_FEE_BURN_PERCENT)
          - mulCeil (F - mulCeil F (percent Gen.sg1_FEE_BURN_PERCENT)) (liqRatio ft)⟩ ] := by
  cases ft <;> rfl

theorem sends2_flow (fd d : Denom) (a b : Addr) (x y : Nat) :
    outflow d [Msg.send a ⟨fd, x⟩, Msg.send b ⟨fd, y⟩] = (if fd = d then x + y else 0) ∧
    burnt d [Msg.send a ⟨fd, x⟩, Msg.send b ⟨fd, y⟩] = 0 := by
  simp only [outflow, burnt, msgDest, Msg.denom, Msg.amount]
  by_cases h : fd = d <;> simp [h]

theorem sends3_flow (fd d : Denom) (a b c : Addr) (x y z : Nat) :
    outflow d [Msg.send a ⟨fd, x⟩, Msg.send b ⟨fd, y⟩, Msg.send c ⟨fd, z⟩] = (if fd = d then x + y + z else 0) ∧
    burnt d [Msg.send a ⟨fd, x⟩, Msg.send b ⟨fd, y⟩, Msg.send c ⟨fd, z⟩] = 0 := by
  simp only [outflow, burnt, msgDest, Msg.denom, Msg.amount]
  by_cases h : fd = d <;> simp [h]; omega

/-- `distribute_mint_fees` pays out exactly the fee, in the fee's denom, and burns nothing -/
theorem distribute_outflow (fd : Denom) (F : Nat) (ft : Bool) (dev : Option Addr) (d : Denom) :
    outflow d (Sg1.distributeMintFees ⟨fd, F⟩ ft dev) = (if fd = d then F else 0) ∧
    burnt d (Sg1.distributeMintFees ⟨fd, F⟩ ft dev) = 0 := by
  cases dev with
  | none =>
    rw [distribute_none]
    have h1 := mulCeil_le F _ (liqRatio_le ft)
    generalize mulCeil F (liqRatio ft) = liq at h1 ⊢
    have := sends2_flow fd d LIQUIDITY_DAO LAUNCHPAD_DAO liq (F - liq)
    rw [this.1, this.2]
    have e : liq + (F - liq) = F := by omega
    rw [e]; exact ⟨rfl, rfl⟩
  | some dv =>
    rw [distribute_some]
    have h0 := mulCeil_le F _ burnPercent_le
    generalize mulCeil F (percent Gen.sg1_FEE_BURN_PERCENT) = df at h0 ⊢
    have h1 := mulCeil_le (F - df) _ (liqRatio_le ft)
    generalize mulCeil (F - df) (liqRatio ft) = liq at h1 ⊢
    have := sends3_flow fd d dv LIQUIDITY_DAO LAUNCHPAD_DAO df liq (F - df - liq)
    rw [this.1, this.2]
    have e : df + liq + (F - df - liq) = F := by omega
    rw [e]; exact ⟨rfl, rfl⟩

theorem fairBurn_none (self : Addr) (F : Nat) :
    Sg1.fairBurn self F none =
      [ Msg.burn ⟨NATIVE, mulFloor F (percent Gen.sg1_FEE_BURN_PERCENT)⟩,
        Msg.fundPool self ⟨NATIVE, F - mulFloor F (percent Gen.sg1_FEE_BURN_PERCENT)⟩ ] := rfl

theorem fairBurn_some (self : Addr) (F : Nat) (dv : Addr) :
    Sg1.fairBurn self F (some dv) =
      [ Msg.burn ⟨NATIVE, mulFloor F (percent Gen.sg1_FEE_BURN_PERCENT)⟩,
        Msg.send dv ⟨NATIVE, F - mulFloor F (percent Gen.sg1_FEE_BURN_PERCENT)⟩ ] := rfl

theorem burn_send_flow (d : Denom) (a : Addr) (x y : Nat) :
    outflow d [Msg.burn ⟨NATIVE, x⟩, Msg.send a ⟨NATIVE, y⟩] = (if NATIVE = d then x + y else 0) ∧
    burnt d [Msg.burn ⟨NATIVE, x⟩, Msg.send a ⟨NATIVE, y⟩] = (if NATIVE = d then x else 0) := by
  simp only [outflow, burnt, msgDest, Msg.denom, Msg.amount]
  by_cases h : NATIVE = d <;> simp [h]

theorem burn_pool_flow (d : Denom) (s : Addr) (x y : Nat) :
    outflow d [Msg.burn ⟨NATIVE, x⟩, Msg.fundPool s ⟨NATIVE, y⟩] = (if NATIVE = d then x + y else 0) ∧
    burnt d [Msg.burn ⟨NATIVE, x⟩, Msg.fundPool s ⟨NATIVE, y⟩] = (if NATIVE = d then x else 0) := by
  simp only [outflow, burnt, msgDest, Msg.denom, Msg.amount]
  by_cases h : NATIVE = d <;> simp [h]

/-- `fair_burn` disposes of exactly the fee in the native denom; the burnt part is `floor(fee × FEE_BURN_PERCENT%)` -/
theorem fairBurn_outflow (self : Addr) (F : Nat) (dev : Option Addr) (d : Denom) :
    outflow d (Sg1.fairBurn self F dev) = (if NATIVE = d then F else 0) ∧
    burnt d (Sg1.fairBurn self F dev) = (if NATIVE = d then mulFloor F (percent Gen.sg1_FEE_BURN_PERCENT) else 0) := by
  have h0 := mulFloor_le F _ burnPercent_le
  cases dev with
  | none =>
    rw [fairBurn_none]
    generalize mulFloor F (percent Gen.sg1_FEE_BURN_PERCENT) = bf at h0 ⊢
    have key := burn_pool_flow d self bf (F - bf)
    rw [key.1, key.2]
    have e : bf + (F - bf) = F := by omega
    rw [e]; exact ⟨rfl, rfl⟩
  | some dv =>
    rw [fairBurn_some]
    generalize mulFloor F (percent Gen.sg1_FEE_BURN_PERCENT) = bf at h0 ⊢
    have key := burn_send_flow d dv bf (F - bf)
    rw [key.1, key.2]
    have e : bf + (F - bf) = F := by omega
    rw [e]; exact ⟨rfl, rfl⟩

/-! ## Ledger of single bank operations -/

theorem debit_spec {b b' : Bank} {a : Addr} {d : Denom} {n : Nat} (h : b.debit a d n = some b') :
    n ≤ b.bal a d ∧ (∀ a' d', b'.bal a' d' = if a' = a ∧ d' = d then b.bal a' d' - n else b.bal a' d') ∧
    b'.minted = b.minted ∧ b'.burned = b.burned := by
  unfold Bank.debit at h
  split at h
  · cases h; exact ⟨by assumption, fun _ _ => rfl, rfl, rfl⟩
  · cases h

theorem send_ledger {b b' : Bank} {src dst : Addr} {c : Coin} (h : b.send src dst c = some b') (a : Addr) (d : Denom) :
    b'.bal a d + (if a = src ∧ d = c.denom then c.amount else 0) =
      b.bal a d + (if a = dst ∧ d = c.denom then c.amount else 0) := by
  unfold Bank.send at h
  split at h
  · cases h
  · split at h
    · cases h
    · rename_i b1 hb1
      cases h
      obtain ⟨hle, hbal, _, _⟩ := debit_spec hb1
      simp only [Bank.credit, hbal]
      by_cases hs : a = src <;> by_cases hd : a = dst <;> by_cases hn : d = c.denom
      all_goals (try subst hs); (try subst hd); (try subst hn)
      all_goals simp_all
      all_goals omega

theorem send_meta {b b' : Bank} {src dst : Addr} {c : Coin} (h : b.send src dst c = some b') :
    b'.minted = b.minted ∧ b'.burned = b.burned ∧ c.amount ≠ 0 ∧ c.amount ≤ b.bal src c.denom := by
  unfold Bank.send at h
  split at h
  · cases h
  · split at h
    · cases h
    · rename_i b1 hb1
      cases h
      obtain ⟨hle, _, hm, hb⟩ := debit_spec hb1
      exact ⟨hm, hb, by assumption, hle⟩

theorem burn_ledger {b b' : Bank} {src : Addr} {c : Coin} (h : b.burn src c = some b') (a : Addr) (d : Denom) :
    b'.bal a d + (if a = src ∧ d = c.denom then c.amount else 0) = b.bal a d ∧
    b'.burned d = b.burned d + (if d = c.denom then c.amount else 0) ∧ b'.minted = b.minted := by
  unfold Bank.burn at h
  split at h
  · cases h
  · split at h
    · cases h
    · rename_i b1 hb1
      cases h
      obtain ⟨hle, hbal, hm, hb⟩ := debit_spec hb1
      refine ⟨?_, ?_, hm⟩
      · simp only [hbal]
        by_cases h1 : a = src ∧ d = c.denom <;> simp [h1]
        obtain ⟨rfl, rfl⟩ := h1; omega
      · simp only [hb]
        by_cases hd : d = c.denom <;> simp [hd]

/-- one message: what leaves the emitter, what arrives, what is destroyed -/
theorem applyMsg_ledger {self : Addr} {b b' : Bank} {m : Msg} (h : applyMsg self b m = some b') (a : Addr) (d : Denom) :
    b'.bal a d + (if a = self then (if m.denom = d then m.amount else 0) else 0) =
      b.bal a d + (if msgDest m = some a ∧ m.denom = d then m.amount else 0) ∧
    b'.burned d = b.burned d + (if msgDest m = none ∧ m.denom = d then m.amount else 0) ∧
    b'.minted = b.minted := by
  cases m with
  | burn c =>
    obtain ⟨h1, h2, h3⟩ := burn_ledger h a d
    refine ⟨?_, ?_, h3⟩
    · simp only [msgDest, Msg.denom, Msg.amount]
      by_cases ha : a = self <;> by_cases hd : d = c.denom
      all_goals (try subst ha); (try subst hd)
      all_goals simp_all
      all_goals (first | omega | (have : ¬ c.denom = d := fun e => hd e.symm; simp_all))
    · simp only [msgDest, Msg.denom, Msg.amount, h2]
      by_cases hd : d = c.denom
      · simp [hd]
      · have : ¬ c.denom = d := fun e => hd e.symm
        simp [hd, this]
  | send to c =>
    have h1 := send_ledger h a d
    obtain ⟨hm, hb, _, _⟩ := send_meta h
    refine ⟨?_, ?_, hm⟩
    · simp only [msgDest, Msg.denom, Msg.amount]
      by_cases ha : a = self <;> by_cases hd : d = c.denom <;> by_cases ht : a = to
      all_goals (try subst ha); (try subst hd); (try subst ht)
      all_goals simp_all
      all_goals (first | omega | exact fun e => ht e.symm | (have : ¬ c.denom = d := fun e => hd e.symm; simp_all))
    · simp [msgDest, hb]
  | fundPool s c =>
    have h1 := send_ledger h a d
    obtain ⟨hm, hb, _, _⟩ := send_meta h
    refine ⟨?_, ?_, hm⟩
    · simp only [msgDest, Msg.denom, Msg.amount]
      by_cases ha : a = self <;> by_cases hd : d = c.denom <;> by_cases ht : a = FAIRBURN_POOL
      all_goals (try subst ha); (try subst hd); (try subst ht)
      all_goals simp_all
      all_goals (first | omega | exact fun e => ht e.symm | (have : ¬ c.denom = d := fun e => hd e.symm; simp_all))
    · simp [msgDest, hb]
/-- a whole message list -/
theorem applyMsgs_ledger {self : Addr} (ms : List Msg) {b b' : Bank} (h : applyMsgs self b ms = some b') (a : Addr) (d : Denom) :
    b'.bal a d + (if a = self then outflow d ms else 0) = b.bal a d + inflow a d ms ∧
    b'.burned d = b.burned d + burnt d ms ∧ b'.minted = b.minted := by
  induction ms generalizing b with
  | nil => simp [applyMsgs] at h; subst h; simp [outflow, inflow, burnt]
  | cons m ms ih =>
    simp only [applyMsgs] at h
    split at h
    · cases h
    · rename_i b1 hb1
      obtain ⟨i1, i2, i3⟩ := ih h
      obtain ⟨s1, s2, s3⟩ := applyMsg_ledger hb1 a d
      refine ⟨?_, ?_, by rw [i3, s3]⟩
      · simp only [outflow, inflow]
        by_cases ha : a = self <;> simp [ha] at i1 s1 ⊢ <;> omega
      · simp only [burnt]; omega

/-- amount of denom `d` in a coin list -/
def coinsIn (d : Denom) : List Coin → Nat
  | [] => 0
  | c :: cs => (if c.denom = d then c.amount else 0) + coinsIn d cs

theorem sendAll_ledger {src dst : Addr} (cs : List Coin) {b b' : Bank} (h : b.sendAll src dst cs = some b') (a : Addr) (d : Denom) :
    b'.bal a d + (if a = src then coinsIn d cs else 0) = b.bal a d + (if a = dst then coinsIn d cs else 0) ∧
    b'.burned = b.burned ∧ b'.minted = b.minted := by
  induction cs generalizing b with
  | nil => simp [Bank.sendAll] at h; subst h; simp [coinsIn]
  | cons c cs ih =>
    simp only [Bank.sendAll] at h
    split at h
    · cases h
    · rename_i b1 hb1
      obtain ⟨i1, i2, i3⟩ := ih h
      have s1 := send_ledger hb1 a d
      obtain ⟨sm, sb, _, _⟩ := send_meta hb1
      refine ⟨?_, by rw [i2, sb], by rw [i3, sm]⟩
      simp only [coinsIn]
      by_cases h3 : d = c.denom
      · subst h3
        by_cases h1 : a = src <;> by_cases h2 : a = dst
        all_goals (try subst h1); (try subst h2)
        all_goals simp_all
        all_goals omega
      · have h3' : ¬ c.denom = d := fun e => h3 e.symm
        by_cases h1 : a = src <;> by_cases h2 : a = dst
        all_goals (try subst h1); (try subst h2)
        all_goals simp_all

theorem coinsIn_filter (d : Denom) (cs : List Coin) : coinsIn d (cs.filter fun c => c.amount != 0) = coinsIn d cs := by
  induction cs with
  | nil => rfl
  | cons c cs ih =>
    rw [List.filter_cons]
    by_cases hz : c.amount = 0
    · simp [hz, coinsIn, ih]
    · have hb : (c.amount != 0) = true := by simp [hz]
      simp [hb, coinsIn, ih]

theorem sendFunds_ledger {src dst : Addr} {funds : List Coin} {b b' : Bank} (h : b.sendFunds src dst funds = some b')
    (a : Addr) (d : Denom) :
    b'.bal a d + (if a = src then coinsIn d funds else 0) = b.bal a d + (if a = dst then coinsIn d funds else 0) ∧
    b'.burned = b.burned ∧ b'.minted = b.minted := by
  unfold Bank.sendFunds at h
  split at h
  · cases h; simp [coinsIn]
  · split at h
    · cases h
    · have := sendAll_ledger _ h a d
      rwa [coinsIn_filter] at this

/-! ## Conservation over a duplicate-free account list -/

theorem sum_point_update (f : Addr → Nat) (g : Addr → Nat) (x : Addr) (l : List Addr) (hn : l.Nodup)
    (hg : ∀ a, a ≠ x → g a = f a) :
    (l.map g).sum + (if x ∈ l then f x else 0) = (l.map f).sum + (if x ∈ l then g x else 0) := by
  induction l with
  | nil => simp
  | cons y ys ih =>
    have hy : y ∉ ys := (List.nodup_cons.mp hn).1
    have ih := ih (List.nodup_cons.mp hn).2
    simp only [List.map_cons, List.sum_cons, List.mem_cons]
    by_cases hyx : y = x
    · subst hyx
      simp [hy] at ih
      simp; omega
    · have h1 : g y = f y := hg y hyx
      have h2 : ¬ x = y := fun e => hyx e.symm
      simp only [h2, false_or]
      rw [h1]; omega

/-- the balances of `accts` in denom `d`, summed -/
theorem total_send {b b' : Bank} {src dst : Addr} {c : Coin} (h : b.send src dst c = some b') (accts : List Addr)
    (hn : accts.Nodup) (hs : src ∈ accts) (hd : dst ∈ accts) (d : Denom) : b'.total accts d = b.total accts d := by
  -- go through an intermediate function: debit then credit are two point updates
  unfold Bank.send at h
  split at h
  · cases h
  · split at h
    · cases h
    · rename_i b1 hb1
      cases h
      obtain ⟨hle, hbal, _, _⟩ := debit_spec hb1
      have e1 := sum_point_update (fun a => b.bal a d) (fun a => b1.bal a d) src accts hn
        (by intro a ha; simp [hbal, ha])
      have e2 := sum_point_update (fun a => b1.bal a d) (fun a => (b1.credit dst c.denom c.amount).bal a d) dst accts hn
        (by intro a ha; simp [Bank.credit, ha])
      simp only [hs, hd, if_true] at e1 e2
      simp only [Bank.total]
      have v1 : b1.bal src d = if d = c.denom then b.bal src d - c.amount else b.bal src d := by simp [hbal]
      have v2 : (b1.credit dst c.denom c.amount).bal dst d = if d = c.denom then b1.bal dst d + c.amount else b1.bal dst d := by
        simp [Bank.credit]
      by_cases hdd : d = c.denom
      · simp [hdd] at v1 v2 e1 e2 ⊢
        subst hdd
        omega
      · simp [hdd] at v1 v2
        omega

theorem total_burn {b b' : Bank} {src : Addr} {c : Coin} (h : b.burn src c = some b') (accts : List Addr)
    (hn : accts.Nodup) (hs : src ∈ accts) (d : Denom) :
    b'.total accts d + b'.burned d = b.total accts d + b.burned d := by
  unfold Bank.burn at h
  split at h
  · cases h
  · split at h
    · cases h
    · rename_i b1 hb1
      cases h
      obtain ⟨hle, hbal, _, hbu⟩ := debit_spec hb1
      have e1 := sum_point_update (fun a => b.bal a d) (fun a => b1.bal a d) src accts hn
        (by intro a ha; simp [hbal, ha])
      simp only [hs, if_true] at e1
      simp only [Bank.total, hbu]
      have v1 : b1.bal src d = if d = c.denom then b.bal src d - c.amount else b.bal src d := by simp [hbal]
      by_cases hdd : d = c.denom
      · simp [hdd] at v1 e1 ⊢; subst hdd; omega
      · simp [hdd] at v1 ⊢; omega

/-- every account credited by `ms` is in `accts` -/
def Closed (accts : List Addr) (ms : List Msg) : Prop := ∀ m ∈ ms, ∀ a, msgDest m = some a → a ∈ accts

theorem total_applyMsgs {self : Addr} (ms : List Msg) {b b' : Bank} (h : applyMsgs self b ms = some b') (accts : List Addr)
    (hn : accts.Nodup) (hs : self ∈ accts) (hc : Closed accts ms) (d : Denom) :
    b'.total accts d + b'.burned d = b.total accts d + b.burned d := by
  induction ms generalizing b with
  | nil => simp [applyMsgs] at h; subst h; rfl
  | cons m ms ih =>
    simp only [applyMsgs] at h
    split at h
    · cases h
    · rename_i b1 hb1
      have hc' : Closed accts ms := fun m' hm' => hc m' (List.mem_cons_of_mem _ hm')
      have i := ih h hc'
      have hm := hc m (List.mem_cons_self ..)
      have s : b1.total accts d + b1.burned d = b.total accts d + b.burned d := by
        cases m with
        | burn c => exact total_burn hb1 accts hn hs d
        | send to c =>
          have := total_send hb1 accts hn hs (hm to rfl) d
          obtain ⟨_, hb, _, _⟩ := send_meta hb1
          rw [this, hb]
        | fundPool s c =>
          have := total_send hb1 accts hn hs (hm FAIRBURN_POOL rfl) d
          obtain ⟨_, hb, _, _⟩ := send_meta hb1
          rw [this, hb]
      omega

theorem total_sendAll {src dst : Addr} (cs : List Coin) {b b' : Bank} (h : b.sendAll src dst cs = some b') (accts : List Addr)
    (hn : accts.Nodup) (hs : src ∈ accts) (hd : dst ∈ accts) (d : Denom) : b'.total accts d = b.total accts d := by
  induction cs generalizing b with
  | nil => simp [Bank.sendAll] at h; subst h; rfl
  | cons c cs ih =>
    simp only [Bank.sendAll] at h
    split at h
    · cases h
    · rename_i b1 hb1
      rw [ih h, total_send hb1 accts hn hs hd d]

theorem total_sendFunds {src dst : Addr} {funds : List Coin} {b b' : Bank} (h : b.sendFunds src dst funds = some b')
    (accts : List Addr) (hn : accts.Nodup) (hs : src ∈ accts) (hd : dst ∈ accts) (d : Denom) :
    b'.total accts d = b.total accts d := by
  unfold Bank.sendFunds at h
  split at h
  · cases h; rfl
  · split at h
    · cases h
    · exact total_sendAll _ h accts hn hs hd d

theorem total_fund (b : Bank) (dst : Addr) (c : Coin) (accts : List Addr) (hn : accts.Nodup) (hd : dst ∈ accts) (d : Denom) :
    (b.fund dst c).total accts d + (b.fund dst c).burned d + b.minted d =
      b.total accts d + b.burned d + (b.fund dst c).minted d := by
  have e := sum_point_update (fun a => b.bal a d) (fun a => (b.fund dst c).bal a d) dst accts hn
    (by intro a ha; simp [Bank.fund, Bank.credit, ha])
  simp only [hd, if_true] at e
  simp only [Bank.total]
  have v : (b.fund dst c).bal dst d = if d = c.denom then b.bal dst d + c.amount else b.bal dst d := by
    simp [Bank.fund, Bank.credit]
  have m : (b.fund dst c).minted d = if d = c.denom then b.minted d + c.amount else b.minted d := by simp [Bank.fund]
  have bu : (b.fund dst c).burned d = b.burned d := by simp [Bank.fund, Bank.credit]
  by_cases hdd : d = c.denom
  · subst hdd; simp at v m; rw [bu]; omega
  · simp [hdd] at v m; rw [bu]; omega

/-! ## What a successful `payMint` looks like -/

theorem mayPay_ok {funds : List Coin} {d : Denom} {n : Nat} (h : mayPay funds d = .ok n) :
    (funds = [] ∧ n = 0) ∨ funds = [⟨d, n⟩] := by
  unfold mayPay at h
  split at h
  · left; cases h; exact ⟨rfl, rfl⟩
  · rename_i c
    split at h
    · right; cases h; cases c; simp_all
    · cases h
  · cases h

theorem mustPay_ok {funds : List Coin} {d : Denom} {n : Nat} (h : mustPay funds d = .ok n) :
    funds = [⟨d, n⟩] ∧ n ≠ 0 := by
  unfold mustPay at h
  split at h
  · rename_i c
    split at h
    · cases h
    · split at h
      · cases h; cases c; simp_all
      · cases h
  · cases h

theorem splitWith_ok {v : Variant} {f : Factory} {m : Minter} {price : Coin} {fee : Nat} {ms : List Msg}
    (h : splitWith v f m price fee = .ok ms) :
    fee ≤ price.amount ∧ ms = feeMsgs v f price fee ++ sellerMsgs v m price fee := by
  unfold splitWith at h
  split at h
  · cases h
  · rename_i hlt
    cases h
    exact ⟨Nat.le_of_not_lt hlt, rfl⟩

theorem paySale_ok {v : Variant} {f : Factory} {m : Minter} {now : Nat} {ad : Bool} {funds : List Coin} {price : Coin}
    {ms : List Msg} (h : paySale v f m now ad funds = .ok (price, ms)) :
    selectPrice v f m now ad = .ok price ∧ mayPay funds price.denom = .ok price.amount ∧
    networkFee f ad price ≤ price.amount ∧
    ms = feeMsgs v f price (networkFee f ad price) ++ sellerMsgs v m price (networkFee f ad price) := by
  unfold paySale at h
  split at h
  · cases h
  · rename_i p hp
    split at h
    · cases h
    · rename_i pay hpay
      split at h
      · cases h
      · rename_i hpe
        have hpe' : pay = p.amount := Classical.not_not.mp hpe
        subst hpe'
        split at h
        · cases h
        · rename_i ms' hms
          cases h
          obtain ⟨hle, rfl⟩ := splitWith_ok hms
          exact ⟨hp, hpay, hle, rfl⟩
theorem cfb_ok (self fee : Nat) (hnz : fee ≠ 0) :
  Sg1.checkedFairBurn [⟨NATIVE, fee⟩] self fee none = .ok (Sg1.fairBurn self fee none) := by
        simp [Sg1.checkedFairBurn, mayPay, hnz, bind, Except.bind, pure, Except.pure]

theorem payBaseWith_ok {fee : Nat} {m : Minter} {funds : List Coin} {price : Coin} {ms : List Msg}
    (h : payBaseWith fee m funds = .ok (price, ms)) :
    funds = [⟨NATIVE, fee⟩] ∧ fee ≠ 0 ∧ price = ⟨NATIVE, fee⟩ ∧ ms = Sg1.fairBurn m.addr fee none := by
  unfold payBaseWith at h
  split at h
  · cases h
  · rename_i sent hsent
    obtain ⟨hf, hnz⟩ := mustPay_ok hsent
    split at h
    · cases h
    · rename_i hfe
      have hfe' : fee = sent := Classical.not_not.mp hfe
      subst hfe'
      subst hf
      rw [cfb_ok _ _ hnz] at h
      cases h
      exact ⟨rfl, hnz, rfl, rfl⟩

theorem payBase_ok {f : Factory} {m : Minter} {funds : List Coin} {price : Coin} {ms : List Msg}
    (h : payBase f m funds = .ok (price, ms)) :
    funds = [⟨NATIVE, mulFloor m.mintPrice.amount (bps f.mintFeeBps)⟩] ∧
    mulFloor m.mintPrice.amount (bps f.mintFeeBps) ≠ 0 ∧
    price = ⟨NATIVE, mulFloor m.mintPrice.amount (bps f.mintFeeBps)⟩ ∧
    ms = Sg1.fairBurn m.addr (mulFloor m.mintPrice.amount (bps f.mintFeeBps)) none :=
  payBaseWith_ok h

/-- fee distribution + seller payout move exactly the price out of the minter, in the price's denom, burning nothing -/
theorem sale_flow (v : Variant) (f : Factory) (m : Minter) (price : Coin) (fee : Nat) (hle : fee ≤ price.amount) (d : Denom) :
    outflow d (feeMsgs v f price fee ++ sellerMsgs v m price fee) = (if price.denom = d then price.amount else 0) ∧
    burnt d (feeMsgs v f price fee ++ sellerMsgs v m price fee) = 0 := by
  rw [outflow_append, burnt_append]
  have hf : outflow d (feeMsgs v f price fee) = (if price.denom = d then fee else 0) ∧ burnt d (feeMsgs v f price fee) = 0 := by
    unfold feeMsgs
    by_cases h0 : fee = 0
    · simp [h0, outflow, burnt]
    · simp only [h0, if_false]; exact distribute_outflow _ _ _ _ _
  have hs : outflow d (sellerMsgs v m price fee) = (if price.denom = d then price.amount - fee else 0) ∧
      burnt d (sellerMsgs v m price fee) = 0 := by
    unfold sellerMsgs
    by_cases h0 : price.amount - fee = 0
    · simp [h0, outflow, burnt]
    · simp only [h0, if_false, outflow, burnt, msgDest, Msg.denom, Msg.amount]
      by_cases hd : price.denom = d <;> simp [hd]
  rw [hf.1, hf.2, hs.1, hs.2]
  by_cases hd : price.denom = d <;> simp [hd]; omega

/-- every account a sale can credit -/
def recipients (v : Variant) (f : Factory) (m : Minter) : List Addr :=
  [LIQUIDITY_DAO, LAUNCHPAD_DAO, FAIRBURN_POOL, f.devAddr, sellerOf v m]

theorem sale_dests (v : Variant) (f : Factory) (m : Minter) (price : Coin) (fee : Nat) :
    ∀ x ∈ feeMsgs v f price fee ++ sellerMsgs v m price fee, ∀ a, msgDest x = some a → a ∈ recipients v f m := by
  intro x hx a ha
  rw [List.mem_append] at hx
  cases hx with
  | inl hx =>
    unfold feeMsgs at hx
    by_cases h0 : fee = 0
    · simp [h0] at hx
    · simp only [h0, if_false] at hx
      have hdev : devOf v f = none ∨ devOf v f = some f.devAddr := by
        unfold devOf; cases v.family <;> simp
      cases hdev with
      | inl hn =>
        rw [hn, distribute_none] at hx
        simp only [List.mem_cons, List.not_mem_nil, or_false] at hx
        cases hx with
        | inl e => subst e; simp [msgDest] at ha; subst ha; simp [recipients]
        | inr e => subst e; simp [msgDest] at ha; subst ha; simp [recipients]
      | inr hsome =>
        rw [hsome, distribute_some] at hx
        simp only [List.mem_cons, List.not_mem_nil, or_false] at hx
        rcases hx with e | e | e
        · subst e; simp [msgDest] at ha; subst ha; simp [recipients]
        · subst e; simp [msgDest] at ha; subst ha; simp [recipients]
        · subst e; simp [msgDest] at ha; subst ha; simp [recipients]
  | inr hx =>
    unfold sellerMsgs at hx
    by_cases h0 : price.amount - fee = 0
    · simp [h0] at hx
    · simp only [h0, if_false, List.mem_cons, List.not_mem_nil, or_false] at hx
      subst hx; simp [msgDest] at ha; subst ha; simp [recipients]

theorem fairBurn_dests (self : Addr) (F : Nat) :
    ∀ x ∈ Sg1.fairBurn self F none, ∀ a, msgDest x = some a → a = FAIRBURN_POOL := by
  intro x hx a ha
  rw [fairBurn_none] at hx
  simp only [List.mem_cons, List.not_mem_nil, or_false] at hx
  cases hx with
  | inl e => subst e; simp [msgDest] at ha
  | inr e => subst e; simp [msgDest] at ha; exact ha.symm

theorem inflow_zero (a : Addr) (d : Denom) (ms : List Msg) (h : ∀ x ∈ ms, msgDest x ≠ some a) : inflow a d ms = 0 := by
  induction ms with
  | nil => rfl
  | cons x xs ih =>
    have hx := h x (List.mem_cons_self ..)
    have ih := ih (fun y hy => h y (List.mem_cons_of_mem _ hy))
    simp [inflow, hx, ih]

/-- the messages of any successful `payMint` only credit `recipients`, and (token-merge deposits aside) move exactly
`price` out of the minter -/
theorem payMint_dests {v : Variant} {f : Factory} {m : Minter} {now : Nat} {ad : Bool} {funds : List Coin} {price : Coin}
    {ms : List Msg} (h : payMint v f m now ad funds = .ok (price, ms)) :
    ∀ x ∈ ms, ∀ a, msgDest x = some a → a ∈ recipients v f m := by
  have sale : paySale v f m now ad funds = .ok (price, ms) → ∀ x ∈ ms, ∀ a, msgDest x = some a → a ∈ recipients v f m := by
    intro hs
    obtain ⟨_, _, _, rfl⟩ := paySale_ok hs
    exact sale_dests v f m price _
  unfold payMint at h
  split at h
  · obtain ⟨_, _, _, rfl⟩ := payBase_ok h
    intro x hx a ha
    have := fairBurn_dests _ _ x hx a ha
    subst this; simp [recipients]
  · split at h
    · exact sale h
    · cases h; intro x hx; cases hx
  · exact sale h

theorem payMint_flow {v : Variant} {f : Factory} {m : Minter} {now : Nat} {ad : Bool} {funds : List Coin} {price : Coin}
    {ms : List Msg} (h : payMint v f m now ad funds = .ok (price, ms)) (d : Denom) :
    outflow d ms = (if price.denom = d then price.amount else 0) ∧
    (v.family ≠ .base → burnt d ms = 0) ∧
    (v.family = .base → burnt d ms = if NATIVE = d then mulFloor price.amount (percent Gen.sg1_FEE_BURN_PERCENT) else 0) := by
  have sale : paySale v f m now ad funds = .ok (price, ms) →
      outflow d ms = (if price.denom = d then price.amount else 0) ∧ burnt d ms = 0 := by
    intro hs
    obtain ⟨_, _, hle, rfl⟩ := paySale_ok hs
    exact sale_flow v f m price _ hle d
  unfold payMint at h
  split at h
  · rename_i hb
    obtain ⟨_, _, rfl, rfl⟩ := payBase_ok h
    have := fairBurn_outflow m.addr (mulFloor m.mintPrice.amount (bps f.mintFeeBps)) none d
    exact ⟨this.1, fun hne => absurd hb hne, fun _ => this.2⟩
  · rename_i ht
    split at h
    · have := sale h
      exact ⟨this.1, fun _ => this.2, fun hb => by rw [ht] at hb; cases hb⟩
    · cases h
      refine ⟨by simp [outflow], fun _ => rfl, fun hb => by rw [ht] at hb; cases hb⟩
  · rename_i hnb hnt
    have := sale h
    exact ⟨this.1, fun _ => this.2, fun hb => absurd hb hnb⟩

/-- a payee that is neither the developer nor one of the two DAOs gets nothing out of the fee distribution -/
theorem feeMsgs_inflow_zero (v : Variant) (f : Factory) (price : Coin) (fee : Nat) (a : Addr) (d : Denom)
    (h3 : a ≠ LIQUIDITY_DAO) (h4 : a ≠ LAUNCHPAD_DAO) (h5 : a ≠ f.devAddr) :
    inflow a d (feeMsgs v f price fee) = 0 := by
  apply inflow_zero
  intro x hx hd
  unfold feeMsgs at hx
  by_cases h0 : fee = 0
  · simp [h0] at hx
  · simp only [h0, if_false] at hx
    have hdev : devOf v f = none ∨ devOf v f = some f.devAddr := by
      unfold devOf; cases v.family <;> simp
    rcases hdev with hn | hsome
    · rw [hn, distribute_none] at hx
      simp only [List.mem_cons, List.not_mem_nil, or_false] at hx
      rcases hx with e | e <;> subst e <;> simp [msgDest] at hd
      · exact h3 hd.symm
      · exact h4 hd.symm
    · rw [hsome, distribute_some] at hx
      simp only [List.mem_cons, List.not_mem_nil, or_false] at hx
      rcases hx with e | e | e <;> subst e <;> simp [msgDest] at hd
      · exact h5 hd.symm
      · exact h3 hd.symm
      · exact h4 hd.symm

theorem sellerMsgs_inflow (v : Variant) (m : Minter) (price : Coin) (fee : Nat) :
    inflow (sellerOf v m) price.denom (sellerMsgs v m price fee) = price.amount - fee := by
  unfold sellerMsgs
  by_cases h0 : price.amount - fee = 0
  · simp [h0, inflow]
  · simp [h0, inflow, msgDest, Msg.denom, Msg.amount]

end LP.MintPay
