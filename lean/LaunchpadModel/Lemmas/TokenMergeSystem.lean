import LaunchpadModel.Model.TokenMergeSystem
import LaunchpadModel.Lemmas.Sg721
import LaunchpadModel.Lemmas.CollectionFull
/-!
# Token-merge SYSTEM composite (`LP.SysTM`): algebra of the step, inversion of a deposit

* `step'` / `run` algebra;
* the source table: `lookup_setColl_same / _other`;
* `execOn_ok`: one message on one collection contract = one `Sg721.exec` on its core; `execOn_send / _burn / _mint`: what the three
  messages of a deposit do (relational reading `Sg721.Eff`);
* `hook_ok`, `deposit_ok`: an ACCEPTED hook call / deposit decomposed into its stages.
-/
namespace LP.SysTM
open LP

/-! ## step' / run -/

theorem step'_ok {s s' : State} {op : Op} (h : step s op = .ok s') : step' s op = s' := by
  unfold step'; rw [h]

theorem step'_err {s : State} {op : Op} {e : Err} (h : step s op = .error e) : step' s op = s := by
  unfold step'; rw [h]

theorem step'_cases (s : State) (op : Op) :
    (∃ s', step s op = .ok s' ∧ step' s op = s') ∨ ((∃ e, step s op = .error e) ∧ step' s op = s) := by
  cases h : step s op with
  | ok s' => exact .inl ⟨s', rfl, step'_ok h⟩
  | error e => exact .inr ⟨⟨e, rfl⟩, step'_err h⟩

theorem accepted_false_iff (s : State) (op : Op) : accepted s op = false ↔ ∃ e, step s op = .error e := by
  unfold accepted
  cases step s op with
  | ok s' => simp
  | error e => simp

theorem accepted_true_iff (s : State) (op : Op) : accepted s op = true ↔ ∃ s', step s op = .ok s' := by
  unfold accepted
  cases step s op with
  | ok s' => simp
  | error e => simp

theorem run_nil (s : State) : run s [] = s := rfl
theorem run_cons (s : State) (op : Op) (ops : List Op) : run s (op :: ops) = run (step' s op) ops := rfl
theorem run_append (s : State) (a b : List Op) : run s (a ++ b) = run (run s a) b := by
  unfold run; rw [List.foldl_append]

/-! ## the source table -/

theorem lookup_setColl_same {l : List (Addr × CF.Coll)} {a : Addr} {c : CF.Coll} (c' : CF.Coll) (h : lookup l a = some c) :
    lookup (setColl l a c') a = some c' := by
  induction l with
  | nil => simp [lookup] at h
  | cons x xs ih =>
    obtain ⟨b, d⟩ := x
    unfold lookup at h
    unfold setColl
    by_cases hb : b = a
    · simp [hb, lookup]
    · simp only [hb, if_false] at h ⊢
      unfold lookup
      simp only [hb, if_false]
      exact ih h

theorem lookup_setColl_other (l : List (Addr × CF.Coll)) {a b : Addr} (c' : CF.Coll) (h : b ≠ a) :
    lookup (setColl l a c') b = lookup l b := by
  induction l with
  | nil => simp [setColl]
  | cons x xs ih =>
    obtain ⟨d, e⟩ := x
    unfold setColl
    by_cases hd : d = a
    · subst hd
      have : ¬ d = b := fun e => h e.symm
      simp [lookup, this]
    · simp only [hd, if_false]
      unfold lookup
      by_cases hdb : d = b
      · simp [hdb]
      · simp only [hdb, if_false]; exact ih

/-! ## one message on one collection contract -/

theorem execOn_ok {s : State} {bank bank' : MintPay.Bank} {c c' : CF.Coll} {sender : Addr} {funds : List Coin} {m : CF.ExecMsg}
    (h : execOn s bank c sender funds m = .ok (bank', c')) :
    ∃ core', Sg721.exec c.core ⟨s.block, sender, funds, CF.toExec c.core s.block m⟩ = .ok core' ∧ c' = { c with core := core' } := by
  unfold execOn at h
  split at h
  · cases h
  · rename_i q hq
    obtain ⟨c0, b1, core', b2, hc, _, hcore, _, rfl⟩ := CF.exec_ok hq
    simp only at hc
    cases hc
    simp only at h
    cases h
    exact ⟨core', hcore, rfl⟩

/-- `SendNft` accepted: the token existed, the sender could send it; now it belongs to the receiver, approvals cleared -/
theorem execOn_send {s : State} {bank bank' : MintPay.Bank} {c c' : CF.Coll} {sender contract : Addr} {id : Nat} {ok : Bool}
    (h : execOn s bank c sender [] (.sendNft contract id ok) = .ok (bank', c')) :
    ∃ t, c.core.find? id = some t ∧ Sg721.canSend c.core s.block sender t = true ∧
      c' = { c with core := c.core.setToken { t with owner := contract, approvals := [] } } := by
  obtain ⟨core', hx, rfl⟩ := execOn_ok h
  obtain ⟨_, e⟩ := Sg721.exec_eff hx
  simp only [CF.toExec] at e
  cases e with
  | send _ _ t hf hc _ => exact ⟨t, hf, hc, rfl⟩

/-- `Burn` accepted: the token existed, the sender could send it; now it is gone and `token_count` is one less -/
theorem execOn_burn {s : State} {bank bank' : MintPay.Bank} {c c' : CF.Coll} {sender : Addr} {id : Nat}
    (h : execOn s bank c sender [] (.burn id) = .ok (bank', c')) :
    ∃ t, c.core.find? id = some t ∧ Sg721.canSend c.core s.block sender t = true ∧
      c' = { c with core := c.core.removeToken id } := by
  obtain ⟨core', hx, rfl⟩ := execOn_ok h
  obtain ⟨_, e⟩ := Sg721.exec_eff hx
  simp only [CF.toExec] at e
  cases e with
  | burn _ t hf hc => exact ⟨t, hf, hc, rfl⟩

/-- `Mint` accepted: the sender is the cw_ownable owner, the id was absent; the token is appended, owned by `owner` -/
theorem execOn_mint {s : State} {bank bank' : MintPay.Bank} {c c' : CF.Coll} {sender owner : Addr} {id ext : Nat} {uri : Option Nat}
    {funds : List Coin} (h : execOn s bank c sender funds (.mint id owner uri ext) = .ok (bank', c')) :
    c.core.ownership.owner = some sender ∧ c.core.find? id = none ∧
      c' = { c with core := { c.core with
        tokens := c.core.tokens ++ [⟨id, owner, [], uri, if c.core.kind = .onchain then ext else 0⟩], count := c.core.count + 1 } } := by
  obtain ⟨core', hx, rfl⟩ := execOn_ok h
  obtain ⟨_, e⟩ := Sg721.exec_eff hx
  simp only [CF.toExec] at e
  cases e with
  | mint _ _ _ _ ho _ hn => exact ⟨ho, hn, rfl⟩

/-- `Sys2.runSub` is `execOn` by the minter without funds -/
theorem runSub_some {s : State} {bank bank' : MintPay.Bank} {minter : Addr} {c c' : CF.Coll} {m : CF.ExecMsg}
    (h : Sys2.runSub s.block bank minter c (some m) = .ok (bank', c')) : execOn s bank c minter [] m = .ok (bank', c') := by
  unfold Sys2.runSub at h
  unfold execOn
  exact h

theorem runSub_none {b : Sg721.Block} {bank bank' : MintPay.Bank} {minter : Addr} {c c' : CF.Coll}
    (h : Sys2.runSub b bank minter c none = .ok (bank', c')) : bank' = bank ∧ c' = c := by
  unfold Sys2.runSub at h
  cases h
  exact ⟨rfl, rfl⟩

/-! ## inversion of the hook and of a deposit -/

theorem hook_ok {s s' : State} {caller sender : Addr} {id : Nat} {recipient : Option Addr} {picked : Nat}
    (h : hook s caller sender id recipient picked = .ok s') :
    ∃ m tc vm' mints msg bank1 tc' c bank2 c',
      s.mc = some (m, tc) ∧
      hookMinter s.now (vmOf m tc) caller sender recipient picked = .ok (vm', mints) ∧
      subMsg m.supply.pos tc (if mints then .mint (recipient.getD sender) (.at picked) else .none) = .ok msg ∧
      Sys2.runSub s.block s.bank m.addr tc msg = .ok (bank1, tc') ∧
      lookup s.srcs caller = some c ∧
      execOn s bank1 c m.addr [] (.burn id) = .ok (bank2, c') ∧
      s' = { s with bank := bank2, mc := some (ofVm vm', tc'), srcs := setColl s.srcs caller c' } := by
  unfold hook at h
  split at h
  · cases h
  · rename_i m tc hmc
    split at h
    · cases h
    · rename_i vm' mints hhm
      split at h
      · cases h
      · rename_i msg hmsg
        split at h
        · cases h
        · rename_i bank1 tc' hrs
          split at h
          · cases h
          · rename_i c hc
            split at h
            · cases h
            · rename_i bank2 c' hb
              cases h
              exact ⟨m, tc, vm', mints, msg, bank1, tc', c, bank2, c', hmc, hhm, hmsg, hrs, hc, hb, rfl⟩

/-- the state in which the hook runs during a deposit: the cw721 transfer has happened -/
def afterSend (s : State) (coll : Addr) (bank1 : MintPay.Bank) (c1 : CF.Coll) : State :=
  { s with bank := bank1, srcs := setColl s.srcs coll c1 }

theorem deposit_ok {s s' : State} {coll sender contract : Addr} {id picked : Nat} {recipient : Option Addr} {msgOk recvOk : Bool}
    (hm : isMinterAddr s contract = true)
    (h : step s (.sendNft coll sender id contract recipient msgOk recvOk picked) = .ok s') :
    ∃ c bank1 c1, lookup s.srcs coll = some c ∧
      execOn s s.bank c sender [] (.sendNft contract id true) = .ok (bank1, c1) ∧ msgOk = true ∧
      hook (afterSend s coll bank1 c1) coll sender id recipient picked = .ok s' := by
  simp only [step, deposit, hm, if_true] at h
  split at h
  · cases h
  · rename_i c hc
    split at h
    · cases h
    · rename_i bank1 c1 hs
      split at h
      · cases h
      · rename_i hmo
        have : msgOk = true := by cases msgOk <;> simp_all
        exact ⟨c, bank1, c1, hc, hs, this, h⟩

end LP.SysTM
