import LaunchpadModel.Lemmas.VendingFull
import LaunchpadModel.Model.PriceRules
/-!
# Composite ⟶ C07 aspect model (`LP.PriceRules`): projection, op translation, forward simulation

The aspect model's whitelists are immutable records with a fixed window; the composite sees whitelists only through the
interface answers, which may change arbitrarily.  The projection therefore maps onto the WHITELIST-FREE part of the aspect
world (public price, discount, `LAST_DISCOUNT_TIME`, start time, the factory's minimum / airdrop price, the clock): the
translated histories never use `newWl` / `setWhitelist` / `mint`, so the aspect run is a genuine `PriceRules` run in which
no whitelist exists.  The translation is a forward simulation with stuttering: an ACCEPTED composite message is an accepted
aspect op with the projected post-state; a rejected one is no aspect op.
-/
namespace LP.VF
open LP

def priceVariant (v : Variant) : PriceRules.Variant :=
  { oe := false, checkCfgDenom := !v.isFlex, featured := v.featured }

/-- `feeBps` only enters the aspect model's `mint` op, which is not used; C02 owns the fee -/
def priceFactory (p : Params) : PriceRules.Factory :=
  { minPrice := p.minMintPrice, airdrop := p.airdropMintPrice, feeBps := 0 }

def priceMinter (m : Minter) : PriceRules.Minter :=
  { admin := m.admin, price := m.mintPrice, discount := m.discountPrice, lastDiscount := m.lastDiscount,
    start := m.startTime, stop := none, hasCap := true, wl := none }

/-- projection onto the C07 aspect world -/
def priceOf (s : State) (m : Minter) : PriceRules.World :=
  { v := priceVariant m.v, now := s.now, fac := priceFactory s.params, wls := [], m := some (priceMinter m) }

/-- the aspect world before the minter exists (`v` = the crate `params.code_id` will instantiate) -/
def priceInit (s : State) (v : Variant) : PriceRules.World :=
  { v := priceVariant v, now := s.now, fac := priceFactory s.params, wls := [], m := none }

def sudoPriceOps (u : ParamsUpdate) : List PriceRules.Op :=
  (match u.minMintPrice with | some c => [PriceRules.Op.sudoMin c] | none => []) ++
  (match u.airdropMintPrice with | some c => [PriceRules.Op.sudoAirdrop c] | none => [])

/-- composite op ↦ C07 aspect ops -/
def priceOps (s : State) (op : Op) : List PriceRules.Op :=
  if accepted s op then
    match op with
    | .setTime t => [.setTime t]
    | .updateMintPrice sender funds p => [.updateMintPrice sender (!funds.isEmpty) p]
    | .updateDiscountPrice sender funds p => [.updateDiscount sender (!funds.isEmpty) p]
    | .removeDiscountPrice sender funds => [.removeDiscount sender (!funds.isEmpty)]
    | .updateStartTime sender funds t => [.updateStart sender (!funds.isEmpty) t]
    | .sudoParams u => sudoPriceOps u
    | _ => []
  else []

theorem keepDiscount_eq (d : Option Coin) (p : Nat) : PriceRules.keepDiscount d p = keepDiscount d p := by
  unfold PriceRules.keepDiscount keepDiscount; rfl

theorem H12_eq : PriceRules.H12 = H12 := by decide
theorem HOUR_eq : PriceRules.HOUR = HOUR := by decide
theorem GENESIS_eq : PriceRules.GENESIS = GENESIS := rfl

theorem price_step'_ok {w w' : PriceRules.World} {op : PriceRules.Op} (h : PriceRules.step w op = .ok w') :
    PriceRules.step' w op = w' := by simp [PriceRules.step', h]

theorem price_run_one (w : PriceRules.World) (op : PriceRules.Op) : PriceRules.run w [op] = PriceRules.step' w op := rfl

/-! ## the four admin messages: an accepted composite message is the accepted aspect op -/

theorem price_updateMintPrice {s : State} {m m' : Minter} {sender : Addr} {funds : List Coin} {p : Nat}
    (h : updateMintPrice s m sender funds p = .ok m') :
    PriceRules.step (priceOf s m) (.updateMintPrice sender (!funds.isEmpty) p) = .ok (priceOf s m') := by
  obtain ⟨hfu, hse, hlow, hmin, rfl⟩ := updateMintPrice_ok h
  subst hfu
  simp only [PriceRules.step, PriceRules.updateMintPrice, priceOf, priceMinter, priceVariant, priceFactory,
    List.isEmpty_nil, Bool.not_true]
  have h1 : PriceRules.adminOk
      { admin := m.admin, price := m.mintPrice, discount := m.discountPrice, lastDiscount := m.lastDiscount,
        start := m.startTime, stop := none, hasCap := true, wl := none } sender false = true := by
    simp [PriceRules.adminOk, hse]
  simp only [h1, Bool.not_true, Bool.false_eq_true, if_false, Bool.false_and]
  have h2 : (decide (m.startTime ≤ s.now) && decide (m.mintPrice.amount ≤ p)) = false := by
    by_cases hst : m.startTime ≤ s.now
    · have := hlow hst
      simp [hst]; omega
    · simp [hst]
  have h3' : ¬ s.params.minMintPrice.amount > p := by omega
  simp [h3', PriceRules.setMinter, keepDiscount_eq]
  intro hst
  exact hlow (of_decide_eq_true hst)

theorem price_updateDiscount {s : State} {m m' : Minter} {sender : Addr} {funds : List Coin} {p : Nat}
    (h : updateDiscountPrice s m sender funds p = .ok m') :
    PriceRules.step (priceOf s m) (.updateDiscount sender (!funds.isEmpty) p) = .ok (priceOf s m') := by
  obtain ⟨hfu, hse, hst, hcd, hle, hmin, rfl⟩ := updateDiscountPrice_ok h
  subst hfu
  simp only [PriceRules.step, PriceRules.updateDiscount, priceOf, priceMinter, priceVariant, priceFactory,
    List.isEmpty_nil, Bool.not_true]
  have h1 : PriceRules.adminOk
      { admin := m.admin, price := m.mintPrice, discount := m.discountPrice, lastDiscount := m.lastDiscount,
        start := m.startTime, stop := none, hasCap := true, wl := none } sender false = true := by
    simp [PriceRules.adminOk, hse]
  have h2 : ¬ s.now < m.startTime := by omega
  have h3 : ¬ m.lastDiscount + PriceRules.H12 > s.now := by rw [H12_eq]; omega
  have h4 : ¬ p > m.mintPrice.amount := by omega
  have h5 : ¬ s.params.minMintPrice.amount > p := by omega
  simp only [h1, Bool.not_true, Bool.false_eq_true, if_false, h2, h3, h4, h5]
  simp [PriceRules.setMinter]

theorem price_removeDiscount {s : State} {m m' : Minter} {sender : Addr} {funds : List Coin}
    (h : removeDiscountPrice s m sender funds = .ok m') :
    PriceRules.step (priceOf s m) (.removeDiscount sender (!funds.isEmpty)) = .ok (priceOf s m') := by
  obtain ⟨hfu, hse, hcd, rfl⟩ := removeDiscountPrice_ok h
  subst hfu
  simp only [PriceRules.step, PriceRules.removeDiscount, priceOf, priceMinter, priceVariant, priceFactory,
    List.isEmpty_nil, Bool.not_true]
  have h1 : PriceRules.adminOk
      { admin := m.admin, price := m.mintPrice, discount := m.discountPrice, lastDiscount := m.lastDiscount,
        start := m.startTime, stop := none, hasCap := true, wl := none } sender false = true := by
    simp [PriceRules.adminOk, hse]
  have h3 : ¬ m.lastDiscount + PriceRules.HOUR > s.now := by rw [HOUR_eq]; omega
  simp only [h1, Bool.not_true, Bool.false_eq_true, if_false, h3]
  simp [PriceRules.setMinter]

theorem price_updateStart {s : State} {m m' : Minter} {sender : Addr} {funds : List Coin} {t : Nat}
    (h : updateStartTime s m sender funds t = .ok m') :
    PriceRules.step (priceOf s m) (.updateStart sender (!funds.isEmpty) t) = .ok (priceOf s m') := by
  obtain ⟨hfu, hse, hbefore, hnow, hgen, rfl⟩ := updateStartTime_ok h
  subst hfu
  simp only [PriceRules.step, PriceRules.updateStart, priceOf, priceMinter, priceVariant, priceFactory,
    List.isEmpty_nil, Bool.not_true]
  have h1 : PriceRules.adminOk
      { admin := m.admin, price := m.mintPrice, discount := m.discountPrice, lastDiscount := m.lastDiscount,
        start := m.startTime, stop := none, hasCap := true, wl := none } sender false = true := by
    simp [PriceRules.adminOk, hse]
  have h2 : ¬ m.startTime ≤ s.now := by omega
  have h3 : ¬ s.now > t := by omega
  have h4 : decide (t < PriceRules.GENESIS) = false := by rw [GENESIS_eq]; simp; omega
  simp only [h1, Bool.not_true, Bool.false_eq_true, if_false, h2, h3, Bool.false_and, Bool.not_false, Bool.true_and, h4]
  simp [PriceRules.setMinter]

/-- governance: an accepted `sudo UpdateParams` is the accepted `sudoMin` / `sudoAirdrop` ops for the fields it carries -/
theorem price_sudo {s : State} {m : Minter} {u : ParamsUpdate} {p : Params} (h : updateParams s.params u = .ok p) :
    PriceRules.run (priceOf s m) (sudoPriceOps u) = priceOf { s with params := p } m := by
  unfold updateParams at h
  peel h
  rename_i minp hminp
  peel h
  rename_i airp hairp
  peel h
  rename_i shuf hshuf
  cases h
  unfold nativeOr at hminp hairp
  unfold sudoPriceOps
  cases hu1 : u.minMintPrice with
  | none =>
    simp only [hu1] at hminp; cases hminp
    cases hu2 : u.airdropMintPrice with
    | none =>
      simp only [hu2] at hairp; cases hairp
      simp [PriceRules.run, priceOf, priceFactory]
    | some c2 =>
      simp only [hu2] at hairp
      split at hairp
      · rename_i hn2
        cases hairp
        simp [PriceRules.run, PriceRules.step', PriceRules.step, PriceRules.sudoAirdrop, priceOf, priceFactory,
          priceVariant, hn2]
      · cases hairp
  | some c1 =>
    simp only [hu1] at hminp
    split at hminp
    · rename_i hn1
      cases hminp
      cases hu2 : u.airdropMintPrice with
      | none =>
        simp only [hu2] at hairp; cases hairp
        simp [PriceRules.run, PriceRules.step', PriceRules.step, PriceRules.sudoMin, priceOf, priceFactory, hn1]
      | some c2 =>
        simp only [hu2] at hairp
        split at hairp
        · rename_i hn2
          cases hairp
          simp [PriceRules.run, PriceRules.step', PriceRules.step, PriceRules.sudoMin, PriceRules.sudoAirdrop, priceOf,
            priceFactory, priceVariant, hn1, hn2]
        · cases hairp
    · cases hminp

/-- `CreateMinter`: an accepted composite creation is the accepted aspect `create` (price floor and denom, genesis / now
checks, the `LAST_DISCOUNT_TIME` anchor) -/
theorem price_create {s s' : State} {sender : Addr} {funds : List Coin} {msg : CreateMsg} {w : CreateWit}
    (h : step s (.create sender funds msg w) = .ok s') :
    ∃ v m', s.codes.variantOf s.params.codeId = some v ∧ s'.minter = some m' ∧
      PriceRules.step (priceInit s v) (.create msg.creator msg.mintPrice msg.startTime none true none) = .ok (priceOf s' m') := by
  simp only [step] at h
  obtain ⟨b1, ms, b2, v, m, _, _, hfac, _, hv, hinst, rfl⟩ := createMinter_ok h
  obtain ⟨wl, trading, sup, ck, _, _, hgen, hnow, _, _, h12, _, _, _, rfl⟩ := instantiateMinter_ok hinst
  refine ⟨v, _, hv, rfl, ?_⟩
  -- the factory's floor / denom checks
  have hfl : s.params.minMintPrice.denom = msg.mintPrice.denom ∧ s.params.minMintPrice.amount ≤ msg.mintPrice.amount := by
    obtain ⟨_, _, _, _, _, _, _, _, hd, ha⟩ := factoryChecks_ok hfac
    exact ⟨hd, ha⟩
  simp only [PriceRules.step, PriceRules.createMinter]
  have hok : PriceRules.createOk (priceInit s v) msg.mintPrice msg.startTime none true none = true := by
    simp only [PriceRules.createOk, priceInit, priceVariant, priceFactory, PriceRules.createWlOk]
    rw [GENESIS_eq, H12_eq]
    simp [hfl.1, hfl.2, hgen, hnow, h12]
  rw [if_pos hok]
  simp [PriceRules.setMinter, PriceRules.freshMinter, priceInit, priceOf, priceMinter, priceVariant, H12_eq]

end LP.VF
