import LaunchpadModel.Model.Airdrop
/-!
# Helper lemmas for C16: `str::replace` as split/join, hex decoding, the personal-sign envelope.
Core Lean only.
-/
namespace LP.Airdrop

/-! ## split / join -/

theorem splitPat_length_pos (pat acc s : Bytes) : 1 ≤ (splitPat pat acc s).length := by
  fun_induction splitPat pat acc s <;> simp_all

/-- an occurrence of the pattern yields at least two segments -/
theorem splitPat_two_of_contains (pat : Bytes) (hp : pat ≠ []) (acc s : Bytes)
    (h : containsPat pat s = true) : 2 ≤ (splitPat pat acc s).length := by
  fun_induction splitPat pat acc s with
  | case1 acc => simp [containsPat, hp] at h
  | case2 acc c cs hpre ih =>
    have := splitPat_length_pos pat [] (List.drop pat.length (c :: cs))
    simp only [List.length_cons]; omega
  | case3 acc c cs hpre ih =>
    apply ih
    simp only [containsPat, Bool.or_eq_true] at h
    rcases h with h | h
    · exact absurd ⟨hp, h⟩ hpre
    · exact h

theorem join_length (sep : Bytes) (segs : List Bytes) :
    (join sep segs).length = (segs.map List.length).sum + (segs.length - 1) * sep.length := by
  induction segs with
  | nil => simp [join]
  | cons x xs ih =>
    cases xs with
    | nil => simp [join]
    | cons y ys =>
      simp only [join, List.length_append, ih, List.map_cons, List.sum_cons, List.length_cons]
      have : (ys.length + 1 + 1 - 1) * sep.length = sep.length + (ys.length + 1 - 1) * sep.length := by
        simp [Nat.add_mul]; omega
      omega

/-- The join of ≥ 2 segments is injective in the separator. -/
theorem join_injective (segs : List Bytes) (h2 : 2 ≤ segs.length) (r1 r2 : Bytes)
    (h : join r1 segs = join r2 segs) : r1 = r2 := by
  have hl : r1.length = r2.length := by
    have e := congrArg List.length h
    rw [join_length, join_length] at e
    have hk : 1 ≤ segs.length - 1 := by omega
    have : (segs.length - 1) * r1.length = (segs.length - 1) * r2.length := by omega
    exact Nat.eq_of_mul_eq_mul_left (by omega) this
  match segs, h2 with
  | x :: y :: rest, _ =>
    simp only [join] at h
    have h' : x ++ (r1 ++ join r1 (y :: rest)) = x ++ (r2 ++ join r2 (y :: rest)) := by
      simpa [List.append_assoc] using h
    have h'' := List.append_cancel_left h'
    exact (List.append_inj h'' hl).1

/-- no occurrence ⇒ one segment, the string itself (so `replaceAll` is the identity there) -/
theorem splitPat_of_not_contains (pat acc s : Bytes) (h : containsPat pat s = false) :
    splitPat pat acc s = [acc.reverse ++ s] := by
  fun_induction splitPat pat acc s with
  | case1 acc => simp
  | case2 acc c cs hpre ih =>
    simp only [containsPat, Bool.or_eq_false_iff] at h
    rw [hpre.2] at h; simp at h
  | case3 acc c cs hpre ih =>
    simp only [containsPat, Bool.or_eq_false_iff] at h
    rw [ih h.2]; simp

theorem replaceAll_of_not_contains (pat rep s : Bytes) (h : containsPat pat s = false) :
    replaceAll pat rep s = s := by
  simp [replaceAll, splitPat_of_not_contains pat [] s h, join]

/-! ## hex -/

theorem hexDecode_length : ∀ (s b : Bytes), hexDecode s = some b → s.length = 2 * b.length
  | [], b, h => by simp [hexDecode] at h; subst h; rfl
  | [_], b, h => by simp [hexDecode] at h
  | x :: y :: rest, b, h => by
    unfold hexDecode at h
    split at h
    · rename_i r _ _ hr
      have := hexDecode_length rest r hr
      simp only [Option.some.injEq] at h
      subst h
      simp only [List.length_cons]; omega
    · simp at h

theorem hexDecode_odd : ∀ (s : Bytes), s.length % 2 = 1 → hexDecode s = none
  | [], h => by simp at h
  | [_], _ => by simp [hexDecode]
  | x :: y :: rest, h => by
    have hr : hexDecode rest = none := hexDecode_odd rest (by simp only [List.length_cons] at h; omega)
    unfold hexDecode
    split
    · rename_i hr'; rw [hr] at hr'; cases hr'
    · rfl

theorem hexDecode_nonhex : ∀ (s : Bytes) (c : Nat), c ∈ s → hexVal c = none → hexDecode s = none
  | [], c, hc, _ => by simp at hc
  | [_], _, _, _ => by simp [hexDecode]
  | x :: y :: rest, c, hc, hv => by
    unfold hexDecode
    split
    · rename_i hx hy hr
      simp only [List.mem_cons] at hc
      rcases hc with rfl | rfl | hc
      · rw [hv] at hx; cases hx
      · rw [hv] at hy; cases hy
      · rw [hexDecode_nonhex rest c hc hv] at hr; cases hr
    · rfl

theorem decodeAddress_some {s a : Bytes} (h : decodeAddress s = some a) :
    s.length = 42 ∧ s.take 2 = [48, 120] ∧ hexDecode (s.drop 2) = some a ∧ a.length = 20 := by
  unfold decodeAddress at h
  split at h
  · cases h
  · split at h
    · cases h
    · rename_i h1 h2
      have h1 : s.length = 42 := by simpa using h1
      have h2 : s.take 2 = [48, 120] := by simpa using h2
      refine ⟨h1, h2, h, ?_⟩
      have := hexDecode_length _ _ h
      simp only [List.length_drop] at this
      omega

/-! ## decimal digits and the personal-sign envelope -/

theorem decDigits_length_pos (n : Nat) : 1 ≤ (decDigits n).length := by
  unfold decDigits; split <;> simp

theorem decDigits_length_mono : ∀ (m n : Nat), n ≤ m → (decDigits n).length ≤ (decDigits m).length := by
  intro m
  induction m using Nat.strongRecOn with
  | _ m ih =>
    intro n hnm
    by_cases hm : m < 10
    · have hn : n < 10 := by omega
      rw [decDigits.eq_1 n, decDigits.eq_1 m]; simp [hm, hn]
    · by_cases hn : n < 10
      · have := decDigits_length_pos m
        rw [decDigits.eq_1 n]; simp only [hn, if_true, List.length_singleton]; exact this
      · have := ih (m / 10) (by omega) (n / 10) (by omega)
        rw [decDigits.eq_1 n, decDigits.eq_1 m]
        simp only [hn, hm, if_false, List.length_append, List.length_singleton]
        omega

/-- the text is determined by what is hashed: prefix ‖ decimal length ‖ text is injective in the text -/
theorem envelope_injective (a b : Bytes) (h : envelope a = envelope b) : a = b := by
  unfold envelope at h
  rw [List.append_assoc, List.append_assoc] at h
  have h := List.append_cancel_left h
  have hlen := congrArg List.length h
  simp only [List.length_append] at hlen
  have hab : a.length = b.length := by
    rcases Nat.lt_trichotomy a.length b.length with hlt | heq | hgt
    · have := decDigits_length_mono b.length a.length (by omega); omega
    · exact heq
    · have := decDigits_length_mono a.length b.length (by omega); omega
  rw [hab] at h
  exact List.append_cancel_left h

end LP.Airdrop
