import LaunchpadModel.Lemmas.LaunchpadSystem
/-!
# What an accepted system `mint` went through, in terms of the WHITELIST's own state

`mint_ok`: inversion of `Sys.step … (.mint …)` down to the composite gate `VF.isPublicMint`, the price and the counters written.
`isPublicMint_cases`: public branch / whitelist branch. `wl_config`: on the whitelist branch the `WlInfo` the minter read is
`wlInfoOf now w` of the contract `w` stored at the attached address and the `SenderView` is `senderViewOf now w …`.
`info_*`: what `wlInfoOf` says, unfolded to the whitelist's stored fields (`start`, `end_`, `mintPrice`, `perAddr`, `stages`).
-/
namespace LP.Sys
open LP

/-- the message fields of a system mint as `VF` names them -/
def fieldsOf (stage alloc : Option Nat) (proof : Option (List (List Nat))) : MintLimits.Fields :=
  { stage := stage, proof := proof.isSome, alloc := alloc }

/-! ## crate tables -/

theorem kind_answersHasMember (v : WF.Variant) : (wlKindOf v).answersHasMember = true ↔ v.store = .list := by
  obtain ⟨st, fl, ti⟩ := v
  cases st <;> cases fl <;> cases ti <;> simp [wlKindOf, MintLimits.WlKind.answersHasMember]

theorem kind_answersHasMemberProof (v : WF.Variant) : (wlKindOf v).answersHasMemberProof = true ↔ v.store = .merkle := by
  obtain ⟨st, fl, ti⟩ := v
  cases st <;> cases fl <;> cases ti <;> simp [wlKindOf, MintLimits.WlKind.answersHasMemberProof]

theorem kind_answersMember (v : WF.Variant) : (wlKindOf v).answersMember = true ↔ v.store = .list ∧ v.flex = true := by
  obtain ⟨st, fl, ti⟩ := v
  cases st <;> cases fl <;> cases ti <;> simp [wlKindOf, MintLimits.WlKind.answersMember]

theorem kind_tieredName (v : WF.Variant) : (wlKindOf v).tieredName = true ↔ v.store ≠ .immutable ∧ v.tiered = true := by
  obtain ⟨st, fl, ti⟩ := v
  cases st <;> cases fl <;> cases ti <;> simp [wlKindOf, MintLimits.WlKind.tieredName]

/-- whitelist-immutable never passes `Config {}` parsing, whatever the minter flavour -/
theorem configOk_not_immutable (fl : MintLimits.Flavor) (v : WF.Variant) (h : MintLimits.configOk fl (wlKindOf v) = true) :
    v.store ≠ .immutable := by
  obtain ⟨st, f, ti⟩ := v
  cases st <;> cases f <;> cases ti <;> cases fl <;> simp_all [wlKindOf, MintLimits.configOk, MintLimits.WlKind.cfgShape, MintLimits.Flavor.cfgShape]

/-- a flex-dialect minter parses the `Config` of the flex crates only, the other two dialects that of the other crates only -/
theorem configOk_flex (fl : MintLimits.Flavor) (v : WF.Variant) (h : MintLimits.configOk fl (wlKindOf v) = true) :
    (fl = .flex ↔ v.flex = true ∧ v.store = .list) := by
  obtain ⟨st, f, ti⟩ := v
  cases st <;> cases f <;> cases ti <;> cases fl <;> simp_all [wlKindOf, MintLimits.configOk, MintLimits.WlKind.cfgShape, MintLimits.Flavor.cfgShape]

/-! ## stages -/

theorem activeStage_idx (l : List WF.Stage) (t : Nat) (st : WF.Stage) (h : Tiered.activeStage l t = some st) :
    ∃ i, Tiered.activeIdx l t = some i ∧ l[i]? = some st ∧ st.contains t = true ∧ st ∈ l := by
  induction l with
  | nil => simp [Tiered.activeStage] at h
  | cons x rest ih =>
    simp only [Tiered.activeStage, List.find?_cons] at h
    by_cases hx : x.contains t = true
    · simp only [hx] at h
      cases h
      exact ⟨0, by simp [Tiered.activeIdx, List.findIdx?_cons, hx], rfl, hx, List.mem_cons_self⟩
    · have hx' : x.contains t = false := by cases hq : x.contains t <;> simp_all
      simp only [hx'] at h
      obtain ⟨i, hi, hl, hc, hm⟩ := ih h
      refine ⟨i + 1, ?_, by simpa using hl, hc, List.mem_cons_of_mem _ hm⟩
      simp only [Tiered.activeIdx] at hi ⊢
      simp [List.findIdx?_cons, hx', hi]

theorem activeIdx_stage (l : List WF.Stage) (t i : Nat) (h : Tiered.activeIdx l t = some i) :
    ∃ st, Tiered.activeStage l t = some st ∧ l[i]? = some st := by
  induction l generalizing i with
  | nil => simp [Tiered.activeIdx] at h
  | cons x rest ih =>
    simp only [Tiered.activeIdx, List.findIdx?_cons] at h
    by_cases hx : x.contains t = true
    · simp only [hx, if_true, Option.some.injEq] at h
      subst h
      exact ⟨x, by simp [Tiered.activeStage, hx], rfl⟩
    · have hx' : x.contains t = false := by cases hq : x.contains t <;> simp_all
      simp only [hx', Bool.false_eq_true, if_false, Option.map_eq_some_iff] at h
      obtain ⟨j, hj, rfl⟩ := h
      obtain ⟨st, hst, hl⟩ := ih j hj
      exact ⟨st, by simp [Tiered.activeStage, hx']; exact hst, by simpa using hl⟩

theorem activeStage_none_idx (l : List WF.Stage) (t : Nat) (h : Tiered.activeStage l t = none) : Tiered.activeIdx l t = none := by
  cases hi : Tiered.activeIdx l t with
  | none => rfl
  | some i =>
    obtain ⟨st, hst, _⟩ := activeIdx_stage l t i hi
    rw [h] at hst; cases hst

/-- no stored stage window contains the instant -/
theorem activeStage_none (l : List WF.Stage) (t : Nat) (h : Tiered.activeStage l t = none) : ∀ st ∈ l, st.contains t = false := by
  intro st hst
  simp only [Tiered.activeStage, List.find?_eq_none] at h
  have := h st hst
  cases hq : st.contains t <;> simp_all

/-! ## `wlInfoOf`, unfolded to stored fields -/

theorem info_kind (now : Nat) (w : WF.Wl) : (wlInfoOf now w).kind = wlKindOf w.v := by
  unfold wlInfoOf; cases WF.qConfig w now <;> rfl

theorem info_stageId (now : Nat) (w : WF.Wl) : (wlInfoOf now w).stageId = (WF.qActiveStageId w now).getD 0 := by
  unfold wlInfoOf; cases WF.qConfig w now <;> rfl

theorem info_stageLimit (now : Nat) (w : WF.Wl) :
    (wlInfoOf now w).stageLimit =
      if 1 ≤ (WF.qActiveStageId w now).getD 0 then stageLimitOf w ((WF.qActiveStageId w now).getD 0 - 1) else none := by
  unfold wlInfoOf; cases WF.qConfig w now <;> rfl

theorem notImm_of_store {w : WF.Wl} (h : w.v.store ≠ .immutable) : w.v.isImmutable = false := by
  simp only [WF.Variant.isImmutable]
  cases hs : w.v.store <;> simp_all

/-- single-stage kinds: `Config` is the stored schedule, price and per-address limit -/
theorem info_flat {now : Nat} {w : WF.Wl} (hi : w.v.store ≠ .immutable) (ht : w.v.tiered = false) :
    (wlInfoOf now w).active = (decide (now ≥ w.start) && decide (now < w.end_)) ∧
    (wlInfoOf now w).price = w.mintPrice ∧
    (wlInfoOf now w).limit = (if w.v.flex then 0 else w.perAddr) := by
  have him := notImm_of_store hi
  unfold wlInfoOf WF.qConfig
  simp only [him, ht, Bool.false_eq_true, if_false]
  cases hf : w.v.flex <;> simp

/-- tiered kinds with an active stage: `Config` is scoped to THAT stage's stored record -/
theorem info_tiered_active {now : Nat} {w : WF.Wl} {st : WF.Stage} (hi : w.v.store ≠ .immutable) (ht : w.v.tiered = true)
    (ha : WF.activeStage w now = some st) :
    (wlInfoOf now w).active = true ∧
    (wlInfoOf now w).price = ⟨st.denom, st.price⟩ ∧
    (wlInfoOf now w).limit = (if w.v.flex then 0 else st.pal) := by
  have him := notImm_of_store hi
  unfold wlInfoOf WF.qConfig
  simp only [him, ht, Bool.false_eq_true, if_false, if_true, ha]
  cases hf : w.v.flex <;> simp

/-- tiered kinds without an active stage: `Config.is_active` is false -/
theorem info_tiered_idle {now : Nat} {w : WF.Wl} (hi : w.v.store ≠ .immutable) (ht : w.v.tiered = true)
    (ha : WF.activeStage w now = none) : (wlInfoOf now w).active = false := by
  have him := notImm_of_store hi
  unfold wlInfoOf WF.qConfig
  simp only [him, ht, Bool.false_eq_true, if_false, if_true, ha]
  cases hs : w.stages with
  | nil => simp
  | cons s0 rest =>
    simp only
    by_cases hlt : now < s0.start <;> simp [hlt]

theorem info_immutable {now : Nat} {w : WF.Wl} (hi : w.v.store = .immutable) : (wlInfoOf now w).active = false := by
  have him : w.v.isImmutable = true := by simp [WF.Variant.isImmutable, hi]
  unfold wlInfoOf WF.qConfig
  simp [him]

/-- `Config.is_active` says exactly: the instant lies in a stored window (single-stage: half-open; tiered: a stage's closed
window, the first such stage being the one whose price and limit are reported) -/
theorem info_active_iff (now : Nat) (w : WF.Wl) :
    (wlInfoOf now w).active = true ↔
      w.v.store ≠ .immutable ∧
      (if w.v.tiered then ∃ st, WF.activeStage w now = some st else w.start ≤ now ∧ now < w.end_) := by
  by_cases hi : w.v.store = .immutable
  · simp [info_immutable hi, hi]
  · by_cases ht : w.v.tiered = true
    · cases ha : WF.activeStage w now with
      | none => simp [info_tiered_idle hi ht ha, ht]
      | some st => simp [(info_tiered_active hi ht ha).1, hi, ht]
    · have ht' : w.v.tiered = false := by cases hq : w.v.tiered <;> simp_all
      rw [(info_flat hi ht').1]
      simp [hi, ht']

/-- the id the minter books a tiered whitelist mint under is the active stage's index + 1 -/
theorem info_stageId_tiered {now : Nat} {w : WF.Wl} (hi : w.v.store ≠ .immutable) (ht : w.v.tiered = true) :
    (wlInfoOf now w).stageId = match WF.activeIdx w now with | some i => i + 1 | none => 0 := by
  rw [info_stageId]
  have him := notImm_of_store hi
  simp only [WF.qActiveStageId, him, ht, Bool.not_true, Bool.or_self, Bool.false_eq_true, if_false, Option.getD_some]
  cases WF.activeIdx w now <;> rfl

/-! ## inversion of a system mint -/

theorem isPublicMint_cases {s : VF.State} {m : VF.Minter} {sender : Addr} {f : MintLimits.Fields} {sv : VF.SenderView}
    {g : VF.MintKind} (h : VF.isPublicMint s m sender f sv = .ok g) :
    (g = .pub ∧ (m.whitelist = none ∨ ∃ a i, m.whitelist = some a ∧ VF.wlConfig s m.v a = .ok i ∧ i.active = false)) ∨
    (∃ a i, m.whitelist = some a ∧ VF.wlConfig s m.v a = .ok i ∧ i.active = true ∧
      VF.wlMintChecks m i sender f sv = .ok g) := by
  unfold VF.isPublicMint at h
  split at h
  · rename_i hw
    cases h
    exact Or.inl ⟨rfl, Or.inl hw⟩
  · rename_i a hw
    split at h
    · cases h
    · rename_i i hi
      split at h
      · rename_i hact
        cases h
        exact Or.inl ⟨rfl, Or.inr ⟨a, i, hw, hi, hact⟩⟩
      · rename_i hact
        have hact' : i.active = true := by cases hq : i.active <;> simp_all
        exact Or.inr ⟨a, i, hw, hi, hact', h⟩

/-- on the whitelist branch, what the minter read IS `wlInfoOf` of the contract stored at the attached address -/
theorem wl_config {s : State} {v : VF.Variant} {a : Addr} {i : VF.WlInfo} (h : VF.wlConfig (vfOf s) v a = .ok i) :
    ∃ w, find s.wls a = some w ∧ i = wlInfoOf s.now w ∧ MintLimits.configOk v.flavor (wlKindOf w.v) = true := by
  obtain ⟨h1, h2⟩ := VF.wlConfig_ok h
  rw [vfOf_wls] at h1
  cases hf : find s.wls a with
  | none => simp [hf] at h1
  | some w =>
    simp only [hf, Option.map_some, Option.some.injEq] at h1
    subst h1
    exact ⟨w, rfl, rfl, by rw [info_kind] at h2; exact h2⟩

theorem mintView_eq {s : State} {m : VF.Minter} {a : Addr} {w : WF.Wl} (hm : s.minter = some m) (ha : m.whitelist = some a)
    (hf : find s.wls a = some w) (sender : Addr) (stage alloc : Option Nat) (proof : Option (List (List Nat))) :
    mintView s sender stage alloc proof = senderViewOf s.now w sender stage alloc proof := by
  simp [mintView, hm, ha, hf]

/-- **inversion of an accepted system mint**: the minter exists, the composite gate classified the mint as `g` from the
whitelist states, a public mint passed the public rules, the attached funds are exactly the price in force, and the counters
written are `VF.bookCount m sender g` (nothing else of the counters moves; clock and whitelists are untouched) -/
theorem mint_ok {s s' : State} {sender : Addr} {funds : List Coin} {stage alloc : Option Nat}
    {proof : Option (List (List Nat))} {picked : Nat} (h : step s (.mint sender funds stage alloc proof picked) = .ok s') :
    ∃ m g price m',
      s.minter = some m ∧
      VF.isPublicMint (vfOf s) m sender (fieldsOf stage alloc proof) (mintView s sender stage alloc proof) = .ok g ∧
      (g = .pub → m.startTime ≤ s.now ∧ m.pub sender < m.perAddressLimit) ∧
      VF.mintPrice (vfOf s) m false = .ok price ∧ mayPay funds price.denom = .ok price.amount ∧
      s'.minter = some m' ∧ m'.pub = (VF.bookCount m sender g).pub ∧ m'.wlc = (VF.bookCount m sender g).wlc ∧
      m'.stg = (VF.bookCount m sender g).stg ∧ m'.tot = (VF.bookCount m sender g).tot ∧
      m'.whitelist = m.whitelist ∧ m'.v = m.v ∧ m'.startTime = m.startTime ∧ m'.perAddressLimit = m.perAddressLimit ∧
      s'.wls = s.wls ∧ s'.now = s.now := by
  obtain ⟨c, hc, rfl⟩ := step_mint_ok h
  simp only [mintOp, VF.step] at hc
  obtain ⟨m, hm, hc⟩ := VF.withMinterS_ok hc
  obtain ⟨b1, g, _, _, hg, hpub, hex⟩ := VF.mintSender_ok hc
  obtain ⟨price, ms, sup, b2, _, hp, hpay, _, _, _, _, rfl⟩ := VF.executeMint_ok hex
  have hbook : ∀ (g : VF.MintKind), (VF.bookCount m sender g).whitelist = m.whitelist ∧ (VF.bookCount m sender g).v = m.v ∧
      (VF.bookCount m sender g).startTime = m.startTime ∧ (VF.bookCount m sender g).perAddressLimit = m.perAddressLimit := by
    intro g
    cases g with
    | pub => exact ⟨rfl, rfl, rfl, rfl⟩
    | wl sid cnt =>
      simp only [VF.bookCount]
      split <;> exact ⟨rfl, rfl, rfl, rfl⟩
  obtain ⟨hb1, hb2, hb3, hb4⟩ := hbook g
  exact ⟨m, g, price, _, hm, hg, hpub, hp, hpay, rfl, rfl, rfl, rfl, rfl, hb1, hb2, hb3, hb4, rfl, rfl⟩

end LP.Sys
