import LaunchpadModel.Lemmas.TokenMergeFullLedger
/-!
# Composite token merge ⟶ C17 aspect model: the step bridges and the forward simulation `tm_sim_ok`
-/
namespace LP.TMF
open LP
open LP.Supply (FInv lookupPos findId)

theorem allReceived_eq (req : List (Addr × Nat)) (led : Addr → Addr → Nat) (r c : Addr) :
    TM.allReceived req (TM.upd2 led r c (led r c + 1) r) = allReceived req (creditLedger led r c r) := rfl

theorem clearLedger_eq (led : Addr → Addr → Nat) (r : Addr) (req : List (Addr × Nat)) :
    TM.clearLedger led r req = clearLedger led r req := rfl

theorem creditLedger_eq (led : Addr → Addr → Nat) (r c : Addr) :
    TM.upd2 led r c (led r c + 1) = creditLedger led r c := rfl

theorem mintCount_eq (f : Nat → Nat) (k v : Nat) : TM.upd1 f k v = MintLimits.upd f k v := rfl

/-- the minter's `Burn` sub-message to the collection that called the hook -/
theorem tm_srcBurn {s : State} {m : Minter} {x : Srcs} {caller : Addr} {tokenId : Nat} (st : TM.State)
    (hself : st.self = m.addr) (hcolls : st.colls = s.srcs.colls)
    (hown : st.srcOwner = s.srcs.owner) (happ : st.srcApproved = fun _ _ => [])
    (hnum : st.srcNum = s.srcs.num)
    (h : srcBurn s.srcs m.addr caller tokenId = .ok x) :
    TM.srcBurn st st.self caller tokenId =
      .ok { st with srcOwner := x.owner, srcApproved := fun _ _ => [], srcNum := x.num } := by
  obtain ⟨hc, ho, rfl⟩ := srcBurn_ok h
  unfold TM.srcBurn
  have hcan : TM.canSend st caller tokenId st.self = true := by
    simp [TM.canSend, hown, ho, hself]
  rw [if_pos ⟨by rw [hcolls]; exact hc, hcan⟩]
  congr 1
  apply tmState_ext <;> try rfl
  · simp only [hown]; rfl
  · simp only [happ]; exact upd2_nil _ _
  · simp only [hnum]; rfl


/-- sg721 `Mint` on the minter's own collection -/
theorem tm_tgtMint {c c' : Supply.Coll} {id o : Nat} (st : TM.State) (hown : st.tgtOwner = fun x => c.ownerOf x)
    (hnum : st.tgtNum = c.count) (h : c.mint id o = some c') :
    TM.tgtMint st id o = .ok { st with tgtOwner := fun x => c'.ownerOf x, tgtNum := c'.count } := by
  obtain ⟨h1, h2, h3⟩ := coll_mint_owner h
  unfold TM.tgtMint
  have : st.tgtOwner id = none := by rw [hown]; exact h1
  rw [this]
  simp only
  congr 1
  apply tmState_ext <;> try rfl
  · simp only [hown, h2]
  · simp only [hnum, h3]

/-- what the aspect hook returns for a deposit that completes the requirement / for a plain credit -/
def tmRecvMint (s : State) (m : Minter) (caller : Addr) (tokenId : Nat) (r : Addr) (id : Nat) : TM.Recv :=
  { st := { tmOf s m with ledger := clearLedger (creditLedger m.ledger r caller) r m.mintTokens
                          mintable := m.supply.ids.erase id
                          mintCount := MintLimits.upd m.mintCount r (m.mintCount r + 1) }
    burn := (caller, tokenId)
    mint := some (id, r) }

def tmRecvCredit (s : State) (m : Minter) (caller : Addr) (tokenId : Nat) (r : Addr) : TM.Recv :=
  { st := { tmOf s m with ledger := creditLedger m.ledger r caller }, burn := (caller, tokenId), mint := none }

/-- an accepted composite deposit is an accepted aspect deposit with the projected post-state -/
theorem tm_receive {s s' : State} {m : Minter} {caller sender : Addr} {tokenId : Nat} {recipient : Option Addr}
    {picked : Nat} (hi : FInv m.supply) (h : receiveNft s m caller sender tokenId recipient picked = .ok s') :
    ∃ m' res, s'.minter = some m' ∧
      TM.executeReceiveNft (tmOf s m) caller sender tokenId recipient (pickedId m picked) = .ok res ∧
      TM.runMsgs res = .ok (tmOf s' m') := by
  obtain ⟨amt, h1, h2, hreq, h3, hcase⟩ := receiveNft_ok h
  rcases hcase with ⟨hall, m1, hd, hb⟩ | ⟨hall, hb⟩
  · obtain ⟨sup, _, _, _, htake, rfl⟩ := deliver_ok hd
    obtain ⟨x, hx, rfl⟩ := burnDeposit_ok hb
    obtain ⟨id, hlook, hmem, hids, hmint, hn⟩ := take_at hi htake
    have hpick : TM.pickToken (tmOf s m) none (pickedId m picked) = .ok id := by
      have hne : m.supply.ids ≠ [] := List.ne_nil_of_mem hmem
      simp [TM.pickToken, tmOf, pickedId, hlook, hmem, hne]
    refine ⟨_, tmRecvMint s m caller tokenId (recipient.getD sender) id, rfl, ?_, ?_⟩
    · unfold TM.executeReceiveNft
      simp only [tmOf, requiredOf_eq, hreq, h1, h2, h3, not_true_eq_false, if_false, allReceived_eq, hall, if_true]
      have hpick' := hpick
      simp only [tmOf] at hpick'
      rw [hpick']
      rfl
    · unfold TM.runMsgs
      simp only [tmRecvMint]
      rw [tm_tgtMint (c := m.supply.coll) (c' := sup.coll) _ rfl rfl hmint]
      simp only
      rw [tm_srcBurn (s := s) (m := m) (x := x) _ rfl rfl rfl rfl rfl hx]
      obtain ⟨_, _, hxe⟩ := srcBurn_ok hx
      subst hxe
      congr 1
      apply tmState_ext <;> first | rfl | (simp only [tmOf, hids, hn])
  · obtain ⟨x, hx, rfl⟩ := burnDeposit_ok hb
    refine ⟨_, tmRecvCredit s m caller tokenId (recipient.getD sender), rfl, ?_, ?_⟩
    · unfold TM.executeReceiveNft
      simp only [tmOf, requiredOf_eq, hreq, h1, h2, h3, not_true_eq_false, if_false, allReceived_eq, hall]
      rfl
    · unfold TM.runMsgs
      simp only [tmRecvCredit]
      rw [tm_srcBurn (s := s) (m := m) (x := x) _ rfl rfl rfl rfl rfl hx]
      obtain ⟨_, _, hxe⟩ := srcBurn_ok hx
      subst hxe
      rfl


theorem tm_step'_ok {w w' : TM.State} {op : TM.Op} (h : TM.step w op = .ok w') : TM.step' w op = w' := by
  simp [TM.step', h]

theorem tm_run_one (w : TM.State) (op : TM.Op) : TM.run w [op] = TM.step' w op := rfl
theorem tm_run_nil (w : TM.State) : TM.run w [] = w := rfl

/-- `TransferNft` / the transfer half of `SendNft` on a source collection -/
theorem tm_srcTransfer {s : State} {m : Minter} {x : Srcs} {caller c : Addr} {id : Nat} {to : Addr}
    (h : srcTransfer s.srcs caller c id to = .ok x) :
    TM.srcTransfer (tmOf s m) caller c id to = .ok (tmOf { s with srcs := x } m) := by
  obtain ⟨hc, ho, rfl⟩ := srcTransfer_ok h
  unfold TM.srcTransfer
  have hcan : TM.canSend (tmOf s m) c id caller = true := by simp [TM.canSend, tmOf, ho]
  rw [if_pos ⟨hc, hcan⟩]
  congr 1
  apply tmState_ext <;> first | rfl | exact upd2_nil _ _

/-- an accepted airdrop is the accepted aspect `adminMint` -/
theorem tm_adminMint {s s' : State} {m : Minter} {sender : Addr} {funds : List Coin} {rcpt : Addr} {pk : VF.Pick}
    (hi : FInv m.supply) (h : mintAdmin s m sender funds rcpt pk = .ok s') :
    ∃ m', s'.minter = some m' ∧
      TM.adminMint (tmOf s m) sender rcpt (match pk with | .at _ => none | .id id => some id) true
        (match pk with | .at p => pickedId m p | .id _ => none) = .ok (tmOf s' m') := by
  obtain ⟨b1, ms, m1, b2, _, hadm, _, _, hd, _, rfl⟩ := mintAdmin_ok h
  obtain ⟨sup, _, _, _, htake, rfl⟩ := deliver_ok hd
  refine ⟨_, rfl, ?_⟩
  unfold TM.adminMint
  have hne : ¬ sender ≠ (tmOf s m).admin := by simp [tmOf, hadm]
  rw [if_neg hne]
  simp only [Bool.true_eq_false, if_false]
  cases pk with
  | «at» p =>
    obtain ⟨id, hlook, hmem, hids, hmint, hn⟩ := take_at hi htake
    have hpick : TM.pickToken (tmOf s m) none (pickedId m p) = .ok id := by
      have hne : m.supply.ids ≠ [] := List.ne_nil_of_mem hmem
      simp [TM.pickToken, tmOf, pickedId, hlook, hmem, hne]
    simp only [hpick]
    rw [tm_tgtMint (c := m.supply.coll) (c' := sup.coll) _ rfl rfl hmint]
    congr 1
    apply tmState_ext <;> first | rfl | (simp only [tmOf, hids, hn])
  | id id =>
    obtain ⟨h1, h2, hmem, hids, hmint, hn⟩ := take_id hi htake
    have hpick : TM.pickToken (tmOf s m) (some id) none = .ok id := by
      have hne : m.supply.ids ≠ [] := List.ne_nil_of_mem hmem
      have hr : ¬ (id = 0 ∨ m.supply.n < id) := by omega
      simp [TM.pickToken, tmOf, hmem, hne, hr]
    simp only [hpick]
    rw [tm_tgtMint (c := m.supply.coll) (c' := sup.coll) _ rfl rfl hmint]
    congr 1
    apply tmState_ext <;> first | rfl | (simp only [tmOf, hids, hn])


/-- an ACCEPTED composite message (other than a new source contract appearing) is either invisible on the projection (no aspect
op) or exactly ONE (extended) aspect op, which the aspect model accepts with the projected post-state -/
theorem tm_sim_step {s s' : State} {m : Minter} {op : Op} (hm : s.minter = some m) (h : step s op = .ok s')
    (hi : FInv m.supply) (hq : TmQuiet s op) :
    ∃ m', s'.minter = some m' ∧
      ((tmOps s m op = [] ∧ tmOf s' m' = tmOf s m) ∨
       ∃ aop, tmOps s m op = [aop] ∧ TM.stepX (tmOf s m) aop = .ok (tmOf s' m')) := by
  have hacc := accepted_of_ok h
  cases op with
  | setTime t =>
    simp only [step] at h; split at h <;> cases h
    exact ⟨m, hm, Or.inr ⟨_, by rw [tmOps, if_pos hacc]; rfl, rfl⟩⟩
  | fund a c =>
    simp only [step] at h; cases h
    exact ⟨m, hm, Or.inl ⟨by rw [tmOps, if_pos hacc]; rfl, rfl⟩⟩
  | srcNew c => exact absurd hq (by simp [TmQuiet])
  | srcGive c id to =>
    simp only [step] at h
    obtain ⟨x, hx, rfl⟩ := onSrcs_ok h
    obtain ⟨hc, ho, rfl⟩ := srcGive_ok hx
    refine ⟨m, hm, ?_⟩
    refine Or.inr ⟨_, by rw [tmOps, if_pos hacc]; rfl, ?_⟩
    simp only [TM.stepX]
    simp only [TM.step]
    rw [if_pos (show c ∈ (tmOf s m).colls ∧ (tmOf s m).srcOwner c id = none from ⟨hc, ho⟩)]
    congr 1
    apply tmState_ext <;> first | rfl | exact upd2_nil _ _
  | srcTransfer caller c id to =>
    simp only [step] at h
    obtain ⟨x, hx, rfl⟩ := onSrcs_ok h
    refine ⟨m, hm, ?_⟩
    refine Or.inr ⟨_, by rw [tmOps, if_pos hacc]; rfl, ?_⟩
    simp only [TM.stepX]
    simp only [TM.step]
    exact tm_srcTransfer hx
  | send caller coll id contract recipient msgOk picked =>
    simp only [step] at h
    obtain ⟨x, m0, hx, hm0, hct, hmk, hr⟩ := sendNft_ok h
    rw [hm] at hm0; cases hm0
    obtain ⟨m', res, hm', hexec, hrun⟩ := tm_receive (s := { s with srcs := x }) hi hr
    refine ⟨m', hm', ?_⟩
    refine Or.inr ⟨_, by rw [tmOps, if_pos hacc]; rfl, ?_⟩
    simp only [TM.stepX]
    simp only [TM.step]
    rw [tm_srcTransfer hx]
    have hno : ¬ (contract ≠ (tmOf s m).self ∨ msgOk = false) := by simp [tmOf, hct, hmk]
    simp only [hno, if_false, hexec]
    exact hrun
  | receive caller sender id recipient msgOk picked =>
    simp only [step] at h
    obtain ⟨m0, hm0, h⟩ := withMinterS_ok h
    rw [hm] at hm0; cases hm0
    obtain ⟨hmk, hr⟩ := receiveDirect_ok h
    obtain ⟨m', res, hm', hexec, hrun⟩ := tm_receive hi hr
    refine ⟨m', hm', ?_⟩
    refine Or.inr ⟨_, by rw [tmOps, if_pos hacc]; rfl, ?_⟩
    simp only [TM.stepX]
    simp only [TM.step, hmk, Bool.true_eq_false, if_false, hexec]
    exact hrun
  | create sender funds msg w =>
    simp only [step] at h
    obtain ⟨_, _, _, _, hnone, _⟩ := createMinter_ok h
    rw [hm] at hnone; cases hnone
  | instantiateDirect sender => simp [step] at h
  | mintTo sender funds rcpt picked =>
    simp only [step] at h
    obtain ⟨m0, hm0, h⟩ := withMinterS_ok h
    rw [hm] at hm0; cases hm0
    obtain ⟨m', hm', hstep⟩ := tm_adminMint hi h
    refine ⟨m', hm', ?_⟩
    refine Or.inr ⟨_, by rw [tmOps, if_pos hacc]; rfl, ?_⟩
    simp only [TM.stepX]
    simp only [TM.step]
    exact hstep
  | mintFor sender funds id rcpt =>
    simp only [step] at h
    obtain ⟨m0, hm0, h⟩ := withMinterS_ok h
    rw [hm] at hm0; cases hm0
    obtain ⟨m', hm', hstep⟩ := tm_adminMint hi h
    refine ⟨m', hm', ?_⟩
    refine Or.inr ⟨_, by rw [tmOps, if_pos hacc]; rfl, ?_⟩
    simp only [TM.stepX]
    simp only [TM.step]
    exact hstep
  | purge sender funds =>
    simp only [step] at h
    obtain ⟨m0, m', hm0, hf, rfl⟩ := withMinter_ok h
    rw [hm] at hm0; cases hm0
    obtain ⟨_, _, rfl⟩ := purge_ok hf
    refine ⟨_, rfl, ?_⟩
    refine Or.inr ⟨_, by rw [tmOps, if_pos hacc]; rfl, ?_⟩
    simp only [TM.stepX]
    simp only [TM.step, Bool.true_eq_false, if_false]
    rfl
  | updateStartTime sender funds t =>
    simp only [step] at h
    obtain ⟨m0, m', hm0, hf, rfl⟩ := withMinter_ok h
    rw [hm] at hm0; cases hm0
    obtain ⟨_, _, hbefore, _, _, rfl⟩ := updateStartTime_ok hf
    refine ⟨_, rfl, ?_⟩
    refine Or.inr ⟨_, by rw [tmOps, if_pos hacc]; rfl, ?_⟩
    simp only [TM.stepX]
    have hns : ¬ (tmOf s m).start ≤ (tmOf s m).now := by show ¬ m.startTime ≤ s.now; omega
    simp only [TM.step, Bool.true_eq_false, if_false, hns]
    rfl
  | updateStartTradingTime sender funds t =>
    simp only [step] at h
    obtain ⟨m0, m', hm0, hf, rfl⟩ := withMinter_ok h
    rw [hm] at hm0; cases hm0
    obtain ⟨_, _, _, _, _, rfl⟩ := updateStartTradingTime_ok hf
    refine ⟨_, rfl, ?_⟩
    refine Or.inr ⟨_, by rw [tmOps, if_pos hacc]; rfl, ?_⟩
    simp only [TM.stepX]
    simp only [TM.step, Bool.true_eq_false, if_false]
    rfl
  | updatePerAddressLimit sender funds n =>
    simp only [step] at h
    obtain ⟨m0, m', hm0, hf, rfl⟩ := withMinter_ok h
    rw [hm] at hm0; cases hm0
    obtain ⟨_, _, _, _, _, rfl⟩ := updatePerAddressLimit_ok hf
    refine ⟨_, rfl, ?_⟩
    refine Or.inr ⟨_, by rw [tmOps, if_pos hacc]; rfl, ?_⟩
    simp only [TM.stepX]
    simp only [TM.step, Bool.true_eq_false, if_false]
    rfl
  | shuffle sender funds perm =>
    simp only [step] at h
    obtain ⟨m0, hm0, h⟩ := withMinterS_ok h
    rw [hm] at hm0; cases hm0
    obtain ⟨b1, ms, sup, b2, _, _, hsh, _, rfl⟩ := shuffle_ok h
    obtain ⟨_, hperm, rfl⟩ := Supply.Fixed.shuffle_spec hsh
    obtain ⟨_, hids, _⟩ := Supply.Fixed.shuffle_keys_ids hperm
    refine ⟨_, rfl, Or.inr ⟨_, by rw [tmOps, if_pos hacc]; rfl, ?_⟩⟩
    simp only [TM.stepX, Bool.true_eq_false, if_false]
    have hp : perm.isPerm (tmOf s m).mintable = true := List.isPerm_iff.mpr hperm
    rw [if_pos hp]
    congr 1
    apply tmState_ext <;> first | rfl | (simp only [tmOf, hids])
  | burnRemaining sender funds =>
    simp only [step] at h
    obtain ⟨m0, m', hm0, hf, rfl⟩ := withMinter_ok h
    rw [hm] at hm0; cases hm0
    obtain ⟨sup, _, _, hb, rfl⟩ := burnRemaining_ok hf
    obtain ⟨_, rfl⟩ := Supply.Fixed.burnAll_spec hb
    refine ⟨_, rfl, ?_⟩
    refine Or.inr ⟨_, by rw [tmOps, if_pos hacc]; rfl, ?_⟩
    simp only [TM.stepX]
    simp only [TM.step, Bool.true_eq_false, if_false]
    rfl
  | sudoStatus v b e =>
    simp only [step] at h
    obtain ⟨m0, m', hm0, hf, rfl⟩ := withMinter_ok h
    rw [hm] at hm0; cases hm0
    cases hf
    refine ⟨_, rfl, ?_⟩
    refine Or.inr ⟨_, by rw [tmOps, if_pos hacc]; rfl, ?_⟩
    simp only [TM.stepX]
    simp only [TM.step, Bool.true_eq_false, if_false]
    rfl
  | sudoParams u =>
    simp only [step] at h
    split at h
    · cases h
    · rename_i p hp
      cases h
      refine ⟨m, hm, Or.inr ⟨.govern p.maxPerAddressLimit p.airdropMintPrice.amount true, ?_, ?_⟩⟩
      · rw [tmOps, if_pos hacc]; simp only [tmCore, hp]
      · simp only [TM.stepX, Bool.true_eq_false, if_false]
        rfl
  | collTransfer sender id to =>
    simp only [step] at h
    obtain ⟨m0, m', hm0, hf, rfl⟩ := withMinter_ok h
    rw [hm] at hm0; cases hm0
    obtain ⟨c, _, hown, hc, rfl⟩ := collTransfer_ok hf
    obtain ⟨ho, hcnt⟩ := coll_transfer_owner hc
    refine ⟨_, rfl, Or.inr ⟨_, by rw [tmOps, if_pos hacc]; rfl, ?_⟩⟩
    simp only [TM.stepX, Bool.true_eq_false, if_false]
    have hcan : (tmOf s m).tgtOwner id = some sender := hown
    rw [if_pos hcan]
    congr 1
    apply tmState_ext <;> first | rfl | exact hcnt.symm | (simp only [tmOf, ho])
  | collBurn sender id =>
    simp only [step] at h
    obtain ⟨m0, m', hm0, hf, rfl⟩ := withMinter_ok h
    rw [hm] at hm0; cases hm0
    obtain ⟨c, hown, hc, rfl⟩ := collBurn_ok hf
    obtain ⟨ho, hcnt⟩ := coll_burn_owner hc
    refine ⟨_, rfl, Or.inr ⟨_, by rw [tmOps, if_pos hacc]; rfl, ?_⟩⟩
    simp only [TM.stepX, Bool.true_eq_false, if_false]
    have hcan : (tmOf s m).tgtOwner id = some sender := hown
    rw [if_pos hcan]
    congr 1
    apply tmState_ext <;> first | rfl | exact hcnt.symm | (simp only [tmOf, ho])
  | collTrading sender t =>
    simp only [step] at h
    obtain ⟨m0, c, hm0, _, rfl⟩ := onColl_ok h
    rw [hm] at hm0; cases hm0
    refine ⟨_, rfl, ?_⟩
    refine Or.inr ⟨_, by rw [tmOps, if_pos hacc]; rfl, ?_⟩
    simp only [TM.stepX]
    simp only [TM.step, Bool.true_eq_false, if_false]
    rfl
  | collCreator sender new =>
    simp only [step] at h
    obtain ⟨m0, c, hm0, _, rfl⟩ := onColl_ok h
    rw [hm] at hm0; cases hm0
    refine ⟨_, rfl, ?_⟩
    refine Or.inr ⟨_, by rw [tmOps, if_pos hacc]; rfl, ?_⟩
    simp only [TM.stepX]
    simp only [TM.step, Bool.true_eq_false, if_false]
    rfl
  | collFreeze sender =>
    simp only [step] at h
    obtain ⟨m0, c, hm0, _, rfl⟩ := onColl_ok h
    rw [hm] at hm0; cases hm0
    refine ⟨_, rfl, ?_⟩
    refine Or.inr ⟨_, by rw [tmOps, if_pos hacc]; rfl, ?_⟩
    simp only [TM.stepX]
    simp only [TM.step, Bool.true_eq_false, if_false]
    rfl
  | collOwn sender a =>
    simp only [step] at h
    obtain ⟨m0, c, hm0, _, rfl⟩ := onColl_ok h
    rw [hm] at hm0; cases hm0
    refine ⟨_, rfl, ?_⟩
    refine Or.inr ⟨_, by rw [tmOps, if_pos hacc]; rfl, ?_⟩
    simp only [TM.stepX]
    simp only [TM.step, Bool.true_eq_false, if_false]
    rfl

theorem tm_stepX'_ok {w w' : TM.State} {op : TM.OpX} (h : TM.stepX w op = .ok w') : TM.stepX' w op = w' := by
  simp [TM.stepX', h]

theorem tm_runX_one (w : TM.State) (op : TM.OpX) : TM.runX w [op] = TM.stepX' w op := rfl
theorem tm_runX_nil (w : TM.State) : TM.runX w [] = w := rfl

/-- the same as a run of the translated ops -/
theorem tm_sim_ok {s s' : State} {m : Minter} {op : Op} (hm : s.minter = some m) (h : step s op = .ok s')
    (hi : FInv m.supply) (hq : TmQuiet s op) :
    ∃ m', s'.minter = some m' ∧ TM.runX (tmOf s m) (tmOps s m op) = tmOf s' m' := by
  obtain ⟨m', hm', hcase⟩ := tm_sim_step hm h hi hq
  refine ⟨m', hm', ?_⟩
  rcases hcase with ⟨h0, heq⟩ | ⟨aop, h1, hstep⟩
  · rw [h0, tm_runX_nil, heq]
  · rw [h1, tm_runX_one, tm_stepX'_ok hstep]

end LP.TMF
