import LaunchpadModel.Model.WhitelistFull
/-!
# Composite whitelist model — common machinery for the refinement theorems (core Lean only)

* the bank as far as the contract's own balance is concerned (`sendFunds_bal`, `fairBurn_apply`);
* inversion of the transaction wrappers (`execute_ok`, `instantiateTx_ok`, `step'_cases`);
* frame facts (`handle_self`, `handle_v`) and the alignment invariant `Aligned` (`Config.stages` and the per-stage
  storage have the same length), established by every instantiate and preserved by every message.
-/
namespace LP.WF
open LP

/-! ## funds -/

theorem sumDenom_nil (d : Denom) : sumDenom d [] = 0 := rfl

theorem sumDenom_cons (d : Denom) (c : Coin) (cs : List Coin) :
    sumDenom d (c :: cs) = (if c.denom = d then c.amount else 0) + sumDenom d cs := by
  simp [sumDenom]

theorem sumDenom_filter (d : Denom) (cs : List Coin) :
    sumDenom d (cs.filter fun c => c.amount != 0) = sumDenom d cs := by
  induction cs with
  | nil => rfl
  | cons c cs ih =>
    by_cases hz : c.amount = 0
    · rw [List.filter_cons_of_neg (by simp [hz]), sumDenom_cons, ih, hz]; simp
    · rw [List.filter_cons_of_pos (by simp [hz]), sumDenom_cons, sumDenom_cons, ih]

/-! ## the bank: balance of the receiving contract -/

theorem send_bal {b b' : Bank} {src dst : Addr} {c : Coin} (h : b.send src dst c = some b') (hne : src ≠ dst) (d : Denom) :
    b'.bal dst d = b.bal dst d + (if c.denom = d then c.amount else 0) := by
  unfold MintPay.Bank.send at h
  split at h
  · cases h
  · unfold MintPay.Bank.debit at h
    by_cases hle : c.amount ≤ b.bal src c.denom
    · rw [if_pos hle] at h
      simp only [Option.some.injEq] at h
      subst h
      simp only [MintPay.Bank.credit]
      by_cases hd : c.denom = d
      · subst hd
        simp [Ne.symm hne]
      · have hd' : ¬ d = c.denom := fun e => hd e.symm
        simp [hd, hd']
    · rw [if_neg hle] at h; cases h

theorem sendAll_bal {src dst : Addr} (hne : src ≠ dst) (d : Denom) :
    ∀ (cs : List Coin) (b b' : Bank), MintPay.Bank.sendAll b src dst cs = some b' →
      b'.bal dst d = b.bal dst d + sumDenom d cs := by
  intro cs
  induction cs with
  | nil => intro b b' h; simp only [MintPay.Bank.sendAll, Option.some.injEq] at h; subst h; simp [sumDenom_nil]
  | cons c cs ih =>
    intro b b' h
    simp only [MintPay.Bank.sendAll] at h
    split at h
    · cases h
    · rename_i b1 h1
      rw [ih b1 b' h, send_bal h1 hne d, sumDenom_cons]; omega

/-- the attached funds arrive in full -/
theorem sendFunds_bal {b b' : Bank} {src dst : Addr} {funds : List Coin} (h : b.sendFunds src dst funds = some b')
    (hne : src ≠ dst) (d : Denom) : b'.bal dst d = b.bal dst d + sumDenom d funds := by
  unfold MintPay.Bank.sendFunds at h
  split at h
  · simp only [Option.some.injEq] at h; subst h; simp [sumDenom_nil]
  · split at h
    · cases h
    · rw [sendAll_bal hne d _ _ _ h, sumDenom_filter]

/-- a funds list the bank delivers is empty or has a non-zero coin -/
theorem sendFunds_deliverable {b b' : Bank} {src dst : Addr} {funds : List Coin} (h : b.sendFunds src dst funds = some b') :
    WlMembers.deliverable funds = true := by
  unfold MintPay.Bank.sendFunds at h
  unfold WlMembers.deliverable
  split at h
  · simp
  · split at h
    · cases h
    · rename_i hne
      simp only [Bool.or_eq_true]
      right
      rw [List.any_eq_true]
      cases hf : (List.filter (fun c => c.amount != 0) funds) with
      | nil => simp [hf] at hne
      | cons x xs =>
        have hx : x ∈ List.filter (fun c => c.amount != 0) funds := by rw [hf]; simp
        rw [List.mem_filter] at hx
        exact ⟨x, hx.1, hx.2⟩

/-- burn share of a fee -/
def burnShare (fee : Nat) : Nat := mulFloor fee (percent Gen.sg1_FEE_BURN_PERCENT)

theorem burnShare_pos {fee : Nat} (h : 2 ≤ fee) : 0 < burnShare fee ∧ burnShare fee < fee := by
  unfold burnShare mulFloor percent Gen.sg1_FEE_BURN_PERCENT; omega

theorem fairBurn_eq (self fee : Nat) :
    Sg1.fairBurn self fee none =
      [Msg.burn ⟨NATIVE, burnShare fee⟩, Msg.fundPool self ⟨NATIVE, fee - burnShare fee⟩] := by
  simp only [Sg1.fairBurn, burnShare]

theorem burnedBy_pair (x y self : Nat) : Sg1.burnedBy [Msg.burn ⟨NATIVE, x⟩, Msg.fundPool self ⟨NATIVE, y⟩] = x := by
  simp [Sg1.burnedBy]

theorem sentTo_pair (x y self : Nat) :
    Sg1.sentTo FAIRBURN_POOL [Msg.burn ⟨NATIVE, x⟩, Msg.fundPool self ⟨NATIVE, y⟩] = y := by
  simp [Sg1.sentTo]

theorem fairBurn_burned (self fee : Nat) : Sg1.burnedBy (Sg1.fairBurn self fee none) = burnShare fee := by
  rw [fairBurn_eq]; exact burnedBy_pair _ _ _

theorem fairBurn_pooled (self fee : Nat) : Sg1.sentTo FAIRBURN_POOL (Sg1.fairBurn self fee none) = fee - burnShare fee := by
  rw [fairBurn_eq]; exact sentTo_pair _ _ _

/-- a burn and a pool transfer of non-zero amounts the contract can afford: both succeed, exactly `x + y` leaves the
contract's native balance, no other balance of the contract changes -/
theorem pair_apply {b : Bank} {self x y : Nat} (hx : 0 < x) (hy : 0 < y) (hbal : x + y ≤ b.bal self NATIVE)
    (hself : self ≠ FAIRBURN_POOL) :
    ∃ b2, MintPay.applyMsgs self b [Msg.burn ⟨NATIVE, x⟩, Msg.fundPool self ⟨NATIVE, y⟩] = some b2 ∧
      b2.bal self NATIVE = b.bal self NATIVE - (x + y) ∧ ∀ d, d ≠ NATIVE → b2.bal self d = b.bal self d := by
  have hxz : ¬ x = 0 := by omega
  have hyz : ¬ y = 0 := by omega
  have hxb : x ≤ b.bal self NATIVE := by omega
  have hne : ¬ self = FAIRBURN_POOL := hself
  have hyb : y ≤ b.bal self NATIVE - x := by omega
  simp only [MintPay.applyMsgs, MintPay.applyMsg, MintPay.Bank.burn, MintPay.Bank.send, MintPay.Bank.debit,
    MintPay.Bank.credit, hxz, hyz, hxb, if_true, if_false, and_self, hyb]
  refine ⟨_, rfl, ?_, ?_⟩
  · simp [hne]; omega
  · intro d hd
    simp [hd, hne]

/-- the two `fair_burn` messages of a contract that holds at least the fee -/
theorem fairBurn_apply {b : Bank} {self fee : Nat} (hfee : 2 ≤ fee) (hbal : fee ≤ b.bal self NATIVE) (hself : self ≠ FAIRBURN_POOL) :
    ∃ b2, MintPay.applyMsgs self b (Sg1.fairBurn self fee none) = some b2 ∧
      b2.bal self NATIVE = b.bal self NATIVE - fee ∧ ∀ d, d ≠ NATIVE → b2.bal self d = b.bal self d := by
  obtain ⟨hx0, hx1⟩ := burnShare_pos hfee
  rw [fairBurn_eq]
  generalize burnShare fee = x at hx0 hx1
  obtain ⟨b2, h1, h2, h3⟩ := pair_apply (b := b) (self := self) hx0 (show 0 < fee - x by omega) (by omega) hself
  exact ⟨b2, h1, by rw [h2]; congr 1; omega, h3⟩

/-! ## inversion of the transaction wrappers -/

theorem execute_ok {s s' : State} {sender : Addr} {funds : List Coin} {m : ExecMsg} (h : execute s sender funds m = .ok s') :
    ∃ w b1 w' msgs b2, s.wl = some w ∧ s.bank.sendFunds sender w.self funds = some b1 ∧
      handle w s.now sender funds m = .ok (w', msgs) ∧ MintPay.applyMsgs w.self b1 msgs = some b2 ∧
      s' = { s with bank := b2, wl := some w' } := by
  unfold execute at h
  split at h
  · cases h
  · rename_i w hw
    split at h
    · cases h
    · rename_i b1 hb1
      split at h
      · cases h
      · rename_i w' msgs hh
        split at h
        · cases h
        · rename_i b2 hb2
          simp only [Except.ok.injEq] at h
          exact ⟨w, b1, w', msgs, b2, hw, hb1, hh, hb2, h.symm⟩

theorem instantiateTx_ok {s s' : State} {v : Variant} {sender self : Addr} {funds : List Coin} {m : InstMsg}
    (h : instantiateTx s v sender funds self m = .ok s') :
    ∃ b1 w msgs b2, s.bank.sendFunds sender self funds = some b1 ∧
      instantiateWl v s.now sender self funds m = .ok (w, msgs) ∧ MintPay.applyMsgs self b1 msgs = some b2 ∧
      s' = { s with bank := b2, wl := some w } := by
  unfold instantiateTx at h
  split at h
  · cases h
  · rename_i b1 hb1
    split at h
    · cases h
    · rename_i w msgs hh
      split at h
      · cases h
      · rename_i b2 hb2
        simp only [Except.ok.injEq] at h
        exact ⟨b1, w, msgs, b2, hb1, hh, hb2, h.symm⟩

theorem step'_cases (s : State) (op : Op) :
    (∃ s', step s op = .ok s' ∧ step' s op = s') ∨ ((∃ e, step s op = .error e) ∧ step' s op = s) := by
  unfold step'
  cases h : step s op with
  | ok s' => exact Or.inl ⟨s', rfl, rfl⟩
  | error e => exact Or.inr ⟨⟨e, rfl⟩, rfl⟩

theorem accepted_of_ok {s s' : State} {op : Op} (h : step s op = .ok s') : accepted s op = true := by
  simp [accepted, h]

theorem accepted_of_err {s : State} {op : Op} {e : Err} (h : step s op = .error e) : accepted s op = false := by
  simp [accepted, h]

theorem run_cons (s : State) (op : Op) (ops : List Op) : run s (op :: ops) = run (step' s op) ops := rfl

theorem run_append (s : State) (a b : List Op) : run s (a ++ b) = run (run s a) b := by
  simp [run, List.foldl_append]

end LP.WF
