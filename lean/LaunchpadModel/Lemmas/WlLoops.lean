import LaunchpadModel.Lemmas.WlMaps
/-!
# Helper lemmas for C11 (part 2): `sortDedup`/`prep`, the handler loops (`addLoop`, `saveAll`, `removeLoop`), stage lists, fees
-/
namespace LP.WlMembers
open LP

theorem mem_insertU (a : Nat) (l : List Nat) (b : Nat) : b ∈ insertU a l ↔ b = a ∨ b ∈ l := by
  induction l with
  | nil => simp [insertU]
  | cons x xs ih =>
    unfold insertU
    by_cases h1 : a < x
    · rw [if_pos h1]; simp
    · rw [if_neg h1]
      by_cases h2 : a = x
      · rw [if_pos h2]; simp [h2]
      · rw [if_neg h2, List.mem_cons, ih, List.mem_cons]
        constructor
        · rintro (h | h | h)
          · exact Or.inr (Or.inl h)
          · exact Or.inl h
          · exact Or.inr (Or.inr h)
        · rintro (h | h | h)
          · exact Or.inr (Or.inl h)
          · exact Or.inl h
          · exact Or.inr (Or.inr h)

theorem sorted_insertU (a : Nat) {l : List Nat} (h : l.Pairwise (· < ·)) : (insertU a l).Pairwise (· < ·) := by
  induction l with
  | nil => simp [insertU]
  | cons x xs ih =>
    have hx := List.pairwise_cons.mp h
    unfold insertU
    by_cases h1 : a < x
    · rw [if_pos h1]
      refine List.pairwise_cons.mpr ⟨?_, h⟩
      intro b hb
      rcases List.mem_cons.mp hb with hb | hb
      · omega
      · have := hx.1 b hb; omega
    · rw [if_neg h1]
      by_cases h2 : a = x
      · rw [if_pos h2]; exact h
      · rw [if_neg h2]
        refine List.pairwise_cons.mpr ⟨?_, ih hx.2⟩
        intro b hb
        rcases (mem_insertU a xs b).mp hb with hb | hb
        · omega
        · exact hx.1 b hb

theorem mem_sortDedup (l : List Nat) (b : Nat) : b ∈ sortDedup l ↔ b ∈ l := by
  induction l with
  | nil => simp [sortDedup]
  | cons x xs ih =>
    have : sortDedup (x :: xs) = insertU x (sortDedup xs) := rfl
    rw [this, mem_insertU, ih]; simp

theorem sorted_sortDedup (l : List Nat) : (sortDedup l).Pairwise (· < ·) := by
  induction l with
  | nil => simp [sortDedup]
  | cons x xs ih =>
    have : sortDedup (x :: xs) = insertU x (sortDedup xs) := rfl
    rw [this]; exact sorted_insertU x ih

theorem keys_map_zero (l : List Nat) : keys (l.map (fun a => ((a, 0) : Member))) = l := by
  induction l with
  | nil => rfl
  | cons x xs ih => simp only [List.map_cons, keys_cons, ih]

/-- plain kinds iterate over a strictly ascending, repetition-free list -/
theorem sorted_prep {k : Kind} (hk : k.isFlex = false) (ms : List Member) : SortedKeys (prep k ms) := by
  unfold prep SortedKeys; rw [hk]; simp only [Bool.false_eq_true, if_false]
  rw [keys_map_zero]; exact sorted_sortDedup _

theorem mem_keys_prep (k : Kind) (ms : List Member) (a : Nat) : a ∈ keys (prep k ms) ↔ a ∈ keys ms := by
  unfold prep
  cases k.isFlex
  · simp only [Bool.false_eq_true, if_false]; rw [keys_map_zero, mem_sortDedup]
  · simp

/-- What a successful `addLoop` did. -/
structure AddSpec (cfg : LoopCfg) (limit : Nat) (l : List Member) (n : Nat) (st : List Member) (a : Nat)
    (n' : Nat) (st' : List Member) (a' : Nat) : Prop where
  sorted : SortedKeys st'
  /-- the counter grew by exactly the number of new map entries -/
  count : n' + st.length = n + st'.length
  added : a' + st.length = a + st'.length
  /-- afterwards exactly the old and the listed addresses are stored -/
  mem : ∀ x, x ∈ keys st' ↔ x ∈ keys st ∨ x ∈ keys l
  /-- an already stored member keeps its stored value -/
  kept : ∀ x, x ∈ keys st → getM x st' = getM x st
  mono : n ≤ n'
  cap : cfg.checkLimit = true → n ≤ limit → n' ≤ limit
  /-- with `rejectDup`, success means no listed address was stored or repeated -/
  fresh : cfg.rejectDup = true → (∀ x ∈ keys l, x ∉ keys st) ∧ (keys l).Nodup
  /-- every listed address passed `addr_validate` -/
  valid : ∀ x ∈ keys l, validAddr x = true

/-- one-step unfolding of `addLoop` in a shape convenient for case analysis -/
theorem addLoop_cons (cfg : LoopCfg) (limit : Nat) (m : Member) (ms : List Member) (n : Nat) (st : List Member) (a : Nat) :
    addLoop cfg limit (m :: ms) (n, st, a) =
      if (!cfg.hasFirst && cfg.checkLimit && decide (n ≥ limit)) = true then .error .limit
      else if (!validAddr m.1) = true then .error .invalid
      else if whaleExceeded cfg.whale m.2 = true then .error .limit
      else if hasM m.1 st = true then
        (if cfg.rejectDup = true then .error .invalid else addLoop cfg limit ms (n, st, a))
      else if (cfg.hasFirst && cfg.checkLimit && decide (n ≥ limit)) = true then .error .limit
      else addLoop cfg limit ms (n + 1, saveM m st, a + 1) := by
  rw [addLoop]

theorem addLoop_spec (cfg : LoopCfg) (limit : Nat) :
    ∀ (l : List Member) (n : Nat) (st : List Member) (a n' : Nat) (st' : List Member) (a' : Nat),
      SortedKeys st → addLoop cfg limit l (n, st, a) = .ok (n', st', a') →
      AddSpec cfg limit l n st a n' st' a' := by
  intro l
  induction l with
  | nil =>
    intro n st a n' st' a' hs h
    simp only [addLoop, Except.ok.injEq, Prod.mk.injEq] at h
    obtain ⟨rfl, rfl, rfl⟩ := h
    exact ⟨hs, rfl, rfl, by simp [keys], fun _ _ => rfl, Nat.le_refl _, fun _ h => h, fun _ => ⟨by simp [keys], by simp [keys]⟩, by simp [keys]⟩
  | cons m ms ih =>
    intro n st a n' st' a' hs h
    rw [addLoop_cons] at h
    by_cases c1 : (!cfg.hasFirst && cfg.checkLimit && decide (n ≥ limit)) = true
    · rw [if_pos c1] at h; exact absurd h (by simp)
    rw [if_neg c1] at h
    by_cases c2 : (!validAddr m.1) = true
    · rw [if_pos c2] at h; exact absurd h (by simp)
    rw [if_neg c2] at h
    by_cases c3 : whaleExceeded cfg.whale m.2 = true
    · rw [if_pos c3] at h; exact absurd h (by simp)
    rw [if_neg c3] at h
    by_cases hhas : hasM m.1 st = true
    · rw [if_pos hhas] at h
      by_cases hrej : cfg.rejectDup = true
      · rw [if_pos hrej] at h; exact absurd h (by simp)
      rw [if_neg hrej] at h
      have r := ih n st a n' st' a' hs h
      have hin : m.1 ∈ keys st := (hasM_iff _ _).mp hhas
      have hvm : validAddr m.1 = true := by simpa using c2
      refine ⟨r.sorted, r.count, r.added, ?_, r.kept, r.mono, r.cap, ?_, ?_⟩
      · intro x; rw [r.mem x, keys_cons, List.mem_cons]
        constructor
        · rintro (h1 | h1)
          · exact Or.inl h1
          · exact Or.inr (Or.inr h1)
        · rintro (h1 | h1 | h1)
          · exact Or.inl h1
          · exact Or.inl (h1 ▸ hin)
          · exact Or.inr h1
      · intro hr; exact absurd hr hrej
      · intro x hx; rw [keys_cons, List.mem_cons] at hx
        rcases hx with hx | hx
        · rw [hx]; exact hvm
        · exact r.valid x hx
    · rw [if_neg hhas] at h
      by_cases c5 : (cfg.hasFirst && cfg.checkLimit && decide (n ≥ limit)) = true
      · rw [if_pos c5] at h; exact absurd h (by simp)
      rw [if_neg c5] at h
      have hnot : m.1 ∉ keys st := (hasM_false_iff _ _).mp (by simpa using hhas)
      have r := ih (n + 1) (saveM m st) (a + 1) n' st' a' (sorted_saveM m hs) h
      have hl := length_saveM_new m st hnot
      have hvm : validAddr m.1 = true := by simpa using c2
      refine ⟨r.sorted, ?_, ?_, ?_, ?_, ?_, ?_, ?_, ?_⟩
      rotate_right
      · intro x hx; rw [keys_cons, List.mem_cons] at hx
        rcases hx with hx | hx
        · rw [hx]; exact hvm
        · exact r.valid x hx
      · have := r.count; omega
      · have := r.added; omega
      · intro x; rw [r.mem x, mem_keys_saveM, keys_cons, List.mem_cons]
        constructor
        · rintro ((h1 | h1) | h1)
          · exact Or.inr (Or.inl h1)
          · exact Or.inl h1
          · exact Or.inr (Or.inr h1)
        · rintro (h1 | h1 | h1)
          · exact Or.inl (Or.inr h1)
          · exact Or.inl (Or.inl h1)
          · exact Or.inr h1
      · intro x hx
        have hne : x ≠ m.1 := fun e => hnot (e ▸ hx)
        rw [r.kept x ((mem_keys_saveM m st x).mpr (Or.inr hx)), getM_saveM_other m st x hne]
      · have := r.mono; omega
      · intro hc hn
        have hlt : n < limit := by
          rw [hc] at c1 c5
          cases hf : cfg.hasFirst
          · rw [hf] at c1; simp only [Bool.not_false, Bool.true_and, decide_eq_true_eq] at c1; omega
          · rw [hf] at c5; simp only [Bool.true_and, decide_eq_true_eq] at c5; omega
        exact r.cap hc (by omega)
      · intro hr
        have f := r.fresh hr
        refine ⟨?_, ?_⟩
        · intro x hx
          rw [keys_cons, List.mem_cons] at hx
          rcases hx with hx | hx
          · exact hx ▸ hnot
          · intro hxs; exact f.1 x hx ((mem_keys_saveM m st x).mpr (Or.inr hxs))
        · rw [keys_cons, List.nodup_cons]
          refine ⟨?_, f.2⟩
          intro hm; exact f.1 m.1 hm ((mem_keys_saveM m st m.1).mpr (Or.inl rfl))

/-- into an empty map, a repetition-free list is stored completely -/
theorem addLoop_fresh_length {cfg : LoopCfg} {limit : Nat} {l : List Member} {n a n' : Nat} {st' : List Member} {a' : Nat}
    (h : addLoop cfg limit l (n, [], a) = .ok (n', st', a')) (hl : SortedKeys l) :
    st'.length = l.length := by
  have r := addLoop_spec cfg limit l n [] a n' st' a' sortedKeys_nil h
  have h1 : ∀ x, x ∈ keys st' ↔ x ∈ keys l := by intro x; rw [r.mem x]; simp [keys]
  have p : (keys st').Perm (keys l) := (List.perm_ext_iff_of_nodup r.sorted.nodup hl.nodup).mpr h1
  have := p.length_eq
  rwa [keys_length, keys_length] at this

/-! ## saveAll -/

theorem saveAll_spec : ∀ (l st st' : List Member), SortedKeys st → saveAll l st = .ok st' →
    SortedKeys st' ∧ (∀ x, x ∈ keys st' ↔ x ∈ keys st ∨ x ∈ keys l) := by
  intro l
  induction l with
  | nil =>
    intro st st' hs h
    simp only [saveAll, Except.ok.injEq] at h; subst h
    exact ⟨hs, by simp [keys]⟩
  | cons m ms ih =>
    intro st st' hs h
    rw [saveAll] at h
    by_cases c : (!validAddr m.1) = true
    · rw [if_pos c] at h; exact absurd h (by simp)
    rw [if_neg c] at h
    have r := ih (saveM m st) st' (sorted_saveM m hs) h
    refine ⟨r.1, ?_⟩
    intro x; rw [r.2 x, mem_keys_saveM, keys_cons, List.mem_cons]
    constructor
    · rintro ((h1 | h1) | h1)
      · exact Or.inr (Or.inl h1)
      · exact Or.inl h1
      · exact Or.inr (Or.inr h1)
    · rintro (h1 | h1 | h1)
      · exact Or.inl (Or.inr h1)
      · exact Or.inl (Or.inl h1)
      · exact Or.inr h1

theorem saveAll_valid : ∀ (l st st' : List Member), saveAll l st = .ok st' → ∀ x ∈ keys l, validAddr x = true := by
  intro l
  induction l with
  | nil => intro st st' _ x hx; simp [keys] at hx
  | cons m ms ih =>
    intro st st' h x hx
    rw [saveAll] at h
    by_cases c : (!validAddr m.1) = true
    · rw [if_pos c] at h; exact absurd h (by simp)
    rw [if_neg c] at h
    rw [keys_cons, List.mem_cons] at hx
    rcases hx with hx | hx
    · rw [hx]; simpa using c
    · exact ih _ _ h x hx

theorem saveAll_fresh_length {l st' : List Member} (h : saveAll l [] = .ok st') (hl : SortedKeys l) :
    SortedKeys st' ∧ st'.length = l.length ∧ ∀ x, x ∈ keys st' ↔ x ∈ keys l := by
  have r := saveAll_spec l [] st' sortedKeys_nil h
  have h1 : ∀ x, x ∈ keys st' ↔ x ∈ keys l := by intro x; rw [r.2 x]; simp [keys]
  have p : (keys st').Perm (keys l) := (List.perm_ext_iff_of_nodup r.1.nodup hl.nodup).mpr h1
  have := p.length_eq
  rw [keys_length, keys_length] at this
  exact ⟨r.1, this, h1⟩

/-- `l.foldl (fun st x => saveM x st) st0` (whitelist-immutable's `update_whitelist`) -/
theorem foldl_saveM_spec : ∀ (l st : List Member), SortedKeys st →
    SortedKeys (l.foldl (fun st x => saveM x st) st) ∧
    (∀ x, x ∈ keys (l.foldl (fun st x => saveM x st) st) ↔ x ∈ keys st ∨ x ∈ keys l) := by
  intro l
  induction l with
  | nil => intro st hs; exact ⟨hs, by simp [keys]⟩
  | cons m ms ih =>
    intro st hs
    have r := ih (saveM m st) (sorted_saveM m hs)
    simp only [List.foldl_cons]
    refine ⟨r.1, ?_⟩
    intro x; rw [r.2 x, mem_keys_saveM, keys_cons, List.mem_cons]
    constructor
    · rintro ((h1 | h1) | h1)
      · exact Or.inr (Or.inl h1)
      · exact Or.inl h1
      · exact Or.inr (Or.inr h1)
    · rintro (h1 | h1 | h1)
      · exact Or.inl (Or.inr h1)
      · exact Or.inl (Or.inl h1)
      · exact Or.inr h1

theorem foldl_saveM_fresh_length {l : List Member} (hl : SortedKeys l) :
    (l.foldl (fun st x => saveM x st) []).length = l.length := by
  have r := foldl_saveM_spec l [] sortedKeys_nil
  have h1 : ∀ x, x ∈ keys (l.foldl (fun st x => saveM x st) []) ↔ x ∈ keys l := by intro x; rw [r.2 x]; simp [keys]
  have p := (List.perm_ext_iff_of_nodup r.1.nodup hl.nodup).mpr h1
  have := p.length_eq
  rwa [keys_length, keys_length] at this

/-! ## The remove loop -/

structure RemoveSpec (as : List Nat) (n : Nat) (st : List Member) (r : Nat) (n' : Nat) (st' : List Member) (r' : Nat) : Prop where
  sorted : SortedKeys st'
  count : n' + st.length = n + st'.length
  removed : r' + st'.length = r + st.length
  shrink : st'.length + as.length = st.length
  /-- every listed address was a stored member, and none is listed twice -/
  wasMember : ∀ x ∈ as, x ∈ keys st
  distinct : as.Nodup
  mem : ∀ x, x ∈ keys st' ↔ x ∈ keys st ∧ x ∉ as

theorem removeLoop_spec : ∀ (as : List Nat) (n : Nat) (st : List Member) (r n' : Nat) (st' : List Member) (r' : Nat),
    SortedKeys st → removeLoop as (n, st, r) = .ok (n', st', r') → RemoveSpec as n st r n' st' r' := by
  intro as
  induction as with
  | nil =>
    intro n st r n' st' r' hs h
    simp only [removeLoop, Except.ok.injEq, Prod.mk.injEq] at h
    obtain ⟨rfl, rfl, rfl⟩ := h
    exact ⟨hs, rfl, rfl, by simp, by simp, by simp, by simp⟩
  | cons a as ih =>
    intro n st r n' st' r' hs h
    rw [removeLoop] at h
    by_cases c1 : (!validAddr a) = true
    · rw [if_pos c1] at h; exact absurd h (by simp)
    rw [if_neg c1] at h
    by_cases c2 : (!hasM a st) = true
    · rw [if_pos c2] at h; exact absurd h (by simp)
    rw [if_neg c2] at h
    by_cases c3 : n = 0
    · rw [if_pos c3] at h; exact absurd h (by simp)
    rw [if_neg c3] at h
    have hin : a ∈ keys st := (hasM_iff _ _).mp (by simpa using c2)
    have q := ih (n - 1) (eraseM a st) (r + 1) n' st' r' (sorted_eraseM a hs) h
    have hl := length_eraseM hs hin
    refine ⟨q.sorted, ?_, ?_, ?_, ?_, ?_, ?_⟩
    · have := q.count; omega
    · have := q.removed; omega
    · have := q.shrink; simp only [List.length_cons]; omega
    · intro x hx
      rcases List.mem_cons.mp hx with hx | hx
      · exact hx ▸ hin
      · exact ((mem_keys_eraseM a st x).mp (q.wasMember x hx)).2
    · rw [List.nodup_cons]
      refine ⟨?_, q.distinct⟩
      intro hm
      exact ((mem_keys_eraseM a st a).mp (q.wasMember a hm)).1 rfl
    · intro x; rw [q.mem x, mem_keys_eraseM, List.mem_cons]
      constructor
      · rintro ⟨⟨h1, h2⟩, h3⟩
        exact ⟨h2, fun h4 => h4.elim h1 h3⟩
      · rintro ⟨h1, h2⟩
        exact ⟨⟨fun e => h2 (Or.inl e), h1⟩, fun h3 => h2 (Or.inr h3)⟩

/-! ## Stage lists -/

theorem stageTotal_nil : stageTotal [] = 0 := rfl
theorem stageTotal_cons (g : Stage) (gs : List Stage) : stageTotal (g :: gs) = g.members.length + stageTotal gs := by
  simp [stageTotal]

theorem stageTotal_append (xs ys : List Stage) : stageTotal (xs ++ ys) = stageTotal xs + stageTotal ys := by
  simp [stageTotal]

theorem stageTotal_take_drop (ss : List Stage) (i : Nat) :
    stageTotal (ss.take i) + stageTotal (ss.drop i) = stageTotal ss := by
  rw [← stageTotal_append, List.take_append_drop]

theorem stageTotal_set : ∀ (ss : List Stage) (i : Nat) (g g' : Stage), ss[i]? = some g →
    stageTotal (ss.set i g') + g.members.length = stageTotal ss + g'.members.length := by
  intro ss
  induction ss with
  | nil => intro i g g' h; simp at h
  | cons x xs ih =>
    intro i g g' h
    cases i with
    | zero =>
      simp only [List.getElem?_cons_zero, Option.some.injEq] at h; subst h
      simp only [List.set_cons_zero, stageTotal_cons]; omega
    | succ j =>
      simp only [List.getElem?_cons_succ] at h
      simp only [List.set_cons_succ, stageTotal_cons]
      have := ih j g g' h; omega

theorem mem_set_imp {α : Type} : ∀ (l : List α) (i : Nat) (x y : α), y ∈ l.set i x → y = x ∨ y ∈ l := by
  intro l
  induction l with
  | nil => intro i x y h; simp at h
  | cons a as ih =>
    intro i x y h
    cases i with
    | zero =>
      simp only [List.set_cons_zero, List.mem_cons] at h
      rcases h with h | h
      · exact Or.inl h
      · exact Or.inr (List.mem_cons_of_mem _ h)
    | succ j =>
      simp only [List.set_cons_succ, List.mem_cons] at h
      rcases h with h | h
      · exact Or.inr (h ▸ List.mem_cons_self)
      · rcases ih j x y h with h | h
        · exact Or.inl h
        · exact Or.inr (List.mem_cons_of_mem _ h)

/-! ## Fee arithmetic -/

theorem tiers_mono {a b : Nat} (h : a ≤ b) : tiers a ≤ tiers b := by unfold tiers; omega

/-- the upgrade fee is the difference of the creation fees: the sum of all fees telescopes -/
theorem upgradeFee_telescope (k : Kind) {old new : Nat} (h : old ≤ new) :
    creationFee k old + upgradeFee k old new = creationFee k new := by
  have hm := tiers_mono h
  unfold upgradeFee creationFee
  by_cases c : tiers new > tiers old
  · rw [if_pos c, ← Nat.add_mul]; congr 1; omega
  · rw [if_neg c]
    have : tiers new = tiers old := by omega
    rw [this]; rfl

/-- the burn share never exceeds the fee -/
theorem burnShare_le (fee : Nat) : mulFloor fee (percent Gen.sg1_FEE_BURN_PERCENT) ≤ fee := by
  unfold mulFloor percent Gen.sg1_FEE_BURN_PERCENT; omega

theorem applyMsgs_burn_pool (b : Bank) (self x y : Nat) (h : x + y ≤ b.bal) :
    applyMsgs b [Msg.burn ⟨NATIVE, x⟩, Msg.fundPool self ⟨NATIVE, y⟩] =
      .ok { bal := b.bal - (x + y), burned := b.burned + x, pool := b.pool + y } := by
  have h1 : x ≤ b.bal := by omega
  have h2 : y ≤ b.bal - x := by omega
  simp only [applyMsgs, applyMsg, true_and, h1, h2, if_true]
  congr 2
  omega

theorem fairBurn_none (self fee : Nat) :
    Sg1.fairBurn self fee none =
      [Msg.burn ⟨NATIVE, mulFloor fee (percent Gen.sg1_FEE_BURN_PERCENT)⟩,
       Msg.fundPool self ⟨NATIVE, fee - mulFloor fee (percent Gen.sg1_FEE_BURN_PERCENT)⟩] := rfl

/-- `fair_burn` moves exactly the fee out of the contract: the burn share burned, the rest to the pool -/
theorem applyMsgs_fairBurn (b : Bank) (self : Nat) (fee : Nat) (h : fee ≤ b.bal) :
    ∃ x, x ≤ fee ∧ applyMsgs b (Sg1.fairBurn self fee none) =
      .ok { bal := b.bal - fee, burned := b.burned + x, pool := b.pool + (fee - x) } := by
  have hb := burnShare_le fee
  refine ⟨mulFloor fee (percent Gen.sg1_FEE_BURN_PERCENT), hb, ?_⟩
  rw [fairBurn_none]
  generalize mulFloor fee (percent Gen.sg1_FEE_BURN_PERCENT) = x at hb ⊢
  rw [applyMsgs_burn_pool b self x (fee - x) (by omega)]
  congr 2
  omega

end LP.WlMembers
