import LaunchpadModel.Lemmas.TokenMergeSystemSim2
/-!
# Token-merge SYSTEM composite: the view is exact over every minter-side op (`tmStep_exact`)

`Op.tm o` is executed as `TMF.step (tmfOf s) o` followed by the sub-message on the target collection; `tmStep_exact` proves that
the `TMF` result IS `tmfOf` of the system's post-state: what `TMF` computed for the collection (`Coll.mint` on the token table,
`TT.Coll.updateTrading` on the record) is the view of what the collection contract computed itself.
-/
namespace LP.SysTM
open LP

theorem vmOf_ofVm {vm : TMF.Minter} {c : CF.Coll} (h1 : vm.supply.coll = Sys2.tokView c.core) (h2 : vm.tt = Sys2.ttView c.core) :
    vmOf (ofVm vm) c = vm := by
  obtain ⟨addr, factory, ccid, admin, st, pal, mt, sg, sup, mc, led, status, tt⟩ := vm
  obtain ⟨n, pos, mintable, minted, burned, coll⟩ := sup
  simp only at h1 h2
  subst h1 h2
  rfl

/-- the token table `takeToken` computes is `Coll.mint` of the id `pickedId` names -/
theorem takeToken_coll {sup sup' : Supply.Fixed} {pk : VF.Pick} {o : Addr} (h : VF.takeToken sup pk o = some sup') :
    ∃ tid, Sys2.pickedId sup.pos pk = some tid ∧ sup.coll.mint tid o = some sup'.coll := by
  cases pk with
  | «at» p =>
    simp only [VF.takeToken] at h
    unfold Supply.Fixed.takeAt at h
    split at h
    · cases h
    · cases hl : Supply.lookupPos sup.pos p with
      | none => simp [hl] at h
      | some tid =>
        simp only [hl] at h
        obtain ⟨c, hc, rfl⟩ := Supply.Fixed.deliver_spec h
        exact ⟨tid, by simp [Sys2.pickedId, hl], hc⟩
  | id tid =>
    simp only [VF.takeToken] at h
    obtain ⟨_, _, _, _, _, hd⟩ := Supply.Fixed.takeId_spec h
    obtain ⟨c, hc, rfl⟩ := Supply.Fixed.deliver_spec hd
    exact ⟨tid, rfl, hc⟩

/-- the `Mint` sub-message: the collection's own result, seen through the view, is the `Coll.mint` the minter side computed -/
theorem mint_view_exact {s : State} {m : Minter} {tc tc' : CF.Coll} {sup' : Supply.Fixed} {pk : VF.Pick} {rcpt : Addr}
    {msg : Option CF.ExecMsg} {bank bank' : MintPay.Bank}
    (ht : VF.takeToken (vmOf m tc).supply pk rcpt = some sup') (hmsg : subMsg m.supply.pos tc (.mint rcpt pk) = .ok msg)
    (hrs : Sys2.runSub s.block bank m.addr tc msg = .ok (bank', tc')) :
    sup'.coll = Sys2.tokView tc'.core ∧ Sys2.ttView tc'.core = Sys2.ttView tc.core ∧ bank' = bank := by
  obtain ⟨tid, hpk, hcc⟩ := takeToken_coll ht
  have hpk' : Sys2.pickedId m.supply.pos pk = some tid := hpk
  simp only [subMsg, hpk'] at hmsg
  split at hmsg
  · cases hmsg
  · rename_i mm hmm
    cases hmsg
    unfold Sys2.mintMsg at hmm
    split at hmm
    · cases hmm
    · cases hmm
      have hx := runSub_some hrs
      have hbank : bank' = bank := execOn_bank rfl hx
      obtain ⟨_, hn, rfl⟩ := execOn_mint hx
      have hv := Sys2.view_mint tc.core tid rcpt (some (Sys2.URI_BASE + tid)) (if tc.core.kind = .onchain then 0 else 0) hn
      have hcc' : (Sys2.tokView tc.core).mint tid rcpt = some sup'.coll := hcc
      rw [hv] at hcc'
      simp only [Option.some.injEq] at hcc'
      exact ⟨hcc'.symm, rfl, hbank⟩

/-- what an accepted minter-side `TMF` step does, in full: the source tables are untouched; the minter record changes as the
sub-message kind says -/
theorem tmf_step_full {t r : TMF.State} {op : TMF.Op} {vm : TMF.Minter} (hf : foreignOp op = false)
    (h : TMF.step t op = .ok r) (hm : t.minter = some vm) :
    ∃ vm', r.minter = some vm' ∧ r.srcs = t.srcs ∧ vm'.addr = vm.addr ∧ vm'.ledger = vm.ledger ∧
      vm'.mintTokens = vm.mintTokens ∧
      match subOf op with
      | .mint rcpt pk => vm'.tt = vm.tt ∧ ∃ sup', VF.takeToken vm.supply pk rcpt = some sup' ∧ vm'.supply = sup'
      | .trading tt => vm'.supply = vm.supply ∧ vm.tt.updateTrading vm.addr tt = .ok vm'.tt
      | .none => vm'.supply.coll = vm.supply.coll ∧ vm'.tt = vm.tt := by
  cases op <;> simp only [foreignOp, Bool.true_eq_false] at hf <;> simp only [TMF.step] at h <;> simp only [subOf]
  case setTime tt =>
    split at h
    · cases h
    · cases h; exact ⟨vm, hm, rfl, rfl, rfl, rfl, rfl, rfl⟩
  case fund a c => cases h; exact ⟨vm, hm, rfl, rfl, rfl, rfl, rfl, rfl⟩
  case instantiateDirect sender => cases h
  case mintTo sender funds rcpt picked =>
    obtain ⟨m, hm', hx⟩ := TMF.withMinterS_ok h
    rw [hm] at hm'; cases hm'
    obtain ⟨b1, ms, m1, b2, _, _, _, _, hd, _, rfl⟩ := TMF.mintAdmin_ok hx
    obtain ⟨sup, _, _, _, hts, rfl⟩ := TMF.deliver_ok hd
    exact ⟨_, rfl, rfl, rfl, rfl, rfl, rfl, sup, hts, rfl⟩
  case mintFor sender funds id rcpt =>
    obtain ⟨m, hm', hx⟩ := TMF.withMinterS_ok h
    rw [hm] at hm'; cases hm'
    obtain ⟨b1, ms, m1, b2, _, _, _, _, hd, _, rfl⟩ := TMF.mintAdmin_ok hx
    obtain ⟨sup, _, _, _, hts, rfl⟩ := TMF.deliver_ok hd
    exact ⟨_, rfl, rfl, rfl, rfl, rfl, rfl, sup, hts, rfl⟩
  case purge sender funds =>
    obtain ⟨m, m', hm', hx, rfl⟩ := TMF.withMinter_ok h
    rw [hm] at hm'; cases hm'
    obtain ⟨_, _, rfl⟩ := TMF.purge_ok hx
    exact ⟨_, rfl, rfl, rfl, rfl, rfl, rfl, rfl⟩
  case updateStartTime sender funds tt =>
    obtain ⟨m, m', hm', hx, rfl⟩ := TMF.withMinter_ok h
    rw [hm] at hm'; cases hm'
    obtain ⟨_, _, _, _, _, rfl⟩ := TMF.updateStartTime_ok hx
    exact ⟨_, rfl, rfl, rfl, rfl, rfl, rfl, rfl⟩
  case updateStartTradingTime sender funds tt =>
    obtain ⟨m, m', hm', hx, rfl⟩ := TMF.withMinter_ok h
    rw [hm] at hm'; cases hm'
    obtain ⟨c, _, _, _, hc, rfl⟩ := TMF.updateStartTradingTime_ok hx
    exact ⟨_, rfl, rfl, rfl, rfl, rfl, rfl, hc⟩
  case updatePerAddressLimit sender funds n =>
    obtain ⟨m, m', hm', hx, rfl⟩ := TMF.withMinter_ok h
    rw [hm] at hm'; cases hm'
    obtain ⟨_, _, _, _, _, rfl⟩ := TMF.updatePerAddressLimit_ok hx
    exact ⟨_, rfl, rfl, rfl, rfl, rfl, rfl, rfl⟩
  case shuffle sender funds perm =>
    obtain ⟨m, hm', hx⟩ := TMF.withMinterS_ok h
    rw [hm] at hm'; cases hm'
    obtain ⟨b1, ms, sup, b2, _, _, hsup, _, rfl⟩ := TMF.shuffle_ok hx
    obtain ⟨_, _, rfl⟩ := Supply.Fixed.shuffle_spec hsup
    exact ⟨_, rfl, rfl, rfl, rfl, rfl, rfl, rfl⟩
  case burnRemaining sender funds =>
    obtain ⟨m, m', hm', hx, rfl⟩ := TMF.withMinter_ok h
    rw [hm] at hm'; cases hm'
    obtain ⟨sup, _, _, hb, rfl⟩ := TMF.burnRemaining_ok hx
    obtain ⟨_, rfl⟩ := Supply.Fixed.burnAll_spec hb
    exact ⟨_, rfl, rfl, rfl, rfl, rfl, rfl, rfl⟩
  case sudoStatus v b e =>
    obtain ⟨m, m', hm', hx, rfl⟩ := TMF.withMinter_ok h
    rw [hm] at hm'; cases hm'
    cases hx
    exact ⟨_, rfl, rfl, rfl, rfl, rfl, rfl, rfl⟩
  case sudoParams u =>
    split at h
    · cases h
    · cases h; exact ⟨vm, hm, rfl, rfl, rfl, rfl, rfl, rfl⟩

/-- without a minter only the clock, the bank and the factory parameters move -/
theorem tmf_step_nominter {t r : TMF.State} {op : TMF.Op} (hf : foreignOp op = false) (h : TMF.step t op = .ok r)
    (hm : t.minter = none) : r.minter = none ∧ r.srcs = t.srcs := by
  cases op <;> simp only [foreignOp, Bool.true_eq_false] at hf <;> simp only [TMF.step] at h
  case setTime tt =>
    split at h
    · cases h
    · cases h; exact ⟨hm, rfl⟩
  case fund a c => cases h; exact ⟨hm, rfl⟩
  case instantiateDirect sender => cases h
  case sudoParams u =>
    split at h
    · cases h
    · cases h; exact ⟨hm, rfl⟩
  all_goals
    first
      | (obtain ⟨m, hm', _⟩ := TMF.withMinterS_ok h; rw [hm] at hm'; cases hm')
      | (obtain ⟨m, _, hm', _, _⟩ := TMF.withMinter_ok h; rw [hm] at hm'; cases hm')

/-- **the view is exact over every minter-side op.** -/
theorem tmStep_exact {s s' : State} {op : TMF.Op} (hf : foreignOp op = false) (h : tmStep s op = .ok s') :
    TMF.step (tmfOf s) op = .ok (tmfOf s') := by
  unfold tmStep at h
  split at h
  · cases h
  · rename_i r hr
    rw [hr]
    congr 1
    split at h
    · rename_i hmc
      cases h
      have htm : (tmfOf s).minter = none := by simp [tmfOf, hmc]
      obtain ⟨hrm, hrs⟩ := tmf_step_nominter hf hr htm
      obtain ⟨now, codes, fa, params, bank, srcs, minter⟩ := r
      simp only at hrm hrs
      subst hrm hrs
      simp [tmfOf, setTm]
    · rename_i m c hmc
      split at h
      · cases h
      · rename_i msg hmsg
        split at h
        · cases h
        · rename_i bank c' hrs
          cases h
          have htm : (tmfOf s).minter = some (vmOf m c) := by simp [tmfOf, hmc]
          obtain ⟨vm', hvm', hsrcs, _, _, _, hrel⟩ := tmf_step_full hf hr htm
          have key : vmOf (ofVm vm') c' = vm' ∧ bank = r.bank := by
            cases hsub : subOf op with
            | none =>
              rw [hsub] at hmsg hrel
              simp only [subMsg] at hmsg
              cases hmsg
              obtain ⟨hb, rfl⟩ := runSub_none hrs
              exact ⟨vmOf_ofVm hrel.1 hrel.2, hb⟩
            | mint rcpt pk =>
              rw [hsub] at hmsg hrel
              obtain ⟨htt, sup', hts, hsup⟩ := hrel
              obtain ⟨h1, h2, h3⟩ := mint_view_exact hts hmsg hrs
              exact ⟨vmOf_ofVm (by rw [hsup]; exact h1) (by rw [htt, h2]; rfl), h3⟩
            | trading tt =>
              rw [hsub] at hmsg hrel
              obtain ⟨hsup, htr⟩ := hrel
              simp only [subMsg] at hmsg
              cases hmsg
              have hx := runSub_some hrs
              have hb : bank = r.bank := execOn_bank rfl hx
              obtain ⟨core', hex, rfl⟩ := execOn_ok hx
              obtain ⟨_, e⟩ := Sg721.exec_eff hex
              simp only [CF.toExec] at e
              cases e with
              | ustt _ _ =>
                refine ⟨vmOf_ofVm (by rw [hsup]; rfl) ?_, hb⟩
                unfold TT.Coll.updateTrading at htr
                split at htr
                · cases htr
                · split at htr
                  · simp only [Except.ok.injEq] at htr
                    rw [← htr]; rfl
                  · cases htr
          obtain ⟨hv, hb⟩ := key
          obtain ⟨now, codes, fa, params, rbank, srcs, minter⟩ := r
          simp only at hvm' hsrcs hb
          subst hvm' hsrcs hb
          simp only [tmfOf, setTm, Option.map_some, hv]

end LP.SysTM
