import LaunchpadModel.Lemmas.WhitelistFullMembers3
/-!
# Composite whitelist model ⟶ C11: instantiate, the invariant `Aligned`, frames of `setTime` / `fund`
-/
namespace LP.WF
open LP

/-- the C11 instantiate message of a composite instantiate; `allowed` = the bank delivers the funds and every check of
`instantiate` that C11 does not own passes (`instGates`: admin addresses, schedule / stages, per-address limit, whale cap) -/
def trInst11 (v : Variant) (s : State) (sender self : Addr) (funds : List Coin) (m : InstMsg) : WlMembers.InstMsg :=
  { self := self, funds := funds, memberLimit := m.memberLimit, whaleCap := m.whaleCap,
    allowed := (s.bank.sendFunds sender self funds).isSome && instGates v s.now m,
    members := m.members, nStages := m.stages.length, stageMembers := m.stageMembers, distinctCap := false }

theorem settle_fairBurn_empty (self fee : Nat) :
    WlMembers.settle WlMembers.emptyBank fee (Sg1.fairBurn self fee none) =
      .ok ⟨0, burnShare fee, fee - burnShare fee⟩ := by
  rw [settle_fairBurn]
  generalize burnShare fee = x
  simp [WlMembers.emptyBank]

/-- C11's `instantiate` of a list kind once the fee has been paid exactly (generic in the message) -/
theorem inst11_eq {k : WlMembers.Kind} (hk : k ≠ .immutable) (M : WlMembers.InstMsg) {payment : Nat}
    (hlim : ¬(M.memberLimit = 0 ∨ M.memberLimit > k.maxMembers)) (hal : M.allowed = true)
    (hlen : (k.isTiered && decide (M.stageMembers.length ≠ M.nStages)) = false)
    (hpay : mustPay M.funds NATIVE = .ok payment) (hfee : payment = WlMembers.creationFee k M.memberLimit)
    (hdc : M.distinctCap = false) :
    WlMembers.instantiate k M =
      (let w := WlMembers.effWhale k M.whaleCap
       let bank : WlMembers.Bank := ⟨0, burnShare payment, payment - burnShare payment⟩
       let rawLen := if k.isTiered then (M.stageMembers.map (fun ms => (WlMembers.prep k ms).length)).sum
                     else (WlMembers.prep k M.members).length
       if M.memberLimit < rawLen then .error .limit
       else if k.isTiered then
         match WlMembers.instStages k w M.memberLimit M.stageMembers 0 with
         | .error e => .error e
         | .ok (gs, num) =>
           if M.memberLimit < num then .error .limit
           else .ok { kind := k, self := M.self, numMembers := num, memberLimit := M.memberLimit, whaleCap := w, members := [],
                      stages := gs, bank := bank, otherBal := 0, feesPaid := payment, stray := 0, strayOther := 0 }
       else
         match WlMembers.instList k w M.memberLimit (WlMembers.prep k M.members) with
         | .error e => .error e
         | .ok (st, num) =>
           if M.memberLimit < num then .error .limit
           else .ok { kind := k, self := M.self, numMembers := num, memberLimit := M.memberLimit, whaleCap := w, members := st,
                      stages := [], bank := bank, otherBal := 0, feesPaid := payment, stray := 0, strayOther := 0 }) := by
  have hmp := WlMembers.mustPay_mayPay hpay
  have hchk : Sg1.checkedFairBurn M.funds M.self (WlMembers.creationFee k M.memberLimit) none =
      .ok (Sg1.fairBurn M.self (WlMembers.creationFee k M.memberLimit) none) := by
    rw [← hfee]; exact WlMembers.checkedFairBurn_exact hmp.1 hmp.2
  have hset := settle_fairBurn_empty M.self (WlMembers.creationFee k M.memberLimit)
  have hne : ¬ payment ≠ WlMembers.creationFee k M.memberLimit := fun h => h hfee
  unfold WlMembers.instantiate
  split
  · exact absurd rfl hk
  · generalize WlMembers.creationFee k M.memberLimit = f at hfee hchk hset hne ⊢
    subst hfee
    generalize Sg1.fairBurn M.self payment none = msgs at hchk hset
    generalize burnShare payment = x at hset ⊢
    rw [if_neg hlim]
    split
    · rename_i h; rw [hal] at h; simp at h
    split
    · rename_i h; rw [hlen] at h; cases h
    dsimp only
    split
    · rename_i e he; rw [hpay] at he; cases he
    rename_i p' hp'
    rw [hpay] at hp'
    simp only [Except.ok.injEq] at hp'
    subst hp'
    split
    · rename_i h; exact absurd rfl h
    split
    · rename_i e he; rw [hchk] at he; cases he
    rename_i msgs' hm'
    rw [hchk] at hm'
    simp only [Except.ok.injEq] at hm'
    subst hm'
    split
    · rename_i e he; rw [hset] at he; cases he
    rename_i bank hbank
    rw [hset] at hbank
    simp only [Except.ok.injEq] at hbank
    subst hbank
    rw [hdc]
    simp only [Bool.not_false, Bool.true_and, decide_eq_true_eq]
    split
    · rfl
    · split
      · cases WlMembers.instStages k (WlMembers.effWhale k M.whaleCap) M.memberLimit M.stageMembers 0 with
        | error e => rfl
        | ok r => obtain ⟨gs, num⟩ := r; rfl
      · cases WlMembers.instList k (WlMembers.effWhale k M.whaleCap) M.memberLimit (WlMembers.prep k M.members) with
        | error e => rfl
        | ok r => obtain ⟨st, num⟩ := r; rfl

theorem creationFee_ge {k : WlMembers.Kind} {limit : Nat} (hp : 2 ≤ k.price) (hl : limit ≠ 0) :
    2 ≤ WlMembers.creationFee k limit := by
  unfold WlMembers.creationFee
  have : 1 ≤ WlMembers.tiers limit := by unfold WlMembers.tiers; omega
  calc 2 ≤ k.price := hp
    _ = 1 * k.price := by omega
    _ ≤ _ := Nat.mul_le_mul_right _ this

/-- inversion of the composite's list-kind instantiate -/
theorem instListKind_ok {v : Variant} {now : Nat} {self : Addr} {funds : List Coin} {m : InstMsg} {w : Wl} {msgs : List Msg}
    (h : instListKind v now self funds m = .ok (w, msgs)) :
    ¬(m.memberLimit = 0 ∨ m.memberLimit > v.kind11.maxMembers) ∧ instGates v now m = true ∧
    (v.tiered && decide (m.stageMembers.length ≠ m.stages.length)) = false ∧
    mustPay funds NATIVE = .ok (WlMembers.creationFee v.kind11 m.memberLimit) ∧
    msgs = Sg1.fairBurn self (WlMembers.creationFee v.kind11 m.memberLimit) none ∧
    ¬ m.memberLimit < (if v.tiered then (m.stageMembers.map (fun ms => (WlMembers.prep v.kind11 ms).length)).sum
                        else (WlMembers.prep v.kind11 m.members).length) ∧
    (let base : Wl :=
        { blankWl v self with admins := m.admins, mutable_ := m.adminsMutable, memberLimit := m.memberLimit,
                              whaleCap := WlMembers.effWhale v.kind11 m.whaleCap,
                              g := Ghost.zero.fee (WlMembers.creationFee v.kind11 m.memberLimit) msgs }
     if v.tiered then
       ∃ gs num, WlMembers.instStages v.kind11 (WlMembers.effWhale v.kind11 m.whaleCap) m.memberLimit m.stageMembers 0 = .ok (gs, num) ∧
         ¬ m.memberLimit < num ∧ w = { base with stages := normStages v m.stages, numMembers := num, smembers := gs }
     else
       ∃ st num, WlMembers.instList v.kind11 (WlMembers.effWhale v.kind11 m.whaleCap) m.memberLimit
           (WlMembers.prep v.kind11 m.members) = .ok (st, num) ∧
         ¬ m.memberLimit < num ∧
         w = { base with start := m.start, end_ := m.end_, mintPrice := m.mintPrice,
                         perAddr := (if v.flex then 0 else m.perAddr), numMembers := num, members := st }) := by
  unfold instListKind at h
  simp only [] at h
  split at h; · cases h
  rename_i hlim
  split at h; · cases h
  rename_i hg
  split at h; · cases h
  rename_i hlen
  split at h; · cases h
  rename_i payment hpay
  split at h; · cases h
  rename_i hfee
  have hfee' : payment = WlMembers.creationFee v.kind11 m.memberLimit := by
    rcases Nat.lt_trichotomy payment (WlMembers.creationFee v.kind11 m.memberLimit) with h1 | h1 | h1
    · exact absurd (Nat.ne_of_lt h1) hfee
    · exact h1
    · exact absurd (Nat.ne_of_gt h1) hfee
  subst hfee'
  split at h; · cases h
  rename_i msgs0 hchk
  have hmp := WlMembers.mustPay_mayPay hpay
  rw [WlMembers.checkedFairBurn_exact hmp.1 hmp.2] at hchk
  simp only [Except.ok.injEq] at hchk
  subst hchk
  have hg' : instGates v now m = true := by
    cases hx : instGates v now m with
    | true => rfl
    | false => rw [hx] at hg; simp at hg
  have hlen' : (v.tiered && decide (m.stageMembers.length ≠ m.stages.length)) = false := by
    cases hx : (v.tiered && decide (m.stageMembers.length ≠ m.stages.length)) with
    | false => rfl
    | true => exact absurd hx hlen
  refine ⟨hlim, hg', hlen', hpay, ?_⟩
  by_cases ht : v.tiered = true
  · simp only [ht, if_true] at h ⊢
    split at h; · cases h
    rename_i hraw
    split at h; · cases h
    rename_i gs num hst
    split at h; · cases h
    rename_i hnum
    simp only [Except.ok.injEq, Prod.mk.injEq] at h
    obtain ⟨rfl, rfl⟩ := h
    exact ⟨rfl, hraw, gs, num, hst, hnum, rfl⟩
  · simp only [ht, if_false, Bool.false_eq_true] at h ⊢
    split at h; · cases h
    rename_i hraw
    split at h; · cases h
    rename_i st num hst
    split at h; · cases h
    rename_i hnum
    simp only [Except.ok.injEq, Prod.mk.injEq] at h
    obtain ⟨rfl, rfl⟩ := h
    exact ⟨rfl, hraw, st, num, hst, hnum, rfl⟩

/-- **instantiate, list kinds**: a successful composite instantiate at a fresh address IS a successful C11 instantiate of the
translated message, and the new state projects onto the C11 state it returns -/
theorem inst_sim11_list (d : Denom) (hd : d ≠ NATIVE) {s s' : State} {v : Variant} (hv : v.store = .list) {sender self : Addr}
    {funds : List Coin} {m : InstMsg} (hs : sender ≠ self) (hp : self ≠ FAIRBURN_POOL)
    (hfresh : ∀ d, s.bank.bal self d = 0)
    (h : step s (.instantiate v sender funds self m) = .ok s') :
    ∃ w, s'.wl = some w ∧ w.v = v ∧ w.self = self ∧ Aligned w ∧
      WlMembers.instantiate v.kind11 (trInst11 v s sender self funds m) = .ok (proj11 d s'.bank w) := by
  obtain ⟨hkt, hkf, hkne, hk⟩ := kind11_list hv
  simp only [step] at h
  obtain ⟨b1, w, msgs, b2, hb1, hi, ha, rfl⟩ := instantiateTx_ok h
  simp only [instantiateWl, hv] at hi
  obtain ⟨hlim, hg, hlen, hpay, hmsgs, hraw, htail⟩ := instListKind_ok hi
  subst hmsgs
  have hmp := WlMembers.mustPay_mayPay hpay
  obtain ⟨hsum0, hsumd⟩ := mayPay_sum hmp.1
  have hfee2 : 2 ≤ WlMembers.creationFee v.kind11 m.memberLimit :=
    creationFee_ge (price_list hv) (fun e => hlim (Or.inl e))
  have hbal0 := sendFunds_bal hb1 hs NATIVE
  have hbald := sendFunds_bal hb1 hs d
  rw [hfresh, hsum0] at hbal0
  rw [hfresh, hsumd d hd] at hbald
  obtain ⟨b2', ha', hb0, hbd⟩ := fairBurn_apply (b := b1) (self := self) hfee2 (by omega) hp
  rw [ha'] at ha
  simp only [Option.some.injEq] at ha
  subst ha
  have hal : (trInst11 v s sender self funds m).allowed = true := by simp [trInst11, hb1, hg]
  have hlen' : (v.kind11.isTiered && decide ((trInst11 v s sender self funds m).stageMembers.length ≠
      (trInst11 v s sender self funds m).nStages)) = false := by rw [hkt]; exact hlen
  rw [inst11_eq hkne (trInst11 v s sender self funds m) hlim hal hlen' hpay rfl rfl]
  have hb0' : b2'.bal self NATIVE = 0 := by rw [hb0, hbal0]; omega
  have hbd' : b2'.bal self d = 0 := by rw [hbd d hd, hbald]
  generalize hx : burnShare (WlMembers.creationFee v.kind11 m.memberLimit) = x
  by_cases ht : v.tiered = true
  · simp only [ht, if_true] at htail hraw
    obtain ⟨gs, num, hst, hnum, rfl⟩ := htail
    have hlen2 : gs.length = m.stageMembers.length := (WlMembers.instStages_spec _ _ _ _ _ _ _ hst).2.1
    refine ⟨_, rfl, rfl, rfl, ?_, ?_⟩
    · intro _
      simp only [normStages, List.length_map, hlen2]
      simp only [ht, Bool.true_and, decide_eq_false_iff_not, Decidable.not_not] at hlen
      exact hlen
    · simp only [trInst11, hkt, ht, if_true, hraw, if_false, hst, hnum, proj11, blankWl, Ghost.fee, Ghost.zero,
        fairBurn_burned, fairBurn_pooled, hb0', hbd', hx, Nat.zero_add]
  · simp only [ht, if_false, Bool.false_eq_true] at htail hraw
    obtain ⟨st, num, hst, hnum, rfl⟩ := htail
    refine ⟨_, rfl, rfl, rfl, ?_, ?_⟩
    · intro _; rfl
    · simp only [trInst11, hkt, ht, if_false, Bool.false_eq_true, hraw, hst, hnum, proj11, blankWl, Ghost.fee, Ghost.zero,
        fairBurn_burned, fairBurn_pooled, hb0', hbd', hx, Nat.zero_add]

/-- **instantiate, whitelist-immutable** -/
theorem inst_sim11_immutable (d : Denom) {s s' : State} {v : Variant} (hv : v.store = .immutable) {sender self : Addr}
    {funds : List Coin} {m : InstMsg} (hfresh : ∀ d, s.bank.bal self d = 0)
    (h : step s (.instantiate v sender funds self m) = .ok s') :
    ∃ w, s'.wl = some w ∧ w.v = v ∧ w.self = self ∧ Aligned w ∧
      WlMembers.instantiate v.kind11 (trInst11 v s sender self funds m) = .ok (proj11 d s'.bank w) := by
  have hk := kind11_immutable hv
  simp only [step] at h
  obtain ⟨b1, w, msgs, b2, hb1, hi, ha, rfl⟩ := instantiateTx_ok h
  simp only [instantiateWl, hv, instImmutable] at hi
  split at hi; · cases hi
  rename_i hf
  split at hi; · cases hi
  rename_i hl
  simp only [Except.ok.injEq, Prod.mk.injEq] at hi
  obtain ⟨rfl, rfl⟩ := hi
  have hfe : funds = [] := by
    cases funds with
    | nil => rfl
    | cons c cs => simp at hf
  subst hfe
  simp only [MintPay.Bank.sendFunds, Option.some.injEq] at hb1
  subst hb1
  simp only [MintPay.applyMsgs, Option.some.injEq] at ha
  subst ha
  refine ⟨_, rfl, rfl, rfl, ?_, ?_⟩
  · intro hx; simp only [blankWl] at hx; rw [hv] at hx; cases hx
  · rw [hk]
    simp only [WlMembers.instantiate, trInst11, List.isEmpty_nil, Bool.not_true, Bool.false_eq_true, if_false, hl, proj11,
      blankWl, hk, hfresh, Ghost.zero, WlMembers.emptyBank]

theorem supports_immutable {v : Variant} (hv : v.store = .immutable) (m : ExecMsg) : supports v m = false := by
  cases m <;> simp [supports, Variant.isList, Variant.isImmutable, hv]

/-- **execute, whitelist-immutable**: `enum ExecuteMsg {}` — nothing is accepted on either side -/
theorem exec_sim11_immutable (d : Denom) {s : State} {w : Wl} (hw : s.wl = some w) (hv : w.v.store = .immutable)
    (sender : Addr) (funds : List Coin) (m : ExecMsg) : Sim11 d s w sender funds m := by
  have hk : (proj11 d s.bank w).kind = .immutable := kind11_immutable hv
  have hstep : ∀ s', step s (.exec sender funds m) ≠ .ok s' := by
    intro s' h
    simp only [step] at h
    obtain ⟨w0, b1, w', msgs, b2, hw0, _, hh, _, _⟩ := execute_ok h
    rw [hw] at hw0; cases hw0
    simp [handle, supports_immutable hv] at hh
  refine ⟨fun s' h => absurd h (hstep s'), fun _ _ => ?_⟩
  exact ⟨.invalid, by simp [WlMembers.exec, hk]⟩

/-! ## the invariant `Aligned` and what no message changes -/

theorem handle_frame {w w' : Wl} {now : Nat} {sender : Addr} {funds : List Coin} {m : ExecMsg} {msgs : List Msg}
    (h : handle w now sender funds m = .ok (w', msgs)) :
    w'.self = w.self ∧ w'.v = w.v ∧ (Aligned w → Aligned w') := by
  unfold handle at h
  split at h; · cases h
  simp only [] at h
  cases m with
  | updateStartTime t =>
    simp only [] at h; split at h
    · rename_i w0 hh; simp only [Except.ok.injEq, Prod.mk.injEq] at h; obtain ⟨rfl, _⟩ := h
      unfold updateStartTime at hh; split at hh; · cases hh
      split at hh; · cases hh
      split at hh; · cases hh
      simp only [Except.ok.injEq] at hh; subst hh; exact ⟨rfl, rfl, fun a => a⟩
    · cases h
  | updateEndTime t =>
    simp only [] at h; split at h
    · rename_i w0 hh; simp only [Except.ok.injEq, Prod.mk.injEq] at h; obtain ⟨rfl, _⟩ := h
      unfold updateEndTime at hh; split at hh; · cases hh
      split at hh; · cases hh
      split at hh; · cases hh
      simp only [Except.ok.injEq] at hh; subst hh; exact ⟨rfl, rfl, fun a => a⟩
    · cases h
  | updatePerAddressLimit n =>
    simp only [] at h; split at h
    · rename_i w0 hh; simp only [Except.ok.injEq, Prod.mk.injEq] at h; obtain ⟨rfl, _⟩ := h
      unfold updatePerAddressLimit at hh; split at hh; · cases hh
      split at hh; · cases hh
      simp only [Except.ok.injEq] at hh; subst hh; exact ⟨rfl, rfl, fun a => a⟩
    · cases h
  | updateAdmins l =>
    simp only [] at h; split at h
    · rename_i w0 hh; simp only [Except.ok.injEq, Prod.mk.injEq] at h; obtain ⟨rfl, _⟩ := h
      unfold updateAdmins at hh; split at hh; · cases hh
      split at hh; · cases hh
      simp only [Except.ok.injEq] at hh; subst hh; exact ⟨rfl, rfl, fun a => a⟩
    · cases h
  | freeze =>
    simp only [] at h; split at h
    · rename_i w0 hh; simp only [Except.ok.injEq, Prod.mk.injEq] at h; obtain ⟨rfl, _⟩ := h
      unfold freeze at hh; split at hh; · cases hh
      simp only [Except.ok.injEq] at hh; subst hh; exact ⟨rfl, rfl, fun a => a⟩
    · cases h
  | unknown => cases h
  | increaseMemberLimit n =>
    simp only [] at h
    unfold increaseMemberLimit at h
    simp only [] at h
    split at h; · cases h
    split at h; · cases h
    split at h; · cases h
    split at h; · cases h
    simp only [Except.ok.injEq, Prod.mk.injEq] at h
    obtain ⟨rfl, _⟩ := h; exact ⟨rfl, rfl, fun a => a⟩
  | updateStageConfig u =>
    simp only [] at h; split at h
    · rename_i w0 hh; simp only [Except.ok.injEq, Prod.mk.injEq] at h; obtain ⟨rfl, _⟩ := h
      unfold updateStageConfig at hh; split at hh; · cases hh
      split at hh; · cases hh
      simp only [] at hh
      split at hh; · cases hh
      simp only [Except.ok.injEq] at hh; subst hh
      exact ⟨rfl, rfl, fun a hv => by simp only [Wl.tipped, List.length_set]; exact a hv⟩
    · cases h
  | addMembers stage ms =>
    simp only [] at h; split at h
    · rename_i w0 hh; simp only [Except.ok.injEq, Prod.mk.injEq] at h; obtain ⟨rfl, _⟩ := h
      unfold addMembers at hh; split at hh; · cases hh
      simp only [] at hh
      split at hh
      · split at hh; · cases hh
        split at hh; · cases hh
        simp only [Except.ok.injEq] at hh; subst hh
        exact ⟨rfl, rfl, fun a hv => by simp only [Wl.tipped, List.length_set]; exact a hv⟩
      · split at hh; · cases hh
        simp only [Except.ok.injEq] at hh; subst hh; exact ⟨rfl, rfl, fun a => a⟩
    · cases h
  | removeMembers stage as =>
    simp only [] at h; split at h
    · rename_i w0 hh; simp only [Except.ok.injEq, Prod.mk.injEq] at h; obtain ⟨rfl, _⟩ := h
      unfold removeMembers at hh; split at hh; · cases hh
      split at hh; · cases hh
      split at hh; · cases hh
      split at hh
      · split at hh; · cases hh
        split at hh; · cases hh
        simp only [Except.ok.injEq] at hh; subst hh
        exact ⟨rfl, rfl, fun a hv => by simp only [Wl.tipped, List.length_set]; exact a hv⟩
      · split at hh; · cases hh
        simp only [Except.ok.injEq] at hh; subst hh; exact ⟨rfl, rfl, fun a => a⟩
    · cases h
  | addStage st ms =>
    simp only [] at h; split at h
    · rename_i w0 hh; simp only [Except.ok.injEq, Prod.mk.injEq] at h; obtain ⟨rfl, _⟩ := h
      unfold addStage at hh; split at hh; · cases hh
      split at hh; · cases hh
      simp only [] at hh
      split at hh; · cases hh
      split at hh; · cases hh
      simp only [Except.ok.injEq] at hh; subst hh
      exact ⟨rfl, rfl, fun a hv => by simp only [Wl.tipped, List.length_append, List.length_singleton]; rw [a hv]⟩
    · cases h
  | removeStage id =>
    simp only [] at h; split at h
    · rename_i w0 hh; simp only [Except.ok.injEq, Prod.mk.injEq] at h; obtain ⟨rfl, _⟩ := h
      unfold removeStage at hh; split at hh; · cases hh
      split at hh; · cases hh
      split at hh; · cases hh
      simp only [] at hh
      split at hh; · cases hh
      simp only [Except.ok.injEq] at hh; subst hh
      exact ⟨rfl, rfl, fun a hv => by simp only [Wl.tipped, List.length_take]; rw [a hv]⟩
    · cases h

end LP.WF
