import LaunchpadModel.Lemmas.WhitelistFullMembers3
/-!
# Composite whitelist model ⟶ C11: instantiate, the invariant `Aligned`, frames of `setTime` / `fund`
-/
namespace LP.WF
open LP

/-- the C11 instantiate message of a composite instantiate; `allowed` = the bank delivers the funds and every check of
`instantiate` that C11 does not own passes (`instGates`: admin addresses, schedule / stages, per-address limit, whale cap) -/
def trInst11 (v : Variant) (s : State) (sender self : Addr) (funds : List Coin) (m : InstMsg) : WlMembers.InstMsg :=
  { self := self, funds := funds, memberLimit := m.memberLimit, whaleCap := m.whaleCap,
    allowed := (s.bank.sendFunds sender self funds).isSome && instGates v s.now m,
    members := m.members, nStages := m.stages.length, stageMembers := m.stageMembers, distinctCap := false }

/-- C11's `instantiate` of a list kind once the fee has been paid exactly (generic in the message) -/
theorem inst11_eq {k : WlMembers.Kind} (hk : k ≠ .immutable) (M : WlMembers.InstMsg) {payment : Nat}
    (hlim : ¬(M.memberLimit = 0 ∨ M.memberLimit > k.maxMembers)) (hal : M.allowed = true)
    (hlen : (k.isTiered && decide (M.stageMembers.length ≠ M.nStages)) = false)
    (hpay : mustPay M.funds NATIVE = .ok payment) (hfee : payment = WlMembers.creationFee k M.memberLimit)
    (hdc : M.distinctCap = false) :
    WlMembers.instantiate k M =
      (let w := WlMembers.effWhale k M.whaleCap
       let bank : WlMembers.Bank := ⟨0, burnShare payment, payment - burnShare payment⟩
       let rawLen := if k.isTiered then (M.stageMembers.map (fun ms => (WlMembers.prep k ms).length)).sum
                     else (WlMembers.prep k M.members).length
       if M.memberLimit < rawLen then .error .limit
       else if k.isTiered then
         match WlMembers.instStages k w M.memberLimit M.stageMembers 0 with
         | .error e => .error e
         | .ok (gs, num) =>
           if M.memberLimit < num then .error .limit
           else .ok { kind := k, self := M.self, numMembers := num, memberLimit := M.memberLimit, whaleCap := w, members := [],
                      stages := gs, bank := bank, otherBal := 0, feesPaid := payment, stray := 0, strayOther := 0 }
       else
         match WlMembers.instList k w M.memberLimit (WlMembers.prep k M.members) with
         | .error e => .error e
         | .ok (st, num) =>
           if M.memberLimit < num then .error .limit
           else .ok { kind := k, self := M.self, numMembers := num, memberLimit := M.memberLimit, whaleCap := w, members := st,
                      stages := [], bank := bank, otherBal := 0, feesPaid := payment, stray := 0, strayOther := 0 }) := by
  have hmp := WlMembers.mustPay_mayPay hpay
  have hchk : Sg1.checkedFairBurn M.funds M.self (WlMembers.creationFee k M.memberLimit) none =
      .ok (Sg1.fairBurn M.self (WlMembers.creationFee k M.memberLimit) none) := by
    rw [← hfee]; exact WlMembers.checkedFairBurn_exact hmp.1 hmp.2
  have hset := settle_fairBurn WlMembers.emptyBank M.self (WlMembers.creationFee k M.memberLimit)
  have hne : ¬ payment ≠ WlMembers.creationFee k M.memberLimit := fun h => h hfee
  unfold WlMembers.instantiate
  split
  · exact absurd rfl hk
  · simp only [hlim, if_false, hal, Bool.not_true, Bool.false_eq_true, hlen, hpay, hne, hchk, hdc]
    rw [hfee, hset]
    simp [WlMembers.emptyBank]
    split
    · rfl
    · split
      · cases WlMembers.instStages k (WlMembers.effWhale k M.whaleCap) M.memberLimit M.stageMembers 0 with
        | error e => rfl
        | ok r => obtain ⟨gs, num⟩ := r; rfl
      · cases WlMembers.instList k (WlMembers.effWhale k M.whaleCap) M.memberLimit (WlMembers.prep k M.members) with
        | error e => rfl
        | ok r => obtain ⟨st, num⟩ := r; rfl

end LP.WF
