import LaunchpadModel.Lemmas.TokenMergeFull
import LaunchpadModel.Lemmas.Supply
import LaunchpadModel.Model.TokenMerge
/-!
# Composite token merge ⟶ C17 aspect model (`LP.TM`, the deposit ledger): projection, op translation, bridges

Projection `tmOf`: the aspect state assembled from the composite (minter address, admin, the source-collection owner tables,
`mint_tokens`, start, limits, the mintable ids in position order, `MINTER_ADDRS`, `RECEIVED_TOKENS`, the minter's own collection as
an owner map).  The composite keeps no cw721 approvals / operators for source collections: they are projected as empty, so the
aspect model's `canSend` is "is the owner".  The aspect model's `picked` witness is a token ID, the composite's a POSITION:
the translation looks the id up in the composite's position map (`pickedId`).
-/
namespace LP.TMF
open LP
open LP.Supply (FInv lookupPos findId)

def tmOf (s : State) (m : Minter) : TM.State :=
  { self := m.addr, admin := m.admin, colls := s.srcs.colls, required := m.mintTokens, start := m.startTime,
    perAddressLimit := m.perAddressLimit, numTokens := m.supply.n, maxPerAddressLimit := s.params.maxPerAddressLimit,
    airdropPrice := s.params.airdropMintPrice.amount, now := s.now, mintable := m.supply.ids,
    mintCount := m.mintCount, ledger := m.ledger,
    srcOwner := s.srcs.owner, srcApproved := fun _ _ => [], srcOperators := fun _ _ => [], srcNum := s.srcs.num,
    tgtOwner := fun id => m.supply.coll.ownerOf id, tgtNum := m.supply.coll.count }

/-- the token id the composite's position witness stands for -/
def pickedId (m : Minter) (p : Nat) : Option Nat := lookupPos m.supply.pos p

/-- composite op ↦ the (extended) aspect op (when the composite accepts it) -/
def tmCore (s : State) (m : Minter) : Op → List TM.OpX
  | .setTime t => [.core (.setTime t)]
  | .srcGive c id to => [.core (.give c id to)]
  | .srcTransfer caller c id to => [.core (.transfer caller c id to)]
  | .send caller coll id contract recipient msgOk picked =>
    [.core (.send caller coll id contract recipient msgOk (pickedId m picked))]
  | .receive caller sender id recipient msgOk picked =>
    [.core (.receive caller sender id recipient msgOk (pickedId m picked))]
  | .mintTo sender _ rcpt picked => [.core (.mintTo sender rcpt s.params.airdropMintPrice.amount true (pickedId m picked))]
  | .mintFor sender _ id rcpt => [.core (.mintFor sender id rcpt s.params.airdropMintPrice.amount true)]
  | .purge sender _ => [.core (.purge sender true)]
  | .updateStartTime sender _ t => [.core (.setStart sender t true)]
  | .updatePerAddressLimit sender _ n => [.core (.setLimit sender n true)]
  | .burnRemaining sender _ => [.core (.burnRemaining sender true)]
  | .updateStartTradingTime _ _ _ => [.core (.noise true)]
  | .sudoStatus _ _ _ => [.core (.noise true)]
  | .collTrading _ _ => [.core (.noise true)]
  | .collCreator _ _ => [.core (.noise true)]
  | .collFreeze _ => [.core (.noise true)]
  | .collOwn _ _ => [.core (.noise true)]
  | .shuffle _ _ perm => [.shuffle true perm]
  | .collTransfer sender id to => [.tgtTransfer sender id to true]
  | .collBurn sender id => [.tgtBurn sender id true]
  | .sudoParams u =>
    match updateParams s.params u with
    | .ok p => [.govern p.maxPerAddressLimit p.airdropMintPrice.amount true]
    | .error _ => []
  | _ => []

/-- forward simulation with stuttering: a rejected composite message is no aspect op -/
def tmOps (s : State) (m : Minter) (op : Op) : List TM.OpX := if accepted s op then tmCore s m op else []

/-- the ONE message kind the aspect model has no counterpart for: a new source contract appearing (`TM.State.colls` is fixed) -/
def TmQuiet (_s : State) : Op → Prop
  | .srcNew _ => False
  | _ => True

theorem tmState_ext (a b : TM.State) (h1 : a.self = b.self) (h2 : a.admin = b.admin) (h3 : a.colls = b.colls)
    (h4 : a.required = b.required) (h5 : a.start = b.start) (h6 : a.perAddressLimit = b.perAddressLimit)
    (h7 : a.numTokens = b.numTokens) (h8 : a.maxPerAddressLimit = b.maxPerAddressLimit) (h9 : a.airdropPrice = b.airdropPrice)
    (h10 : a.now = b.now) (h11 : a.mintable = b.mintable) (h12 : a.mintCount = b.mintCount) (h13 : a.ledger = b.ledger)
    (h14 : a.srcOwner = b.srcOwner) (h15 : a.srcApproved = b.srcApproved) (h16 : a.srcOperators = b.srcOperators)
    (h17 : a.srcNum = b.srcNum) (h18 : a.tgtOwner = b.tgtOwner) (h19 : a.tgtNum = b.tgtNum) : a = b := by
  cases a; cases b; simp_all

theorem requiredOf_eq (l : List (Addr × Nat)) (c : Addr) : TM.requiredOf l c = requiredOf l c := by
  induction l with
  | nil => rfl
  | cons e l ih =>
    obtain ⟨c', n⟩ := e
    simp only [TM.requiredOf, requiredOf, ih]

theorem upd2_nil (c id : Nat) :
    TM.upd2 (fun (_ : Nat) (_ : Nat) => ([] : List (Addr × Option Nat))) c id [] = fun _ _ => [] := by
  funext x y; simp [TM.upd2]

/-! ## the supply side of a mint, as the aspect model sees it -/

theorem ids_after_deliver {sup sup' : Supply.Fixed} {p id o : Nat} (hi : FInv sup) (hm : (p, id) ∈ sup.pos)
    (h : sup.deliver p id o = some sup') :
    sup'.ids = sup.ids.erase id ∧ sup.coll.mint id o = some sup'.coll ∧ sup'.n = sup.n := by
  obtain ⟨c, hc, rfl⟩ := Supply.Fixed.deliver_spec h
  refine ⟨?_, hc, rfl⟩
  have hE := Supply.filter_key_eq_filter_id sup.pos p id hi.knodup hi.nodup hm
  show (sup.pos.filter (fun e => e.1 != p)).map (·.2) = sup.ids.erase id
  rw [hE, Supply.map_snd_filter_snd, List.Nodup.erase_eq_filter hi.nodup]
  rfl

theorem lookupPos_of_mem {pos : List (Nat × Nat)} {p id : Nat} (hk : (pos.map (·.1)).Nodup) (hm : (p, id) ∈ pos) :
    lookupPos pos p = some id := by
  unfold lookupPos
  cases hf : pos.find? (fun e => e.1 == p) with
  | none =>
    rw [List.find?_eq_none] at hf
    exact absurd (by simp) (hf (p, id) hm)
  | some e =>
    have h1 := List.find?_some hf
    have h2 := List.mem_of_find?_eq_some hf
    simp at h1
    have : e = (p, id) := Supply.inj_of_nodup_map (·.1) pos hk e h2 (p, id) hm h1
    subst this; rfl

/-- `random_mintable_token_mapping` at position `p` -/
theorem take_at {sup sup' : Supply.Fixed} {p o : Nat} (hi : FInv sup) (h : sup.takeAt p o = some sup') :
    ∃ id, lookupPos sup.pos p = some id ∧ id ∈ sup.ids ∧ sup'.ids = sup.ids.erase id ∧
      sup.coll.mint id o = some sup'.coll ∧ sup'.n = sup.n := by
  obtain ⟨_, id, hm, hd⟩ := Supply.Fixed.takeAt_spec h
  obtain ⟨h1, h2, h3⟩ := ids_after_deliver hi hm hd
  exact ⟨id, lookupPos_of_mem hi.knodup hm, List.mem_map_of_mem (f := (·.2)) hm, h1, h2, h3⟩

/-- `MintFor {token_id}` -/
theorem take_id {sup sup' : Supply.Fixed} {id o : Nat} (hi : FInv sup) (h : sup.takeId id o = some sup') :
    1 ≤ id ∧ id ≤ sup.n ∧ id ∈ sup.ids ∧ sup'.ids = sup.ids.erase id ∧ sup.coll.mint id o = some sup'.coll ∧
      sup'.n = sup.n := by
  obtain ⟨_, h1, h2, hm, _, hd⟩ := Supply.Fixed.takeId_spec h
  obtain ⟨h3, h4, h5⟩ := ids_after_deliver hi hm hd
  exact ⟨h1, h2, List.mem_map_of_mem (f := (·.2)) hm, h3, h4, h5⟩

theorem ownerOf_none_of_not_mem {c : Supply.Coll} {id : Nat} (h : id ∉ c.ids) : c.ownerOf id = none := by
  unfold Supply.Coll.ownerOf
  cases hf : c.toks.find? (fun e => e.1 == id) with
  | none => rfl
  | some e =>
    exfalso
    have h1 := List.find?_some hf
    have h2 := List.mem_of_find?_eq_some hf
    simp at h1
    exact h (by rw [← h1]; exact List.mem_map_of_mem (f := (·.1)) h2)

/-- sg721 `Mint` on the minter's collection, as the aspect model's owner map -/
theorem coll_mint_owner {c c' : Supply.Coll} {id o : Nat} (h : c.mint id o = some c') :
    c.ownerOf id = none ∧ (fun x => c'.ownerOf x) = TM.upd1 (fun x => c.ownerOf x) id (some o) ∧ c'.count = c.count + 1 := by
  unfold Supply.Coll.mint at h
  split at h
  · cases h
  · rename_i hn
    cases h
    refine ⟨ownerOf_none_of_not_mem hn, ?_, rfl⟩
    funext x
    unfold TM.upd1 Supply.Coll.ownerOf
    by_cases hx : x = id
    · subst hx; simp
    · have : ¬ id = x := fun e => hx e.symm
      simp [List.find?_cons, hx, this]

theorem find_transfer (toks : List (Nat × Nat)) (id to x : Nat) :
    ((toks.map (fun e => (e.1, if e.1 == id then to else e.2))).find? (fun e => e.1 == x)).map (·.2) =
      if x = id then (toks.find? (fun e => e.1 == x)).map (fun _ => to) else (toks.find? (fun e => e.1 == x)).map (·.2) := by
  induction toks with
  | nil => simp
  | cons e rest ih =>
    by_cases he : e.1 = x
    · by_cases hx : x = id
      · simp [List.find?_cons, he, hx]
      · simp [List.find?_cons, he, hx]
    · have hb : (e.1 == x) = false := by simp [he]
      simp only [List.map_cons, List.find?_cons, hb]
      exact ih

theorem find_burn (toks : List (Nat × Nat)) (id x : Nat) :
    ((toks.filter (fun e => e.1 != id)).find? (fun e => e.1 == x)).map (·.2) =
      if x = id then none else (toks.find? (fun e => e.1 == x)).map (·.2) := by
  induction toks with
  | nil => simp
  | cons e rest ih =>
    by_cases hid : e.1 = id
    · have hf : (e :: rest).filter (fun e => e.1 != id) = rest.filter (fun e => e.1 != id) := by simp [List.filter_cons, hid]
      rw [hf, ih]
      by_cases hx : x = id
      · simp [hx]
      · have : ¬ e.1 = x := fun h => hx (h ▸ hid)
        simp [hx, List.find?_cons, this]
    · have hf : (e :: rest).filter (fun e => e.1 != id) = e :: rest.filter (fun e => e.1 != id) := by simp [List.filter_cons, hid]
      rw [hf]
      by_cases he : e.1 = x
      · have hx : ¬ x = id := fun h => hid (he ▸ h)
        simp [List.find?_cons, he, hx]
      · have hb : (e.1 == x) = false := by simp [he]
        simp only [List.find?_cons, hb]
        exact ih

/-- cw721 `transfer_nft` on the minter's own collection, as the aspect model's owner map -/
theorem coll_transfer_owner {c c' : Supply.Coll} {id to : Nat} (h : c.transfer id to = some c') :
    (fun x => c'.ownerOf x) = TM.upd1 (fun x => c.ownerOf x) id (some to) ∧ c'.count = c.count := by
  unfold Supply.Coll.transfer at h
  split at h
  · rename_i hm
    cases h
    refine ⟨?_, rfl⟩
    funext x
    unfold TM.upd1 Supply.Coll.ownerOf
    simp only
    rw [find_transfer]
    by_cases hx : x = id
    · subst hx
      simp only [if_true]
      cases hf : c.toks.find? (fun e => e.1 == x) with
      | some e => rfl
      | none =>
        exfalso
        rw [List.find?_eq_none] at hf
        simp only [Supply.Coll.ids, List.mem_map] at hm
        obtain ⟨e, he, hex⟩ := hm
        exact hf e he (by simp [hex])
    · simp only [hx, if_false]
  · cases h

/-- cw721 `burn` on the minter's own collection -/
theorem coll_burn_owner {c c' : Supply.Coll} {id : Nat} (h : c.burn id = some c') :
    (fun x => c'.ownerOf x) = TM.upd1 (fun x => c.ownerOf x) id none ∧ c'.count = c.count - 1 := by
  unfold Supply.Coll.burn at h
  split at h
  · cases h
    refine ⟨?_, rfl⟩
    funext x
    unfold TM.upd1 Supply.Coll.ownerOf
    simp only
    rw [find_burn]
  · cases h

end LP.TMF
