import LaunchpadModel.Lemmas.LaunchpadSystemOE2E2E
/-!
# Open-edition system composite 2: the view is exact (refinement onto `LP.SysOE`, one step)

`sysStep_exact`: an accepted minter / whitelist / clock step of `SysOE2` IS the accepted `SysOE` step on the view — the state the
simplified interface computed (token table after `Seq.mint`, record after `updateTrading`) equals the view of the state the
collection contract computed itself.  `create_exact`: the same for `CreateMinter` (with `collOk := true`).
-/
namespace LP.SysOE2
open LP
open LP.Sys2 (tokView ttView viewOfColl cfKind ttKind CollInit instMsg runSub)

/-- an `OE` minter record whose two collection components ARE the view of `c` is `omOf` of its stored part -/
theorem omOf_ofOm (om : OE.Minter) (c : CF.Coll) (u e : Nat) (h1 : om.seq.coll = tokView c.core) (h2 : om.tt = ttView c.core) :
    omOf (ofOm om u e) c = om := by
  cases om with
  | mk v addr factory collectionCodeId mintPrice admin paymentAddress whitelist startTime endTime perAddressLimit numTokens onChain
       sg721 seq pub wlc stg tot airdropCount status received tt =>
    cases seq with
    | mk kind hasEnd tokenIndex totalMint mintable cap burned issued coll =>
      simp only at h1 h2
      subst h1 h2
      rfl

theorem sysOf_setSys (s : State) (r : SysOE.State) (om : OE.Minter) (c' : CF.Coll) (u e : Nat) (hm : r.minter = some om)
    (h1 : om.seq.coll = tokView c'.core) (h2 : om.tt = ttView c'.core) : sysOf (setSys s r r.bank (some c') u e) = r := by
  cases r with
  | mk now codes factoryAddr params bank minter wls =>
    simp only at hm
    subst hm
    simp only [sysOf, setSys, Option.map_some, omOf_ofOm om c' u e h1 h2]

theorem sysOf_setSys_none (s : State) (r : SysOE.State) (u e : Nat) (hm : r.minter = none) :
    sysOf (setSys s r r.bank none u e) = r := by
  cases r with
  | mk now codes factoryAddr params bank minter wls =>
    simp only at hm
    subst hm
    simp [sysOf, setSys]

/-- a plain `OE` step from a state without a minter leaves it without one -/
theorem oe_none {S S' : OE.State} {o : OE.Op} (hp : plainOE o = true) (hm : S.minter = none) (h : OE.step S o = .ok S') :
    S'.minter = none := by
  cases o with
  | setTime t => simp only [OE.step] at h; split at h <;> cases h; exact hm
  | fund a c => simp only [OE.step] at h; cases h; exact hm
  | wlEnv k i => simp only [OE.step] at h; cases h; exact hm
  | sudoParams u => simp only [OE.step] at h; split at h <;> cases h; exact hm
  | instantiateDirect sender => simp [OE.step] at h
  | create sender funds msg w => simp [plainOE, isCreate] at hp
  | mint sender funds f sv =>
    simp only [OE.step] at h; obtain ⟨m0, hm0, _⟩ := OE.withMinterS_ok h; rw [hm] at hm0; cases hm0
  | mintTo sender funds rcpt =>
    simp only [OE.step] at h; obtain ⟨m0, hm0, _⟩ := OE.withMinterS_ok h; rw [hm] at hm0; cases hm0
  | setWhitelist sender funds wl valid =>
    simp only [OE.step] at h; obtain ⟨m0, _, hm0, _⟩ := OE.withMinter_ok h; rw [hm] at hm0; cases hm0
  | purge sender funds =>
    simp only [OE.step] at h; obtain ⟨m0, _, hm0, _⟩ := OE.withMinter_ok h; rw [hm] at hm0; cases hm0
  | updateMintPrice sender funds p =>
    simp only [OE.step] at h; obtain ⟨m0, _, hm0, _⟩ := OE.withMinter_ok h; rw [hm] at hm0; cases hm0
  | updateStartTime sender funds t =>
    simp only [OE.step] at h; obtain ⟨m0, _, hm0, _⟩ := OE.withMinter_ok h; rw [hm] at hm0; cases hm0
  | updateEndTime sender funds t =>
    simp only [OE.step] at h; obtain ⟨m0, _, hm0, _⟩ := OE.withMinter_ok h; rw [hm] at hm0; cases hm0
  | updateStartTradingTime sender funds t =>
    simp only [OE.step] at h; obtain ⟨m0, _, hm0, _⟩ := OE.withMinter_ok h; rw [hm] at hm0; cases hm0
  | updatePerAddressLimit sender funds n =>
    simp only [OE.step] at h; obtain ⟨m0, _, hm0, _⟩ := OE.withMinter_ok h; rw [hm] at hm0; cases hm0
  | burnRemaining sender funds =>
    simp only [OE.step] at h; obtain ⟨m0, _, hm0, _⟩ := OE.withMinter_ok h; rw [hm] at hm0; cases hm0
  | sudoStatus v b e =>
    simp only [OE.step] at h; obtain ⟨m0, _, hm0, _⟩ := OE.withMinter_ok h; rw [hm] at hm0; cases hm0
  | collTransfer sender id to => simp [plainOE, ifaceMsg] at hp
  | collBurn sender id => simp [plainOE, ifaceMsg] at hp
  | collTrading sender t => simp [plainOE, ifaceMsg] at hp
  | collCreator sender new => simp [plainOE, ifaceMsg] at hp
  | collFreeze sender => simp [plainOE, ifaceMsg] at hp
  | collOwn sender a => cases a <;> simp [plainOE, ifaceMsg] at hp

theorem sysoe_none {S S' : SysOE.State} {o : SysOE.Op} (hp : plainOp o = true) (hm : S.minter = none)
    (h : SysOE.step S o = .ok S') : S'.minter = none := by
  cases o with
  | minter vo =>
    obtain ⟨_, c, hc, rfl⟩ := SysOE.step_minter_ok h
    exact oe_none hp (show (SysOE.oeOf S).minter = none from hm) hc
  | mint sender funds stage alloc proof =>
    obtain ⟨c, hc, rfl⟩ := SysOE.step_mint_ok h
    exact oe_none (o := SysOE.mintOp S sender funds stage alloc proof) rfl (show (SysOE.oeOf S).minter = none from hm) hc
  | wlInst v sender funds self mm =>
    obtain ⟨_, r, w, _, _, _, rfl⟩ := SysOE.step_wlInst_ok h
    exact hm
  | wlExec k sender funds mm =>
    obtain ⟨w, r, w', _, _, _, _, rfl⟩ := SysOE.step_wlExec_ok h
    exact hm

/-- the sub-messages of the minter move no coins -/
theorem runSub_bank {b : Sg721.Block} {bank bank' : MintPay.Bank} {minter : Addr} {c c' : CF.Coll} {m : Minter}
    {sub : Sub} {msg : Option CF.ExecMsg} (hshape : SubShape m msg sub) (h : runSub b bank minter c msg = .ok (bank', c')) :
    bank' = bank := by
  rcases Sys2.runSub_ok h with ⟨_, h2, _⟩ | ⟨mm, core', h1, _, h3, _⟩
  · exact h2
  · subst h1
    cases sub with
    | none => cases hshape
    | mint rcpt =>
      obtain ⟨uri, ext, hx⟩ := hshape
      cases hx
      simp only [CF.responseMsgs, MintPay.applyMsgs, Option.some.injEq] at h3
      exact h3.symm
    | trading t =>
      simp only [SubShape, Option.some.injEq] at hshape
      subst hshape
      simp only [CF.responseMsgs, MintPay.applyMsgs, Option.some.injEq] at h3
      exact h3.symm

/-- **the view is exact (minter / whitelist / clock ops).** If `SysOE2` accepts a `SysOE` op that is no collection-interface op and
no `create`, then `SysOE` accepts it on the view, and the state the simplified interface computes IS the view of the `SysOE2`
post-state (whose collection component was computed by the collection contract executing the minter's sub-message) -/
theorem sysStep_exact {s s' : State} {o : SysOE.Op} (hp : plainOp o = true)
    (hg : ∀ m c, s.mc = some (m, c) → c.core.ids.Nodup) (h : sysStep s o = .ok s') :
    SysOE.step (sysOf s) o = .ok (sysOf s') := by
  obtain ⟨r, hr, hcase⟩ := sysStep_ok h
  rw [hr]
  congr 1
  rcases hcase with ⟨hnone, rfl⟩ | ⟨m, c, msg, bank, c', hmc, hmsg, hrun, rfl⟩
  · exact (sysOf_setSys_none s r 0 0 (sysoe_none hp (sysOf_minter_none hnone) hr)).symm
  · have hn := hg m c hmc
    have hshape := subMsg_shape hmsg
    have hbank := runSub_bank hshape hrun
    subst hbank
    obtain ⟨om', hrm, _, _, _, _, heff⟩ := sysoe_effect hp (sysOf_minter_some hmc) hr
    refine (sysOf_setSys s r om' c' _ _ hrm ?_ ?_).symm
    all_goals
      cases hsub : subOf o with
      | none =>
        rw [hsub] at heff hshape
        simp only [SubShape] at hshape
        subst hshape
        have hc' : c' = c := by
          rcases Sys2.runSub_ok hrun with ⟨_, _, h3⟩ | ⟨mm, _, hx, _⟩
          · exact h3
          · cases hx
        subst hc'
        obtain ⟨htt, hseq⟩ := heff
        first
          | (rcases hseq with he | hb
             · rw [he]; rfl
             · obtain ⟨_, _, hs'⟩ := Supply.Seq.burnRemaining_spec hb
               rw [hs']; rfl)
          | (rw [htt]; rfl)
      | trading t =>
        rw [hsub] at heff hshape
        simp only [SubShape] at hshape
        subst hshape
        rcases Sys2.runSub_ok hrun with ⟨hx, _⟩ | ⟨mm, core', hx, hex, _, rfl⟩
        · cases hx
        cases hx
        obtain ⟨hseq, htt⟩ := heff
        obtain ⟨_, e⟩ := Sg721.exec_eff' hex
        simp only [CF.toExec] at e
        cases e with
        | ustt _ hm =>
          first
            | (rw [hseq]; rfl)
            | (unfold TT.Coll.updateTrading at htt
               split at htt
               · cases htt
               · split at htt
                 · have hx := Except.ok.inj htt
                   rw [← hx]; rfl
                 · cases htt)
      | mint rcpt =>
        rw [hsub] at heff hshape
        simp only [SubShape] at hshape
        obtain ⟨uri, ext, rfl⟩ := hshape
        rcases Sys2.runSub_ok hrun with ⟨hx, _⟩ | ⟨mm, core', hx, hex, _, rfl⟩
        · cases hx
        cases hx
        obtain ⟨hmint, htt, _⟩ := heff
        obtain ⟨_, cc, hcc, hs'⟩ := Supply.Seq.mint_spec hmint
        obtain ⟨_, e⟩ := Sg721.exec_eff' hex
        have htok := Sys2.tok_effect hn e
        simp only [Sys2.TokEff] at htok
        have hcceq : cc = tokView core' := by
          have h1 : (tokView c.core).mint (m.seq.tokenIndex + 1) rcpt = some cc := hcc
          rw [htok] at h1
          exact (Option.some.inj h1).symm
        simp only [CF.toExec] at e
        cases e with
        | mint _ _ _ _ _ _ _ =>
          first
            | (rw [hs', hcceq])
            | (rw [htt]; rfl)

/-- **the view is exact, `CreateMinter`**: the accepted `SysOE2` creation IS the accepted `SysOE` creation on the view (with the flag
`collOk` — which the simplified interface took from outside — true because the collection's own `instantiate` accepted) -/
theorem create_exact {s s' : State} {sender : Addr} {funds : List Coin} {msg : OE.CreateMsg} {w : OE.CreateWit} {ci : CollInit}
    {uri ext : Nat} (h : create s sender funds msg w ci uri ext = .ok s') :
    SysOE.step (sysOf s) (.minter (.create sender funds { msg with collOk := true } w)) = .ok (sysOf s') := by
  obtain ⟨r, om, q, hr, hom, hq, rfl⟩ := create_ok h
  obtain ⟨_, c0, hc0, hr0⟩ := SysOE.step_minter_ok hr
  simp only [OE.step] at hc0
  obtain ⟨_, _, b2, v, m0, _, _, _, _, _, hinst, hc0eq⟩ := OE.createMinter_ok hc0
  have hom' : om = m0 := by
    rw [hr0, hc0eq] at hom
    have : (SysOE.setOe (sysOf s) { SysOE.oeOf (sysOf s) with bank := b2, minter := some m0 }).minter = some m0 := rfl
    rw [hom] at this
    exact Option.some.inj this
  subst hom'
  obtain ⟨wl, trading, ck, _, _, _, _, _, hm0⟩ := OE.instantiateMinter_ok hinst
  obtain ⟨b1, core, _, hb1, hcore, rfl⟩ := CF.instantiate_ok hq
  simp only [MintPay.Bank.sendFunds, Option.some.injEq] at hb1
  subst hb1
  rw [hr]
  congr 1
  symm
  obtain ⟨hk, ht, hc, ho, hi, hf⟩ := Sys2.sg_instantiate_ok hcore
  refine sysOf_setSys s r om _ uri ext hom ?_ ?_
  · rw [hm0]
    simp [tokView, ht, hc, Supply.Seq.create, Supply.Coll.empty]
  · rw [hm0]
    simp [ttView, TT.Coll.init, hk, ho, hi, hf, Sys2.ttKind_cfKind, instMsg, hm0]

/-! ## `Good`: ids duplicate-free, no cw721-0.16 `minter` item — along EVERY history (impersonation included) -/

def Good (s : State) : Prop := ∀ m c, s.mc = some (m, c) → c.core.ids.Nodup ∧ c.legacy = none

theorem good_collExec {s s' : State} {sender : Addr} {funds : List Coin} {msg : CF.ExecMsg} (hg : Good s)
    (h : collExec s sender funds msg = .ok s') : Good s' := by
  obtain ⟨m, c, _, core', _, hmc, _, hex, _, rfl⟩ := collExec_ok h
  obtain ⟨hn, hl⟩ := hg m c hmc
  intro m' c' hx
  simp only [Option.some.injEq, Prod.mk.injEq] at hx
  obtain ⟨rfl, rfl⟩ := hx
  exact ⟨Sys2.nodup_eff hn (Sg721.exec_eff' hex).2, hl⟩

theorem good_collEnv {s s' : State} {op : CF.Op} (hop : op = .migrateUpdatable ∨ op = .migrateSelf ∨ ∃ v, op = .setVersion v)
    (hg : Good s) (h : collEnv s op = .ok s') : Good s' := by
  obtain ⟨m, c, c', hmc, rfl, hx⟩ := collEnv_parts h hop
  obtain ⟨hn, hl⟩ := hg m c hmc
  intro m' c'' hy
  simp only [Option.some.injEq, Prod.mk.injEq] at hy
  obtain ⟨rfl, rfl⟩ := hy
  rcases hx with ⟨_, hf⟩ | ⟨_, hf⟩ | ⟨v, _, rfl⟩
  · obtain ⟨_, h2, _, _, h5, _⟩ := Sys2.migrateUpdatable_view hl hf
    exact ⟨by rw [h2]; exact hn, h5⟩
  · obtain ⟨_, h2, _, _, h5, _⟩ := Sys2.migrateSelf_view hl hf
    exact ⟨by rw [h2]; exact hn, h5⟩
  · exact ⟨hn, hl⟩

theorem good_step {s s' : State} {op : Op} (hg : Good s) (h : step s op = .ok s') : Good s' := by
  cases op with
  | sys o =>
    rcases step_sys_cases s o with ⟨vo, sender, mm, rfl, _, hst⟩ | ⟨vo, rfl, _, hst⟩ | ⟨hp, hst⟩
    · rw [hst] at h; exact good_collExec hg h
    · rw [hst] at h; cases h
    · rw [hst] at h
      cases hmc : s.mc with
      | none =>
        obtain ⟨r, _, hcase⟩ := sysStep_ok h
        rcases hcase with ⟨_, rfl⟩ | ⟨m0, c0, _, _, _, hmc0, _⟩
        · intro m' c' hx; rw [setSys_mc_none] at hx; cases hx
        · rw [hmc] at hmc0; cases hmc0
      | some mc =>
        obtain ⟨m, c⟩ := mc
        obtain ⟨hn, hl⟩ := hg m c hmc
        obtain ⟨om', c', msg, hmc', _, _, _, _, _, hcase⟩ := sysStep_parts hp hmc h
        intro m'' c'' hx
        rw [hmc'] at hx
        simp only [Option.some.injEq, Prod.mk.injEq] at hx
        obtain ⟨rfl, rfl⟩ := hx
        rcases hcase with ⟨_, rfl⟩ | ⟨mm, core', _, hex, rfl⟩
        · exact ⟨hn, hl⟩
        · exact ⟨Sys2.nodup_eff hn (Sg721.exec_eff' hex).2, hl⟩
  | create sender funds msg w ci uri ext =>
    obtain ⟨_, m', c', hmc', _, k2, _, k4, _⟩ := create_post (show create s sender funds msg w ci uri ext = .ok s' from h)
    intro m'' c'' hx
    rw [hmc'] at hx
    simp only [Option.some.injEq, Prod.mk.injEq] at hx
    obtain ⟨rfl, rfl⟩ := hx
    exact ⟨by simp [Sg721.State.ids, k2], k4⟩
  | block hh t =>
    simp only [step] at h
    split at h
    · cases h
    · cases h; exact hg
  | collExec sender funds msg => exact good_collExec hg h
  | collMigrateUpdatable => exact good_collEnv (Or.inl rfl) hg h
  | collMigrateSelf => exact good_collEnv (Or.inr (Or.inl rfl)) hg h
  | collSetVersion v => exact good_collEnv (Or.inr (Or.inr ⟨v, rfl⟩)) hg h

theorem good_run {s : State} (ops : List Op) (hg : Good s) : Good (run s ops) := by
  induction ops generalizing s with
  | nil => exact hg
  | cons op ops ih =>
    rw [run_cons]
    apply ih
    rcases step'_cases s op with ⟨s', hs, hs'⟩ | ⟨_, hs'⟩
    · rw [hs']; exact good_step hg hs
    · rw [hs']; exact hg

/-! ## refinement onto `LP.CF`: what an accepted system step does to the collection contract IS a `CF` step -/

/-- a message to the collection from outside IS the `CF` step on `cfOf` -/
theorem cf_collExec {s s' : State} {sender : Addr} {funds : List Coin} {m : CF.ExecMsg} (h : collExec s sender funds m = .ok s') :
    CF.step (cfOf s) (.exec sender funds m) = .ok (cfOf s') := by
  unfold collExec at h
  split at h
  · cases h
  · rename_i mn c0 hmc
    split at h
    · cases h
    · rename_i q hq
      obtain ⟨c, b1, core', b2, hc, _, _, _, rfl⟩ := CF.exec_ok hq
      simp only at h
      cases h
      show CF.exec (cfOf s) sender funds m = _
      rw [hq]
      rfl

/-- a migration / stored-version step IS the `CF` step on `cfOf` -/
theorem cf_collEnv {s s' : State} {op : CF.Op} (hop : op = .migrateUpdatable ∨ op = .migrateSelf ∨ ∃ v, op = .setVersion v)
    (h : collEnv s op = .ok s') : CF.step (cfOf s) op = .ok (cfOf s') := by
  obtain ⟨m, c, q, c', hmc, hq, hc', rfl⟩ := collEnv_ok h
  rw [hq]
  congr 1
  have hcoll : (cfOf s).coll = some c := by simp [cfOf, hmc]
  rcases hop with rfl | rfl | ⟨v, rfl⟩ <;> simp only [CF.step] at hq <;> obtain ⟨c0, c1, hc0, _, rfl⟩ := CF.onColl_ok hq <;>
    simp only at hc' <;> cases hc' <;> rfl

/-- the minter's sub-message IS a `CF.exec` by the minter contract, without funds, in the current block, on the bank the minter-side
handler left; the system stores the collection that step computed -/
theorem cf_sub {s s' : State} {o : SysOE.Op} {m : Minter} {c : CF.Coll} (hp : plainOp o = true) (hmc : s.mc = some (m, c))
    (h : sysStep s o = .ok s') :
    ∃ r msg, SysOE.step (sysOf s) o = .ok r ∧ subMsg m c (subOf o) = .ok msg ∧
      ((msg = none ∧ s'.mc.map (·.2) = some c) ∨
       ∃ mm q, msg = some mm ∧ CF.step ⟨s.block, r.bank, some c⟩ (.exec m.addr [] mm) = .ok q ∧ q.coll = s'.mc.map (·.2) ∧
         q.bank = s'.bank) := by
  obtain ⟨r, hr, hcase⟩ := sysStep_ok h
  rcases hcase with ⟨hnone, _⟩ | ⟨m0, c0, msg, bank, c', hmc0, hmsg, hrun, rfl⟩
  · rw [hmc] at hnone; cases hnone
  · rw [hmc] at hmc0
    simp only [Option.some.injEq, Prod.mk.injEq] at hmc0
    obtain ⟨rfl, rfl⟩ := hmc0
    obtain ⟨om', hrm, _⟩ := sysoe_effect hp (sysOf_minter_some hmc) hr
    have hmc' : (setSys s r bank (some c') m.nftUri m.nftExt).mc.map (·.2) = some c' := by
      rw [setSys_mc_some, hrm]; rfl
    refine ⟨r, msg, hr, hmsg, ?_⟩
    cases msg with
    | none =>
      left
      simp only [runSub, Except.ok.injEq, Prod.mk.injEq] at hrun
      obtain ⟨_, rfl⟩ := hrun
      exact ⟨rfl, hmc'⟩
    | some mm =>
      right
      simp only [runSub] at hrun
      split at hrun
      · cases hrun
      · rename_i q hq
        split at hrun
        · cases hrun
        · rename_i c'' hc''
          simp only [Except.ok.injEq, Prod.mk.injEq] at hrun
          obtain ⟨rfl, rfl⟩ := hrun
          exact ⟨mm, q, rfl, hq, by rw [hc'', hmc'], rfl⟩

/-- `CreateMinter`: the collection contract of the system is what the `CF` instantiate step computed -/
theorem cf_create {s s' : State} {sender : Addr} {funds : List Coin} {msg : OE.CreateMsg} {w : OE.CreateWit} {ci : CollInit}
    {uri ext : Nat} (h : create s sender funds msg w ci uri ext = .ok s') :
    ∃ r om q, SysOE.step (sysOf s) (.minter (.create sender funds { msg with collOk := true } w)) = .ok r ∧ r.minter = some om ∧
      CF.step ⟨s.block, r.bank, none⟩ (.instantiate (cfKind om.tt.kind) om.addr [] ci.name ci.symbol
        (instMsg om.addr msg.creator om.tt.trading ci) om.sg721) = .ok q ∧ q.coll = s'.mc.map (·.2) ∧ q.bank = s'.bank := by
  obtain ⟨r, om, q, hr, hom, hq, rfl⟩ := create_ok h
  refine ⟨r, om, q, hr, hom, hq, ?_, rfl⟩
  obtain ⟨b1, core, _, _, _, rfl⟩ := CF.instantiate_ok hq
  rw [setSys_mc_some, hom]; rfl

end LP.SysOE2
