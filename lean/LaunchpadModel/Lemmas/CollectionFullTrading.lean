import LaunchpadModel.Lemmas.CollectionFull
import LaunchpadModel.Lemmas.Sg721
import LaunchpadModel.Lemmas.CollectionFullRoyalty
import LaunchpadModel.Model.TradingTime
/-!
# C19 refinement (collection half), lemmas: the collection composite against `LP.TT`

`TT.World` = factory offset + minter + collection. The collection composite supplies the COLLECTION component
(`projTT`); the minter side (`MinterSide`: family, offset, minter contract address, minter config) is outside the family
and stays an arbitrary parameter — every statement below holds for all of its values.
-/
namespace LP.CF
open LP
open LP.Sg721 (Kind Block)

def ttKind : Kind → TT.CollKind
  | .base => .base | .nt => .nt | .updatable => .updatable | .onchain => .metadata

/-- projection of the C09 component onto `TT.Coll` -/
def projTT (c : Sg721.State) : TT.Coll :=
  { kind := ttKind c.kind, owner := c.ownership.owner, pending := c.ownership.pending, creator := c.info.creator,
    frozen := c.frozenInfo, trading := c.info.startTradingTime }

/-- everything of `TT.World` that is NOT the collection -/
structure MinterSide where
  family : TT.Family
  offset : Nat
  minterAddr : Addr
  minter : TT.Minter

def ttOf (P : MinterSide) (s : State) : TT.World :=
  { family := P.family, now := s.block.time, offset := P.offset, minterAddr := P.minterAddr,
    mc := s.coll.map fun c => (P.minter, projTT c.core) }

def ownAct : Sg721.Action → TT.OwnAction
  | .transfer n _ => .transfer n
  | .accept => .accept
  | .renounce => .renounce

/-- the `TT` op of an ACCEPTED message (`none`: the message does not concern this aspect) -/
def ttMsg (c : Sg721.State) (sender : Addr) : ExecMsg → Option TT.Op
  | .updateStartTradingTime t => some (.collTrading sender t)
  | .updateCollectionInfo u => some (.collCreator sender (u.creator.getD c.info.creator))
  | .freezeCollectionInfo => some (.collFreeze sender)
  | .updateOwnership a => some (.collOwn sender (ownAct a))
  | _ => none

def tr19 (s : State) (op : Op) : List TT.Op :=
  match op with
  | .block b => [.setTime b.time]
  | .exec sender _ m =>
    match s.coll with
    | none => []
    | some c =>
      if accepted s op then
        match ttMsg c.core sender m with
        | some o => [o]
        | none => []
      else []
  | _ => []

theorem hasTrading_of (k : Kind) (t : Option Nat) (h : Sg721.supported k (.updateStartTradingTime t) = true) :
    (ttKind k).hasTradingMsg = true := by
  cases k <;> simp [Sg721.supported] at h <;> rfl

theorem hasOwnership_of (k : Kind) (a : Sg721.Action) (h : Sg721.supported k (.updateOwnership a) = true) :
    (ttKind k).hasOwnershipMsg = true := by
  cases k <;> simp [Sg721.supported] at h <;> rfl

/-- the effect of an accepted message on the `TT` collection: exactly the `TT` op's effect (or nothing) -/
theorem msg_sim (c core' : Sg721.State) (b : Block) (sender : Addr) (funds : List Coin) (m : ExecMsg)
    (h : Sg721.exec c ⟨b, sender, funds, toExec c b m⟩ = .ok core') :
    match ttMsg c sender m with
    | some (.collTrading s t) => (projTT c).updateTrading s t = .ok (projTT core')
    | some (.collCreator s n) => (projTT c).updateCreator s n = .ok (projTT core')
    | some (.collFreeze s) => (projTT c).freeze s = .ok (projTT core')
    | some (.collOwn s a) => (projTT c).updateOwnership s a = .ok (projTT core')
    | _ => projTT core' = projTT c := by
  obtain ⟨hs, e⟩ := Sg721.exec_eff' h
  cases m <;> simp only [toExec] at e hs <;> simp only [ttMsg]
  case transferNft => cases e; rfl
  case sendNft => cases e; rfl
  case approve => cases e; rfl
  case revoke => cases e; rfl
  case approveAll => cases e; rfl
  case revokeAll => cases e; rfl
  case mint => cases e; rfl
  case burn => cases e; rfl
  case extension => cases e
  case freezeTokenMetadata => cases e; rfl
  case updateTokenMetadata => cases e; rfl
  case enableUpdatable => cases e; rfl
  case updateStartTradingTime t =>
    cases e with
    | ustt _ ho =>
      have hk := hasTrading_of c.kind t hs
      simp [TT.Coll.updateTrading, projTT, hk, ho]
  case freezeCollectionInfo =>
    cases e with
    | freeze hc => simp [TT.Coll.freeze, projTT, hc]
  case updateCollectionInfo u =>
    have h' : Sg721.exec c ⟨b, sender, funds, .updateCollectionInfo u.toSg (royAccepted c b u)⟩ = .ok core' := h
    obtain ⟨hfz, hcr, _, _, _, _, hres⟩ := (uci_ok_iff c b sender funds u core').1 h'
    have hcore : projTT core' = { projTT c with creator := u.creator.getD c.info.creator } := by
      cases hroy : u.royalty with
      | none => rw [hroy] at hres; rw [hres]; rfl
      | some r => rw [hroy] at hres; rw [hres.2]; rfl
    rw [hcore]
    simp [TT.Coll.updateCreator, projTT, hfz, hcr]
  case updateOwnership a =>
    have hk := hasOwnership_of c.kind a hs
    cases a with
    | transfer n ex => cases e with | ownTransfer _ _ ho _ => simp [TT.Coll.updateOwnership, projTT, hk, ho, ownAct]
    | accept => cases e with | ownAccept hp _ => simp [TT.Coll.updateOwnership, projTT, hk, hp, ownAct]
    | renounce => cases e with | ownRenounce ho => simp [TT.Coll.updateOwnership, projTT, hk, ho, ownAct]

end LP.CF
