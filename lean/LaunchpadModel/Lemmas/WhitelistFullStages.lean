import LaunchpadModel.Lemmas.WhitelistFullSchedule
import LaunchpadModel.Lemmas.Tiered
/-!
# Composite whitelist model ⟶ C13 aspect model (`LP.Tiered`): the stage skeleton of the three tiered kinds

`LP.Tiered` keeps `WHITELIST_STAGES` as one insertion-ordered list of `(stage, address, value)` entries under its own address
convention (`0` = invalid); the composite keeps it as the KV store does (per stage, ascending by address; ids `≥ 90000` invalid),
and its member accounting is tied to C11 (`Lemmas/WhitelistFullMembers*`). The C13 refinement is therefore onto the **stage
skeleton**: `proj13` reads the stage list, member limit, whale cap, Merkle roots and admin list off the composite state and
leaves the member store empty; `tr13` translates a message the composite ACCEPTS into the same aspect message with its member
list emptied (an aspect message with an empty member list succeeds iff every stage / limit / admin gate passes), a message the
composite refuses — and every message that does not touch the skeleton — into the aspect's always-refused `unknown`.
Admin addresses are shifted by one so that the aspect's `0 = invalid` convention never bites.
-/
namespace LP.WF
open LP

/-- the three tiered crates -/
def Tier (v : Variant) : Prop := v.tiered = true ∧ v.store ≠ .immutable

/-- value of a hex string (the aspect stores a Merkle root as a number) -/
def rootNat (s : List Nat) : Nat := s.foldl (fun acc c => acc * 16 + (Merkle.hexVal c).getD 0) 0

def sh (a : Addr) : Addr := a + 1

/-- projection onto the C13 aspect state: the stage skeleton -/
def proj13 (w : Wl) : Tiered.State :=
  { stages := w.stages, members := [], counts := fun _ => 0, num := 0, limit := w.memberLimit, whale := w.whaleCap,
    roots := w.roots.map rootNat, admins := w.admins.map sh, mutable := w.mutable_ }

def tr13 (s : State) : Op → Tiered.Op
  | .setTime _ => .unknown s.now 0
  | .fund _ _ => .unknown s.now 0
  | .instantiate v sender funds self m =>
    if accepted s (.instantiate v sender funds self m) then
      .inst s.now (sh sender) funds m.memberLimit m.whaleCap (m.admins.map sh) m.adminsMutable m.stages
        (m.stages.map fun _ => []) (m.roots.map rootNat) (!m.uriOk)
    else .unknown s.now (sh sender)
  | .exec sender funds m =>
    if accepted s (.exec sender funds m) then
      match m with
      | .updateStageConfig u => .updateStage s.now (sh sender) u
      | .addStage st _ => .addStage s.now (sh sender) st []
      | .removeStage id => .removeStage s.now (sh sender) id
      | .increaseMemberLimit n => .increaseLimit s.now (sh sender) funds n
      | .updateAdmins l => .updateAdmins s.now (sh sender) (l.map sh)
      | .freeze => .freeze s.now (sh sender)
      | _ => .unknown s.now (sh sender)
    else .unknown s.now (sh sender)

theorem contains_sh (l : List Addr) (a : Addr) : (l.map sh).contains (sh a) = l.contains a := by
  induction l with
  | nil => rfl
  | cons x xs ih =>
    simp only [List.map_cons, List.contains_cons, ih, sh]
    congr 1
    by_cases h : a = x
    · subst h; simp
    · have : ¬ a + 1 = x + 1 := fun e => h (Nat.succ.inj e)
      simp [h, this]

theorem isAdmin_proj (w : Wl) (a : Addr) : Tiered.isAdmin (proj13 w) (sh a) = isAdmin w a := contains_sh _ _

theorem all_valid_sh (l : List Addr) : (l.map sh).all Tiered.validAddr = true := by
  induction l with
  | nil => rfl
  | cons x xs ih => simp [List.all_cons, ih, Tiered.validAddr, sh]

theorem tiered_step'_unknown (v : Tiered.Variant) (W : Tiered.World) (now : Nat) (a : Addr) :
    Tiered.step' v W (.unknown now a) = W := by
  cases W <;> simp [Tiered.step', Tiered.step, Tiered.exec, Except.map]

theorem tiered_step'_ok {v : Tiered.Variant} {W W' : Tiered.World} {op : Tiered.Op} (h : Tiered.step v W op = .ok W') :
    Tiered.step' v W op = W' := by simp [Tiered.step', h]

theorem kind13_list {v : Variant} (h : v.store = .list) : v.kind13 = (if v.flex then .flex else .plain) := by
  simp [Variant.kind13, h]
theorem kind13_merkle {v : Variant} (h : v.store = .merkle) : v.kind13 = .merkle := by simp [Variant.kind13, h]

theorem listBased_ok {v : Variant} (h : v.store = .list) : Tiered.listBased v.kind13 = .ok () := by
  rw [kind13_list h]; cases v.flex <;> rfl

theorem maxMembers_eq {v : Variant} (h : v.store = .list) (ht : v.tiered = true) :
    Tiered.maxMembers v.kind13 = v.kind11.maxMembers := by
  obtain ⟨st, f, t⟩ := v
  simp only at h ht; subst h; subst ht
  cases f <;> rfl

theorem price_eq {v : Variant} (h : v.store = .list) (ht : v.tiered = true) :
    Tiered.pricePer1000 v.kind13 = v.kind11.price := by
  obtain ⟨st, f, t⟩ := v
  simp only at h ht; subst h; subst ht
  cases f <;> rfl

def Sim13 (s : State) (w : Wl) (op : Op) : Prop :=
  ∃ w', (step' s op).wl = some w' ∧ w'.v = w.v ∧
    some (proj13 w') = Tiered.step' w.v.kind13 (some (proj13 w)) (tr13 s op)

theorem proj13_tipped (w : Wl) (funds : List Coin) : proj13 (w.tipped funds) = proj13 w := rfl

theorem state_ext {a b : Tiered.State} (h1 : a.stages = b.stages) (h2 : a.members = b.members)
    (h3 : ∀ j, a.counts j = b.counts j) (h4 : a.num = b.num) (h5 : a.limit = b.limit) (h6 : a.whale = b.whale)
    (h7 : a.roots = b.roots) (h8 : a.admins = b.admins) (h9 : a.mutable = b.mutable) : a = b := by
  cases a; cases b
  simp only at h1 h2 h3 h4 h5 h6 h7 h8 h9
  have : ‹Nat → Nat› = ‹Nat → Nat› := rfl
  subst h1 h2 h4 h5 h6 h7 h8 h9
  congr
  exact funext h3

/-- aspect `updateStage` when every gate passes -/
theorem t_updateStage_ok {v : Tiered.Variant} {P : Tiered.State} {a : Addr} {u : StageUpdate} {old : Stage}
    (h1 : Tiered.isAdmin P a = true) (h2 : P.stages[u.id]? = some old)
    (h3 : Tiered.validateUpdate v (P.stages.set u.id (Tiered.applyUpdate v old u)) = true) (now : Nat) :
    Tiered.step v (some P) (.updateStage now a u) =
      .ok (some { P with stages := P.stages.set u.id (Tiered.applyUpdate v old u) }) := by
  simp [Tiered.step, Tiered.exec, Tiered.updateStage, Tiered.ofBool, h1, h2, h3, bind, Except.bind, pure, Except.pure, Except.map]

theorem t_freeze_ok {v : Tiered.Variant} {P : Tiered.State} {a : Addr} (h1 : (P.mutable && Tiered.isAdmin P a) = true)
    (now : Nat) : Tiered.step v (some P) (.freeze now a) = .ok (some { P with mutable := false }) := by
  simp [Tiered.step, Tiered.exec, Tiered.freeze, Tiered.ofBool, h1, bind, Except.bind, pure, Except.pure, Except.map]

theorem t_updateAdmins_ok {v : Tiered.Variant} {P : Tiered.State} {a : Addr} {l : List Addr}
    (h1 : (P.mutable && Tiered.isAdmin P a) = true) (h2 : l.all Tiered.validAddr = true) (now : Nat) :
    Tiered.step v (some P) (.updateAdmins now a l) = .ok (some { P with admins := l }) := by
  simp [Tiered.step, Tiered.exec, Tiered.updateAdmins, Tiered.ofBool, h1, h2, bind, Except.bind, pure, Except.pure, Except.map]

theorem t_increase_ok {v : Tiered.Variant} (hl : Tiered.listBased v = .ok ()) {P : Tiered.State} {a : Addr}
    {funds : List Coin} {n pay : Nat}
    (h1 : (decide (P.limit ≥ n) || decide (n > Tiered.maxMembers v)) = false)
    (h2 : mayPay funds NATIVE = .ok pay)
    (h3 : pay = (if Tiered.thousands n > Tiered.thousands P.limit
                  then (Tiered.thousands n - Tiered.thousands P.limit) * Tiered.pricePer1000 v else 0)) (now : Nat) :
    Tiered.step v (some P) (.increaseLimit now a funds n) = .ok (some { P with limit := n }) := by
  subst h3
  simp [Tiered.step, Tiered.exec, hl, Tiered.increaseLimit, Tiered.ofBool, h1, h2, bind, Except.bind, pure, Except.pure, Except.map]

theorem t_sortDedup_nil : Tiered.sortDedup [] = [] := rfl

theorem t_addStage_ok {v : Tiered.Variant} (hl : Tiered.listBased v = .ok ()) {P : Tiered.State} {a : Addr} {st : Stage}
    (h1 : Tiered.isAdmin P a = true) (h2 : P.stages.length < 3) (now : Nat)
    (h3 : Tiered.validateStages v now (P.stages ++ [Tiered.normStage v st]) = true) :
    Tiered.step v (some P) (.addStage now a st []) =
      .ok (some { P with stages := P.stages ++ [Tiered.normStage v st], members := P.members, num := P.num,
                         counts := fun j => if j = (P.stages ++ [Tiered.normStage v st]).length - 1 then 0 else P.counts j }) := by
  cases v with
  | merkle => simp [Tiered.listBased] at hl
  | plain =>
    simp [Tiered.step, Tiered.exec, Tiered.listBased, Tiered.addStage, Tiered.ofBool, h1, h2, h3, bind, Except.bind,
      pure, Except.pure, Except.map, t_sortDedup_nil, Tiered.addLoop]
  | flex =>
    simp [Tiered.step, Tiered.exec, Tiered.listBased, Tiered.addStage, Tiered.ofBool, h1, h2, h3, bind, Except.bind,
      pure, Except.pure, Except.map, Tiered.addLoop]

theorem t_removeStage_ok {v : Tiered.Variant} (hl : Tiered.listBased v = .ok ()) {P : Tiered.State} {a : Addr} {id : Nat}
    {st : Stage} (hm : P.members = [])
    (h1 : Tiered.isAdmin P a = true) (h2 : P.stages[id]? = some st) (now : Nat) (h3 : now < st.start) :
    Tiered.step v (some P) (.removeStage now a id) =
      .ok (some { P with stages := P.stages.take id, members := [], num := P.num - 0,
                         counts := fun j => if id ≤ j ∧ j < P.stages.length then 0 else P.counts j }) := by
  simp [Tiered.step, Tiered.exec, hl, Tiered.removeStage, Tiered.ofBool, h1, h2, h3, hm, bind, Except.bind,
    pure, Except.pure, Except.map]

/-- messages that leave the stage skeleton alone -/
def skelFree : ExecMsg → Bool
  | .updateStageConfig _ | .addStage _ _ | .removeStage _ | .increaseMemberLimit _ | .updateAdmins _ | .freeze => false
  | _ => true

theorem handle_frame13 {w w' : Wl} {now : Nat} {sender : Addr} {funds : List Coin} {m : ExecMsg} {msgs : List Msg}
    (h : handle w now sender funds m = .ok (w', msgs)) (hm : skelFree m = true) : proj13 w' = proj13 w := by
  unfold handle at h
  split at h; · cases h
  simp only [] at h
  cases m with
  | updateStageConfig u => exact absurd hm (by simp [skelFree])
  | addStage st ms => exact absurd hm (by simp [skelFree])
  | removeStage id => exact absurd hm (by simp [skelFree])
  | increaseMemberLimit n => exact absurd hm (by simp [skelFree])
  | updateAdmins l => exact absurd hm (by simp [skelFree])
  | freeze => exact absurd hm (by simp [skelFree])
  | unknown => cases h
  | updateStartTime t =>
    simp only [] at h; split at h
    · rename_i w0 hh; simp only [Except.ok.injEq, Prod.mk.injEq] at h; obtain ⟨rfl, _⟩ := h
      unfold updateStartTime at hh; split at hh; · cases hh
      split at hh; · cases hh
      split at hh; · cases hh
      simp only [Except.ok.injEq] at hh; subst hh; rfl
    · cases h
  | updateEndTime t =>
    simp only [] at h; split at h
    · rename_i w0 hh; simp only [Except.ok.injEq, Prod.mk.injEq] at h; obtain ⟨rfl, _⟩ := h
      unfold updateEndTime at hh; split at hh; · cases hh
      split at hh; · cases hh
      split at hh; · cases hh
      simp only [Except.ok.injEq] at hh; subst hh; rfl
    · cases h
  | updatePerAddressLimit n =>
    simp only [] at h; split at h
    · rename_i w0 hh; simp only [Except.ok.injEq, Prod.mk.injEq] at h; obtain ⟨rfl, _⟩ := h
      unfold updatePerAddressLimit at hh; split at hh; · cases hh
      split at hh; · cases hh
      simp only [Except.ok.injEq] at hh; subst hh; rfl
    · cases h
  | addMembers stage ms =>
    simp only [] at h; split at h
    · rename_i w0 hh; simp only [Except.ok.injEq, Prod.mk.injEq] at h; obtain ⟨rfl, _⟩ := h
      unfold addMembers at hh; split at hh; · cases hh
      simp only [] at hh
      split at hh
      · split at hh; · cases hh
        split at hh; · cases hh
        simp only [Except.ok.injEq] at hh; subst hh; rfl
      · split at hh; · cases hh
        simp only [Except.ok.injEq] at hh; subst hh; rfl
    · cases h
  | removeMembers stage as =>
    simp only [] at h; split at h
    · rename_i w0 hh; simp only [Except.ok.injEq, Prod.mk.injEq] at h; obtain ⟨rfl, _⟩ := h
      unfold removeMembers at hh; split at hh; · cases hh
      split at hh; · cases hh
      split at hh; · cases hh
      split at hh
      · split at hh; · cases hh
        split at hh; · cases hh
        simp only [Except.ok.injEq] at hh; subst hh; rfl
      · split at hh; · cases hh
        simp only [Except.ok.injEq] at hh; subst hh; rfl
    · cases h

theorem thousands_eq (n : Nat) : Tiered.thousands n = WlMembers.tiers n := rfl

/-- **one-step simulation for C13** (tiered kinds; every op but `instantiate`) -/
theorem step_sim13 {s : State} {w : Wl} (hw : s.wl = some w) (ht : Tier w.v) (op : Op)
    (hni : ∀ v sender funds self m, op ≠ .instantiate v sender funds self m) : Sim13 s w op := by
  cases op with
  | setTime t => exact ⟨w, hw, rfl, by simp [tr13, tiered_step'_unknown]⟩
  | fund a c => exact ⟨w, hw, rfl, by simp [tr13, tiered_step'_unknown]⟩
  | instantiate v sender funds self m => exact absurd rfl (hni v sender funds self m)
  | exec sender funds m =>
    rcases step'_cases s (.exec sender funds m) with ⟨s', hok, hs'⟩ | ⟨⟨e, herr⟩, hs'⟩
    · have hacc := accepted_of_ok hok
      have hok' := hok
      simp only [step] at hok'
      obtain ⟨w0, b1, w', msgs, b2, hw0, _, hh, _, rfl⟩ := execute_ok hok'
      rw [hw] at hw0; cases hw0
      have hv' := (handle_frame hh).2.1
      unfold Sim13
      rw [hs']
      refine ⟨w', rfl, hv', ?_⟩
      by_cases hfree : skelFree m = true
      · have : tr13 s (.exec sender funds m) = .unknown s.now (sh sender) := by
          simp only [tr13, hacc, if_true]
          cases m <;> first | rfl | simp [skelFree] at hfree
        rw [this, tiered_step'_unknown, handle_frame13 hh hfree]
      · -- the six skeleton messages
        have hh0 := hh
        unfold handle at hh
        split at hh; · cases hh
        rename_i hsup
        simp only [] at hh
        cases m with
        | updateStartTime t => exact absurd rfl hfree
        | updateEndTime t => exact absurd rfl hfree
        | updatePerAddressLimit n => exact absurd rfl hfree
        | addMembers stage ms => exact absurd rfl hfree
        | removeMembers stage as => exact absurd rfl hfree
        | unknown => exact absurd rfl hfree
        | freeze =>
          simp only [] at hh; split at hh
          · rename_i w1 hf; simp only [Except.ok.injEq, Prod.mk.injEq] at hh; obtain ⟨rfl, _⟩ := hh
            unfold freeze at hf
            split at hf; · cases hf
            rename_i h1
            simp only [Except.ok.injEq] at hf; subst hf
            have h1' : (w.mutable_ && isAdmin w sender) = true := by simpa [canModify] using h1
            simp only [tr13, hacc, if_true]
            rw [tiered_step'_ok (t_freeze_ok (P := proj13 w) (a := sh sender) (by rw [isAdmin_proj]; exact h1') s.now)]
            rfl
          · cases hh
        | updateAdmins l =>
          simp only [] at hh; split at hh
          · rename_i w1 hf; simp only [Except.ok.injEq, Prod.mk.injEq] at hh; obtain ⟨rfl, _⟩ := hh
            unfold updateAdmins at hf
            split at hf; · cases hf
            rename_i h1
            split at hf; · cases hf
            simp only [Except.ok.injEq] at hf; subst hf
            have h1' : (w.mutable_ && isAdmin w sender) = true := by simpa [canModify] using h1
            simp only [tr13, hacc, if_true]
            rw [tiered_step'_ok (t_updateAdmins_ok (P := proj13 w) (a := sh sender) (l := l.map sh)
              (by rw [isAdmin_proj]; exact h1') (all_valid_sh l) s.now)]
            rfl
          · cases hh
        | updateStageConfig u =>
          simp only [] at hh; split at hh
          · rename_i w1 hf; simp only [Except.ok.injEq, Prod.mk.injEq] at hh; obtain ⟨rfl, _⟩ := hh
            unfold updateStageConfig at hf
            split at hf; · cases hf
            rename_i h1
            split at hf; · cases hf
            rename_i old hold
            simp only [] at hf
            split at hf; · cases hf
            rename_i h3
            simp only [Except.ok.injEq] at hf; subst hf
            have h1' : isAdmin w sender = true := by simpa using h1
            have h3' : Tiered.validateUpdate w.v.kind13 (w.stages.set u.id (Tiered.applyUpdate w.v.kind13 old u)) = true := by
              simpa using h3
            simp only [tr13, hacc, if_true]
            rw [tiered_step'_ok (t_updateStage_ok (P := proj13 w) (a := sh sender) (u := u) (old := old)
              (by rw [isAdmin_proj]; exact h1') hold h3' s.now)]
            rfl
          · cases hh
        | increaseMemberLimit n =>
          simp only [] at hh
          have hst : w.v.store = .list := by
            simp only [supports, Variant.isList, Bool.not_eq_true', beq_eq_false_iff_ne, ne_eq, Decidable.not_not] at hsup
            cases hx : w.v.store <;> simp_all
          unfold increaseMemberLimit at hh
          simp only [] at hh
          split at hh; · cases hh
          rename_i hlim
          split at hh; · cases hh
          rename_i pay hpay
          split at hh; · cases hh
          rename_i hfee
          split at hh; · cases hh
          simp only [Except.ok.injEq, Prod.mk.injEq] at hh
          obtain ⟨rfl, _⟩ := hh
          have hlim' : (decide (w.memberLimit ≥ n) || decide (n > Tiered.maxMembers w.v.kind13)) = false := by
            rw [maxMembers_eq hst ht.1]
            cases hx : (decide (w.memberLimit ≥ n) || decide (n > w.v.kind11.maxMembers))
            · rfl
            · exact absurd hx hlim
          have hfee' : pay = WlMembers.upgradeFee w.v.kind11 w.memberLimit n := by
            rcases Nat.lt_trichotomy pay (WlMembers.upgradeFee w.v.kind11 w.memberLimit n) with x | x | x
            · exact absurd (Nat.ne_of_lt x) hfee
            · exact x
            · exact absurd (Nat.ne_of_gt x) hfee
          simp only [tr13, hacc, if_true]
          rw [tiered_step'_ok (t_increase_ok (listBased_ok hst) (P := proj13 w) (a := sh sender) (funds := funds) (n := n)
            (pay := pay) hlim' hpay (by rw [hfee', price_eq hst ht.1]; rfl) s.now)]
          rfl
        | addStage st ms =>
          have hst : w.v.store = .list := by
            simp only [supports, Variant.isList, Bool.not_eq_true', beq_eq_false_iff_ne, ne_eq, Decidable.not_not] at hsup
            cases hx : w.v.store <;> simp_all
          simp only [] at hh; split at hh
          · rename_i w1 hf; simp only [Except.ok.injEq, Prod.mk.injEq] at hh; obtain ⟨rfl, _⟩ := hh
            unfold addStage at hf
            split at hf; · cases hf
            rename_i h1
            split at hf; · cases hf
            rename_i h2
            simp only [] at hf
            split at hf; · cases hf
            rename_i h3
            split at hf; · cases hf
            simp only [Except.ok.injEq] at hf; subst hf
            have h1' : isAdmin w sender = true := by simpa using h1
            have h2' : w.stages.length < 3 := by simpa using h2
            have h3' : Tiered.validateStages w.v.kind13 s.now (w.stages ++ [Tiered.normStage w.v.kind13 st]) = true := by
              simpa using h3
            simp only [tr13, hacc, if_true]
            rw [tiered_step'_ok (t_addStage_ok (listBased_ok hst) (P := proj13 w) (a := sh sender) (st := st)
              (by rw [isAdmin_proj]; exact h1') h2' s.now h3')]
            congr 1
            apply state_ext <;> first | rfl | (intro j; simp [proj13])
          · cases hh
        | removeStage id =>
          have hst : w.v.store = .list := by
            simp only [supports, Variant.isList, Bool.not_eq_true', beq_eq_false_iff_ne, ne_eq, Decidable.not_not] at hsup
            cases hx : w.v.store <;> simp_all
          simp only [] at hh; split at hh
          · rename_i w1 hf; simp only [Except.ok.injEq, Prod.mk.injEq] at hh; obtain ⟨rfl, _⟩ := hh
            unfold removeStage at hf
            split at hf; · cases hf
            rename_i h1
            split at hf; · cases hf
            rename_i st0 hst0
            split at hf; · cases hf
            rename_i h3
            simp only [] at hf
            split at hf; · cases hf
            simp only [Except.ok.injEq] at hf; subst hf
            have h1' : isAdmin w sender = true := by simpa using h1
            simp only [tr13, hacc, if_true]
            rw [tiered_step'_ok (t_removeStage_ok (listBased_ok hst) (P := proj13 w) (a := sh sender) (id := id) (st := st0)
              rfl (by rw [isAdmin_proj]; exact h1') hst0 s.now (by omega))]
            congr 1
            apply state_ext <;> first | rfl | (intro j; simp only [proj13]; by_cases hc : id ≤ j ∧ j < w.stages.length <;> simp [hc])
          · cases hh
    · unfold Sim13
      rw [hs']
      refine ⟨w, hw, rfl, ?_⟩
      simp only [tr13, accepted_false_of_err herr, Bool.false_eq_true, if_false, tiered_step'_unknown]

/-! ## instantiate -/

theorem instStages_empty (whale : Option Nat) : ∀ (l : List Stage) (k : Nat) (cnt : Nat → Nat) (num : Nat),
    (∀ j, cnt j = 0) →
    ∃ cnt', Tiered.instStages whale l.length k (l.map fun _ => []) [] cnt num = .ok ([], cnt', num) ∧ ∀ j, cnt' j = 0 := by
  intro l
  induction l with
  | nil => intro k cnt num h; exact ⟨cnt, rfl, h⟩
  | cons x xs ih =>
    intro k cnt num h
    obtain ⟨cnt', h1, h2⟩ := ih (k + 1) (fun j => if j = k then 0 else cnt j) num
      (fun j => by by_cases hj : j = k <;> simp [hj, h j])
    refine ⟨cnt', ?_, h2⟩
    simp only [List.length_cons, List.map_cons, Tiered.instStages, Tiered.instLoop, Nat.add_zero]
    exact h1

theorem normStage_merkle (l : List Stage) : l.map (Tiered.normStage .merkle) = l := by
  induction l with
  | nil => rfl
  | cons x xs ih => simp only [List.map_cons, ih]; rfl

theorem map_sortDedup_empty (l : List Stage) :
    (l.map fun _ => ([] : List (Addr × Nat))).map Tiered.sortDedup = l.map fun _ => [] := by
  induction l with
  | nil => rfl
  | cons x xs ih => simp only [List.map_cons, ih]; rfl

theorem sum_len_empty (l : List Stage) : ((l.map fun _ => ([] : List (Addr × Nat))).map List.length).sum = 0 := by
  induction l with
  | nil => rfl
  | cons x xs ih => simp only [List.map_cons, List.sum_cons, ih]; rfl

theorem map_empty_norm (v : Tiered.Variant) (stages : List Stage) :
    ((stages.map (Tiered.normStage v)).map fun _ => ([] : List (Addr × Nat))) = stages.map fun _ => [] := by
  rw [List.map_map]; apply List.map_congr_left; intros; rfl

/-- aspect `instantiate` of a list kind with empty member lists, when every gate passes (`fee` abstract) -/
theorem t_instantiate_list_ok {v : Tiered.Variant} (hv : v ≠ .merkle) {now : Nat} {funds : List Coin} {limit fee : Nat}
    {whale : Option Nat} {admins : List Addr} {mu : Bool} {stages : List Stage} (roots : List Nat) (uriBad : Bool)
    (h1 : (limit == 0 || decide (limit > Tiered.maxMembers v)) = false)
    (h2 : Tiered.validateStages v now (stages.map (Tiered.normStage v)) = true)
    (h3 : mustPay funds NATIVE = .ok fee) (hfee : fee = Tiered.thousands limit * Tiered.pricePer1000 v)
    (h4 : (match (if v == .flex then whale else none) with | some w => decide (w > limit) | none => true) = true)
    (h5 : admins.all Tiered.validAddr = true) :
    ∃ cnt, (∀ j, cnt j = 0) ∧
      Tiered.instantiate v now funds limit whale admins mu stages (stages.map fun _ => []) roots uriBad =
        .ok { stages := stages.map (Tiered.normStage v), members := [], counts := cnt, num := 0, limit := limit,
              whale := (if v == .flex then whale else none), roots := [], admins := admins, mutable := mu } := by
  obtain ⟨cnt, hc1, hc2⟩ := instStages_empty (if v == .flex then whale else none) (stages.map (Tiered.normStage v)) 0
    (fun _ => 0) 0 (fun _ => rfl)
  rw [List.length_map, map_empty_norm] at hc1
  refine ⟨cnt, hc2, ?_⟩
  have hfee' : (fee == Tiered.thousands limit * Tiered.pricePer1000 v) = true := by rw [hfee]; exact beq_self_eq_true _
  cases v with
  | merkle => exact absurd rfl hv
  | plain =>
    have e1 : (Tiered.Variant.plain == Tiered.Variant.flex) = false := rfl
    have e2 : (Tiered.Variant.plain == Tiered.Variant.plain) = true := rfl
    simp only [e1, Bool.false_eq_true, if_false] at hc1 h4 ⊢
    simp only [Tiered.instantiate]
    simp only [↓Tiered.ofBool_bind_ok, Tiered.bind_ok, Tiered.pure_ok, e1, e2, if_true, Bool.false_eq_true, if_false]
    refine ⟨by simpa using h1, h2, by simp, fee, h3, hfee', by simp, h5, ?_, ([], cnt, 0), ?_, ?_⟩
    · rw [map_sortDedup_empty, sum_len_empty]; simp
    · rw [map_sortDedup_empty, List.length_map]; exact hc1
    · rw [map_sortDedup_empty, sum_len_empty]
  | flex =>
    have e1 : (Tiered.Variant.flex == Tiered.Variant.flex) = true := rfl
    have e2 : (Tiered.Variant.flex == Tiered.Variant.plain) = false := rfl
    simp only [e1, if_true] at hc1 h4 ⊢
    simp only [Tiered.instantiate]
    simp only [↓Tiered.ofBool_bind_ok, Tiered.bind_ok, Tiered.pure_ok, e1, e2, if_true, Bool.false_eq_true, if_false]
    refine ⟨by simpa using h1, h2, by simp, fee, h3, hfee', h4, h5, ?_, ([], cnt, 0), ?_, rfl⟩
    · rw [sum_len_empty]; simp
    · rw [List.length_map]; exact hc1

/-- aspect `instantiate` of the tiered Merkle kind when every gate passes -/
theorem t_instantiate_merkle_ok {now : Nat} {funds : List Coin} {limit : Nat} {whale : Option Nat} {admins : List Addr}
    {mu : Bool} {stages : List Stage} {members : List (List (Addr × Nat))} {roots : List Nat} {fee : Nat}
    (h2 : Tiered.validateStages .merkle now stages = true)
    (h3 : mustPay funds NATIVE = .ok fee) (hfee : fee = Gen.tiered_whitelist_merkletree_CREATION_FEE)
    (h5 : admins.all Tiered.validAddr = true) :
    Tiered.instantiate .merkle now funds limit whale admins mu stages members roots false =
      .ok { stages := stages, members := [], counts := fun _ => 0, num := 0, limit := 0, whale := none,
            roots := roots, admins := admins, mutable := mu } := by
  have hfee' : (fee == Gen.tiered_whitelist_merkletree_CREATION_FEE) = true := by rw [hfee]; exact beq_self_eq_true _
  simp only [Tiered.instantiate, normStage_merkle]
  simp only [↓Tiered.ofBool_bind_ok, Tiered.bind_ok, Tiered.pure_ok]
  exact ⟨by simp, fee, h3, hfee', h2, h5, trivial⟩

/-- **instantiate, tiered kinds**: an accepted composite instantiate IS an accepted aspect `inst` (member lists emptied), whatever
the aspect world was before, and the new contract projects onto the state it creates -/
theorem inst_sim13 {s s' : State} {v : Variant} (ht : Tier v) {sender self : Addr} {funds : List Coin} {m : InstMsg}
    (h : step s (.instantiate v sender funds self m) = .ok s') (W : Tiered.World) :
    ∃ w, s'.wl = some w ∧ w.v = v ∧
      Tiered.step v.kind13 W (tr13 s (.instantiate v sender funds self m)) = .ok (some (proj13 w)) := by
  have hacc := accepted_of_ok h
  simp only [step] at h
  obtain ⟨b1, w, msgs, b2, hb1, hi, ha, rfl⟩ := instantiateTx_ok h
  refine ⟨w, rfl, (instantiateWl_v hi).1, ?_⟩
  simp only [tr13, hacc, if_true, Tiered.step]
  cases hst : v.store with
  | immutable => exact absurd hst ht.2
  | list =>
    simp only [instantiateWl, hst] at hi
    obtain ⟨hlim, hg, hlen, hpay, _, _, htail⟩ := instListKind_ok hi
    simp only [ht.1, if_true] at htail
    obtain ⟨gs, num, _, _, rfl⟩ := htail
    simp only [instGates, ht.1, if_true, Bool.and_eq_true, Bool.or_true, Bool.true_or] at hg
    obtain ⟨⟨⟨_, hval⟩, _⟩, hwh⟩ := hg
    have hk13 := kind13_list hst
    have hne : v.kind13 ≠ .merkle := by rw [hk13]; cases v.flex <;> simp
    have h1 : (m.memberLimit == 0 || decide (m.memberLimit > Tiered.maxMembers v.kind13)) = false := by
      rw [maxMembers_eq hst ht.1]
      cases hx : (m.memberLimit == 0 || decide (m.memberLimit > v.kind11.maxMembers)) with
      | false => rfl
      | true =>
        exfalso; apply hlim
        simp only [Bool.or_eq_true, beq_iff_eq, decide_eq_true_eq] at hx; exact hx
    have h4 : (match (if v.kind13 == .flex then m.whaleCap else none) with
        | some w => decide (w > m.memberLimit) | none => true) = true := by
      rw [hk13]
      cases hfx : v.flex with
      | false => simp
      | true =>
        rw [hfx] at hwh
        cases hwc : m.whaleCap with
        | none => simp
        | some c => rw [hwc] at hwh; simpa using hwh
    obtain ⟨cnt, hc, hex⟩ := t_instantiate_list_ok hne (now := s.now) (funds := funds) (limit := m.memberLimit)
      (fee := WlMembers.creationFee v.kind11 m.memberLimit) (whale := m.whaleCap) (admins := m.admins.map sh)
      (mu := m.adminsMutable) (stages := m.stages) (m.roots.map rootNat) (!m.uriOk) h1 hval hpay
      (by rw [price_eq hst ht.1]; rfl) h4 (all_valid_sh _)
    rw [hex]
    simp only [Except.map, Except.ok.injEq, Option.some.injEq]
    apply state_ext <;> first | rfl | (intro j; exact hc j) | skip
    · show (if v.kind13 == .flex then m.whaleCap else none) = WlMembers.effWhale v.kind11 m.whaleCap
      rw [hk13]
      obtain ⟨st, f, t⟩ := v
      simp only at hst; subst hst
      cases f <;> cases t <;> rfl
  | merkle =>
    simp only [instantiateWl, hst] at hi
    obtain ⟨_, _, huri, hpay, hsch, _, _, hw⟩ := instMerkle_ok hi
    simp only [ht.1, if_true] at hsch hw
    subst hw
    rw [kind13_merkle hst] at hsch ⊢
    have hfee : v.merkleFee = Gen.tiered_whitelist_merkletree_CREATION_FEE := by simp [Variant.merkleFee, ht.1]
    rw [huri]
    simp only [Bool.not_true]
    rw [t_instantiate_merkle_ok (fee := v.merkleFee) hsch hpay hfee (all_valid_sh _)]
    rfl

/-- what every op but `instantiate` does to the observed contract: it stays the same contract (address, crate) -/
theorem step'_wl (s : State) (op : Op) (hni : ∀ v sender funds self m, op ≠ .instantiate v sender funds self m) :
    (s.wl = none → (step' s op).wl = none) ∧
    (∀ w, s.wl = some w → ∃ w', (step' s op).wl = some w' ∧ w'.v = w.v ∧ w'.self = w.self) := by
  rcases step'_cases s op with ⟨s', hok, hs'⟩ | ⟨_, hs'⟩
  · rw [hs']
    cases op with
    | setTime t => simp only [step, Except.ok.injEq] at hok; subst hok; exact ⟨fun h => h, fun w h => ⟨w, h, rfl, rfl⟩⟩
    | fund a c => simp only [step, Except.ok.injEq] at hok; subst hok; exact ⟨fun h => h, fun w h => ⟨w, h, rfl, rfl⟩⟩
    | instantiate v sender funds self m => exact absurd rfl (hni v sender funds self m)
    | exec sender funds m =>
      simp only [step] at hok
      obtain ⟨w0, b1, w1, msgs, b2, hw0, _, hh, _, rfl⟩ := execute_ok hok
      refine ⟨fun h => (by rw [h] at hw0; cases hw0), fun w h => ?_⟩
      rw [hw0] at h; cases h
      exact ⟨w1, rfl, (handle_frame hh).2.1, (handle_frame hh).1⟩
  · rw [hs']; exact ⟨fun h => h, fun w h => ⟨w, h, rfl, rfl⟩⟩

theorem step'_now (s : State) (op : Op) : (step' s op).now = (match op with | .setTime t => t | _ => s.now) := by
  rcases step'_cases s op with ⟨s', hok, hs'⟩ | ⟨_, hs'⟩
  · rw [hs']
    cases op with
    | setTime t => simp only [step, Except.ok.injEq] at hok; subst hok; rfl
    | fund a c => simp only [step, Except.ok.injEq] at hok; subst hok; rfl
    | instantiate v sender funds self m =>
      simp only [step] at hok; obtain ⟨_, _, _, _, _, _, _, rfl⟩ := instantiateTx_ok hok; rfl
    | exec sender funds m =>
      simp only [step] at hok; obtain ⟨_, _, _, _, _, _, _, _, _, rfl⟩ := execute_ok hok; rfl
  · rw [hs']
    cases op with
    | setTime t => rename_i h; obtain ⟨e, he⟩ := h; simp [step] at he
    | _ => rfl


end LP.WF
