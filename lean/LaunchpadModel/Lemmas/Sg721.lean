import LaunchpadModel.Model.Sg721
/-!
# Helper lemmas about the collection model (`Model/Sg721.lean`) used by `Props/C09.lean`

* characterisation of the `ensure` / `withSome` combinators (`… = .ok x ↔ …`)
* the token table as an association list: `find?` after `setToken` / `removeToken` / append
* the one-step *token effect* lemma `step_tokens`: every successful step either leaves the token table alone,
  replaces one existing token by a token with the same id, removes one existing token, or is a mint by the
  current minter of an absent id.
-/
namespace LP.Sg721
open LP

@[simp] theorem ensure_ok {α : Type} (c : Bool) (e : Err) (k : Except Err α) (x : α) :
    ensure c e k = .ok x ↔ c = true ∧ k = .ok x := by
  unfold ensure; cases c <;> simp

@[simp] theorem withSome_ok {α β : Type} (o : Option β) (e : Err) (k : β → Except Err α) (x : α) :
    withSome o e k = .ok x ↔ ∃ b, o = some b ∧ k b = .ok x := by
  unfold withSome; cases o <;> simp

/-! ## the token table -/

theorem find?_some {s : State} {id : Nat} {t : Token} (h : s.find? id = some t) : t ∈ s.tokens ∧ t.id = id := by
  unfold State.find? at h
  have h1 := List.mem_of_find?_eq_some h
  have h2 := List.find?_some h
  exact ⟨h1, by simpa using h2⟩

theorem find?_none_iff (s : State) (id : Nat) : s.find? id = none ↔ id ∉ s.ids := by
  unfold State.find? State.ids
  rw [List.find?_eq_none]
  simp only [decide_eq_true_eq, List.mem_map, not_exists, not_and]

theorem find?_isSome_iff (s : State) (id : Nat) : (s.find? id).isSome ↔ id ∈ s.ids := by
  cases h : s.find? id with
  | none => simp [(find?_none_iff s id).1 h]
  | some t =>
    simp only [Option.isSome_some, true_iff]
    have := find?_some h
    unfold State.ids
    exact List.mem_map.2 ⟨t, this.1, this.2⟩

theorem mem_ids_of_find? {s : State} {id : Nat} {t : Token} (h : s.find? id = some t) : id ∈ s.ids := by
  rw [← find?_isSome_iff, h]; rfl

/-- list-level `find?` after replacing the tokens with id `t.id` by `t` -/
theorem list_find?_set (l : List Token) (t : Token) (id : Nat) :
    (l.map fun x => if x.id = t.id then t else x).find? (fun x => decide (x.id = id))
      = if id = t.id then (l.find? (fun x => decide (x.id = id))).map (fun _ => t)
        else l.find? (fun x => decide (x.id = id)) := by
  induction l with
  | nil => simp
  | cons x xs ih =>
    simp only [List.map_cons, List.find?_cons]
    by_cases hx : x.id = t.id
    · simp only [hx, if_true]
      by_cases hi : id = t.id
      · simp [hi]
      · have : ¬ t.id = id := fun e => hi e.symm
        simp only [this, decide_false, hi, if_false]
        rw [ih]; simp [hi]
    · simp only [hx, if_false]
      by_cases hi : id = t.id
      · have : ¬ x.id = id := by rw [hi]; exact hx
        simp only [this, decide_false]
        rw [ih]
      · by_cases hxi : x.id = id
        · simp [hxi, hi]
        · simp only [hxi, decide_false]
          rw [ih]

theorem find?_setToken (s : State) (t : Token) (id : Nat) :
    (s.setToken t).find? id = if id = t.id then (s.find? id).map (fun _ => t) else s.find? id := by
  unfold State.setToken State.find?
  exact list_find?_set s.tokens t id

theorem ids_setToken (s : State) (t : Token) : (s.setToken t).ids = s.ids := by
  unfold State.setToken State.ids
  simp only [List.map_map]
  apply List.map_congr_left
  intro x _
  simp only [Function.comp]
  split <;> simp_all

theorem length_setToken (s : State) (t : Token) : (s.setToken t).tokens.length = s.tokens.length := by
  unfold State.setToken; simp

theorem list_find?_remove (l : List Token) (id' id : Nat) :
    (l.filter fun x => !decide (x.id = id')).find? (fun x => decide (x.id = id))
      = if id = id' then none else l.find? (fun x => decide (x.id = id)) := by
  induction l with
  | nil => simp
  | cons x xs ih =>
    simp only [List.filter_cons]
    by_cases hx : x.id = id'
    · simp only [hx, decide_true, Bool.not_true, Bool.false_eq_true, if_false, List.find?_cons]
      by_cases hi : id = id'
      · simp [hi] at ih ⊢
      · have : ¬ id' = id := fun e => hi e.symm
        simp only [this, decide_false]
        rw [ih]
    · simp only [hx, decide_false, Bool.not_false, if_true, List.find?_cons]
      by_cases hi : id = id'
      · have : ¬ x.id = id := by rw [hi]; exact hx
        simp only [this, decide_false]
        rw [ih]
      · by_cases hxi : x.id = id
        · simp [hxi, hi]
        · simp only [hxi, decide_false]
          rw [ih]

theorem find?_removeToken (s : State) (id' id : Nat) :
    (s.removeToken id').find? id = if id = id' then none else s.find? id := by
  unfold State.removeToken State.find?
  exact list_find?_remove s.tokens id' id

theorem ids_removeToken (s : State) (id : Nat) : (s.removeToken id).ids = s.ids.filter (fun x => !decide (x = id)) := by
  unfold State.removeToken State.ids
  simp only [List.filter_map]
  rfl

/-- in a duplicate-free table removing the token with a present id shortens the table by exactly one -/
theorem length_remove (l : List Token) (id : Nat) (hn : (l.map (·.id)).Nodup) (hm : id ∈ l.map (·.id)) :
    (l.filter fun x => !decide (x.id = id)).length + 1 = l.length := by
  induction l with
  | nil => simp at hm
  | cons x xs ih =>
    simp only [List.map_cons, List.nodup_cons] at hn
    simp only [List.map_cons, List.mem_cons] at hm
    simp only [List.filter_cons]
    by_cases hx : x.id = id
    · simp only [hx, decide_true, Bool.not_true, Bool.false_eq_true, if_false, List.length_cons]
      have : id ∉ xs.map (·.id) := by rw [← hx]; exact hn.1
      have hall : xs.filter (fun x => !decide (x.id = id)) = xs := by
        apply List.filter_eq_self.2
        intro y hy
        have : y.id ≠ id := fun e => this (List.mem_map.2 ⟨y, hy, e⟩)
        simp [this]
      rw [hall]
    · simp only [hx, decide_false, Bool.not_false, if_true, List.length_cons]
      have hm' : id ∈ xs.map (·.id) := by
        rcases hm with h | h
        · exact absurd h.symm hx
        · exact h
      rw [ih hn.2 hm']

theorem find?_append_of_mem (s : State) (x : Token) (id : Nat) (h : id ∈ s.ids) :
    (s.tokens ++ [x]).find? (fun t => decide (t.id = id)) = s.find? id := by
  have hs := (find?_isSome_iff s id).2 h
  unfold State.find? at hs ⊢
  rw [List.find?_append]
  cases hh : s.tokens.find? (fun t => decide (t.id = id)) with
  | none => rw [hh] at hs; simp at hs
  | some t => simp

/-! ## state invariant: `token_count` = number of tokens, ids unique -/

def SInv (s : State) : Prop := s.count = s.tokens.length ∧ s.ids.Nodup

/-! ## Inversion of `exec`: the relational reading of a successful message -/

/-- `Eff s b sender funds m s'`: message `m` from `sender` (with `funds`, in block `b`) takes `s` to `s'`.
One constructor per successful path of `execMsg`; `exec_eff` shows every successful `exec` is one of them. -/
inductive Eff (s : State) (b : Block) (sender : Addr) (funds : List Coin) : ExecMsg → State → Prop
  | transfer (r : Addr) (id : Nat) (t : Token) :
      s.find? id = some t → canSend s b sender t = true → validAddr r = true →
      Eff s b sender funds (.transferNft r id) (s.setToken { t with owner := r, approvals := [] })
  | send (r : Addr) (id : Nat) (t : Token) :
      s.find? id = some t → canSend s b sender t = true → validAddr r = true →
      Eff s b sender funds (.sendNft r id true) (s.setToken { t with owner := r, approvals := [] })
  | approve (sp : Addr) (id : Nat) (ex : Option Exp) (t : Token) :
      s.find? id = some t → canApprove s b sender t = true → validAddr sp = true →
      (ex.getD .never).isExpired b = false →
      Eff s b sender funds (.approve sp id ex)
        (s.setToken { t with approvals := t.approvals.filter (fun a => !decide (a.spender = sp)) ++ [⟨sp, ex.getD .never⟩] })
  | revoke (sp : Addr) (id : Nat) (t : Token) :
      s.find? id = some t → canApprove s b sender t = true → validAddr sp = true →
      Eff s b sender funds (.revoke sp id)
        (s.setToken { t with approvals := t.approvals.filter (fun a => !decide (a.spender = sp)) })
  | approveAll (o : Addr) (ex : Option Exp) :
      (ex.getD .never).isExpired b = false → validAddr o = true →
      Eff s b sender funds (.approveAll o ex)
        { s with operators := dropOperator s.operators sender o ++ [⟨sender, o, ex.getD .never⟩] }
  | revokeAll (o : Addr) :
      validAddr o = true →
      Eff s b sender funds (.revokeAll o) { s with operators := dropOperator s.operators sender o }
  | mint (id : Nat) (owner : Addr) (uri : Option Nat) (ext : Nat) :
      s.ownership.owner = some sender → validAddr owner = true → s.find? id = none →
      Eff s b sender funds (.mint id owner uri ext)
        { s with tokens := s.tokens ++ [⟨id, owner, [], uri, if s.kind = .onchain then ext else 0⟩], count := s.count + 1 }
  | burn (id : Nat) (t : Token) :
      s.find? id = some t → canSend s b sender t = true →
      Eff s b sender funds (.burn id) (s.removeToken id)
  | updateInfo (u : UpdateInfo) (racc : Bool) (info' : Info) (rua' : Nat) :
      s.frozenInfo = false → s.info.creator = sender → info'.startTradingTime = s.info.startTradingTime →
      Eff s b sender funds (.updateCollectionInfo u racc) { s with info := info', royaltyUpdatedAt := rua' }
  | ustt (t : Option Nat) :
      s.ownership.owner = some sender →
      Eff s b sender funds (.updateStartTradingTime t) { s with info := { s.info with startTradingTime := t } }
  | freeze :
      s.info.creator = sender →
      Eff s b sender funds .freezeCollectionInfo { s with frozenInfo := true }
  | ownTransfer (n : Addr) (ex : Option Exp) :
      s.ownership.owner = some sender → validAddr n = true →
      Eff s b sender funds (.updateOwnership (.transfer n ex)) { s with ownership := ⟨s.ownership.owner, some n, ex⟩ }
  | ownAccept :
      s.ownership.pending = some sender →
      (∀ e, s.ownership.pendingExpiry = some e → e.isExpired b = false) →
      Eff s b sender funds (.updateOwnership .accept) { s with ownership := ⟨some sender, none, none⟩ }
  | ownRenounce :
      s.ownership.owner = some sender →
      Eff s b sender funds (.updateOwnership .renounce) { s with ownership := ⟨none, none, none⟩ }
  | freezeMeta :
      funds = [] → s.info.creator = sender →
      Eff s b sender funds .freezeTokenMetadata { s with frozenMeta := true }
  | utm (id : Nat) (uri : Option Nat) (t : Token) :
      funds = [] → s.info.creator = sender → s.frozenMeta = false → s.updEnabled = true → s.find? id = some t →
      Eff s b sender funds (.updateTokenMetadata id uri) (s.setToken { t with uri := uri })
  | enable :
      s.updEnabled = false → s.info.creator = sender →
      Eff s b sender funds .enableUpdatable { s with updEnabled := true }

theorem isMinter_iff (s : State) (a : Addr) : isMinter s a = true ↔ s.ownership.owner = some a := by
  unfold isMinter; simp

/-- every successful `exec` is one of the `Eff` cases, on a message the collection's enum contains -/
theorem exec_eff {s s' : State} {c : Call} (h : exec s c = .ok s') :
    supported s.kind c.msg = true ∧ Eff s c.block c.sender c.funds c.msg s' := by
  obtain ⟨b, sender, funds, msg⟩ := c
  cases msg <;>
    simp only [exec, execMsg, execTransfer, execSend, execApprove, execApproveAll, execRevokeAll, execBurn, execMint,
      execUpdateOwnership, execUpdateCollectionInfo, execUpdateStartTradingTime, execFreezeCollectionInfo,
      execFreezeTokenMetadata, execUpdateTokenMetadata, execEnableUpdatable, ensure_ok, withSome_ok,
      Except.ok.injEq, reduceCtorEq, and_false, isMinter_iff, decide_eq_true_eq, Bool.not_eq_true',
      if_true, Bool.false_eq_true, if_false, Option.isNone_iff_eq_none, List.isEmpty_iff] at h
  case transferNft r id =>
    obtain ⟨hs, t, hf, hc, hv, rfl⟩ := h
    exact ⟨hs, .transfer r id t hf hc hv⟩
  case sendNft r id ok =>
    obtain ⟨hs, rfl, t, hf, hc, hv, rfl⟩ := h
    exact ⟨hs, .send r id t hf hc hv⟩
  case approve sp id ex =>
    obtain ⟨hs, t, hf, hc, hv, he, rfl⟩ := h
    exact ⟨hs, .approve sp id ex t hf hc hv he⟩
  case revoke sp id =>
    obtain ⟨hs, t, hf, hc, hv, rfl⟩ := h
    exact ⟨hs, .revoke sp id t hf hc hv⟩
  case approveAll o ex =>
    obtain ⟨hs, he, hv, rfl⟩ := h
    exact ⟨hs, .approveAll o ex he hv⟩
  case revokeAll o =>
    obtain ⟨hs, hv, rfl⟩ := h
    exact ⟨hs, .revokeAll o hv⟩
  case mint id owner uri ext =>
    obtain ⟨hs, hm, hv, hn, rfl⟩ := h
    exact ⟨hs, .mint id owner uri ext hm hv hn⟩
  case burn id =>
    obtain ⟨hs, t, hf, hc, rfl⟩ := h
    exact ⟨hs, .burn id t hf hc⟩
  case updateCollectionInfo u racc =>
    obtain ⟨hs, hfz, hcr, -, -, -, -, h⟩ := h
    split at h
    · simp only [ensure_ok, Except.ok.injEq] at h
      obtain ⟨-, rfl⟩ := h
      exact ⟨hs, .updateInfo u racc _ _ hfz hcr rfl⟩
    · simp only [Except.ok.injEq] at h
      subst h
      exact ⟨hs, .updateInfo u racc _ _ hfz hcr rfl⟩
  case updateStartTradingTime t =>
    obtain ⟨hs, hm, rfl⟩ := h
    exact ⟨hs, .ustt t hm⟩
  case freezeCollectionInfo =>
    obtain ⟨hs, hc, rfl⟩ := h
    exact ⟨hs, .freeze hc⟩
  case updateOwnership a =>
    obtain ⟨hs, h⟩ := h
    cases a with
    | transfer n ex =>
      simp only [ensure_ok, Except.ok.injEq, isMinter_iff] at h
      obtain ⟨hm, hv, rfl⟩ := h
      exact ⟨hs, .ownTransfer n ex hm hv⟩
    | accept =>
      simp only [ensure_ok, Except.ok.injEq, decide_eq_true_eq] at h
      obtain ⟨hp, he, rfl⟩ := h
      rw [hp]
      refine ⟨hs, .ownAccept hp ?_⟩
      intro e hpe
      rw [hpe] at he
      simpa using he
    | renounce =>
      simp only [ensure_ok, Except.ok.injEq, isMinter_iff] at h
      obtain ⟨hm, rfl⟩ := h
      exact ⟨hs, .ownRenounce hm⟩
  case freezeTokenMetadata =>
    obtain ⟨hs, hfu, hc, rfl⟩ := h
    exact ⟨hs, .freezeMeta hfu hc⟩
  case updateTokenMetadata id uri =>
    obtain ⟨hs, hfu, hc, hfm, hue, t, hf, rfl⟩ := h
    exact ⟨hs, .utm id uri t hfu hc hfm hue hf⟩
  case enableUpdatable =>
    obtain ⟨hs, hue, hc, h⟩ := h
    split at h
    · simp only [Except.ok.injEq] at h
      subst h
      exact ⟨hs, .enable hue hc⟩
    · exact absurd h (by simp)

/-- `exec_eff` with the call taken apart (so that `cases` on the `Eff` proof can unify the message index) -/
theorem exec_eff' {s s' : State} {b : Block} {sender : Addr} {funds : List Coin} {msg : ExecMsg}
    (h : exec s ⟨b, sender, funds, msg⟩ = .ok s') :
    supported s.kind msg = true ∧ Eff s b sender funds msg s' := exec_eff h

/-! ## Inversion of the non-message steps (migrations, the version environment step) -/

/-- `AdminEff s op s'`: the non-message operation `op` takes `s` to `s'`. One constructor per successful path. -/
inductive AdminEff (s : State) : Op → State → Prop
  | setVersion (v : Semver.Version) : AdminEff s (.setVersion v) { s with ver := v }
  /-- to the sg721-updatable code: only from an sg721-base / sg721-updatable name; the two flags are re-initialised
  ONLY when coming from sg721-base -/
  | toUpdatable (now : Nat) (rua' : Nat) :
      (s.kind = .base ∨ s.kind = .updatable) →
      AdminEff s (.migrate .updatable now)
        { s with kind := .updatable,
                 frozenMeta := if s.kind = .base then false else s.frozenMeta,
                 updEnabled := if s.kind = .base then false else s.updEnabled,
                 royaltyUpdatedAt := rua', ver := codeVersion .updatable }
  | onchainSelf (now : Nat) (v' : Semver.Version) :
      s.kind = .onchain → AdminEff s (.migrate .onchain now) { s with ver := v' }
  | ntSelf (now : Nat) : s.kind = .nt → AdminEff s (.migrate .nt now) s

/-- every successful step is a successful message or one of the `AdminEff` cases -/
theorem step_cases {s s' : State} {op : Op} (h : step s op = .ok s') :
    (∃ c, op = .exec c ∧ exec s c = .ok s') ∨ AdminEff s op s' := by
  cases op with
  | exec c => exact .inl ⟨c, rfl, h⟩
  | setVersion v =>
    simp only [step, Except.ok.injEq] at h
    subst h
    exact .inr (.setVersion v)
  | migrate target now =>
    right
    cases target with
    | base => simp [step, migrateTo] at h
    | updatable =>
      simp only [step, migrateTo, migrateToUpdatable, ensure_ok, Except.ok.injEq, Bool.or_eq_true,
        decide_eq_true_eq] at h
      obtain ⟨hk, -, -, -, -, -, rfl⟩ := h
      exact .toUpdatable now _ hk
    | onchain =>
      simp only [step, migrateTo, migrateOnchainSelf, ensure_ok, decide_eq_true_eq] at h
      obtain ⟨hk, -, -, h⟩ := h
      split at h
      · simp only [Except.ok.injEq] at h
        subst h
        exact .onchainSelf now s.ver hk
      · simp only [ensure_ok, Except.ok.injEq] at h
        obtain ⟨-, rfl⟩ := h
        exact .onchainSelf now _ hk
    | nt =>
      simp only [step, migrateTo, migrateNtSelf, ensure_ok, Except.ok.injEq, decide_eq_true_eq] at h
      obtain ⟨hk, -, rfl⟩ := h
      exact .ntSelf now hk

/-- no non-message step touches tokens, count, operators, ownership, collection info or the info freeze flag -/
theorem admin_frame {s s' : State} {op : Op} (a : AdminEff s op s') :
    s'.tokens = s.tokens ∧ s'.count = s.count ∧ s'.operators = s.operators ∧ s'.ownership = s.ownership ∧
    s'.info = s.info ∧ s'.frozenInfo = s.frozenInfo := by
  cases a <;> exact ⟨rfl, rfl, rfl, rfl, rfl, rfl⟩

theorem admin_find? {s s' : State} {op : Op} (a : AdminEff s op s') (id : Nat) : s'.find? id = s.find? id := by
  unfold State.find?; rw [(admin_frame a).1]

theorem admin_ids {s s' : State} {op : Op} (a : AdminEff s op s') : s'.ids = s.ids := by
  unfold State.ids; rw [(admin_frame a).1]

end LP.Sg721
