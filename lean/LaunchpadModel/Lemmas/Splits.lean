import LaunchpadModel.Model.Splits
/-!
# Helper lemmas for C15 (bank, payment execution, payment sums, group well-formedness). Core Lean only.
-/
namespace LP.Splits
open LP

theorem bal_setBal (b : Bank) (a : Addr) (d : Denom) (v : Nat) (a' : Addr) (d' : Denom) :
    bal (setBal b a d v) a' d' = if a = a' ∧ d = d' then v else bal b a' d' := by
  induction b with
  | nil => simp [setBal, bal]
  | cons e r ih =>
    obtain ⟨k, n⟩ := e
    simp only [setBal]
    split
    · subst_vars; simp [bal]; grind
    · simp only [bal, ih]; grind

theorem bal_le_supply (b : Bank) (a : Addr) (d : Denom) : bal b a d ≤ supply b d := by
  induction b with
  | nil => simp [bal]
  | cons e r ih =>
    obtain ⟨k, n⟩ := e
    simp only [bal, supply]
    split
    · subst_vars; simp
    · omega

theorem supply_setBal (b : Bank) (a : Addr) (d : Denom) (v : Nat) (d' : Denom) :
    supply (setBal b a d v) d' + (if d = d' then bal b a d else 0) = supply b d' + (if d = d' then v else 0) := by
  induction b with
  | nil => simp [setBal, supply, bal]
  | cons e r ih =>
    obtain ⟨k, n⟩ := e
    simp only [setBal, bal]
    split
    · subst_vars; simp [supply]; split <;> omega
    · simp only [supply]; omega

theorem bal_credit (b : Bank) (a : Addr) (d : Denom) (n : Nat) (a' : Addr) (d' : Denom) :
    bal (credit b a d n) a' d' = bal b a' d' + (if a = a' ∧ d = d' then n else 0) := by
  unfold credit; rw [bal_setBal]; split
  · next h => obtain ⟨rfl, rfl⟩ := h; rfl
  · rfl

theorem supply_credit (b : Bank) (a : Addr) (d : Denom) (n : Nat) (d' : Denom) :
    supply (credit b a d n) d' = supply b d' + (if d = d' then n else 0) := by
  have h := supply_setBal b a d (bal b a d + n) d'
  unfold credit; by_cases hd : d = d' <;> simp [hd] at h ⊢ <;> omega

theorem debit_some {b : Bank} {a : Addr} {d : Denom} {n : Nat} {b' : Bank} (h : debit b a d n = some b') :
    n ≤ bal b a d ∧ (∀ a' d', bal b' a' d' + (if a = a' ∧ d = d' then n else 0) = bal b a' d') ∧
    (∀ d', supply b' d' + (if d = d' then n else 0) = supply b d') := by
  unfold debit at h
  split at h
  · simp at h
  · next hlt =>
    simp at h; subst h
    refine ⟨by omega, ?_, ?_⟩
    · intro a' d'; rw [bal_setBal]; split
      · next h => obtain ⟨rfl, rfl⟩ := h; omega
      · rfl
    · intro d'
      have h1 := supply_setBal b a d (bal b a d - n) d'
      have h2 := bal_le_supply b a d
      by_cases hd : d = d'
      · subst hd; simp at h1 ⊢; omega
      · simp [hd] at h1 ⊢; omega

theorem debit_isSome {b : Bank} {a : Addr} {d : Denom} {n : Nat} (h : n ≤ bal b a d) : ∃ b', debit b a d n = some b' := by
  unfold debit; split
  · omega
  · exact ⟨_, rfl⟩

/-- amount of denom `d` in a coin list -/
def coinSum (d : Denom) : List Coin → Nat
  | [] => 0
  | c :: cs => (if c.denom = d then c.amount else 0) + coinSum d cs

theorem supply_creditAll (b : Bank) (a : Addr) (cs : List Coin) (d : Denom) :
    supply (creditAll b a cs) d = supply b d + coinSum d cs := by
  induction cs generalizing b with
  | nil => simp [creditAll, coinSum]
  | cons c cs ih => simp only [creditAll, coinSum, ih, supply_credit]; omega

theorem supply_debitAll {b : Bank} {a : Addr} {cs : List Coin} {b' : Bank} (h : debitAll b a cs = some b') (d : Denom) :
    supply b' d + coinSum d cs = supply b d := by
  induction cs generalizing b with
  | nil => simp [debitAll] at h; subst h; simp [coinSum]
  | cons c cs ih =>
    simp only [debitAll] at h
    split at h
    · simp at h
    · next b1 hd =>
      have := ih h
      have h2 := (debit_some hd).2.2 d
      simp only [coinSum]; omega

theorem coinSum_filter (cs : List Coin) (d : Denom) : coinSum d (cs.filter (fun c => c.amount != 0)) = coinSum d cs := by
  induction cs with
  | nil => rfl
  | cons c cs ih =>
    by_cases hc : c.amount = 0
    · simp [List.filter, hc, coinSum, ih]
    · have hb : (c.amount != 0) = true := by simp [hc]
      simp only [List.filter, hb, coinSum, ih]

theorem coinSum_normalize {cs cs' : List Coin} (h : normalize cs = some cs') (d : Denom) : coinSum d cs' = coinSum d cs := by
  unfold normalize at h
  simp only [] at h
  split at h
  · simp at h
  · simp at h; subst h; exact coinSum_filter cs d

theorem supply_sendCoins {b : Bank} {src dst : Addr} {coins : List Coin} {b' : Bank}
    (h : sendCoins b src dst coins = some b') (d : Denom) : supply b' d = supply b d := by
  unfold sendCoins at h
  split at h
  · simp at h
  · split at h
    · simp at h
    · next cs _ b1 hd =>
      simp at h; subst h
      rw [supply_creditAll]; have := supply_debitAll hd d; omega

theorem supply_mintCoins {b : Bank} {dst : Addr} {coins : List Coin} {b' : Bank}
    (h : mintCoins b dst coins = some b') (d : Denom) : supply b' d = supply b d + coinSum d coins := by
  unfold mintCoins at h
  split at h
  · simp at h
  · next cs hn => simp at h; subst h; rw [supply_creditAll, coinSum_normalize hn]

theorem supply_execPays {b : Bank} {self : Addr} {ps : List Pay} {b' : Bank} (h : execPays b self ps = some b') (d : Denom) :
    supply b' d = supply b d := by
  induction ps generalizing b with
  | nil => simp [execPays] at h; subst h; rfl
  | cons p ps ih =>
    simp only [execPays] at h
    split at h
    · simp at h
    · next b1 hd =>
      rw [ih h, supply_credit]
      have := (debit_some hd).2.2 d
      omega

/-! ## executing the payments -/

def sumDen (d : Denom) : List Pay → Nat
  | [] => 0
  | p :: ps => (if p.denom = d then p.amount else 0) + sumDen d ps

def sumTo (a : Addr) (d : Denom) : List Pay → Nat
  | [] => 0
  | p :: ps => (if p.to = a ∧ p.denom = d then p.amount else 0) + sumTo a d ps

theorem sumDen_append (d : Denom) (l1 l2 : List Pay) : sumDen d (l1 ++ l2) = sumDen d l1 + sumDen d l2 := by
  induction l1 with
  | nil => simp [sumDen]
  | cons p ps ih => simp [sumDen, ih]; omega

theorem sumTo_append (a : Addr) (d : Denom) (l1 l2 : List Pay) : sumTo a d (l1 ++ l2) = sumTo a d l1 + sumTo a d l2 := by
  induction l1 with
  | nil => simp [sumTo]
  | cons p ps ih => simp [sumTo, ih]; omega

/-- when the contract is not among the recipients, a successful execution debits the contract by the per-denom
totals and credits every recipient by exactly what was addressed to it -/
theorem execPays_noself {self : Addr} {ps : List Pay} (hns : ∀ p ∈ ps, p.to ≠ self) {b b' : Bank}
    (h : execPays b self ps = some b') :
    (∀ d, bal b' self d + sumDen d ps = bal b self d) ∧
    (∀ a d, a ≠ self → bal b' a d = bal b a d + sumTo a d ps) := by
  induction ps generalizing b with
  | nil => simp [execPays] at h; subst h; simp [sumDen, sumTo]
  | cons p ps ih =>
    simp only [execPays] at h
    split at h
    · simp at h
    · next b1 hd =>
      have hp : p.to ≠ self := hns p (by simp)
      obtain ⟨ih1, ih2⟩ := ih (fun q hq => hns q (by simp [hq])) h
      obtain ⟨_, hb1, _⟩ := debit_some hd
      refine ⟨?_, ?_⟩
      · intro d
        have e1 := ih1 d
        rw [bal_credit] at e1
        have e2 := hb1 self d
        simp only [sumDen]
        have : ¬ (p.to = self ∧ p.denom = d) := fun hh => hp hh.1
        simp [this] at e1
        by_cases hdd : p.denom = d
        · simp [hdd] at e2 ⊢; omega
        · simp [hdd] at e2 ⊢; omega
      · intro a d ha
        rw [ih2 a d ha, bal_credit]
        have e2 := hb1 a d
        have : ¬ (self = a ∧ p.denom = d) := fun hh => ha hh.1.symm
        simp [this] at e2
        simp only [sumTo]
        rw [e2]; omega

/-- conversely the execution succeeds when every per-denom total is covered -/
theorem execPays_ok {self : Addr} {ps : List Pay} (hns : ∀ p ∈ ps, p.to ≠ self) {b : Bank}
    (hcov : ∀ d, sumDen d ps ≤ bal b self d) : ∃ b', execPays b self ps = some b' := by
  induction ps generalizing b with
  | nil => exact ⟨b, rfl⟩
  | cons p ps ih =>
    have hp : p.to ≠ self := hns p (by simp)
    have hle : p.amount ≤ bal b self p.denom := by
      have := hcov p.denom; simp [sumDen] at this; omega
    obtain ⟨b1, hd⟩ := debit_isSome hle
    simp only [execPays, hd]
    apply ih (fun q hq => hns q (by simp [hq]))
    intro d
    rw [bal_credit]
    have e2 := (debit_some hd).2.1 self d
    have hc := hcov d
    simp only [sumDen] at hc
    have : ¬ (p.to = self ∧ p.denom = d) := fun hh => hp hh.1
    simp [this]
    by_cases hdd : p.denom = d
    · simp [hdd] at e2 hc; omega
    · simp [hdd] at e2 hc; omega

/-! ## sums over the payment list -/

/-- Σ over the coins of denom `d` of `amount / T` -/
def qsum (d : Denom) (T : Nat) : List Coin → Nat
  | [] => 0
  | c :: cs => (if c.denom = d then c.amount / T else 0) + qsum d T cs

/-- total weight of the entries for address `a` -/
def wOf (a : Addr) : List (Addr × Nat) → Nat
  | [] => 0
  | m :: r => (if m.1 = a then m.2 else 0) + wOf a r

theorem sumDen_payMember (d : Denom) (T : Nat) (funds : List Coin) (m : Addr × Nat) :
    sumDen d (payMember T funds m) = m.2 * qsum d T funds := by
  induction funds with
  | nil => simp [payMember, sumDen, qsum]
  | cons c cs ih =>
    unfold payMember at ih ⊢
    rw [List.flatMap_cons, sumDen_append, ih]
    simp only [qsum]
    by_cases hq : c.amount / T = 0
    · simp [hq, sumDen]
    · by_cases hd : c.denom = d
      · simp [hq, hd, sumDen, Nat.mul_add]
      · simp [hq, hd, sumDen]

theorem sumTo_payMember (a : Addr) (d : Denom) (T : Nat) (funds : List Coin) (m : Addr × Nat) :
    sumTo a d (payMember T funds m) = if m.1 = a then m.2 * qsum d T funds else 0 := by
  induction funds with
  | nil => simp [payMember, sumTo, qsum]
  | cons c cs ih =>
    unfold payMember at ih ⊢
    rw [List.flatMap_cons, sumTo_append, ih]
    simp only [qsum]
    by_cases hq : c.amount / T = 0
    · simp [hq, sumTo]
    · by_cases hd : c.denom = d
      · by_cases ha : m.1 = a
        · simp [hq, hd, ha, sumTo, Nat.mul_add]
        · simp [hq, hd, ha, sumTo]
      · simp [hq, hd, sumTo]

theorem sumDen_payMsgs (d : Denom) (T : Nat) (funds : List Coin) (members : List (Addr × Nat)) :
    sumDen d (payMsgs members funds T) = sumW members * qsum d T funds := by
  induction members with
  | nil => simp [payMsgs, sumDen, sumW]
  | cons m r ih =>
    unfold payMsgs at ih ⊢
    by_cases hw : m.2 > 0
    · rw [List.filter_cons_of_pos (by simpa using hw)]
      simp only [List.flatMap_cons, sumDen_append, ih, sumDen_payMember, sumW, Nat.add_mul]
    · have h0 : m.2 = 0 := by omega
      rw [List.filter_cons_of_neg (by simpa using hw), ih]
      simp [sumW, h0]

theorem sumTo_payMsgs (a : Addr) (d : Denom) (T : Nat) (funds : List Coin) (members : List (Addr × Nat)) :
    sumTo a d (payMsgs members funds T) = wOf a members * qsum d T funds := by
  induction members with
  | nil => simp [payMsgs, sumTo, wOf]
  | cons m r ih =>
    unfold payMsgs at ih ⊢
    by_cases hw : m.2 > 0
    · rw [List.filter_cons_of_pos (by simpa using hw)]
      simp only [List.flatMap_cons, sumTo_append, ih, sumTo_payMember, wOf, Nat.add_mul]
      split <;> simp
    · have h0 : m.2 = 0 := by omega
      rw [List.filter_cons_of_neg (by simpa using hw), ih]
      simp [wOf, h0]

theorem mem_payMember {p : Pay} {T : Nat} {funds : List Coin} {m : Addr × Nat} :
    p ∈ payMember T funds m ↔ ∃ c ∈ funds, 0 < c.amount / T ∧ p = ⟨m.1, c.denom, m.2 * (c.amount / T)⟩ := by
  unfold payMember
  simp only [List.mem_flatMap]
  constructor
  · rintro ⟨c, hc, hp⟩
    refine ⟨c, hc, ?_⟩
    split at hp
    · simp at hp
    · next hne => simp at hp; exact ⟨Nat.pos_of_ne_zero hne, hp⟩
  · rintro ⟨c, hc, hq, hp⟩
    refine ⟨c, hc, ?_⟩
    have : ¬ c.amount / T = 0 := by omega
    simp [this, hp]

theorem mem_payMsgs {p : Pay} {T : Nat} {funds : List Coin} {members : List (Addr × Nat)} :
    p ∈ payMsgs members funds T ↔
      ∃ m ∈ members, ∃ c ∈ funds, 0 < m.2 ∧ 0 < c.amount / T ∧ p = ⟨m.1, c.denom, m.2 * (c.amount / T)⟩ := by
  unfold payMsgs
  simp only [List.mem_flatMap, List.mem_filter, mem_payMember, decide_eq_true_eq]
  constructor
  · rintro ⟨m, ⟨hm, hw⟩, c, hc, hq, hp⟩; exact ⟨m, hm, c, hc, hw, hq, hp⟩
  · rintro ⟨m, hm, c, hc, hw, hq, hp⟩; exact ⟨m, ⟨hm, hw⟩, c, hc, hq, hp⟩


/-- `omega` after unfolding the `Addr`/`Denom` abbreviations (omega does not look through them) -/
macro "aomega" : tactic => `(tactic| ((try unfold Addr at *); (try unfold Denom at *); omega))

/-! ## the group: address-sorted member list and the stored total -/

/-- strictly ascending addresses (what an address-keyed map iterates) -/
def Sorted (l : List (Addr × Nat)) : Prop := l.Pairwise (fun x y => x.1 < y.1)

theorem lookupM_none_of_lt {l : List (Addr × Nat)} {a : Addr} (h : ∀ x ∈ l, a < x.1) : lookupM l a = none := by
  induction l with
  | nil => rfl
  | cons m r ih =>
    have := h m (by simp)
    simp only [lookupM]
    rw [if_neg (by aomega)]
    exact ih (fun x hx => h x (by simp [hx]))

theorem wOf_zero_of_lt {l : List (Addr × Nat)} {a : Addr} (h : ∀ x ∈ l, a < x.1) : wOf a l = 0 := by
  induction l with
  | nil => rfl
  | cons m r ih =>
    have := h m (by simp)
    simp only [wOf]
    rw [if_neg (by aomega), ih (fun x hx => h x (by simp [hx]))]

theorem wOf_eq_lookupM {l : List (Addr × Nat)} (hs : Sorted l) (a : Addr) : wOf a l = (lookupM l a).getD 0 := by
  induction l with
  | nil => rfl
  | cons m r ih =>
    unfold Sorted at hs
    rw [List.pairwise_cons] at hs
    simp only [wOf, lookupM]
    by_cases h : m.1 = a
    · subst h
      simp [wOf_zero_of_lt hs.1]
    · simp [h, ih hs.2]

theorem lookupM_mem {l : List (Addr × Nat)} {a w} (h : lookupM l a = some w) : (a, w) ∈ l := by
  induction l with
  | nil => simp [lookupM] at h
  | cons m r ih =>
    simp only [lookupM] at h
    split at h
    · next he => simp at h; subst h; subst he; simp
    · simp [ih h]

theorem mem_lookupM {l : List (Addr × Nat)} (hs : Sorted l) {a w} (h : (a, w) ∈ l) : lookupM l a = some w := by
  induction l with
  | nil => simp at h
  | cons m r ih =>
    unfold Sorted at hs
    rw [List.pairwise_cons] at hs
    simp only [lookupM]
    rcases List.mem_cons.mp h with h | h
    · subst h; simp
    · have := hs.1 _ h
      rw [if_neg (by simp at this; aomega)]
      exact ih hs.2 h

theorem mem_insertM {l : List (Addr × Nat)} {a w x} (h : x ∈ insertM l a w) : x = (a, w) ∨ x ∈ l := by
  induction l with
  | nil => simp [insertM] at h; simp [h]
  | cons m r ih =>
    simp only [insertM] at h
    split at h
    · simp at h; rcases h with h | h | h <;> simp [h]
    · split at h
      · simp at h; rcases h with h | h <;> simp [h]
      · simp at h; rcases h with h | h
        · simp [h]
        · rcases ih h with h | h <;> simp [h]

theorem sorted_insertM {l : List (Addr × Nat)} (hs : Sorted l) (a : Addr) (w : Nat) : Sorted (insertM l a w) := by
  induction l with
  | nil => simp [insertM, Sorted]
  | cons m r ih =>
    unfold Sorted at hs ⊢
    have hs' := List.pairwise_cons.mp hs
    simp only [insertM]
    split
    · next hlt =>
      refine List.pairwise_cons.mpr ⟨?_, hs⟩
      intro x hx
      rcases List.mem_cons.mp hx with h | h
      · subst h; exact hlt
      · have := hs'.1 x h; simp at this ⊢; aomega
    · split
      · next heq =>
        subst heq
        exact List.pairwise_cons.mpr ⟨fun x hx => hs'.1 x hx, hs'.2⟩
      · next hnlt hne =>
        refine List.pairwise_cons.mpr ⟨?_, ih hs'.2⟩
        intro x hx
        rcases mem_insertM hx with h | h
        · subst h; simp; aomega
        · exact hs'.1 x h

theorem sumW_insertM {l : List (Addr × Nat)} (hs : Sorted l) (a : Addr) (w : Nat) :
    sumW (insertM l a w) + (lookupM l a).getD 0 = sumW l + w := by
  induction l with
  | nil => simp [insertM, sumW, lookupM]
  | cons m r ih =>
    unfold Sorted at hs
    have hs' := List.pairwise_cons.mp hs
    simp only [insertM, lookupM]
    split
    · next hlt =>
      have : lookupM r a = none := lookupM_none_of_lt (fun x hx => by have := hs'.1 x hx; aomega)
      rw [if_neg (by aomega), this]; simp [sumW]; aomega
    · split
      · next heq => subst heq; simp [sumW]; aomega
      · next hnlt hne =>
        rw [if_neg (by aomega)]
        have := ih hs'.2
        simp only [sumW]; aomega

theorem lookupM_insertM {l : List (Addr × Nat)} (a : Addr) (w : Nat) (a' : Addr) (hs : Sorted l) :
    lookupM (insertM l a w) a' = if a = a' then some w else lookupM l a' := by
  induction l with
  | nil => simp [insertM, lookupM]
  | cons m r ih =>
    unfold Sorted at hs
    have hs' := List.pairwise_cons.mp hs
    simp only [insertM]
    split
    · simp [lookupM]
    · split
      · next heq => subst heq; simp only [lookupM]; split <;> simp_all
      · next hnlt hne =>
        simp only [lookupM, ih hs'.2]
        by_cases h1 : m.1 = a'
        · have : a ≠ a' := by aomega
          simp [h1, this]
        · simp [h1]

theorem sorted_removeM {l : List (Addr × Nat)} (hs : Sorted l) (a : Addr) : Sorted (removeM l a) := by
  unfold Sorted removeM at *
  exact hs.filter _

theorem sumW_removeM {l : List (Addr × Nat)} (hs : Sorted l) (a : Addr) :
    sumW (removeM l a) + (lookupM l a).getD 0 = sumW l := by
  induction l with
  | nil => simp [removeM, sumW, lookupM]
  | cons m r ih =>
    unfold Sorted at hs
    have hs' := List.pairwise_cons.mp hs
    have ih' := ih hs'.2
    unfold removeM at ih' ⊢
    by_cases h : m.1 = a
    · have hnone : lookupM r a = none := lookupM_none_of_lt (fun x hx => by have := hs'.1 x hx; aomega)
      rw [List.filter_cons_of_neg (by simp [h])]
      simp only [lookupM, h, if_true, sumW, Option.getD_some]
      rw [hnone] at ih'; simp at ih'; aomega
    · rw [List.filter_cons_of_pos (by simp [h])]
      simp only [lookupM, h, if_false, sumW]; aomega

theorem lookupM_removeM (l : List (Addr × Nat)) (a a' : Addr) :
    lookupM (removeM l a) a' = if a = a' then none else lookupM l a' := by
  induction l with
  | nil => simp [removeM, lookupM]
  | cons m r ih =>
    unfold removeM at ih ⊢
    by_cases h : m.1 = a
    · rw [List.filter_cons_of_neg (by simp [h]), ih]
      simp only [lookupM]
      by_cases h2 : a = a'
      · simp [h2]
      · have : m.1 ≠ a' := by aomega
        simp [h2, this]
    · rw [List.filter_cons_of_pos (by simp [h])]
      simp only [lookupM, ih]
      by_cases h2 : a = a'
      · have : m.1 ≠ a' := by aomega
        simp [h2, this]
      · simp [h2]

/-- group well-formedness: what cw4-group maintains -/
def GWF (mem : List (Addr × Nat)) (t : Nat) : Prop := Sorted mem ∧ t = sumW mem

theorem addLoop_wf {l mem : List (Addr × Nat)} {t : Nat} {mem' t'} (h : GWF mem t)
    (he : addLoop l mem t = .ok (mem', t')) : GWF mem' t' := by
  induction l generalizing mem t with
  | nil => simp [addLoop] at he; obtain ⟨rfl, rfl⟩ := he; exact h
  | cons x r ih =>
    obtain ⟨a, w⟩ := x
    simp only [addLoop] at he
    split at he
    · simp at he
    · split at he
      · simp at he
      · apply ih _ he
        refine ⟨sorted_insertM h.1 a w, ?_⟩
        have := sumW_insertM h.1 a w
        have ht := h.2
        aomega

theorem removeLoop_wf {l : List Addr} {mem : List (Addr × Nat)} {t : Nat} {mem' t'} (h : GWF mem t)
    (he : removeLoop l mem t = .ok (mem', t')) : GWF mem' t' := by
  induction l generalizing mem t with
  | nil => simp [removeLoop] at he; obtain ⟨rfl, rfl⟩ := he; exact h
  | cons a r ih =>
    simp only [removeLoop] at he
    split at he
    · exact ih h he
    · next w hw =>
      split at he
      · simp at he
      · apply ih _ he
        refine ⟨sorted_removeM h.1 a, ?_⟩
        have := sumW_removeM h.1 a
        rw [hw] at this; simp at this
        have ht := h.2
        aomega

theorem create_wf {admin : Option Addr} {ms : List (Addr × Nat)} {g : Group} (h : create admin ms = .ok g) :
    GWF g.members g.total := by
  unfold create at h
  split at h
  · simp at h
  · split at h
    · simp at h
    · next mem t he =>
      simp at h; subst h
      exact addLoop_wf ⟨by simp [Sorted], rfl⟩ he

theorem updateMembers_wf {g g' : Group} {sender : Addr} {add remove} (hw : GWF g.members g.total)
    (h : g.updateMembers sender add remove = .ok g') : GWF g'.members g'.total := by
  unfold Group.updateMembers at h
  split at h
  · simp at h
  · split at h
    · simp at h
    · split at h
      · simp at h
      · next m1 t1 h1 =>
        split at h
        · simp at h
        · next m2 t2 h2 =>
          simp at h; subst h
          exact removeLoop_wf (addLoop_wf hw h1) h2


/-! ## the selected funds -/

theorem qsum_map (d : Denom) (T : Nat) (B : Denom → Nat) (L : List Denom) :
    qsum d T (L.map (fun x => (⟨x, B x⟩ : Coin))) = L.count d * (B d / T) := by
  induction L with
  | nil => simp [qsum]
  | cons x r ih =>
    simp only [List.map_cons, qsum, ih, List.count_cons]
    by_cases h : x = d
    · subst h; simp [Nat.add_mul]; omega
    · have : ¬ (x == d) = true := by simpa using h
      simp [h]

/-- if `T·(k·q)` is covered by a balance whose quotient by `T` is `q`, then `k·q` collapses to "`q` if `k > 0`" -/
theorem count_collapse {T B k : Nat} (hT : 0 < T) (h : T * (k * (B / T)) ≤ B) :
    k * (B / T) = if k = 0 then 0 else B / T := by
  have h1 : k * (B / T) ≤ B / T := by
    rw [Nat.le_div_iff_mul_le hT, Nat.mul_comm]; exact h
  split
  · next hk => simp [hk]
  · next hk =>
    rcases Nat.eq_zero_or_pos (B / T) with hq | hq
    · simp [hq]
    · have : k ≤ 1 := by
        apply Nat.le_of_mul_le_mul_right (c := B / T) _ hq
        simpa using h1
      have : k = 1 := by omega
      simp [this]

theorem bal_pos_mem {b : Bank} {a : Addr} {d : Denom} (h : bal b a d ≠ 0) : ∃ e ∈ b, e.1 = (a, d) := by
  induction b with
  | nil => simp [bal] at h
  | cons e r ih =>
    obtain ⟨k, n⟩ := e
    simp only [bal] at h
    split at h
    · next hk => exact ⟨(k, n), by simp, hk⟩
    · obtain ⟨e, he, hk⟩ := ih h; exact ⟨e, by simp [he], hk⟩

/-- an accepted witness enumerates exactly the denoms the contract holds, each once -/
theorem validOrder_spec {b : Bank} {self : Addr} {order : List Denom} (h : validOrder b self order = true) :
    order.Nodup ∧ ∀ d, d ∈ order ↔ bal b self d ≠ 0 := by
  unfold validOrder at h
  simp only [Bool.and_eq_true, decide_eq_true_eq, List.all_eq_true, Bool.or_eq_true, bne_iff_ne, ne_eq,
    beq_iff_eq, List.contains_eq_mem] at h
  obtain ⟨⟨hn, h1⟩, h2⟩ := h
  refine ⟨hn, fun d => ⟨fun hd => h1 d hd, fun hd => ?_⟩⟩
  obtain ⟨e, he, hk⟩ := bal_pos_mem hd
  have := h2 e he
  rw [hk] at this
  simp at this
  rcases this with h | h
  · exact absurd h hd
  · exact h

/-- which denoms a call selects: all of them without a list, otherwise the listed ones -/
def selected (denoms : Option (List Denom)) (d : Denom) : Prop :=
  match denoms with
  | none => True
  | some l => d ∈ l

instance (denoms : Option (List Denom)) (d : Denom) : Decidable (selected denoms d) := by
  unfold selected; cases denoms <;> infer_instance

/-- the funds vector is the contract's balance of a list `L` of denoms; a selected denom with a non-zero balance is
in `L`, and everything in `L` is selected and non-zero -/
theorem selectFunds_spec {b : Bank} {self : Addr} {denoms : Option (List Denom)} {order : List Denom} {funds : List Coin}
    (h : selectFunds b self denoms order = .ok funds) :
    ∃ L : List Denom, funds = L.map (fun d => (⟨d, bal b self d⟩ : Coin)) ∧
      (∀ d, d ∈ L ↔ (selected denoms d ∧ bal b self d ≠ 0)) ∧ ((∀ l, denoms = some l → l.Nodup) → L.Nodup) := by
  unfold selectFunds at h
  split at h
  · next l =>
    simp at h
    refine ⟨l.filter (fun d => bal b self d != 0), h.symm, ?_, fun hl => List.Pairwise.filter _ (hl l rfl)⟩
    intro d; simp [selected, List.mem_filter]
  · split at h
    · next hv =>
      simp at h
      obtain ⟨hn, hm⟩ := validOrder_spec hv
      exact ⟨order, h.symm, fun d => by simp [selected, hm d], fun _ => hn⟩
    · simp at h

/-! ## listing, and the shape of an accepted distribution -/

theorem listed_eq (g : Group) : listed g = g.members.take 30 := by
  unfold listed listMembers
  have : min ((some Gen.sg_splits_PAGINATION_LIMIT).getD CW4_DEFAULT_LIMIT) CW4_MAX_LIMIT = 30 := by decide
  simp only [this]

/-- a listing of at most `MAX_GROUP_SIZE` (< the page size) members is the whole group -/
theorem listed_all {g : Group} (h : (listed g).length ≤ Gen.sg_splits_MAX_GROUP_SIZE) : listed g = g.members := by
  rw [listed_eq] at h ⊢
  have h25 : Gen.sg_splits_MAX_GROUP_SIZE = 25 := by decide
  rw [h25, List.length_take] at h
  exact List.take_of_length_le (by omega)

theorem listed_length_le (g : Group) : (listed g).length ≤ g.members.length := by
  rw [listed_eq, List.length_take]; omega

theorem distributeMsgs_ok {s : State} {sender : Addr} {denoms : Option (List Denom)} {order : List Denom} {msgs : List Pay}
    (h : distributeMsgs s sender denoms order = .ok msgs) :
    canDistribute s.admin s.group sender = true ∧ s.group.total ≠ 0 ∧
    (listed s.group).length ≠ 0 ∧ (listed s.group).length ≤ Gen.sg_splits_MAX_GROUP_SIZE ∧
    ∃ funds, selectFunds s.bank s.self denoms order = .ok funds ∧ funds ≠ [] ∧
      msgs = payMsgs (listed s.group) funds s.group.total ∧ msgs ≠ [] := by
  unfold distributeMsgs checkedTotalWeight at h
  by_cases hc : canDistribute s.admin s.group sender = true
  · by_cases hT : s.group.total = 0
    · simp [hc, hT] at h
    · by_cases hlen : listed s.group = [] ∨ Gen.sg_splits_MAX_GROUP_SIZE < (listed s.group).length
      · simp [hc, hT, hlen] at h
      · cases hf : selectFunds s.bank s.self denoms order with
        | error e => simp [hc, hT, hlen, hf] at h
        | ok funds =>
          by_cases hfe : funds.isEmpty = true
          · simp [hc, hT, hlen, hf, hfe] at h
          · by_cases hme : (payMsgs (listed s.group) funds s.group.total).isEmpty = true
            · simp [hc, hT, hlen, hf, hfe, hme] at h
            · simp [hc, hT, hlen, hf, hfe, hme] at h
              have hl1 : (listed s.group).length ≠ 0 := fun h0 => hlen (Or.inl (List.eq_nil_of_length_eq_zero h0))
              have hl2 : (listed s.group).length ≤ Gen.sg_splits_MAX_GROUP_SIZE := Nat.le_of_not_lt (fun h0 => hlen (Or.inr h0))
              refine ⟨hc, hT, hl1, hl2, funds, rfl, by simpa using hfe, h.symm, ?_⟩
              subst h; simpa using hme
  · simp [hc] at h

/-- **exactness of one accepted distribution** (contract not a member of its own group) -/
theorem distribute_exact {s : State} (hwf : GWF s.group.members s.group.total)
    (hself : ∀ m ∈ s.group.members, 0 < m.2 → m.1 ≠ s.self)
    {sender : Addr} {denoms : Option (List Denom)} {order : List Denom} {msgs : List Pay} {b' : Bank}
    (hm : distributeMsgs s sender denoms order = .ok msgs) (he : execPays s.bank s.self msgs = some b') :
    (∀ d, bal b' s.self d =
        if selected denoms d then bal s.bank s.self d % s.group.total else bal s.bank s.self d) ∧
    (∀ a d, a ≠ s.self → bal b' a d = bal s.bank a d +
        (if selected denoms d then (lookupM s.group.members a).getD 0 * (bal s.bank s.self d / s.group.total) else 0)) := by
  obtain ⟨_, hT, _, hlen, funds, hf, _, hmsgs, _⟩ := distributeMsgs_ok hm
  have hall := listed_all hlen
  rw [hall] at hmsgs
  obtain ⟨L, hfunds, hL, _⟩ := selectFunds_spec hf
  have hns : ∀ p ∈ msgs, p.to ≠ s.self := by
    intro p hp; rw [hmsgs] at hp
    obtain ⟨m, hmm, c, _, hpos, _, rfl⟩ := mem_payMsgs.mp hp
    exact hself m hmm hpos
  obtain ⟨h1, h2⟩ := execPays_noself hns he
  have hTpos : 0 < s.group.total := Nat.pos_of_ne_zero hT
  -- per denom: the collapsed quotient
  have key : ∀ d, L.count d * (bal s.bank s.self d / s.group.total) =
      if selected denoms d then bal s.bank s.self d / s.group.total else 0 := by
    intro d
    have e1 := h1 d
    rw [hmsgs, sumDen_payMsgs, hfunds, qsum_map, ← hwf.2] at e1
    have hcov : s.group.total * (L.count d * (bal s.bank s.self d / s.group.total)) ≤ bal s.bank s.self d := by omega
    rw [count_collapse hTpos hcov]
    by_cases hsel : selected denoms d
    · simp only [hsel, if_true]
      by_cases hb : bal s.bank s.self d = 0
      · simp [hb]
      · have : d ∈ L := (hL d).mpr ⟨hsel, hb⟩
        have : L.count d ≠ 0 := by
          have := List.count_pos_iff.mpr this; omega
        simp [this]
    · simp only [hsel, if_false]
      have : d ∉ L := fun hd => hsel ((hL d).mp hd).1
      simp [List.count_eq_zero.mpr this]
  refine ⟨fun d => ?_, fun a d ha => ?_⟩
  · have e1 := h1 d
    rw [hmsgs, sumDen_payMsgs, hfunds, qsum_map, ← hwf.2, key d] at e1
    by_cases hsel : selected denoms d
    · simp only [hsel, if_true] at e1 ⊢
      rw [Nat.mod_def]; omega
    · simp only [hsel, if_false] at e1 ⊢
      omega
  · rw [h2 a d ha, hmsgs, sumTo_payMsgs, hfunds, qsum_map, wOf_eq_lookupM hwf.1, key d]
    by_cases hsel : selected denoms d <;> simp [hsel]


/-! ## entitlement, refusals, acceptance -/

theorem lookupM_isSome_iff (l : List (Addr × Nat)) (a : Addr) : (lookupM l a).isSome = true ↔ ∃ w, (a, w) ∈ l := by
  induction l with
  | nil => simp [lookupM]
  | cons m r ih =>
    simp only [lookupM]
    split
    · next h => subst h; simp; exact ⟨m.2, Or.inl rfl⟩
    · next h =>
      rw [ih]
      constructor
      · rintro ⟨w, hw⟩; exact ⟨w, by simp [hw]⟩
      · rintro ⟨w, hw⟩
        rcases List.mem_cons.mp hw with h' | h'
        · exact absurd (by rw [← h']) h
        · exact ⟨w, h'⟩

theorem canDistribute_iff (admin : Option Addr) (g : Group) (sender : Addr) :
    canDistribute admin g sender = true ↔
      match admin with
      | some a => a = sender
      | none => ∃ w, (sender, w) ∈ g.members := by
  unfold canDistribute
  cases admin with
  | some a => simp
  | none => simp only []; exact lookupM_isSome_iff _ _

theorem not_ok_error {α : Type} {r : Except Err α} (h : ∀ x, r ≠ .ok x) : ∃ e, r = .error e := by
  cases r with
  | error e => exact ⟨e, rfl⟩
  | ok x => exact absurd rfl (h x)

theorem sumW_pos_mem {l : List (Addr × Nat)} (h : sumW l ≠ 0) : ∃ m ∈ l, 0 < m.2 := by
  induction l with
  | nil => simp [sumW] at h
  | cons m r ih =>
    by_cases hm : 0 < m.2
    · exact ⟨m, by simp, hm⟩
    · have : sumW r ≠ 0 := by simp only [sumW] at h; omega
      obtain ⟨x, hx, hp⟩ := ih this
      exact ⟨x, by simp [hx], hp⟩

/-- everything needed for the contract to accept; then the message list is exactly `payMsgs` over ALL members -/
theorem distributeMsgs_accepts {s : State} (hwf : GWF s.group.members s.group.total)
    {sender : Addr} {denoms : Option (List Denom)} {order : List Denom}
    (hc : canDistribute s.admin s.group sender = true) (hT : s.group.total ≠ 0)
    (hlen : s.group.members.length ≤ Gen.sg_splits_MAX_GROUP_SIZE)
    (hw : denoms = none → validOrder s.bank s.self order = true)
    (hd : ∃ d, selected denoms d ∧ s.group.total ≤ bal s.bank s.self d) :
    ∃ funds, selectFunds s.bank s.self denoms order = .ok funds ∧
      distributeMsgs s sender denoms order = .ok (payMsgs s.group.members funds s.group.total) := by
  have hll : (listed s.group).length ≤ Gen.sg_splits_MAX_GROUP_SIZE := Nat.le_trans (listed_length_le _) hlen
  have hall := listed_all hll
  obtain ⟨m, hm, hmpos⟩ := sumW_pos_mem (by rw [← hwf.2]; exact hT)
  have hne : s.group.members ≠ [] := fun h => by rw [h] at hm; simp at hm
  -- the funds
  have hfunds : ∃ funds, selectFunds s.bank s.self denoms order = .ok funds := by
    unfold selectFunds
    cases denoms with
    | some l => exact ⟨_, rfl⟩
    | none => simp [hw rfl]
  obtain ⟨funds, hf⟩ := hfunds
  obtain ⟨L, hfL, hL, _⟩ := selectFunds_spec hf
  obtain ⟨d, hsel, hge⟩ := hd
  have hTpos : 0 < s.group.total := Nat.pos_of_ne_zero hT
  have hdL : d ∈ L := (hL d).mpr ⟨hsel, by omega⟩
  have hc_in : (⟨d, bal s.bank s.self d⟩ : Coin) ∈ funds := by
    rw [hfL]; exact List.mem_map.mpr ⟨d, hdL, rfl⟩
  have hq : 0 < bal s.bank s.self d / s.group.total := Nat.div_pos hge hTpos
  have hp : (⟨m.1, d, m.2 * (bal s.bank s.self d / s.group.total)⟩ : Pay) ∈ payMsgs s.group.members funds s.group.total :=
    mem_payMsgs.mpr ⟨m, hm, _, hc_in, hmpos, hq, rfl⟩
  refine ⟨funds, hf, ?_⟩
  unfold distributeMsgs checkedTotalWeight
  have hfe : funds ≠ [] := fun h => by rw [h] at hc_in; simp at hc_in
  have hme : payMsgs s.group.members funds s.group.total ≠ [] := fun h => by rw [h] at hp; simp at hp
  have hlen' : ¬ (s.group.members = [] ∨ Gen.sg_splits_MAX_GROUP_SIZE < s.group.members.length) := by
    rintro (h | h)
    · exact hne h
    · omega
  simp [hc, hT, hall, hf, hfe, hme, hlen']

/-- … and the bank then executes every message when the contract is not a member and no denom is listed twice -/
theorem execPays_accepts {s : State} (hwf : GWF s.group.members s.group.total)
    (hself : ∀ m ∈ s.group.members, 0 < m.2 → m.1 ≠ s.self)
    {denoms : Option (List Denom)} {order : List Denom} {funds : List Coin}
    (hf : selectFunds s.bank s.self denoms order = .ok funds)
    (hdup : ∀ l, denoms = some l → l.Nodup) :
    ∃ b', execPays s.bank s.self (payMsgs s.group.members funds s.group.total) = some b' := by
  obtain ⟨L, hfL, hL, hLn⟩ := selectFunds_spec hf
  have hnodup : L.Nodup := hLn hdup
  apply execPays_ok
  · intro p hp
    obtain ⟨m, hmm, c, _, hpos, _, rfl⟩ := mem_payMsgs.mp hp
    exact hself m hmm hpos
  · intro d
    rw [sumDen_payMsgs, hfL, qsum_map, ← hwf.2, hnodup.count]
    split
    · simp; exact Nat.mul_div_le _ _
    · simp


/-! ## transactions and histories -/

/-- state well-formedness = what cw4-group maintains about the group -/
def SWF (s : State) : Prop := GWF s.group.members s.group.total

theorem distribute_ok {s : State} {sender : Addr} {funds : List Coin} {denoms : Option (List Denom)} {order : List Denom}
    {s' : State} {msgs : List Pay} (h : distribute s sender funds denoms order = .ok (s', msgs)) :
    ∃ b1, attachFunds s.bank sender s.self funds = some b1 ∧
      distributeMsgs { s with bank := b1 } sender denoms order = .ok msgs ∧
      execPays b1 s.self msgs = some s'.bank ∧ s' = { s with bank := s'.bank } := by
  unfold distribute at h
  split at h
  · simp at h
  · next b1 hb1 =>
    split at h
    · simp at h
    · next msgs' hm =>
      split at h
      · simp at h
      · next b2 hb2 =>
        simp at h
        obtain ⟨rfl, rfl⟩ := h
        exact ⟨b1, hb1, hm, hb2, rfl⟩

theorem step_distribute_ok {s s' : State} {sender : Addr} {funds : List Coin} {denoms : Option (List Denom)} {order : List Denom}
    (h : step s (.distribute sender funds denoms order) = .ok s') :
    ∃ msgs, distribute s sender funds denoms order = .ok (s', msgs) := by
  simp only [step] at h
  split at h
  · simp at h
  · next s'' msgs hd => simp at h; subst h; exact ⟨msgs, hd⟩

theorem step_group {s s' : State} {op : Op} (h : step s op = .ok s') :
    s'.self = s.self ∧ s'.gaddr = s.gaddr ∧
    (SWF s → SWF s') := by
  cases op with
  | mint to coins =>
    simp only [step] at h; split at h
    · simp at h
    · simp at h; subst h; exact ⟨rfl, rfl, id⟩
  | send src dst coins =>
    simp only [step] at h; split at h
    · simp at h
    · simp at h; subst h; exact ⟨rfl, rfl, id⟩
  | updateMembers sender add remove =>
    simp only [step] at h; split at h
    · simp at h
    · next g hg => simp at h; subst h; exact ⟨rfl, rfl, fun hw => updateMembers_wf hw hg⟩
  | groupAdmin sender new =>
    simp only [step] at h; split at h
    · simp at h
    · simp at h; subst h; exact ⟨rfl, rfl, id⟩
  | splitsAdmin sender new =>
    simp only [step] at h; split at h
    · simp at h
    · simp at h; subst h; exact ⟨rfl, rfl, id⟩
  | distribute sender funds denoms order =>
    obtain ⟨msgs, hd⟩ := step_distribute_ok h
    obtain ⟨b1, _, _, _, hs⟩ := distribute_ok hd
    rw [hs]; exact ⟨rfl, rfl, id⟩
  | raw sender funds => simp [step] at h
  | migrate sender => simp [step] at h; subst h; exact ⟨rfl, rfl, id⟩

theorem step'_wf {s : State} (op : Op) (h : SWF s) : SWF (step' s op) := by
  unfold step'
  split
  · next s' hs => exact (step_group hs).2.2 h
  · exact h

theorem run_wf {s : State} (ops : List Op) (h : SWF s) : SWF (run s ops) := by
  induction ops generalizing s with
  | nil => exact h
  | cons op ops ih => exact ih (step'_wf op h)

theorem step'_self (s : State) (op : Op) : (step' s op).self = s.self := by
  unfold step'; split
  · next s' hs => exact (step_group hs).1
  · rfl

theorem run_self (s : State) (ops : List Op) : (run s ops).self = s.self := by
  induction ops generalizing s with
  | nil => rfl
  | cons op ops ih => simp only [run, List.foldl] at ih ⊢; rw [ih, step'_self]

theorem instantiate_wf {mode : Mode} {self gaddr : Addr} {admin gadmin : Option Addr} {ms : List (Addr × Nat)} {s : State}
    (h : instantiate mode self gaddr admin gadmin ms = .ok s) : SWF s ∧ s.bank = [] ∧ s.self = self := by
  unfold instantiate at h
  split at h
  · simp at h
  · split at h
    · simp at h
    · next g hg => simp at h; subst h; exact ⟨create_wf hg, rfl, rfl⟩
  · split at h
    · simp at h
    · next g hg =>
      split at h
      · simp at h
      · split at h
        · simp at h
        · simp at h; subst h; exact ⟨create_wf hg, rfl, rfl⟩

theorem mintedOp_mint (d : Denom) (to : Addr) (coins : List Coin) : mintedOp d (.mint to coins) = coinSum d coins := by
  simp only [mintedOp]
  induction coins with
  | nil => rfl
  | cons c cs ih =>
    by_cases h : c.denom = d
    · simp [List.filter, h, coinSum, ih]
    · simp [List.filter, h, coinSum, ih]

theorem supply_attachFunds {b b1 : Bank} {sender self : Addr} {funds : List Coin}
    (h : attachFunds b sender self funds = some b1) (d : Denom) : supply b1 d = supply b d := by
  unfold attachFunds at h
  split at h
  · simp at h; subst h; rfl
  · exact supply_sendCoins h d

/-- per transaction: the supply of every denom changes by exactly what the environment minted -/
theorem supply_step' (s : State) (op : Op) (d : Denom) :
    supply (step' s op).bank d = supply s.bank d + mintedOp d op := by
  unfold step'
  split
  · next s' hs =>
    cases op with
    | mint to coins =>
      simp only [step] at hs; split at hs
      · simp at hs
      · next b hb => simp at hs; subst hs; rw [mintedOp_mint]; exact supply_mintCoins hb d
    | send src dst coins =>
      simp only [step] at hs; split at hs
      · simp at hs
      · next b hb => simp at hs; subst hs; simp [mintedOp]; exact supply_sendCoins hb d
    | updateMembers sender add remove =>
      simp only [step] at hs; split at hs
      · simp at hs
      · simp at hs; subst hs; simp [mintedOp]
    | groupAdmin sender new =>
      simp only [step] at hs; split at hs
      · simp at hs
      · simp at hs; subst hs; simp [mintedOp]
    | splitsAdmin sender new =>
      simp only [step] at hs; split at hs
      · simp at hs
      · simp at hs; subst hs; simp [mintedOp]
    | distribute sender funds denoms order =>
      obtain ⟨msgs, hd⟩ := step_distribute_ok hs
      obtain ⟨b1, hb1, _, he, _⟩ := distribute_ok hd
      simp only [mintedOp, Nat.add_zero]
      rw [supply_execPays he d, supply_attachFunds hb1 d]
    | raw sender funds => simp [step] at hs
    | migrate sender => simp [step] at hs; subst hs; simp [mintedOp]
  · next e hs =>
    -- a failed mint minted nothing: all its coins are zero
    cases op with
    | mint to coins =>
      simp only [step] at hs; split at hs
      · next hm =>
        rw [mintedOp_mint]
        unfold mintCoins at hm
        split at hm
        · next hn =>
          unfold normalize at hn
          simp only [] at hn
          split at hn
          · next hemp =>
            have : coinSum d (coins.filter (fun c => c.amount != 0)) = 0 := by
              rw [List.isEmpty_iff.mp hemp]; rfl
            rw [coinSum_filter] at this; omega
          · simp at hn
        · simp at hm
      · simp at hs
    | _ => simp [mintedOp]

theorem supply_run (s : State) (ops : List Op) (d : Denom) :
    supply (run s ops).bank d = supply s.bank d + (ops.map (mintedOp d)).sum := by
  induction ops generalizing s with
  | nil => simp [run]
  | cons op ops ih =>
    simp only [run, List.foldl, List.map_cons, List.sum_cons] at ih ⊢
    rw [ih, supply_step']; omega

/-! ## round 3: payments without any hypothesis about who is paid, occurrences of a denom, bank frame of the other ops -/

/-- payments of denom `d` addressed to accounts other than the contract -/
def sumDenNS (self : Addr) (d : Denom) : List Pay → Nat
  | [] => 0
  | p :: ps => (if p.to ≠ self ∧ p.denom = d then p.amount else 0) + sumDenNS self d ps

theorem sumDenNS_add_sumTo (self : Addr) (d : Denom) (ps : List Pay) :
    sumDenNS self d ps + sumTo self d ps = sumDen d ps := by
  induction ps with
  | nil => rfl
  | cons p ps ih =>
    simp only [sumDenNS, sumTo, sumDen]
    by_cases hp : p.to = self <;> by_cases hd : p.denom = d <;> simp [hp, hd] <;> omega

/-- executing ANY payment list (the contract may be among the recipients: such a payment is a transfer from an
account to itself): the contract is debited by exactly what is addressed to OTHERS, every other account is
credited by exactly what is addressed to it -/
theorem execPays_general {self : Addr} {ps : List Pay} {b b' : Bank} (h : execPays b self ps = some b') :
    (∀ d, bal b' self d + sumDenNS self d ps = bal b self d) ∧
    (∀ a d, a ≠ self → bal b' a d = bal b a d + sumTo a d ps) := by
  induction ps generalizing b with
  | nil => simp [execPays] at h; subst h; simp [sumDenNS, sumTo]
  | cons p ps ih =>
    simp only [execPays] at h
    split at h
    · simp at h
    · next b1 hd =>
      obtain ⟨ih1, ih2⟩ := ih h
      obtain ⟨_, hb1, _⟩ := debit_some hd
      refine ⟨?_, ?_⟩
      · intro d
        have e1 := ih1 d
        rw [bal_credit] at e1
        have e2 := hb1 self d
        simp only [sumDenNS]
        by_cases hp : p.to = self <;> by_cases hdd : p.denom = d <;> simp [hp, hdd] at e1 e2 ⊢ <;> omega
      · intro a d ha
        rw [ih2 a d ha, bal_credit]
        have e2 := hb1 a d
        have : ¬ (self = a ∧ p.denom = d) := fun hh => ha hh.1.symm
        simp [this] at e2
        simp only [sumTo]
        rw [e2]; omega

/-- how many times a call selects denom `d`: once without a list (`query_all_balances` has every denom once),
otherwise as often as the list names it (`denom_list` is not de-duplicated by the contract) -/
def occ (denoms : Option (List Denom)) (d : Denom) : Nat :=
  match denoms with
  | none => 1
  | some l => l.count d

theorem selectFunds_qsum {b : Bank} {self : Addr} {denoms : Option (List Denom)} {order : List Denom} {funds : List Coin}
    (h : selectFunds b self denoms order = .ok funds) (d : Denom) (T : Nat) :
    qsum d T funds = occ denoms d * (bal b self d / T) := by
  unfold selectFunds at h
  split at h
  · next l =>
    simp at h; subst h
    rw [qsum_map]
    by_cases hb : bal b self d = 0
    · simp [hb]
    · have : (l.filter (fun x => bal b self x != 0)).count d = l.count d := by
        apply List.count_filter; simpa using hb
      rw [this]; rfl
  · split at h
    · next hv =>
      simp at h; subst h
      obtain ⟨hn, hm⟩ := validOrder_spec hv
      rw [qsum_map, hn.count]
      by_cases hb : bal b self d = 0
      · simp [hb]
      · simp [(hm d).mpr hb, occ]
    · simp at h

/-- **what one accepted distribution does, with no side condition at all** (the contract may be a member of its own
group, a denom may be listed several times): every account other than the contract gains
`weight × occurrences × floor(balance / total_weight)`, the contract loses exactly what the others gain -/
theorem distribute_general {s : State} (hwf : GWF s.group.members s.group.total)
    {sender : Addr} {denoms : Option (List Denom)} {order : List Denom} {msgs : List Pay} {b' : Bank}
    (hm : distributeMsgs s sender denoms order = .ok msgs) (he : execPays s.bank s.self msgs = some b') :
    (∀ a d, a ≠ s.self → bal b' a d = bal s.bank a d +
        (lookupM s.group.members a).getD 0 * (occ denoms d * (bal s.bank s.self d / s.group.total))) ∧
    (∀ d, bal b' s.self d + (s.group.total - (lookupM s.group.members s.self).getD 0) *
        (occ denoms d * (bal s.bank s.self d / s.group.total)) = bal s.bank s.self d) := by
  obtain ⟨_, _, _, hlen, funds, hf, _, hmsgs, _⟩ := distributeMsgs_ok hm
  rw [listed_all hlen] at hmsgs
  obtain ⟨h1, h2⟩ := execPays_general he
  refine ⟨fun a d ha => ?_, fun d => ?_⟩
  · rw [h2 a d ha, hmsgs, sumTo_payMsgs, selectFunds_qsum hf, wOf_eq_lookupM hwf.1]
  · have e1 := h1 d
    have e2 := sumDenNS_add_sumTo s.self d msgs
    rw [hmsgs, sumDen_payMsgs, sumTo_payMsgs, selectFunds_qsum hf, wOf_eq_lookupM hwf.1, ← hwf.2] at e2
    rw [Nat.sub_mul]
    rw [← hmsgs] at e2
    omega

theorem bal_creditAll (b : Bank) (a : Addr) (cs : List Coin) (a' : Addr) (d' : Denom) :
    bal b a' d' ≤ bal (creditAll b a cs) a' d' ∧ (a' ≠ a → bal (creditAll b a cs) a' d' = bal b a' d') := by
  induction cs generalizing b with
  | nil => simp [creditAll]
  | cons c cs ih =>
    simp only [creditAll]
    obtain ⟨i1, i2⟩ := ih (credit b a c.denom c.amount)
    rw [bal_credit] at i1
    refine ⟨by omega, fun hne => ?_⟩
    rw [i2 hne, bal_credit]
    have : ¬ (a = a' ∧ c.denom = d') := fun hh => hne hh.1.symm
    simp [this]

theorem bal_debitAll_other {b : Bank} {a : Addr} {cs : List Coin} {b' : Bank} (h : debitAll b a cs = some b')
    (a' : Addr) (d' : Denom) (hne : a' ≠ a) : bal b' a' d' = bal b a' d' := by
  induction cs generalizing b with
  | nil => simp [debitAll] at h; subst h; rfl
  | cons c cs ih =>
    simp only [debitAll] at h
    split at h
    · simp at h
    · next b1 hd =>
      rw [ih h]
      have := (debit_some hd).2.1 a' d'
      have hn : ¬ (a = a' ∧ c.denom = d') := fun hh => hne hh.1.symm
      simp [hn] at this
      exact this

/-- a bank transfer never lowers the balance of anybody but its source -/
theorem sendCoins_other_ge {b : Bank} {src dst : Addr} {coins : List Coin} {b' : Bank}
    (h : sendCoins b src dst coins = some b') (a : Addr) (d : Denom) (hne : a ≠ src) : bal b a d ≤ bal b' a d := by
  unfold sendCoins at h
  split at h
  · simp at h
  · split at h
    · simp at h
    · next cs0 _ _ b1 hd =>
      simp at h; subst h
      have := (bal_creditAll b1 dst cs0 a d).1
      rw [bal_debitAll_other hd a d hne] at this
      exact this

theorem mintCoins_ge {b : Bank} {dst : Addr} {coins : List Coin} {b' : Bank}
    (h : mintCoins b dst coins = some b') (a : Addr) (d : Denom) : bal b a d ≤ bal b' a d := by
  unfold mintCoins at h
  split at h
  · simp at h
  · simp at h; subst h; exact (bal_creditAll b dst _ a d).1

end LP.Splits
