import LaunchpadModel.Lemmas.LaunchpadSystem2Refine
/-!
# System composite 2: the two simulations, one step and runs

* `good_step'`: `Good` (collection ids duplicate-free, no cw721-0.16 `minter` item) is an invariant.
* `sys_step`: `sysOf (step' s op) = Sys.run { sysOf s with bank := sysBank s op } (sysOps s op)` for every `Good` state and every
  op that is not `Foreign`; `sys_foreign_mint`, `sys_foreign_migrate`: the two foreign events, exactly; `SysReach`, `sys_run`,
  `sysReach_inv`.
* `cf_step`: `cfOf (step' s op) = CF.run { cfOf s with bank := cfBank s op } (cfOps s op)` for ALL states and ops; `CFReach`,
  `cf_run`, `cfReach_inv`.
-/
namespace LP.Sys2
open LP

/-! ## unfolding `step` -/

theorem step_sys_minter (s : State) (o : VF.Op) :
    step s (.sys (.minter o)) =
      match ifaceMsg o with
      | some (sender, m) => collExec s sender [] m
      | none => if isCreate o then .error .invalid else sysStep s (.minter o) := rfl

theorem step_sys_mint (s : State) (sender : Addr) (funds : List Coin) (stage alloc : Option Nat)
    (proof : Option (List (List Nat))) (picked : Nat) :
    step s (.sys (.mint sender funds stage alloc proof picked)) = sysStep s (.mint sender funds stage alloc proof picked) := rfl

theorem step_sys_wlInst (s : State) (v : WF.Variant) (sender : Addr) (funds : List Coin) (self : Addr) (m : WF.InstMsg) :
    step s (.sys (.wlInst v sender funds self m)) = sysStep s (.wlInst v sender funds self m) := rfl

theorem step_sys_wlExec (s : State) (k sender : Addr) (funds : List Coin) (m : WF.ExecMsg) :
    step s (.sys (.wlExec k sender funds m)) = sysStep s (.wlExec k sender funds m) := rfl

/-- a `Sys` op either is a collection-interface op (executed as a `CF` message), or the refused `create`, or goes to `sysStep` -/
theorem step_sys_cases (s : State) (o : Sys.Op) :
    (∃ vo sender m, o = .minter vo ∧ ifaceMsg vo = some (sender, m) ∧ step s (.sys o) = collExec s sender [] m) ∨
    (∃ vo, o = .minter vo ∧ isCreate vo = true ∧ step s (.sys o) = .error .invalid) ∨
    (plainOp o = true ∧ step s (.sys o) = sysStep s o) := by
  cases o with
  | minter vo =>
    cases hi : ifaceMsg vo with
    | some p =>
      obtain ⟨sender, m⟩ := p
      exact Or.inl ⟨vo, sender, m, rfl, hi, by rw [step_sys_minter, hi]⟩
    | none =>
      cases hc : isCreate vo with
      | true => exact Or.inr (Or.inl ⟨vo, rfl, hc, by rw [step_sys_minter, hi]; simp [hc]⟩)
      | false => exact Or.inr (Or.inr ⟨by simp [plainOp, hi, hc], by rw [step_sys_minter, hi]; simp [hc]⟩)
  | mint sender funds stage alloc proof picked => exact Or.inr (Or.inr ⟨rfl, rfl⟩)
  | wlInst v sender funds self m => exact Or.inr (Or.inr ⟨rfl, rfl⟩)
  | wlExec k sender funds m => exact Or.inr (Or.inr ⟨rfl, rfl⟩)

/-- interface messages are never `Mint` and emit no bank message -/
theorem iface_not_mint {vo : VF.Op} {sender : Addr} {m : CF.ExecMsg} (h : ifaceMsg vo = some (sender, m)) :
    isMintMsg m = false ∧ ∀ self, CF.responseMsgs self [] m = [] := by
  cases vo <;> simp only [ifaceMsg, reduceCtorEq, Option.some.injEq, Prod.mk.injEq] at h
  case collOwn sd a =>
    cases a <;> simp only [Option.some.injEq, Prod.mk.injEq] at h <;> obtain ⟨_, rfl⟩ := h <;>
      exact ⟨rfl, fun _ => rfl⟩
  all_goals (obtain ⟨_, rfl⟩ := h; exact ⟨rfl, fun _ => rfl⟩)

theorem setSys_mc_none (s : State) (r : Sys.State) (b : MintPay.Bank) : (setSys s r b none).mc = none := by
  simp only [setSys]; cases r.minter <;> rfl

theorem setSys_mc_some (s : State) (r : Sys.State) (b : MintPay.Bank) (c : CF.Coll) :
    (setSys s r b (some c)).mc = r.minter.map fun vm => (ofVm vm, c) := by
  simp only [setSys]; cases r.minter <;> rfl

/-! ## `Good` is an invariant -/

theorem good_step {s s' : State} {op : Op} (hg : Good s) (h : step s op = .ok s') : Good s' := by
  have hcoll : ∀ {sender funds msg}, collExec s sender funds msg = .ok s' → Good s' := by
    intro sender funds msg hx
    obtain ⟨m, c, b1, core', b2, hmc, _, hex, _, rfl⟩ := collExec_ok hx
    intro m' c' hmc'
    simp only [Option.some.injEq, Prod.mk.injEq] at hmc'
    obtain ⟨rfl, rfl⟩ := hmc'
    obtain ⟨hn, hl⟩ := hg m c hmc
    exact ⟨nodup_eff hn (Sg721.exec_eff' hex).2, hl⟩
  have hsys : ∀ {o}, sysStep s o = .ok s' → Good s' := by
    intro o hx
    obtain ⟨r, hr, hcase⟩ := sysStep_ok hx
    rcases hcase with ⟨hmc, rfl⟩ | ⟨m, c, msg, bank, c', hmc, hmsg, hrun, rfl⟩
    · intro m' c' hmc'
      rw [setSys_mc_none] at hmc'; cases hmc'
    · intro m' c'' hmc'
      obtain ⟨hn, hl⟩ := hg m c hmc
      have hc'' : c'' = c' := by
        rw [setSys_mc_some] at hmc'
        cases hrm : r.minter with
        | none => rw [hrm] at hmc'; cases hmc'
        | some vm =>
          rw [hrm] at hmc'
          simp only [Option.map_some, Option.some.injEq, Prod.mk.injEq] at hmc'
          exact hmc'.2.symm
      subst hc''
      rcases runSub_ok hrun with ⟨_, _, rfl⟩ | ⟨mm, core', _, hex, _, rfl⟩
      · exact ⟨hn, hl⟩
      · exact ⟨nodup_eff hn (Sg721.exec_eff' hex).2, hl⟩
  cases op with
  | sys o =>
    rcases step_sys_cases s o with ⟨vo, sender, m, rfl, _, hs⟩ | ⟨vo, rfl, _, hs⟩ | ⟨_, hs⟩
    · rw [hs] at h; exact hcoll h
    · rw [hs] at h; cases h
    · rw [hs] at h; exact hsys h
  | create sender funds msg w ci =>
    obtain ⟨r, vm, core, ck, trading, sup, _, hvm, _, _, _, _, _, _, _, _, hcore, rfl⟩ := create_parts h
    intro m' c' hmc'
    rw [setSys_mc_some, hvm] at hmc'
    simp only [Option.map_some, Option.some.injEq, Prod.mk.injEq] at hmc'
    obtain ⟨_, rfl⟩ := hmc'
    obtain ⟨_, ht, _⟩ := sg_instantiate_ok hcore
    exact ⟨by simp [Sg721.State.ids, ht], rfl⟩
  | block hh t =>
    simp only [step] at h
    split at h
    · cases h
    · cases h; exact hg
  | collExec sender funds msg => exact hcoll h
  | collMigrateUpdatable =>
    obtain ⟨m, c, c', hmc, rfl, hx⟩ := collEnv_parts h (Or.inl rfl)
    obtain ⟨hn, hl⟩ := hg m c hmc
    intro m' c'' hmc'
    simp only [Option.some.injEq, Prod.mk.injEq] at hmc'
    obtain ⟨rfl, rfl⟩ := hmc'
    rcases hx with ⟨_, hf⟩ | ⟨hx, _⟩ | ⟨v, hx, _⟩
    · obtain ⟨_, h2, _, _, h5, _⟩ := migrateUpdatable_view hl hf
      exact ⟨by rw [h2]; exact hn, h5⟩
    · cases hx
    · cases hx
  | collMigrateSelf =>
    obtain ⟨m, c, c', hmc, rfl, hx⟩ := collEnv_parts h (Or.inr (Or.inl rfl))
    obtain ⟨hn, hl⟩ := hg m c hmc
    intro m' c'' hmc'
    simp only [Option.some.injEq, Prod.mk.injEq] at hmc'
    obtain ⟨rfl, rfl⟩ := hmc'
    rcases hx with ⟨hx, _⟩ | ⟨_, hf⟩ | ⟨v, hx, _⟩
    · cases hx
    · obtain ⟨_, h2, _, _, h5, _⟩ := migrateSelf_view hl hf
      exact ⟨by rw [h2]; exact hn, h5⟩
    · cases hx
  | collSetVersion v =>
    obtain ⟨m, c, c', hmc, rfl, hx⟩ := collEnv_parts h (Or.inr (Or.inr ⟨v, rfl⟩))
    obtain ⟨hn, hl⟩ := hg m c hmc
    intro m' c'' hmc'
    simp only [Option.some.injEq, Prod.mk.injEq] at hmc'
    obtain ⟨rfl, rfl⟩ := hmc'
    rcases hx with ⟨hx, _⟩ | ⟨hx, _⟩ | ⟨v', _, rfl⟩
    · cases hx
    · cases hx
    · exact ⟨hn, hl⟩

theorem good_step' {s : State} (op : Op) (hg : Good s) : Good (step' s op) := by
  rcases step'_cases s op with ⟨s', hs, hs'⟩ | ⟨_, hs'⟩
  · rw [hs']; exact good_step hg hs
  · rw [hs']; exact hg

theorem good_run {s : State} (ops : List Op) (hg : Good s) : Good (run s ops) :=
  run_inv Good (fun _ op h => good_step' op h) s hg ops

theorem good_init (height now : Nat) (codes : VF.Codes) (fac : Addr) (p : VF.Params) : Good (init height now codes fac p) := by
  intro m c h; cases h

end LP.Sys2

namespace LP.Sys2
open LP

/-! ## the `Sys` simulation -/

/-- the `Sys` ops of an accepted collection message (none without a collection) -/
def collOpsOf (s : State) (sender : Addr) (msg : CF.ExecMsg) : List Sys.Op :=
  match s.mc with
  | some (_, c) => collOps c.core sender msg
  | none => []

/-- the `Sys` ops one `Sys2` step is for the simplified interface -/
def sysOps (s : State) (op : Op) : List Sys.Op :=
  if accepted s op then
    match op with
    | .sys (.minter o) =>
      match ifaceMsg o with
      | some (sender, msg) => collOpsOf s sender msg
      | none => [.minter o]
    | .sys o => [o]
    | .create sender funds msg w _ => [.minter (.create sender funds { msg with collOk := true } w)]
    | .block _ t => [.minter (.setTime t)]
    | .collExec sender _ msg => collOpsOf s sender msg
    | _ => []
  else []

/-- the bank the `Sys` ops run on: coins attached to a collection message move between accounts outside the `Sys` family -/
def sysBank (s : State) (op : Op) : MintPay.Bank :=
  match op with
  | .collExec _ _ _ => (step' s op).bank
  | _ => s.bank

/-- the two events the simplified interface has no op for: an accepted direct `Mint` sent to the collection, and an accepted
migration of an sg721-base collection to the sg721-updatable code -/
def Foreign (s : State) (op : Op) : Prop :=
  accepted s op = true ∧
  match op with
  | .collExec _ _ msg => isMintMsg msg = true
  | .collMigrateUpdatable => ∃ m c, s.mc = some (m, c) ∧ c.core.kind = .base
  | _ => False

theorem sysOf_bank_self (s : State) : { sysOf s with bank := s.bank } = sysOf s := rfl

theorem sys_run_one (S : Sys.State) (o : Sys.Op) : Sys.run S [o] = Sys.step' S o := rfl

/-- an accepted collection message (not `Mint`) on the view -/
theorem sys_collExec {s s' : State} {sender : Addr} {funds : List Coin} {msg : CF.ExecMsg} (hg : Good s)
    (hm : isMintMsg msg = false) (h : collExec s sender funds msg = .ok s') :
    sysOf s' = Sys.run { sysOf s with bank := s'.bank } (collOpsOf s sender msg) := by
  obtain ⟨m, c, b1, core', b2, hmc, _, hex, _, rfl⟩ := collExec_ok h
  simp only [collOpsOf, hmc]
  rw [sys_coll_msg { sysOf s with bank := b2 } m c core' sender funds s.block msg (sysOf_minter_some hmc) (hg m c hmc).1 hm hex]
  rfl

theorem iface_bank {s s' : State} {vo : VF.Op} {sender : Addr} {msg : CF.ExecMsg} (hi : ifaceMsg vo = some (sender, msg))
    (h : collExec s sender [] msg = .ok s') : s'.bank = s.bank := by
  obtain ⟨m, c, b1, core', b2, _, hb1, _, hb2, rfl⟩ := collExec_ok h
  simp only [MintPay.Bank.sendFunds, Option.some.injEq] at hb1
  subst hb1
  rw [(iface_not_mint hi).2 c.self] at hb2
  simp only [MintPay.applyMsgs, Option.some.injEq] at hb2
  exact hb2.symm

/-- **`Sys2` refines `Sys`, one step**: for every state whose collection is `Good` and every op that is not one of the two
foreign events, the view of the post-state is the `Sys` run of `sysOps` from the view of the pre-state (on the bank of the
post-state when coins were attached to a collection message) -/
theorem sys_step (s : State) (op : Op) (hg : Good s) (hf : ¬ Foreign s op) :
    sysOf (step' s op) = Sys.run { sysOf s with bank := sysBank s op } (sysOps s op) := by
  rcases step'_cases s op with ⟨s', hs, hs'⟩ | ⟨⟨e, he⟩, hs'⟩
  · rw [hs']
    have hacc := accepted_ok hs
    cases op with
    | sys o =>
      simp only [sysBank]
      rcases step_sys_cases s o with ⟨vo, sender, m, rfl, hi, hst⟩ | ⟨vo, rfl, _, hst⟩ | ⟨hp, hst⟩
      · rw [hst] at hs
        simp only [sysOps, hacc, if_true, hi]
        rw [sys_collExec hg (iface_not_mint hi).1 hs, iface_bank hi hs]
      · rw [hst] at hs; cases hs
      · rw [hst] at hs
        have hex := sysStep_exact hp hs
        have hops : sysOps s (.sys o) = [o] := by
          simp only [sysOps, hacc, if_true]
          cases o with
          | minter vo =>
            simp only [plainOp, Bool.and_eq_true, Option.isNone_iff_eq_none] at hp
            simp only [hp.1]
          | mint _ _ _ _ _ _ => rfl
          | wlInst _ _ _ _ _ => rfl
          | wlExec _ _ _ _ => rfl
        rw [hops, sys_run_one, sysOf_bank_self, Sys.step'_ok hex]
    | create sender funds msg w ci =>
      simp only [sysBank, sysOps, hacc, if_true]
      rw [sys_run_one, sysOf_bank_self, Sys.step'_ok (create_exact hs)]
    | block hh t =>
      simp only [sysBank, sysOps, hacc, if_true]
      simp only [step] at hs
      split at hs
      · cases hs
      · rename_i ht
        cases hs
        rw [sys_run_one, sysOf_bank_self]
        have : Sys.step (sysOf s) (.minter (.setTime t)) = .ok { sysOf s with now := t } := by
          simp only [Sys.step, Sys.witnessed, Bool.false_eq_true, if_false, VF.step]
          have ht' : ¬ t < (Sys.vfOf (sysOf s)).now := ht
          simp only [ht', if_false]
          rfl
        rw [Sys.step'_ok this]
        rfl
    | collExec sender funds msg =>
      have hm : isMintMsg msg = false := by
        cases hx : isMintMsg msg with
        | false => rfl
        | true => exact absurd ⟨hacc, hx⟩ hf
      simp only [sysBank, sysOps, hacc, if_true, hs']
      exact sys_collExec hg hm hs
    | collMigrateUpdatable =>
      simp only [sysBank, sysOps, hacc, if_true]
      obtain ⟨m, c, c', hmc, rfl, hx⟩ := collEnv_parts hs (Or.inl rfl)
      rcases hx with ⟨_, hmig⟩ | ⟨hx, _⟩ | ⟨v, hx, _⟩
      · obtain ⟨h1, _, _, h4, _, _⟩ := migrateUpdatable_view (hg m c hmc).2 hmig
        have hk : c.core.kind = .updatable := by
          have hnb : c.core.kind ≠ .base := fun hb => hf ⟨hacc, m, c, hmc, hb⟩
          -- the migration accepts only sg721-base and sg721-updatable names
          have hcore := CF.migrateUpdatable_core c s.now (hg m c hmc).2
          rw [hmig] at hcore
          have hm2 : Sg721.migrateToUpdatable c.core s.now = .ok c'.core := okOf_ok hcore.symm
          simp only [Sg721.migrateToUpdatable, Sg721.ensure_ok, Bool.or_eq_true, decide_eq_true_eq] at hm2
          rcases hm2.1 with hb | hu
          · exact absurd hb hnb
          · exact hu
        have : vmOf m c' = vmOf m c := by
          simp only [vmOf, h1, h4]
          congr 1
          simp [ttView, hk, ttKind]
        simp only [Sys.run, List.foldl_nil, sysOf, hmc, Option.map_some, this]
      · cases hx
      · cases hx
    | collMigrateSelf =>
      simp only [sysBank, sysOps, hacc, if_true]
      obtain ⟨m, c, c', hmc, rfl, hx⟩ := collEnv_parts hs (Or.inr (Or.inl rfl))
      rcases hx with ⟨hx, _⟩ | ⟨_, hmig⟩ | ⟨v, hx, _⟩
      · cases hx
      · obtain ⟨h1, _, _, h4, _, _⟩ := migrateSelf_view (hg m c hmc).2 hmig
        have : vmOf m c' = vmOf m c := by simp only [vmOf, h1, h4]
        simp only [Sys.run, List.foldl_nil, sysOf, hmc, Option.map_some, this]
      · cases hx
    | collSetVersion v =>
      simp only [sysBank, sysOps, hacc, if_true]
      obtain ⟨m, c, c', hmc, rfl, hx⟩ := collEnv_parts hs (Or.inr (Or.inr ⟨v, rfl⟩))
      rcases hx with ⟨hx, _⟩ | ⟨hx, _⟩ | ⟨v', _, rfl⟩
      · cases hx
      · cases hx
      · simp only [Sys.run, List.foldl_nil, sysOf, hmc, Option.map_some]
        rfl
  · -- refused: nothing happens on either side
    rw [hs']
    have hb : sysBank s op = s.bank := by
      cases op <;> simp only [sysBank]
      rw [hs']
    simp only [sysOps, accepted_err he, Bool.false_eq_true, if_false, hb]
    rfl

end LP.Sys2

namespace LP.Sys2
open LP

/-! ## the two foreign events, exactly -/

/-- an accepted direct `Mint` to the collection (only its cw_ownable owner can send one): the view gains the token -/
theorem sys_foreign_mint {s s' : State} {sender : Addr} {funds : List Coin} {id : Nat} {owner : Addr} {uri : Option Nat}
    {ext : Nat} (h : collExec s sender funds (.mint id owner uri ext) = .ok s') :
    ∃ m c v', s.mc = some (m, c) ∧ c.core.ownership.owner = some sender ∧ (tokView c.core).mint id owner = some v' ∧
      sysOf s' = { sysOf s with bank := s'.bank,
                                minter := some { vmOf m c with supply := { (vmOf m c).supply with coll := v' } } } := by
  obtain ⟨m, c, b1, core', b2, hmc, _, hex, _, rfl⟩ := collExec_ok h
  obtain ⟨_, e⟩ := Sg721.exec_eff' hex
  simp only [CF.toExec] at e
  have hsim := CF.msg_sim c.core core' s.block sender funds _ hex
  simp only [CF.ttMsg, ← ttView_eq] at hsim
  have hv : c.core.ownership.owner = some sender ∧ (tokView c.core).mint id owner = some (tokView core') := by
    cases e with
    | mint _ _ _ _ ho _ hnone => exact ⟨ho, view_mint c.core id owner uri _ hnone⟩
  refine ⟨m, c, tokView core', hmc, hv.1, hv.2, ?_⟩
  simp only [sysOf, Option.map_some, vmOf_core]
  rw [hsim]
  rfl

/-- an accepted migration of an sg721-base collection to the sg721-updatable code: only the kind the interface records moves -/
theorem sys_foreign_migrate {s s' : State} (hg : Good s) (h : collEnv s .migrateUpdatable = .ok s') :
    ∃ m c, s.mc = some (m, c) ∧
      sysOf s' = { sysOf s with minter := some { vmOf m c with tt := { (vmOf m c).tt with kind := .updatable } } } := by
  obtain ⟨m, c, c', hmc, rfl, hx⟩ := collEnv_parts h (Or.inl rfl)
  rcases hx with ⟨_, hmig⟩ | ⟨hx, _⟩ | ⟨v, hx, _⟩
  · obtain ⟨h1, _, _, h4, _, _⟩ := migrateUpdatable_view (hg m c hmc).2 hmig
    refine ⟨m, c, hmc, ?_⟩
    simp only [sysOf, hmc, Option.map_some, vmOf, h1, h4]
  · cases hx
  · cases hx

/-! ## runs -/

/-- `Sys` runs closed under what a collection step can do that `Sys` has no op for: coins moved by transactions outside the
`Sys` family, a token minted directly in the collection by its cw_ownable owner, the migration base → updatable -/
inductive SysReach : Sys.State → Sys.State → Prop
  | refl (S : Sys.State) : SysReach S S
  | run {S0 S : Sys.State} (l : List Sys.Op) : SysReach S0 S → SysReach S0 (Sys.run S l)
  | bank {S0 S : Sys.State} (b : MintPay.Bank) : SysReach S0 S → SysReach S0 { S with bank := b }
  | mint {S0 S : Sys.State} {vm : VF.Minter} (id : Nat) (owner : Addr) (v' : Supply.Coll) :
      SysReach S0 S → S.minter = some vm → vm.supply.coll.mint id owner = some v' →
      SysReach S0 { S with minter := some { vm with supply := { vm.supply with coll := v' } } }
  | toUpdatable {S0 S : Sys.State} {vm : VF.Minter} :
      SysReach S0 S → S.minter = some vm →
      SysReach S0 { S with minter := some { vm with tt := { vm.tt with kind := .updatable } } }

theorem sys_step_reach (S0 : Sys.State) (s : State) (op : Op) (hg : Good s) (h : SysReach S0 (sysOf s)) :
    SysReach S0 (sysOf (step' s op)) := by
  by_cases hf : Foreign s op
  · obtain ⟨hacc, hcase⟩ := hf
    obtain ⟨s', hs⟩ := accepted_true hacc
    rw [step'_ok hs]
    cases op with
    | collExec sender funds msg =>
      simp only at hcase
      cases msg <;> simp only [isMintMsg, Bool.false_eq_true] at hcase
      case mint id owner uri ext =>
        obtain ⟨m, c, v', hmc, _, hv, hsys⟩ := sys_foreign_mint hs
        rw [hsys]
        have h1 : SysReach S0 { sysOf s with bank := s'.bank } := .bank _ h
        exact SysReach.mint id owner v' h1 (sysOf_minter_some hmc) hv
    | collMigrateUpdatable =>
      obtain ⟨m, c, hmc, hsys⟩ := sys_foreign_migrate hg hs
      rw [hsys]
      exact SysReach.toUpdatable h (sysOf_minter_some hmc)
    | sys o => exact absurd hcase (by simp)
    | create _ _ _ _ _ => exact absurd hcase (by simp)
    | block _ _ => exact absurd hcase (by simp)
    | collMigrateSelf => exact absurd hcase (by simp)
    | collSetVersion _ => exact absurd hcase (by simp)
  · rw [sys_step s op hg hf]
    exact .run _ (.bank _ h)

/-- **`Sys2` refines `Sys`, runs**: the view of every system-2 history is a `Sys` run interleaved with foreign bank movements,
direct mints by the collection's owner and the base → updatable migration -/
theorem sys_run (s : State) (ops : List Op) (hg : Good s) : SysReach (sysOf s) (sysOf (run s ops)) := by
  suffices h : ∀ S0 s, Good s → SysReach S0 (sysOf s) → SysReach S0 (sysOf (run s ops)) from h _ s hg (.refl _)
  induction ops with
  | nil => intro S0 s _ h; exact h
  | cons op ops ih => intro S0 s hg h; rw [run_cons]; exact ih S0 _ (good_step' op hg) (sys_step_reach S0 s op hg h)

/-- every `Sys.step'`-invariant that survives the three foreign events holds along `SysReach` — hence along system-2 runs -/
theorem sysReach_inv (P : Sys.State → Prop) (hstep : ∀ S op, P S → P (Sys.step' S op))
    (hbank : ∀ (S : Sys.State) (b : MintPay.Bank), P S → P { S with bank := b })
    (hmint : ∀ (S : Sys.State) (vm : VF.Minter) (id : Nat) (owner : Addr) (v' : Supply.Coll), P S → S.minter = some vm →
      vm.supply.coll.mint id owner = some v' → P { S with minter := some { vm with supply := { vm.supply with coll := v' } } })
    (hupd : ∀ (S : Sys.State) (vm : VF.Minter), P S → S.minter = some vm →
      P { S with minter := some { vm with tt := { vm.tt with kind := .updatable } } })
    {S0 S : Sys.State} (h0 : P S0) (h : SysReach S0 S) : P S := by
  induction h with
  | refl => exact h0
  | run l _ ih => exact Sys.run_inv P hstep _ ih l
  | bank b _ ih => exact hbank _ b ih
  | mint id owner v' _ hm hv ih => exact hmint _ _ id owner v' ih hm hv
  | toUpdatable _ hm ih => exact hupd _ _ ih hm

end LP.Sys2

namespace LP.Sys2
open LP

/-! ## the `CF` simulation -/

/-- the clock part of a minter-side op, as the collection sees it -/
def clockCfOps (s : State) : Sys.Op → List CF.Op
  | .minter (.setTime t) => [.block ⟨s.height, t⟩]
  | _ => []

/-- the sub-message the minter sends while handling `o`, as a `CF` op -/
def subCfOps (s : State) (o : Sys.Op) : List CF.Op :=
  match s.mc with
  | some (m, c) =>
    match subMsg m c (subOf o) with
    | .ok (some msg) => [.exec m.addr [] msg]
    | _ => []
  | none => []

/-- the collection's `instantiate` inside `CreateMinter` -/
def createCfOps (s : State) (sender : Addr) (funds : List Coin) (msg : VF.CreateMsg) (w : VF.CreateWit) (ci : CollInit) :
    List CF.Op :=
  match Sys.step (sysOf s) (.minter (.create sender funds { msg with collOk := true } w)) with
  | .ok r =>
    match r.minter with
    | some vm =>
      [.instantiate (cfKind vm.tt.kind) vm.addr [] ci.name ci.symbol (instMsg vm.addr msg.creator vm.tt.trading ci) vm.sg721]
    | none => []
  | .error _ => []

/-- the `CF` ops of one `Sys2` step -/
def cfOps (s : State) (op : Op) : List CF.Op :=
  match op with
  | .sys (.minter o) =>
    match ifaceMsg o with
    | some (sender, msg) => [.exec sender [] msg]
    | none => if accepted s op then clockCfOps s (.minter o) ++ subCfOps s (.minter o) else []
  | .sys o => if accepted s op then clockCfOps s o ++ subCfOps s o else []
  | .create sender funds msg w ci => if accepted s op then createCfOps s sender funds msg w ci else []
  | .block h t => if t < s.now then [] else [.block ⟨h, t⟩]
  | .collExec sender funds msg => [.exec sender funds msg]
  | .collMigrateUpdatable => [.migrateUpdatable]
  | .collMigrateSelf => [.migrateSelf]
  | .collSetVersion v => [.setVersion v]

/-- the bank the collection-side ops run on: what the minter-side handler (fees, payouts, whitelist transactions — all outside
the collection family) left -/
def cfBank (s : State) (op : Op) : MintPay.Bank :=
  match op with
  | .sys (.minter o) =>
    match ifaceMsg o with
    | some _ => s.bank
    | none => (step' s op).bank
  | .sys _ => (step' s op).bank
  | .create _ _ _ _ _ => (step' s op).bank
  | _ => s.bank

theorem cfOf_bank_self (s : State) : { cfOf s with bank := s.bank } = cfOf s := rfl
theorem cf_run_one (X : CF.State) (o : CF.Op) : CF.run X [o] = CF.step' X o := rfl

theorem step'_eq (s : State) (op : Op) : step' s op = match step s op with | .ok s' => s' | .error _ => s := rfl

/-- a migration / version step of the collection IS the `CF` step on `cfOf` -/
theorem cfOf_collEnv (s : State) (op : CF.Op) (hop : op = .migrateUpdatable ∨ op = .migrateSelf ∨ ∃ v, op = .setVersion v) :
    cfOf (match collEnv s op with | .ok s' => s' | .error _ => s) = CF.step' (cfOf s) op := by
  cases hmc : s.mc with
  | none =>
    have h1 : collEnv s op = .error .notFound := by simp [collEnv, hmc]
    have h2 : CF.step (cfOf s) op = .error .notFound := by
      rcases hop with rfl | rfl | ⟨v, rfl⟩ <;> simp [CF.step, CF.onColl, cfOf, hmc]
    rw [h1, CF.step'_err h2]
  | some mc =>
    obtain ⟨m, c⟩ := mc
    cases hq : CF.step (cfOf s) op with
    | error e =>
      have : collEnv s op = .error e := by
        simp only [collEnv, hmc]
        rw [hq]
      rw [this, CF.step'_err hq]
    | ok q =>
      have hq' := hq
      have hshape : ∃ c', q = { cfOf s with coll := some c' } := by
        rcases hop with rfl | rfl | ⟨v, rfl⟩ <;> simp only [CF.step] at hq' <;>
          obtain ⟨_, c', _, _, rfl⟩ := CF.onColl_ok hq' <;> exact ⟨c', rfl⟩
      obtain ⟨c', rfl⟩ := hshape
      have : collEnv s op = .ok { s with bank := s.bank, mc := some (m, c') } := by
        simp only [collEnv, hmc]
        rw [hq]
        rfl
      rw [this, CF.step'_ok hq]
      rfl

theorem runSub_some {b : Sg721.Block} {bank bank' : MintPay.Bank} {minter : Addr} {c c' : CF.Coll} {mm : CF.ExecMsg}
    (h : runSub b bank minter c (some mm) = .ok (bank', c')) :
    CF.exec ⟨b, bank, some c⟩ minter [] mm = .ok ⟨b, bank', some c'⟩ := by
  simp only [runSub] at h
  split at h
  · cases h
  · rename_i q hq
    obtain ⟨c0, b1, core', b2, hc, _, _, _, rfl⟩ := CF.exec_ok hq
    simp only at h
    cases h
    rw [hq]

/-- what an accepted `Sys` step does to the clock -/
theorem sys_now {S r : Sys.State} {o : Sys.Op} (h : Sys.step S o = .ok r) :
    (∃ t, o = .minter (.setTime t) ∧ r.now = t) ∨ ((∀ t, o ≠ .minter (.setTime t)) ∧ r.now = S.now) := by
  cases o with
  | minter vo =>
    obtain ⟨_, cst, hc, rfl⟩ := Sys.step_minter_ok h
    obtain ⟨_, _, _, _, h5⟩ := VF.step_frame hc
    cases vo with
    | setTime t =>
      left
      simp only [VF.step] at hc
      split at hc
      · cases hc
      · cases hc; exact ⟨t, rfl, rfl⟩
    | _ =>
      right
      refine ⟨(by intro t ht; cases ht), ?_⟩
      rcases h5 with ⟨t, ht⟩ | h5
      · cases ht
      · exact h5
  | mint sender funds stage alloc proof picked =>
    right
    obtain ⟨cst, hc, rfl⟩ := Sys.step_mint_ok h
    obtain ⟨_, _, _, _, h5⟩ := VF.step_frame hc
    refine ⟨(by intro t ht; cases ht), ?_⟩
    rcases h5 with ⟨t, ht⟩ | h5
    · simp [Sys.mintOp] at ht
    · exact h5
  | wlInst v sender funds self m =>
    right
    obtain ⟨_, q, w, _, _, _, rfl⟩ := Sys.step_wlInst_ok h
    exact ⟨(by intro t ht; cases ht), rfl⟩
  | wlExec k sender funds m =>
    right
    obtain ⟨w, q, w', _, _, _, _, rfl⟩ := Sys.step_wlExec_ok h
    exact ⟨(by intro t ht; cases ht), rfl⟩

theorem subOf_setTime (t : Nat) : subOf (.minter (.setTime t)) = .none := rfl

/-- the collection side of an accepted minter / whitelist / clock op -/
theorem cf_sysStep {s s' : State} {o : Sys.Op} (hp : plainOp o = true) (h : sysStep s o = .ok s') :
    cfOf s' = CF.run { cfOf s with bank := s'.bank } (clockCfOps s o ++ subCfOps s o) := by
  obtain ⟨r, hr, hcase⟩ := sysStep_ok h
  rcases hcase with ⟨hmc, rfl⟩ | ⟨m, c, msg, bank, c', hmc, hmsg, hrun, rfl⟩
  · have hsub : subCfOps s o = [] := by simp [subCfOps, hmc]
    rw [hsub, List.append_nil]
    have hcf : cfOf (setSys s r r.bank none) = ⟨⟨s.height, r.now⟩, r.bank, none⟩ := by
      simp only [cfOf, State.block, setSys_mc_none]
      rfl
    rw [hcf]
    rcases sys_now hr with ⟨t, rfl, ht⟩ | ⟨hne, hn⟩
    · simp only [clockCfOps, cf_run_one, CF.step', CF.step, cfOf, hmc, State.block, ht]
      rfl
    · have : clockCfOps s o = [] := by
        cases o with
        | minter vo => cases vo <;> first | rfl | exact absurd rfl (hne _)
        | _ => rfl
      rw [this, hn]
      simp only [CF.run, List.foldl_nil, cfOf, hmc, State.block]
      rfl
  · obtain ⟨vm', hm', _, _, _, _, hfop, htt⟩ := sys_effect hp (sysOf_minter_some hmc) hr
    obtain ⟨_, _, hb⟩ := sub_exact hfop htt hmsg hrun
    subst hb
    have hcf : cfOf (setSys s r r.bank (some c')) = ⟨⟨s.height, r.now⟩, r.bank, some c'⟩ := by
      simp only [cfOf, State.block, setSys_mc_some, hm']
      rfl
    rw [hcf]
    have hsub : subCfOps s o = match msg with | some mm => [.exec m.addr [] mm] | none => [] := by
      simp only [subCfOps, hmc, hmsg]
      cases msg <;> rfl
    rw [hsub]
    rcases sys_now hr with ⟨t, rfl, ht⟩ | ⟨hne, hn⟩
    · -- the clock: no sub-message
      rw [subOf_setTime] at hmsg
      simp only [subMsg, Except.ok.injEq] at hmsg
      subst hmsg
      rcases runSub_ok hrun with ⟨_, _, hc⟩ | ⟨_, _, hx, _⟩
      · subst hc
        simp only [clockCfOps, List.append_nil, cf_run_one, CF.step', CF.step, cfOf, hmc, State.block, ht]
        rfl
      · cases hx
    · have : clockCfOps s o = [] := by
        cases o with
        | minter vo => cases vo <;> first | rfl | exact absurd rfl (hne _)
        | _ => rfl
      rw [this, List.nil_append, hn]
      cases msg with
      | none =>
        rcases runSub_ok hrun with ⟨_, _, hc⟩ | ⟨_, _, hx, _⟩
        · subst hc
          simp only [CF.run, List.foldl_nil, cfOf, hmc, State.block]
          rfl
        · cases hx
      | some mm =>
        have hex := runSub_some hrun
        have hst : CF.step { cfOf s with bank := (setSys s r r.bank (some c')).bank } (.exec m.addr [] mm) =
            .ok ⟨s.block, r.bank, some c'⟩ := by
          simp only [CF.step, cfOf, hmc, Option.map_some]
          exact hex
        rw [cf_run_one, CF.step'_ok hst]
        rfl

/-- **`Sys2` refines `CF`, one step** (all states, all ops): the collection contract of the post-state is the `CF` run of
`cfOps` — its own `instantiate`, every message addressed to it from outside, the minter's sub-message, the block, the
migrations — from the collection contract of the pre-state, on the bank the rest of the system left -/
theorem cf_step (s : State) (op : Op) :
    cfOf (step' s op) = CF.run { cfOf s with bank := cfBank s op } (cfOps s op) := by
  cases op with
  | sys o =>
    rcases step_sys_cases s o with ⟨vo, sender, m, rfl, hi, hst⟩ | ⟨vo, rfl, hc, hst⟩ | ⟨hp, hst⟩
    · simp only [cfOps, cfBank, hi, cfOf_bank_self, cf_run_one]
      rw [step'_eq, hst]
      exact cfOf_collExec s sender [] m
    · have hni : ifaceMsg vo = none := by cases vo <;> simp [isCreate] at hc <;> rfl
      have hacc : accepted s (.sys (.minter vo)) = false := by simp [accepted, hst]
      simp only [cfOps, cfBank, hni, hacc, Bool.false_eq_true, if_false, step'_err hst]
      rfl
    · cases hs : sysStep s o with
      | error e =>
        have hst' : step s (.sys o) = .error e := by rw [hst, hs]
        have hacc : accepted s (.sys o) = false := accepted_err hst'
        have hb : cfBank s (.sys o) = s.bank := by
          cases o with
          | minter vo =>
            simp only [plainOp, Bool.and_eq_true, Option.isNone_iff_eq_none] at hp
            simp only [cfBank, hp.1, step'_err hst']
          | _ => simp only [cfBank, step'_err hst']
        have hops : cfOps s (.sys o) = [] := by
          cases o with
          | minter vo =>
            simp only [plainOp, Bool.and_eq_true, Option.isNone_iff_eq_none] at hp
            simp only [cfOps, hp.1, hacc, Bool.false_eq_true, if_false]
          | _ => simp only [cfOps, hacc, Bool.false_eq_true, if_false]
        rw [step'_err hst', hb, hops]
        rfl
      | ok s' =>
        have hst' : step s (.sys o) = .ok s' := by rw [hst, hs]
        have hacc : accepted s (.sys o) = true := accepted_ok hst'
        have hb : cfBank s (.sys o) = s'.bank := by
          cases o with
          | minter vo =>
            simp only [plainOp, Bool.and_eq_true, Option.isNone_iff_eq_none] at hp
            simp only [cfBank, hp.1, step'_ok hst']
          | _ => simp only [cfBank, step'_ok hst']
        have hops : cfOps s (.sys o) = clockCfOps s o ++ subCfOps s o := by
          cases o with
          | minter vo =>
            simp only [plainOp, Bool.and_eq_true, Option.isNone_iff_eq_none] at hp
            simp only [cfOps, hp.1, hacc, if_true]
          | _ => simp only [cfOps, hacc, if_true]
        rw [step'_ok hst', hb, hops]
        exact cf_sysStep hp hs
  | create sender funds msg w ci =>
    cases hs : step s (.create sender funds msg w ci) with
    | error e =>
      simp only [cfOps, cfBank, accepted_err hs, Bool.false_eq_true, if_false, step'_err hs]
      rfl
    | ok s' =>
      simp only [cfOps, cfBank, accepted_ok hs, if_true, step'_ok hs]
      obtain ⟨r, vm, q, hr, hvm, hq, rfl⟩ := create_ok hs
      obtain ⟨b1, core, _, hb1, hcore, rfl⟩ := CF.instantiate_ok hq
      simp only [MintPay.Bank.sendFunds, Option.some.injEq] at hb1
      subst hb1
      have hmc : s.mc = none := (create_parts hs).choose_spec.choose_spec.choose_spec.choose_spec.choose_spec.choose_spec.2.2.1
      have hn : r.now = s.now := by
        rcases sys_now hr with ⟨t, ht, _⟩ | ⟨_, hn⟩
        · cases ht
        · exact hn
      simp only [createCfOps, hr, hvm, cf_run_one]
      generalize hc0 : ({ core := core, self := vm.sg721, name := ci.name, symbol := ci.symbol, legacy := none } : CF.Coll) = c0 at hq ⊢
      have hst : CF.step { cfOf s with bank := r.bank } (.instantiate (cfKind vm.tt.kind) vm.addr [] ci.name ci.symbol
          (instMsg vm.addr msg.creator vm.tt.trading ci) vm.sg721) = .ok ⟨s.block, r.bank, some c0⟩ := by
        simp only [CF.step, cfOf, hmc, Option.map_none]
        exact hq
      have hb : (setSys s r r.bank (some c0)).bank = r.bank := rfl
      show cfOf (setSys s r r.bank (some c0)) = CF.step' { cfOf s with bank := (setSys s r r.bank (some c0)).bank } _
      rw [hb, CF.step'_ok hst]
      simp only [cfOf, State.block, setSys_mc_some, hvm, Option.map_some]
      show (⟨⟨s.height, r.now⟩, r.bank, _⟩ : CF.State) = _
      rw [hn]
  | block hh t =>
    simp only [cfOps, cfBank, cfOf_bank_self]
    by_cases ht : t < s.now
    · have : step s (.block hh t) = .error .invalid := by simp [step, ht]
      rw [step'_err this]
      simp [ht, CF.run]
    · have : step s (.block hh t) = .ok { s with height := hh, now := t } := by simp [step, ht]
      rw [step'_ok this]
      simp only [ht, if_false, cf_run_one]
      rfl
  | collExec sender funds msg =>
    simp only [cfOps, cfBank, cfOf_bank_self, cf_run_one]
    rw [step'_eq]
    exact cfOf_collExec s sender funds msg
  | collMigrateUpdatable =>
    simp only [cfOps, cfBank, cfOf_bank_self, cf_run_one]
    rw [step'_eq]
    exact cfOf_collEnv s .migrateUpdatable (Or.inl rfl)
  | collMigrateSelf =>
    simp only [cfOps, cfBank, cfOf_bank_self, cf_run_one]
    rw [step'_eq]
    exact cfOf_collEnv s .migrateSelf (Or.inr (Or.inl rfl))
  | collSetVersion v =>
    simp only [cfOps, cfBank, cfOf_bank_self, cf_run_one]
    rw [step'_eq]
    exact cfOf_collEnv s (.setVersion v) (Or.inr (Or.inr ⟨v, rfl⟩))

/-- no `cfOps` op is the environment op `setLegacy` (the collection is instantiated by today's code) -/
theorem cfOps_no_legacy (s : State) (op : Op) : ∀ o ∈ cfOps s op, CF.isSetLegacy o = false := by
  intro o ho
  have hsub : ∀ (x : Sys.Op), o ∈ clockCfOps s x ++ subCfOps s x → CF.isSetLegacy o = false := by
    intro x hx
    rcases List.mem_append.mp hx with h1 | h1
    · cases x with
      | minter vo => cases vo <;> simp [clockCfOps] at h1 <;> (subst h1; rfl)
      | _ => simp [clockCfOps] at h1
    · simp only [subCfOps] at h1
      split at h1
      · split at h1
        · simp only [List.mem_singleton] at h1; subst h1; rfl
        · cases h1
      · cases h1
  cases op with
  | sys x =>
    cases x with
    | minter vo =>
      simp only [cfOps] at ho
      split at ho
      · simp only [List.mem_singleton] at ho; subst ho; rfl
      · split at ho
        · exact hsub _ ho
        · cases ho
    | mint sender funds stage alloc proof picked =>
      simp only [cfOps] at ho
      split at ho
      · exact hsub _ ho
      · cases ho
    | wlInst v sender funds self m =>
      simp only [cfOps] at ho
      split at ho
      · exact hsub _ ho
      · cases ho
    | wlExec k sender funds m =>
      simp only [cfOps] at ho
      split at ho
      · exact hsub _ ho
      · cases ho
  | create sender funds msg w ci =>
    simp only [cfOps] at ho
    split at ho
    · simp only [createCfOps] at ho
      split at ho
      · split at ho
        · simp only [List.mem_singleton] at ho; subst ho; rfl
        · cases ho
      · cases ho
    · cases ho
  | block hh t =>
    simp only [cfOps] at ho
    split at ho
    · cases ho
    · simp only [List.mem_singleton] at ho; subst ho; rfl
  | collExec sender funds msg => simp only [cfOps, List.mem_singleton] at ho; subst ho; rfl
  | collMigrateUpdatable => simp only [cfOps, List.mem_singleton] at ho; subst ho; rfl
  | collMigrateSelf => simp only [cfOps, List.mem_singleton] at ho; subst ho; rfl
  | collSetVersion v => simp only [cfOps, List.mem_singleton] at ho; subst ho; rfl

/-- `CF` runs (without the environment op `setLegacy`) closed under bank movements of transactions outside the collection family -/
inductive CFReach : CF.State → CF.State → Prop
  | refl (X : CF.State) : CFReach X X
  | run {X0 X : CF.State} (l : List CF.Op) : (∀ o ∈ l, CF.isSetLegacy o = false) → CFReach X0 X → CFReach X0 (CF.run X l)
  | bank {X0 X : CF.State} (b : MintPay.Bank) : CFReach X0 X → CFReach X0 { X with bank := b }

/-- **`Sys2` refines `CF`, runs**: the collection contract along every system-2 history is a `CF` run interleaved with foreign
bank movements -/
theorem cf_run (s : State) (ops : List Op) : CFReach (cfOf s) (cfOf (run s ops)) := by
  suffices h : ∀ X0 s, CFReach X0 (cfOf s) → CFReach X0 (cfOf (run s ops)) from h _ s (.refl _)
  induction ops with
  | nil => intro X0 s h; exact h
  | cons op ops ih =>
    intro X0 s h
    rw [run_cons]
    refine ih X0 _ ?_
    rw [cf_step]
    exact .run _ (cfOps_no_legacy s op) (.bank _ h)

theorem cf_run_inv (P : CF.State → Prop) (hstep : ∀ X op, CF.isSetLegacy op = false → P X → P (CF.step' X op)) (X : CF.State)
    (h0 : P X) (l : List CF.Op) (hl : ∀ o ∈ l, CF.isSetLegacy o = false) : P (CF.run X l) := by
  induction l generalizing X with
  | nil => exact h0
  | cons op l ih =>
    exact ih _ (hstep X op (hl op (List.mem_cons_self ..)) h0) (fun o ho => hl o (List.mem_cons_of_mem _ ho))

/-- every invariant of `CF.step'` (over the ops other than the environment op `setLegacy`) that survives a foreign bank movement
holds along `CFReach` — hence of the collection contract along every system-2 run -/
theorem cfReach_inv (P : CF.State → Prop) (hstep : ∀ X op, CF.isSetLegacy op = false → P X → P (CF.step' X op))
    (hbank : ∀ (X : CF.State) (b : MintPay.Bank), P X → P { X with bank := b }) {X0 X : CF.State} (h0 : P X0)
    (h : CFReach X0 X) : P X := by
  induction h with
  | refl => exact h0
  | run l hl _ ih => exact cf_run_inv P hstep _ ih l hl
  | bank b _ ih => exact hbank _ b ih

end LP.Sys2
