import LaunchpadModel.Lemmas.WhitelistFullMembers4
import LaunchpadModel.Model.WlSchedule
import LaunchpadModel.Props.C12
/-!
# Composite whitelist model ⟶ C12 aspect model (`LP.WlSchedule`): single-stage kinds (whitelist, -flex, -merkletree)

`proj12` reads the schedule state off the composite state; `tr12` translates every composite op into the C12 op, computing the
witnesses C12 takes from the environment (`present`, the outcome of messages that never look at the schedule) from the
composite state. A message whose funds the bank does not deliver never reaches the contract: it translates to `.env false`.
-/
namespace LP.WF
open LP

/-- the single-stage crates with a schedule -/
def Flat (v : Variant) : Prop := v.tiered = false ∧ v.store ≠ .immutable

def kind12 (v : Variant) : WlSchedule.Variant :=
  match v.store with
  | .merkle => .merkle
  | _ => if v.flex then .flex else .plain

/-- projection onto the C12 aspect state -/
def proj12 (now : Nat) (w : Wl) : WlSchedule.State := ⟨now, w.start, w.end_, w.perAddr, w.admins, w.mutable_⟩

/-- C12's witness `present`: every listed address is stored and none is listed twice — computed by running the removal loop -/
def present12 (w : Wl) (as : List Addr) : Bool := okB (WlMembers.removeLoop as (w.numMembers, w.members, 0))

def tr12 (s : State) (w : Wl) : Op → WlSchedule.Op
  | .setTime t => .setTime t
  | .fund _ _ => .env true
  | .instantiate _ _ _ _ _ => .env false
  | .exec sender funds m =>
    if !(s.bank.sendFunds sender w.self funds).isSome then .env false
    else
      match m with
      | .updateStartTime t => .updateStart sender t
      | .updateEndTime t => .updateEnd sender t
      | .removeMembers _ as => .removeMembers sender (present12 w as)
      | .updatePerAddressLimit n => .updatePerAddr n (accepted s (.exec sender funds m))
      | .updateAdmins l => if l.all validAddr then .updateAdmins sender l else .env false
      | .freeze => .freeze sender
      | m => .env (accepted s (.exec sender funds m))

theorem proj12_tipped (now : Nat) (w : Wl) (funds : List Coin) : proj12 now (w.tipped funds) = proj12 now w := rfl

/-- conclusion of the one-step simulation -/
def Sim12 (s : State) (w : Wl) (op : Op) : Prop :=
  ∃ w', (step' s op).wl = some w' ∧ w'.v = w.v ∧
    proj12 (step' s op).now w' = WlSchedule.step' (kind12 w.v) (proj12 s.now w) (tr12 s w op)

theorem step'_exec_ok {s s' : State} {op : Op} (h : step s op = .ok s') : step' s op = s' := by simp [step', h]
theorem step'_exec_err {s : State} {op : Op} {e : Err} (h : step s op = .error e) : step' s op = s := by simp [step', h]

theorem sched_step'_ok {v : WlSchedule.Variant} {P P' : WlSchedule.State} {op : WlSchedule.Op}
    (h : WlSchedule.step v P op = .ok P') : WlSchedule.step' v P op = P' := by simp [WlSchedule.step', h]
theorem sched_step'_err {v : WlSchedule.Variant} {P : WlSchedule.State} {op : WlSchedule.Op} {e : Err}
    (h : WlSchedule.step v P op = .error e) : WlSchedule.step' v P op = P := by simp [WlSchedule.step', h]

/-- a message that charges nothing, delivered: the handler result `H` decides both sides -/
theorem nonfee_sim12 {s : State} {w : Wl} {sender : Addr} {funds : List Coin} {b1 : Bank} {m : ExecMsg}
    (hw : s.wl = some w) (hb : s.bank.sendFunds sender w.self funds = some b1)
    (H : Except Err Wl) (hh : handle w s.now sender funds m = liftKeep funds H)
    (hv : ∀ w', H = .ok w' → w'.v = w.v) (aop : WlSchedule.Op)
    (hop : tr12 s w (.exec sender funds m) = aop)
    (hok : ∀ w', H = .ok w' → WlSchedule.step (kind12 w.v) (proj12 s.now w) aop = .ok (proj12 s.now w'))
    (herr : ∀ e, H = .error e → ∃ e', WlSchedule.step (kind12 w.v) (proj12 s.now w) aop = .error e') :
    Sim12 s w (.exec sender funds m) := by
  unfold Sim12
  rw [hop]
  have hst := step_exec_eq m hw hb
  rw [hh] at hst
  cases H with
  | error e =>
    simp only [liftKeep] at hst
    obtain ⟨e', he'⟩ := herr e rfl
    rw [step'_exec_err hst, sched_step'_err he']
    exact ⟨w, hw, rfl, rfl⟩
  | ok w0 =>
    simp only [liftKeep, MintPay.applyMsgs] at hst
    rw [step'_exec_ok hst, sched_step'_ok (hok w0 rfl)]
    exact ⟨w0.tipped funds, rfl, hv w0 rfl, rfl⟩

/-- a transaction that fails, translated to an aspect op that fails -/
theorem err_sim12 {s : State} {w : Wl} {op : Op} (hw : s.wl = some w) {e : Err} (h : step s op = .error e)
    (h2 : ∃ e', WlSchedule.step (kind12 w.v) (proj12 s.now w) (tr12 s w op) = .error e') : Sim12 s w op := by
  obtain ⟨e', he'⟩ := h2
  unfold Sim12
  rw [step'_exec_err h, sched_step'_err he']
  exact ⟨w, hw, rfl, rfl⟩

theorem kind12_merkle {v : Variant} (h : v.store = .merkle) : kind12 v = .merkle := by simp [kind12, h]
theorem kind12_list {v : Variant} (h : v.store = .list) : kind12 v ≠ .merkle := by
  simp only [kind12, h]; split <;> simp

theorem accepted_false_of_err {s : State} {op : Op} {e : Err} (h : step s op = .error e) : accepted s op = false := by
  simp [accepted, h]

/-- messages C12 has no op of its own for -/
def schedFree : ExecMsg → Bool
  | .updateStartTime _ | .updateEndTime _ | .updatePerAddressLimit _ | .updateAdmins _ | .freeze => false
  | _ => true

/-- the messages that never look at the schedule leave the C12 projection alone (every variant) -/
theorem handle_frame12 {w w' : Wl} {now : Nat} {sender : Addr} {funds : List Coin} {m : ExecMsg} {msgs : List Msg}
    (h : handle w now sender funds m = .ok (w', msgs))
    (hm : schedFree m = true) : proj12 now w' = proj12 now w := by
  unfold handle at h
  split at h; · cases h
  simp only [] at h
  cases m with
  | updateStartTime t => exact absurd hm (by simp [schedFree])
  | updateEndTime t => exact absurd hm (by simp [schedFree])
  | updatePerAddressLimit n => exact absurd hm (by simp [schedFree])
  | updateAdmins l => exact absurd hm (by simp [schedFree])
  | freeze => exact absurd hm (by simp [schedFree])
  | unknown => cases h
  | increaseMemberLimit n =>
    simp only [] at h
    unfold increaseMemberLimit at h
    simp only [] at h
    split at h; · cases h
    split at h; · cases h
    split at h; · cases h
    split at h; · cases h
    simp only [Except.ok.injEq, Prod.mk.injEq] at h
    obtain ⟨rfl, _⟩ := h; rfl
  | updateStageConfig u =>
    simp only [] at h; split at h
    · rename_i w0 hh; simp only [Except.ok.injEq, Prod.mk.injEq] at h; obtain ⟨rfl, _⟩ := h
      unfold updateStageConfig at hh; split at hh; · cases hh
      split at hh; · cases hh
      simp only [] at hh
      split at hh; · cases hh
      simp only [Except.ok.injEq] at hh; subst hh; rfl
    · cases h
  | addMembers stage ms =>
    simp only [] at h; split at h
    · rename_i w0 hh; simp only [Except.ok.injEq, Prod.mk.injEq] at h; obtain ⟨rfl, _⟩ := h
      unfold addMembers at hh; split at hh; · cases hh
      simp only [] at hh
      split at hh
      · split at hh; · cases hh
        split at hh; · cases hh
        simp only [Except.ok.injEq] at hh; subst hh; rfl
      · split at hh; · cases hh
        simp only [Except.ok.injEq] at hh; subst hh; rfl
    · cases h
  | removeMembers stage as =>
    simp only [] at h; split at h
    · rename_i w0 hh; simp only [Except.ok.injEq, Prod.mk.injEq] at h; obtain ⟨rfl, _⟩ := h
      unfold removeMembers at hh; split at hh; · cases hh
      split at hh; · cases hh
      split at hh; · cases hh
      split at hh
      · split at hh; · cases hh
        split at hh; · cases hh
        simp only [Except.ok.injEq] at hh; subst hh; rfl
      · split at hh; · cases hh
        simp only [Except.ok.injEq] at hh; subst hh; rfl
    · cases h
  | addStage st ms =>
    simp only [] at h; split at h
    · rename_i w0 hh; simp only [Except.ok.injEq, Prod.mk.injEq] at h; obtain ⟨rfl, _⟩ := h
      unfold addStage at hh; split at hh; · cases hh
      split at hh; · cases hh
      simp only [] at hh
      split at hh; · cases hh
      split at hh; · cases hh
      simp only [Except.ok.injEq] at hh; subst hh; rfl
    · cases h
  | removeStage id =>
    simp only [] at h; split at h
    · rename_i w0 hh; simp only [Except.ok.injEq, Prod.mk.injEq] at h; obtain ⟨rfl, _⟩ := h
      unfold removeStage at hh; split at hh; · cases hh
      split at hh; · cases hh
      split at hh; · cases hh
      simp only [] at hh
      split at hh; · cases hh
      simp only [Except.ok.injEq] at hh; subst hh; rfl
    · cases h

/-- a delivered message C12 has no op for: the aspect op is `.env accepted` -/
theorem env_sim12 {s : State} {w : Wl} {sender : Addr} {funds : List Coin} {m : ExecMsg}
    (hw : s.wl = some w)
    (htr : tr12 s w (.exec sender funds m) = .env (accepted s (.exec sender funds m)))
    (hm : schedFree m = true) : Sim12 s w (.exec sender funds m) := by
  rcases step'_cases s (.exec sender funds m) with ⟨s', hok, hs'⟩ | ⟨⟨e, herr⟩, hs'⟩
  · unfold Sim12
    rw [htr, accepted_of_ok hok, hs']
    have hok' := hok
    simp only [step] at hok'
    obtain ⟨w0, b1, w1, msgs, b2, hw0, _, hh, _, rfl⟩ := execute_ok hok'
    rw [hw] at hw0; cases hw0
    refine ⟨w1, rfl, (handle_frame hh).2.1, ?_⟩
    simp only [WlSchedule.step', WlSchedule.step, if_true]
    exact handle_frame12 hh hm
  · apply err_sim12 hw herr
    rw [htr, accepted_false_of_err herr]
    exact ⟨.other, by simp [WlSchedule.step]⟩

theorem gen_max (t : Nat) : (if t < GENESIS then GENESIS else t) = max t WlSchedule.GENESIS := by
  show (if t < GENESIS then GENESIS else t) = max t GENESIS
  by_cases h : t < GENESIS
  · simp [h, Nat.max_eq_right (Nat.le_of_lt h)]
  · simp [h, Nat.max_eq_left (Nat.le_of_not_lt h)]

theorem sched_freeze (v : WlSchedule.Variant) (P : WlSchedule.State) (a : Addr) :
    WlSchedule.step v P (.freeze a) =
      if WlSchedule.canModify P a then .ok { P with adminsMutable := false } else .error .unauthorized := by
  unfold WlSchedule.step
  cases h : WlSchedule.canModify P a <;> simp [h]

theorem sched_updateAdmins (v : WlSchedule.Variant) (P : WlSchedule.State) (a : Addr) (l : List Addr) :
    WlSchedule.step v P (.updateAdmins a l) =
      if WlSchedule.canModify P a then .ok { P with admins := l } else .error .unauthorized := by
  unfold WlSchedule.step
  cases h : WlSchedule.canModify P a <;> simp [h]

theorem canModify_proj (now : Nat) (w : Wl) (a : Addr) : WlSchedule.canModify (proj12 now w) a = canModify w a := rfl

theorem supports_flat {v : Variant} (hf : Flat v) :
    (∀ t, supports v (.updateStartTime t) = true) ∧ (∀ t, supports v (.updateEndTime t) = true) ∧
    (∀ l, supports v (.updateAdmins l) = true) ∧ supports v .freeze = true := by
  obtain ⟨ht, hi⟩ := hf
  have : v.isImmutable = false := by
    simp only [Variant.isImmutable]; cases hs : v.store <;> simp_all
  simp [supports, this, ht]

/-- **one-step simulation for C12** (single-stage kinds; every op but `instantiate`) -/
theorem step_sim12 {s : State} {w : Wl} (hw : s.wl = some w) (hf : Flat w.v) (op : Op)
    (hni : ∀ v sender funds self m, op ≠ .instantiate v sender funds self m) : Sim12 s w op := by
  obtain ⟨hsS, hsE, hsA, hsF⟩ := supports_flat hf
  cases op with
  | setTime t => exact ⟨w, hw, rfl, rfl⟩
  | fund a c => exact ⟨w, hw, rfl, rfl⟩
  | instantiate v sender funds self m => exact absurd rfl (hni v sender funds self m)
  | exec sender funds m =>
    cases hb : s.bank.sendFunds sender w.self funds with
    | none =>
      have herr : step s (.exec sender funds m) = .error .payment := by simp [step, execute, hw, hb]
      apply err_sim12 hw herr
      exact ⟨.other, by simp [tr12, hb, WlSchedule.step]⟩
    | some b1 =>
      cases m with
      | updateStartTime t =>
        have hh : handle w s.now sender funds (.updateStartTime t) = liftKeep funds (updateStartTime w s.now sender t) := by
          simp only [handle, hsS, Bool.not_true, Bool.false_eq_true, if_false]; exact liftKeep_eq w funds _
        apply nonfee_sim12 hw hb _ hh _ (.updateStart sender t) (by simp [tr12, hb])
        · intro w' h
          unfold updateStartTime at h
          split at h; · cases h
          split at h; · cases h
          split at h; · cases h
          rename_i h1 h2 h3
          simp only [Except.ok.injEq] at h; subst h
          have h1' : WlSchedule.isAdmin (proj12 s.now w) sender = true := by simpa [isAdmin, WlSchedule.isAdmin, proj12] using h1
          refine (C12_update_start_iff _ _ _ _ _).2 ⟨⟨h1', by show s.now < w.start; omega, by show t ≤ w.end_; omega⟩, ?_⟩
          simp only [proj12, gen_max]
        · intro e h
          cases hx : WlSchedule.step (kind12 w.v) (proj12 s.now w) (.updateStart sender t) with
          | error e' => exact ⟨e', rfl⟩
          | ok P' =>
            exfalso
            obtain ⟨⟨g1, g2, g3⟩, _⟩ := (C12_update_start_iff _ _ _ _ _).1 hx
            have g1' : isAdmin w sender = true := g1
            have g2' : ¬ s.now ≥ w.start := by have : s.now < w.start := g2; omega
            have g3' : ¬ t > w.end_ := by have : t ≤ w.end_ := g3; omega
            simp [updateStartTime, g1', g2', g3'] at h
        · intro w' h
          unfold updateStartTime at h
          split at h; · cases h
          split at h; · cases h
          split at h; · cases h
          simp only [Except.ok.injEq] at h; subst h; rfl
      | updateEndTime t =>
        have hh : handle w s.now sender funds (.updateEndTime t) = liftKeep funds (updateEndTime w s.now sender t) := by
          simp only [handle, hsE, Bool.not_true, Bool.false_eq_true, if_false]; exact liftKeep_eq w funds _
        apply nonfee_sim12 hw hb _ hh _ (.updateEnd sender t) (by simp [tr12, hb])
        · intro w' h
          unfold updateEndTime at h
          split at h; · cases h
          split at h; · cases h
          split at h; · cases h
          rename_i h1 h2 h3
          simp only [Except.ok.injEq] at h; subst h
          have h1' : WlSchedule.isAdmin (proj12 s.now w) sender = true := by simpa [isAdmin, WlSchedule.isAdmin, proj12] using h1
          simp only [Bool.and_eq_true, decide_eq_true_eq, not_and] at h2
          refine (C12_update_end_iff _ _ _ _ _).2 ⟨⟨h1', by show w.start ≤ t; omega, ?_⟩, rfl⟩
          show s.now < w.start ∨ t ≤ w.end_
          by_cases hc : s.now ≥ w.start
          · right; have := h2 hc; omega
          · left; omega
        · intro e h
          cases hx : WlSchedule.step (kind12 w.v) (proj12 s.now w) (.updateEnd sender t) with
          | error e' => exact ⟨e', rfl⟩
          | ok P' =>
            exfalso
            obtain ⟨⟨g1, g2, g3⟩, _⟩ := (C12_update_end_iff _ _ _ _ _).1 hx
            have g1' : isAdmin w sender = true := g1
            have g2' : ¬ t < w.start := by have : w.start ≤ t := g2; omega
            have g3' : (decide (s.now ≥ w.start) && decide (t > w.end_)) = false := by
              have : s.now < w.start ∨ t ≤ w.end_ := g3
              cases hx2 : (decide (s.now ≥ w.start) && decide (t > w.end_)) with
              | false => rfl
              | true => simp only [Bool.and_eq_true, decide_eq_true_eq] at hx2; omega
            simp [updateEndTime, g1', g2', g3'] at h
        · intro w' h
          unfold updateEndTime at h
          split at h; · cases h
          split at h; · cases h
          split at h; · cases h
          simp only [Except.ok.injEq] at h; subst h; rfl
      | freeze =>
        have hh : handle w s.now sender funds .freeze = liftKeep funds (freeze w sender) := by
          simp only [handle, hsF, Bool.not_true, Bool.false_eq_true, if_false]; exact liftKeep_eq w funds _
        apply nonfee_sim12 hw hb _ hh _ (.freeze sender) (by simp [tr12, hb])
        · intro w' h
          unfold freeze at h
          split at h; · cases h
          rename_i h1
          simp only [Except.ok.injEq] at h; subst h
          have h1' : canModify w sender = true := by simpa using h1
          rw [sched_freeze, canModify_proj, h1']; rfl
        · intro e h
          unfold freeze at h
          split at h
          · rename_i h1
            have h1' : canModify w sender = false := by simpa using h1
            rw [sched_freeze, canModify_proj, h1']; exact ⟨_, rfl⟩
          · cases h
        · intro w' h
          unfold freeze at h
          split at h; · cases h
          simp only [Except.ok.injEq] at h; subst h; rfl
      | updateAdmins l =>
        have hh : handle w s.now sender funds (.updateAdmins l) = liftKeep funds (updateAdmins w sender l) := by
          simp only [handle, hsA, Bool.not_true, Bool.false_eq_true, if_false]; exact liftKeep_eq w funds _
        by_cases hval : l.all validAddr = true
        · apply nonfee_sim12 hw hb _ hh _ (.updateAdmins sender l) (by simp [tr12, hb, hval])
          · intro w' h
            unfold updateAdmins at h
            split at h; · cases h
            split at h; · cases h
            rename_i h1 h2
            simp only [Except.ok.injEq] at h; subst h
            have h1' : canModify w sender = true := by simpa using h1
            rw [sched_updateAdmins, canModify_proj, h1']; rfl
          · intro e h
            unfold updateAdmins at h
            split at h
            · rename_i h1
              have h1' : canModify w sender = false := by simpa using h1
              rw [sched_updateAdmins, canModify_proj, h1']; exact ⟨_, rfl⟩
            · rw [hval] at h; simp at h
          · intro w' h
            unfold updateAdmins at h
            split at h; · cases h
            split at h; · cases h
            simp only [Except.ok.injEq] at h; subst h; rfl
        · have hval' : l.all validAddr = false := by
            cases hx : l.all validAddr with
            | true => exact absurd hx hval
            | false => rfl
          have herr : ∃ e, step s (.exec sender funds (.updateAdmins l)) = .error e := by
            rw [step_exec_eq _ hw hb, hh]
            have : ∃ e, updateAdmins w sender l = .error e := by
              unfold updateAdmins
              split
              · exact ⟨_, rfl⟩
              · rw [hval']; exact ⟨_, rfl⟩
            obtain ⟨e, he⟩ := this
            rw [he]; exact ⟨e, rfl⟩
          obtain ⟨e, herr⟩ := herr
          apply err_sim12 hw herr
          exact ⟨.other, by simp [tr12, hb, hval', WlSchedule.step]⟩
      | updatePerAddressLimit n =>
        by_cases hsup : supports w.v (.updatePerAddressLimit n) = true
        · have hh : handle w s.now sender funds (.updatePerAddressLimit n) = liftKeep funds (updatePerAddressLimit w sender n) := by
            simp only [handle, hsup, Bool.not_true, Bool.false_eq_true, if_false]; exact liftKeep_eq w funds _
          have hacc := accepted_nonfee hw hb _ hh
          apply nonfee_sim12 hw hb _ hh _ (.updatePerAddr n (okB (updatePerAddressLimit w sender n)))
            (by simp [tr12, hb, hacc])
          · intro w' h
            rw [h]
            unfold updatePerAddressLimit at h
            split at h; · cases h
            split at h; · cases h
            simp only [Except.ok.injEq] at h; subst h
            simp [WlSchedule.step, okB, proj12]
          · intro e h
            rw [h]; exact ⟨.other, by simp [WlSchedule.step, okB]⟩
          · intro w' h
            unfold updatePerAddressLimit at h
            split at h; · cases h
            split at h; · cases h
            simp only [Except.ok.injEq] at h; subst h; rfl
        · have herr : step s (.exec sender funds (.updatePerAddressLimit n)) = .error .invalid := by
            rw [step_exec_eq _ hw hb]; simp [handle, hsup]
          apply err_sim12 hw herr
          exact ⟨.other, by simp [tr12, hb, accepted_false_of_err herr, WlSchedule.step]⟩
      | removeMembers stage as =>
        cases hst : w.v.store with
        | immutable => exact absurd hst hf.2
        | merkle =>
          have hsup : supports w.v (.removeMembers stage as) = false := by simp [supports, Variant.isList, hst]
          have herr : step s (.exec sender funds (.removeMembers stage as)) = .error .invalid := by
            rw [step_exec_eq _ hw hb]; simp [handle, hsup]
          apply err_sim12 hw herr
          exact ⟨.invalid, by simp [tr12, hb, WlSchedule.step, kind12_merkle hst]⟩
        | list =>
          have hsup : supports w.v (.removeMembers stage as) = true := by simp [supports, Variant.isList, hst]
          have hh : handle w s.now sender funds (.removeMembers stage as) = liftKeep funds (removeMembers w s.now sender stage as) := by
            simp only [handle, hsup, Bool.not_true, Bool.false_eq_true, if_false]; exact liftKeep_eq w funds _
          have hk := kind12_list hst
          have hstart : startOf w stage = some w.start := by simp [startOf, hf.1]
          apply nonfee_sim12 hw hb _ hh (fun w' h => (removeMembers_self h).2) (.removeMembers sender (present12 w as))
            (by simp [tr12, hb])
          · intro w' h
            unfold removeMembers at h
            split at h; · cases h
            rename_i h1
            rw [hstart] at h
            simp only [] at h
            split at h; · cases h
            rename_i h2
            simp only [hf.1, Bool.false_eq_true, if_false] at h
            split at h; · cases h
            rename_i num st rem hl
            simp only [Except.ok.injEq] at h; subst h
            have h1' : WlSchedule.isAdmin (proj12 s.now w) sender = true := by simpa [isAdmin, WlSchedule.isAdmin, proj12] using h1
            have hpr : present12 w as = true := by simp [present12, hl, okB]
            exact (C12_remove_iff _ _ _ _ _).2 ⟨⟨hk, h1', by show s.now < w.start; omega, hpr⟩, rfl⟩
          · intro e h
            cases hx : WlSchedule.step (kind12 w.v) (proj12 s.now w) (.removeMembers sender (present12 w as)) with
            | error e' => exact ⟨e', rfl⟩
            | ok P' =>
              exfalso
              obtain ⟨⟨_, g1, g2, g3⟩, _⟩ := (C12_remove_iff _ _ _ _ _).1 hx
              have g1' : isAdmin w sender = true := g1
              have g2' : ¬ s.now ≥ w.start := by have : s.now < w.start := g2; omega
              simp only [present12] at g3
              cases hl : WlMembers.removeLoop as (w.numMembers, w.members, 0) with
              | error e2 => rw [hl] at g3; simp [okB] at g3
              | ok r =>
                obtain ⟨num, st, rem⟩ := r
                simp [removeMembers, g1', hstart, g2', hf.1, hl] at h
      | addMembers stage ms => exact env_sim12 hw (by simp [tr12, hb]) rfl
      | increaseMemberLimit n => exact env_sim12 hw (by simp [tr12, hb]) rfl
      | addStage st ms => exact env_sim12 hw (by simp [tr12, hb]) rfl
      | removeStage id => exact env_sim12 hw (by simp [tr12, hb]) rfl
      | updateStageConfig u => exact env_sim12 hw (by simp [tr12, hb]) rfl
      | unknown => exact env_sim12 hw (by simp [tr12, hb]) rfl

/-! ## instantiate -/

theorem flatScheduleOk_iff (now : Nat) (m : InstMsg) :
    flatScheduleOk now m = true ↔ m.start ≤ m.end_ ∧ now < m.start ∧ WlSchedule.GENESIS ≤ m.start := by
  show flatScheduleOk now m = true ↔ m.start ≤ m.end_ ∧ now < m.start ∧ GENESIS ≤ m.start
  simp only [flatScheduleOk, Bool.and_eq_true, Bool.not_eq_true', decide_eq_false_iff_not]
  omega

/-- inversion of the composite's Merkle instantiate -/
theorem instMerkle_ok {v : Variant} {now : Nat} {self : Addr} {funds : List Coin} {m : InstMsg} {w : Wl} {msgs : List Msg}
    (h : instMerkle v now self funds m = .ok (w, msgs)) :
    m.roots.all (Merkle.validHash v.digest) = true ∧ (v.tiered = false → m.roots.length = 1) ∧ m.uriOk = true ∧
    mustPay funds NATIVE = .ok v.merkleFee ∧
    (if v.tiered then Tiered.validateStages v.kind13 now m.stages else flatScheduleOk now m) = true ∧
    msgs = Sg1.fairBurn self v.merkleFee none ∧ m.admins.all validAddr = true ∧
    (let base : Wl := { blankWl v self with admins := m.admins, mutable_ := m.adminsMutable, roots := m.roots,
                                            g := Ghost.zero.fee v.merkleFee msgs }
     w = if v.tiered then
           { base with stages := m.stages,
                       uris := (match m.uris with | some l => if l.isEmpty then none else some l | none => none) }
         else { base with start := m.start, end_ := m.end_, mintPrice := m.mintPrice, perAddr := m.perAddr }) := by
  unfold instMerkle at h
  by_cases ht : v.tiered = true
  · simp only [ht, if_true, Bool.not_true, Bool.false_eq_true, Bool.false_and, if_false] at h
    split at h; · cases h
    rename_i h1
    split at h; · cases h
    rename_i h2
    split at h; · cases h
    rename_i payment hpay
    split at h; · cases h
    rename_i hfee
    split at h; · cases h
    rename_i h3
    have hfee' : payment = v.merkleFee := by
      rcases Nat.lt_trichotomy payment v.merkleFee with x | x | x
      · exact absurd (Nat.ne_of_lt x) hfee
      · exact x
      · exact absurd (Nat.ne_of_gt x) hfee
    subst hfee'
    have hmp := WlMembers.mustPay_mayPay hpay
    rw [WlMembers.checkedFairBurn_exact hmp.1 hmp.2] at h
    simp only [] at h
    split at h; · cases h
    rename_i h4
    simp only [Except.ok.injEq, Prod.mk.injEq] at h
    obtain ⟨rfl, rfl⟩ := h
    refine ⟨(by simpa using h1), (fun x => (by rw [ht] at x; cases x)), (by simpa using h2), hpay,
      (by simpa [ht] using h3), rfl, (by simpa using h4), ?_⟩
    simp only [ht, if_true]
    cases m.uris <;> rfl
  · have ht' : v.tiered = false := by cases hx : v.tiered <;> simp_all
    simp only [ht', Bool.not_false, Bool.true_and, Bool.false_eq_true, if_false] at h
    split at h; · cases h
    rename_i h1
    split at h; · cases h
    rename_i h1b
    split at h; · cases h
    rename_i h2
    split at h; · cases h
    rename_i payment hpay
    split at h; · cases h
    rename_i hfee
    split at h; · cases h
    rename_i h3
    have hfee' : payment = v.merkleFee := by
      rcases Nat.lt_trichotomy payment v.merkleFee with x | x | x
      · exact absurd (Nat.ne_of_lt x) hfee
      · exact x
      · exact absurd (Nat.ne_of_gt x) hfee
    subst hfee'
    have hmp := WlMembers.mustPay_mayPay hpay
    rw [WlMembers.checkedFairBurn_exact hmp.1 hmp.2] at h
    simp only [] at h
    split at h; · cases h
    rename_i h4
    simp only [Except.ok.injEq, Prod.mk.injEq] at h
    obtain ⟨rfl, rfl⟩ := h
    refine ⟨(by simpa using h1), (fun _ => (by simpa using h1b)), (by simpa using h2), hpay,
      (by simpa [ht'] using h3), rfl, (by simpa using h4), ?_⟩
    simp only [ht', Bool.false_eq_true, if_false]

theorem instantiateWl_v {v : Variant} {now : Nat} {sender self : Addr} {funds : List Coin} {m : InstMsg} {w : Wl}
    {msgs : List Msg} (h : instantiateWl v now sender self funds m = .ok (w, msgs)) : w.v = v ∧ w.self = self := by
  unfold instantiateWl at h
  split at h
  · obtain ⟨_, _, _, _, _, _, ht⟩ := instListKind_ok h
    by_cases hv : v.tiered = true
    · simp only [hv, if_true] at ht; obtain ⟨_, _, _, _, rfl⟩ := ht; exact ⟨rfl, rfl⟩
    · simp only [hv, if_false, Bool.false_eq_true] at ht; obtain ⟨_, _, _, _, rfl⟩ := ht; exact ⟨rfl, rfl⟩
  · unfold instMerkle at h
    by_cases ht : v.tiered = true
    · simp only [ht, if_true, Bool.not_true, Bool.false_eq_true, Bool.false_and, if_false] at h
      split at h; · cases h
      split at h; · cases h
      split at h; · cases h
      split at h; · cases h
      split at h; · cases h
      split at h; · cases h
      split at h; · cases h
      simp only [Except.ok.injEq, Prod.mk.injEq] at h; obtain ⟨rfl, _⟩ := h; exact ⟨rfl, rfl⟩
    · simp only [ht, if_false, Bool.false_eq_true] at h
      split at h; · cases h
      split at h; · cases h
      split at h; · cases h
      split at h; · cases h
      split at h; · cases h
      split at h; · cases h
      split at h; · cases h
      split at h; · cases h
      simp only [Except.ok.injEq, Prod.mk.injEq] at h; obtain ⟨rfl, _⟩ := h; exact ⟨rfl, rfl⟩
  · unfold instImmutable at h
    split at h; · cases h
    simp only [] at h
    split at h; · cases h
    simp only [Except.ok.injEq, Prod.mk.injEq] at h; obtain ⟨rfl, _⟩ := h; exact ⟨rfl, rfl⟩

/-- **instantiate, single-stage kinds**: a successful composite instantiate IS a successful C12 instantiate with
`envOk` = the composite's own verdict, and the new state projects onto the schedule state it returns -/
theorem inst_sim12 {s s' : State} {v : Variant} (hf : Flat v) {sender self : Addr} {funds : List Coin} {m : InstMsg}
    (h : step s (.instantiate v sender funds self m) = .ok s') :
    ∃ w, s'.wl = some w ∧ w.v = v ∧
      WlSchedule.instantiate (kind12 v) s.now (accepted s (.instantiate v sender funds self m))
        ⟨m.start, m.end_, m.perAddr, m.admins, m.adminsMutable⟩ = .ok (proj12 s'.now w) := by
  have hacc := accepted_of_ok h
  simp only [step] at h
  obtain ⟨b1, w, msgs, b2, hb1, hi, ha, rfl⟩ := instantiateTx_ok h
  rw [hacc]
  refine ⟨w, rfl, ?_⟩
  cases hst : v.store with
  | immutable => exact absurd hst hf.2
  | list =>
    simp only [instantiateWl, hst] at hi
    obtain ⟨_, hg, _, _, _, _, htail⟩ := instListKind_ok hi
    simp only [hf.1, Bool.false_eq_true, if_false] at htail
    obtain ⟨st, num, _, _, rfl⟩ := htail
    have hsched : flatScheduleOk s.now m = true := by
      simp only [instGates, hf.1, Bool.false_eq_true, if_false, Bool.and_eq_true] at hg
      exact hg.1.1.2
    obtain ⟨g1, g2, g3⟩ := (flatScheduleOk_iff s.now m).1 hsched
    refine ⟨rfl, (C12_instantiate_iff _ _ _ _ _).2 ⟨⟨rfl, g1, g2, g3⟩, ?_⟩⟩
    have : kind12 v = (if v.flex then WlSchedule.Variant.flex else .plain) := by simp [kind12, hst]
    cases hfx : v.flex <;> simp [proj12, blankWl, this, hfx]
  | merkle =>
    simp only [instantiateWl, hst] at hi
    obtain ⟨_, _, _, _, hsch, _, _, hw⟩ := instMerkle_ok hi
    simp only [hf.1, Bool.false_eq_true, if_false] at hsch hw
    subst hw
    obtain ⟨g1, g2, g3⟩ := (flatScheduleOk_iff s.now m).1 hsch
    refine ⟨rfl, (C12_instantiate_iff _ _ _ _ _).2 ⟨⟨rfl, g1, g2, g3⟩, ?_⟩⟩
    simp [proj12, blankWl, kind12_merkle hst]

end LP.WF
