import LaunchpadModel.Lemmas.TokenMergeSystemColl2
/-!
# Token-merge SYSTEM composite: invariants of a collection contract hold for EVERY collection of the system, always

`allColl_run`: a predicate on `Sg721.State` that `instantiate` establishes and every accepted `exec` keeps holds for every
collection contract (target and sources) after every system history from `init`.  Instance: `Sg721.SInv` (`token_count` = number
of tokens, ids duplicate-free) — restated here (`sinv_exec`, `sinv_instantiate`) because `Props/C09.lean` cannot be imported next to
the other composite modules.
-/
namespace LP.SysTM
open LP

theorem sinv_exec {c c' : Sg721.State} {call : Sg721.Call} (hi : Sg721.SInv c) (h : Sg721.exec c call = .ok c') : Sg721.SInv c' := by
  obtain ⟨b, sender, funds, msg⟩ := call
  obtain ⟨_, e⟩ := Sg721.exec_eff h
  simp only at e
  have set : ∀ t, Sg721.SInv (c.setToken t) := fun t =>
    ⟨by rw [Sg721.length_setToken]; exact hi.1, by rw [Sg721.ids_setToken]; exact hi.2⟩
  cases e with
  | transfer => exact set _
  | send => exact set _
  | approve => exact set _
  | revoke => exact set _
  | utm => exact set _
  | mint j owner uri ext _ _ hn =>
    refine ⟨?_, ?_⟩
    · show c.count + 1 = (c.tokens ++ [_]).length
      rw [List.length_append, hi.1]; rfl
    · show (List.map (fun t : Sg721.Token => t.id) (c.tokens ++ [_])).Nodup
      rw [List.map_append, List.nodup_append]
      refine ⟨hi.2, by simp, ?_⟩
      intro a ha b hb
      simp only [List.map_cons, List.map_nil, List.mem_singleton] at hb
      subst hb
      intro hab; subst hab
      exact (Sg721.find?_none_iff c a).1 hn ha
  | burn j tj hf _ =>
    have hm : j ∈ c.ids := (Sg721.find?_isSome_iff c j).1 (by rw [hf]; rfl)
    have hl := Sg721.length_remove c.tokens j hi.2 hm
    refine ⟨?_, ?_⟩
    · show c.count - 1 = (c.tokens.filter _).length
      rw [hi.1]; omega
    · rw [Sg721.ids_removeToken]; exact List.Nodup.sublist List.filter_sublist hi.2
  | approveAll => exact hi
  | revokeAll => exact hi
  | updateInfo => exact hi
  | ustt => exact hi
  | freeze => exact hi
  | ownTransfer => exact hi
  | ownAccept => exact hi
  | ownRenounce => exact hi
  | freezeMeta => exact hi
  | enable => exact hi

theorem sinv_instantiate {k : Sg721.Kind} {b : Sg721.Block} {sender : Addr} {funds : List Coin} {m : Sg721.InstMsg}
    {c : Sg721.State} (h : Sg721.instantiate k b sender funds m = .ok c) : Sg721.SInv c := by
  simp only [Sg721.instantiate, Sg721.ensure_ok, Except.ok.injEq] at h
  obtain ⟨_, _, _, _, _, _, _, _, rfl⟩ := h
  exact ⟨rfl, List.nodup_nil⟩

/-- every collection of the system satisfies `P` -/
def AllColl (P : Sg721.State → Prop) (s : State) : Prop := ∀ a c, collAt s a = some c → P c.core

theorem coreReach_inv {P : Sg721.State → Prop} (hexec : ∀ c call c', P c → Sg721.exec c call = .ok c' → P c')
    {c c' : Sg721.State} (r : CoreReach c c') (hp : P c) : P c' := by
  induction r with
  | refl => exact hp
  | step call _ hx ih => exact hexec _ call _ ih hx

theorem allColl_step' {P : Sg721.State → Prop} (hexec : ∀ c call c', P c → Sg721.exec c call = .ok c' → P c')
    (hinst : ∀ k b sender funds m c, Sg721.instantiate k b sender funds m = .ok c → P c)
    {s : State} (op : Op) (hi : AllColl P s) : AllColl P (step' s op) := by
  rcases step'_cases s op with ⟨s', hs, he⟩ | ⟨_, he⟩
  · rw [he]
    intro a c' hc'
    have hr := coll_step hs a
    rw [hc'] at hr
    cases hd : collAt s a with
    | none =>
      rw [hd] at hr
      obtain ⟨k, b, sender, funds, m, hm⟩ := hr
      exact hinst _ _ _ _ _ _ hm
    | some d =>
      rw [hd] at hr
      exact coreReach_inv hexec hr.1 (hi a d hd)
  · rw [he]; exact hi

theorem allColl_run {P : Sg721.State → Prop} (hexec : ∀ c call c', P c → Sg721.exec c call = .ok c' → P c')
    (hinst : ∀ k b sender funds m c, Sg721.instantiate k b sender funds m = .ok c → P c)
    {s : State} (ops : List Op) (hi : AllColl P s) : AllColl P (run s ops) := by
  induction ops generalizing s with
  | nil => exact hi
  | cons op ops ih => exact ih (allColl_step' hexec hinst op hi)

theorem allColl_init (P : Sg721.State → Prop) (height now : Nat) (codes : VF.Codes) (fac : Addr) (p : TMF.Params) :
    AllColl P (init height now codes fac p) := by
  intro a c h
  simp [collAt, init, lookup] at h

/-- a source collection in the table is a collection of the system unless the target shadows its address -/
theorem collAt_of_lookup {s : State} {a : Addr} {c : CF.Coll} (h : lookup s.srcs a = some c)
    (hnt : ∀ m tc, s.mc = some (m, tc) → a ≠ m.sg721) : collAt s a = some c := by
  unfold collAt
  cases hmc : s.mc with
  | none => exact h
  | some p =>
    obtain ⟨m, tc⟩ := p
    simp only [hnt m tc hmc, if_false]
    exact h

end LP.SysTM
