import LaunchpadModel.Lemmas.WhitelistFullMembers2
/-!
# Composite whitelist model ⟶ C11: the one-step simulation for every `execute` message (list kinds)
-/
namespace LP.WF
open LP

theorem exec_add {P : WlMembers.WL} (hk : (P.kind == WlMembers.Kind.immutable) = false) (al hf : Bool) (tip : WlMembers.Tip)
    (st : Nat) (ms : List Member) :
    WlMembers.exec P (.addMembers al hf tip st ms) = WlMembers.execAddMembers P al hf tip st ms := by
  simp [WlMembers.exec, hk]

theorem exec_remove {P : WlMembers.WL} (hk : (P.kind == WlMembers.Kind.immutable) = false) (al : Bool) (tip : WlMembers.Tip)
    (st : Nat) (as : List Nat) :
    WlMembers.exec P (.removeMembers al tip st as) = WlMembers.execRemoveMembers P al tip st as := by
  simp [WlMembers.exec, hk]

theorem exec_addStage {P : WlMembers.WL} (hk : (P.kind == WlMembers.Kind.immutable) = false) (ht : P.kind.isTiered = true)
    (al hf : Bool) (tip : WlMembers.Tip) (ms : List Member) :
    WlMembers.exec P (.addStage al hf tip ms) = WlMembers.execAddStage P al hf tip ms := by
  simp [WlMembers.exec, hk, ht]

theorem exec_removeStage {P : WlMembers.WL} (hk : (P.kind == WlMembers.Kind.immutable) = false) (ht : P.kind.isTiered = true)
    (al : Bool) (tip : WlMembers.Tip) (id : Nat) :
    WlMembers.exec P (.removeStage al tip id) = WlMembers.execRemoveStage P al tip id := by
  simp [WlMembers.exec, hk, ht]

theorem exec_incr {P : WlMembers.WL} (hk : (P.kind == WlMembers.Kind.immutable) = false) (al : Bool) (funds : List Coin)
    (limit : Nat) :
    WlMembers.exec P (.increaseLimit al funds limit) = WlMembers.execIncreaseLimit P al funds limit := by
  simp [WlMembers.exec, hk]

theorem liftKeep_eq (_w : Wl) (funds : List Coin) (r : Except Err Wl) :
    (match r with
      | .ok w' => (Except.ok (w'.tipped funds, []) : Except Err (Wl × List Msg))
      | .error e => .error e) = liftKeep funds r := by
  cases r <;> rfl

/-- a transaction the composite refuses before the handler runs is one whose C11 op is not allowed -/
theorem early_err_sim (d : Denom) (s : State) (w : Wl) (sender : Addr) (funds : List Coin) (m : ExecMsg)
    (hstep : ∀ s', step s (.exec sender funds m) ≠ .ok s')
    (hgate : gate11 s w sender funds m = false) : Sim11 d s w sender funds m := by
  have hna : opAllowed (tr11 d s w sender funds m) = false := by
    cases hx : opAllowed (tr11 d s w sender funds m) with
    | false => rfl
    | true =>
      rcases opAllowed_tr11 d s w sender funds m hx with h | h
      · rw [hgate] at h; cases h
      · unfold accepted at h
        split at h
        · rename_i s' hs'; exact absurd hs' (hstep s')
        · cases h
  exact ⟨fun s' h => absurd h (hstep s'), fun _ _ => exec_err_of_not_allowed _ _ hna⟩

theorem exec_sim11 (d : Denom) (hd : d ≠ NATIVE) {s : State} {w : Wl} (hw : s.wl = some w) (hv : w.v.store = .list)
    (hal : Aligned w) (sender : Addr) (funds : List Coin) (m : ExecMsg) (hs : sender ≠ w.self)
    (hp : w.self ≠ FAIRBURN_POOL) : Sim11 d s w sender funds m := by
  obtain ⟨hkt, hkf, hkne, hk⟩ := kind11_list hv
  have hkP : ((proj11 d s.bank w).kind == WlMembers.Kind.immutable) = false := hk
  cases hb : s.bank.sendFunds sender w.self funds with
  | none =>
    apply early_err_sim
    · intro s' h; simp [step, execute, hw, hb] at h
    · simp [gate11, hb]
  | some b1 =>
    cases hsup : supports w.v m with
    | false =>
      apply early_err_sim
      · intro s' h; rw [step_exec_eq m hw hb] at h; simp [handle, hsup] at h
      · simp [gate11, hsup]
    | true =>
      cases m with
      | updateStartTime t =>
        have hh : handle w s.now sender funds (.updateStartTime t) = liftKeep funds (updateStartTime w s.now sender t) := by
          simp only [handle, hsup, Bool.not_true, Bool.false_eq_true, if_false]; exact liftKeep_eq w funds _
        exact other_sim d hw hv hb hs _ hh (fun w' h => updateStartTime_frame h d s.bank)
          (fun w' h => by unfold updateStartTime at h; split at h; · cases h
                          split at h; · cases h
                          split at h; · cases h
                          simp only [Except.ok.injEq] at h; subst h; rfl) rfl
      | updateEndTime t =>
        have hh : handle w s.now sender funds (.updateEndTime t) = liftKeep funds (updateEndTime w s.now sender t) := by
          simp only [handle, hsup, Bool.not_true, Bool.false_eq_true, if_false]; exact liftKeep_eq w funds _
        exact other_sim d hw hv hb hs _ hh (fun w' h => updateEndTime_frame h d s.bank)
          (fun w' h => by unfold updateEndTime at h; split at h; · cases h
                          split at h; · cases h
                          split at h; · cases h
                          simp only [Except.ok.injEq] at h; subst h; rfl) rfl
      | updatePerAddressLimit n =>
        have hh : handle w s.now sender funds (.updatePerAddressLimit n) = liftKeep funds (updatePerAddressLimit w sender n) := by
          simp only [handle, hsup, Bool.not_true, Bool.false_eq_true, if_false]; exact liftKeep_eq w funds _
        exact other_sim d hw hv hb hs _ hh (fun w' h => updatePerAddressLimit_frame h d s.bank)
          (fun w' h => by unfold updatePerAddressLimit at h; split at h; · cases h
                          split at h; · cases h
                          simp only [Except.ok.injEq] at h; subst h; rfl) rfl
      | updateAdmins l =>
        have hh : handle w s.now sender funds (.updateAdmins l) = liftKeep funds (updateAdmins w sender l) := by
          simp only [handle, hsup, Bool.not_true, Bool.false_eq_true, if_false]; exact liftKeep_eq w funds _
        exact other_sim d hw hv hb hs _ hh (fun w' h => updateAdmins_frame h d s.bank)
          (fun w' h => by unfold updateAdmins at h; split at h; · cases h
                          split at h; · cases h
                          simp only [Except.ok.injEq] at h; subst h; rfl) rfl
      | freeze =>
        have hh : handle w s.now sender funds .freeze = liftKeep funds (freeze w sender) := by
          simp only [handle, hsup, Bool.not_true, Bool.false_eq_true, if_false]; exact liftKeep_eq w funds _
        exact other_sim d hw hv hb hs _ hh (fun w' h => freeze_frame h d s.bank)
          (fun w' h => by unfold freeze at h; split at h; · cases h
                          simp only [Except.ok.injEq] at h; subst h; rfl) rfl
      | updateStageConfig u =>
        have hh : handle w s.now sender funds (.updateStageConfig u) = liftKeep funds (updateStageConfig w sender u) := by
          simp only [handle, hsup, Bool.not_true, Bool.false_eq_true, if_false]; exact liftKeep_eq w funds _
        exact other_sim d hw hv hb hs _ hh (fun w' h => updateStageConfig_frame h d s.bank)
          (fun w' h => by unfold updateStageConfig at h; split at h; · cases h
                          split at h; · cases h
                          simp only [] at h
                          split at h; · cases h
                          simp only [Except.ok.injEq] at h; subst h; rfl) rfl
      | unknown => simp [supports] at hsup
      | addMembers stage ms =>
        have hh : handle w s.now sender funds (.addMembers stage ms) = liftKeep funds (addMembers w sender stage ms) := by
          simp only [handle, hsup, Bool.not_true, Bool.false_eq_true, if_false]; exact liftKeep_eq w funds _
        by_cases hadm : isAdmin w sender = true
        · have hg : gate11 s w sender funds (.addMembers stage ms) = true := by simp [gate11, hb, hsup, hadm]
          have hc := add_corr d s.bank w hv sender stage ms (tipOf d funds) hadm
          apply nonfee_sim d hw hb hs _ hh (fun w' h => addMembers_self h)
          · intro w0 h0
            simp only [tr11, hg]; rw [exec_add hkP, hc, h0]
          · intro e h0
            simp only [tr11, hg]; rw [exec_add hkP, hc, h0]; exact ⟨e, rfl⟩
        · apply early_err_sim
          · intro s' h; rw [step_exec_eq _ hw hb, hh] at h
            have : addMembers w sender stage ms = .error .unauthorized := by simp [addMembers, hadm]
            rw [this] at h; simp [liftKeep] at h
          · simp [gate11, hadm]
      | removeMembers stage as =>
        have hh : handle w s.now sender funds (.removeMembers stage as) = liftKeep funds (removeMembers w s.now sender stage as) := by
          simp only [handle, hsup, Bool.not_true, Bool.false_eq_true, if_false]; exact liftKeep_eq w funds _
        by_cases hg : gate11 s w sender funds (.removeMembers stage as) = true
        · have hg' := hg
          simp only [gate11, hb, hsup, Option.isSome_some, Bool.true_and, Bool.and_eq_true] at hg'
          obtain ⟨hadm, hgate⟩ := hg'
          cases hst : startOf w stage with
          | none => rw [hst] at hgate; cases hgate
          | some t0 =>
            rw [hst] at hgate
            have hnow : s.now < t0 := by simpa using hgate
            have hc := remove_corr d s.bank w hv s.now sender stage as (tipOf d funds) hadm t0 hst hnow
            apply nonfee_sim d hw hb hs _ hh (fun w' h => removeMembers_self h)
            · intro w0 h0
              simp only [tr11, hg]; rw [exec_remove hkP, hc, h0]
            · intro e h0
              simp only [tr11, hg]; rw [exec_remove hkP, hc, h0]; exact ⟨e, rfl⟩
        · have hgf : gate11 s w sender funds (.removeMembers stage as) = false := by
            cases hx : gate11 s w sender funds (.removeMembers stage as) with
            | false => rfl
            | true => exact absurd hx hg
          apply early_err_sim _ _ _ _ _ _ _ hgf
          intro s' h; rw [step_exec_eq _ hw hb, hh] at h
          have : ∃ e, removeMembers w s.now sender stage as = .error e := by
            simp only [gate11, hb, hsup, Option.isSome_some, Bool.true_and] at hgf
            unfold removeMembers
            cases hadm : isAdmin w sender with
            | false => exact ⟨.unauthorized, by simp⟩
            | true =>
              rw [hadm] at hgf
              simp only [Bool.true_and] at hgf
              simp only [Bool.not_true, Bool.false_eq_true, if_false]
              cases hst : startOf w stage with
              | none => exact ⟨_, rfl⟩
              | some t0 =>
                rw [hst] at hgf
                have : s.now ≥ t0 := by
                  simp only [decide_eq_false_iff_not] at hgf; omega
                simp only [this, if_true]; exact ⟨_, rfl⟩
          obtain ⟨e, he⟩ := this
          rw [he] at h; simp [liftKeep] at h
      | addStage st ms =>
        have hh : handle w s.now sender funds (.addStage st ms) = liftKeep funds (addStage w s.now sender st ms) := by
          simp only [handle, hsup, Bool.not_true, Bool.false_eq_true, if_false]; exact liftKeep_eq w funds _
        have htier : w.v.tiered = true := by simp [supports] at hsup; exact hsup.2
        have htP : (proj11 d s.bank w).kind.isTiered = true := by show w.v.kind11.isTiered = true; rw [hkt]; exact htier
        by_cases hg : gate11 s w sender funds (.addStage st ms) = true
        · have hg' := hg
          simp only [gate11, hb, hsup, Option.isSome_some, Bool.true_and, Bool.and_eq_true, decide_eq_true_eq] at hg'
          obtain ⟨⟨hadm, hlen⟩, hval⟩ := hg'
          have hc := addStage_corr d s.bank w s.now sender st ms (tipOf d funds) hadm hlen hval
          apply nonfee_sim d hw hb hs _ hh (fun w' h => addStage_self h)
          · intro w0 h0
            simp only [tr11, hg]; rw [exec_addStage hkP htP, hc, h0]
          · intro e h0
            simp only [tr11, hg]; rw [exec_addStage hkP htP, hc, h0]; exact ⟨e, rfl⟩
        · have hgf : gate11 s w sender funds (.addStage st ms) = false := by
            cases hx : gate11 s w sender funds (.addStage st ms) with
            | false => rfl
            | true => exact absurd hx hg
          apply early_err_sim _ _ _ _ _ _ _ hgf
          intro s' h; rw [step_exec_eq _ hw hb, hh] at h
          have : ∃ e, addStage w s.now sender st ms = .error e := by
            simp only [gate11, hb, hsup, Option.isSome_some, Bool.true_and] at hgf
            unfold addStage
            cases hadm : isAdmin w sender with
            | false => exact ⟨.unauthorized, by simp⟩
            | true =>
              rw [hadm] at hgf
              simp only [Bool.true_and] at hgf
              simp only [Bool.not_true, Bool.false_eq_true, if_false]
              by_cases hlen : w.stages.length < 3
              · simp only [hlen, decide_true, Bool.true_and] at hgf
                simp only [hlen, decide_true, Bool.not_true, Bool.false_eq_true, if_false, hgf, Bool.not_false, if_true]
                exact ⟨_, rfl⟩
              · simp only [hlen, decide_false, Bool.not_false, if_true]; exact ⟨_, rfl⟩
          obtain ⟨e, he⟩ := this
          rw [he] at h; simp [liftKeep] at h
      | removeStage id =>
        have hh : handle w s.now sender funds (.removeStage id) = liftKeep funds (removeStage w s.now sender id) := by
          simp only [handle, hsup, Bool.not_true, Bool.false_eq_true, if_false]; exact liftKeep_eq w funds _
        have htier : w.v.tiered = true := by simp [supports] at hsup; exact hsup.2
        have htP : (proj11 d s.bank w).kind.isTiered = true := by show w.v.kind11.isTiered = true; rw [hkt]; exact htier
        by_cases hg : gate11 s w sender funds (.removeStage id) = true
        · have hg' := hg
          simp only [gate11, hb, hsup, Option.isSome_some, Bool.true_and, Bool.and_eq_true] at hg'
          obtain ⟨hadm, hgate⟩ := hg'
          cases hst : w.stages[id]? with
          | none => rw [hst] at hgate; cases hgate
          | some st =>
            rw [hst] at hgate
            have hnow : s.now < st.start := by simpa using hgate
            have hc := removeStage_corr d s.bank w hv hal s.now sender id (tipOf d funds) hadm st hst hnow
            apply nonfee_sim d hw hb hs _ hh (fun w' h => removeStage_self h)
            · intro w0 h0
              simp only [tr11, hg]; rw [exec_removeStage hkP htP, hc, h0]
            · intro e h0
              simp only [tr11, hg]; rw [exec_removeStage hkP htP, hc, h0]; exact ⟨e, rfl⟩
        · have hgf : gate11 s w sender funds (.removeStage id) = false := by
            cases hx : gate11 s w sender funds (.removeStage id) with
            | false => rfl
            | true => exact absurd hx hg
          apply early_err_sim _ _ _ _ _ _ _ hgf
          intro s' h; rw [step_exec_eq _ hw hb, hh] at h
          have : ∃ e, removeStage w s.now sender id = .error e := by
            simp only [gate11, hb, hsup, Option.isSome_some, Bool.true_and] at hgf
            unfold removeStage
            cases hadm : isAdmin w sender with
            | false => exact ⟨.unauthorized, by simp⟩
            | true =>
              rw [hadm] at hgf
              simp only [Bool.true_and] at hgf
              simp only [Bool.not_true, Bool.false_eq_true, if_false]
              cases hst : w.stages[id]? with
              | none => exact ⟨_, rfl⟩
              | some st =>
                rw [hst] at hgf
                have : s.now ≥ st.start := by
                  simp only [decide_eq_false_iff_not] at hgf; omega
                simp only [this, if_true]; exact ⟨_, rfl⟩
          obtain ⟨e, he⟩ := this
          rw [he] at h; simp [liftKeep] at h
      | increaseMemberLimit n =>
        have hh : handle w s.now sender funds (.increaseMemberLimit n) = increaseMemberLimit w funds n := by
          simp only [handle, hsup, Bool.not_true, Bool.false_eq_true, if_false]
        have hg : gate11 s w sender funds (.increaseMemberLimit n) = true := by simp [gate11, hb, hsup]
        unfold Sim11
        rw [step_exec_eq _ hw hb, hh]
        simp only [tr11, hg]
        rw [exec_incr hkP]
        cases hi : increaseMemberLimit w funds n with
        | error e =>
          simp only []
          exact ⟨fun s' h => (by cases h), fun _ _ => incr_corr_err d s.bank true hi⟩
        | ok r =>
          obtain ⟨w', msgs⟩ := r
          obtain ⟨b2, ha, hex⟩ := incr_corr_ok d hd hv hb hs hp hi
          simp only [ha]
          refine ⟨?_, fun e h => (by cases h)⟩
          intro s' h
          simp only [Except.ok.injEq] at h; subst h
          have hsv : w'.self = w.self ∧ w'.v = w.v := by
            unfold increaseMemberLimit at hi
            simp only [] at hi
            split at hi; · cases hi
            split at hi; · cases hi
            split at hi; · cases hi
            split at hi; · cases hi
            simp only [Except.ok.injEq, Prod.mk.injEq] at hi
            obtain ⟨rfl, _⟩ := hi; exact ⟨rfl, rfl⟩
          exact ⟨w', rfl, hsv.1, hsv.2, hex⟩

end LP.WF
