import LaunchpadModel.Model.LaunchpadSystem2
import LaunchpadModel.Lemmas.LaunchpadSystem
import LaunchpadModel.Lemmas.Supply
import LaunchpadModel.Lemmas.Sg721
import LaunchpadModel.Lemmas.CollectionFullTrading
/-!
# System composite 2 (`LP.Sys2`): algebra of `step'` / `run`, the effect of a minter-side step on the collection view
(`vf_effect`), the effect of a collection message on the view (`tok_effect`, `tt_effect`).

Everything here is about ONE step; the refinements are in `Lemmas/LaunchpadSystem2Refine.lean`, the invariants in
`Lemmas/LaunchpadSystem2Inv.lean`.
-/
namespace LP.Sys2
open LP

/-! ## `step'` / `run` -/

theorem step'_ok {s s' : State} {op : Op} (h : step s op = .ok s') : step' s op = s' := by simp [step', h]
theorem step'_err {s : State} {op : Op} {e : Err} (h : step s op = .error e) : step' s op = s := by simp [step', h]

theorem step'_cases (s : State) (op : Op) :
    (∃ s', step s op = .ok s' ∧ step' s op = s') ∨ ((∃ e, step s op = .error e) ∧ step' s op = s) := by
  cases h : step s op with
  | ok s' => exact Or.inl ⟨s', rfl, step'_ok h⟩
  | error e => exact Or.inr ⟨⟨e, rfl⟩, step'_err h⟩

theorem run_nil (s : State) : run s [] = s := rfl
theorem run_cons (s : State) (op : Op) (ops : List Op) : run s (op :: ops) = run (step' s op) ops := rfl
theorem run_append (s : State) (a b : List Op) : run s (a ++ b) = run (run s a) b := by simp [run, List.foldl_append]

theorem run_inv (P : State → Prop) (hstep : ∀ s op, P s → P (step' s op)) (s : State) (h0 : P s) (ops : List Op) :
    P (run s ops) := by
  induction ops generalizing s with
  | nil => exact h0
  | cons op ops ih => exact ih _ (hstep s op h0)

theorem accepted_ok {s s' : State} {op : Op} (h : step s op = .ok s') : accepted s op = true := by simp [accepted, h]
theorem accepted_err {s : State} {op : Op} {e : Err} (h : step s op = .error e) : accepted s op = false := by
  simp [accepted, h]
theorem accepted_true {s : State} {op : Op} (h : accepted s op = true) : ∃ s', step s op = .ok s' := by
  unfold accepted at h
  cases hs : step s op with
  | ok s' => exact ⟨s', rfl⟩
  | error e => simp [hs] at h
theorem accepted_false {s : State} {op : Op} (h : accepted s op = false) : step' s op = s := by
  unfold accepted at h
  cases hs : step s op with
  | ok s' => simp [hs] at h
  | error e => exact step'_err hs

/-! ## the view -/

theorem ofVm_vmOf (m : Minter) (c : CF.Coll) : ofVm (vmOf m c) = m := rfl

/-- a `VF` minter record whose two collection components ARE the view of `c` is `vmOf` of its stored part -/
theorem vmOf_ofVm (vm : VF.Minter) (c : CF.Coll) (h1 : vm.supply.coll = tokView c.core) (h2 : vm.tt = ttView c.core) :
    vmOf (ofVm vm) c = vm := by
  cases vm with
  | mk v addr factory collectionCodeId mintPrice admin paymentAddress whitelist startTime perAddressLimit discountPrice sg721
       supply pub wlc stg tot airdropCount lastDiscount status received tt =>
    cases supply with
    | mk n pos mintable minted burned coll =>
      simp only at h1 h2
      subst h1 h2
      rfl

theorem ttView_eq (c : Sg721.State) : ttView c = CF.projTT c := by
  cases hk : c.kind <;> simp [ttView, CF.projTT, ttKind, CF.ttKind, hk]

theorem tokView_ids (c : Sg721.State) : (tokView c).ids = c.ids.reverse := by
  simp [tokView, Supply.Coll.ids, Sg721.State.ids, List.map_reverse]

theorem mem_tokView_ids (c : Sg721.State) (id : Nat) : id ∈ (tokView c).ids ↔ id ∈ c.ids := by
  rw [tokView_ids]; simp

@[simp] theorem sysOf_now (s : State) : (sysOf s).now = s.now := rfl
@[simp] theorem sysOf_bank (s : State) : (sysOf s).bank = s.bank := rfl
@[simp] theorem sysOf_wls (s : State) : (sysOf s).wls = s.wls := rfl
@[simp] theorem sysOf_params (s : State) : (sysOf s).params = s.params := rfl
@[simp] theorem sysOf_codes (s : State) : (sysOf s).codes = s.codes := rfl
@[simp] theorem sysOf_factoryAddr (s : State) : (sysOf s).factoryAddr = s.factoryAddr := rfl
theorem sysOf_minter (s : State) : (sysOf s).minter = s.mc.map fun mc => vmOf mc.1 mc.2 := rfl
theorem sysOf_minter_some {s : State} {m : Minter} {c : CF.Coll} (h : s.mc = some (m, c)) :
    (sysOf s).minter = some (vmOf m c) := by simp [sysOf, h]
theorem sysOf_minter_none {s : State} (h : s.mc = none) : (sysOf s).minter = none := by simp [sysOf, h]

/-- writing back a `Sys` result whose minter carries the view of `c'` gives a state that projects onto that result -/
theorem sysOf_setSys (s : State) (r : Sys.State) (vm : VF.Minter) (c' : CF.Coll) (hm : r.minter = some vm)
    (h1 : vm.supply.coll = tokView c'.core) (h2 : vm.tt = ttView c'.core) :
    sysOf (setSys s r r.bank (some c')) = r := by
  cases r with
  | mk now codes factoryAddr params bank minter wls =>
    simp only at hm
    subst hm
    simp only [sysOf, setSys, Option.map_some, vmOf_ofVm vm c' h1 h2]

theorem sysOf_setSys_none (s : State) (r : Sys.State) (hm : r.minter = none) :
    sysOf (setSys s r r.bank none) = r := by
  cases r with
  | mk now codes factoryAddr params bank minter wls =>
    simp only at hm
    subst hm
    simp [sysOf, setSys]

/-! ## the sub-message of a `VF` op, and the effect of an accepted `VF` step on the minter record -/

/-- `subOf` at the level of `VF` ops -/
def vsub : VF.Op → Sub
  | .mint sender _ _ _ picked => .mint sender (.at picked)
  | .mintTo _ _ rcpt picked => .mint rcpt (.at picked)
  | .mintFor _ _ id rcpt => .mint rcpt (.id id)
  | .updateStartTradingTime _ _ t => .trading t
  | _ => .none

theorem subOf_minter (o : VF.Op) : subOf (.minter o) = match o with
    | .mint .. => Sub.none
    | o => vsub o := by
  cases o <;> rfl

/-- the `Supply.FOp` a `VF` op is once accepted (gate `true`) -/
def fopOf : VF.Op → Supply.FOp
  | .mint sender _ _ _ picked => .mint true picked sender
  | .mintTo _ _ rcpt picked => .mint true picked rcpt
  | .mintFor _ _ id rcpt => .mintFor true id rcpt
  | .shuffle _ _ perm => .shuffle true perm
  | .purge _ _ => .purge true
  | .burnRemaining _ _ => .burnRemaining true
  | .collBurn _ id => .collBurn true id
  | .collTransfer _ id to => .collTransfer true id to
  | _ => .noise true

/-- what an accepted `VF` op does to the collection record of the simplified interface -/
def ttEff (m m' : VF.Minter) : VF.Op → Prop
  | .updateStartTradingTime _ _ t => m.tt.updateTrading m.addr t = .ok m'.tt
  | .collTrading sender t => m.tt.updateTrading sender t = .ok m'.tt
  | .collCreator sender new => m.tt.updateCreator sender new = .ok m'.tt
  | .collFreeze sender => m.tt.freeze sender = .ok m'.tt
  | .collOwn sender a => m.tt.updateOwnership sender a = .ok m'.tt
  | .mint .. => m'.tt = m.tt ∧ m.tt.owner = some m.addr
  | .mintTo .. => m'.tt = m.tt ∧ m.tt.owner = some m.addr
  | .mintFor .. => m'.tt = m.tt ∧ m.tt.owner = some m.addr
  | _ => m'.tt = m.tt

/-- **one accepted `VF` step, seen from the minter record**: the supply component moves by the `Supply.Fixed` step `fopOf op`,
the collection record by `ttEff`, the addresses and the admin stay -/
theorem vf_effect {s s' : VF.State} {m : VF.Minter} {op : VF.Op} (hm : s.minter = some m) (h : VF.step s op = .ok s') :
    ∃ m', s'.minter = some m' ∧ m.supply.step (fopOf op) = some m'.supply ∧ ttEff m m' op ∧
      m'.addr = m.addr ∧ m'.sg721 = m.sg721 ∧ m'.admin = m.admin ∧ m'.v = m.v := by
  open VF in
  cases op with
  | setTime t =>
    simp only [VF.step] at h; split at h <;> cases h
    exact ⟨m, hm, by simp [fopOf, Supply.Fixed.step], rfl, rfl, rfl, rfl, rfl⟩
  | fund a c =>
    simp only [VF.step] at h; cases h
    exact ⟨m, hm, by simp [fopOf, Supply.Fixed.step], rfl, rfl, rfl, rfl, rfl⟩
  | wlEnv k i =>
    simp only [VF.step] at h; cases h
    exact ⟨m, hm, by simp [fopOf, Supply.Fixed.step], rfl, rfl, rfl, rfl, rfl⟩
  | create sender funds msg w =>
    simp only [VF.step] at h
    obtain ⟨_, _, _, _, _, hnone, _⟩ := createMinter_ok h
    rw [hm] at hnone; cases hnone
  | instantiateDirect sender => simp [VF.step] at h
  | mint sender funds f sv picked =>
    simp only [VF.step] at h
    obtain ⟨m0, hm0, h⟩ := withMinterS_ok h
    rw [hm] at hm0; cases hm0
    obtain ⟨b1, g, _, _, _, _, h⟩ := mintSender_ok h
    obtain ⟨price, ms, sup, b2, _, _, _, _, how, htake, _, rfl⟩ := executeMint_ok h
    refine ⟨_, rfl, by simpa [fopOf, Supply.Fixed.step, takeToken] using htake, ?_, ?_, ?_, ?_, ?_⟩
    · refine ⟨?_, how⟩
      cases g with
      | pub => rfl
      | wl sid cnt => simp only [bookCount]; split <;> rfl
    all_goals (cases g with
      | pub => rfl
      | wl sid cnt => simp only [bookCount]; split <;> rfl)
  | mintTo sender funds rcpt picked =>
    simp only [VF.step] at h
    obtain ⟨m0, hm0, h⟩ := withMinterS_ok h
    rw [hm] at hm0; cases hm0
    obtain ⟨b1, _, _, h⟩ := mintAdmin_ok h
    obtain ⟨price, ms, sup, b2, _, _, _, _, how, htake, _, rfl⟩ := executeMint_ok h
    exact ⟨_, rfl, by simpa [fopOf, Supply.Fixed.step, takeToken] using htake, ⟨rfl, how⟩, rfl, rfl, rfl, rfl⟩
  | mintFor sender funds id rcpt =>
    simp only [VF.step] at h
    obtain ⟨m0, hm0, h⟩ := withMinterS_ok h
    rw [hm] at hm0; cases hm0
    obtain ⟨b1, _, _, h⟩ := mintAdmin_ok h
    obtain ⟨price, ms, sup, b2, _, _, _, _, how, htake, _, rfl⟩ := executeMint_ok h
    exact ⟨_, rfl, by simpa [fopOf, Supply.Fixed.step, takeToken] using htake, ⟨rfl, how⟩, rfl, rfl, rfl, rfl⟩
  | setWhitelist sender funds wl valid =>
    simp only [VF.step] at h
    obtain ⟨m0, m', hm0, hf, rfl⟩ := withMinter_ok h
    rw [hm] at hm0; cases hm0
    obtain ⟨_, _, _, _, _, _, _, _, _, _, _, rfl⟩ := setWhitelist_ok hf
    exact ⟨_, rfl, by simp [fopOf, Supply.Fixed.step], rfl, rfl, rfl, rfl, rfl⟩
  | purge sender funds =>
    simp only [VF.step] at h
    obtain ⟨m0, m', hm0, hf, rfl⟩ := withMinter_ok h
    rw [hm] at hm0; cases hm0
    obtain ⟨_, hz, rfl⟩ := purge_ok hf
    exact ⟨_, rfl, by simp [fopOf, Supply.Fixed.step, Supply.Fixed.purge, hz], rfl, rfl, rfl, rfl, rfl⟩
  | updateMintPrice sender funds p =>
    simp only [VF.step] at h
    obtain ⟨m0, m', hm0, hf, rfl⟩ := withMinter_ok h
    rw [hm] at hm0; cases hm0
    obtain ⟨_, _, _, _, rfl⟩ := updateMintPrice_ok hf
    exact ⟨_, rfl, by simp [fopOf, Supply.Fixed.step], rfl, rfl, rfl, rfl, rfl⟩
  | updateStartTime sender funds t =>
    simp only [VF.step] at h
    obtain ⟨m0, m', hm0, hf, rfl⟩ := withMinter_ok h
    rw [hm] at hm0; cases hm0
    obtain ⟨_, _, _, _, _, rfl⟩ := updateStartTime_ok hf
    exact ⟨_, rfl, by simp [fopOf, Supply.Fixed.step], rfl, rfl, rfl, rfl, rfl⟩
  | updateStartTradingTime sender funds t =>
    simp only [VF.step] at h
    obtain ⟨m0, m', hm0, hf, rfl⟩ := withMinter_ok h
    rw [hm] at hm0; cases hm0
    obtain ⟨c, _, _, _, hc, rfl⟩ := updateStartTradingTime_ok hf
    exact ⟨_, rfl, by simp [fopOf, Supply.Fixed.step], hc, rfl, rfl, rfl, rfl⟩
  | updatePerAddressLimit sender funds n =>
    simp only [VF.step] at h
    obtain ⟨m0, m', hm0, hf, rfl⟩ := withMinter_ok h
    rw [hm] at hm0; cases hm0
    obtain ⟨_, _, _, _, _, rfl⟩ := updatePerAddressLimit_ok hf
    exact ⟨_, rfl, by simp [fopOf, Supply.Fixed.step], rfl, rfl, rfl, rfl, rfl⟩
  | shuffle sender funds perm =>
    simp only [VF.step] at h
    obtain ⟨m0, hm0, h⟩ := withMinterS_ok h
    rw [hm] at hm0; cases hm0
    obtain ⟨b1, ms, sup, b2, _, _, hsh, _, rfl⟩ := shuffle_ok h
    refine ⟨_, rfl, by simpa [fopOf, Supply.Fixed.step] using hsh, rfl, rfl, rfl, rfl, rfl⟩
  | burnRemaining sender funds =>
    simp only [VF.step] at h
    obtain ⟨m0, m', hm0, hf, rfl⟩ := withMinter_ok h
    rw [hm] at hm0; cases hm0
    obtain ⟨sup, _, _, hb, rfl⟩ := burnRemaining_ok hf
    exact ⟨_, rfl, by simpa [fopOf, Supply.Fixed.step] using hb, rfl, rfl, rfl, rfl, rfl⟩
  | updateDiscountPrice sender funds p =>
    simp only [VF.step] at h
    obtain ⟨m0, m', hm0, hf, rfl⟩ := withMinter_ok h
    rw [hm] at hm0; cases hm0
    obtain ⟨_, _, _, _, _, _, rfl⟩ := updateDiscountPrice_ok hf
    exact ⟨_, rfl, by simp [fopOf, Supply.Fixed.step], rfl, rfl, rfl, rfl, rfl⟩
  | removeDiscountPrice sender funds =>
    simp only [VF.step] at h
    obtain ⟨m0, m', hm0, hf, rfl⟩ := withMinter_ok h
    rw [hm] at hm0; cases hm0
    obtain ⟨_, _, _, rfl⟩ := removeDiscountPrice_ok hf
    exact ⟨_, rfl, by simp [fopOf, Supply.Fixed.step], rfl, rfl, rfl, rfl, rfl⟩
  | sudoStatus v b e =>
    simp only [VF.step] at h
    obtain ⟨m0, m', hm0, hf, rfl⟩ := withMinter_ok h
    rw [hm] at hm0; cases hm0
    cases hf
    exact ⟨_, rfl, by simp [fopOf, Supply.Fixed.step], rfl, rfl, rfl, rfl, rfl⟩
  | sudoParams u =>
    simp only [VF.step] at h
    split at h <;> cases h
    exact ⟨m, hm, by simp [fopOf, Supply.Fixed.step], rfl, rfl, rfl, rfl, rfl⟩
  | collTransfer sender id to =>
    simp only [VF.step] at h
    obtain ⟨m0, m', hm0, hf, rfl⟩ := withMinter_ok h
    rw [hm] at hm0; cases hm0
    obtain ⟨c, _, _, hc, rfl⟩ := collTransfer_ok hf
    exact ⟨_, rfl, by simp [fopOf, Supply.Fixed.step, hc], rfl, rfl, rfl, rfl, rfl⟩
  | collBurn sender id =>
    simp only [VF.step] at h
    obtain ⟨m0, m', hm0, hf, rfl⟩ := withMinter_ok h
    rw [hm] at hm0; cases hm0
    obtain ⟨c, _, hc, rfl⟩ := collBurn_ok hf
    exact ⟨_, rfl, by simp [fopOf, Supply.Fixed.step, hc], rfl, rfl, rfl, rfl, rfl⟩
  | collTrading sender t =>
    simp only [VF.step] at h
    obtain ⟨m0, c, hm0, hc, rfl⟩ := onColl_ok h
    rw [hm] at hm0; cases hm0
    exact ⟨_, rfl, by simp [fopOf, Supply.Fixed.step], hc, rfl, rfl, rfl, rfl⟩
  | collCreator sender new =>
    simp only [VF.step] at h
    obtain ⟨m0, c, hm0, hc, rfl⟩ := onColl_ok h
    rw [hm] at hm0; cases hm0
    exact ⟨_, rfl, by simp [fopOf, Supply.Fixed.step], hc, rfl, rfl, rfl, rfl⟩
  | collFreeze sender =>
    simp only [VF.step] at h
    obtain ⟨m0, c, hm0, hc, rfl⟩ := onColl_ok h
    rw [hm] at hm0; cases hm0
    exact ⟨_, rfl, by simp [fopOf, Supply.Fixed.step], hc, rfl, rfl, rfl, rfl⟩
  | collOwn sender a =>
    simp only [VF.step] at h
    obtain ⟨m0, c, hm0, hc, rfl⟩ := onColl_ok h
    rw [hm] at hm0; cases hm0
    exact ⟨_, rfl, by simp [fopOf, Supply.Fixed.step], hc, rfl, rfl, rfl, rfl⟩

end LP.Sys2
