import LaunchpadModel.Lemmas.WhitelistFullMembers
/-!
# Composite whitelist model ⟶ C11: op translation and the one-step simulation for `execute`
-/
namespace LP.WF
open LP

/-- every check of message `m` that C11 does not own, computed from the composite state: the bank delivers the funds, the
message is a variant of the crate's `ExecuteMsg`, the sender is an admin, the schedule gate is open, the extended stage
list validates -/
def gate11 (s : State) (w : Wl) (sender : Addr) (funds : List Coin) (m : ExecMsg) : Bool :=
  (s.bank.sendFunds sender w.self funds).isSome && supports w.v m &&
  (match m with
   | .addMembers _ _ => isAdmin w sender
   | .removeMembers stage _ =>
     isAdmin w sender && (match startOf w stage with | some t0 => decide (s.now < t0) | none => false)
   | .addStage st _ =>
     isAdmin w sender && decide (w.stages.length < 3) &&
       Tiered.validateStages w.v.kind13 s.now (w.stages ++ [Tiered.normStage w.v.kind13 st])
   | .removeStage id =>
     isAdmin w sender && (match w.stages[id]? with | some st => decide (s.now < st.start) | none => false)
   | _ => true)

/-- the C11 op of an `execute` message; `allowed` = `gate11`, for the messages C11 does not name the composite's verdict -/
def tr11 (d : Denom) (s : State) (w : Wl) (sender : Addr) (funds : List Coin) (m : ExecMsg) : WlMembers.Op :=
  match m with
  | .addMembers stage ms => .addMembers (gate11 s w sender funds m) false (tipOf d funds) stage ms
  | .removeMembers stage as => .removeMembers (gate11 s w sender funds m) (tipOf d funds) stage as
  | .addStage _ ms => .addStage (gate11 s w sender funds m) false (tipOf d funds) ms
  | .removeStage id => .removeStage (gate11 s w sender funds m) (tipOf d funds) id
  | .increaseMemberLimit n => .increaseLimit (gate11 s w sender funds m) funds n
  | m => .other (accepted s (.exec sender funds m)) (tipOf d funds)

def opAllowed : WlMembers.Op → Bool
  | .addMembers al _ _ _ _ => al
  | .removeMembers al _ _ _ => al
  | .addStage al _ _ _ => al
  | .removeStage al _ _ => al
  | .increaseLimit al _ _ => al
  | .other al _ => al

theorem exec_err_of_not_allowed (P : WlMembers.WL) (op : WlMembers.Op) (h : opAllowed op = false) :
    ∃ e, WlMembers.exec P op = .error e := by
  unfold WlMembers.exec
  split
  · exact ⟨_, rfl⟩
  · cases op <;> simp only [opAllowed] at h <;> subst h
    · exact ⟨.unauthorized, by simp [WlMembers.execAddMembers]⟩
    · exact ⟨.unauthorized, by simp [WlMembers.execRemoveMembers]⟩
    · simp only []; split
      · exact ⟨.unauthorized, by simp [WlMembers.execAddStage]⟩
      · exact ⟨_, rfl⟩
    · simp only []; split
      · exact ⟨.unauthorized, by simp [WlMembers.execRemoveStage]⟩
      · exact ⟨_, rfl⟩
    · exact ⟨.unauthorized, by simp [WlMembers.execIncreaseLimit]⟩
    · exact ⟨.other, by simp⟩

/-- what `opAllowed (tr11 …)` is -/
theorem opAllowed_tr11 (d : Denom) (s : State) (w : Wl) (sender : Addr) (funds : List Coin) (m : ExecMsg) :
    opAllowed (tr11 d s w sender funds m) = true →
      gate11 s w sender funds m = true ∨ accepted s (.exec sender funds m) = true := by
  cases m <;> simp only [tr11, opAllowed] <;> intro h <;> first | exact Or.inl h | exact Or.inr h

theorem gate11_delivered {s : State} {w : Wl} {sender : Addr} {funds : List Coin} {m : ExecMsg}
    (h : gate11 s w sender funds m = true) : (s.bank.sendFunds sender w.self funds).isSome = true ∧ supports w.v m = true := by
  unfold gate11 at h
  simp only [Bool.and_eq_true] at h
  exact ⟨h.1.1, h.1.2⟩

theorem keep_ok_sim (d : Denom) {b b1 : Bank} {w w' : Wl} {sender : Addr} {funds : List Coin}
    (hb : b.sendFunds sender w.self funds = some b1) (hs : sender ≠ w.self) (hself : w'.self = w.self) :
    proj11 d b1 (w'.tipped funds) = WlMembers.tipped (proj11 d b w') (tipOf d funds) := by
  rw [← hself] at hb hs
  exact proj_tipped d hb hs

/-- what `handle` does with the result of a handler that charges nothing -/
def liftKeep (funds : List Coin) : Except Err Wl → Except Err (Wl × List Msg)
  | .ok w' => .ok (w'.tipped funds, [])
  | .error e => .error e

def okB {α : Type} : Except Err α → Bool
  | .ok _ => true
  | .error _ => false

/-- the composite `execute` transaction once the contract exists and the bank has delivered the funds -/
theorem step_exec_eq {s : State} {w : Wl} {sender : Addr} {funds : List Coin} {b1 : Bank} (m : ExecMsg)
    (hw : s.wl = some w) (hb : s.bank.sendFunds sender w.self funds = some b1) :
    step s (.exec sender funds m) =
      match handle w s.now sender funds m with
      | .error e => .error e
      | .ok (w', msgs) =>
        match MintPay.applyMsgs w.self b1 msgs with
        | none => .error .payment
        | some b2 => .ok { s with bank := b2, wl := some w' } := by
  simp only [step, execute, hw, hb]
  cases handle w s.now sender funds m with
  | error e => rfl
  | ok r =>
    obtain ⟨w', msgs⟩ := r
    simp only []
    cases MintPay.applyMsgs w.self b1 msgs <;> rfl

/-- conclusion of the one-step simulation -/
def Sim11 (d : Denom) (s : State) (w : Wl) (sender : Addr) (funds : List Coin) (m : ExecMsg) : Prop :=
  (∀ s', step s (.exec sender funds m) = .ok s' →
    ∃ w', s'.wl = some w' ∧ w'.self = w.self ∧ w'.v = w.v ∧
      WlMembers.exec (proj11 d s.bank w) (tr11 d s w sender funds m) = .ok (proj11 d s'.bank w')) ∧
  (∀ e, step s (.exec sender funds m) = .error e →
    ∃ e', WlMembers.exec (proj11 d s.bank w) (tr11 d s w sender funds m) = .error e')

/-- a message that charges nothing: the handler result `H` decides both sides -/
theorem nonfee_sim (d : Denom) {s : State} {w : Wl} {sender : Addr} {funds : List Coin} {b1 : Bank} {m : ExecMsg}
    (hw : s.wl = some w) (hb : s.bank.sendFunds sender w.self funds = some b1) (hs : sender ≠ w.self)
    (H : Except Err Wl) (hh : handle w s.now sender funds m = liftKeep funds H)
    (hself : ∀ w', H = .ok w' → w'.self = w.self ∧ w'.v = w.v)
    (hok : ∀ w', H = .ok w' → WlMembers.exec (proj11 d s.bank w) (tr11 d s w sender funds m) =
          .ok (WlMembers.tipped (proj11 d s.bank w') (tipOf d funds)))
    (herr : ∀ e, H = .error e → ∃ e', WlMembers.exec (proj11 d s.bank w) (tr11 d s w sender funds m) = .error e') :
    Sim11 d s w sender funds m := by
  unfold Sim11
  rw [step_exec_eq m hw hb, hh]
  cases H with
  | error e =>
    simp only [liftKeep]
    exact ⟨fun s' h => (by cases h), fun _ _ => herr e rfl⟩
  | ok w0 =>
    simp only [liftKeep, MintPay.applyMsgs]
    obtain ⟨h1, h2⟩ := hself w0 rfl
    refine ⟨?_, fun e h => by cases h⟩
    intro s' h
    simp only [Except.ok.injEq] at h
    subst h
    refine ⟨w0.tipped funds, rfl, h1, h2, ?_⟩
    rw [hok w0 rfl, keep_ok_sim d hb hs h1]

/-- `accepted` of a message that charges nothing = its handler succeeds -/
theorem accepted_nonfee {s : State} {w : Wl} {sender : Addr} {funds : List Coin} {b1 : Bank} {m : ExecMsg}
    (hw : s.wl = some w) (hb : s.bank.sendFunds sender w.self funds = some b1) (H : Except Err Wl)
    (hh : handle w s.now sender funds m = liftKeep funds H) :
    accepted s (.exec sender funds m) = okB H := by
  unfold accepted
  rw [step_exec_eq m hw hb, hh]
  cases H <;> simp [liftKeep, okB, MintPay.applyMsgs]

/-- the messages C11 does not name -/
theorem other_sim (d : Denom) {s : State} {w : Wl} {sender : Addr} {funds : List Coin} {b1 : Bank} {m : ExecMsg}
    (hw : s.wl = some w) (hv : w.v.store = .list) (hb : s.bank.sendFunds sender w.self funds = some b1) (hs : sender ≠ w.self)
    (H : Except Err Wl) (hh : handle w s.now sender funds m = liftKeep funds H)
    (hfr : ∀ w', H = .ok w' → proj11 d s.bank w' = proj11 d s.bank w ∧ w'.self = w.self)
    (hv' : ∀ w', H = .ok w' → w'.v = w.v)
    (htr : tr11 d s w sender funds m = .other (accepted s (.exec sender funds m)) (tipOf d funds)) :
    Sim11 d s w sender funds m := by
  have hacc := accepted_nonfee hw hb H hh
  have hk := (kind11_list hv).2.2.2
  apply nonfee_sim d hw hb hs H hh (fun w' h => ⟨(hfr w' h).2, hv' w' h⟩)
  · intro w0 h0
    rw [htr, hacc, h0]
    simp only [WlMembers.exec, (hfr w0 h0).1, okB]
    simp [proj11, hk]
  · intro e h0
    rw [htr, hacc, h0]
    exact ⟨.other, by simp [WlMembers.exec, proj11, hk, okB]⟩

end LP.WF
