import LaunchpadModel.Lemmas.LaunchpadSystemOEMint
import LaunchpadModel.Lemmas.LaunchpadSystemGate
/-!
# The whitelist gate of an open-edition system mint, unfolded to the whitelist's STORED state

Inversions of the three pieces of `OE.wlMintChecks` (`hasMember`, `whitelistMintCount`, `wlEntitlement`). What the
`Sys.senderViewOf` answers mean in the whitelist's own storage (`Sys.sv_*`, `Sys.qMember_stored`, `Sys.qHasMember_stored`,
`Sys.qHasMemberMerkle_root`, `Sys.activeMap`, `Sys.activeRoot`) is stated over `WF` only and REUSED from
`Lemmas/LaunchpadSystemGate.lean`.

Differences from the vending gate: the -merkle-wl minter ALWAYS asks the proof-carrying `HasMember` (no `is_merkle_tree_wl`
switch: proof hashes are mandatory while the whitelist is active); its limit is `allocation.unwrap_or(per_address_limit)`.
-/
namespace LP.SysOE
open LP
open LP.Sys (find replace wlKindOf wlInfoOf senderViewOf viewOf fieldsOf)

/-! ## pieces of the composite gate -/

theorem hasMember_inv {v : OE.Variant} {i : VF.WlInfo} {f : MintLimits.Fields} {sv : VF.SenderView} {leaf : Bool}
    (h : OE.hasMember v i f sv = .ok (true, leaf)) :
    (leaf = true ∧ v.flavor = .merkle ∧ f.proof = true ∧ i.kind.answersHasMemberProof = true ∧ sv.leafOk = true) ∨
    (leaf = false ∧ v.flavor ≠ .merkle ∧ i.kind.answersHasMember = true ∧ sv.memberPlain = true) := by
  unfold OE.hasMember at h
  split at h
  · rename_i hc
    split at h
    · cases h
    · rename_i hp
      split at h
      · rename_i hk
        simp only [Except.ok.injEq, Prod.mk.injEq] at h
        exact Or.inl ⟨h.2.symm, hc, by cases hq : f.proof <;> simp_all, hk, h.1⟩
      · cases h
  · rename_i hc
    split at h
    · rename_i hk
      simp only [Except.ok.injEq, Prod.mk.injEq] at h
      exact Or.inr ⟨h.2.symm, hc, hk, h.1⟩
    · cases h

theorem wmc_inv {m : OE.Minter} {i : VF.WlInfo} {sender : Addr} {cnt sid : Nat}
    (h : OE.whitelistMintCount m i sender = .ok (cnt, sid)) :
    (i.kind.tieredName = true ∧ 1 ≤ i.stageId ∧ i.stageId ≤ 3 ∧ cnt = m.stg i.stageId sender ∧ sid = i.stageId) ∨
    (i.kind.tieredName = false ∧ cnt = m.wlc sender ∧ sid = 0) := by
  unfold OE.whitelistMintCount at h
  split at h
  · rename_i ht
    split at h
    · rename_i hr
      simp only [Except.ok.injEq, Prod.mk.injEq] at h
      exact Or.inl ⟨ht, hr.1, hr.2, h.1.symm, h.2.symm⟩
    · cases h
  · rename_i ht
    simp only [Except.ok.injEq, Prod.mk.injEq] at h
    exact Or.inr ⟨by cases hq : i.kind.tieredName <;> simp_all, h.1.symm, h.2.symm⟩

theorem ent_inv {v : OE.Variant} {i : VF.WlInfo} {f : MintLimits.Fields} {sv : VF.SenderView} {ent : Nat}
    (h : OE.wlEntitlement v i f sv = .ok ent) :
    (v.flavor = .plain ∧ ent = i.limit) ∨
    (v.flavor = .flex ∧ i.kind.answersMember = true ∧ ent = sv.memberCount) ∨
    (v.flavor = .merkle ∧ ent = f.alloc.getD i.limit) := by
  unfold OE.wlEntitlement at h
  split at h
  · rename_i hf
    cases h; exact Or.inl ⟨hf, rfl⟩
  · rename_i hf
    split at h
    · rename_i hk
      cases h; exact Or.inr (Or.inl ⟨hf, hk, rfl⟩)
    · cases h
  · rename_i hf
    cases h
    exact Or.inr (Or.inr ⟨hf, rfl⟩)

/-! ## the whitelist branch of an accepted mint -/

/-- a mint the gate booked on a whitelist counter read the contract stored at the attached address, found it active, and
passed `wlMintChecks` on `wlInfoOf` / `senderViewOf` of THAT contract's state -/
theorem wl_branch {s : State} {m : OE.Minter} {sender : Addr} {stage alloc : Option Nat} {proof : Option (List (List Nat))}
    {sid cnt : Nat} (hm : s.minter = some m)
    (hg : OE.isPublicMint (oeOf s) m sender (fieldsOf stage alloc proof) (mintView s sender stage alloc proof) = .ok (.wl sid cnt)) :
    ∃ a w, m.whitelist = some a ∧ find s.wls a = some w ∧ MintLimits.configOk m.v.flavor (wlKindOf w.v) = true ∧
      (wlInfoOf s.now w).active = true ∧
      OE.wlMintChecks m (wlInfoOf s.now w) sender (fieldsOf stage alloc proof)
        (senderViewOf s.now w sender stage alloc proof) = .ok (.wl sid cnt) := by
  rcases isPublicMint_cases hg with ⟨hp, _⟩ | ⟨a, i, ha, hi, hact, hchk⟩
  · cases hp
  · obtain ⟨w, hf, rfl, hok⟩ := wl_config hi
    rw [mintView_eq hm ha hf] at hchk
    exact ⟨a, w, ha, hf, hok, hact, hchk⟩

/-- the public branch: no whitelist attached, or the attached contract's `Config` says "not active" -/
theorem pub_branch {s : State} {m : OE.Minter} {sender : Addr} {stage alloc : Option Nat} {proof : Option (List (List Nat))}
    (hg : OE.isPublicMint (oeOf s) m sender (fieldsOf stage alloc proof) (mintView s sender stage alloc proof) = .ok .pub) :
    m.whitelist = none ∨ ∃ a w, m.whitelist = some a ∧ find s.wls a = some w ∧ (wlInfoOf s.now w).active = false := by
  rcases isPublicMint_cases hg with ⟨_, hn | ⟨a, i, ha, hi, hact⟩⟩ | ⟨a, i, ha, hi, hact, hchk⟩
  · exact Or.inl hn
  · obtain ⟨w, hf, rfl, _⟩ := wl_config hi
    exact Or.inr ⟨a, w, ha, hf, hact⟩
  · obtain ⟨_, cnt, sid, _, _, _, _, _, _, hgg, _⟩ := OE.wlMintChecks_ok hchk
    cases hgg

end LP.SysOE
