import LaunchpadModel.Model.LaunchpadSystemOE2
import LaunchpadModel.Lemmas.LaunchpadSystemOE
import LaunchpadModel.Lemmas.LaunchpadSystem2Inv
/-!
# Open-edition system composite 2 (`LP.SysOE2`): algebra of `step'` / `run`, inversion of the step, what one accepted minter-side
step does to the minter record (`oe_effect`, `sysoe_effect`, `sysStep_parts`)

Reused as they stand (same view functions, same `runSub`): `Sys2.tok_effect`, `Sys2.nodup_eff`, `Sys2.runSub_ok`,
`Sys2.migrateUpdatable_view`, `Sys2.migrateSelf_view`, `Sys2.sg_instantiate_ok`; the `OE` / `SysOE` inversion lemmas.
-/
namespace LP.SysOE2
open LP
open LP.Sys2 (tokView ttView viewOfColl cfKind ttKind CollInit instMsg runSub)

/-! ## `step'` / `run` -/

theorem step'_ok {s s' : State} {op : Op} (h : step s op = .ok s') : step' s op = s' := by simp [step', h]
theorem step'_err {s : State} {op : Op} {e : Err} (h : step s op = .error e) : step' s op = s := by simp [step', h]

theorem step'_cases (s : State) (op : Op) :
    (∃ s', step s op = .ok s' ∧ step' s op = s') ∨ (∃ e, step s op = .error e) ∧ step' s op = s := by
  cases h : step s op with
  | ok s' => exact Or.inl ⟨s', rfl, step'_ok h⟩
  | error e => exact Or.inr ⟨⟨e, rfl⟩, step'_err h⟩

theorem run_nil (s : State) : run s [] = s := rfl
theorem run_cons (s : State) (op : Op) (ops : List Op) : run s (op :: ops) = run (step' s op) ops := rfl
theorem run_append (s : State) (a b : List Op) : run s (a ++ b) = run (run s a) b := by simp [run, List.foldl_append]

theorem accepted_ok {s s' : State} {op : Op} (h : step s op = .ok s') : accepted s op = true := by simp [accepted, h]
theorem accepted_err {s : State} {op : Op} {e : Err} (h : step s op = .error e) : accepted s op = false := by
  simp [accepted, h]

/-! ## views -/

theorem sysOf_minter_some {s : State} {m : Minter} {c : CF.Coll} (h : s.mc = some (m, c)) :
    (sysOf s).minter = some (omOf m c) := by simp [sysOf, h]
theorem sysOf_minter_none {s : State} (h : s.mc = none) : (sysOf s).minter = none := by simp [sysOf, h]

theorem setSys_mc_some (s : State) (r : SysOE.State) (bank : MintPay.Bank) (c : CF.Coll) (uri ext : Nat) :
    (setSys s r bank (some c) uri ext).mc = r.minter.map fun om => (ofOm om uri ext, c) := by
  unfold setSys
  cases r.minter <;> rfl

theorem setSys_mc_none (s : State) (r : SysOE.State) (bank : MintPay.Bank) (uri ext : Nat) :
    (setSys s r bank none uri ext).mc = none := by
  unfold setSys
  cases r.minter <;> rfl

/-! ## plain ops, sub-message kinds -/

/-- an `OE` op that is neither a collection-interface op nor `create` -/
def plainOE (o : OE.Op) : Bool := (ifaceMsg o).isNone && !isCreate o

def plainOp : SysOE.Op → Bool
  | .minter o => plainOE o
  | _ => true

/-- the sub-message kind of an `OE` op -/
def osub : OE.Op → Sub
  | .mint sender _ _ _ => .mint sender
  | .mintTo _ _ rcpt => .mint rcpt
  | .updateStartTradingTime _ _ t => .trading t
  | _ => .none

/-- what an accepted minter-side step does to the minter record, by sub-message kind -/
def SubEff (m m' : OE.Minter) : Sub → Prop
  | .mint rcpt => m.seq.mint rcpt = some m'.seq ∧ m'.tt = m.tt ∧ m.tt.owner = some m.addr
  | .trading t => m'.seq = m.seq ∧ m.tt.updateTrading m.addr t = .ok m'.tt
  | .none => m'.tt = m.tt ∧ (m'.seq = m.seq ∨ m.seq.burnRemaining = some m'.seq)

theorem step_sys_cases (s : State) (o : SysOE.Op) :
    (∃ vo sender m, o = .minter vo ∧ ifaceMsg vo = some (sender, m) ∧ step s (.sys o) = collExec s sender [] m) ∨
    (∃ vo, o = .minter vo ∧ isCreate vo = true ∧ step s (.sys o) = .error .invalid) ∨
    (plainOp o = true ∧ step s (.sys o) = sysStep s o) := by
  cases o with
  | minter vo =>
    cases hi : ifaceMsg vo with
    | some p =>
      obtain ⟨sender, m⟩ := p
      exact Or.inl ⟨vo, sender, m, rfl, hi, by simp [step, hi]⟩
    | none =>
      cases hc : isCreate vo with
      | true => exact Or.inr (Or.inl ⟨vo, rfl, hc, by simp [step, hi, hc]⟩)
      | false => exact Or.inr (Or.inr ⟨by simp [plainOp, plainOE, hi, hc], by simp [step, hi, hc]⟩)
  | mint sender funds stage alloc proof => exact Or.inr (Or.inr ⟨rfl, rfl⟩)
  | wlInst v sender funds self m => exact Or.inr (Or.inr ⟨rfl, rfl⟩)
  | wlExec k sender funds m => exact Or.inr (Or.inr ⟨rfl, rfl⟩)

/-! ## inversion of `collExec`, `collEnv`, `sysStep` -/

theorem collExec_ok {s s' : State} {sender : Addr} {funds : List Coin} {msg : CF.ExecMsg}
    (h : collExec s sender funds msg = .ok s') :
    ∃ m c b1 core' b2, s.mc = some (m, c) ∧ s.bank.sendFunds sender c.self funds = some b1 ∧
      Sg721.exec c.core ⟨s.block, sender, funds, CF.toExec c.core s.block msg⟩ = .ok core' ∧
      MintPay.applyMsgs c.self b1 (CF.responseMsgs c.self funds msg) = some b2 ∧
      s' = { s with bank := b2, mc := some (m, { c with core := core' }) } := by
  unfold collExec at h
  split at h
  · cases h
  · rename_i mn c0 hmc
    split at h
    · cases h
    · rename_i q hq
      obtain ⟨c, b1, core', b2, hc, hb1, hcore, hb2, rfl⟩ := CF.exec_ok hq
      simp only [cfOf, hmc, Option.map_some, Option.some.injEq] at hc
      subst hc
      simp only at h
      cases h
      exact ⟨mn, c0, b1, core', b2, hmc, hb1, hcore, hb2, rfl⟩

theorem collEnv_ok {s s' : State} {op : CF.Op} (h : collEnv s op = .ok s') :
    ∃ m c q c', s.mc = some (m, c) ∧ CF.step (cfOf s) op = .ok q ∧ q.coll = some c' ∧
      s' = { s with bank := q.bank, mc := some (m, c') } := by
  unfold collEnv at h
  split at h
  · cases h
  · rename_i mn c0 hmc
    split at h
    · cases h
    · rename_i q hq
      split at h
      · cases h
      · rename_i c' hc'
        cases h
        exact ⟨mn, c0, q, c', hmc, hq, hc', rfl⟩

theorem collEnv_parts {s s' : State} {op : CF.Op} (h : collEnv s op = .ok s')
    (hop : op = .migrateUpdatable ∨ op = .migrateSelf ∨ ∃ v, op = .setVersion v) :
    ∃ m c c', s.mc = some (m, c) ∧ s' = { s with mc := some (m, c') } ∧
      ((op = .migrateUpdatable ∧ CF.migrateUpdatable c s.now = .ok c') ∨
       (op = .migrateSelf ∧ CF.migrateSelf c s.now = .ok c') ∨
       (∃ v, op = .setVersion v ∧ c' = { c with core := { c.core with ver := v } })) := by
  obtain ⟨m, c, q, c', hmc, hq, hc', rfl⟩ := collEnv_ok h
  have hcoll : (cfOf s).coll = some c := by simp [cfOf, hmc]
  rcases hop with rfl | rfl | ⟨v, rfl⟩
  · simp only [CF.step] at hq
    obtain ⟨c0, c1, hc0, hf, rfl⟩ := CF.onColl_ok hq
    rw [hcoll] at hc0; cases hc0
    simp only [Option.some.injEq] at hc'; subst hc'
    exact ⟨m, c, c1, hmc, rfl, Or.inl ⟨rfl, hf⟩⟩
  · simp only [CF.step] at hq
    obtain ⟨c0, c1, hc0, hf, rfl⟩ := CF.onColl_ok hq
    rw [hcoll] at hc0; cases hc0
    simp only [Option.some.injEq] at hc'; subst hc'
    exact ⟨m, c, c1, hmc, rfl, Or.inr (Or.inl ⟨rfl, hf⟩)⟩
  · simp only [CF.step] at hq
    obtain ⟨c0, c1, hc0, hf, rfl⟩ := CF.onColl_ok hq
    rw [hcoll] at hc0; cases hc0
    simp only [Option.some.injEq] at hc'; subst hc'
    cases hf
    exact ⟨m, c, _, hmc, rfl, Or.inr (Or.inr ⟨v, rfl, rfl⟩)⟩

theorem sysStep_ok {s s' : State} {op : SysOE.Op} (h : sysStep s op = .ok s') :
    ∃ r, SysOE.step (sysOf s) op = .ok r ∧
      ((s.mc = none ∧ s' = setSys s r r.bank none 0 0) ∨
       ∃ m c msg bank c', s.mc = some (m, c) ∧ subMsg m c (subOf op) = .ok msg ∧
         runSub s.block r.bank m.addr c msg = .ok (bank, c') ∧ s' = setSys s r bank (some c') m.nftUri m.nftExt) := by
  unfold sysStep at h
  split at h
  · cases h
  · rename_i r hr
    refine ⟨r, hr, ?_⟩
    split at h
    · rename_i hmc
      cases h
      exact Or.inl ⟨hmc, rfl⟩
    · rename_i m c hmc
      split at h
      · cases h
      · rename_i msg hmsg
        split at h
        · cases h
        · rename_i bank c' hrun
          cases h
          exact Or.inr ⟨m, c, msg, bank, c', hmc, hmsg, hrun, rfl⟩

/-! ## one accepted `OE` step, seen from the minter record -/

theorem oe_effect {S S' : OE.State} {m : OE.Minter} {o : OE.Op} (hp : plainOE o = true) (hm : S.minter = some m)
    (h : OE.step S o = .ok S') :
    ∃ m', S'.minter = some m' ∧ m'.addr = m.addr ∧ m'.onChain = m.onChain ∧ m'.admin = m.admin ∧ m'.sg721 = m.sg721 ∧
      SubEff m m' (osub o) := by
  cases o with
  | setTime t =>
    simp only [OE.step] at h; split at h <;> cases h
    exact ⟨m, hm, rfl, rfl, rfl, rfl, rfl, Or.inl rfl⟩
  | fund a c => simp only [OE.step] at h; cases h; exact ⟨m, hm, rfl, rfl, rfl, rfl, rfl, Or.inl rfl⟩
  | wlEnv k i => simp only [OE.step] at h; cases h; exact ⟨m, hm, rfl, rfl, rfl, rfl, rfl, Or.inl rfl⟩
  | sudoParams u =>
    simp only [OE.step] at h; split at h <;> cases h
    exact ⟨m, hm, rfl, rfl, rfl, rfl, rfl, Or.inl rfl⟩
  | instantiateDirect sender => simp [OE.step] at h
  | create sender funds msg w => simp [plainOE, isCreate] at hp
  | mint sender funds f sv =>
    simp only [OE.step] at h
    obtain ⟨m0, hm0, h⟩ := OE.withMinterS_ok h
    rw [hm] at hm0; cases hm0
    obtain ⟨_, g, _, _, _, _, _, h⟩ := OE.mintSender_ok h
    obtain ⟨_, _, sq, _, _, _, _, _, how, hsq, _, rfl⟩ := OE.executeMint_ok h
    refine ⟨_, rfl, ?_, ?_, ?_, ?_, hsq, ?_, how⟩ <;> cases g <;> simp only [OE.bookCount] <;> (try split) <;> rfl
  | mintTo sender funds rcpt =>
    simp only [OE.step] at h
    obtain ⟨m0, hm0, h⟩ := OE.withMinterS_ok h
    rw [hm] at hm0; cases hm0
    obtain ⟨_, _, _, _, h⟩ := OE.mintAdmin_ok h
    obtain ⟨_, _, sq, _, _, _, _, _, how, hsq, _, rfl⟩ := OE.executeMint_ok h
    exact ⟨_, rfl, rfl, rfl, rfl, rfl, hsq, rfl, how⟩
  | setWhitelist sender funds wl valid =>
    simp only [OE.step] at h
    obtain ⟨m0, m', hm0, hf, rfl⟩ := OE.withMinter_ok h
    rw [hm] at hm0; cases hm0
    obtain ⟨_, _, _, _, _, _, _, _, _, _, _, rfl⟩ := OE.setWhitelist_ok hf
    exact ⟨_, rfl, rfl, rfl, rfl, rfl, rfl, Or.inl rfl⟩
  | purge sender funds =>
    simp only [OE.step] at h
    obtain ⟨m0, m', hm0, hf, rfl⟩ := OE.withMinter_ok h
    rw [hm] at hm0; cases hm0
    obtain ⟨_, _, _, rfl⟩ := OE.purge_ok hf
    exact ⟨_, rfl, rfl, rfl, rfl, rfl, rfl, Or.inl rfl⟩
  | updateMintPrice sender funds p =>
    simp only [OE.step] at h
    obtain ⟨m0, m', hm0, hf, rfl⟩ := OE.withMinter_ok h
    rw [hm] at hm0; cases hm0
    have : m' = { m with mintPrice := ⟨m.mintPrice.denom, p⟩ } := by
      unfold OE.updateMintPrice at hf
      repeat (split at hf <;> try cases hf)
      rfl
    subst this
    exact ⟨_, rfl, rfl, rfl, rfl, rfl, rfl, Or.inl rfl⟩
  | updateStartTime sender funds t =>
    simp only [OE.step] at h
    obtain ⟨m0, m', hm0, hf, rfl⟩ := OE.withMinter_ok h
    rw [hm] at hm0; cases hm0
    have : m' = { m with startTime := t } := by
      unfold OE.updateStartTime at hf
      repeat (split at hf <;> try cases hf)
      rfl
    subst this
    exact ⟨_, rfl, rfl, rfl, rfl, rfl, rfl, Or.inl rfl⟩
  | updateEndTime sender funds t =>
    simp only [OE.step] at h
    obtain ⟨m0, m', hm0, hf, rfl⟩ := OE.withMinter_ok h
    rw [hm] at hm0; cases hm0
    have : m' = { m with endTime := some t } := by
      unfold OE.updateEndTime at hf
      repeat (split at hf <;> try cases hf)
      rfl
    subst this
    exact ⟨_, rfl, rfl, rfl, rfl, rfl, rfl, Or.inl rfl⟩
  | updateStartTradingTime sender funds t =>
    simp only [OE.step] at h
    obtain ⟨m0, m', hm0, hf, rfl⟩ := OE.withMinter_ok h
    rw [hm] at hm0; cases hm0
    obtain ⟨c, _, _, _, hc, rfl⟩ := OE.updateStartTradingTime_ok hf
    exact ⟨_, rfl, rfl, rfl, rfl, rfl, rfl, hc⟩
  | updatePerAddressLimit sender funds n =>
    simp only [OE.step] at h
    obtain ⟨m0, m', hm0, hf, rfl⟩ := OE.withMinter_ok h
    rw [hm] at hm0; cases hm0
    obtain ⟨_, _, _, _, rfl⟩ := OE.updatePerAddressLimit_ok hf
    exact ⟨_, rfl, rfl, rfl, rfl, rfl, rfl, Or.inl rfl⟩
  | burnRemaining sender funds =>
    simp only [OE.step] at h
    obtain ⟨m0, m', hm0, hf, rfl⟩ := OE.withMinter_ok h
    rw [hm] at hm0; cases hm0
    obtain ⟨sq, _, _, _, hsq, rfl⟩ := OE.burnRemaining_ok hf
    exact ⟨_, rfl, rfl, rfl, rfl, rfl, rfl, Or.inr hsq⟩
  | sudoStatus v b e =>
    simp only [OE.step] at h
    obtain ⟨m0, m', hm0, hf, rfl⟩ := OE.withMinter_ok h
    rw [hm] at hm0; cases hm0
    cases hf
    exact ⟨_, rfl, rfl, rfl, rfl, rfl, rfl, Or.inl rfl⟩
  | collTransfer sender id to => simp [plainOE, ifaceMsg] at hp
  | collBurn sender id => simp [plainOE, ifaceMsg] at hp
  | collTrading sender t => simp [plainOE, ifaceMsg] at hp
  | collCreator sender new => simp [plainOE, ifaceMsg] at hp
  | collFreeze sender => simp [plainOE, ifaceMsg] at hp
  | collOwn sender a => cases a <;> simp [plainOE, ifaceMsg] at hp

end LP.SysOE2
