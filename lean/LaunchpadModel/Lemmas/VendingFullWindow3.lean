import LaunchpadModel.Lemmas.VendingFullWindow2
import LaunchpadModel.Lemmas.Supply
/-!
# Composite ⟶ C04 aspect model (`LP.SaleWindow`), part 3: the gate and price bridges, the accepted-mint simulation
-/
namespace LP.VF
open LP
open LP.SaleWindow (Wl Stage Leaf ProofArg WlConfig)

/-- a standing discount is in the denom of the public price (true by construction of `UpdateDiscountPrice`; an invariant) -/
def DiscDenom (m : Minter) : Prop := ∀ d, m.discountPrice = some d → d.denom = m.mintPrice.denom

/-- the aspect model has ONE denom for the factory's minimum and airdrop price -/
def ParamsCoherent (s : State) : Prop := s.params.airdropMintPrice.denom = s.params.minMintPrice.denom

def infoAt (s : State) (m : Minter) : Option WlInfo :=
  match m.whitelist with
  | none => none
  | some a => s.wls a

def addrAt (m : Minter) : Addr := m.whitelist.getD 0

def mintArgsOf (s : State) (m : Minter) (sender : Addr) (funds : List Coin) (f : MintLimits.Fields) (sv : SenderView) :
    SaleWindow.MintArgs := mintArgs (addrAt m) (infoAt s m) sender funds f sv

theorem effPrice_denom {m : Minter} (h : DiscDenom m) : (effPrice m).denom = m.mintPrice.denom := by
  unfold effPrice
  cases hd : m.discountPrice with
  | none => rfl
  | some d => exact h d hd

theorem takeToken_mintable {sup sup' : Supply.Fixed} {pk : Pick} {o : Addr} (h : takeToken sup pk o = some sup') :
    sup.mintable ≠ 0 ∧ sup'.mintable = sup.mintable - 1 := by
  cases pk with
  | «at» p =>
    obtain ⟨hz, id, _, hd⟩ := Supply.Fixed.takeAt_spec h
    obtain ⟨c, _, rfl⟩ := Supply.Fixed.deliver_spec hd
    exact ⟨hz, rfl⟩
  | id i =>
    obtain ⟨hz, _, _, _, _, hd⟩ := Supply.Fixed.takeId_spec h
    obtain ⟨c, _, rfl⟩ := Supply.Fixed.deliver_spec hd
    exact ⟨hz, rfl⟩

/-- **the gate bridge**: when the composite's `is_public_mint` lets a mint through, the aspect model's `isPublicMint`, run on
a whitelist pool that holds the synthesised whitelist at the attached address, returns the corresponding decision -/
theorem sw_isPublicMint {s : State} {m : Minter} {sender : Addr} {funds : List Coin} {f : MintLimits.Fields}
    {sv : SenderView} {g : MintKind} (W : Nat → Option Wl)
    (hco : ∀ a i, m.whitelist = some a → s.wls a = some i → InfoCoherent i)
    (hW : ∀ a i, m.whitelist = some a → s.wls a = some i → W a = some (mintWl i s.now sender f sv))
    (hg : isPublicMint s m sender f sv = .ok g) :
    SaleWindow.isPublicMint (swOf s m W) (swMinter m) (mintArgsOf s m sender funds f sv) = .ok (swKindOf g) := by
  unfold isPublicMint at hg
  unfold SaleWindow.isPublicMint
  split at hg
  · rename_i hw
    cases hg
    simp [swMinter, hw, swKindOf]
  · rename_i a hw
    peel hg
    rename_i i hi
    obtain ⟨hwls, hcfg⟩ := wlConfig_ok hi
    have hWa := hW a i hw hwls
    have hcoh := hco a i hw hwls
    have hparse : SaleWindow.configParses (swVariant m.v).shape (mintWl i s.now sender f sv).kind = true := by
      simp only [swVariant, mintWl, synth_kind, configParses_eq]; exact hcfg
    have hconf : (mintWl i s.now sender f sv).config s.now = ⟨i.active, i.price, i.limit⟩ := synth_config _ _ _ _
    simp only [swMinter, hw, swOf, hWa, hparse, Bool.not_true, Bool.false_eq_true, if_false, hconf]
    split at hg
    · rename_i hact
      cases hg
      simp [hact, swKindOf]
    · rename_i hact
      have hact' : i.active = true := by cases hx : i.active <;> simp_all
      simp only [hact', Bool.not_true, Bool.false_eq_true, if_false]
      obtain ⟨leaf, cnt, sid, ent, hmem, hcnt, hent, hlt, rfl, hstage⟩ := wlMintChecks_ok hg
      have hargs : mintArgsOf s m sender funds f sv = mintArgs a (some i) sender funds f sv := by
        simp [mintArgsOf, addrAt, infoAt, hw, hwls]
      rw [hargs]
      obtain ⟨hmc, hleaf⟩ := sw_memberCheck (s := s) (a := a) (sender := sender) (funds := funds) hcoh hact' hmem
      obtain ⟨hslot, hcnteq, hsid⟩ := sw_wlSlot (now := s.now) (ms := membersOf sender sv) (ls := leavesOf sender f sv) hact' hcnt
      have hmp : leaf = false → sv.memberPlain = true := by
        intro hl
        unfold hasMember at hmem
        split at hmem
        · split at hmem
          · simp only [Except.ok.injEq, Prod.mk.injEq] at hmem; rw [hl] at hmem; exact absurd hmem.2 (by simp)
          · cases hmem
        · split at hmem
          · simp only [Except.ok.injEq, Prod.mk.injEq] at hmem; exact hmem.1
          · cases hmem
      have hlim := sw_wlLimit (s := s) (a := a) (sender := sender) (funds := funds)
        (cfg := ⟨true, i.price, i.limit⟩) rfl hact' hmp hleaf hent
      have hres := sw_wlMintChecks_intro (s := swOf s m W) (m := swMinter m) (k := a)
        (w := mintWl i s.now sender f sv) (cfg := ⟨true, i.price, i.limit⟩)
        (a := mintArgs a (some i) sender funds f sv) (slot := if sid = 0 then none else some sid) (lim := ent)
        rfl hmc hslot hlim
        (by
          intro hnone
          by_cases hs0 : sid = 0
          · rw [if_pos hs0] at hcnteq
            show m.wlc sender < ent
            omega
          · rw [if_neg hs0] at hnone; cases hnone)
        (by
          intro id hid
          by_cases hs0 : sid = 0
          · rw [if_pos hs0] at hid; cases hid
          · rw [if_neg hs0] at hid hcnteq
            cases hid
            show m.stg sid sender < ent
            omega)
        (by
          intro id hid
          by_cases hs0 : sid = 0
          · simp [hs0] at hid
          · simp only [hs0, if_false, Option.some.injEq] at hid
            subst hid
            obtain ⟨hst, htot⟩ := hstage hs0
            refine ⟨by simp only [swOf, swVariant, mintWl, synth_kind, stageParses_eq]; exact hst,
              liveStage i s.now (membersOf sender sv) (leavesOf sender f sv), ?_, ?_⟩
            · have := synth_activeStage i s.now (membersOf sender sv) (leavesOf sender f sv)
              simp only [hact', if_true] at this
              exact this
            · intro l hl
              exact htot l hl)
      simp only [swOf, swMinter, hw] at hres ⊢
      rw [hres]
      simp only [swKindOf]
      by_cases hs0 : sid = 0 <;> simp [hs0]

/-- **the price bridge**: the price the composite demands for a `Mint {}` is the price the aspect model demands -/
theorem sw_mintPrice_sender {s : State} {m : Minter} {price : Coin} (W : Nat → Option Wl)
    (hW : ∀ a i, m.whitelist = some a → s.wls a = some i → ∃ ms ls, W a = some (synthWl (some i) s.now ms ls))
    (hp : mintPrice s m false = .ok price) :
    SaleWindow.mintPrice (swOf s m W) (swMinter m) false = .ok price := by
  unfold mintPrice at hp
  unfold SaleWindow.mintPrice
  simp only [Bool.false_eq_true, if_false] at hp ⊢
  split at hp
  · rename_i hw
    cases hp
    simp [swMinter, hw, effPrice]
  · rename_i a hw
    peel hp
    rename_i i hi
    obtain ⟨hwls, hcfg⟩ := wlConfig_ok hi
    obtain ⟨ms, ls, hWa⟩ := hW a i hw hwls
    have hparse : SaleWindow.configParses (swVariant m.v).shape (synthWl (some i) s.now ms ls).kind = true := by
      simp only [swVariant, synth_kind, configParses_eq]; exact hcfg
    simp only [swMinter, hw, swOf, hWa, hparse, Bool.not_true, Bool.false_eq_true, if_false, synth_config]
    split at hp <;> rename_i hact <;> cases hp <;> simp [hact, effPrice]

theorem sw_mintPrice_admin {s : State} {m : Minter} (W : Nat → Option Wl) (hpc : ParamsCoherent s) :
    SaleWindow.mintPrice (swOf s m W) (swMinter m) true = .ok s.params.airdropMintPrice := by
  have hc : (⟨s.params.minMintPrice.denom, s.params.airdropMintPrice.amount⟩ : Coin) = s.params.airdropMintPrice := by
    rw [← hpc]
  simp [SaleWindow.mintPrice, swOf, swVariant, swParams, hc]

/-- what a booked mint writes, in the aspect model's vocabulary -/
theorem swMinter_booked (m : Minter) (sender : Addr) (g : MintKind) (sup : Supply.Fixed) (ac : Nat) (rc : Addr → Nat)
    (hcnt : ∀ sid cnt, g = .wl sid cnt → cnt = if sid = 0 then m.wlc sender else m.stg sid sender)
    (n : Nat) (hn : sup.mintable = n) :
    swMinter { bookCount m sender g with supply := sup, airdropCount := ac, received := rc } =
      (match swKindOf g with
        | .pub => { swMinter m with mintable := some n, pubCount := SaleWindow.bump m.pub sender }
        | .wl none => { swMinter m with mintable := some n, wlCount := SaleWindow.bump m.wlc sender }
        | .wl (some id) =>
          { swMinter m with mintable := some n,
                            stCount := fun i => if i = id then SaleWindow.bump (m.stg id) sender else m.stg i,
                            stTotal := fun i => if i = id then m.tot id + 1 else m.tot i }) := by
  subst hn
  cases g with
  | pub =>
    simp only [swKindOf, swMinter, bookCount, effPrice]
    congr 1
  | wl sid cnt =>
    have hc := hcnt sid cnt rfl
    by_cases hs0 : sid = 0
    · subst hs0
      simp only [if_true] at hc
      subst hc
      simp only [swKindOf, swMinter, bookCount, effPrice, if_true]
      congr 1
    · simp only [hs0, if_false] at hc
      subst hc
      simp only [swKindOf, swMinter, bookCount, effPrice, hs0, if_false]
      congr 1

end LP.VF
