import LaunchpadModel.Lemmas.OpenEditionFullWindow2
import LaunchpadModel.Lemmas.Supply
/-!
# Open-edition composite ⟶ C04 aspect model (`LP.SaleWindow`, family `openEdition`), part 3: gate and price bridges, op
translation, forward simulation for every message
-/
namespace LP.OE
open LP
open LP.VF (WlInfo SenderView MintKind synthWl liveStage liveIdx proofArg swKind swShape synth_kind synth_config
  synth_activeStage synth_activeIdx configParses_eq stageParses_eq)
open LP.SaleWindow (Wl Stage Leaf ProofArg WlConfig)

/-- the aspect model has ONE denom for the factory's minimum and airdrop price -/
def ParamsCoherent (s : State) : Prop := s.params.airdropMintPrice.denom = s.params.minMintPrice.denom

def infoAt (s : State) (m : Minter) : Option WlInfo :=
  match m.whitelist with
  | none => none
  | some a => s.wls a

def addrAt (m : Minter) : Addr := m.whitelist.getD 0

def mintArgsOf (s : State) (m : Minter) (sender : Addr) (funds : List Coin) (f : MintLimits.Fields) (sv : SenderView) :
    SaleWindow.MintArgs := mintArgs (addrAt m) (infoAt s m) sender funds f sv

theorem seqMint_mintable {sq sq' : Supply.Seq} {o : Addr} (h : sq.mint o = some sq') :
    sq.mintable ≠ some 0 ∧ sq'.mintable = sq.mintable.map (· - 1) := by
  obtain ⟨hz, c, _, rfl⟩ := Supply.Seq.mint_spec h
  exact ⟨hz, rfl⟩

/-- **the gate bridge** -/
theorem sw_isPublicMint {s : State} {m : Minter} {sender : Addr} {funds : List Coin} {f : MintLimits.Fields}
    {sv : SenderView} {g : MintKind} (W : Nat → Option Wl)
    (hco : ∀ a i, m.whitelist = some a → s.wls a = some i → InfoCoherent i)
    (hW : ∀ a i, m.whitelist = some a → s.wls a = some i → W a = some (mintWl i s.now sender f sv))
    (hg : isPublicMint s m sender f sv = .ok g) :
    SaleWindow.isPublicMint (swOf s m W) (swMinter m) (mintArgsOf s m sender funds f sv) = .ok (swKindOf g) := by
  unfold isPublicMint at hg
  unfold SaleWindow.isPublicMint
  split at hg
  · rename_i hw
    cases hg
    simp [swMinter, hw, swKindOf]
  · rename_i a hw
    peel hg
    rename_i i hi
    obtain ⟨hwls, hcfg⟩ := wlConfig_ok hi
    have hWa := hW a i hw hwls
    have hparse : SaleWindow.configParses (swVariant m.v).shape (mintWl i s.now sender f sv).kind = true := by
      simp only [swVariant, mintWl, synth_kind, configParses_eq]; exact hcfg
    have hconf : (mintWl i s.now sender f sv).config s.now = ⟨i.active, i.price, i.limit⟩ := synth_config _ _ _ _
    simp only [swMinter, hw, swOf, hWa, hparse, Bool.not_true, Bool.false_eq_true, if_false, hconf]
    split at hg
    · rename_i hact
      cases hg
      simp [hact, swKindOf]
    · rename_i hact
      have hact' : i.active = true := by cases hx : i.active <;> simp_all
      simp only [hact', Bool.not_true, Bool.false_eq_true, if_false]
      obtain ⟨leaf, cnt, sid, ent, hmem, hcnt, hoe, hent, hlt, rfl, hstage⟩ := wlMintChecks_ok hg
      have hargs : mintArgsOf s m sender funds f sv = mintArgs a (some i) sender funds f sv := by
        simp [mintArgsOf, addrAt, infoAt, hw, hwls]
      rw [hargs]
      obtain ⟨hmc, hmp⟩ := sw_memberCheck (s := s) (a := a) (sender := sender) (funds := funds) hact' hmem
      obtain ⟨hslot, hcnteq⟩ := sw_wlSlot (now := s.now) (ms := membersOf sender sv) (ls := leavesOf sender f sv) hact' hcnt
      have hmpf : m.v.flavor = .flex → sv.memberPlain = true := by
        intro hfl
        apply hmp
        unfold hasMember at hmem
        rw [if_neg (by rw [hfl]; simp)] at hmem
        split at hmem
        · simp only [Except.ok.injEq, Prod.mk.injEq] at hmem; exact hmem.2.symm
        · cases hmem
      have hlim := sw_wlLimit (s := s) (a := a) (sender := sender) (funds := funds)
        (cfg := ⟨true, i.price, i.limit⟩) rfl hact' hmpf hent
      have hres := sw_wlMintChecks_intro (s := swOf s m W) (m := swMinter m) (k := a)
        (w := mintWl i s.now sender f sv) (cfg := ⟨true, i.price, i.limit⟩)
        (a := mintArgs a (some i) sender funds f sv) (slot := if sid = 0 then none else some sid) (lim := ent)
        rfl hmc hslot hlim
        (by
          intro hnone
          by_cases hs0 : sid = 0
          · rw [if_pos hs0] at hcnteq
            show m.wlc sender < ent
            omega
          · rw [if_neg hs0] at hnone; cases hnone)
        (by
          intro id hid
          by_cases hs0 : sid = 0
          · rw [if_pos hs0] at hid; cases hid
          · rw [if_neg hs0] at hid hcnteq
            cases hid
            show m.stg sid sender < ent
            omega)
        (by
          intro hsh hcap
          have hfl : m.v.flavor = .flex := by
            have : swShape m.v.flavor = .flex := hsh
            cases hx : m.v.flavor <;> simp_all [swShape]
          have hnone : m.numTokens = none := by
            have : m.numTokens.isSome = false := hcap
            cases hn : m.numTokens <;> simp_all
          have hlt2 := hoe hfl hnone
          constructor
          · intro hsl
            by_cases hs0 : sid = 0
            · rw [if_pos hs0] at hcnteq
              show m.wlc sender < m.perAddressLimit
              omega
            · rw [if_neg hs0] at hsl; cases hsl
          · intro id hid
            by_cases hs0 : sid = 0
            · rw [if_pos hs0] at hid; cases hid
            · rw [if_neg hs0] at hid hcnteq
              cases hid
              show m.stg sid sender < m.perAddressLimit
              omega)
        (by
          intro id hid
          by_cases hs0 : sid = 0
          · simp [hs0] at hid
          · simp only [hs0, if_false, Option.some.injEq] at hid
            subst hid
            obtain ⟨hst, htot⟩ := hstage hs0
            refine ⟨by simp only [swOf, swVariant, mintWl, synth_kind, stageParses_eq]; exact hst,
              liveStage i s.now (membersOf sender sv) (leavesOf sender f sv), ?_, ?_⟩
            · have := synth_activeStage i s.now (membersOf sender sv) (leavesOf sender f sv)
              simp only [hact', if_true] at this
              exact this
            · intro l hl
              exact htot l hl)
      simp only [swOf, swMinter, hw] at hres ⊢
      rw [hres]
      simp only [swKindOf]
      by_cases hs0 : sid = 0 <;> simp [hs0]

/-- **the price bridge** -/
theorem sw_mintPrice_sender {s : State} {m : Minter} {price : Coin} (W : Nat → Option Wl)
    (hW : ∀ a i, m.whitelist = some a → s.wls a = some i → ∃ ms ls, W a = some (synthWl (some i) s.now ms ls))
    (hp : mintPrice s m false = .ok price) :
    SaleWindow.mintPrice (swOf s m W) (swMinter m) false = .ok price := by
  unfold mintPrice at hp
  unfold SaleWindow.mintPrice
  simp only [Bool.false_eq_true, if_false] at hp ⊢
  split at hp
  · rename_i hw
    cases hp
    simp [swMinter, hw]
  · rename_i a hw
    peel hp
    rename_i i hi
    obtain ⟨hwls, hcfg⟩ := wlConfig_ok hi
    obtain ⟨ms, ls, hWa⟩ := hW a i hw hwls
    have hparse : SaleWindow.configParses (swVariant m.v).shape (synthWl (some i) s.now ms ls).kind = true := by
      simp only [swVariant, synth_kind, configParses_eq]; exact hcfg
    simp only [swMinter, hw, swOf, hWa, hparse, Bool.not_true, Bool.false_eq_true, if_false, synth_config]
    split at hp <;> rename_i hact <;> cases hp <;> simp [hact]

theorem sw_mintPrice_admin {s : State} {m : Minter} {price : Coin} (W : Nat → Option Wl) (hpc : ParamsCoherent s)
    (hp : mintPrice s m true = .ok price) :
    SaleWindow.mintPrice (swOf s m W) (swMinter m) true = .ok price := by
  unfold mintPrice at hp
  simp only [if_true] at hp
  peel hp
  rename_i hz
  cases hp
  have hc : (⟨s.params.minMintPrice.denom, s.params.airdropMintPrice.amount⟩ : Coin) = s.params.airdropMintPrice := by
    rw [← hpc]
  have hz' : ¬ (s.params.airdropMintPrice.amount = 0 ∧ m.numTokens.isSome = false) := by
    intro hx
    apply hz
    refine ⟨hx.1, ?_⟩
    cases hn : m.numTokens <;> simp_all
  unfold SaleWindow.mintPrice
  simp only [if_true, swOf, swVariant, swParams, swMinter]
  by_cases h0 : s.params.airdropMintPrice.amount = 0
  · have hcap : m.numTokens.isSome = true := by
      cases hx : m.numTokens.isSome
      · exact absurd ⟨h0, hx⟩ hz'
      · rfl
    simp [h0, hcap, hc]
    rw [← hc, h0]
  · simp [h0, hc]

theorem swMinter_booked (m : Minter) (sender : Addr) (g : MintKind) (sq : Supply.Seq) (ac : Nat) (rc : Addr → Nat)
    (hcnt : ∀ sid cnt, g = .wl sid cnt → cnt = if sid = 0 then m.wlc sender else m.stg sid sender)
    (hn : sq.mintable = m.seq.mintable.map (· - 1)) :
    swMinter { bookCount m sender g with seq := sq, airdropCount := ac, received := rc } =
      (match swKindOf g with
        | .pub => { swMinter m with mintable := (swMinter m).mintable.map (· - 1), pubCount := SaleWindow.bump m.pub sender }
        | .wl none => { swMinter m with mintable := (swMinter m).mintable.map (· - 1), wlCount := SaleWindow.bump m.wlc sender }
        | .wl (some id) =>
          { swMinter m with mintable := (swMinter m).mintable.map (· - 1),
                            stCount := fun i => if i = id then SaleWindow.bump (m.stg id) sender else m.stg i,
                            stTotal := fun i => if i = id then m.tot id + 1 else m.tot i }) := by
  cases g with
  | pub =>
    simp only [swKindOf, swMinter, bookCount, hn]
    congr 1
  | wl sid cnt =>
    have hc := hcnt sid cnt rfl
    by_cases hs0 : sid = 0
    · subst hs0
      simp only [if_true] at hc
      subst hc
      simp only [swKindOf, swMinter, bookCount, if_true, hn]
      congr 1
    · simp only [hs0, if_false] at hc
      subst hc
      simp only [swKindOf, swMinter, bookCount, hs0, if_false, hn]
      congr 1

/-! ## op translation -/

def refreshOp (s : State) (a : Addr) (ms : List (Addr × Nat)) (ls : List Leaf) : SaleWindow.Op :=
  .wlEnv a (synthWl (s.wls a) s.now ms ls)

def refreshAttached (s : State) (m : Minter) (ms : List (Addr × Nat)) (ls : List Leaf) : List SaleWindow.Op :=
  match m.whitelist with
  | some a => [refreshOp s a ms ls]
  | none => []

def envOp (s' : State) (pp pw : Bool) : List SaleWindow.Op :=
  match s'.minter with
  | some m' => [.minterEnv m'.mintPrice.amount m'.perAddressLimit m'.seq.mintable pp pw]
  | none => []

/-- composite op ↦ C04 aspect ops (forward simulation with stuttering) -/
def swOps (s : State) (m : Minter) (op : Op) : List SaleWindow.Op :=
  if accepted s op then
    match op with
    | .setTime t => [.setTime t]
    | .mint sender funds f sv =>
      refreshAttached s m (membersOf sender sv) (leavesOf sender f sv) ++ [.mint (mintArgsOf s m sender funds f sv)]
    | .mintTo sender funds rcpt => [.mintTo sender rcpt funds]
    | .setWhitelist sender _ wl _ => refreshAttached s m [] [] ++ [refreshOp s wl [] [], .setWhitelist sender wl]
    | .updateStartTime sender _ t => [.updateStart sender t]
    | .updateEndTime sender _ t => [.updateEnd sender t]
    | .purge _ _ => envOp (step' s op) true m.v.isFlex
    | .updateMintPrice _ _ _ => envOp (step' s op) false false
    | .updatePerAddressLimit _ _ _ => envOp (step' s op) false false
    | .burnRemaining _ _ => envOp (step' s op) false false
    | _ => []
  else []

theorem sw_step'_ok {w w' : SaleWindow.State} {op : SaleWindow.Op} (h : SaleWindow.step w op = .ok w') :
    SaleWindow.step' w op = w' := by simp [SaleWindow.step', h]

theorem sw_run_cons (w : SaleWindow.State) (op : SaleWindow.Op) (ops : List SaleWindow.Op) :
    SaleWindow.run w (op :: ops) = SaleWindow.run (SaleWindow.step' w op) ops := rfl

theorem sw_run_nil (w : SaleWindow.State) : SaleWindow.run w [] = w := rfl

theorem sw_run_append (w : SaleWindow.State) (a b : List SaleWindow.Op) :
    SaleWindow.run w (a ++ b) = SaleWindow.run (SaleWindow.run w a) b := by
  simp [SaleWindow.run, List.foldl_append]

def setW (W : Nat → Option Wl) (k : Nat) (w : Wl) : Nat → Option Wl := fun i => if i = k then some w else W i

theorem sw_wlEnv (s : State) (m : Minter) (W : Nat → Option Wl) (k : Nat) (w : Wl) :
    SaleWindow.step' (swOf s m W) (.wlEnv k w) = swOf s m (setW W k w) := by
  simp only [SaleWindow.step', SaleWindow.step, swOf, setW]
  rfl

theorem sw_refreshAttached (s : State) (m : Minter) (W : Nat → Option Wl) (ms : List (Addr × Nat)) (ls : List Leaf) :
    ∃ W1, SaleWindow.run (swOf s m W) (refreshAttached s m ms ls) = swOf s m W1 ∧
      ∀ a, m.whitelist = some a → W1 a = some (synthWl (s.wls a) s.now ms ls) := by
  unfold refreshAttached
  cases hw : m.whitelist with
  | none => exact ⟨W, rfl, by intro a ha; cases ha⟩
  | some a =>
    refine ⟨setW W a (synthWl (s.wls a) s.now ms ls), ?_, ?_⟩
    · simp only [sw_run_cons, sw_run_nil, refreshOp, sw_wlEnv]
    · intro a' ha'; cases ha'; simp [setW]

theorem isPublicMint_cnt {s : State} {m : Minter} {sender : Addr} {f : MintLimits.Fields} {sv : SenderView} {sid cnt : Nat}
    (h : isPublicMint s m sender f sv = .ok (.wl sid cnt)) :
    cnt = if sid = 0 then m.wlc sender else m.stg sid sender := by
  unfold isPublicMint at h
  split at h
  · cases h
  · peel h
    rename_i i hi
    split at h
    · cases h
    · obtain ⟨leaf, cnt', sid', ent, _, hcnt, _, _, _, hg, _⟩ := wlMintChecks_ok h
      cases hg
      unfold whitelistMintCount at hcnt
      split at hcnt
      · split at hcnt
        · rename_i hr
          simp only [Except.ok.injEq, Prod.mk.injEq] at hcnt
          obtain ⟨h1, h2⟩ := hcnt
          subst h2
          have : i.stageId ≠ 0 := by omega
          simp [this, h1]
        · cases hcnt
      · simp only [Except.ok.injEq, Prod.mk.injEq] at hcnt
        obtain ⟨h1, h2⟩ := hcnt
        subst h2
        simp [h1]

theorem swKindOf_pub {g : MintKind} (h : swKindOf g = .pub) : g = .pub := by
  cases g with
  | pub => rfl
  | wl sid cnt => by_cases hs : sid = 0 <;> simp [swKindOf, hs] at h

theorem bookCount_v (m : Minter) (sender : Addr) (g : MintKind) : (bookCount m sender g).v = m.v := by
  cases g with
  | pub => rfl
  | wl sid cnt => unfold bookCount; simp only; split <;> rfl

/-- an accepted `Mint {…}` as ONE accepted aspect-model `mint` (includes the end-time gate of the aspect model) -/
theorem sw_mint_step {s s' : State} {m : Minter} {sender : Addr} {funds : List Coin} {f : MintLimits.Fields}
    {sv : SenderView} (h : mintSender s m sender funds f sv = .ok s')
    (hic : ∀ a i, s.wls a = some i → InfoCoherent i) (W1 : Nat → Option Wl)
    (hW1 : ∀ a, m.whitelist = some a →
      W1 a = some (synthWl (s.wls a) s.now (membersOf sender sv) (leavesOf sender f sv))) :
    ∃ m', s'.minter = some m' ∧
      SaleWindow.step (swOf s m W1) (.mint (mintArgsOf s m sender funds f sv)) = .ok (swOf s' m' W1) := by
  obtain ⟨b1, g, _, _, hgate, hpub, hend, hex⟩ := mintSender_ok h
  obtain ⟨price, ms, sq, b2, hz, hp, hpay, _, _, hmint, _, rfl⟩ := executeMint_ok hex
  refine ⟨_, rfl, ?_⟩
  have hWm : ∀ a i, m.whitelist = some a → s.wls a = some i → W1 a = some (mintWl i s.now sender f sv) := by
    intro a i ha hi; rw [hW1 a ha, hi]; rfl
  have hk := sw_isPublicMint (funds := funds) W1 (fun a i _ hi => hic a i hi) hWm hgate
  have hprice := sw_mintPrice_sender W1 (fun a i ha hi => ⟨_, _, hWm a i ha hi⟩) hp
  obtain ⟨_, hmt⟩ := seqMint_mintable hmint
  have hexA := sw_executeMint_intro (s := swOf s m W1) (m := swMinter m) (sender := sender) (funds := funds)
    (isAdmin := false) (kind := swKindOf g) hz hprice hpay
  have hms := sw_mintSender_intro (s := swOf s m W1) (m := swMinter m) (a := mintArgsOf s m sender funds f sv)
    (kind := swKindOf g) rfl hk
    (by intro hkp; exact hpub (swKindOf_pub hkp))
    (ended_false hend)
    hexA
  simp only [SaleWindow.step, SaleWindow.withMinter]
  show (match (swOf s m W1).minter with
    | none => Except.error Err.notFound
    | some m0 => (SaleWindow.mintSender (swOf s m W1) m0 (mintArgsOf s m sender funds f sv)).map
        fun m' => { swOf s m W1 with minter := some m' }) = _
  simp only [swOf] at hms ⊢
  rw [hms]
  simp only [Except.map]
  have hbk := swMinter_booked m sender g sq (if false = true then m.airdropCount + 1 else m.airdropCount)
    (MintLimits.upd m.received sender (m.received sender + 1))
    (fun sid cnt hg => by rw [hg] at hgate; exact isPublicMint_cnt hgate) hmt
  rw [hbk]
  simp only [bookCount_v]
  rfl

theorem sw_mint_ok {s s' : State} {m : Minter} {sender : Addr} {funds : List Coin} {f : MintLimits.Fields}
    {sv : SenderView} (h : mintSender s m sender funds f sv = .ok s')
    (hic : ∀ a i, s.wls a = some i → InfoCoherent i) (W : Nat → Option Wl) :
    ∃ m' W', s'.minter = some m' ∧
      SaleWindow.run (swOf s m W)
        (refreshAttached s m (membersOf sender sv) (leavesOf sender f sv) ++ [.mint (mintArgsOf s m sender funds f sv)]) =
        swOf s' m' W' := by
  obtain ⟨W1, hrun1, hW1⟩ := sw_refreshAttached s m W (membersOf sender sv) (leavesOf sender f sv)
  obtain ⟨m', hm', hstep⟩ := sw_mint_step h hic W1 hW1
  refine ⟨m', W1, hm', ?_⟩
  rw [sw_run_append, hrun1, sw_run_cons, sw_run_nil]
  exact sw_step'_ok hstep

/-- an accepted `MintTo` is the aspect model's `mintTo` (admin, strictly before the end, airdrop price) -/
theorem sw_mintAdmin_step {s s' : State} {m : Minter} {sender : Addr} {funds : List Coin} {rcpt : Addr}
    (h : mintAdmin s m sender funds rcpt = .ok s') (hpc : ParamsCoherent s) (W : Nat → Option Wl) :
    ∃ m', s'.minter = some m' ∧ SaleWindow.step (swOf s m W) (.mintTo sender rcpt funds) = .ok (swOf s' m' W) := by
  obtain ⟨b1, _, hadm, hend, hex⟩ := mintAdmin_ok h
  obtain ⟨price, ms, sq, b2, hz, hp, hpay, _, _, hmint, _, rfl⟩ := executeMint_ok hex
  refine ⟨_, rfl, ?_⟩
  have hprice := sw_mintPrice_admin W hpc hp
  obtain ⟨_, hmt⟩ := seqMint_mintable hmint
  have hexA := sw_executeMint_intro (s := swOf s m W) (m := swMinter m) (sender := sender) (funds := funds)
    (isAdmin := true) (kind := .pub) hz hprice hpay
  have hmt' : SaleWindow.mintTo (swOf s m W) (swMinter m) sender rcpt funds =
      SaleWindow.executeMint (swOf s m W) (swMinter m) sender funds true .pub := by
    unfold SaleWindow.mintTo
    have hne : ¬ sender ≠ (swMinter m).admin := by simp [swMinter, hadm]
    simp only [hne, bind, Except.bind, pure, Except.pure, swOf, swVariant]
    cases hs : (swMinter m).stop with
    | none => simp
    | some e =>
      have hlt := ended_false hend e hs
      have h' : ¬ e ≤ s.now := by omega
      simp [h']
  simp only [SaleWindow.step, SaleWindow.withMinter]
  show (match (swOf s m W).minter with
    | none => Except.error Err.notFound
    | some m0 => (SaleWindow.mintTo (swOf s m W) m0 sender rcpt funds).map
        (fun m' => { swOf s m W with minter := some m' })) = _
  have hbk := swMinter_booked m sender .pub sq (if true = true then m.airdropCount + 1 else m.airdropCount)
    (MintLimits.upd m.received rcpt (m.received rcpt + 1)) (fun sid cnt hg => by cases hg) hmt
  have hfinal : SaleWindow.mintTo (swOf s m W) (swMinter m) sender rcpt funds =
      .ok (swMinter { bookCount m sender .pub with
        seq := sq,
        airdropCount := if true = true then m.airdropCount + 1 else m.airdropCount,
        received := MintLimits.upd m.received rcpt (m.received rcpt + 1) }) := by
    rw [hmt', hexA, hbk]
    rfl
  simp only [swOf] at hfinal ⊢
  rw [hfinal]
  rfl

theorem sw_setWhitelist_intro {s : SaleWindow.State} {m : SaleWindow.Minter} {sender : Addr} {k : Nat} {w : Wl}
    (hv : s.v.family = .openEdition) (hadm : sender = m.admin) (hbefore : s.now < m.start)
    (hold : ∀ k0, m.wl = some k0 → ∃ w0, s.wls k0 = some w0 ∧ SaleWindow.configParses s.v.shape w0.kind = true ∧
      (w0.config s.now).isActive = false)
    (hw : s.wls k = some w) (hparse : SaleWindow.configParses s.v.shape w.kind = true)
    (hinact : (w.config s.now).isActive = false)
    (hden : (w.config s.now).price.denom = m.price.denom)
    (hmin : s.params.minPrice ≤ (w.config s.now).price.amount) (hfd : s.params.denom = (w.config s.now).price.denom) :
    SaleWindow.setWhitelist s m sender k = .ok { m with wl := some k } := by
  unfold SaleWindow.setWhitelist
  have h1 : ¬ sender ≠ m.admin := by simp [hadm]
  have h2 : decide (s.now < m.start) = true := by simp [hbefore]
  have h5 : ¬ s.params.minPrice > (w.config s.now).price.amount := by omega
  simp only [hv, h1, h2, bind, Except.bind, pure, Except.pure, hw, hparse, hinact]
  cases hwl : m.wl with
  | none =>
    simp only [hwl]
    simp [hden, h5, hfd]
  | some k0 =>
    obtain ⟨w0, hw0, hp0, hi0⟩ := hold k0 hwl
    simp only [hw0, hp0, hi0]
    simp [hden, h5, hfd]

theorem sw_updateStart_intro {s : SaleWindow.State} {m : SaleWindow.Minter} {sender : Addr} {t : Nat}
    (hv : s.v.family = .openEdition) (hadm : sender = m.admin) (hbefore : s.now < m.start) (hnow : s.now ≤ t)
    (hend : ∀ e, m.stop = some e → t ≤ e) : SaleWindow.updateStart s m sender t = .ok { m with start := t } := by
  unfold SaleWindow.updateStart
  have h1 : ¬ sender ≠ m.admin := by simp [hadm]
  have h2 : ¬ s.now ≥ m.start := by omega
  have h3 : ¬ s.now > t := by omega
  cases hs : m.stop with
  | none => simp [hv, h1, h2, h3, hs, bind, Except.bind, pure, Except.pure]
  | some e =>
    have := hend e hs
    have h4 : ¬ t > e := by omega
    simp [hv, h1, h2, h3, hs, h4, bind, Except.bind, pure, Except.pure]

theorem sw_updateEnd_intro {s : SaleWindow.State} {m : SaleWindow.Minter} {sender : Addr} {t e : Nat}
    (hv : s.v.family = .openEdition) (hadm : sender = m.admin) (hs : m.stop = some e) (hlt : s.now < e)
    (hnow : s.now ≤ t) (hst : m.start ≤ t) : SaleWindow.updateEnd s m sender t = .ok { m with stop := some t } := by
  unfold SaleWindow.updateEnd
  have h0 : ¬ s.v.family ≠ .openEdition := by simp [hv]
  have h1 : ¬ sender ≠ m.admin := by simp [hadm]
  have h2 : ¬ s.now ≥ e := by omega
  have h3 : ¬ s.now > t := by omega
  have h4 : ¬ t < m.start := by omega
  simp [h0, h1, hs, h2, h3, h4, bind, Except.bind, pure, Except.pure]

/-- environment assumptions under which the C04 aspect model can follow the open-edition composite -/
structure SwEnv (s : State) : Prop where
  params : ParamsCoherent s
  infos : ∀ a i, s.wls a = some i → InfoCoherent i

theorem sw_env_step (s s' : State) (m m' : Minter) (W : Nat → Option Wl) (pp pw : Bool)
    (p lim : Nat) (mt : Option Nat)
    (hnow : s'.now = s.now) (hpar : swParams s'.params = swParams s.params)
    (h1 : m'.v = m.v) (h2 : m'.admin = m.admin) (h3 : m'.startTime = m.startTime) (h3' : m'.endTime = m.endTime)
    (h4 : m'.whitelist = m.whitelist) (h4' : m'.numTokens = m.numTokens)
    (h5 : m'.stg = m.stg) (h6 : m'.tot = m.tot) (hden : m'.mintPrice.denom = m.mintPrice.denom)
    (hp : m'.mintPrice.amount = p) (hl : m'.perAddressLimit = lim) (hmt : m'.seq.mintable = mt)
    (hpub : m'.pub = if pp then (fun _ => 0) else m.pub) (hwlc : m'.wlc = if pw then (fun _ => 0) else m.wlc) :
    SaleWindow.step' (swOf s m W) (.minterEnv p lim mt pp pw) = swOf s' m' W := by
  subst hp hl hmt
  have hprice : (⟨m.mintPrice.denom, m'.mintPrice.amount⟩ : Coin) = m'.mintPrice := by
    rw [← hden]
  simp only [SaleWindow.step', SaleWindow.step, SaleWindow.withMinter, swOf, swMinter, hprice, hnow, hpar, h1, h2, h3, h3',
    h4, h4', h5, h6, hpub, hwlc]
  cases pp <;> cases pw <;> rfl

/-- an ACCEPTED composite message, as accepted aspect ops on the projection -/
theorem sw_sim_ok {s s' : State} {m : Minter} {op : Op} (hm : s.minter = some m) (h : step s op = .ok s')
    (henv : SwEnv s) (hps : swParams s'.params = swParams s.params) (W : Nat → Option Wl) :
    ∃ m' W', s'.minter = some m' ∧ SaleWindow.run (swOf s m W) (swOps s m op) = swOf s' m' W' := by
  have hacc := accepted_of_ok h
  have hs' := step'_ok h
  cases op with
  | setTime t =>
    simp only [step] at h
    split at h
    · cases h
    · rename_i hlt
      cases h
      refine ⟨m, W, hm, ?_⟩
      simp only [swOps, hacc, if_true, sw_run_cons, sw_run_nil]
      apply sw_step'_ok
      simp [SaleWindow.step, swOf, hlt]
  | fund a c =>
    simp only [step] at h; cases h
    exact ⟨m, W, hm, by simp [swOps, hacc, sw_run_nil]; rfl⟩
  | wlEnv k i =>
    simp only [step] at h; cases h
    exact ⟨m, W, hm, by simp [swOps, hacc, sw_run_nil]; rfl⟩
  | sudoParams u =>
    simp only [step] at h
    split at h
    · cases h
    · rename_i p hp
      cases h
      refine ⟨m, W, hm, ?_⟩
      simp only [swOps, hacc, if_true, sw_run_nil]
      simp only [swOf] at hps ⊢
      rw [hps]
  | create sender funds msg w =>
    simp only [step] at h
    obtain ⟨_, _, _, _, _, hnone, _⟩ := createMinter_ok h
    rw [hm] at hnone; cases hnone
  | instantiateDirect sender => simp [step] at h
  | mint sender funds f sv =>
    simp only [step] at h
    obtain ⟨m0, hm0, h⟩ := withMinterS_ok h
    rw [hm] at hm0; cases hm0
    obtain ⟨m', W', hm', hrun⟩ := sw_mint_ok h henv.infos W
    exact ⟨m', W', hm', by simp only [swOps, hacc, if_true]; exact hrun⟩
  | mintTo sender funds rcpt =>
    simp only [step] at h
    obtain ⟨m0, hm0, h⟩ := withMinterS_ok h
    rw [hm] at hm0; cases hm0
    obtain ⟨m', hm', hstep⟩ := sw_mintAdmin_step h henv.params W
    refine ⟨m', W, hm', ?_⟩
    simp only [swOps, hacc, if_true, sw_run_cons, sw_run_nil]
    exact sw_step'_ok hstep
  | setWhitelist sender funds wl valid =>
    simp only [step] at h
    obtain ⟨m0, m', hm0, hf, rfl⟩ := withMinter_ok h
    rw [hm] at hm0; cases hm0
    obtain ⟨i, _, hadm, hbefore, hold, _, hcfg, hinact, hden, hamt, hfd, rfl⟩ := setWhitelist_ok hf
    obtain ⟨hwls, hcok⟩ := wlConfig_ok hcfg
    obtain ⟨W1, hrun1, hW1⟩ := sw_refreshAttached s m W [] []
    refine ⟨_, setW W1 wl (synthWl (s.wls wl) s.now [] []), rfl, ?_⟩
    simp only [swOps, hacc, if_true]
    rw [sw_run_append, hrun1, sw_run_cons, refreshOp, sw_wlEnv, sw_run_cons, sw_run_nil]
    apply sw_step'_ok
    have hnew : setW W1 wl (synthWl (s.wls wl) s.now [] []) wl = some (synthWl (some i) s.now [] []) := by
      simp [setW, hwls]
    have hintro := sw_setWhitelist_intro (s := swOf s m (setW W1 wl (synthWl (s.wls wl) s.now [] [])))
      (m := swMinter m) (sender := sender) (k := wl) (w := synthWl (some i) s.now [] [])
      rfl (by simp [swMinter, hadm]) hbefore
      (by
        intro k0 hk0
        have hk0' : m.whitelist = some k0 := hk0
        obtain ⟨i0, hi0, ha0⟩ := hold k0 hk0'
        obtain ⟨hw0, hc0⟩ := wlConfig_ok hi0
        refine ⟨synthWl (some i0) s.now [] [], ?_, ?_, ?_⟩
        · show setW W1 wl (synthWl (s.wls wl) s.now [] []) k0 = _
          by_cases hk : k0 = wl
          · subst hk; rw [hnew]; rw [hw0] at hwls; cases hwls; rfl
          · simp only [setW, hk, if_false]; rw [hW1 k0 hk0', hw0]
        · simp only [swOf, swVariant, synth_kind, configParses_eq]; exact hc0
        · simp only [swOf, synth_config]; exact ha0)
      hnew
      (by simp only [swOf, swVariant, synth_kind, configParses_eq]; exact hcok)
      (by simp only [swOf, synth_config]; exact hinact)
      (by simp only [swOf, synth_config]; exact hden)
      (by simp only [swOf, synth_config]; exact hamt)
      (by simp only [swOf, synth_config]; exact hfd)
    simp only [SaleWindow.step, SaleWindow.withMinter]
    show (match (swOf s m (setW W1 wl (synthWl (s.wls wl) s.now [] []))).minter with
      | none => Except.error Err.notFound
      | some m0 => (SaleWindow.setWhitelist (swOf s m (setW W1 wl (synthWl (s.wls wl) s.now [] []))) m0 sender wl).map
          fun m' => { swOf s m (setW W1 wl (synthWl (s.wls wl) s.now [] [])) with minter := some m' }) = _
    simp only [swOf] at hintro ⊢
    rw [hintro]
    rfl
  | updateStartTime sender funds t =>
    simp only [step] at h
    obtain ⟨m0, m', hm0, hf, rfl⟩ := withMinter_ok h
    rw [hm] at hm0; cases hm0
    obtain ⟨_, hadm, hbefore, hnow, hend, rfl⟩ := updateStartTime_ok hf
    refine ⟨_, W, rfl, ?_⟩
    simp only [swOps, hacc, if_true, sw_run_cons, sw_run_nil]
    apply sw_step'_ok
    have hintro := sw_updateStart_intro (s := swOf s m W) (m := swMinter m) (sender := sender) (t := t)
      rfl (by simp [swMinter, hadm]) hbefore hnow hend
    simp only [SaleWindow.step, SaleWindow.withMinter]
    show (match (swOf s m W).minter with
      | none => Except.error Err.notFound
      | some m0 => (SaleWindow.updateStart (swOf s m W) m0 sender t).map
          fun m' => { swOf s m W with minter := some m' }) = _
    simp only [swOf] at hintro ⊢
    rw [hintro]
    rfl
  | updateEndTime sender funds t =>
    simp only [step] at h
    obtain ⟨m0, m', hm0, hf, rfl⟩ := withMinter_ok h
    rw [hm] at hm0; cases hm0
    obtain ⟨e, _, hadm, he, hlt, hnow, hst, rfl⟩ := updateEndTime_ok hf
    refine ⟨_, W, rfl, ?_⟩
    simp only [swOps, hacc, if_true, sw_run_cons, sw_run_nil]
    apply sw_step'_ok
    have hintro := sw_updateEnd_intro (s := swOf s m W) (m := swMinter m) (sender := sender) (t := t) (e := e)
      rfl (by simp [swMinter, hadm]) he hlt hnow hst
    simp only [SaleWindow.step, SaleWindow.withMinter]
    show (match (swOf s m W).minter with
      | none => Except.error Err.notFound
      | some m0 => (SaleWindow.updateEnd (swOf s m W) m0 sender t).map
          fun m' => { swOf s m W with minter := some m' }) = _
    simp only [swOf] at hintro ⊢
    rw [hintro]
    rfl
  | purge sender funds =>
    simp only [step] at h
    obtain ⟨m0, m', hm0, hf, rfl⟩ := withMinter_ok h
    rw [hm] at hm0; cases hm0
    obtain ⟨_, _, _, rfl⟩ := purge_ok hf
    refine ⟨_, W, rfl, ?_⟩
    simp only [swOps, hacc, if_true, hs', envOp, sw_run_cons, sw_run_nil]
    apply sw_env_step <;> first | rfl | (cases hfx : m.v.isFlex <;> simp [hfx, MintLimits.zero])
  | updateMintPrice sender funds p =>
    simp only [step] at h
    obtain ⟨m0, m', hm0, hf, rfl⟩ := withMinter_ok h
    rw [hm] at hm0; cases hm0
    obtain ⟨_, _, _, _, _, _, rfl⟩ := updateMintPrice_ok hf
    refine ⟨_, W, rfl, ?_⟩
    simp only [swOps, hacc, if_true, hs', envOp, sw_run_cons, sw_run_nil]
    apply sw_env_step <;> first | rfl | (cases hfx : m.v.isFlex <;> simp [hfx, MintLimits.zero])
  | updatePerAddressLimit sender funds n =>
    simp only [step] at h
    obtain ⟨m0, m', hm0, hf, rfl⟩ := withMinter_ok h
    rw [hm] at hm0; cases hm0
    obtain ⟨_, _, _, _, rfl⟩ := updatePerAddressLimit_ok hf
    refine ⟨_, W, rfl, ?_⟩
    simp only [swOps, hacc, if_true, hs', envOp, sw_run_cons, sw_run_nil]
    apply sw_env_step <;> first | rfl | (cases hfx : m.v.isFlex <;> simp [hfx, MintLimits.zero])
  | burnRemaining sender funds =>
    simp only [step] at h
    obtain ⟨m0, m', hm0, hf, rfl⟩ := withMinter_ok h
    rw [hm] at hm0; cases hm0
    obtain ⟨sq, _, _, _, _, rfl⟩ := burnRemaining_ok hf
    refine ⟨_, W, rfl, ?_⟩
    simp only [swOps, hacc, if_true, hs', envOp, sw_run_cons, sw_run_nil]
    apply sw_env_step <;> first | rfl | (cases hfx : m.v.isFlex <;> simp [hfx, MintLimits.zero])
  | updateStartTradingTime sender funds t =>
    simp only [step] at h
    obtain ⟨m0, m', hm0, hf, rfl⟩ := withMinter_ok h
    rw [hm] at hm0; cases hm0
    obtain ⟨_, _, _, _, _, rfl⟩ := updateStartTradingTime_ok hf
    exact ⟨_, W, rfl, by simp [swOps, hacc, sw_run_nil]; rfl⟩
  | sudoStatus v b e =>
    simp only [step] at h
    obtain ⟨m0, m', hm0, hf, rfl⟩ := withMinter_ok h
    rw [hm] at hm0; cases hm0
    cases hf
    exact ⟨_, W, rfl, by simp [swOps, hacc, sw_run_nil]; rfl⟩
  | collTransfer sender id to =>
    simp only [step] at h
    obtain ⟨m0, m', hm0, hf, rfl⟩ := withMinter_ok h
    rw [hm] at hm0; cases hm0
    obtain ⟨_, _, _, _, rfl⟩ := collTransfer_ok hf
    exact ⟨_, W, rfl, by simp [swOps, hacc, sw_run_nil]; rfl⟩
  | collBurn sender id =>
    simp only [step] at h
    obtain ⟨m0, m', hm0, hf, rfl⟩ := withMinter_ok h
    rw [hm] at hm0; cases hm0
    obtain ⟨_, _, _, rfl⟩ := collBurn_ok hf
    exact ⟨_, W, rfl, by simp [swOps, hacc, sw_run_nil]; rfl⟩
  | collTrading sender t =>
    simp only [step] at h
    obtain ⟨m0, c, hm0, _, rfl⟩ := onColl_ok h
    rw [hm] at hm0; cases hm0
    exact ⟨_, W, rfl, by simp [swOps, hacc, sw_run_nil]; rfl⟩
  | collCreator sender new =>
    simp only [step] at h
    obtain ⟨m0, c, hm0, _, rfl⟩ := onColl_ok h
    rw [hm] at hm0; cases hm0
    exact ⟨_, W, rfl, by simp [swOps, hacc, sw_run_nil]; rfl⟩
  | collFreeze sender =>
    simp only [step] at h
    obtain ⟨m0, c, hm0, _, rfl⟩ := onColl_ok h
    rw [hm] at hm0; cases hm0
    exact ⟨_, W, rfl, by simp [swOps, hacc, sw_run_nil]; rfl⟩
  | collOwn sender a =>
    simp only [step] at h
    obtain ⟨m0, c, hm0, _, rfl⟩ := onColl_ok h
    rw [hm] at hm0; cases hm0
    exact ⟨_, W, rfl, by simp [swOps, hacc, sw_run_nil]; rfl⟩

end LP.OE
