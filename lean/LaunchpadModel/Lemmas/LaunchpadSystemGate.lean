import LaunchpadModel.Lemmas.LaunchpadSystemMint
import LaunchpadModel.Lemmas.WlMaps
/-!
# The whitelist gate of a system mint, unfolded to the whitelist's STORED state

Inversions of the three pieces of `VF.wlMintChecks` (`hasMember`, `whitelistMintCount`, `wlEntitlement`), and what the
`senderViewOf` answers mean in the whitelist's own storage (`WlMembers.getM` / `hasM` on the member maps, `Merkle.hasMember`
against the stored root of the active stage).
-/
namespace LP.Sys
open LP

/-! ## pieces of the composite gate -/

theorem hasMember_inv {v : VF.Variant} {i : VF.WlInfo} {f : MintLimits.Fields} {sv : VF.SenderView} {leaf : Bool}
    (h : VF.hasMember v i f sv = .ok (true, leaf)) :
    (leaf = true ∧ v.flavor = .merkle ∧ i.merkleCfg = true ∧ f.proof = true ∧ i.kind.answersHasMemberProof = true ∧
      sv.leafOk = true) ∨
    (leaf = false ∧ i.kind.answersHasMember = true ∧ sv.memberPlain = true) := by
  unfold VF.hasMember at h
  split at h
  · rename_i hc
    split at h
    · rename_i hk
      simp only [Except.ok.injEq, Prod.mk.injEq] at h
      exact Or.inl ⟨h.2.symm, hc.1, hc.2.1, hc.2.2, hk, h.1⟩
    · cases h
  · split at h
    · rename_i hk
      simp only [Except.ok.injEq, Prod.mk.injEq] at h
      exact Or.inr ⟨h.2.symm, hk, h.1⟩
    · cases h

theorem wmc_inv {m : VF.Minter} {i : VF.WlInfo} {sender : Addr} {cnt sid : Nat}
    (h : VF.whitelistMintCount m i sender = .ok (cnt, sid)) :
    (i.kind.tieredName = true ∧ 1 ≤ i.stageId ∧ i.stageId ≤ 3 ∧ cnt = m.stg i.stageId sender ∧ sid = i.stageId) ∨
    (i.kind.tieredName = false ∧ cnt = m.wlc sender ∧ sid = 0) := by
  unfold VF.whitelistMintCount at h
  split at h
  · rename_i ht
    split at h
    · rename_i hr
      simp only [Except.ok.injEq, Prod.mk.injEq] at h
      exact Or.inl ⟨ht, hr.1, hr.2, h.1.symm, h.2.symm⟩
    · cases h
  · rename_i ht
    simp only [Except.ok.injEq, Prod.mk.injEq] at h
    exact Or.inr ⟨by cases hq : i.kind.tieredName <;> simp_all, h.1.symm, h.2.symm⟩

theorem ent_inv {v : VF.Variant} {i : VF.WlInfo} {f : MintLimits.Fields} {sv : VF.SenderView} {leaf : Bool} {ent : Nat}
    (h : VF.wlEntitlement v i f sv leaf = .ok ent) :
    (v.flavor = .plain ∧ ent = i.limit) ∨
    (v.flavor = .flex ∧ i.kind.answersMember = true ∧ ent = sv.memberCount) ∨
    (v.flavor = .merkle ∧ ent = match f.alloc with
                                 | some n => if leaf then n else i.limit
                                 | none => i.limit) := by
  unfold VF.wlEntitlement at h
  split at h
  · rename_i hf
    cases h; exact Or.inl ⟨hf, rfl⟩
  · rename_i hf
    split at h
    · rename_i hk
      cases h; exact Or.inr (Or.inl ⟨hf, hk, rfl⟩)
    · cases h
  · rename_i hf
    refine Or.inr (Or.inr ⟨hf, ?_⟩)
    split at h
    · split at h <;> cases h <;> simp_all
    · rename_i ha
      cases h; simp [ha]

/-! ## `senderViewOf` in terms of the whitelist's queries -/

theorem sv_memberPlain {now : Nat} {w : WF.Wl} {sender : Addr} {st al : Option Nat} {pr : Option (List (List Nat))}
    (h : (senderViewOf now w sender st al pr).memberPlain = true) : WF.qHasMember w now sender = some true := by
  simp only [senderViewOf] at h
  cases hq : WF.qHasMember w now sender with
  | none => simp [hq] at h
  | some b => simp [hq] at h; rw [h]

theorem sv_leafOk {now : Nat} {w : WF.Wl} {sender : Addr} {st al : Option Nat} {pr : Option (List (List Nat))}
    (h : (senderViewOf now w sender st al pr).leafOk = true) :
    ∃ p, pr = some p ∧ WF.qHasMemberMerkle w now (leafOf sender st al) p = some true := by
  simp only [senderViewOf] at h
  cases pr with
  | none => simp at h
  | some p =>
    refine ⟨p, rfl, ?_⟩
    simp only at h
    cases hq : WF.qHasMemberMerkle w now (leafOf sender st al) p with
    | none => simp [hq] at h
    | some b => simp [hq] at h; rw [h]

theorem sv_memberCount {now : Nat} {w : WF.Wl} {sender : Addr} {st al : Option Nat} {pr : Option (List (List Nat))}
    (h : 0 < (senderViewOf now w sender st al pr).memberCount) :
    WF.qMember w now sender = some (senderViewOf now w sender st al pr).memberCount := by
  simp only [senderViewOf] at h ⊢
  cases hq : WF.qMember w now sender with
  | none => simp [hq] at h
  | some c => simp

/-! ## the queries in terms of storage -/

/-- the map the membership queries read at `now`: the only map, or the ACTIVE stage's slice -/
def activeMap (w : WF.Wl) (now : Nat) : Option (List WF.Member) :=
  if w.v.tiered then (WF.activeIdx w now).map (WF.mapOf w) else some w.members

/-- `Member {a}` answers `c` only if `c` is the `mint_count` stored for `a` in the map the query reads -/
theorem qMember_stored {w : WF.Wl} {now : Nat} {a c : Nat} (h : WF.qMember w now a = some c) :
    w.v.store = .list ∧ w.v.flex = true ∧ ∃ mp, activeMap w now = some mp ∧ WlMembers.getM a mp = some c := by
  unfold WF.qMember at h
  split at h
  · cases h
  · rename_i hc
    have hl : w.v.store = .list := by
      cases hs : w.v.store <;> simp_all [WF.Variant.isList]
    have hf : w.v.flex = true := by
      cases hq : w.v.flex <;> simp_all
    refine ⟨hl, hf, ?_⟩
    split at h
    · rename_i ht
      split at h
      · rename_i i hi
        exact ⟨WF.mapOf w i, by simp [activeMap, ht, hi], h⟩
      · cases h
    · rename_i ht
      exact ⟨w.members, by simp [activeMap, ht], h⟩

/-- `HasMember {a}` of the list kinds answers `true` only for an address stored in the map the query reads -/
theorem qHasMember_stored {w : WF.Wl} {now : Nat} {a : Nat} (h : WF.qHasMember w now a = some true) :
    w.v.store = .list ∧ ∃ mp, activeMap w now = some mp ∧ a ∈ WlMembers.keys mp := by
  unfold WF.qHasMember at h
  split at h
  · cases h
  · rename_i hc
    have hl : w.v.store = .list := by
      cases hs : w.v.store <;> simp_all [WF.Variant.isList]
    refine ⟨hl, ?_⟩
    split at h
    · cases h
    · split at h
      · rename_i ht
        split at h
        · rename_i i hi
          simp only [Option.some.injEq] at h
          exact ⟨WF.mapOf w i, by simp [activeMap, ht, hi], (WlMembers.hasM_iff _ _).1 h⟩
        · cases h
      · rename_i ht
        simp only [Option.some.injEq] at h
        exact ⟨w.members, by simp [activeMap, ht], (WlMembers.hasM_iff _ _).1 h⟩

/-- the root the proof-carrying `HasMember` checks against at `now`: the committed root, or the ACTIVE stage's -/
def activeRoot (w : WF.Wl) (now : Nat) : Option (List Nat) :=
  if w.v.tiered then (WF.activeIdx w now).bind (fun i => w.roots[i]?)
  else match w.roots with
    | [r] => some r
    | _ => none

theorem qHasMemberMerkle_root {w : WF.Wl} {now : Nat} {m : Merkle.Bytes} {p : List (List Nat)} {b : Bool}
    (h : WF.qHasMemberMerkle w now m p = some b) :
    w.v.store = .merkle ∧ ∃ r, activeRoot w now = some r ∧ Merkle.hasMember w.v.hash w.v.digest r m p = some b := by
  unfold WF.qHasMemberMerkle at h
  split at h
  · cases h
  · rename_i hc
    have hl : w.v.store = .merkle := by
      cases hs : w.v.store <;> simp_all [WF.Variant.isMerkle]
    refine ⟨hl, ?_⟩
    split at h
    · rename_i ht
      split at h
      · cases h
      · rename_i i hi
        split at h
        · cases h
        · rename_i r hr
          exact ⟨r, by simp [activeRoot, ht, hi, hr], h⟩
    · rename_i ht
      split at h
      · rename_i r hr
        exact ⟨r, by simp [activeRoot, ht, hr], h⟩
      · cases h

/-! ## the whitelist branch of an accepted mint -/

/-- a mint the gate booked on a whitelist counter read the contract stored at the attached address, found it active, and
passed `wlMintChecks` on `wlInfoOf` / `senderViewOf` of THAT contract's state -/
theorem wl_branch {s : State} {m : VF.Minter} {sender : Addr} {stage alloc : Option Nat} {proof : Option (List (List Nat))}
    {sid cnt : Nat} (hm : s.minter = some m)
    (hg : VF.isPublicMint (vfOf s) m sender (fieldsOf stage alloc proof) (mintView s sender stage alloc proof) = .ok (.wl sid cnt)) :
    ∃ a w, m.whitelist = some a ∧ find s.wls a = some w ∧ MintLimits.configOk m.v.flavor (wlKindOf w.v) = true ∧
      (wlInfoOf s.now w).active = true ∧
      VF.wlMintChecks m (wlInfoOf s.now w) sender (fieldsOf stage alloc proof)
        (senderViewOf s.now w sender stage alloc proof) = .ok (.wl sid cnt) := by
  rcases isPublicMint_cases hg with ⟨hp, _⟩ | ⟨a, i, ha, hi, hact, hchk⟩
  · cases hp
  · obtain ⟨w, hf, rfl, hok⟩ := wl_config hi
    rw [mintView_eq hm ha hf] at hchk
    exact ⟨a, w, ha, hf, hok, hact, hchk⟩

/-- the public branch: no whitelist attached, or the attached contract's `Config` says "not active" -/
theorem pub_branch {s : State} {m : VF.Minter} {sender : Addr} {stage alloc : Option Nat} {proof : Option (List (List Nat))}
    (hg : VF.isPublicMint (vfOf s) m sender (fieldsOf stage alloc proof) (mintView s sender stage alloc proof) = .ok .pub) :
    m.whitelist = none ∨ ∃ a w, m.whitelist = some a ∧ find s.wls a = some w ∧ (wlInfoOf s.now w).active = false := by
  rcases isPublicMint_cases hg with ⟨_, hn | ⟨a, i, ha, hi, hact⟩⟩ | ⟨a, i, ha, hi, hact, hchk⟩
  · exact Or.inl hn
  · obtain ⟨w, hf, rfl, _⟩ := wl_config hi
    exact Or.inr ⟨a, w, ha, hf, hact⟩
  · obtain ⟨_, cnt, sid, _, _, _, _, _, hgg, _⟩ := VF.wlMintChecks_ok hchk
    cases hgg

end LP.Sys
