import LaunchpadModel.Lemmas.TokenMergeSystemColl
/-!
# Token-merge SYSTEM composite: `coll_step` — every collection address over one accepted step (`CollRel`), invariant transfer
-/
namespace LP.SysTM
open LP

/-- the contract was produced by the collection's `instantiate` entry point -/
def Born (c : CF.Coll) : Prop :=
  ∃ k b sender funds m, Sg721.instantiate k b sender funds m = .ok c.core

/-- one collection address over one accepted system step: nothing there before and after; the same contract, evolved by
accepted collection calls; or a contract just instantiated -/
def CollRel : Option CF.Coll → Option CF.Coll → Prop
  | none, none => True
  | some d, some d' => Evolves d d'
  | none, some d' => Born d'
  | some _, none => False

theorem CollRel.of_fwd {o o' : Option CF.Coll} (hs : ∀ d, o = some d → ∃ d', o' = some d' ∧ Evolves d d')
    (hn : o = none → o' = none) : CollRel o o' := by
  cases o with
  | none => rw [hn rfl]; trivial
  | some d => obtain ⟨d', hd', e⟩ := hs d rfl; rw [hd']; exact e

theorem CollRel.same (o : Option CF.Coll) : CollRel o o := by
  cases o with
  | none => trivial
  | some d => exact Evolves.refl d

/-! ## "nothing there" is kept -/

theorem collAt_setSrc_none {s : State} {x : Addr} {c' : CF.Coll} {bank : MintPay.Bank} (a : Addr) (hd : collAt s a = none) :
    collAt { s with bank := bank, srcs := setColl s.srcs x c' } a = none := by
  unfold collAt at hd ⊢
  simp only
  cases hmc : s.mc with
  | none =>
    simp only [hmc] at hd ⊢
    rw [lookup_setColl]
    by_cases ha : a = x
    · subst ha; simp [hd]
    · simp [ha, hd]
  | some p =>
    obtain ⟨m, tc⟩ := p
    simp only [hmc] at hd ⊢
    by_cases ht : a = m.sg721
    · simp [ht] at hd
    · simp only [ht, if_false] at hd ⊢
      rw [lookup_setColl]
      by_cases ha : a = x
      · subst ha; simp [hd]
      · simp [ha, hd]

theorem collAt_setTarget_none {s s' : State} {m m' : Minter} {tc tc' : CF.Coll} (hmc : s.mc = some (m, tc))
    (hmc' : s'.mc = some (m', tc')) (hsg : m'.sg721 = m.sg721) (hsrc : s'.srcs = s.srcs) (a : Addr) (hd : collAt s a = none) :
    collAt s' a = none := by
  unfold collAt at hd ⊢
  simp only [hmc, hmc', hsg, hsrc] at hd ⊢
  by_cases ht : a = m.sg721
  · simp [ht] at hd
  · simp only [ht, if_false] at hd ⊢; exact hd

theorem hook_none {s s' : State} {caller sender : Addr} {id : Nat} {recipient : Option Addr} {picked : Nat}
    (h : hook s caller sender id recipient picked = .ok s') (a : Addr) (hd : collAt s a = none) : collAt s' a = none := by
  obtain ⟨m, tc, vm', mints, msg, bank1, tc', c, bank2, c', hmc, hhm, _, _, _, _, rfl⟩ := hook_ok h
  let s1 : State := { s with mc := some (ofVm vm', tc') }
  have hsg : (ofVm vm').sg721 = m.sg721 := hookMinter_sg721 hhm
  have h1 : collAt s1 a = none := collAt_setTarget_none (s' := s1) hmc rfl hsg rfl a hd
  exact collAt_setSrc_none (s := s1) (bank := bank2) (x := caller) (c' := c') a h1

theorem hook_rel {s s' : State} {caller sender : Addr} {id : Nat} {recipient : Option Addr} {picked : Nat}
    (h : hook s caller sender id recipient picked = .ok s') (a : Addr) : CollRel (collAt s a) (collAt s' a) :=
  CollRel.of_fwd (fun d hd => hook_coll h a d hd) (hook_none h a)

theorem collExec_rel {s s' : State} {coll sender : Addr} {funds : List Coin} {msg : CF.ExecMsg}
    (h : collExec s coll sender funds msg = .ok s') (a : Addr) : CollRel (collAt s a) (collAt s' a) := by
  refine CollRel.of_fwd (fun d hd => collExec_coll h a d hd) ?_
  intro hd
  unfold collExec at h
  split at h
  · cases h
  · split at h
    · rename_i mn tc hmc
      split at h
      · split at h
        · cases h
        · rename_i bank tc' hx
          cases h
          exact collAt_setTarget_none (s' := { s with bank := bank, mc := some (mn, tc') }) hmc rfl rfl rfl a hd
      · split at h
        · cases h
        · split at h
          · cases h
          · cases h; exact collAt_setSrc_none a hd
    · split at h
      · cases h
      · split at h
        · cases h
        · cases h; exact collAt_setSrc_none a hd

theorem tmStep_rel {s s' : State} {op : TMF.Op} (hf : foreignOp op = false) (h : tmStep s op = .ok s') (a : Addr) :
    CollRel (collAt s a) (collAt s' a) := by
  refine CollRel.of_fwd (fun d hd => tmStep_coll hf h a d hd) ?_
  intro hd
  unfold tmStep at h
  split at h
  · cases h
  · rename_i r hr
    split at h
    · rename_i hmc
      cases h
      unfold collAt at hd ⊢
      simp only [hmc] at hd
      have : (setTm s r r.bank none).mc = none := by
        simp only [setTm]; split <;> simp_all
      simp only [this]
      exact hd
    · rename_i m c hmc
      split at h
      · cases h
      · split at h
        · cases h
        · rename_i bank c' hrs
          cases h
          have htm : (tmfOf s).minter = some (vmOf m c) := by simp [tmfOf, hmc]
          obtain ⟨vm', hvm', hsg, _⟩ := tmf_minter_step hf hr htm
          refine collAt_setTarget_none (s' := setTm s r bank (some c')) (m' := ofVm vm') (tc' := c') hmc ?_ hsg rfl a hd
          simp only [setTm, hvm']

/-! ## the two creating ops -/

theorem create_rel {s s' : State} {sender : Addr} {funds : List Coin} {msg : TMF.CreateMsg} {w : TMF.CreateWit}
    {ci : Sys2.CollInit} (h : create s sender funds msg w ci = .ok s') (a : Addr) : CollRel (collAt s a) (collAt s' a) := by
  unfold create at h
  split at h
  · cases h
  · rename_i r hr
    split at h
    · cases h
    · rename_i vm hvm
      split at h
      · cases h
      · rename_i hfresh
        split at h
        · cases h
        · rename_i q hq
          cases h
          simp only [TMF.step] at hr
          obtain ⟨b1, ms, b2, m0, hnone, _, _, _, _, _, rfl⟩ := TMF.createMinter_ok hr
          simp only [Option.some.injEq] at hvm
          subst hvm
          have hmc : s.mc = none := by
            cases hx : s.mc with
            | none => rfl
            | some p => simp [tmfOf, hx] at hnone
          obtain ⟨b3, core, _, _, hcore, rfl⟩ := CF.instantiate_ok hq
          have hfr : lookup s.srcs m0.sg721 = none := by
            cases hl : lookup s.srcs m0.sg721 with
            | none => rfl
            | some c => simp [hl] at hfresh
          unfold collAt
          simp only [hmc, setTm, ofVm]
          by_cases ha : a = m0.sg721
          · subst ha
            simp only [if_true, hfr]
            exact ⟨_, _, _, _, _, hcore⟩
          · simp only [ha, if_false]
            exact CollRel.same _

theorem srcCreate_rel {s s' : State} {k : Sg721.Kind} {sender : Addr} {name symbol : Nat} {m : Sg721.InstMsg} {self : Addr}
    (h : srcCreate s k sender name symbol m self = .ok s') (a : Addr) : CollRel (collAt s a) (collAt s' a) := by
  have key : ∀ (hfresh : lookup s.srcs self = none) (hnt : ∀ mn tc, s.mc = some (mn, tc) → self ≠ mn.sg721) (q : CF.State) (c : CF.Coll),
      CF.instantiate ⟨s.block, s.bank, none⟩ k sender [] name symbol m self = .ok q → q.coll = some c →
      CollRel (collAt s a) (collAt { s with bank := q.bank, srcs := (self, c) :: s.srcs } a) := by
    intro hfresh hnt q c hq hqc
    obtain ⟨b3, core, _, _, hcore, rfl⟩ := CF.instantiate_ok hq
    simp only [Option.some.injEq] at hqc
    subst hqc
    unfold collAt
    simp only
    cases hmc : s.mc with
    | none =>
      simp only [lookup]
      by_cases ha : self = a
      · subst ha; simp only [if_true, hfresh]; exact ⟨_, _, _, _, _, hcore⟩
      · simp only [ha, if_false]; exact CollRel.same _
    | some p =>
      obtain ⟨mn, tc⟩ := p
      simp only
      by_cases ht : a = mn.sg721
      · simp only [ht, if_true]; exact Evolves.refl _
      · simp only [ht, if_false, lookup]
        by_cases ha : self = a
        · subst ha; simp only [if_true, hfresh]; exact ⟨_, _, _, _, _, hcore⟩
        · simp only [ha, if_false]; exact CollRel.same _
  unfold srcCreate at h
  cases hmc : s.mc with
  | none =>
    simp only [hmc] at h
    split at h
    · cases h
    · rename_i hfr
      simp only [Bool.false_eq_true, if_false] at h
      split at h
      · cases h
      · split at h
        · cases h
        · rename_i q hq
          split at h
          · cases h
          · rename_i c hqc
            cases h
            have hfr' : lookup s.srcs self = none := by
              cases hl : lookup s.srcs self with
              | none => rfl
              | some c => simp [hl] at hfr
            have hk := key hfr' (by intro mn tc hx; rw [hmc] at hx; cases hx) q c hq hqc
            rw [hmc] at hk
            exact hk
  | some p =>
    obtain ⟨mn, tc⟩ := p
    simp only [hmc] at h
    split at h
    · cases h
    · rename_i hfr
      split at h
      · cases h
      · rename_i hnm
        split at h
        · cases h
        · split at h
          · cases h
          · rename_i q hq
            split at h
            · cases h
            · rename_i c hqc
              cases h
              have hfr' : lookup s.srcs self = none := by
                cases hl : lookup s.srcs self with
                | none => rfl
                | some c => simp [hl] at hfr
              have hnt : ∀ mn2 tc2, s.mc = some (mn2, tc2) → self ≠ mn2.sg721 := by
                intro mn2 tc2 hx
                rw [hmc] at hx
                cases hx
                intro he
                apply hnm
                simp [he]
              have hk := key hfr' hnt q c hq hqc
              rw [hmc] at hk
              exact hk

/-! ## every step -/

theorem coll_step {s s' : State} {op : Op} (h : step s op = .ok s') (a : Addr) : CollRel (collAt s a) (collAt s' a) := by
  cases op with
  | tm o =>
    cases o
    case receive caller sender id recipient msgOk picked =>
      simp only [step, receiveDirect] at h
      split at h
      · cases h
      · exact hook_rel h a
    all_goals
      simp only [step] at h
      first
        | (split at h
           · cases h
           · rename_i hf
             exact tmStep_rel (by simpa using hf) h a)
        | cases h
  | create sender funds msg w ci => exact create_rel h a
  | block hh t =>
    simp only [step] at h
    split at h
    · cases h
    · cases h; exact CollRel.same _
  | srcCreate k sender name symbol m self => exact srcCreate_rel h a
  | sendNft coll sender id contract recipient msgOk recvOk picked =>
    simp only [step, deposit] at h
    split at h
    · split at h
      · cases h
      · rename_i c hc
        split at h
        · cases h
        · rename_i bank1 c1 hs
          split at h
          · cases h
          · -- the cw721 transfer on the source, then the hook
            refine CollRel.of_fwd ?_ ?_
            · intro d hd
              obtain ⟨d1, hd1, e1⟩ := collAt_setSrc (bank := bank1) hc (execOn_evolves hs) a d hd
              obtain ⟨d2, hd2, e2⟩ := hook_coll h a d1 hd1
              exact ⟨d2, hd2, e1.trans e2⟩
            · intro hd
              exact hook_none h a (collAt_setSrc_none a hd)
    · exact collExec_rel h a
  | collExec coll sender funds m =>
    simp only [step] at h
    exact collExec_rel h a

end LP.SysTM
