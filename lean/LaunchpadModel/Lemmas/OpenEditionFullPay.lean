import LaunchpadModel.Lemmas.OpenEditionFull
import LaunchpadModel.Lemmas.MintPay
/-!
# Open-edition composite ⟶ C02 aspect model (`LP.MintPay`, family `openEdition`): projection, translation, simulation

The composite's `mint_price` / fee / payout code (`OE.mintPrice`, `OE.networkFee`, `OE.mintMsgs`, written from the Rust
independently: developer share through `distribute_mint_fees(fee, false, Some(dev))`, the airdrop-price rule for uncapped
editions) is shown to agree with `MintPay.selectPrice` / `MintPay.splitMsgs` on the projected world.  The family has no
`Shuffle`, so EVERY message is simulated.
-/
namespace LP.OE
open LP
open LP.VF (WlInfo SenderView MintKind)

/-! ## projection -/

def payVariant : MintPay.Variant := ⟨.openEdition, false⟩

/-- `dev_fee_address`: an unparsable string only matters when a fee is due, and then the mint is rejected anyway -/
def payFactory (p : Params) : MintPay.Factory :=
  { mintFeeBps := p.mintFeeBps, airdropPrice := p.airdropMintPrice, airdropFeeBps := p.airdropMintFeeBps,
    devAddr := p.dev.getD LAUNCHPAD_DAO }

def paySynthWl (i : WlInfo) (now : Nat) : MintPay.Whitelist :=
  { price := i.price, startT := if i.active then 0 else 1, endT := if i.active then now + 1 else 0 }

def deadWl : MintPay.Whitelist := { price := ⟨NATIVE, 0⟩, startT := 1, endT := 0 }

def payWl (s : State) (m : Minter) : Option MintPay.Whitelist :=
  match m.whitelist with
  | none => none
  | some a =>
    match wlConfig s m.v a with
    | .ok i => some (paySynthWl i s.now)
    | .error _ => some deadWl

def payMinter (s : State) (m : Minter) : MintPay.Minter :=
  { addr := m.addr, admin := m.admin, paymentAddr := m.paymentAddress, mintPrice := m.mintPrice,
    discount := none, whitelist := payWl s m, hasCap := m.numTokens.isSome }

/-- projection onto the C02 aspect world -/
def payOf (s : State) (m : Minter) : MintPay.World :=
  { v := payVariant, f := payFactory s.params, m := payMinter s m, bank := s.bank, now := s.now }

theorem paySynthWl_active (i : WlInfo) (now : Nat) : (paySynthWl i now).active now = i.active := by
  unfold paySynthWl MintPay.Whitelist.active
  cases i.active <;> simp

/-! ## the two descriptions of price, fee and payout agree -/

theorem networkFee_eq (p : Params) (isAdmin : Bool) (price : Coin) :
    MintPay.networkFee (payFactory p) isAdmin price = networkFee p isAdmin price := by
  unfold MintPay.networkFee MintPay.feeBps networkFee
  simp only [payFactory]

theorem mintMsgs_eq {p : Params} (s : State) {m : Minter} {isAdmin : Bool} {price : Coin} {ms : List Msg}
    (h : mintMsgs p m isAdmin price = .ok ms) :
    MintPay.splitMsgs payVariant (payFactory p) (payMinter s m) isAdmin price = .ok ms := by
  unfold mintMsgs at h
  peel h
  peel h
  rename_i hle
  have hdev : MintPay.devOf payVariant (payFactory p) = some (p.dev.getD LAUNCHPAD_DAO) := rfl
  have hsel : MintPay.sellerOf payVariant (payMinter s m) = seller m := rfl
  have hft : MintPay.featuredOf payVariant = false := rfl
  unfold MintPay.splitMsgs MintPay.splitWith MintPay.feeMsgs MintPay.sellerMsgs
  rw [networkFee_eq, hdev, hsel, hft, if_neg hle]
  exact h

theorem mintPrice_eq {s : State} {m : Minter} {isAdmin : Bool} {price : Coin} (h : mintPrice s m isAdmin = .ok price) :
    MintPay.selectPrice payVariant (payFactory s.params) (payMinter s m) s.now isAdmin = .ok price := by
  unfold mintPrice at h
  unfold MintPay.selectPrice
  split at h
  · rename_i ha
    peel h
    rename_i hz
    cases h
    have hz' : ¬ (payVariant.family = .openEdition ∧ (payFactory s.params).airdropPrice.amount = 0 ∧
        (payMinter s m).hasCap = false) := by
      intro hx
      apply hz
      refine ⟨hx.2.1, ?_⟩
      have : m.numTokens.isSome = false := hx.2.2
      cases hn : m.numTokens <;> simp_all
    rw [if_pos ha, if_neg hz']
    rfl
  · rename_i ha
    have ha' : isAdmin = false := by cases isAdmin <;> simp_all
    simp only [ha', Bool.false_eq_true, if_false]
    unfold MintPay.senderPrice MintPay.publicPrice
    simp only [payMinter, payVariant, payWl]
    split at h
    · rename_i hw
      cases h
      simp [hw]
    · rename_i a hw
      simp only [hw]
      peel h
      rename_i i hi
      simp only [hi, paySynthWl_active]
      split at h <;> rename_i hact <;> cases h <;> simp [hact, paySynthWl]

/-- **an accepted composite mint IS an accepted aspect-model mint on the projected world**, with the projected bank -/
theorem executeMint_pay {s s' : State} {m : Minter} {b1 : MintPay.Bank} {sender : Addr} {funds : List Coin}
    {isAdmin : Bool} {rcpt : Addr} {g : MintKind}
    (hb1 : s.bank.sendFunds sender m.addr funds = some b1)
    (h : executeMint s m b1 sender funds isAdmin rcpt g = .ok s') :
    MintPay.mint (payOf s m) sender isAdmin funds true = .ok { payOf s m with bank := s'.bank } := by
  obtain ⟨price, ms, sq, b2, _, hp, hpay, hms0, _, _, hb2, rfl⟩ := executeMint_ok h
  have hsel := mintPrice_eq hp
  have hms := mintMsgs_eq s hms0
  unfold MintPay.mint
  simp only [payOf, payMinter]
  rw [hb1]
  simp only [Bool.true_eq_false, if_false]
  unfold MintPay.payMint MintPay.paySale
  simp only [payVariant]
  simp only [payVariant, payMinter] at hsel hms
  rw [hsel]
  simp only
  rw [hpay]
  simp only [ne_eq, not_true_eq_false, if_false]
  rw [hms]
  simp only
  rw [hb2]

/-! ## op translation -/

def resync (s : State) (m : Minter) : List MintPay.Op :=
  match payWl s m with
  | none => []
  | some wl => [.setWhitelist wl true]

def payCore (s : State) (op : Op) : List MintPay.Op :=
  match op with
  | .setTime t => if accepted s op then [.time t] else []
  | .fund a c => [.fund a c]
  | .mint sender funds _ _ => [.mint sender false funds (accepted s op)]
  | .mintTo sender funds _ => [.mint sender true funds (accepted s op)]
  | .updateMintPrice _ _ p => [.setPrice p (accepted s op)]
  | .sudoParams u =>
    match updateParams s.params u with
    | .ok p => [.sudoParams p.mintFeeBps p.airdropMintPrice p.airdropMintFeeBps (p.dev.getD LAUNCHPAD_DAO) true]
    | .error _ => []
  | _ => []

/-- composite op ↦ C02 aspect ops (witness `allowed`/`acc` = the composite's own verdict) -/
def payOps (s : State) (op : Op) : List MintPay.Op :=
  payCore s op ++
    (match (step' s op).minter with
     | some m' => resync (step' s op) m'
     | none => [])

theorem payWl_none_iff (s : State) (m : Minter) : payWl s m = none ↔ m.whitelist = none := by
  unfold payWl
  cases m.whitelist with
  | none => simp
  | some a => simp only [reduceCtorEq, iff_false]; split <;> simp

theorem pay_run_append (w : MintPay.World) (a b : List MintPay.Op) :
    MintPay.run w (a ++ b) = MintPay.run (MintPay.run w a) b := by
  simp [MintPay.run, List.foldl_append]

theorem payOf_resync {s' : State} {m' : Minter} {w : MintPay.World}
    (hv : w.v = payVariant) (hf : w.f = payFactory s'.params) (hb : w.bank = s'.bank) (hn : w.now = s'.now)
    (h1 : w.m.addr = m'.addr) (h2 : w.m.admin = m'.admin) (h3 : w.m.paymentAddr = m'.paymentAddress)
    (h4 : w.m.mintPrice = m'.mintPrice) (h5 : w.m.discount = none) (h6 : w.m.hasCap = m'.numTokens.isSome)
    (h7 : m'.whitelist = none → w.m.whitelist = none) :
    MintPay.run w (resync s' m') = payOf s' m' := by
  obtain ⟨v, f, mm, bank, now⟩ := w
  obtain ⟨a1, a2, a3, a4, a5, a6, a7⟩ := mm
  simp only at hv hf hb hn h1 h2 h3 h4 h5 h6 h7
  subst hv hf hb hn h1 h2 h3 h4 h5 h6
  unfold resync
  cases hpw : payWl s' m' with
  | none =>
    have := h7 ((payWl_none_iff s' m').mp hpw)
    subst this
    simp [MintPay.run, payOf, payMinter, hpw]
  | some wl =>
    simp [MintPay.run, MintPay.step', MintPay.step, payOf, payMinter, hpw]

theorem pay_mint_rejected (w : MintPay.World) (sender : Addr) (ad : Bool) (funds : List Coin) :
    MintPay.step' w (.mint sender ad funds false) = w := by
  have h : ∃ e, MintPay.step w (.mint sender ad funds false) = .error e := by
    simp only [MintPay.step, MintPay.mint]
    split
    · exact ⟨_, rfl⟩
    · exact ⟨.other, by simp⟩
  obtain ⟨e, he⟩ := h
  simp [MintPay.step', he]

theorem bookCount_frame (m : Minter) (sender : Addr) (g : MintKind) :
    (bookCount m sender g).v = m.v ∧ (bookCount m sender g).addr = m.addr ∧ (bookCount m sender g).admin = m.admin ∧
    (bookCount m sender g).paymentAddress = m.paymentAddress ∧ (bookCount m sender g).mintPrice = m.mintPrice ∧
    (bookCount m sender g).numTokens = m.numTokens ∧ (bookCount m sender g).whitelist = m.whitelist := by
  cases g with
  | pub => simp [bookCount]
  | wl sid cnt => unfold bookCount; simp only; split <;> simp

macro "resync_close " s:ident m:ident : tactic =>
  `(tactic| (symm; apply payOf_resync <;> first | rfl | (intro hx; first | exact (payWl_none_iff $s $m).mpr hx | cases hx)))

theorem pay_step'_ok {w w' : MintPay.World} {op : MintPay.Op} (h : MintPay.step w op = .ok w') :
    MintPay.step' w op = w' := by simp [MintPay.step', h]

theorem pay_run_one (w : MintPay.World) (op : MintPay.Op) : MintPay.run w [op] = MintPay.step' w op := rfl

/-- a REJECTED composite message: the translated aspect ops are rejected too (or only re-assert the whitelist record) -/
theorem pay_sim_err {s : State} {m : Minter} {op : Op} {e : Err} (hm : s.minter = some m) (h : step s op = .error e) :
    MintPay.run (payOf s m) (payOps s op) = payOf s m := by
  have hacc := accepted_of_err h
  have hs' := step'_err h
  have hres : MintPay.run (payOf s m) (resync s m) = payOf s m :=
    payOf_resync rfl rfl rfl rfl rfl rfl rfl rfl rfl rfl (fun hx => (payWl_none_iff s m).mpr hx)
  have hcore : MintPay.run (payOf s m) (payCore s op) = payOf s m := by
    cases op with
    | setTime t => simp [payCore, hacc, MintPay.run]
    | fund a c => simp [step] at h
    | mint sender funds f sv => simp only [payCore, hacc, pay_run_one]; exact pay_mint_rejected _ _ _ _
    | mintTo sender funds rcpt => simp only [payCore, hacc, pay_run_one]; exact pay_mint_rejected _ _ _ _
    | updateMintPrice sender funds p => simp [payCore, hacc, MintPay.run, MintPay.step', MintPay.step]
    | sudoParams u =>
      simp only [step] at h
      split at h
      · rename_i e' he'; simp [payCore, he', MintPay.run]
      · cases h
    | _ => simp [payCore, MintPay.run]
  simp only [payOps, hs', hm]
  rw [pay_run_append, hcore, hres]

/-- an ACCEPTED composite message acts on the projected world exactly as the translated aspect ops — EVERY message -/
theorem pay_sim_ok {s s' : State} {m : Minter} {op : Op} (hm : s.minter = some m) (h : step s op = .ok s') :
    ∃ m', s'.minter = some m' ∧ payOf s' m' = MintPay.run (payOf s m) (payOps s op) := by
  have hacc := accepted_of_ok h
  have hs' := step'_ok h
  cases op with
  | setTime t =>
    simp only [step] at h; split at h <;> cases h
    refine ⟨m, hm, ?_⟩
    simp only [payOps, payCore, hacc, hs', hm, if_true]
    rw [pay_run_append]
    resync_close s m
  | fund a c =>
    simp only [step] at h; cases h
    refine ⟨m, hm, ?_⟩
    simp only [payOps, payCore, hs', hm]
    rw [pay_run_append]
    resync_close s m
  | wlEnv k i =>
    simp only [step] at h; cases h
    refine ⟨m, hm, ?_⟩
    simp only [payOps, payCore, hs', hm, List.nil_append]
    resync_close s m
  | sudoParams u =>
    simp only [step] at h
    split at h
    · cases h
    · rename_i p hp
      cases h
      refine ⟨m, hm, ?_⟩
      simp only [payOps, payCore, hp, hs', hm]
      rw [pay_run_append]
      resync_close s m
  | create sender funds msg w =>
    simp only [step] at h
    obtain ⟨_, _, _, _, _, hnone, _⟩ := createMinter_ok h
    rw [hm] at hnone; cases hnone
  | instantiateDirect sender => simp [step] at h
  | mint sender funds f sv =>
    simp only [step] at h
    obtain ⟨m0, hm0, h⟩ := withMinterS_ok h
    rw [hm] at hm0; cases hm0
    obtain ⟨b1, g, _, hb1, _, _, _, h⟩ := mintSender_ok h
    have hpay := executeMint_pay hb1 h
    obtain ⟨price, ms, sq, b2, _, _, _, _, _, _, _, rfl⟩ := executeMint_ok h
    refine ⟨_, rfl, ?_⟩
    simp only [payOps, payCore, hacc, hs']
    rw [pay_run_append, pay_run_one, pay_step'_ok (show MintPay.step (payOf s m) (.mint sender false funds true) = _ from hpay)]
    obtain ⟨g1, g2, g3, g4, g5, g6, g7⟩ := bookCount_frame m sender g
    symm
    apply payOf_resync
    · rfl
    · rfl
    · rfl
    · rfl
    · exact g2.symm
    · exact g3.symm
    · exact g4.symm
    · exact g5.symm
    · rfl
    · show m.numTokens.isSome = _
      exact congrArg Option.isSome g6.symm
    · intro hx
      exact (payWl_none_iff s m).mpr (g7 ▸ hx)
  | mintTo sender funds rcpt =>
    simp only [step] at h
    obtain ⟨m0, hm0, h⟩ := withMinterS_ok h
    rw [hm] at hm0; cases hm0
    obtain ⟨b1, hb1, _, _, h⟩ := mintAdmin_ok h
    have hpay := executeMint_pay hb1 h
    obtain ⟨price, ms, sq, b2, _, _, _, _, _, _, _, rfl⟩ := executeMint_ok h
    refine ⟨_, rfl, ?_⟩
    simp only [payOps, payCore, hacc, hs']
    rw [pay_run_append, pay_run_one, pay_step'_ok (show MintPay.step (payOf s m) (.mint sender true funds true) = _ from hpay)]
    resync_close s m
  | updateMintPrice sender funds p =>
    simp only [step] at h
    obtain ⟨m0, m', hm0, hf, rfl⟩ := withMinter_ok h
    rw [hm] at hm0; cases hm0
    obtain ⟨_, _, _, _, _, _, rfl⟩ := updateMintPrice_ok hf
    refine ⟨_, rfl, ?_⟩
    simp only [payOps, payCore, hacc, hs']
    rw [pay_run_append, pay_run_one]
    resync_close s m
  | setWhitelist sender funds wl valid =>
    simp only [step] at h
    obtain ⟨m0, m', hm0, hf, rfl⟩ := withMinter_ok h
    rw [hm] at hm0; cases hm0
    obtain ⟨_, _, _, _, _, _, _, _, _, _, _, rfl⟩ := setWhitelist_ok hf
    refine ⟨_, rfl, ?_⟩
    simp only [payOps, payCore, hs', List.nil_append]
    resync_close s m
  | purge sender funds =>
    simp only [step] at h
    obtain ⟨m0, m', hm0, hf, rfl⟩ := withMinter_ok h
    rw [hm] at hm0; cases hm0
    obtain ⟨_, _, _, rfl⟩ := purge_ok hf
    refine ⟨_, rfl, ?_⟩
    simp only [payOps, payCore, hs', List.nil_append]
    resync_close s m
  | updateStartTime sender funds t =>
    simp only [step] at h
    obtain ⟨m0, m', hm0, hf, rfl⟩ := withMinter_ok h
    rw [hm] at hm0; cases hm0
    obtain ⟨_, _, _, _, _, rfl⟩ := updateStartTime_ok hf
    refine ⟨_, rfl, ?_⟩
    simp only [payOps, payCore, hs', List.nil_append]
    resync_close s m
  | updateEndTime sender funds t =>
    simp only [step] at h
    obtain ⟨m0, m', hm0, hf, rfl⟩ := withMinter_ok h
    rw [hm] at hm0; cases hm0
    obtain ⟨_, _, _, _, _, _, _, rfl⟩ := updateEndTime_ok hf
    refine ⟨_, rfl, ?_⟩
    simp only [payOps, payCore, hs', List.nil_append]
    resync_close s m
  | updateStartTradingTime sender funds t =>
    simp only [step] at h
    obtain ⟨m0, m', hm0, hf, rfl⟩ := withMinter_ok h
    rw [hm] at hm0; cases hm0
    obtain ⟨_, _, _, _, _, rfl⟩ := updateStartTradingTime_ok hf
    refine ⟨_, rfl, ?_⟩
    simp only [payOps, payCore, hs', List.nil_append]
    resync_close s m
  | updatePerAddressLimit sender funds n =>
    simp only [step] at h
    obtain ⟨m0, m', hm0, hf, rfl⟩ := withMinter_ok h
    rw [hm] at hm0; cases hm0
    obtain ⟨_, _, _, _, rfl⟩ := updatePerAddressLimit_ok hf
    refine ⟨_, rfl, ?_⟩
    simp only [payOps, payCore, hs', List.nil_append]
    resync_close s m
  | burnRemaining sender funds =>
    simp only [step] at h
    obtain ⟨m0, m', hm0, hf, rfl⟩ := withMinter_ok h
    rw [hm] at hm0; cases hm0
    obtain ⟨_, _, _, _, _, rfl⟩ := burnRemaining_ok hf
    refine ⟨_, rfl, ?_⟩
    simp only [payOps, payCore, hs', List.nil_append]
    resync_close s m
  | sudoStatus v b e =>
    simp only [step] at h
    obtain ⟨m0, m', hm0, hf, rfl⟩ := withMinter_ok h
    rw [hm] at hm0; cases hm0
    cases hf
    refine ⟨_, rfl, ?_⟩
    simp only [payOps, payCore, hs', List.nil_append]
    resync_close s m
  | collTransfer sender id to =>
    simp only [step] at h
    obtain ⟨m0, m', hm0, hf, rfl⟩ := withMinter_ok h
    rw [hm] at hm0; cases hm0
    obtain ⟨_, _, _, _, rfl⟩ := collTransfer_ok hf
    refine ⟨_, rfl, ?_⟩
    simp only [payOps, payCore, hs', List.nil_append]
    resync_close s m
  | collBurn sender id =>
    simp only [step] at h
    obtain ⟨m0, m', hm0, hf, rfl⟩ := withMinter_ok h
    rw [hm] at hm0; cases hm0
    obtain ⟨_, _, _, rfl⟩ := collBurn_ok hf
    refine ⟨_, rfl, ?_⟩
    simp only [payOps, payCore, hs', List.nil_append]
    resync_close s m
  | collTrading sender t =>
    simp only [step] at h
    obtain ⟨m0, c, hm0, _, rfl⟩ := onColl_ok h
    rw [hm] at hm0; cases hm0
    refine ⟨_, rfl, ?_⟩
    simp only [payOps, payCore, hs', List.nil_append]
    resync_close s m
  | collCreator sender new =>
    simp only [step] at h
    obtain ⟨m0, c, hm0, _, rfl⟩ := onColl_ok h
    rw [hm] at hm0; cases hm0
    refine ⟨_, rfl, ?_⟩
    simp only [payOps, payCore, hs', List.nil_append]
    resync_close s m
  | collFreeze sender =>
    simp only [step] at h
    obtain ⟨m0, c, hm0, _, rfl⟩ := onColl_ok h
    rw [hm] at hm0; cases hm0
    refine ⟨_, rfl, ?_⟩
    simp only [payOps, payCore, hs', List.nil_append]
    resync_close s m
  | collOwn sender a =>
    simp only [step] at h
    obtain ⟨m0, c, hm0, _, rfl⟩ := onColl_ok h
    rw [hm] at hm0; cases hm0
    refine ⟨_, rfl, ?_⟩
    simp only [payOps, payCore, hs', List.nil_append]
    resync_close s m

end LP.OE
