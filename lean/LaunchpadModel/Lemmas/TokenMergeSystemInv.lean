import LaunchpadModel.Lemmas.TokenMergeSystem
import LaunchpadModel.Lemmas.TokenMergeFull
import LaunchpadModel.Lemmas.Supply
/-!
# Token-merge SYSTEM composite: the end-to-end invariant of the TARGET collection (`SGood`, `TInv`)

Along every system history in which nobody signs a message to the target collection with the MINTER CONTRACT's own address
(`NoImp` — on a chain only the contract can, and its code sends the collection exactly `Mint` and `UpdateStartTradingTime`):
the cw_ownable record of the target collection is `⟨minter contract, nothing pending⟩`, every token id of the target collection is
in the minter's mint log, every logged id and every still-mintable id is in `1..=num_tokens`.
-/
namespace LP.SysTM
open LP

/-- the joint state of the minter record and its target collection contract is consistent -/
def SGood (m : Minter) (tc : CF.Coll) : Prop :=
  tc.core.ownership = ⟨some m.addr, none, none⟩ ∧
  (∀ id ∈ tc.core.ids, id ∈ m.supply.minted) ∧
  (∀ id ∈ m.supply.pos.map (·.2), 1 ≤ id ∧ id ≤ m.supply.n) ∧
  (∀ id ∈ m.supply.minted, 1 ≤ id ∧ id ≤ m.supply.n)

def TInv (s : State) : Prop := ∀ m tc, s.mc = some (m, tc) → SGood m tc

/-- no message to the TARGET collection signed from outside with the minter contract's address -/
def NoImp (s : State) : Op → Prop
  | .collExec coll sender _ _ => ∀ m tc, s.mc = some (m, tc) → coll = m.sg721 → sender ≠ m.addr
  | .sendNft coll sender _ _ _ _ _ _ => ∀ m tc, s.mc = some (m, tc) → coll = m.sg721 → sender ≠ m.addr
  | _ => True

def NoImpRun : State → List Op → Prop
  | _, [] => True
  | s, op :: ops => NoImp s op ∧ NoImpRun (step' s op) ops

/-! ## the supply side -/

/-- what an accepted `takeToken` does: the id handed out is `pickedId` of the PRE-state positions; it is logged; it was mintable -/
theorem takeToken_eff {sup sup' : Supply.Fixed} {pk : VF.Pick} {o : Addr} (h : VF.takeToken sup pk o = some sup') :
    ∃ tid, Sys2.pickedId sup.pos pk = some tid ∧ sup'.minted = tid :: sup.minted ∧ sup'.n = sup.n ∧
      (∀ e ∈ sup'.pos, e ∈ sup.pos) ∧ tid ∈ sup.pos.map (·.2) := by
  cases pk with
  | «at» p =>
    simp only [VF.takeToken] at h
    unfold Supply.Fixed.takeAt at h
    split at h
    · cases h
    · cases hl : Supply.lookupPos sup.pos p with
      | none => simp [hl] at h
      | some tid =>
        simp only [hl] at h
        obtain ⟨c, _, rfl⟩ := Supply.Fixed.deliver_spec h
        refine ⟨tid, by simp [Sys2.pickedId, hl], rfl, rfl, ?_, ?_⟩
        · intro e he; exact (List.mem_filter.1 he).1
        · exact List.mem_map.2 ⟨(p, tid), Supply.lookupPos_mem hl, rfl⟩
  | id tid =>
    simp only [VF.takeToken] at h
    obtain ⟨_, _, _, hmem, _, hd⟩ := Supply.Fixed.takeId_spec h
    obtain ⟨c, _, rfl⟩ := Supply.Fixed.deliver_spec hd
    refine ⟨tid, rfl, rfl, rfl, ?_, ?_⟩
    · intro e he; exact (List.mem_filter.1 he).1
    · exact List.mem_map.2 ⟨_, hmem, rfl⟩

/-! ## the collection side -/

/-- a message to a collection whose cw_ownable record is `⟨a, nothing pending⟩`, signed by somebody else, neither changes that
record nor creates a token id -/
theorem eff_foreign {c c' : Sg721.State} {b : Sg721.Block} {sender a : Addr} {funds : List Coin} {m : Sg721.ExecMsg}
    (e : Sg721.Eff c b sender funds m c') (ho : c.ownership = ⟨some a, none, none⟩) (hne : sender ≠ a) :
    c'.ownership = c.ownership ∧ ∀ id ∈ c'.ids, id ∈ c.ids := by
  have hown : c.ownership.owner = some a := by rw [ho]
  have hpend : c.ownership.pending = none := by rw [ho]
  cases e with
  | transfer r id t hf _ _ => exact ⟨rfl, by rw [Sg721.ids_setToken]; exact fun _ h => h⟩
  | send r id t hf _ _ => exact ⟨rfl, by rw [Sg721.ids_setToken]; exact fun _ h => h⟩
  | approve sp id ex t hf _ _ _ => exact ⟨rfl, by rw [Sg721.ids_setToken]; exact fun _ h => h⟩
  | revoke sp id t hf _ _ => exact ⟨rfl, by rw [Sg721.ids_setToken]; exact fun _ h => h⟩
  | approveAll o ex _ _ => exact ⟨rfl, fun _ h => h⟩
  | revokeAll o _ => exact ⟨rfl, fun _ h => h⟩
  | mint id owner uri ext hs _ _ => rw [hown] at hs; cases hs; exact absurd rfl hne
  | burn id t hf _ =>
    refine ⟨rfl, ?_⟩
    rw [Sg721.ids_removeToken]
    intro x hx; exact (List.mem_filter.1 hx).1
  | updateInfo u racc info' rua' _ _ _ => exact ⟨rfl, fun _ h => h⟩
  | ustt t hs => rw [hown] at hs; cases hs; exact absurd rfl hne
  | freeze _ => exact ⟨rfl, fun _ h => h⟩
  | ownTransfer n ex hs _ => rw [hown] at hs; cases hs; exact absurd rfl hne
  | ownAccept hp _ => rw [hpend] at hp; cases hp
  | ownRenounce hs => rw [hown] at hs; cases hs; exact absurd rfl hne
  | freezeMeta _ _ => exact ⟨rfl, fun _ h => h⟩
  | utm id uri t _ _ _ _ hf => exact ⟨rfl, by rw [Sg721.ids_setToken]; exact fun _ h => h⟩
  | enable _ _ => exact ⟨rfl, fun _ h => h⟩

/-! ## `SGood` is kept -/

/-- nothing relevant changed -/
theorem SGood.frame {m m' : Minter} {tc tc' : CF.Coll} (hg : SGood m tc) (ha : m'.addr = m.addr) (hn : m'.supply.n = m.supply.n)
    (hm : m'.supply.minted = m.supply.minted) (hp : ∀ id ∈ m'.supply.pos.map (·.2), id ∈ m.supply.pos.map (·.2))
    (ho : tc'.core.ownership = tc.core.ownership) (hi : ∀ id ∈ tc'.core.ids, id ∈ tc.core.ids) : SGood m' tc' := by
  obtain ⟨g1, g2, g3, g4⟩ := hg
  refine ⟨by rw [ho, g1, ha], ?_, ?_, ?_⟩
  · intro id h; rw [hm]; exact g2 id (hi id h)
  · intro id h; rw [hn]; exact g3 id (hp id h)
  · intro id h; rw [hn]; rw [hm] at h; exact g4 id h

/-- the minter handed out a token (`takeToken` on the view) and the target collection executed the `Mint` sub-message -/
theorem SGood.mint {s : State} {m : Minter} {tc tc' : CF.Coll} {vm' : TMF.Minter} {sup' : Supply.Fixed} {pk : VF.Pick}
    {rcpt : Addr} {msg : Option CF.ExecMsg} {bank bank' : MintPay.Bank}
    (hg : SGood m tc) (ht : VF.takeToken (vmOf m tc).supply pk rcpt = some sup') (hs : vm'.supply = sup')
    (ha : vm'.addr = m.addr) (hmsg : subMsg m.supply.pos tc (.mint rcpt pk) = .ok msg)
    (hrs : Sys2.runSub s.block bank m.addr tc msg = .ok (bank', tc')) : SGood (ofVm vm') tc' := by
  obtain ⟨g1, g2, g3, g4⟩ := hg
  obtain ⟨tid, hpk, hmin, hn, hpos, hmem⟩ := takeToken_eff ht
  have hpk' : Sys2.pickedId m.supply.pos pk = some tid := hpk
  simp only [subMsg, hpk'] at hmsg
  split at hmsg
  · cases hmsg
  · rename_i mm hmm
    cases hmsg
    unfold Sys2.mintMsg at hmm
    split at hmm
    · cases hmm
    · cases hmm
      obtain ⟨_, _, rfl⟩ := execOn_mint (runSub_some hrs)
      have hr : 1 ≤ tid ∧ tid ≤ m.supply.n := g3 tid hmem
      refine ⟨?_, ?_, ?_, ?_⟩
      · show tc.core.ownership = _; rw [g1]; simp [ofVm, ha]
      · intro id hid
        show id ∈ vm'.supply.minted
        rw [hs, hmin]
        simp only [Sg721.State.ids, List.map_append, List.map_cons, List.map_nil, List.mem_append, List.mem_singleton] at hid
        rcases hid with hid | hid
        · exact List.mem_cons_of_mem _ (g2 id hid)
        · rw [hid]; exact List.mem_cons_self
      · intro id hid
        show 1 ≤ id ∧ id ≤ vm'.supply.n
        rw [hs, hn]
        have hid' : id ∈ sup'.pos.map (·.2) := by rw [← hs]; exact hid
        obtain ⟨e, he, rfl⟩ := List.mem_map.1 hid'
        exact g3 e.2 (List.mem_map.2 ⟨e, hpos e he, rfl⟩)
      · intro id hid
        show 1 ≤ id ∧ id ≤ vm'.supply.n
        rw [hs, hn]
        have hid' : id ∈ sup'.minted := by rw [← hs]; exact hid
        rw [hmin] at hid'
        rcases List.mem_cons.1 hid' with h | h
        · rw [h]; exact hr
        · exact g4 id h

/-! ## the hook -/

theorem hook_good {s s' : State} {caller sender : Addr} {id : Nat} {recipient : Option Addr} {picked : Nat}
    (hi : TInv s) (h : hook s caller sender id recipient picked = .ok s') : TInv s' := by
  obtain ⟨m, tc, vm', mints, msg, bank1, tc', c, bank2, c', hmc, hhm, hmsg, hrs, _, _, rfl⟩ := hook_ok h
  have hg := hi m tc hmc
  intro m2 tc2 h2
  simp only [Option.some.injEq, Prod.mk.injEq] at h2
  obtain ⟨rfl, rfl⟩ := h2
  unfold hookMinter at hhm
  split at hhm
  · cases hhm
  · split at hhm
    · cases hhm
    · split at hhm
      · cases hhm
      · split at hhm
        · cases hhm
        · split at hhm
          · split at hhm
            · cases hhm
            · rename_i m1 hd
              cases hhm
              obtain ⟨sup, _, _, _, hts, rfl⟩ := TMF.deliver_ok hd
              simp only [if_true] at hmsg
              exact SGood.mint (vm' := _) hg hts rfl rfl hmsg hrs
          · cases hhm
            simp only [Bool.false_eq_true, if_false, subMsg] at hmsg
            cases hmsg
            obtain ⟨_, rfl⟩ := runSub_none hrs
            exact hg.frame rfl rfl rfl (fun _ h => h) rfl (fun _ h => h)

/-! ## a message to a collection from outside -/

theorem collExec_good {s s' : State} {coll sender : Addr} {funds : List Coin} {msg : CF.ExecMsg}
    (hi : TInv s) (hni : NoImp s (.collExec coll sender funds msg)) (h : collExec s coll sender funds msg = .ok s') : TInv s' := by
  unfold collExec at h
  split at h
  · cases h
  · split at h
    · rename_i mn tc hmc
      split at h
      · rename_i hcoll
        split at h
        · cases h
        · rename_i bank tc' hx
          cases h
          have hg := hi _ _ hmc
          have hne : sender ≠ mn.addr := hni _ _ hmc hcoll
          obtain ⟨core', hex, rfl⟩ := execOn_ok hx
          obtain ⟨_, e⟩ := Sg721.exec_eff hex
          obtain ⟨ho, hids⟩ := eff_foreign e hg.1 hne
          intro m2 tc2 h2
          simp only [Option.some.injEq, Prod.mk.injEq] at h2
          obtain ⟨rfl, rfl⟩ := h2
          exact hg.frame rfl rfl rfl (fun _ h => h) ho hids
      · split at h
        · cases h
        · split at h
          · cases h
          · cases h
            intro m2 tc2 h2
            exact hi m2 tc2 h2
    · rename_i hmc
      split at h
      · cases h
      · split at h
        · cases h
        · cases h
          intro m2 tc2 h2
          simp only at h2
          rw [hmc] at h2
          cases h2

end LP.SysTM
