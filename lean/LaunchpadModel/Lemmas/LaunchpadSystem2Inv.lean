import LaunchpadModel.Lemmas.LaunchpadSystem2Sim
/-!
# System composite 2: the end-to-end invariant

`NoImp s op`: the op is not a message to the collection signed by the MINTER CONTRACT's address from outside. On a chain only
the contract itself can sign with its address, and the minter's code sends the collection exactly `Mint` and
`UpdateStartTradingTime` (as sub-messages of its own handlers — `Sys2.subMsg`); cw-multi-test — and the model — let any address
sign, which is how the harness reaches the states where the collection's ownership HAS moved.

`SInv s` (an invariant of every history without such messages, from `init`):
* the collection is `Good` (ids duplicate-free, no cw721-0.16 `minter` item);
* its cw_ownable record is `⟨minter contract, no pending owner, no expiry⟩`;
* `Supply.FInv` of the minter's supply component WITH the collection's own token table as `coll` — i.e. C01's invariant with
  its collection clauses (`csub`: every token of the collection is in the minter's mint log; `cinv`: ids unique, `NumTokens`
  exact) stated about the REAL collection state.
-/
namespace LP.Sys2
open LP

/-- who signs a message that goes to the collection contract from outside -/
def collSender : Op → Option Addr
  | .collExec sender _ _ => some sender
  | .sys (.minter o) => (ifaceMsg o).map (·.1)
  | _ => none

/-- the op is not signed, from outside, by the minter contract's own address -/
def NoImp (s : State) (op : Op) : Prop := ∀ m c, s.mc = some (m, c) → collSender op ≠ some m.addr

def NoImpRun : State → List Op → Prop
  | _, [] => True
  | s, op :: ops => NoImp s op ∧ NoImpRun (step' s op) ops

structure SInv (s : State) : Prop where
  good : Good s
  own : ∀ m c, s.mc = some (m, c) → c.core.ownership = ⟨some m.addr, none, none⟩
  sup : ∀ m c, s.mc = some (m, c) → Supply.FInv (vmOf m c).supply

/-! ## a message to the collection by anybody but its owner (nothing pending) -/

/-- with ownership `⟨a, no pending owner⟩`, a message by anybody else leaves ownership and `start_trading_time` alone and
creates no token -/
theorem eff_stranger {c c' : Sg721.State} {b : Sg721.Block} {sender a : Addr} {funds : List Coin} {msg : Sg721.ExecMsg}
    (ho : c.ownership = ⟨some a, none, none⟩) (hs : sender ≠ a) (e : Sg721.Eff c b sender funds msg c') :
    c'.ownership = c.ownership ∧ c'.info.startTradingTime = c.info.startTradingTime ∧
      (∀ id, id ∈ c'.ids → id ∈ c.ids) ∧ (∀ id o u x, msg ≠ .mint id o u x) := by
  have hown : ∀ x, c.ownership.owner = some x → x = a := by
    intro x hx; rw [ho] at hx; exact (Option.some.inj hx).symm
  have hpend : ∀ x, c.ownership.pending ≠ some x := by
    intro x hx; rw [ho] at hx; cases hx
  cases e with
  | transfer _ _ _ _ _ _ => exact ⟨rfl, rfl, fun id h => by rwa [Sg721.ids_setToken] at h, fun _ _ _ _ h => by cases h⟩
  | send _ _ _ _ _ _ => exact ⟨rfl, rfl, fun id h => by rwa [Sg721.ids_setToken] at h, fun _ _ _ _ h => by cases h⟩
  | approve _ _ _ _ _ _ _ _ => exact ⟨rfl, rfl, fun id h => by rwa [Sg721.ids_setToken] at h, fun _ _ _ _ h => by cases h⟩
  | revoke _ _ _ _ _ _ => exact ⟨rfl, rfl, fun id h => by rwa [Sg721.ids_setToken] at h, fun _ _ _ _ h => by cases h⟩
  | utm _ _ _ _ _ _ _ _ => exact ⟨rfl, rfl, fun id h => by rwa [Sg721.ids_setToken] at h, fun _ _ _ _ h => by cases h⟩
  | burn _ _ _ _ =>
    exact ⟨rfl, rfl, fun id h => by rw [Sg721.ids_removeToken] at h; exact (List.mem_filter.mp h).1, fun _ _ _ _ h => by cases h⟩
  | mint _ _ _ _ hm _ _ => exact absurd (hown _ hm) hs
  | approveAll _ _ _ _ => exact ⟨rfl, rfl, fun _ h => h, fun _ _ _ _ h => by cases h⟩
  | revokeAll _ _ => exact ⟨rfl, rfl, fun _ h => h, fun _ _ _ _ h => by cases h⟩
  | updateInfo _ _ _ _ _ _ hst => exact ⟨rfl, hst, fun _ h => h, fun _ _ _ _ h => by cases h⟩
  | ustt _ hm => exact absurd (hown _ hm) hs
  | freeze _ => exact ⟨rfl, rfl, fun _ h => h, fun _ _ _ _ h => by cases h⟩
  | ownTransfer _ _ hm _ => exact absurd (hown _ hm) hs
  | ownAccept hp _ => exact absurd hp (hpend _)
  | ownRenounce hm => exact absurd (hown _ hm) hs
  | freezeMeta _ _ => exact ⟨rfl, rfl, fun _ h => h, fun _ _ _ _ h => by cases h⟩
  | enable _ _ => exact ⟨rfl, rfl, fun _ h => h, fun _ _ _ _ h => by cases h⟩

theorem toExec_not_mint {c : Sg721.State} {b : Sg721.Block} {msg : CF.ExecMsg}
    (h : ∀ id o u x, CF.toExec c b msg ≠ .mint id o u x) : isMintMsg msg = false := by
  cases msg <;> first | rfl | exact absurd rfl (h _ _ _ _)

/-- `Supply.FInv` survives an accepted collection message that creates no token -/
theorem finv_coll_msg {f : Supply.Fixed} {c c' : Sg721.State} {b : Sg721.Block} {sender : Addr} {funds : List Coin}
    {msg : CF.ExecMsg} (hi : Supply.FInv f) (hf : f.coll = tokView c) (hn : c.ids.Nodup) (hm : isMintMsg msg = false)
    (e : Sg721.Eff c b sender funds (CF.toExec c b msg) c') : Supply.FInv { f with coll := tokView c' } := by
  have htok := tok_effect hn e
  have hc : Supply.CInv (tokView c) := hf ▸ hi.cinv
  have key : (∀ id ∈ (tokView c').ids, id ∈ (tokView c).ids) ∧ Supply.CInv (tokView c') := by
    cases msg <;> simp only [isMintMsg] at hm <;> simp only [TokEff] at htok
    case transferNft r id =>
      obtain ⟨_, _, ht⟩ := htok
      obtain ⟨_, hids, _⟩ := Supply.Coll.transfer_spec ht
      exact ⟨fun x hx => by rwa [hids] at hx, Supply.Coll.transfer_inv hc ht⟩
    case sendNft r id ok =>
      obtain ⟨_, _, ht⟩ := htok
      obtain ⟨_, hids, _⟩ := Supply.Coll.transfer_spec ht
      exact ⟨fun x hx => by rwa [hids] at hx, Supply.Coll.transfer_inv hc ht⟩
    case burn id =>
      obtain ⟨_, _, hb⟩ := htok
      obtain ⟨_, hids, _⟩ := Supply.Coll.burn_spec hb
      exact ⟨fun x hx => by rw [hids] at hx; exact (List.mem_filter.mp hx).1, Supply.Coll.burn_inv hc hb⟩
    case mint => cases hm
    all_goals (rw [htok]; exact ⟨fun _ h => h, hc⟩)
  exact hi.withColl (fun id h => hf ▸ key.1 id h) key.2

/-! ## inversion of an accepted minter-side step, with the view -/

/-- everything the end-to-end proofs need about an accepted `sysStep` from a state with a minter -/
theorem sysStep_parts {s s' : State} {o : Sys.Op} {m : Minter} {c : CF.Coll} (hp : plainOp o = true) (hmc : s.mc = some (m, c))
    (h : sysStep s o = .ok s') :
    ∃ m' c' msg, s'.mc = some (m', c') ∧ m'.addr = m.addr ∧ m'.sg721 = m.sg721 ∧ m'.admin = m.admin ∧
      (∃ fop, (vmOf m c).supply.step fop = some (vmOf m' c').supply ∧ SubFop (subOf o) fop) ∧
      SubTT (vmOf m c) (vmOf m' c') (subOf o) ∧
      subMsg m c (subOf o) = .ok msg ∧
      ((msg = none ∧ c' = c) ∨
       ∃ mm core', msg = some mm ∧ Sg721.exec c.core ⟨s.block, m.addr, [], CF.toExec c.core s.block mm⟩ = .ok core' ∧
         c' = { c with core := core' }) := by
  have hex := sysStep_exact hp h
  obtain ⟨vm', hm', ha, hs, had, _, hfop, htt⟩ := sys_effect hp (sysOf_minter_some hmc) hex
  obtain ⟨r, hr, hcase⟩ := sysStep_ok h
  rcases hcase with ⟨hnone, _⟩ | ⟨m0, c0, msg, bank, c', hmc0, hmsg, hrun, rfl⟩
  · rw [hmc] at hnone; cases hnone
  · rw [hmc] at hmc0
    simp only [Option.some.injEq, Prod.mk.injEq] at hmc0
    obtain ⟨rfl, rfl⟩ := hmc0
    have hr' : r = sysOf (setSys s r bank (some c')) := by
      rw [hr] at hex; exact Except.ok.inj hex
    have hrm : r.minter = some vm' := by rw [hr']; exact hm'
    have hmc' : (setSys s r bank (some c')).mc = some (ofVm vm', c') := by
      rw [setSys_mc_some, hrm]; rfl
    have hview : vmOf (ofVm vm') c' = vm' := by
      have : (sysOf (setSys s r bank (some c'))).minter = some (vmOf (ofVm vm') c') := sysOf_minter_some hmc'
      rw [hm'] at this
      exact (Option.some.inj this).symm
    refine ⟨ofVm vm', c', msg, hmc', ha, hs, had, ?_, ?_, hmsg, ?_⟩
    · rw [hview]; exact hfop
    · rw [hview]; exact htt
    · rcases runSub_ok hrun with ⟨h1, _, h3⟩ | ⟨mm, core', h1, h2, _, h4⟩
      · exact Or.inl ⟨h1, h3⟩
      · exact Or.inr ⟨mm, core', h1, h2, h4⟩

/-- the messages a minter handler sends to the collection: `Mint` or `UpdateStartTradingTime` -/
theorem subMsg_shape {m : Minter} {c : CF.Coll} {sub : Sub} {mm : CF.ExecMsg} (h : subMsg m c sub = .ok (some mm)) :
    (∃ id rcpt, mm = .mint id rcpt (some (URI_BASE + id)) 0) ∨ (∃ t, mm = .updateStartTradingTime t) := by
  cases sub with
  | none => simp [subMsg] at h
  | trading t =>
    simp only [subMsg, Except.ok.injEq, Option.some.injEq] at h
    exact Or.inr ⟨t, h.symm⟩
  | mint rcpt pk =>
    obtain ⟨id, _, _, hx⟩ := subMsg_mint_ok h
    exact Or.inl ⟨id, rcpt, Option.some.inj hx⟩

/-- a minter sub-message never touches the collection's ownership record -/
theorem sub_ownership {c core' : Sg721.State} {b : Sg721.Block} {sender : Addr} {mm : CF.ExecMsg}
    (hshape : (∃ id rcpt, mm = .mint id rcpt (some (URI_BASE + id)) 0) ∨ (∃ t, mm = .updateStartTradingTime t))
    (h : Sg721.exec c ⟨b, sender, [], CF.toExec c b mm⟩ = .ok core') : core'.ownership = c.ownership := by
  obtain ⟨_, e⟩ := Sg721.exec_eff' h
  rcases hshape with ⟨id, rcpt, rfl⟩ | ⟨t, rfl⟩ <;> simp only [CF.toExec] at e <;> cases e <;> rfl

/-! ## `SInv` is an invariant -/

theorem sinv_collExec {s s' : State} {sender : Addr} {funds : List Coin} {msg : CF.ExecMsg} (hi : SInv s)
    (hno : ∀ m c, s.mc = some (m, c) → sender ≠ m.addr) (h : collExec s sender funds msg = .ok s') : SInv s' := by
  have hg' : Good s' := by
    have : step s (.collExec sender funds msg) = .ok s' := h
    exact good_step hi.good this
  obtain ⟨m, c, b1, core', b2, hmc, _, hex, _, rfl⟩ := collExec_ok h
  obtain ⟨_, e⟩ := Sg721.exec_eff' hex
  obtain ⟨ho, _, _, hnm⟩ := eff_stranger (hi.own m c hmc) (hno m c hmc) e
  refine ⟨hg', ?_, ?_⟩
  · intro m' c' hmc'
    simp only [Option.some.injEq, Prod.mk.injEq] at hmc'
    obtain ⟨rfl, rfl⟩ := hmc'
    rw [ho]; exact hi.own m c hmc
  · intro m' c' hmc'
    simp only [Option.some.injEq, Prod.mk.injEq] at hmc'
    obtain ⟨rfl, rfl⟩ := hmc'
    exact finv_coll_msg (hi.sup m c hmc) rfl (hi.good m c hmc).1 (toExec_not_mint hnm) e

theorem sinv_sysStep {s s' : State} {o : Sys.Op} (hp : plainOp o = true) (hi : SInv s) (h : sysStep s o = .ok s') :
    SInv s' := by
  have hg' : Good s' := by
    cases hmc : s.mc with
    | none =>
      obtain ⟨r, hr, hcase⟩ := sysStep_ok h
      rcases hcase with ⟨_, rfl⟩ | ⟨m0, c0, _, _, _, hmc0, _⟩
      · intro m' c' hmc'; rw [setSys_mc_none] at hmc'; cases hmc'
      · rw [hmc] at hmc0; cases hmc0
    | some mc =>
      obtain ⟨m, c⟩ := mc
      obtain ⟨m', c', msg, hmc', _, _, _, _, _, hmsg, hcase⟩ := sysStep_parts hp hmc h
      intro m'' c'' hx
      rw [hmc'] at hx
      simp only [Option.some.injEq, Prod.mk.injEq] at hx
      obtain ⟨rfl, rfl⟩ := hx
      obtain ⟨hn, hl⟩ := hi.good m c hmc
      rcases hcase with ⟨_, rfl⟩ | ⟨mm, core', _, hex, rfl⟩
      · exact ⟨hn, hl⟩
      · exact ⟨nodup_eff hn (Sg721.exec_eff' hex).2, hl⟩
  cases hmc : s.mc with
  | none =>
    obtain ⟨r, hr, hcase⟩ := sysStep_ok h
    rcases hcase with ⟨_, rfl⟩ | ⟨m0, c0, _, _, _, hmc0, _⟩
    · refine ⟨hg', ?_, ?_⟩ <;> intro m' c' hmc' <;> rw [setSys_mc_none] at hmc' <;> cases hmc'
    · rw [hmc] at hmc0; cases hmc0
  | some mc =>
    obtain ⟨m, c⟩ := mc
    obtain ⟨m', c', msg, hmc', ha, _, _, ⟨fop, hstep, _⟩, _, hmsg, hcase⟩ := sysStep_parts hp hmc h
    refine ⟨hg', ?_, ?_⟩
    · intro m'' c'' hx
      rw [hmc'] at hx
      simp only [Option.some.injEq, Prod.mk.injEq] at hx
      obtain ⟨rfl, rfl⟩ := hx
      rw [ha]
      have hown := hi.own m c hmc
      rcases hcase with ⟨_, rfl⟩ | ⟨mm, core', rfl, hex, rfl⟩
      · exact hown
      · rw [sub_ownership (subMsg_shape hmsg) hex]; exact hown
    · intro m'' c'' hx
      rw [hmc'] at hx
      simp only [Option.some.injEq, Prod.mk.injEq] at hx
      obtain ⟨rfl, rfl⟩ := hx
      exact (Supply.Fixed.step_inv (hi.sup m c hmc) hstep).1

theorem sinv_create {s s' : State} {sender : Addr} {funds : List Coin} {msg : VF.CreateMsg} {w : VF.CreateWit} {ci : CollInit}
    (hi : SInv s) (h : create s sender funds msg w ci = .ok s') : SInv s' := by
  have hg' : Good s' := good_step hi.good (show step s (.create sender funds msg w ci) = .ok s' from h)
  obtain ⟨r, vm, core, ck, trading, sup, _, hvm, _, hsup, hs, _, ha, _, _, _, hcore, rfl⟩ := create_parts h
  have hmc' : (setSys s r r.bank (some { core := core, self := w.collAddr, name := ci.name, symbol := ci.symbol, legacy := none })).mc =
      some (ofVm vm, { core := core, self := w.collAddr, name := ci.name, symbol := ci.symbol, legacy := none }) := by
    rw [setSys_mc_some, hvm]; rfl
  obtain ⟨_, ht, hc, ho, _, _⟩ := sg_instantiate_ok hcore
  refine ⟨hg', ?_, ?_⟩
  · intro m' c' hx
    rw [hmc'] at hx
    simp only [Option.some.injEq, Prod.mk.injEq] at hx
    obtain ⟨rfl, rfl⟩ := hx
    rw [ho]
    show (⟨some w.minterAddr, none, none⟩ : Sg721.Ownership) = ⟨some vm.addr, none, none⟩
    rw [ha]
  · intro m' c' hx
    rw [hmc'] at hx
    simp only [Option.some.injEq, Prod.mk.injEq] at hx
    obtain ⟨rfl, rfl⟩ := hx
    have h0 : Supply.FInv sup := (Supply.Fixed.init_inv hsup).1
    obtain ⟨_, hsup'⟩ := Supply.Fixed.init_spec hsup
    have : (vmOf (ofVm vm) { core := core, self := w.collAddr, name := ci.name, symbol := ci.symbol, legacy := none }).supply = sup := by
      rw [← hs]
      simp only [vmOf, ofVm, tokView, ht, hc]
      rw [hs, hsup']
      rfl
    rw [this]; exact h0

theorem sinv_collEnv {s s' : State} {op : CF.Op} (hop : op = .migrateUpdatable ∨ op = .migrateSelf ∨ ∃ v, op = .setVersion v)
    (hi : SInv s) (h : collEnv s op = .ok s') : SInv s' := by
  obtain ⟨m, c, c', hmc, rfl, hx⟩ := collEnv_parts h hop
  obtain ⟨hn, hl⟩ := hi.good m c hmc
  have key : tokView c'.core = tokView c.core ∧ c'.core.ids = c.core.ids ∧ c'.core.ownership = c.core.ownership ∧
      c'.legacy = none := by
    rcases hx with ⟨_, hf⟩ | ⟨_, hf⟩ | ⟨v, _, rfl⟩
    · obtain ⟨h1, h2, h3, _, h5, _⟩ := migrateUpdatable_view hl hf
      exact ⟨h1, h2, h3, h5⟩
    · obtain ⟨h1, h2, h3, _, h5, _⟩ := migrateSelf_view hl hf
      exact ⟨h1, h2, h3, h5⟩
    · exact ⟨rfl, rfl, rfl, hl⟩
  obtain ⟨h1, h2, h3, h4⟩ := key
  refine ⟨?_, ?_, ?_⟩
  · intro m' c'' hmc'
    simp only [Option.some.injEq, Prod.mk.injEq] at hmc'
    obtain ⟨rfl, rfl⟩ := hmc'
    exact ⟨by rw [h2]; exact hn, h4⟩
  · intro m' c'' hmc'
    simp only [Option.some.injEq, Prod.mk.injEq] at hmc'
    obtain ⟨rfl, rfl⟩ := hmc'
    rw [h3]; exact hi.own m c hmc
  · intro m' c'' hmc'
    simp only [Option.some.injEq, Prod.mk.injEq] at hmc'
    obtain ⟨rfl, rfl⟩ := hmc'
    have : (vmOf m c').supply = (vmOf m c).supply := by simp only [vmOf, h1]
    rw [this]; exact hi.sup m c hmc

/-- **the end-to-end invariant, one step** -/
theorem sinv_step {s s' : State} {op : Op} (hi : SInv s) (hno : NoImp s op) (h : step s op = .ok s') : SInv s' := by
  cases op with
  | sys o =>
    rcases step_sys_cases s o with ⟨vo, sender, m, rfl, hif, hst⟩ | ⟨vo, rfl, _, hst⟩ | ⟨hp, hst⟩
    · rw [hst] at h
      refine sinv_collExec hi ?_ h
      intro m' c' hmc' heq
      exact hno m' c' hmc' (by simp [collSender, hif, heq])
    · rw [hst] at h; cases h
    · rw [hst] at h; exact sinv_sysStep hp hi h
  | create sender funds msg w ci => exact sinv_create hi h
  | block hh t =>
    simp only [step] at h
    split at h
    · cases h
    · cases h; exact ⟨hi.good, hi.own, hi.sup⟩
  | collExec sender funds msg =>
    refine sinv_collExec hi ?_ h
    intro m' c' hmc' heq
    exact hno m' c' hmc' (by simp [collSender, heq])
  | collMigrateUpdatable => exact sinv_collEnv (Or.inl rfl) hi h
  | collMigrateSelf => exact sinv_collEnv (Or.inr (Or.inl rfl)) hi h
  | collSetVersion v => exact sinv_collEnv (Or.inr (Or.inr ⟨v, rfl⟩)) hi h

theorem sinv_step' {s : State} (op : Op) (hi : SInv s) (hno : NoImp s op) : SInv (step' s op) := by
  rcases step'_cases s op with ⟨s', hs, hs'⟩ | ⟨_, hs'⟩
  · rw [hs']; exact sinv_step hi hno hs
  · rw [hs']; exact hi

theorem sinv_run {s : State} (ops : List Op) (hi : SInv s) (hno : NoImpRun s ops) : SInv (run s ops) := by
  induction ops generalizing s with
  | nil => exact hi
  | cons op ops ih => exact ih (sinv_step' op hi hno.1) hno.2

theorem sinv_init (height now : Nat) (codes : VF.Codes) (fac : Addr) (p : VF.Params) : SInv (init height now codes fac p) :=
  ⟨good_init _ _ _ _ _, (fun _ _ h => by cases h), (fun _ _ h => by cases h)⟩

/-- every prefix of a history without impersonation satisfies the invariant, and its next op is no impersonation -/
theorem sinv_prefix {s : State} (pre : List Op) (op : Op) (post : List Op) (hi : SInv s)
    (hno : NoImpRun s (pre ++ op :: post)) : SInv (run s pre) ∧ NoImp (run s pre) op := by
  induction pre generalizing s with
  | nil => exact ⟨hi, hno.1⟩
  | cons p pre ih => exact ih (sinv_step' p hi hno.1) hno.2

end LP.Sys2
