import LaunchpadModel.Lemmas.LaunchpadSystemOECounters
/-!
# Frame of the edition's end time and of the clock

No `OE` op moves the clock backwards; only `UpdateEndTime` writes `end_time`, and only while `now < end_time`.
-/
namespace LP.SysOE
open LP

theorem oe_end_frame {c c' : OE.State} {op : OE.Op} {m m' : OE.Minter} (h : OE.step c op = .ok c')
    (hm : c.minter = some m) (hm' : c'.minter = some m') :
    c.now ≤ c'.now ∧ (m'.endTime = m.endTime ∨ ∀ e, m.endTime = some e → c.now < e) := by
  cases op with
  | setTime t =>
    simp only [OE.step] at h
    split at h
    · cases h
    · rename_i ht
      cases h
      simp only at hm'; rw [hm] at hm'; cases hm'
      exact ⟨by simp only; omega, Or.inl rfl⟩
  | fund a x =>
    simp only [OE.step] at h; cases h
    simp only at hm'; rw [hm] at hm'; cases hm'; exact ⟨Nat.le_refl _, Or.inl rfl⟩
  | wlEnv k i =>
    simp only [OE.step] at h; cases h
    simp only at hm'; rw [hm] at hm'; cases hm'; exact ⟨Nat.le_refl _, Or.inl rfl⟩
  | sudoParams u =>
    simp only [OE.step] at h
    split at h <;> cases h
    simp only at hm'; rw [hm] at hm'; cases hm'; exact ⟨Nat.le_refl _, Or.inl rfl⟩
  | instantiateDirect sender => simp [OE.step] at h
  | create sender funds msg w =>
    simp only [OE.step] at h
    obtain ⟨_, _, _, _, _, hnone, _⟩ := OE.createMinter_ok h
    rw [hm] at hnone; cases hnone
  | mint sender funds f sv =>
    simp only [OE.step] at h
    obtain ⟨m0, hm0, h⟩ := OE.withMinterS_ok h
    rw [hm] at hm0; cases hm0
    obtain ⟨_, g, _, _, _, _, _, h⟩ := OE.mintSender_ok h
    obtain ⟨_, _, _, _, _, _, _, _, _, _, _, rfl⟩ := OE.executeMint_ok h
    simp only [Option.some.injEq] at hm'; subst hm'
    exact ⟨Nat.le_refl _, Or.inl (bookCount_frame m sender g).2.2.2.2⟩
  | mintTo sender funds rcpt =>
    simp only [OE.step] at h
    obtain ⟨m0, hm0, h⟩ := OE.withMinterS_ok h
    rw [hm] at hm0; cases hm0
    obtain ⟨_, _, _, _, h⟩ := OE.mintAdmin_ok h
    obtain ⟨_, _, _, _, _, _, _, _, _, _, _, rfl⟩ := OE.executeMint_ok h
    simp only [Option.some.injEq] at hm'; subst hm'
    exact ⟨Nat.le_refl _, Or.inl rfl⟩
  | setWhitelist sender funds wl valid =>
    simp only [OE.step] at h
    obtain ⟨m0, m1, hm0, hf, rfl⟩ := OE.withMinter_ok h
    rw [hm] at hm0
    cases hm0
    simp only [Option.some.injEq] at hm'
    subst hm'
    unfold OE.setWhitelist at hf
    repeat (first | cases hf | split at hf)
    all_goals exact ⟨Nat.le_refl _, Or.inl rfl⟩
  | purge sender funds =>
    simp only [OE.step] at h
    obtain ⟨m0, m1, hm0, hf, rfl⟩ := OE.withMinter_ok h
    rw [hm] at hm0
    cases hm0
    simp only [Option.some.injEq] at hm'
    subst hm'
    unfold OE.purge at hf
    repeat (first | cases hf | split at hf)
    all_goals exact ⟨Nat.le_refl _, Or.inl rfl⟩
  | updateMintPrice sender funds p =>
    simp only [OE.step] at h
    obtain ⟨m0, m1, hm0, hf, rfl⟩ := OE.withMinter_ok h
    rw [hm] at hm0
    cases hm0
    simp only [Option.some.injEq] at hm'
    subst hm'
    unfold OE.updateMintPrice at hf
    repeat (first | cases hf | split at hf)
    all_goals exact ⟨Nat.le_refl _, Or.inl rfl⟩
  | updateStartTime sender funds t =>
    simp only [OE.step] at h
    obtain ⟨m0, m1, hm0, hf, rfl⟩ := OE.withMinter_ok h
    rw [hm] at hm0
    cases hm0
    simp only [Option.some.injEq] at hm'
    subst hm'
    unfold OE.updateStartTime at hf
    repeat (first | cases hf | split at hf)
    all_goals exact ⟨Nat.le_refl _, Or.inl rfl⟩
  | updateEndTime sender funds t =>
    simp only [OE.step] at h
    obtain ⟨m0, m1, hm0, hf, rfl⟩ := OE.withMinter_ok h
    rw [hm] at hm0
    cases hm0
    simp only [Option.some.injEq] at hm'
    subst hm'
    obtain ⟨e, _, _, he, hlt, _, _, rfl⟩ := OE.updateEndTime_ok hf
    exact ⟨Nat.le_refl _, Or.inr (fun e' he' => by rw [he] at he'; cases he'; exact hlt)⟩
  | updateStartTradingTime sender funds t =>
    simp only [OE.step] at h
    obtain ⟨m0, m1, hm0, hf, rfl⟩ := OE.withMinter_ok h
    rw [hm] at hm0
    cases hm0
    simp only [Option.some.injEq] at hm'
    subst hm'
    unfold OE.updateStartTradingTime at hf
    repeat (first | cases hf | split at hf)
    all_goals exact ⟨Nat.le_refl _, Or.inl rfl⟩
  | updatePerAddressLimit sender funds n =>
    simp only [OE.step] at h
    obtain ⟨m0, m1, hm0, hf, rfl⟩ := OE.withMinter_ok h
    rw [hm] at hm0
    cases hm0
    simp only [Option.some.injEq] at hm'
    subst hm'
    unfold OE.updatePerAddressLimit at hf
    repeat (first | cases hf | split at hf)
    all_goals exact ⟨Nat.le_refl _, Or.inl rfl⟩
  | burnRemaining sender funds =>
    simp only [OE.step] at h
    obtain ⟨m0, m1, hm0, hf, rfl⟩ := OE.withMinter_ok h
    rw [hm] at hm0
    cases hm0
    simp only [Option.some.injEq] at hm'
    subst hm'
    unfold OE.burnRemaining at hf
    repeat (first | cases hf | split at hf)
    all_goals exact ⟨Nat.le_refl _, Or.inl rfl⟩
  | sudoStatus v b e =>
    simp only [OE.step] at h
    obtain ⟨m0, m1, hm0, hf, rfl⟩ := OE.withMinter_ok h
    rw [hm] at hm0
    cases hm0
    simp only [Option.some.injEq] at hm'
    subst hm'
    cases hf
    exact ⟨Nat.le_refl _, Or.inl rfl⟩
  | collTransfer sender id to =>
    simp only [OE.step] at h
    obtain ⟨m0, m1, hm0, hf, rfl⟩ := OE.withMinter_ok h
    rw [hm] at hm0
    cases hm0
    simp only [Option.some.injEq] at hm'
    subst hm'
    unfold OE.collTransfer at hf
    repeat (first | cases hf | split at hf)
    all_goals exact ⟨Nat.le_refl _, Or.inl rfl⟩
  | collBurn sender id =>
    simp only [OE.step] at h
    obtain ⟨m0, m1, hm0, hf, rfl⟩ := OE.withMinter_ok h
    rw [hm] at hm0
    cases hm0
    simp only [Option.some.injEq] at hm'
    subst hm'
    unfold OE.collBurn at hf
    repeat (first | cases hf | split at hf)
    all_goals exact ⟨Nat.le_refl _, Or.inl rfl⟩
  | collTrading sender t =>
    simp only [OE.step] at h
    obtain ⟨m0, x, hm0, _, rfl⟩ := OE.onColl_ok h
    rw [hm] at hm0; cases hm0
    simp only [Option.some.injEq] at hm'; subst hm'
    exact ⟨Nat.le_refl _, Or.inl rfl⟩
  | collCreator sender new =>
    simp only [OE.step] at h
    obtain ⟨m0, x, hm0, _, rfl⟩ := OE.onColl_ok h
    rw [hm] at hm0; cases hm0
    simp only [Option.some.injEq] at hm'; subst hm'
    exact ⟨Nat.le_refl _, Or.inl rfl⟩
  | collFreeze sender =>
    simp only [OE.step] at h
    obtain ⟨m0, x, hm0, _, rfl⟩ := OE.onColl_ok h
    rw [hm] at hm0; cases hm0
    simp only [Option.some.injEq] at hm'; subst hm'
    exact ⟨Nat.le_refl _, Or.inl rfl⟩
  | collOwn sender a =>
    simp only [OE.step] at h
    obtain ⟨m0, x, hm0, _, rfl⟩ := OE.onColl_ok h
    rw [hm] at hm0; cases hm0
    simp only [Option.some.injEq] at hm'; subst hm'
    exact ⟨Nat.le_refl _, Or.inl rfl⟩

end LP.SysOE
