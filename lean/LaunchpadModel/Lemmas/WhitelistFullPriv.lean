import LaunchpadModel.Lemmas.WhitelistFullMerkle
import LaunchpadModel.Model.Priv
/-!
# Composite whitelist model ⟶ C05 aspect model (`LP.Priv`): the whitelist rows of the privilege table

`proj05 base now w` = `base` (any authorisation state of the rest of the world) with the clock, the whitelist admin list and its
`mutable` flag read off the composite; `tr05` sends every composite `execute` to the aspect's `exec ⟨sender, _⟩ (.whitelist kind)
msgKind args w`, where `w` ("the non-authorisation preconditions held") is the composite's own verdict. `UpdateAdmins` / `Freeze`
are exactly modelled by the aspect (no witness): a delivery or `map_validate` failure is routed to the refused `.other … false`.
-/
namespace LP.WF
open LP

def wlKind05 (v : Variant) : Priv.WlKind :=
  match v.store with
  | .immutable => .immutable
  | .merkle => if v.tiered then .tieredMerkle else .merkle
  | .list =>
    match v.flex, v.tiered with
    | false, false => .plain
    | true, false => .flex
    | false, true => .tiered
    | true, true => .tieredFlex

def msgKind05 : ExecMsg → Priv.MsgKind
  | .updateStartTime _ => .updateStartTime
  | .updateEndTime _ => .updateEndTime
  | .addMembers _ _ => .addMembers
  | .removeMembers _ _ => .removeMembers
  | .updatePerAddressLimit _ => .updatePerAddressLimit
  | .increaseMemberLimit _ => .increaseMemberLimit
  | .updateAdmins _ => .updateAdmins
  | .freeze => .freeze
  | .addStage _ _ => .addStage
  | .removeStage _ => .removeStage
  | .updateStageConfig _ => .updateStageConfig
  | .unknown => .other

def proj05 (base : Priv.AuthState) (now : Nat) (w : Wl) : Priv.AuthState :=
  { base with now := now, wlAdmins := w.admins, wlMutable := w.mutable_ }

def tr05 (s : State) (w : Wl) : Op → Priv.Op
  | .setTime t => .tick t
  | .fund _ _ => .tick s.now
  | .instantiate _ _ _ _ _ => .tick s.now
  | .exec sender funds m =>
    let c : Priv.Caller := ⟨sender, false⟩
    let k : Priv.Kind := .whitelist (wlKind05 w.v)
    let acc := accepted s (.exec sender funds m)
    match m with
    | .updateAdmins l => if acc then .exec c k .updateAdmins { admins := l } true else .exec c k .other {} false
    | .freeze => if acc then .exec c k .freeze {} true else .exec c k .other {} false
    | m => .exec c k (msgKind05 m) {} acc

/-- what acceptance of a message implies about the sender (the composite's authorisation gates) -/
theorem accepted_auth {s s' : State} {w : Wl} (hw : s.wl = some w) {sender : Addr} {funds : List Coin} {m : ExecMsg}
    (h : step s (.exec sender funds m) = .ok s') :
    supports w.v m = true ∧
    (match m with
     | .increaseMemberLimit _ => True
     | .updateAdmins _ | .freeze => canModify w sender = true
     | _ => isAdmin w sender = true) := by
  simp only [step] at h
  obtain ⟨w0, b1, w1, msgs, b2, hw0, _, hh, _, _⟩ := execute_ok h
  rw [hw] at hw0; cases hw0
  unfold handle at hh
  split at hh; · cases hh
  rename_i hsup
  have hsup' : supports w.v m = true := by simpa using hsup
  refine ⟨hsup', ?_⟩
  simp only [] at hh
  cases m with
  | increaseMemberLimit n => trivial
  | unknown => cases hh
  | updateStartTime t =>
    simp only [] at hh ⊢; split at hh
    · rename_i w2 hf; unfold updateStartTime at hf; split at hf
      · cases hf
      · rename_i h1; simpa using h1
    · cases hh
  | updateEndTime t =>
    simp only [] at hh ⊢; split at hh
    · rename_i w2 hf; unfold updateEndTime at hf; split at hf
      · cases hf
      · rename_i h1; simpa using h1
    · cases hh
  | updatePerAddressLimit n =>
    simp only [] at hh ⊢; split at hh
    · rename_i w2 hf; unfold updatePerAddressLimit at hf; split at hf
      · cases hf
      · rename_i h1; simpa using h1
    · cases hh
  | updateAdmins l =>
    simp only [] at hh ⊢; split at hh
    · rename_i w2 hf; unfold updateAdmins at hf; split at hf
      · cases hf
      · rename_i h1; simpa using h1
    · cases hh
  | freeze =>
    simp only [] at hh ⊢; split at hh
    · rename_i w2 hf; unfold freeze at hf; split at hf
      · cases hf
      · rename_i h1; simpa using h1
    · cases hh
  | updateStageConfig u =>
    simp only [] at hh ⊢; split at hh
    · rename_i w2 hf; unfold updateStageConfig at hf; split at hf
      · cases hf
      · rename_i h1; simpa using h1
    · cases hh
  | addMembers stage ms =>
    simp only [] at hh ⊢; split at hh
    · rename_i w2 hf; unfold addMembers at hf; split at hf
      · cases hf
      · rename_i h1; simpa using h1
    · cases hh
  | removeMembers stage as =>
    simp only [] at hh ⊢; split at hh
    · rename_i w2 hf; unfold removeMembers at hf; split at hf
      · cases hf
      · rename_i h1; simpa using h1
    · cases hh
  | addStage st ms =>
    simp only [] at hh ⊢; split at hh
    · rename_i w2 hf; unfold addStage at hf; split at hf
      · cases hf
      · rename_i h1; simpa using h1
    · cases hh
  | removeStage id =>
    simp only [] at hh ⊢; split at hh
    · rename_i w2 hf; unfold removeStage at hf; split at hf
      · cases hf
      · rename_i h1; simpa using h1
    · cases hh

/-- an accepted message is authorised by the aspect's privilege table -/
theorem accepted_authorised (base : Priv.AuthState) {s s' : State} {w : Wl} (hw : s.wl = some w) {sender : Addr}
    {funds : List Coin} {m : ExecMsg} (h : step s (.exec sender funds m) = .ok s') :
    Priv.authorised (proj05 base s.now w) ⟨sender, false⟩
      (Priv.principal (.whitelist (wlKind05 w.v)) (msgKind05 m)) = true := by
  obtain ⟨hsup, hauth⟩ := accepted_auth hw h
  cases hv : w.v with
  | mk st f t =>
    rw [hv] at hsup
    cases m <;> cases st <;> cases f <;> cases t <;>
      simp_all [supports, Variant.isList, Variant.isImmutable, wlKind05, msgKind05, Priv.principal, Priv.wlPrincipal,
        Priv.authorised, proj05, canModify, isAdmin]

theorem priv_step'_none {P : Priv.AuthState} {op : Priv.Op} (h : Priv.step P op = none) : Priv.step' P op = P := by
  simp [Priv.step', h]
theorem priv_step'_some {P P' : Priv.AuthState} {op : Priv.Op} (h : Priv.step P op = some P') : Priv.step' P op = P' := by
  simp [Priv.step', h]

/-- a refused aspect `exec` of a message that is not a hand-over message -/
theorem priv_exec_refused (P : Priv.AuthState) (c : Priv.Caller) (wk : Priv.WlKind) (mk : Priv.MsgKind) (a : Priv.Args)
    (hm : mk ≠ .updateAdmins ∧ mk ≠ .freeze) : Priv.step P (.exec c (.whitelist wk) mk a false) = none := by
  simp only [Priv.step]
  split
  · rfl
  · cases mk <;> simp_all [Priv.effect]

theorem priv_exec_plain (P : Priv.AuthState) (c : Priv.Caller) (wk : Priv.WlKind) (mk : Priv.MsgKind) (a : Priv.Args)
    (hm : mk ≠ .updateAdmins ∧ mk ≠ .freeze) (hauth : Priv.authorised P c (Priv.principal (.whitelist wk) mk) = true) :
    Priv.step P (.exec c (.whitelist wk) mk a true) = some P := by
  simp only [Priv.step, hauth, Bool.not_true, Bool.false_eq_true, if_false]
  cases mk <;> simp_all [Priv.effect]

theorem msgKind05_plain {m : ExecMsg} (h : schedFree m = true ∨ (∃ t, m = .updateStartTime t) ∨ (∃ t, m = .updateEndTime t) ∨
    (∃ n, m = .updatePerAddressLimit n)) : msgKind05 m ≠ .updateAdmins ∧ msgKind05 m ≠ .freeze := by
  cases m <;> simp_all [msgKind05, schedFree]

/-- **one-step simulation for C05** (whitelist rows; every op but `instantiate`; every `base`) -/
theorem step_sim05 (base : Priv.AuthState) {s : State} {w : Wl} (hw : s.wl = some w) (op : Op)
    (hni : ∀ v sender funds self m, op ≠ .instantiate v sender funds self m) :
    ∃ w', (step' s op).wl = some w' ∧ w'.v = w.v ∧
      proj05 base (step' s op).now w' = Priv.step' (proj05 base s.now w) (tr05 s w op) := by
  cases op with
  | setTime t => exact ⟨w, hw, rfl, rfl⟩
  | fund a c => exact ⟨w, hw, rfl, rfl⟩
  | instantiate v sender funds self m => exact absurd rfl (hni v sender funds self m)
  | exec sender funds m =>
    rcases step'_cases s (.exec sender funds m) with ⟨s', hok, hs'⟩ | ⟨⟨e, herr⟩, hs'⟩
    · have hacc := accepted_of_ok hok
      have hauth := accepted_authorised base hw hok
      have hok' := hok
      simp only [step] at hok'
      obtain ⟨w0, b1, w', msgs, b2, hw0, _, hh, _, rfl⟩ := execute_ok hok'
      rw [hw] at hw0; cases hw0
      rw [hs']
      refine ⟨w', rfl, (handle_frame hh).2.1, ?_⟩
      by_cases hadm : (∃ l, m = .updateAdmins l) ∨ m = .freeze
      · rcases hadm with ⟨l, rfl⟩ | rfl
        · simp only [tr05, hacc, if_true]
          have : Priv.step (proj05 base s.now w) (.exec ⟨sender, false⟩ (.whitelist (wlKind05 w.v)) .updateAdmins { admins := l } true)
              = some { proj05 base s.now w with wlAdmins := l } := by
            simp only [Priv.step]
            rw [show Priv.authorised (proj05 base s.now w) ⟨sender, false⟩
              (Priv.principal (.whitelist (wlKind05 w.v)) .updateAdmins) = true from hauth]
            simp [Priv.effect]
          rw [priv_step'_some this]
          unfold handle at hh
          split at hh; · cases hh
          simp only [] at hh
          split at hh
          · rename_i w2 hf
            simp only [Except.ok.injEq, Prod.mk.injEq] at hh; obtain ⟨rfl, _⟩ := hh
            unfold updateAdmins at hf
            split at hf; · cases hf
            split at hf; · cases hf
            simp only [Except.ok.injEq] at hf; subst hf; rfl
          · cases hh
        · simp only [tr05, hacc, if_true]
          have : Priv.step (proj05 base s.now w) (.exec ⟨sender, false⟩ (.whitelist (wlKind05 w.v)) .freeze {} true)
              = some { proj05 base s.now w with wlMutable := false } := by
            simp only [Priv.step]
            rw [show Priv.authorised (proj05 base s.now w) ⟨sender, false⟩
              (Priv.principal (.whitelist (wlKind05 w.v)) .freeze) = true from hauth]
            simp [Priv.effect]
          rw [priv_step'_some this]
          unfold handle at hh
          split at hh; · cases hh
          simp only [] at hh
          split at hh
          · rename_i w2 hf
            simp only [Except.ok.injEq, Prod.mk.injEq] at hh; obtain ⟨rfl, _⟩ := hh
            unfold freeze at hf
            split at hf; · cases hf
            simp only [Except.ok.injEq] at hf; subst hf; rfl
          · cases hh
      · -- every other message: the aspect state is untouched
        have htr : tr05 s w (.exec sender funds m) =
            .exec ⟨sender, false⟩ (.whitelist (wlKind05 w.v)) (msgKind05 m) {} true := by
          cases m <;> first | (exfalso; exact hadm (Or.inl ⟨_, rfl⟩)) | (exfalso; exact hadm (Or.inr rfl)) | (simp only [tr05, hacc])
        have hplain : msgKind05 m ≠ .updateAdmins ∧ msgKind05 m ≠ .freeze := by
          cases m <;> first | (exfalso; exact hadm (Or.inl ⟨_, rfl⟩)) | (exfalso; exact hadm (Or.inr rfl)) | (simp [msgKind05])
        rw [htr, priv_step'_some (priv_exec_plain _ _ _ _ _ hplain hauth)]
        -- admins and flag unchanged
        have hfr : w'.admins = w.admins ∧ w'.mutable_ = w.mutable_ := by
          by_cases hsf : schedFree m = true
          · have := handle_frame12 (now := s.now) hh hsf
            exact ⟨congrArg WlSchedule.State.admins this, congrArg WlSchedule.State.adminsMutable this⟩
          · unfold handle at hh
            split at hh; · cases hh
            simp only [] at hh
            cases m with
            | updateStartTime t =>
              simp only [] at hh; split at hh
              · rename_i w2 hf; simp only [Except.ok.injEq, Prod.mk.injEq] at hh; obtain ⟨rfl, _⟩ := hh
                unfold updateStartTime at hf; split at hf; · cases hf
                split at hf; · cases hf
                split at hf; · cases hf
                simp only [Except.ok.injEq] at hf; subst hf; exact ⟨rfl, rfl⟩
              · cases hh
            | updateEndTime t =>
              simp only [] at hh; split at hh
              · rename_i w2 hf; simp only [Except.ok.injEq, Prod.mk.injEq] at hh; obtain ⟨rfl, _⟩ := hh
                unfold updateEndTime at hf; split at hf; · cases hf
                split at hf; · cases hf
                split at hf; · cases hf
                simp only [Except.ok.injEq] at hf; subst hf; exact ⟨rfl, rfl⟩
              · cases hh
            | updatePerAddressLimit n =>
              simp only [] at hh; split at hh
              · rename_i w2 hf; simp only [Except.ok.injEq, Prod.mk.injEq] at hh; obtain ⟨rfl, _⟩ := hh
                unfold updatePerAddressLimit at hf; split at hf; · cases hf
                split at hf; · cases hf
                simp only [Except.ok.injEq] at hf; subst hf; exact ⟨rfl, rfl⟩
              · cases hh
            | updateAdmins l => exact absurd (Or.inl ⟨l, rfl⟩) hadm
            | freeze => exact absurd (Or.inr rfl) hadm
            | _ => exact absurd rfl hsf
        simp only [proj05, hfr.1, hfr.2]
    · rw [hs']
      refine ⟨w, hw, rfl, ?_⟩
      have hacc := accepted_false_of_err herr
      have : Priv.step (proj05 base s.now w) (tr05 s w (.exec sender funds m)) = none := by
        cases m <;> simp only [tr05, hacc, Bool.false_eq_true, if_false] <;>
          exact priv_exec_refused _ _ _ _ _ (by simp [msgKind05])
      rw [priv_step'_none this]

end LP.WF
