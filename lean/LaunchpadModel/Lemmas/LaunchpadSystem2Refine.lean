import LaunchpadModel.Lemmas.LaunchpadSystem2View
/-!
# System composite 2 refines `LP.Sys` (through the view) and `LP.CF` (the collection contract)

**`Sys` side.** `sysOf s` = the `Sys` state whose minter carries `viewOfColl` of the collection contract. `sysOps s op` = the `Sys`
ops one `Sys2` step is for the simplified interface: an accepted minter / whitelist / clock op ↦ itself, `CreateMinter` ↦
`VF.Op.create` with `collOk := true`, an ACCEPTED collection message ↦ the interface op with the same effect on the view
(`collOps`: `collTransfer` / `collBurn` by the token's current owner, `collTrading`, `collCreator`, `collFreeze`, `collOwn`;
approvals, operators, metadata ↦ nothing), a refused op ↦ nothing.  `sys_step`: for every state whose collection ids are
duplicate-free and every op that is no FOREIGN step, `sysOf (step' s op) = Sys.run { sysOf s with bank := … } (sysOps s op)`.
The foreign steps (`Foreign`) are the two events the simplified interface has no op for: an accepted direct `Mint` sent to the
collection (only its cw_ownable owner can) and an accepted migration (base → updatable changes the kind).  Coins attached to a
collection message move between accounts outside the `Sys` family: the bank component is replaced (as `Sys` does for `VF`).

**`CF` side.** `cfOf s` = (block, bank, the collection contract). `cfOps s op` = the `CF` ops of one step: the collection's
`instantiate`, every message addressed to it, the minter's sub-message, the block, the migrations. `cf_step`:
`cfOf (step' s op) = CF.run { cfOf s with bank := cfBank s op } (cfOps s op)` for ALL states and ops.
-/
namespace LP.Sys2
open LP

/-! ## `Sys` steps of the interface ops -/

theorem setVf_minter (S : Sys.State) (vm' : VF.Minter) :
    Sys.setVf S { Sys.vfOf S with minter := some vm' } = { S with minter := some vm' } := by
  cases S; rfl

theorem sys_step_iface (S : Sys.State) (o : VF.Op) (vm' : VF.Minter) (hw : Sys.witnessed o = false)
    (h : VF.step (Sys.vfOf S) o = .ok { Sys.vfOf S with minter := some vm' }) :
    Sys.step' S (.minter o) = { S with minter := some vm' } := by
  simp only [Sys.step', Sys.step, hw, Bool.false_eq_true, if_false, h, setVf_minter]

theorem vf_withMinter {V : VF.State} {vm vm' : VF.Minter} {f : VF.Minter → Except Err VF.Minter} (hm : V.minter = some vm)
    (hf : f vm = .ok vm') : VF.withMinter V f = .ok { V with minter := some vm' } := by
  simp [VF.withMinter, hm, hf]

theorem vf_onColl {V : VF.State} {vm : VF.Minter} {tt' : TT.Coll} {f : TT.Coll → Except Err TT.Coll} (hm : V.minter = some vm)
    (hf : f vm.tt = .ok tt') : VF.onColl V f = .ok { V with minter := some { vm with tt := tt' } } := by
  simp [VF.onColl, VF.withMinter, hm, hf]

/-! ## the translation -/

/-- the `Sys` interface ops an ACCEPTED collection message is for the simplified interface -/
def collOps (c : Sg721.State) (sender : Addr) : CF.ExecMsg → List Sys.Op
  | .transferNft r id =>
    match (tokView c).ownerOf id with
    | some o => [.minter (.collTransfer o id r)]
    | none => []
  | .sendNft r id _ =>
    match (tokView c).ownerOf id with
    | some o => [.minter (.collTransfer o id r)]
    | none => []
  | .burn id =>
    match (tokView c).ownerOf id with
    | some o => [.minter (.collBurn o id)]
    | none => []
  | .updateStartTradingTime t => [.minter (.collTrading sender t)]
  | .updateCollectionInfo u => [.minter (.collCreator sender (u.creator.getD c.info.creator))]
  | .freezeCollectionInfo => [.minter (.collFreeze sender)]
  | .updateOwnership a => [.minter (.collOwn sender (CF.ownAct a))]
  | _ => []

def isMintMsg : CF.ExecMsg → Bool
  | .mint .. => true
  | _ => false

/-- the state after an accepted collection message / migration: only the bank and the collection's core move -/
theorem sysOf_coll (s : State) (m : Minter) (c' : CF.Coll) (b : MintPay.Bank) :
    sysOf { s with bank := b, mc := some (m, c') } = { sysOf s with bank := b, minter := some (vmOf m c') } := rfl

theorem vmOf_core (m : Minter) (c : CF.Coll) (core' : Sg721.State) :
    vmOf m { c with core := core' } =
      { vmOf m c with supply := { (vmOf m c).supply with coll := tokView core' }, tt := ttView core' } := rfl

theorem ttKind_nt {k : Sg721.Kind} (h : ttKind k = .nt) : k = .nt := by cases k <;> simp [ttKind] at h ⊢

/-- **an accepted collection message on the simplified interface**: the view of the post-state is the `Sys` run of `collOps`
(on the bank of the post-state) -/
theorem sys_coll_msg (S : Sys.State) (m : Minter) (c : CF.Coll) (core' : Sg721.State) (sender : Addr) (funds : List Coin)
    (b : Sg721.Block) (msg : CF.ExecMsg) (hS : S.minter = some (vmOf m c)) (hn : c.core.ids.Nodup) (hmint : isMintMsg msg = false)
    (h : Sg721.exec c.core ⟨b, sender, funds, CF.toExec c.core b msg⟩ = .ok core') :
    Sys.run S (collOps c.core sender msg) = { S with minter := some (vmOf m { c with core := core' }) } := by
  obtain ⟨hsup, e⟩ := Sg721.exec_eff' h
  have htok := tok_effect hn e
  have htt := CF.msg_sim c.core core' b sender funds msg h
  rw [vmOf_core]
  have hV : (Sys.vfOf S).minter = some (vmOf m c) := hS
  cases msg <;> simp only [isMintMsg] at hmint <;> simp only [TokEff] at htok <;> simp only [CF.ttMsg] at htt <;>
    simp only [collOps, ← ttView_eq] at htt ⊢
  case transferNft r id =>
    obtain ⟨o, ho, htr⟩ := htok
    rw [ho]
    have hk : (vmOf m c).tt.kind ≠ .nt := by
      intro hk
      have : c.core.kind = .nt := ttKind_nt hk
      rw [this] at hsup; simp [CF.toExec, Sg721.supported] at hsup
    have hstep : VF.step (Sys.vfOf S) (.collTransfer o id r) =
        .ok { Sys.vfOf S with minter := some { vmOf m c with supply := { (vmOf m c).supply with coll := tokView core' } } } := by
      simp only [VF.step]
      refine vf_withMinter hV ?_
      have ho' : (vmOf m c).supply.coll.ownerOf id = some o := ho
      have htr' : (vmOf m c).supply.coll.transfer id r = some (tokView core') := htr
      simp [VF.collTransfer, hk, ho', htr']
    simp only [Sys.run, List.foldl_cons, List.foldl_nil]
    rw [sys_step_iface S _ _ rfl hstep, htt]
    rfl
  case sendNft r id ok =>
    obtain ⟨o, ho, htr⟩ := htok
    rw [ho]
    have hk : (vmOf m c).tt.kind ≠ .nt := by
      intro hk
      have : c.core.kind = .nt := ttKind_nt hk
      rw [this] at hsup; simp [CF.toExec, Sg721.supported] at hsup
    have hstep : VF.step (Sys.vfOf S) (.collTransfer o id r) =
        .ok { Sys.vfOf S with minter := some { vmOf m c with supply := { (vmOf m c).supply with coll := tokView core' } } } := by
      simp only [VF.step]
      refine vf_withMinter hV ?_
      have ho' : (vmOf m c).supply.coll.ownerOf id = some o := ho
      have htr' : (vmOf m c).supply.coll.transfer id r = some (tokView core') := htr
      simp [VF.collTransfer, hk, ho', htr']
    simp only [Sys.run, List.foldl_cons, List.foldl_nil]
    rw [sys_step_iface S _ _ rfl hstep, htt]
    rfl
  case burn id =>
    obtain ⟨o, ho, hb⟩ := htok
    rw [ho]
    have hstep : VF.step (Sys.vfOf S) (.collBurn o id) =
        .ok { Sys.vfOf S with minter := some { vmOf m c with supply := { (vmOf m c).supply with coll := tokView core' } } } := by
      simp only [VF.step]
      refine vf_withMinter hV ?_
      have ho' : (vmOf m c).supply.coll.ownerOf id = some o := ho
      have hb' : (vmOf m c).supply.coll.burn id = some (tokView core') := hb
      simp [VF.collBurn, ho', hb']
    simp only [Sys.run, List.foldl_cons, List.foldl_nil]
    rw [sys_step_iface S _ _ rfl hstep, htt]
    rfl
  case updateStartTradingTime t =>
    have hstep : VF.step (Sys.vfOf S) (.collTrading sender t) =
        .ok { Sys.vfOf S with minter := some { vmOf m c with tt := ttView core' } } := by
      simp only [VF.step]
      exact vf_onColl hV htt
    simp only [Sys.run, List.foldl_cons, List.foldl_nil]
    rw [sys_step_iface S _ _ rfl hstep, htok]
    rfl
  case updateCollectionInfo u =>
    have hstep : VF.step (Sys.vfOf S) (.collCreator sender (u.creator.getD c.core.info.creator)) =
        .ok { Sys.vfOf S with minter := some { vmOf m c with tt := ttView core' } } := by
      simp only [VF.step]
      exact vf_onColl hV htt
    simp only [Sys.run, List.foldl_cons, List.foldl_nil]
    rw [sys_step_iface S _ _ rfl hstep, htok]
    rfl
  case freezeCollectionInfo =>
    have hstep : VF.step (Sys.vfOf S) (.collFreeze sender) =
        .ok { Sys.vfOf S with minter := some { vmOf m c with tt := ttView core' } } := by
      simp only [VF.step]
      exact vf_onColl hV htt
    simp only [Sys.run, List.foldl_cons, List.foldl_nil]
    rw [sys_step_iface S _ _ rfl hstep, htok]
    rfl
  case updateOwnership a =>
    have hstep : VF.step (Sys.vfOf S) (.collOwn sender (CF.ownAct a)) =
        .ok { Sys.vfOf S with minter := some { vmOf m c with tt := ttView core' } } := by
      simp only [VF.step]
      exact vf_onColl hV htt
    simp only [Sys.run, List.foldl_cons, List.foldl_nil]
    rw [sys_step_iface S _ _ rfl hstep, htok]
    rfl
  case mint => simp at hmint
  all_goals
    simp only [Sys.run, List.foldl_nil]
    rw [htok, htt]
    cases S
    simp only at hS
    subst hS
    rfl

end LP.Sys2

namespace LP.Sys2
open LP

/-! ## `Supply.Fixed.step` and the token table -/

/-- the token-table effect of an accepted `Supply.Fixed` step (`pos` = the position map before the step) -/
def fopColl (pos : List (Nat × Nat)) (v v' : Supply.Coll) : Supply.FOp → Prop
  | .mint _ p o => ∃ id, Supply.lookupPos pos p = some id ∧ v.mint id o = some v'
  | .mintFor _ id o => v.mint id o = some v'
  | .collBurn _ id => v.burn id = some v'
  | .collTransfer _ id to => v.transfer id to = some v'
  | _ => v' = v

theorem fixed_step_coll {f f' : Supply.Fixed} {op : Supply.FOp} (h : f.step op = some f') :
    fopColl f.pos f.coll f'.coll op := by
  cases op with
  | mint g p o =>
    cases g <;> simp only [Supply.Fixed.step, if_true, Bool.false_eq_true, if_false] at h
    · cases h
    · unfold Supply.Fixed.takeAt at h
      split at h
      · cases h
      · cases hl : Supply.lookupPos f.pos p with
        | none => simp [hl] at h
        | some id =>
          simp only [hl] at h
          obtain ⟨c, hc, rfl⟩ := Supply.Fixed.deliver_spec h
          exact ⟨id, hl, hc⟩
  | mintFor g id o =>
    cases g <;> simp only [Supply.Fixed.step, if_true, Bool.false_eq_true, if_false] at h
    · cases h
    · obtain ⟨_, _, _, _, _, hd⟩ := Supply.Fixed.takeId_spec h
      obtain ⟨c, hc, rfl⟩ := Supply.Fixed.deliver_spec hd
      exact hc
  | shuffle g perm =>
    cases g <;> simp only [Supply.Fixed.step, if_true, Bool.false_eq_true, if_false] at h
    · cases h
    · obtain ⟨_, _, rfl⟩ := Supply.Fixed.shuffle_spec h
      rfl
  | purge g =>
    cases g <;> simp only [Supply.Fixed.step, if_true, Bool.false_eq_true, if_false] at h
    · cases h
    · unfold Supply.Fixed.purge at h
      split at h
      · cases h; rfl
      · cases h
  | burnRemaining g =>
    cases g <;> simp only [Supply.Fixed.step, if_true, Bool.false_eq_true, if_false] at h
    · cases h
    · obtain ⟨_, rfl⟩ := Supply.Fixed.burnAll_spec h
      rfl
  | collBurn g id =>
    cases g <;> simp only [Supply.Fixed.step, if_true, Bool.false_eq_true, if_false] at h
    · cases h
    · cases hb : f.coll.burn id with
      | none => simp [hb] at h
      | some c => simp [hb] at h; subst h; exact hb
  | collTransfer g id to =>
    cases g <;> simp only [Supply.Fixed.step, if_true, Bool.false_eq_true, if_false] at h
    · cases h
    · cases hb : f.coll.transfer id to with
      | none => simp [hb] at h
      | some c => simp [hb] at h; subst h; exact hb
  | noise g =>
    cases g <;> simp only [Supply.Fixed.step, if_true, Bool.false_eq_true, if_false] at h
    · cases h
    · cases h; rfl

/-! ## inversion of the `Sys2` handlers -/

theorem collExec_ok {s s' : State} {sender : Addr} {funds : List Coin} {msg : CF.ExecMsg}
    (h : collExec s sender funds msg = .ok s') :
    ∃ m c b1 core' b2, s.mc = some (m, c) ∧ s.bank.sendFunds sender c.self funds = some b1 ∧
      Sg721.exec c.core ⟨s.block, sender, funds, CF.toExec c.core s.block msg⟩ = .ok core' ∧
      MintPay.applyMsgs c.self b1 (CF.responseMsgs c.self funds msg) = some b2 ∧
      s' = { s with bank := b2, mc := some (m, { c with core := core' }) } := by
  unfold collExec at h
  split at h
  · cases h
  · rename_i mn c0 hmc
    split at h
    · cases h
    · rename_i q hq
      obtain ⟨c, b1, core', b2, hc, hb1, hcore, hb2, rfl⟩ := CF.exec_ok hq
      simp only [cfOf, hmc, Option.map_some, Option.some.injEq] at hc
      subst hc
      simp only at h
      cases h
      exact ⟨mn, c0, b1, core', b2, hmc, hb1, hcore, hb2, rfl⟩

theorem collExec_none {s : State} {sender : Addr} {funds : List Coin} {msg : CF.ExecMsg} (h : s.mc = none) :
    collExec s sender funds msg = .error .notFound := by
  simp [collExec, h]

/-- a message to the collection contract IS the `CF` step on `cfOf` (accepted or refused) -/
theorem cfOf_collExec (s : State) (sender : Addr) (funds : List Coin) (msg : CF.ExecMsg) :
    cfOf (match collExec s sender funds msg with | .ok s' => s' | .error _ => s) =
      CF.step' (cfOf s) (.exec sender funds msg) := by
  cases hmc : s.mc with
  | none =>
    rw [collExec_none hmc]
    have : CF.step (cfOf s) (.exec sender funds msg) = .error .notFound := by
      simp [CF.step, CF.exec, cfOf, hmc]
    rw [CF.step'_err this]
  | some mc =>
    obtain ⟨mn, c⟩ := mc
    cases hq : CF.exec (cfOf s) sender funds msg with
    | error e =>
      have : collExec s sender funds msg = .error e := by simp [collExec, hmc, hq]
      rw [this, CF.step'_err (show CF.step (cfOf s) (.exec sender funds msg) = .error e from hq)]
    | ok q =>
      obtain ⟨c0, b1, core', b2, hc, hb1, hcore, hb2, rfl⟩ := CF.exec_ok hq
      have : collExec s sender funds msg = .ok { s with bank := b2, mc := some (mn, { c0 with core := core' }) } := by
        simp [collExec, hmc, hq]
      rw [this, CF.step'_ok (show CF.step (cfOf s) (.exec sender funds msg) = .ok _ from hq)]
      simp [cfOf, State.block]

theorem collEnv_ok {s s' : State} {op : CF.Op} (h : collEnv s op = .ok s') :
    ∃ m c q c', s.mc = some (m, c) ∧ CF.step (cfOf s) op = .ok q ∧ q.coll = some c' ∧
      s' = { s with bank := q.bank, mc := some (m, c') } := by
  unfold collEnv at h
  split at h
  · cases h
  · rename_i mn c0 hmc
    split at h
    · cases h
    · rename_i q hq
      split at h
      · cases h
      · rename_i c' hc'
        cases h
        exact ⟨mn, c0, q, c', hmc, hq, hc', rfl⟩

/-- a minter sub-message (no funds, `Mint` or `UpdateStartTradingTime`) never moves coins -/
theorem runSub_ok {b : Sg721.Block} {bank bank' : MintPay.Bank} {minter : Addr} {c c' : CF.Coll} {msg : Option CF.ExecMsg}
    (h : runSub b bank minter c msg = .ok (bank', c')) :
    (msg = none ∧ bank' = bank ∧ c' = c) ∨
    ∃ m core', msg = some m ∧ Sg721.exec c.core ⟨b, minter, [], CF.toExec c.core b m⟩ = .ok core' ∧
      MintPay.applyMsgs c.self bank (CF.responseMsgs c.self [] m) = some bank' ∧ c' = { c with core := core' } := by
  unfold runSub at h
  cases msg with
  | none => cases h; exact Or.inl ⟨rfl, rfl, rfl⟩
  | some m =>
    right
    simp only at h
    split at h
    · cases h
    · rename_i q hq
      obtain ⟨c0, b1, core', b2, hc, hb1, hcore, hb2, rfl⟩ := CF.exec_ok hq
      simp only [Option.some.injEq] at hc
      subst hc
      simp only at h
      cases h
      have : b1 = bank := by
        simp only [MintPay.Bank.sendFunds] at hb1
        cases hb1; rfl
      subst this
      exact ⟨m, core', rfl, hcore, hb2, rfl⟩

theorem sysStep_ok {s s' : State} {op : Sys.Op} (h : sysStep s op = .ok s') :
    ∃ r, Sys.step (sysOf s) op = .ok r ∧
      ((s.mc = none ∧ s' = setSys s r r.bank none) ∨
       ∃ m c msg bank c', s.mc = some (m, c) ∧ subMsg m c (subOf op) = .ok msg ∧
         runSub s.block r.bank m.addr c msg = .ok (bank, c') ∧ s' = setSys s r bank (some c')) := by
  unfold sysStep at h
  split at h
  · cases h
  · rename_i r hr
    refine ⟨r, hr, ?_⟩
    split at h
    · rename_i hmc
      cases h
      exact Or.inl ⟨hmc, rfl⟩
    · rename_i m c hmc
      split at h
      · cases h
      · rename_i msg hmsg
        split at h
        · cases h
        · rename_i bank c' hrun
          cases h
          exact Or.inr ⟨m, c, msg, bank, c', hmc, hmsg, hrun, rfl⟩

end LP.Sys2

namespace LP.Sys2
open LP

/-! ## one minter-side step, seen from the `Sys` minter record -/

/-- the `Sys` ops that `step` hands to `sysStep` -/
def plainOp : Sys.Op → Bool
  | .minter o => (ifaceMsg o).isNone && !isCreate o
  | _ => true

/-- the `Supply.Fixed` step that goes with a sub-message kind -/
def SubFop : Sub → Supply.FOp → Prop
  | .mint rcpt (.at p), fop => fop = .mint true p rcpt
  | .mint rcpt (.id id), fop => fop = .mintFor true id rcpt
  | _, fop =>
    match fop with
    | .noise _ => True
    | .shuffle _ _ => True
    | .purge _ => True
    | .burnRemaining _ => True
    | _ => False

def SubTT (vm vm' : VF.Minter) : Sub → Prop
  | .mint _ _ => vm'.tt = vm.tt ∧ vm.tt.owner = some vm.addr
  | .trading t => vm.tt.updateTrading vm.addr t = .ok vm'.tt
  | .none => vm'.tt = vm.tt

theorem setVf_minter' (S : Sys.State) (c : VF.State) : (Sys.setVf S c).minter = c.minter := rfl

theorem ifaceMsg_collOwn (sender : Addr) (a : TT.OwnAction) : (ifaceMsg (.collOwn sender a)).isNone = false := by
  cases a <;> rfl

/-- **an accepted `Sys` step, seen from the minter record** (any op that is no collection-interface op and no `create`) -/
theorem sys_effect {S r : Sys.State} {vm : VF.Minter} {op : Sys.Op} (hp : plainOp op = true) (hm : S.minter = some vm)
    (h : Sys.step S op = .ok r) :
    ∃ vm', r.minter = some vm' ∧ vm'.addr = vm.addr ∧ vm'.sg721 = vm.sg721 ∧ vm'.admin = vm.admin ∧ vm'.v = vm.v ∧
      (∃ fop, vm.supply.step fop = some vm'.supply ∧ SubFop (subOf op) fop) ∧ SubTT vm vm' (subOf op) := by
  have hV : (Sys.vfOf S).minter = some vm := hm
  cases op with
  | minter o =>
    obtain ⟨hw, cst, hc, rfl⟩ := Sys.step_minter_ok h
    obtain ⟨vm', hm', hfop, htt, ha, hs, had, hv⟩ := vf_effect hV hc
    refine ⟨vm', by rw [setVf_minter']; exact hm', ha, hs, had, hv, ⟨fopOf o, hfop, ?_⟩, ?_⟩
    · cases o <;> (try simp only [plainOp, ifaceMsg_collOwn, Bool.false_and, Bool.false_eq_true] at hp) <;>
        simp [ifaceMsg, isCreate, Sys.witnessed] at hp hw <;> simp [subOf, fopOf, SubFop]
    · cases o <;> (try simp only [plainOp, ifaceMsg_collOwn, Bool.false_and, Bool.false_eq_true] at hp) <;>
        simp [ifaceMsg, isCreate, Sys.witnessed] at hp hw <;> simp only [ttEff] at htt <;>
        simp only [subOf, SubTT] <;> first | exact htt | (rw [← ha]; exact htt)
  | mint sender funds stage alloc proof picked =>
    obtain ⟨cst, hc, rfl⟩ := Sys.step_mint_ok h
    obtain ⟨vm', hm', hfop, htt, ha, hs, had, hv⟩ := vf_effect hV hc
    refine ⟨vm', by rw [setVf_minter']; exact hm', ha, hs, had, hv, ⟨_, hfop, ?_⟩, ?_⟩
    · simp [subOf, Sys.mintOp, fopOf, SubFop]
    · simpa [subOf, Sys.mintOp, ttEff, SubTT] using htt
  | wlInst v sender funds self m =>
    obtain ⟨_, q, w, _, _, _, rfl⟩ := Sys.step_wlInst_ok h
    exact ⟨vm, hm, rfl, rfl, rfl, rfl, ⟨.noise true, by simp [Supply.Fixed.step], by simp [subOf, SubFop]⟩, by simp [subOf, SubTT]⟩
  | wlExec k sender funds m =>
    obtain ⟨w, q, w', _, _, _, _, rfl⟩ := Sys.step_wlExec_ok h
    exact ⟨vm, hm, rfl, rfl, rfl, rfl, ⟨.noise true, by simp [Supply.Fixed.step], by simp [subOf, SubFop]⟩, by simp [subOf, SubTT]⟩

/-- before the minter exists, no op but `create` makes one -/
theorem vf_minter_none {s s' : VF.State} {op : VF.Op} (hm : s.minter = none) (hc : isCreate op = false)
    (h : VF.step s op = .ok s') : s'.minter = none := by
  open VF in
  cases op with
  | setTime t => simp only [VF.step] at h; split at h <;> cases h; exact hm
  | fund a c => simp only [VF.step] at h; cases h; exact hm
  | wlEnv k i => simp only [VF.step] at h; cases h; exact hm
  | sudoParams u => simp only [VF.step] at h; split at h <;> cases h; exact hm
  | instantiateDirect sender => simp [VF.step] at h
  | create sender funds msg w => simp [isCreate] at hc
  | mint _ _ _ _ _ => simp only [VF.step] at h; obtain ⟨m, h', _⟩ := withMinterS_ok h; rw [hm] at h'; cases h'
  | mintTo _ _ _ _ => simp only [VF.step] at h; obtain ⟨m, h', _⟩ := withMinterS_ok h; rw [hm] at h'; cases h'
  | mintFor _ _ _ _ => simp only [VF.step] at h; obtain ⟨m, h', _⟩ := withMinterS_ok h; rw [hm] at h'; cases h'
  | shuffle _ _ _ => simp only [VF.step] at h; obtain ⟨m, h', _⟩ := withMinterS_ok h; rw [hm] at h'; cases h'
  | setWhitelist _ _ _ _ => simp only [VF.step] at h; obtain ⟨m, _, h', _⟩ := withMinter_ok h; rw [hm] at h'; cases h'
  | purge _ _ => simp only [VF.step] at h; obtain ⟨m, _, h', _⟩ := withMinter_ok h; rw [hm] at h'; cases h'
  | updateMintPrice _ _ _ => simp only [VF.step] at h; obtain ⟨m, _, h', _⟩ := withMinter_ok h; rw [hm] at h'; cases h'
  | updateStartTime _ _ _ => simp only [VF.step] at h; obtain ⟨m, _, h', _⟩ := withMinter_ok h; rw [hm] at h'; cases h'
  | updateStartTradingTime _ _ _ => simp only [VF.step] at h; obtain ⟨m, _, h', _⟩ := withMinter_ok h; rw [hm] at h'; cases h'
  | updatePerAddressLimit _ _ _ => simp only [VF.step] at h; obtain ⟨m, _, h', _⟩ := withMinter_ok h; rw [hm] at h'; cases h'
  | burnRemaining _ _ => simp only [VF.step] at h; obtain ⟨m, _, h', _⟩ := withMinter_ok h; rw [hm] at h'; cases h'
  | updateDiscountPrice _ _ _ => simp only [VF.step] at h; obtain ⟨m, _, h', _⟩ := withMinter_ok h; rw [hm] at h'; cases h'
  | removeDiscountPrice _ _ => simp only [VF.step] at h; obtain ⟨m, _, h', _⟩ := withMinter_ok h; rw [hm] at h'; cases h'
  | sudoStatus _ _ _ => simp only [VF.step] at h; obtain ⟨m, _, h', _⟩ := withMinter_ok h; rw [hm] at h'; cases h'
  | collTransfer _ _ _ => simp only [VF.step] at h; obtain ⟨m, _, h', _⟩ := withMinter_ok h; rw [hm] at h'; cases h'
  | collBurn _ _ => simp only [VF.step] at h; obtain ⟨m, _, h', _⟩ := withMinter_ok h; rw [hm] at h'; cases h'
  | collTrading _ _ => simp only [VF.step] at h; obtain ⟨m, _, h', _⟩ := onColl_ok h; rw [hm] at h'; cases h'
  | collCreator _ _ => simp only [VF.step] at h; obtain ⟨m, _, h', _⟩ := onColl_ok h; rw [hm] at h'; cases h'
  | collFreeze _ => simp only [VF.step] at h; obtain ⟨m, _, h', _⟩ := onColl_ok h; rw [hm] at h'; cases h'
  | collOwn _ _ => simp only [VF.step] at h; obtain ⟨m, _, h', _⟩ := onColl_ok h; rw [hm] at h'; cases h'

theorem sys_minter_none {S r : Sys.State} {op : Sys.Op} (hp : plainOp op = true) (hm : S.minter = none)
    (h : Sys.step S op = .ok r) : r.minter = none := by
  cases op with
  | minter o =>
    obtain ⟨_, cst, hc, rfl⟩ := Sys.step_minter_ok h
    rw [setVf_minter']
    refine vf_minter_none (show (Sys.vfOf S).minter = none from hm) ?_ hc
    simp only [plainOp, Bool.and_eq_true, Bool.not_eq_true'] at hp
    exact hp.2
  | mint sender funds stage alloc proof picked =>
    obtain ⟨cst, hc, rfl⟩ := Sys.step_mint_ok h
    rw [setVf_minter']
    exact vf_minter_none (show (Sys.vfOf S).minter = none from hm) rfl hc
  | wlInst v sender funds self m =>
    obtain ⟨_, q, w, _, _, _, rfl⟩ := Sys.step_wlInst_ok h
    exact hm
  | wlExec k sender funds m =>
    obtain ⟨w, q, w', _, _, _, _, rfl⟩ := Sys.step_wlExec_ok h
    exact hm

end LP.Sys2

namespace LP.Sys2
open LP

/-! ## the view is exact: what the simplified interface computed IS the view of the collection contract's own result -/

theorem subMsg_mint_ok {m : Minter} {c : CF.Coll} {rcpt : Addr} {pk : VF.Pick} {msg : Option CF.ExecMsg}
    (h : subMsg m c (.mint rcpt pk) = .ok msg) :
    ∃ id, pickedId m.supply.pos pk = some id ∧ c.core.kind ≠ .onchain ∧ msg = some (.mint id rcpt (some (URI_BASE + id)) 0) := by
  simp only [subMsg] at h
  split at h
  · cases h
  · rename_i id hid
    unfold mintMsg at h
    by_cases hk : c.core.kind = .onchain
    · simp [hk] at h
    · simp only [hk, if_false] at h
      cases h
      exact ⟨id, hid, hk, rfl⟩

/-- the collection-side result of the sub-message has exactly the view the minter-side handler computed -/
theorem sub_exact {m : Minter} {c c' : CF.Coll} {vm' : VF.Minter} {b : Sg721.Block} {bank bank' : MintPay.Bank}
    {sub : Sub} {msg : Option CF.ExecMsg}
    (hfop : ∃ fop, (vmOf m c).supply.step fop = some vm'.supply ∧ SubFop sub fop) (htt : SubTT (vmOf m c) vm' sub)
    (hmsg : subMsg m c sub = .ok msg) (hrun : runSub b bank m.addr c msg = .ok (bank', c')) :
    vm'.supply.coll = tokView c'.core ∧ vm'.tt = ttView c'.core ∧ bank' = bank := by
  obtain ⟨fop, hstep, hsf⟩ := hfop
  have hcoll := fixed_step_coll hstep
  cases sub with
  | none =>
    simp only [subMsg, Except.ok.injEq] at hmsg
    subst hmsg
    rcases runSub_ok hrun with ⟨_, hb, hc⟩ | ⟨_, _, hx, _⟩
    · subst hb hc
      simp only [SubTT] at htt
      refine ⟨?_, htt, rfl⟩
      cases fop <;> simp only [SubFop] at hsf <;> simp only [fopColl] at hcoll <;> exact hcoll
    · cases hx
  | trading t =>
    simp only [subMsg, Except.ok.injEq] at hmsg
    subst hmsg
    rcases runSub_ok hrun with ⟨hx, _, _⟩ | ⟨mm, core', hx, hex, hb, rfl⟩
    · cases hx
    · cases hx
      have hsim := CF.msg_sim c.core core' b m.addr [] _ hex
      simp only [CF.ttMsg, ← ttView_eq] at hsim
      simp only [SubTT] at htt
      have h1 : (vmOf m c).tt.updateTrading (vmOf m c).addr t = .ok (ttView core') := hsim
      rw [h1] at htt
      obtain ⟨_, e⟩ := Sg721.exec_eff' hex
      simp only [CF.toExec] at e
      refine ⟨?_, (Except.ok.inj htt).symm, ?_⟩
      · have hv : vm'.supply.coll = (vmOf m c).supply.coll := by
          cases fop <;> simp only [SubFop] at hsf <;> simp only [fopColl] at hcoll <;> exact hcoll
        rw [hv]
        cases e
        rfl
      · simp only [CF.responseMsgs, MintPay.applyMsgs, Option.some.injEq] at hb
        exact hb.symm
  | mint rcpt pk =>
    obtain ⟨id, hid, hk, rfl⟩ := subMsg_mint_ok hmsg
    rcases runSub_ok hrun with ⟨hx, _, _⟩ | ⟨mm, core', hx, hex, hb, rfl⟩
    · cases hx
    · cases hx
      have hsim := CF.msg_sim c.core core' b m.addr [] _ hex
      simp only [CF.ttMsg, ← ttView_eq] at hsim
      simp only [SubTT] at htt
      obtain ⟨_, e⟩ := Sg721.exec_eff' hex
      simp only [CF.toExec] at e
      have hview : (tokView c.core).mint id rcpt = some (tokView core') := by
        cases e with
        | mint _ _ _ _ _ _ hnone => exact view_mint c.core id rcpt _ _ hnone
      refine ⟨?_, by rw [htt.1, hsim]; rfl, ?_⟩
      · have hm : (vmOf m c).supply.coll.mint id rcpt = some vm'.supply.coll := by
          cases pk with
          | «at» p =>
            simp only [SubFop] at hsf
            subst hsf
            simp only [fopColl] at hcoll
            obtain ⟨id', hl, hmint⟩ := hcoll
            have : id' = id := by
              simp only [pickedId] at hid
              have hl' : Supply.lookupPos m.supply.pos p = some id' := hl
              rw [hl'] at hid
              exact Option.some.inj hid
            subst this
            exact hmint
          | id i =>
            simp only [SubFop] at hsf
            subst hsf
            simp only [fopColl] at hcoll
            simp only [pickedId, Option.some.injEq] at hid
            subst hid
            exact hcoll
        have hm' : (tokView c.core).mint id rcpt = some vm'.supply.coll := hm
        rw [hview] at hm'
        exact (Option.some.inj hm').symm
      · simp only [CF.responseMsgs, MintPay.applyMsgs, Option.some.injEq] at hb
        exact hb.symm

/-- **the view is exact, minter side**: an accepted `Sys2` step of a minter / whitelist / clock op IS the accepted `Sys` step
on the view — the state the simplified interface computed is the view of the post-state, whose collection component was
computed by the collection contract itself -/
theorem sysStep_exact {s s' : State} {op : Sys.Op} (hp : plainOp op = true) (h : sysStep s op = .ok s') :
    Sys.step (sysOf s) op = .ok (sysOf s') := by
  obtain ⟨r, hr, hcase⟩ := sysStep_ok h
  rw [hr]
  congr 1
  rcases hcase with ⟨hmc, rfl⟩ | ⟨m, c, msg, bank, c', hmc, hmsg, hrun, rfl⟩
  · exact (sysOf_setSys_none s r (sys_minter_none hp (sysOf_minter_none hmc) hr)).symm
  · obtain ⟨vm', hm', _, _, _, _, hfop, htt⟩ := sys_effect hp (sysOf_minter_some hmc) hr
    obtain ⟨h1, h2, hb⟩ := sub_exact hfop htt hmsg hrun
    subst hb
    exact (sysOf_setSys s r vm' c' hm' h1 h2).symm

end LP.Sys2

namespace LP.Sys2
open LP

/-! ## `CreateMinter` -/

theorem ttKind_cfKind (k : TT.CollKind) : ttKind (cfKind k) = k := by cases k <;> rfl

/-- what `Sg721.instantiate` writes -/
theorem sg_instantiate_ok {k : Sg721.Kind} {b : Sg721.Block} {sender : Addr} {funds : List Coin} {m : Sg721.InstMsg}
    {core : Sg721.State} (h : Sg721.instantiate k b sender funds m = .ok core) :
    core.kind = k ∧ core.tokens = [] ∧ core.count = 0 ∧ core.ownership = ⟨some m.minter, none, none⟩ ∧ core.info = m.info ∧
      core.frozenInfo = false := by
  simp only [Sg721.instantiate, Sg721.ensure_ok, Except.ok.injEq] at h
  obtain ⟨_, _, _, _, _, _, _, _, rfl⟩ := h
  exact ⟨rfl, rfl, rfl, rfl, rfl, rfl⟩

theorem create_ok {s s' : State} {sender : Addr} {funds : List Coin} {msg : VF.CreateMsg} {w : VF.CreateWit} {ci : CollInit}
    (h : create s sender funds msg w ci = .ok s') :
    ∃ r vm q, Sys.step (sysOf s) (.minter (.create sender funds { msg with collOk := true } w)) = .ok r ∧
      r.minter = some vm ∧
      CF.instantiate ⟨s.block, r.bank, none⟩ (cfKind vm.tt.kind) vm.addr [] ci.name ci.symbol
        (instMsg vm.addr msg.creator vm.tt.trading ci) vm.sg721 = .ok q ∧
      s' = setSys s r q.bank q.coll := by
  unfold create at h
  split at h
  · cases h
  · rename_i r hr
    split at h
    · cases h
    · rename_i vm hvm
      split at h
      · cases h
      · rename_i q hq
        cases h
        exact ⟨r, vm, q, hr, hvm, hq, rfl⟩

/-- the pieces of an accepted `CreateMinter` -/
theorem create_parts {s s' : State} {sender : Addr} {funds : List Coin} {msg : VF.CreateMsg} {w : VF.CreateWit} {ci : CollInit}
    (h : create s sender funds msg w ci = .ok s') :
    ∃ r vm core ck trading sup,
      Sys.step (sysOf s) (.minter (.create sender funds { msg with collOk := true } w)) = .ok r ∧ r.minter = some vm ∧
      s.mc = none ∧
      Supply.Fixed.init msg.numTokens w.perm = some sup ∧ vm.supply = sup ∧
      vm.tt = TT.Coll.init ck w.minterAddr msg.creator trading ∧ vm.addr = w.minterAddr ∧ vm.sg721 = w.collAddr ∧
      vm.admin = msg.creator ∧
      VF.createTrading (Sys.vfOf (sysOf s)) { msg with collOk := true } = .ok trading ∧
      Sg721.instantiate (cfKind ck) s.block w.minterAddr [] (instMsg w.minterAddr msg.creator trading ci) = .ok core ∧
      s' = setSys s r r.bank (some { core := core, self := w.collAddr, name := ci.name, symbol := ci.symbol, legacy := none }) := by
  obtain ⟨r, vm, q, hr, hvm, hq, rfl⟩ := create_ok h
  obtain ⟨_, cst, hc, rfl⟩ := Sys.step_minter_ok hr
  simp only [VF.step] at hc
  obtain ⟨b1, ms, b2, v, m0, hnone, _, _, _, _, hinst, rfl⟩ := VF.createMinter_ok hc
  obtain ⟨wl, trading, sup, ck, _, _, _, _, _, htr, _, hsup, _, _, rfl⟩ := VF.instantiateMinter_ok hinst
  simp only [setVf_minter', Option.some.injEq] at hvm
  subst hvm
  obtain ⟨b1', core, _, hb1', hcore, rfl⟩ := CF.instantiate_ok hq
  simp only [MintPay.Bank.sendFunds, Option.some.injEq] at hb1'
  subst hb1'
  have hmc : s.mc = none := by
    have : (sysOf s).minter = none := hnone
    cases hm : s.mc with
    | none => rfl
    | some x => simp [sysOf, hm] at this
  exact ⟨_, _, core, ck, trading, sup, hr, rfl, hmc, hsup, rfl, rfl, rfl, rfl, rfl, htr, hcore, rfl⟩

/-- **the view is exact, `CreateMinter`**: the accepted `Sys2` creation IS the accepted `Sys` creation on the view (with the
flag `collOk` — which the simplified interface took from outside — true because the collection's own `instantiate` accepted) -/
theorem create_exact {s s' : State} {sender : Addr} {funds : List Coin} {msg : VF.CreateMsg} {w : VF.CreateWit} {ci : CollInit}
    (h : create s sender funds msg w ci = .ok s') :
    Sys.step (sysOf s) (.minter (.create sender funds { msg with collOk := true } w)) = .ok (sysOf s') := by
  obtain ⟨r, vm, core, ck, trading, sup, hr, hvm, _, hsup, hs, htt, ha, _, _, _, hcore, rfl⟩ := create_parts h
  rw [hr]
  congr 1
  symm
  refine sysOf_setSys s r vm _ hvm ?_ ?_
  · obtain ⟨_, ht, hc, _⟩ := sg_instantiate_ok hcore
    obtain ⟨_, hsup'⟩ := Supply.Fixed.init_spec hsup
    rw [hs, hsup']
    simp [tokView, ht, hc, Supply.Coll.empty]
  · obtain ⟨hk, _, _, ho, hi, hf⟩ := sg_instantiate_ok hcore
    rw [htt]
    simp [ttView, TT.Coll.init, hk, ho, hi, hf, ttKind_cfKind, instMsg]

end LP.Sys2

namespace LP.Sys2
open LP

/-! ## migrations and the stored version, seen through the view -/

/-- the collection contract of a reachable state: ids duplicate-free, no cw721-0.16 `minter` item -/
def Good (s : State) : Prop := ∀ m c, s.mc = some (m, c) → c.core.ids.Nodup ∧ c.legacy = none

theorem admin_view {c c' : Sg721.State} {op : Sg721.Op} (a : Sg721.AdminEff c op c') :
    tokView c' = tokView c ∧ c'.ids = c.ids ∧ c'.ownership = c.ownership ∧
      ttView c' = { ttView c with kind := ttKind c'.kind } := by
  obtain ⟨h1, h2, _, h4, h5, h6⟩ := Sg721.admin_frame a
  refine ⟨by simp [tokView, h1, h2], by simp [Sg721.State.ids, h1], h4, ?_⟩
  simp [ttView, h4, h5, h6]

theorem okOf_ok {α : Type} {x : Except Err α} {a : α} (h : CF.okOf x = CF.okOf (.ok a)) : x = .ok a := by
  cases x with
  | ok b => simp only [CF.okOf, Option.some.injEq] at h; rw [h]
  | error e => simp [CF.okOf] at h

/-- an accepted migration to the sg721-updatable code: tokens, ownership, info untouched; the kind becomes `updatable` -/
theorem migrateUpdatable_view {c c' : CF.Coll} {now : Nat} (hl : c.legacy = none) (h : CF.migrateUpdatable c now = .ok c') :
    tokView c'.core = tokView c.core ∧ c'.core.ids = c.core.ids ∧ c'.core.ownership = c.core.ownership ∧
      ttView c'.core = { ttView c.core with kind := .updatable } ∧ c'.legacy = none ∧ c'.self = c.self := by
  have hcore := CF.migrateUpdatable_core c now hl
  rw [h] at hcore
  have hm : Sg721.migrateToUpdatable c.core now = .ok c'.core := okOf_ok hcore.symm
  have hstep : Sg721.step c.core (.migrate .updatable now) = .ok c'.core := hm
  rcases Sg721.step_cases hstep with ⟨_, hx, _⟩ | a
  · cases hx
  · obtain ⟨h1, h2, h3, h4⟩ := admin_view a
    have hk := (CF.migrateUpdatable_ver h).1
    rw [hk] at h4
    refine ⟨h1, h2, h3, h4, CF.migrateUpdatable_legacy hl h, ?_⟩
    -- `self` is never written
    rcases c with ⟨⟨kind, toks, cnt, ops, own, info, fz, rua, fm, upd, ver⟩, self, nm, sym, leg⟩
    simp only at hl; subst hl
    unfold CF.migrateUpdatable CF.upgradeRoyalty CF.upgradeOwnership at h
    generalize Sg721.UPD_EARLIEST = ue at h
    generalize Sg721.codeVersion Sg721.Kind.updatable = code at h
    generalize Sg721.V_3_0_0 = v30 at h
    generalize Sg721.V_3_1_0 = v31 at h
    generalize Sg721.DAY_NS = day at h
    by_cases h3 : ver = code
    · subst h3
      by_cases h1 : ver < ue <;> by_cases h2 : ver < ver <;> by_cases h4 : ver < v30 <;>
        by_cases h5 : ver < v31 <;> by_cases h6 : now < day <;> cases kind <;> simp [*] at h
      all_goals subst h
      all_goals rfl
    · by_cases h1 : ver < ue <;> by_cases h2 : code < ver <;> by_cases h4 : ver < v30 <;>
        by_cases h5 : ver < v31 <;> by_cases h6 : now < day <;> cases kind <;> simp [*] at h
      all_goals subst h
      all_goals rfl

end LP.Sys2

namespace LP.Sys2
open LP

theorem migrateOnchain_view {c c' : CF.Coll} (hl : c.legacy = none) (h : CF.migrateOnchain c = .ok c') :
    c' = c ∨ ∃ v, c' = { c with core := { c.core with ver := v } } := by
  unfold CF.migrateOnchain at h
  dsimp only at h
  split at h
  · cases h
  · split at h
    · cases h
    · split at h
      · cases h; exact Or.inl rfl
      · split at h
        · rw [CF.upgradeOwnership_none (by exact hl)] at h; cases h
        · cases h; exact Or.inr ⟨_, rfl⟩

/-- an accepted migration to the code the collection already runs: nothing the simplified interface sees changes -/
theorem migrateSelf_view {c c' : CF.Coll} {now : Nat} (hl : c.legacy = none) (h : CF.migrateSelf c now = .ok c') :
    tokView c'.core = tokView c.core ∧ c'.core.ids = c.core.ids ∧ c'.core.ownership = c.core.ownership ∧
      ttView c'.core = ttView c.core ∧ c'.legacy = none ∧ c'.self = c.self := by
  unfold CF.migrateSelf at h
  split at h
  · cases h
  · rename_i hk
    obtain ⟨h1, h2, h3, h4, h5, h6⟩ := migrateUpdatable_view hl h
    refine ⟨h1, h2, h3, ?_, h5, h6⟩
    rw [h4]
    simp [ttView, hk, ttKind]
  · rcases migrateOnchain_view hl h with rfl | ⟨v, rfl⟩
    · exact ⟨rfl, rfl, rfl, rfl, hl, rfl⟩
    · exact ⟨rfl, rfl, rfl, rfl, hl, rfl⟩
  · rw [CF.migrateNt_err] at h; cases h

/-- inversion of the three chain-level / environment steps of the collection -/
theorem collEnv_parts {s s' : State} {op : CF.Op} (h : collEnv s op = .ok s')
    (hop : op = .migrateUpdatable ∨ op = .migrateSelf ∨ ∃ v, op = .setVersion v) :
    ∃ m c c', s.mc = some (m, c) ∧ s' = { s with mc := some (m, c') } ∧
      ((op = .migrateUpdatable ∧ CF.migrateUpdatable c s.now = .ok c') ∨
       (op = .migrateSelf ∧ CF.migrateSelf c s.now = .ok c') ∨
       (∃ v, op = .setVersion v ∧ c' = { c with core := { c.core with ver := v } })) := by
  obtain ⟨m, c, q, c', hmc, hq, hc', rfl⟩ := collEnv_ok h
  have hcoll : (cfOf s).coll = some c := by simp [cfOf, hmc]
  rcases hop with rfl | rfl | ⟨v, rfl⟩
  · simp only [CF.step] at hq
    obtain ⟨c0, c1, hc0, hf, rfl⟩ := CF.onColl_ok hq
    rw [hcoll] at hc0; cases hc0
    simp only [Option.some.injEq] at hc'; subst hc'
    exact ⟨m, c, c1, hmc, rfl, Or.inl ⟨rfl, hf⟩⟩
  · simp only [CF.step] at hq
    obtain ⟨c0, c1, hc0, hf, rfl⟩ := CF.onColl_ok hq
    rw [hcoll] at hc0; cases hc0
    simp only [Option.some.injEq] at hc'; subst hc'
    exact ⟨m, c, c1, hmc, rfl, Or.inr (Or.inl ⟨rfl, hf⟩)⟩
  · simp only [CF.step] at hq
    obtain ⟨c0, c1, hc0, hf, rfl⟩ := CF.onColl_ok hq
    rw [hcoll] at hc0; cases hc0
    simp only [Option.some.injEq] at hc'; subst hc'
    cases hf
    exact ⟨m, c, _, hmc, rfl, Or.inr (Or.inr ⟨v, rfl, rfl⟩)⟩

end LP.Sys2
