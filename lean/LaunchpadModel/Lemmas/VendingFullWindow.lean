import LaunchpadModel.Lemmas.VendingFull
import LaunchpadModel.Lemmas.SaleWindow
/-!
# Composite ⟶ C04 aspect model (`LP.SaleWindow`), part 1: a whitelist that realises the interface answers

The C04 aspect model carries whitelists as STRUCTURES (kind, stages with windows, member lists, committed Merkle leaves) and
computes activity / membership / prices from them; the composite model only knows what a whitelist ANSWERS right now
(`WlInfo`, `SenderView`).  `synthWl` builds, for given answers and the current time, a structural whitelist whose computed
answers are exactly those.  The translation (part 2) refreshes the aspect world's whitelist pool with it (`Op.wlEnv`) right
before every op that reads it.
-/
namespace LP.VF
open LP
open LP.SaleWindow (Wl Stage Leaf ProofArg WlConfig)

def swKind : MintLimits.WlKind → SaleWindow.WlKind
  | .plain => .plain | .flex => .flex | .tiered => .tiered | .tieredFlex => .tieredFlex
  | .merkle => .merkle | .tieredMerkle => .tieredMerkle | .immutable => .immutable

def swShape : MintLimits.Flavor → SaleWindow.Shape
  | .plain => .plain | .flex => .flex | .merkle => .merkle

def swVariant (v : Variant) : SaleWindow.Variant := ⟨.vending, swShape v.flavor⟩

theorem swKind_isTiered (k : MintLimits.WlKind) : (swKind k).isTiered = k.tieredName := by cases k <;> rfl

theorem swKind_isMerkle (k : MintLimits.WlKind) : (swKind k).isMerkle = k.answersHasMemberProof := by cases k <;> rfl

/-- the two tables of "which `Config {}` answer parses in which minter" agree -/
theorem configParses_eq (fl : MintLimits.Flavor) (k : MintLimits.WlKind) :
    SaleWindow.configParses (swShape fl) (swKind k) = MintLimits.configOk fl k := by
  cases fl <;> cases k <;> rfl

/-- … and so do the tables for `Stage {}` -/
theorem stageParses_eq (fl : MintLimits.Flavor) (k : MintLimits.WlKind) :
    SaleWindow.stageParses (swShape fl) (swKind k) = MintLimits.stageOk fl k := by
  cases fl <;> cases k <;> rfl

/-- a stage whose window does not contain `now` under either interval convention -/
def deadStage (now price perAddr : Nat) : Stage :=
  { start := now + 1, stop := 0, price := price, perAddr := perAddr, countLimit := none, members := [], leaves := [] }

/-- a stage whose window contains `now` under both conventions -/
def liveStage (i : WlInfo) (now : Nat) (members : List (Addr × Nat)) (leaves : List Leaf) : Stage :=
  { start := 0, stop := now + 1, price := i.price.amount, perAddr := i.limit, countLimit := i.stageLimit,
    members := members, leaves := leaves }

def deadN (now : Nat) : Nat → List Stage
  | 0 => []
  | n + 1 => deadStage now 0 0 :: deadN now n

/-- number of (expired / not yet started) stages in front of the active one -/
def liveIdx (i : WlInfo) : Nat := if i.kind.tieredName then i.stageId - 1 else 0

def synthStages (i : WlInfo) (now : Nat) (members : List (Addr × Nat)) (leaves : List Leaf) : List Stage :=
  if i.active then deadN now (liveIdx i) ++ [liveStage i now members leaves]
  else [deadStage now i.price.amount i.limit]

/-- `none` (no whitelist contract at the address): a whitelist-immutable, whose answers no vending minter can read -/
def synthWl (i : Option WlInfo) (now : Nat) (members : List (Addr × Nat)) (leaves : List Leaf) : Wl :=
  match i with
  | none => { kind := .immutable, denom := NATIVE, stages := [] }
  | some i => { kind := swKind i.kind, denom := i.price.denom, stages := synthStages i now members leaves }

theorem dead_not_active (t : Bool) (now p q : Nat) : (deadStage now p q).activeAt t now = false := by
  have h : ¬ now + 1 ≤ now := by omega
  cases t <;> simp [Stage.activeAt, deadStage, h]

theorem live_active (t : Bool) (i : WlInfo) (now : Nat) (ms : List (Addr × Nat)) (ls : List Leaf) :
    (liveStage i now ms ls).activeAt t now = true := by
  cases t <;> simp [Stage.activeAt, liveStage]

theorem find_deadN (t : Bool) (now n : Nat) (l : List Stage) :
    (deadN now n ++ l).find? (fun st => st.activeAt t now) = l.find? (fun st => st.activeAt t now) := by
  induction n with
  | zero => rfl
  | succ n ih => simp [deadN, dead_not_active, ih]

theorem findIdx_deadN (t : Bool) (now n : Nat) (l : List Stage) :
    (deadN now n ++ l).findIdx? (fun st => st.activeAt t now) =
      (l.findIdx? (fun st => st.activeAt t now)).map (· + n) := by
  induction n with
  | zero => simp [deadN]
  | succ n ih =>
    simp only [deadN, List.cons_append, List.findIdx?_cons, dead_not_active, Bool.false_eq_true, if_false, ih,
      Option.map_map]
    cases (l.findIdx? (fun st => st.activeAt t now)) with
    | none => rfl
    | some x => simp only [Option.map_some, Function.comp, Option.some.injEq]; omega

theorem getElem_deadN (now n : Nat) (x : Stage) : (deadN now n ++ [x])[n]? = some x := by
  induction n with
  | zero => rfl
  | succ n ih => simpa [deadN] using ih

/-! ## what the synthesised whitelist answers -/

theorem synth_activeStage (i : WlInfo) (now : Nat) (ms : List (Addr × Nat)) (ls : List Leaf) :
    (synthWl (some i) now ms ls).activeStage now = if i.active then some (liveStage i now ms ls) else none := by
  unfold Wl.activeStage synthWl synthStages
  simp only [swKind_isTiered]
  by_cases ha : i.active = true
  · simp only [ha, if_true]
    by_cases ht : i.kind.tieredName = true
    · simp only [ht, if_true]
      rw [find_deadN]
      simp [live_active]
    · have ht' : i.kind.tieredName = false := by cases h : i.kind.tieredName <;> simp_all
      simp only [ht', Bool.false_eq_true, if_false, liveIdx, deadN, List.nil_append]
      simp [live_active]
  · have ha' : i.active = false := by cases h : i.active <;> simp_all
    simp only [ha', Bool.false_eq_true, if_false]
    by_cases ht : i.kind.tieredName = true
    · simp [ht, dead_not_active]
    · have ht' : i.kind.tieredName = false := by cases h : i.kind.tieredName <;> simp_all
      simp [ht', dead_not_active]

theorem synth_activeIdx (i : WlInfo) (now : Nat) (ms : List (Addr × Nat)) (ls : List Leaf) :
    (synthWl (some i) now ms ls).activeIdx now = if i.active then some (liveIdx i) else none := by
  unfold Wl.activeIdx synthWl synthStages
  simp only [swKind_isTiered]
  by_cases ha : i.active = true
  · simp only [ha, if_true]
    by_cases ht : i.kind.tieredName = true
    · simp only [ht, if_true]
      rw [findIdx_deadN]
      simp [List.findIdx?_cons, live_active]
    · have ht' : i.kind.tieredName = false := by cases h : i.kind.tieredName <;> simp_all
      simp only [ht', Bool.false_eq_true, if_false, liveIdx, deadN, List.nil_append]
      simp [live_active]
  · have ha' : i.active = false := by cases h : i.active <;> simp_all
    simp only [ha', Bool.false_eq_true, if_false]
    by_cases ht : i.kind.tieredName = true
    · simp [ht, List.findIdx?_cons, dead_not_active]
    · have ht' : i.kind.tieredName = false := by cases h : i.kind.tieredName <;> simp_all
      simp [ht', dead_not_active]

/-- `Config {}` of the synthesised whitelist = the interface's answers -/
theorem synth_config (i : WlInfo) (now : Nat) (ms : List (Addr × Nat)) (ls : List Leaf) :
    (synthWl (some i) now ms ls).config now = ⟨i.active, i.price, i.limit⟩ := by
  unfold Wl.config
  rw [synth_activeStage]
  by_cases ha : i.active = true
  · simp [ha, liveStage, synthWl]
  · have ha' : i.active = false := by cases h : i.active <;> simp_all
    simp only [ha', Bool.false_eq_true, if_false]
    simp only [synthWl, synthStages, ha', Bool.false_eq_true, if_false, deadStage, List.getLast?_nil,
      Option.getD_none]
    by_cases ht : (swKind i.kind).isTiered = true
    · simp [ht]
    · simp [ht]

theorem synth_kind (i : WlInfo) (now : Nat) (ms : List (Addr × Nat)) (ls : List Leaf) :
    (synthWl (some i) now ms ls).kind = swKind i.kind := rfl

/-- `HasMember {member}` with `members := [(a, c)]` / `[]` -/
theorem synth_hasMemberPlain (i : WlInfo) (now : Nat) (a : Addr) (c : Nat) (mem : Bool) (ls : List Leaf)
    (hact : i.active = true) (hans : i.kind.answersHasMember = true) :
    (synthWl (some i) now (if mem then [(a, c)] else []) ls).hasMemberPlain now a = .ok mem := by
  unfold Wl.hasMemberPlain
  have hk := synth_kind i now (if mem then [(a, c)] else []) ls
  have hst := synth_activeStage i now (if mem then [(a, c)] else []) ls
  simp only [hact, if_true] at hst
  have hhead : (synthWl (some i) now (if mem then [(a, c)] else []) ls).stages.head? =
      some (liveStage i now (if mem then [(a, c)] else []) ls) ∨ i.kind.tieredName = true := by
    by_cases ht : i.kind.tieredName = true
    · exact Or.inr ht
    · left
      have ht' : i.kind.tieredName = false := by cases h : i.kind.tieredName <;> simp_all
      simp [synthWl, synthStages, hact, liveIdx, ht', deadN]
  have hm : (liveStage i now (if mem then [(a, c)] else []) ls).hasMember a = mem := by
    cases mem <;> simp [Stage.hasMember, liveStage]
  rw [hk]
  cases hkind : i.kind <;> simp [hkind, MintLimits.WlKind.answersHasMember] at hans <;> simp only [swKind]
  · rcases hhead with hh | hh
    · rw [hh]; simp [hm]
    · simp [hkind, MintLimits.WlKind.tieredName] at hh
  · rcases hhead with hh | hh
    · rw [hh]; simp [hm]
    · simp [hkind, MintLimits.WlKind.tieredName] at hh
  · rw [hst]; simp [hm]
  · rw [hst]; simp [hm]

/-- flex `Member {member}.mint_count` -/
theorem synth_memberCount (i : WlInfo) (now : Nat) (a : Addr) (c : Nat) (ls : List Leaf) :
    (liveStage i now [(a, c)] ls).memberCount a = some c := by
  simp [Stage.memberCount, liveStage]

/-- the proof argument presented to the aspect model for a composite mint -/
def proofArg (k idx : Nat) (claim : Leaf) (presented leafOk : Bool) : ProofArg :=
  if presented then (if leafOk then .forLeaf k idx claim else .junk) else .absent

/-- Merkle `HasMember {member, proof_hashes}` with `leaves := [claim]` / `[]` -/
theorem synth_hasMemberProof (i : WlInfo) (now k : Nat) (claim : Leaf) (leafOk : Bool) (ms : List (Addr × Nat))
    (hact : i.active = true) (hans : i.kind.answersHasMemberProof = true) :
    (synthWl (some i) now ms (if leafOk then [claim] else [])).hasMemberProof k now claim
        (proofArg k (liveIdx i) claim true leafOk) = .ok leafOk := by
  unfold Wl.hasMemberProof proofArg
  have hne : (if leafOk = true then ProofArg.forLeaf k (liveIdx i) claim else ProofArg.junk) ≠ ProofArg.malformed := by
    cases leafOk <;> simp
  simp only [if_true, hne, if_false]
  have hidx := synth_activeIdx i now ms (if leafOk then [claim] else [])
  simp only [hact, if_true] at hidx
  rw [synth_kind]
  cases hkind : i.kind <;> simp [hkind, MintLimits.WlKind.answersHasMemberProof] at hans <;> simp only [swKind]
  · -- merkle: single stage
    have hhead : (synthWl (some i) now ms (if leafOk then [claim] else [])).stages.head? =
        some (liveStage i now ms (if leafOk then [claim] else [])) := by
      simp [synthWl, synthStages, hact, liveIdx, hkind, MintLimits.WlKind.tieredName, deadN]
    rw [hhead]
    have hl : liveIdx i = 0 := by simp [liveIdx, hkind, MintLimits.WlKind.tieredName]
    cases leafOk <;> simp [SaleWindow.verifies, liveStage, hl]
  · -- tiered merkle: the active stage
    rw [hidx]
    have hget : (synthWl (some i) now ms (if leafOk then [claim] else [])).stages[liveIdx i]? =
        some (liveStage i now ms (if leafOk then [claim] else [])) := by
      simp only [synthWl, synthStages, hact, if_true]
      exact getElem_deadN _ _ _
    simp only [hget]
    cases leafOk <;> simp [SaleWindow.verifies, liveStage]

end LP.VF
