import LaunchpadModel.Model.BaseFull
/-!
# Inversion lemmas for the composite base-family model `LP.BF` (one per handler) — same shape as `Lemmas/OpenEditionFull.lean`
-/
namespace LP.BF
open LP

macro "bpeel " h:ident : tactic => `(tactic| (split at $h:ident <;> try contradiction))

theorem step'_ok {s s' : State} {op : Op} (h : step s op = .ok s') : step' s op = s' := by simp [step', h]
theorem step'_err {s : State} {op : Op} {e : Err} (h : step s op = .error e) : step' s op = s := by simp [step', h]

theorem step'_cases (s : State) (op : Op) :
    (∃ s', step s op = .ok s' ∧ step' s op = s') ∨ ((∃ e, step s op = .error e) ∧ step' s op = s) := by
  cases h : step s op with
  | ok s' => exact Or.inl ⟨s', rfl, step'_ok h⟩
  | error e => exact Or.inr ⟨⟨e, rfl⟩, step'_err h⟩

/-- the composite's own verdict on a message: the witness every aspect op's "all other checks passed" flag receives -/
def accepted (s : State) (op : Op) : Bool :=
  match step s op with
  | .ok _ => true
  | .error _ => false

theorem accepted_of_ok {s s' : State} {op : Op} (h : step s op = .ok s') : accepted s op = true := by
  simp [accepted, h]

theorem accepted_of_err {s : State} {op : Op} {e : Err} (h : step s op = .error e) : accepted s op = false := by
  simp [accepted, h]

theorem run_cons (s : State) (op : Op) (ops : List Op) : run s (op :: ops) = run (step' s op) ops := rfl

theorem run_append (s : State) (a b : List Op) : run s (a ++ b) = run (run s a) b := by
  simp [run, List.foldl_append]

theorem run_inv (P : State → Prop) (hstep : ∀ s op, P s → P (step' s op)) (s : State) (h0 : P s) (ops : List Op) :
    P (run s ops) := by
  induction ops generalizing s with
  | nil => exact h0
  | cons op ops ih => exact ih _ (hstep s op h0)

theorem nonpayable_ok {funds : List Coin} (h : nonpayable funds = .ok ()) : funds = [] := by
  unfold nonpayable at h
  split at h
  · rename_i he; simpa using he
  · cases h

theorem withMinter_ok {s s' : State} {f : Minter → Except Err Minter} (h : withMinter s f = .ok s') :
    ∃ m m', s.minter = some m ∧ f m = .ok m' ∧ s' = { s with minter := some m' } := by
  unfold withMinter at h
  bpeel h
  rename_i m hm
  bpeel h
  rename_i m' hf
  cases h
  exact ⟨m, m', hm, hf, rfl⟩

theorem withMinterS_ok {s s' : State} {f : Minter → Except Err State} (h : withMinterS s f = .ok s') :
    ∃ m, s.minter = some m ∧ f m = .ok s' := by
  unfold withMinterS at h
  bpeel h
  rename_i m hm
  exact ⟨m, hm, h⟩

theorem onColl_ok {s s' : State} {f : TT.Coll → Except Err TT.Coll} (h : onColl s f = .ok s') :
    ∃ m c, s.minter = some m ∧ f m.tt = .ok c ∧ s' = { s with minter := some { m with tt := c } } := by
  unfold onColl at h
  obtain ⟨m, m', hm, hf, rfl⟩ := withMinter_ok h
  bpeel hf
  rename_i c hc
  cases hf
  exact ⟨m, c, hm, hc, rfl⟩

/-! ## mint -/

theorem mintMsgs_ok {p : Params} {m : Minter} {funds : List Coin} {ms : List Msg} (h : mintMsgs p m funds = .ok ms) :
    mustPay funds NATIVE = .ok (networkFee p m) ∧ Sg1.checkedFairBurn funds m.addr (networkFee p m) none = .ok ms := by
  unfold mintMsgs at h
  bpeel h
  rename_i sent hs
  bpeel h
  rename_i heq
  have : networkFee p m = sent := by simpa using heq
  exact ⟨by rw [this]; exact hs, h⟩

theorem mint_ok {s s' : State} {m : Minter} {sender : Addr} {funds : List Coin} {uri : Nat} {uriOk : Bool}
    (h : mint s m sender funds uri uriOk = .ok s') :
    ∃ b1 ms sq b2,
      s.bank.sendFunds sender m.addr funds = some b1 ∧ m.tt.creator = sender ∧ uriOk = true ∧
      mintMsgs s.params m funds = .ok ms ∧ m.tt.owner = some m.addr ∧ mintParses m.v.coll = true ∧
      m.seq.mint sender = some sq ∧ MintPay.applyMsgs m.addr b1 ms = some b2 ∧
      s' = { s with bank := b2, minter := some { m with seq := sq, uris := (sq.tokenIndex, uri) :: m.uris } } := by
  unfold mint at h
  bpeel h
  rename_i b1 hb1
  bpeel h
  rename_i hcr
  bpeel h
  rename_i huri
  bpeel h
  rename_i ms hms
  bpeel h
  rename_i how
  bpeel h
  rename_i hparse
  bpeel h
  rename_i sq hsq
  bpeel h
  rename_i b2 hb2
  refine ⟨b1, ms, sq, b2, hb1, by simpa using hcr, ?_, hms, by simpa using how, ?_, hsq, hb2, by cases h; rfl⟩
  · cases hu : uriOk <;> simp_all
  · cases hu : mintParses m.v.coll <;> simp_all

theorem tradingInPast_false {now : Nat} {t : Option Nat} (h : tradingInPast now t = false) : ∀ x, t = some x → now ≤ x := by
  intro x hx
  unfold tradingInPast at h
  rw [hx] at h
  simp at h
  exact h

theorem updateStartTradingTime_ok {s : State} {m m' : Minter} {sender : Addr} {funds : List Coin} {t : Option Nat}
    (h : updateStartTradingTime s m sender funds t = .ok m') :
    ∃ c, funds = [] ∧ sender = m.tt.creator ∧ tradingInPast s.now t = false ∧
      m.tt.updateTrading m.addr t = .ok c ∧ m' = { m with tt := c } := by
  unfold updateStartTradingTime at h
  bpeel h
  rename_i hn
  bpeel h
  rename_i hs
  bpeel h
  rename_i hp
  bpeel h
  rename_i c hc
  exact ⟨c, nonpayable_ok hn, by simpa using hs, by cases hx : tradingInPast s.now t <;> simp_all, hc, by cases h; rfl⟩

theorem collTransfer_ok {m m' : Minter} {sender : Addr} {id : Nat} {to : Addr} (h : collTransfer m sender id to = .ok m') :
    ∃ c, m.v.coll ≠ .nt ∧ m.seq.coll.ownerOf id = some sender ∧ m.seq.coll.transfer id to = some c ∧
      m' = { m with seq := { m.seq with coll := c } } := by
  unfold collTransfer at h
  bpeel h
  rename_i h1
  bpeel h
  rename_i h2
  bpeel h
  rename_i c hc
  exact ⟨c, h1, by simpa using h2, hc, by cases h; rfl⟩

theorem collBurn_ok {m m' : Minter} {sender : Addr} {id : Nat} (h : collBurn m sender id = .ok m') :
    ∃ c, m.seq.coll.ownerOf id = some sender ∧ m.seq.coll.burn id = some c ∧
      m' = { m with seq := { m.seq with coll := c }, uris := m.uris.filter fun e => e.1 != id } := by
  unfold collBurn at h
  bpeel h
  rename_i h2
  bpeel h
  rename_i c hc
  exact ⟨c, by simpa using h2, hc, by cases h; rfl⟩

/-! ## factory -/

theorem updateParams_ok {p p' : Params} {u : ParamsUpdate} (h : updateParams p u = .ok p') :
    ∃ minp, VF.nativeOr u.minMintPrice p.minMintPrice = .ok minp ∧
      p' = { codeId := u.codeId.getD p.codeId
             allowed := VF.updateAllowed p.allowed u.addCodes u.rmCodes
             frozen := u.frozen.getD p.frozen
             creationFee := u.creationFee.getD p.creationFee
             minMintPrice := minp
             mintFeeBps := u.mintFeeBps.getD p.mintFeeBps
             maxTradingOffsetSecs := u.maxTradingOffsetSecs.getD p.maxTradingOffsetSecs
             ext := p.ext } := by
  unfold updateParams at h
  bpeel h
  rename_i minp hm
  cases h
  exact ⟨minp, hm, rfl⟩

theorem sudoParams_ok {s s' : State} {u : ParamsUpdate} (h : sudoParams s u = .ok s') :
    ∃ p, updateParams s.params u = .ok p ∧ s' = { s with params := p } := by
  unfold sudoParams at h
  bpeel h
  rename_i p hp
  cases h
  exact ⟨p, hp, rfl⟩

theorem migrate_ok {s s' : State} {sender : Addr} {u : Option ParamsUpdate} (h : migrate s sender u = .ok s') :
    s.factoryAdmin = some sender ∧
      ((u = none ∧ s' = s) ∨ ∃ u', u = some u' ∧ sudoParams s u' = .ok s') := by
  unfold migrate at h
  bpeel h
  rename_i ha
  refine ⟨by simpa using ha, ?_⟩
  cases u with
  | none => cases h; exact Or.inl ⟨rfl, rfl⟩
  | some u' => exact Or.inr ⟨u', rfl, h⟩

theorem factoryChecks_ok {s : State} {funds : List Coin} {msg : CreateMsg} {ms : List Msg}
    (h : factoryChecks s funds msg = .ok ms) :
    (∃ paid, mustPay funds s.params.creationFee.denom = .ok paid) ∧
      s.params.allowed.contains msg.collCode = true ∧ s.params.frozen = false ∧ creationFeeMsgs s funds = .ok ms := by
  unfold factoryChecks at h
  bpeel h
  rename_i paid hpaid
  bpeel h
  rename_i hal
  bpeel h
  rename_i hfr
  refine ⟨⟨paid, hpaid⟩, ?_, ?_, h⟩
  · cases hx : s.params.allowed.contains msg.collCode <;> simp_all
  · cases hx : s.params.frozen <;> simp_all

theorem instantiateMinter_ok {s : State} {sender : Addr} {msg : CreateMsg} {w : CreateWit} {m : Minter}
    (h : instantiateMinter s sender msg w = .ok m) :
    ∃ creator v,
      msg.creator = some creator ∧ variantOf s.codes msg.collCode = some v ∧ collectionChecks msg = true ∧
      m = { v := v, addr := w.minterAddr, factory := s.factoryAddr, collectionCodeId := msg.collCode,
            mintPrice := s.params.minMintPrice, sg721 := w.collAddr,
            seq := Supply.Seq.create .base none 0 false, status := {}, uris := [],
            tt := TT.Coll.init v.coll w.minterAddr creator (some (createTrading s msg)),
            royalty := royaltyStored msg.royalty, createdAt := s.now,
            codeId := s.params.codeId, wasmAdmin := sender, collAdmin := creator } := by
  unfold instantiateMinter at h
  bpeel h
  rename_i creator hc
  bpeel h
  rename_i v hv
  bpeel h
  rename_i hchk
  refine ⟨creator, v, hc, hv, ?_, by cases h; rfl⟩
  cases hx : collectionChecks msg <;> simp_all

theorem createMinter_ok {s s' : State} {sender : Addr} {funds : List Coin} {msg : CreateMsg} {w : CreateWit}
    (h : createMinter s sender funds msg w = .ok s') :
    ∃ b1 ms b2 m, s.minter = none ∧ s.bank.sendFunds sender s.factoryAddr funds = some b1 ∧
      factoryChecks s funds msg = .ok ms ∧ MintPay.applyMsgs s.factoryAddr b1 ms = some b2 ∧
      s.codes.minters.contains s.params.codeId = true ∧ instantiateMinter s sender msg w = .ok m ∧
      s' = { s with bank := b2, minter := some m } := by
  unfold createMinter at h
  bpeel h
  rename_i h0
  bpeel h
  rename_i b1 hb1
  bpeel h
  rename_i ms hms
  bpeel h
  rename_i b2 hb2
  bpeel h
  rename_i hcode
  bpeel h
  rename_i m hm
  refine ⟨b1, ms, b2, m, ?_, hb1, hms, hb2, ?_, hm, by cases h; rfl⟩
  · cases hmi : s.minter with
    | none => rfl
    | some x => simp [hmi] at h0
  · cases hx : s.codes.minters.contains s.params.codeId <;> simp_all

/-! ## frame: which top-level components a message can change -/

theorem step_frame {s s' : State} {op : Op} (h : step s op = .ok s') :
    s'.codes = s.codes ∧ s'.factoryAddr = s.factoryAddr ∧ s'.factoryAdmin = s.factoryAdmin ∧
    ((∃ u, op = .sudoParams u) ∨ (∃ a u, op = .migrate a u) ∨ s'.params = s.params) ∧
    ((∃ t, op = .setTime t) ∨ s'.now = s.now) := by
  cases op with
  | setTime t =>
    simp only [step] at h; split at h <;> cases h
    exact ⟨rfl, rfl, rfl, Or.inr (Or.inr rfl), Or.inl ⟨t, rfl⟩⟩
  | fund a c => simp only [step] at h; cases h; exact ⟨rfl, rfl, rfl, Or.inr (Or.inr rfl), Or.inr rfl⟩
  | sudoParams u =>
    simp only [step] at h
    obtain ⟨p, _, rfl⟩ := sudoParams_ok h
    exact ⟨rfl, rfl, rfl, Or.inl ⟨u, rfl⟩, Or.inr rfl⟩
  | migrate a u =>
    simp only [step] at h
    obtain ⟨_, hc⟩ := migrate_ok h
    rcases hc with ⟨_, rfl⟩ | ⟨u', _, hs⟩
    · exact ⟨rfl, rfl, rfl, Or.inr (Or.inl ⟨a, u, rfl⟩), Or.inr rfl⟩
    · obtain ⟨p, _, rfl⟩ := sudoParams_ok hs
      exact ⟨rfl, rfl, rfl, Or.inr (Or.inl ⟨a, u, rfl⟩), Or.inr rfl⟩
  | instantiateDirect sender => simp [step] at h
  | foreign sender => simp [step] at h
  | create sender funds msg w =>
    simp only [step] at h
    obtain ⟨_, _, _, _, _, _, _, _, _, _, rfl⟩ := createMinter_ok h
    exact ⟨rfl, rfl, rfl, Or.inr (Or.inr rfl), Or.inr rfl⟩
  | mint sender funds uri uriOk =>
    simp only [step] at h
    obtain ⟨m, _, h⟩ := withMinterS_ok h
    obtain ⟨_, _, _, _, _, _, _, _, _, _, _, _, rfl⟩ := mint_ok h
    exact ⟨rfl, rfl, rfl, Or.inr (Or.inr rfl), Or.inr rfl⟩
  | updateStartTradingTime sender funds t =>
    simp only [step] at h
    obtain ⟨_, _, _, _, rfl⟩ := withMinter_ok h
    exact ⟨rfl, rfl, rfl, Or.inr (Or.inr rfl), Or.inr rfl⟩
  | sudoStatus v b e =>
    simp only [step] at h
    obtain ⟨_, _, _, _, rfl⟩ := withMinter_ok h
    exact ⟨rfl, rfl, rfl, Or.inr (Or.inr rfl), Or.inr rfl⟩
  | collTransfer sender id to =>
    simp only [step] at h
    obtain ⟨_, _, _, _, rfl⟩ := withMinter_ok h
    exact ⟨rfl, rfl, rfl, Or.inr (Or.inr rfl), Or.inr rfl⟩
  | collBurn sender id =>
    simp only [step] at h
    obtain ⟨_, _, _, _, rfl⟩ := withMinter_ok h
    exact ⟨rfl, rfl, rfl, Or.inr (Or.inr rfl), Or.inr rfl⟩
  | collTrading sender t =>
    simp only [step] at h
    obtain ⟨_, _, _, _, rfl⟩ := onColl_ok h
    exact ⟨rfl, rfl, rfl, Or.inr (Or.inr rfl), Or.inr rfl⟩
  | collCreator sender new =>
    simp only [step] at h
    obtain ⟨_, _, _, _, rfl⟩ := onColl_ok h
    exact ⟨rfl, rfl, rfl, Or.inr (Or.inr rfl), Or.inr rfl⟩
  | collFreeze sender =>
    simp only [step] at h
    obtain ⟨_, _, _, _, rfl⟩ := onColl_ok h
    exact ⟨rfl, rfl, rfl, Or.inr (Or.inr rfl), Or.inr rfl⟩
  | collOwn sender a =>
    simp only [step] at h
    obtain ⟨_, _, _, _, rfl⟩ := onColl_ok h
    exact ⟨rfl, rfl, rfl, Or.inr (Or.inr rfl), Or.inr rfl⟩

/-- an op that needs a minter is refused while there is none -/
theorem needs_minter {s s' : State} {op : Op} (hm : s.minter = none) (h : step s op = .ok s') :
    (∃ t, op = .setTime t) ∨ (∃ a c, op = .fund a c) ∨ (∃ u, op = .sudoParams u) ∨ (∃ a u, op = .migrate a u) ∨
      (∃ a f m w, op = .create a f m w) := by
  cases op with
  | setTime t => exact Or.inl ⟨t, rfl⟩
  | fund a c => exact Or.inr (Or.inl ⟨a, c, rfl⟩)
  | sudoParams u => exact Or.inr (Or.inr (Or.inl ⟨u, rfl⟩))
  | migrate a u => exact Or.inr (Or.inr (Or.inr (Or.inl ⟨a, u, rfl⟩)))
  | create a f m w => exact Or.inr (Or.inr (Or.inr (Or.inr ⟨a, f, m, w, rfl⟩)))
  | instantiateDirect sender => simp [step] at h
  | foreign sender => simp [step] at h
  | mint _ _ _ _ => simp only [step] at h; obtain ⟨m, h1, _⟩ := withMinterS_ok h; rw [hm] at h1; cases h1
  | updateStartTradingTime _ _ _ => simp only [step] at h; obtain ⟨m, _, h1, _⟩ := withMinter_ok h; rw [hm] at h1; cases h1
  | sudoStatus _ _ _ => simp only [step] at h; obtain ⟨m, _, h1, _⟩ := withMinter_ok h; rw [hm] at h1; cases h1
  | collTransfer _ _ _ => simp only [step] at h; obtain ⟨m, _, h1, _⟩ := withMinter_ok h; rw [hm] at h1; cases h1
  | collBurn _ _ => simp only [step] at h; obtain ⟨m, _, h1, _⟩ := withMinter_ok h; rw [hm] at h1; cases h1
  | collTrading _ _ => simp only [step] at h; obtain ⟨m, _, h1, _⟩ := onColl_ok h; rw [hm] at h1; cases h1
  | collCreator _ _ => simp only [step] at h; obtain ⟨m, _, h1, _⟩ := onColl_ok h; rw [hm] at h1; cases h1
  | collFreeze _ => simp only [step] at h; obtain ⟨m, _, h1, _⟩ := onColl_ok h; rw [hm] at h1; cases h1
  | collOwn _ _ => simp only [step] at h; obtain ⟨m, _, h1, _⟩ := onColl_ok h; rw [hm] at h1; cases h1

/-! ## what never changes about an existing minter -/

/-- the creation-time data of a minter: its address, factory, collection, captured price, registry entries -/
def SameIdentity (m m' : Minter) : Prop :=
  m'.v = m.v ∧ m'.addr = m.addr ∧ m'.factory = m.factory ∧ m'.collectionCodeId = m.collectionCodeId ∧
  m'.mintPrice = m.mintPrice ∧ m'.sg721 = m.sg721 ∧ m'.royalty = m.royalty ∧ m'.createdAt = m.createdAt ∧
  m'.codeId = m.codeId ∧ m'.wasmAdmin = m.wasmAdmin ∧ m'.collAdmin = m.collAdmin

theorem SameIdentity.refl (m : Minter) : SameIdentity m m := ⟨rfl, rfl, rfl, rfl, rfl, rfl, rfl, rfl, rfl, rfl, rfl⟩

theorem SameIdentity.trans {a b c : Minter} (h1 : SameIdentity a b) (h2 : SameIdentity b c) : SameIdentity a c := by
  obtain ⟨a1, a2, a3, a4, a5, a6, a7, a8, a9, a10, a11⟩ := h1
  obtain ⟨b1, b2, b3, b4, b5, b6, b7, b8, b9, b10, b11⟩ := h2
  exact ⟨b1.trans a1, b2.trans a2, b3.trans a3, b4.trans a4, b5.trans a5, b6.trans a6, b7.trans a7, b8.trans a8,
    b9.trans a9, b10.trans a10, b11.trans a11⟩

/-- no accepted message removes the minter or changes its identity (in particular the captured price and the wasm admins) -/
theorem minter_frame {s s' : State} {m : Minter} {op : Op} (hm : s.minter = some m) (h : step s op = .ok s') :
    ∃ m', s'.minter = some m' ∧ SameIdentity m m' := by
  cases op with
  | setTime t => simp only [step] at h; split at h <;> cases h; exact ⟨m, hm, .refl m⟩
  | fund a c => simp only [step] at h; cases h; exact ⟨m, hm, .refl m⟩
  | sudoParams u =>
    simp only [step] at h
    obtain ⟨p, _, rfl⟩ := sudoParams_ok h
    exact ⟨m, hm, .refl m⟩
  | migrate a u =>
    simp only [step] at h
    obtain ⟨_, hc⟩ := migrate_ok h
    rcases hc with ⟨_, rfl⟩ | ⟨u', _, hs⟩
    · exact ⟨m, hm, .refl m⟩
    · obtain ⟨p, _, rfl⟩ := sudoParams_ok hs; exact ⟨m, hm, .refl m⟩
  | instantiateDirect sender => simp [step] at h
  | foreign sender => simp [step] at h
  | create sender funds msg w =>
    simp only [step] at h
    obtain ⟨_, _, _, _, hnone, _⟩ := createMinter_ok h
    rw [hm] at hnone; cases hnone
  | mint sender funds uri uriOk =>
    simp only [step] at h
    obtain ⟨m0, hm0, h⟩ := withMinterS_ok h
    rw [hm] at hm0; cases hm0
    obtain ⟨_, _, _, _, _, _, _, _, _, _, _, _, rfl⟩ := mint_ok h
    exact ⟨_, rfl, rfl, rfl, rfl, rfl, rfl, rfl, rfl, rfl, rfl, rfl, rfl⟩
  | updateStartTradingTime sender funds t =>
    simp only [step] at h
    obtain ⟨m0, m', hm0, hf, rfl⟩ := withMinter_ok h
    rw [hm] at hm0; cases hm0
    obtain ⟨_, _, _, _, _, rfl⟩ := updateStartTradingTime_ok hf
    exact ⟨_, rfl, rfl, rfl, rfl, rfl, rfl, rfl, rfl, rfl, rfl, rfl, rfl⟩
  | sudoStatus v b e =>
    simp only [step] at h
    obtain ⟨m0, m', hm0, hf, rfl⟩ := withMinter_ok h
    rw [hm] at hm0; cases hm0
    cases hf
    exact ⟨_, rfl, rfl, rfl, rfl, rfl, rfl, rfl, rfl, rfl, rfl, rfl, rfl⟩
  | collTransfer sender id to =>
    simp only [step] at h
    obtain ⟨m0, m', hm0, hf, rfl⟩ := withMinter_ok h
    rw [hm] at hm0; cases hm0
    obtain ⟨c, _, _, _, rfl⟩ := collTransfer_ok hf
    exact ⟨_, rfl, rfl, rfl, rfl, rfl, rfl, rfl, rfl, rfl, rfl, rfl, rfl⟩
  | collBurn sender id =>
    simp only [step] at h
    obtain ⟨m0, m', hm0, hf, rfl⟩ := withMinter_ok h
    rw [hm] at hm0; cases hm0
    obtain ⟨c, _, _, rfl⟩ := collBurn_ok hf
    exact ⟨_, rfl, rfl, rfl, rfl, rfl, rfl, rfl, rfl, rfl, rfl, rfl, rfl⟩
  | collTrading sender t =>
    simp only [step] at h
    obtain ⟨m0, c, hm0, _, rfl⟩ := onColl_ok h
    rw [hm] at hm0; cases hm0
    exact ⟨_, rfl, rfl, rfl, rfl, rfl, rfl, rfl, rfl, rfl, rfl, rfl, rfl⟩
  | collCreator sender new =>
    simp only [step] at h
    obtain ⟨m0, c, hm0, _, rfl⟩ := onColl_ok h
    rw [hm] at hm0; cases hm0
    exact ⟨_, rfl, rfl, rfl, rfl, rfl, rfl, rfl, rfl, rfl, rfl, rfl, rfl⟩
  | collFreeze sender =>
    simp only [step] at h
    obtain ⟨m0, c, hm0, _, rfl⟩ := onColl_ok h
    rw [hm] at hm0; cases hm0
    exact ⟨_, rfl, rfl, rfl, rfl, rfl, rfl, rfl, rfl, rfl, rfl, rfl, rfl⟩
  | collOwn sender a =>
    simp only [step] at h
    obtain ⟨m0, c, hm0, _, rfl⟩ := onColl_ok h
    rw [hm] at hm0; cases hm0
    exact ⟨_, rfl, rfl, rfl, rfl, rfl, rfl, rfl, rfl, rfl, rfl, rfl, rfl⟩

theorem minter_frame' (s : State) (m : Minter) (op : Op) (hm : s.minter = some m) :
    ∃ m', (step' s op).minter = some m' ∧ SameIdentity m m' := by
  rcases step'_cases s op with ⟨s', hok, hs'⟩ | ⟨_, hs'⟩
  · rw [hs']; exact minter_frame hm hok
  · rw [hs']; exact ⟨m, hm, .refl m⟩

theorem minter_frame_run (s : State) (m : Minter) (hm : s.minter = some m) (ops : List Op) :
    ∃ m', (run s ops).minter = some m' ∧ SameIdentity m m' := by
  induction ops generalizing s m with
  | nil => exact ⟨m, hm, .refl m⟩
  | cons op ops ih =>
    obtain ⟨m1, hm1, h1⟩ := minter_frame' s m op hm
    obtain ⟨m2, hm2, h2⟩ := ih (step' s op) m1 hm1
    exact ⟨m2, by rw [run_cons]; exact hm2, h1.trans h2⟩

/-- with the harness' code table the collection codes are exactly 16..19 -/
theorem variantOf_std (c : VF.Codes) (hc : c.colls = [16, 17, 18, 19]) (code : Nat) :
    (variantOf c code).isSome = (decide (16 ≤ code) && decide (code ≤ 19)) := by
  unfold variantOf VF.Codes.collKindOf
  rw [hc]
  by_cases h16 : code = 16
  · subst h16; rfl
  by_cases h17 : code = 17
  · subst h17; rfl
  by_cases h18 : code = 18
  · subst h18; rfl
  by_cases h19 : code = 19
  · subst h19; rfl
  have e16 : (16 == code) = false := by simp; omega
  have e17 : (17 == code) = false := by simp; omega
  have e18 : (18 == code) = false := by simp; omega
  have e19 : (19 == code) = false := by simp; omega
  simp [List.findIdx?, List.findIdx?.go, e16, e17, e18, e19]
  omega

/-! ## a concrete history (used by the non-vacuity examples of the refinement modules) -/

def exParams : Params :=
  { codeId := 11, allowed := [16, 17, 18, 19], frozen := false, creationFee := ⟨0, 250000000⟩,
    minMintPrice := ⟨0, 50000000⟩, mintFeeBps := 1000, maxTradingOffsetSecs := 604800, ext := false }

/-- the factory is `contract0` (address id 1000), its wasm admin is account 90 -/
def exInit : State := init 5000 ⟨[11], [16, 17, 18, 19]⟩ 1000 (some 90) exParams

/-- a collection of kind sg721-nt, creator 10 -/
def exMsg : CreateMsg :=
  { collCode := 18, creator := some 10, trading := none, descLen := 12, imageOk := true, linkOk := none, royalty := none }

/-- account 11 pays (and over-pays by 777) a `CreateMinter` naming creator 10; governance then raises the minimum price and doubles
the fee rate; the creator mints at captured price × new rate; the payer may not mint; the new minimum price is not charged -/
def exOps : List Op :=
  [.fund 10 ⟨0, 1000000000⟩, .fund 11 ⟨0, 1000000000⟩,
   .create 11 [⟨0, 250000777⟩] exMsg ⟨1001, 1002⟩,
   .sudoParams { minMintPrice := some ⟨0, 80000000⟩, mintFeeBps := some 2000 },
   .mint 10 [⟨0, 10000000⟩] 7 true, .mint 11 [⟨0, 10000000⟩] 8 true, .mint 10 [⟨0, 16000000⟩] 9 true,
   .setTime 6000, .updateStartTradingTime 10 [] (some 5999), .collBurn 10 1]

end LP.BF
