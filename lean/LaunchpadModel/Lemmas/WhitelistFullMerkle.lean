import LaunchpadModel.Lemmas.WhitelistFullStages
import LaunchpadModel.Model.MerkleWl
/-!
# Composite whitelist model ⟶ C14 aspect model (`LP.MerkleWl`): the two Merkle whitelist contracts

`proj14` reads the committed root(s) and the configuration C14's theorems mention (windows, per-address limits, admins) off the
composite state. The aspect model takes "was the message accepted, and which configuration did it leave" as witnesses
(`Op.wlMsg accepted post`); `tr14` fills them with the composite's own verdict and the configuration the composite computes.
The minter's whitelist gate (`Op.mint`) is outside the whitelist family: no composite op translates to it.
-/
namespace LP.WF
open LP

def Mk (v : Variant) : Prop := v.store = .merkle

def st14 (s : Stage) : MerkleWl.Stage := ⟨s.start, s.stop, s.pal, s.denom⟩

/-- projection onto the C14 whitelist state -/
def proj14 (w : Wl) : MerkleWl.Wl :=
  if w.v.tiered then .tiered ⟨w.roots, w.stages.map st14, w.admins, w.mutable_⟩
  else .plain ⟨w.roots.headD [], w.start, w.end_, w.perAddr, w.admins, w.mutable_⟩

/-- the aspect op of any composite op on the observed Merkle contract: `accepted` = the composite's verdict, `post` = the
configuration of the contract after the (transactional) step, both computed by the composite -/
def tr14 (s : State) (op : Op) : Nat × MerkleWl.Op :=
  (s.now, .wlMsg (accepted s op) (match (step' s op).wl with | some w' => proj14 w' | none => .plain ⟨[], 0, 0, 0, [], false⟩))

/-- no handler writes a Merkle root -/
theorem handle_roots {w w' : Wl} {now : Nat} {sender : Addr} {funds : List Coin} {m : ExecMsg} {msgs : List Msg}
    (h : handle w now sender funds m = .ok (w', msgs)) : w'.roots = w.roots := by
  unfold handle at h
  split at h; · cases h
  simp only [] at h
  cases m with
  | unknown => cases h
  | increaseMemberLimit n =>
    simp only [] at h
    unfold increaseMemberLimit at h
    simp only [] at h
    split at h; · cases h
    split at h; · cases h
    split at h; · cases h
    split at h; · cases h
    simp only [Except.ok.injEq, Prod.mk.injEq] at h
    obtain ⟨rfl, _⟩ := h; rfl
  | updateStartTime t =>
    simp only [] at h; split at h
    · rename_i w0 hh; simp only [Except.ok.injEq, Prod.mk.injEq] at h; obtain ⟨rfl, _⟩ := h
      unfold updateStartTime at hh; split at hh; · cases hh
      split at hh; · cases hh
      split at hh; · cases hh
      simp only [Except.ok.injEq] at hh; subst hh; rfl
    · cases h
  | updateEndTime t =>
    simp only [] at h; split at h
    · rename_i w0 hh; simp only [Except.ok.injEq, Prod.mk.injEq] at h; obtain ⟨rfl, _⟩ := h
      unfold updateEndTime at hh; split at hh; · cases hh
      split at hh; · cases hh
      split at hh; · cases hh
      simp only [Except.ok.injEq] at hh; subst hh; rfl
    · cases h
  | updatePerAddressLimit n =>
    simp only [] at h; split at h
    · rename_i w0 hh; simp only [Except.ok.injEq, Prod.mk.injEq] at h; obtain ⟨rfl, _⟩ := h
      unfold updatePerAddressLimit at hh; split at hh; · cases hh
      split at hh; · cases hh
      simp only [Except.ok.injEq] at hh; subst hh; rfl
    · cases h
  | updateAdmins l =>
    simp only [] at h; split at h
    · rename_i w0 hh; simp only [Except.ok.injEq, Prod.mk.injEq] at h; obtain ⟨rfl, _⟩ := h
      unfold updateAdmins at hh; split at hh; · cases hh
      split at hh; · cases hh
      simp only [Except.ok.injEq] at hh; subst hh; rfl
    · cases h
  | freeze =>
    simp only [] at h; split at h
    · rename_i w0 hh; simp only [Except.ok.injEq, Prod.mk.injEq] at h; obtain ⟨rfl, _⟩ := h
      unfold freeze at hh; split at hh; · cases hh
      simp only [Except.ok.injEq] at hh; subst hh; rfl
    · cases h
  | updateStageConfig u =>
    simp only [] at h; split at h
    · rename_i w0 hh; simp only [Except.ok.injEq, Prod.mk.injEq] at h; obtain ⟨rfl, _⟩ := h
      unfold updateStageConfig at hh; split at hh; · cases hh
      split at hh; · cases hh
      simp only [] at hh
      split at hh; · cases hh
      simp only [Except.ok.injEq] at hh; subst hh; rfl
    · cases h
  | addMembers stage ms =>
    simp only [] at h; split at h
    · rename_i w0 hh; simp only [Except.ok.injEq, Prod.mk.injEq] at h; obtain ⟨rfl, _⟩ := h
      unfold addMembers at hh; split at hh; · cases hh
      simp only [] at hh
      split at hh
      · split at hh; · cases hh
        split at hh; · cases hh
        simp only [Except.ok.injEq] at hh; subst hh; rfl
      · split at hh; · cases hh
        simp only [Except.ok.injEq] at hh; subst hh; rfl
    · cases h
  | removeMembers stage as =>
    simp only [] at h; split at h
    · rename_i w0 hh; simp only [Except.ok.injEq, Prod.mk.injEq] at h; obtain ⟨rfl, _⟩ := h
      unfold removeMembers at hh; split at hh; · cases hh
      split at hh; · cases hh
      split at hh; · cases hh
      split at hh
      · split at hh; · cases hh
        split at hh; · cases hh
        simp only [Except.ok.injEq] at hh; subst hh; rfl
      · split at hh; · cases hh
        simp only [Except.ok.injEq] at hh; subst hh; rfl
    · cases h
  | addStage st ms =>
    simp only [] at h; split at h
    · rename_i w0 hh; simp only [Except.ok.injEq, Prod.mk.injEq] at h; obtain ⟨rfl, _⟩ := h
      unfold addStage at hh; split at hh; · cases hh
      split at hh; · cases hh
      simp only [] at hh
      split at hh; · cases hh
      split at hh; · cases hh
      simp only [Except.ok.injEq] at hh; subst hh; rfl
    · cases h
  | removeStage id =>
    simp only [] at h; split at h
    · rename_i w0 hh; simp only [Except.ok.injEq, Prod.mk.injEq] at h; obtain ⟨rfl, _⟩ := h
      unfold removeStage at hh; split at hh; · cases hh
      split at hh; · cases hh
      split at hh; · cases hh
      simp only [] at hh
      split at hh; · cases hh
      simp only [Except.ok.injEq] at hh; subst hh; rfl
    · cases h

/-- every op but `instantiate` keeps the committed roots of the observed contract -/
theorem step'_roots (s : State) (op : Op) (hni : ∀ v sender funds self m, op ≠ .instantiate v sender funds self m)
    {w : Wl} (hw : s.wl = some w) : ∃ w', (step' s op).wl = some w' ∧ w'.v = w.v ∧ w'.roots = w.roots := by
  rcases step'_cases s op with ⟨s', hok, hs'⟩ | ⟨_, hs'⟩
  · rw [hs']
    cases op with
    | setTime t => simp only [step, Except.ok.injEq] at hok; subst hok; exact ⟨w, hw, rfl, rfl⟩
    | fund a c => simp only [step, Except.ok.injEq] at hok; subst hok; exact ⟨w, hw, rfl, rfl⟩
    | instantiate v sender funds self m => exact absurd rfl (hni v sender funds self m)
    | exec sender funds m =>
      simp only [step] at hok
      obtain ⟨w0, b1, w1, msgs, b2, hw0, _, hh, _, rfl⟩ := execute_ok hok
      rw [hw] at hw0; cases hw0
      exact ⟨w1, rfl, (handle_frame hh).2.1, handle_roots hh⟩
  · rw [hs']; exact ⟨w, hw, rfl, rfl⟩

theorem proj14_roots (w : Wl) (h : w.v.tiered = false → ∃ r, w.roots = [r]) : (proj14 w).roots = w.roots := by
  unfold proj14
  by_cases ht : w.v.tiered = true
  · simp [ht, MerkleWl.Wl.roots]
  · have ht' : w.v.tiered = false := by cases hx : w.v.tiered <;> simp_all
    obtain ⟨r, hr⟩ := h ht'
    simp [ht', MerkleWl.Wl.roots, hr]

/-- `setCfg` with a configuration of the same contract kind that carries the same roots is that configuration -/
theorem setCfg_same (w w' : Wl) (hv : w'.v = w.v) (hr : w'.roots = w.roots) :
    (proj14 w).setCfg (proj14 w') = proj14 w' := by
  unfold proj14
  rw [hv]
  by_cases ht : w.v.tiered = true
  · simp [ht, MerkleWl.Wl.setCfg, hr]
  · have ht' : w.v.tiered = false := by cases hx : w.v.tiered <;> simp_all
    simp [ht', MerkleWl.Wl.setCfg, hr]

/-- **one-step simulation for C14** (every op but `instantiate`; any ghost mint log `l`) -/
theorem step_sim14 (H : Merkle.Bytes → Merkle.Bytes) {s : State} {w : Wl} (hw : s.wl = some w) (op : Op)
    (hni : ∀ v sender funds self m, op ≠ .instantiate v sender funds self m) (l : List MerkleWl.MintRec) :
    ∃ w', (step' s op).wl = some w' ∧ w'.v = w.v ∧ w'.roots = w.roots ∧
      (⟨proj14 w', l⟩ : MerkleWl.World) = MerkleWl.step' H ⟨proj14 w, l⟩ (tr14 s op) := by
  obtain ⟨w', hw', hv, hr⟩ := step'_roots s op hni hw
  refine ⟨w', hw', hv, hr, ?_⟩
  simp only [MerkleWl.step', tr14, MerkleWl.step, hw']
  rcases step'_cases s op with ⟨s', hok, hs'⟩ | ⟨⟨e, herr⟩, hs'⟩
  · simp [accepted_of_ok hok, setCfg_same w w' hv hr]
  · rw [hs', hw] at hw'; cases hw'
    simp [accepted_false_of_err herr]

/-! ## the membership query -/

theorem activeIdx_map (l : List Stage) (now : Nat) :
    MerkleWl.activeIdx now (l.map st14) = Tiered.activeIdx l now := by
  unfold MerkleWl.activeIdx Tiered.activeIdx
  induction l with
  | nil => rfl
  | cons x xs ih =>
    simp only [List.map_cons, List.findIdx?_cons, ih]
    have : (decide ((st14 x).start ≤ now) && decide (now ≤ (st14 x).end_)) = x.contains now := rfl
    rw [this]

/-- single-stage Merkle contracts commit exactly one root -/
def RootsOk (w : Wl) : Prop := w.v.tiered = false → ∃ r, w.roots = [r]

/-- the composite's `HasMember {member, proof_hashes}` IS the aspect model's membership query on the projection, with the
crate's hash -/
theorem qHasMemberMerkle_eq (w : Wl) (hm : Mk w.v) (hr : RootsOk w) (now : Nat) (member : Merkle.Bytes)
    (proof : List (List Nat)) :
    qHasMemberMerkle w now member proof = (proj14 w).hasMember w.v.hash now member proof := by
  have him : w.v.isMerkle = true := by simp [Variant.isMerkle, show w.v.store = .merkle from hm]
  unfold qHasMemberMerkle proj14
  simp only [him, Bool.not_true, Bool.false_eq_true, if_false]
  by_cases ht : w.v.tiered = true
  · simp only [ht, if_true, MerkleWl.Wl.hasMember, MerkleWl.Tiered.hasMember, activeIdx_map, activeIdx, Variant.digest]
    cases Tiered.activeIdx w.stages now with
    | none => rfl
    | some i => simp only []; cases w.roots[i]? <;> rfl
  · have ht' : w.v.tiered = false := by cases hx : w.v.tiered <;> simp_all
    obtain ⟨r, hrr⟩ := hr ht'
    simp only [ht', Bool.false_eq_true, if_false, MerkleWl.Wl.hasMember, MerkleWl.Plain.hasMember, hrr, List.headD_cons,
      Variant.digest]

theorem instMerkle_roots {v : Variant} {now : Nat} {self : Addr} {funds : List Coin} {m : InstMsg} {w : Wl} {msgs : List Msg}
    (h : instMerkle v now self funds m = .ok (w, msgs)) :
    w.roots = m.roots ∧ m.roots.all (Merkle.validHash v.digest) = true ∧ RootsOk w ∧ w.v = v := by
  obtain ⟨h1, h2, _, _, _, _, _, hw⟩ := instMerkle_ok h
  simp only [] at hw
  by_cases ht : v.tiered = true
  · simp only [ht, if_true] at hw; subst hw
    exact ⟨rfl, h1, (fun hx => (by rw [show (blankWl v self).v.tiered = v.tiered from rfl, ht] at hx; cases hx)), rfl⟩
  · have ht' : v.tiered = false := by cases hx : v.tiered <;> simp_all
    simp only [ht', Bool.false_eq_true, if_false] at hw; subst hw
    refine ⟨rfl, h1, fun _ => ?_, rfl⟩
    have hl := h2 ht'
    show ∃ r, m.roots = [r]
    cases hm : m.roots with
    | nil => rw [hm] at hl; cases hl
    | cons r rest =>
      cases rest with
      | nil => exact ⟨r, rfl⟩
      | cons r2 rest2 => rw [hm] at hl; simp at hl

def NoInst14 (ops : List Op) : Prop := ∀ op ∈ ops, ∀ v sender funds self m, op ≠ .instantiate v sender funds self m

end LP.WF
