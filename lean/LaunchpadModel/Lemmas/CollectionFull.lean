import LaunchpadModel.Model.CollectionFull
import LaunchpadModel.Lemmas.Semver
/-!
# Common machinery for the refinement theorems of the collection composite (`LP.CF`)

Inversion lemmas (one per handler), `step'` / `run` algebra, the `legacy = none` invariant, and the agreement of the
composite's three migrations with the C09 aspect model's (`Sg721.migrateTo`) when no cw721-0.16 `minter` item exists.
-/
namespace LP.CF
open LP
open LP.Sg721 (Kind Block Exp Approval Token Royalty Desc Url Info Ownership Operator Action InstMsg validAddr isContract
  DAY_NS codeVersion)

/-! ## `step'`, `run` -/

theorem step'_ok {s s' : State} {op : Op} (h : step s op = .ok s') : step' s op = s' := by
  unfold step'; rw [h]

theorem step'_err {s : State} {op : Op} {e : Err} (h : step s op = .error e) : step' s op = s := by
  unfold step'; rw [h]

theorem accepted_ok {s s' : State} {op : Op} (h : step s op = .ok s') : accepted s op = true := by
  unfold accepted; rw [h]

theorem accepted_err {s : State} {op : Op} {e : Err} (h : step s op = .error e) : accepted s op = false := by
  unfold accepted; rw [h]

theorem run_nil (s : State) : run s [] = s := rfl
theorem run_cons (s : State) (op : Op) (ops : List Op) : run s (op :: ops) = run (step' s op) ops := rfl
theorem run_append (s : State) (a b : List Op) : run s (a ++ b) = run (run s a) b := by
  unfold run; rw [List.foldl_append]

theorem step'_cases (s : State) (op : Op) : (∃ s', step s op = .ok s' ∧ step' s op = s') ∨ ((∃ e, step s op = .error e) ∧ step' s op = s) := by
  cases h : step s op with
  | ok s' => exact .inl ⟨s', rfl, step'_ok h⟩
  | error e => exact .inr ⟨⟨e, rfl⟩, step'_err h⟩

/-- the C09 component of a state -/
def coreOf (s : State) : Option Sg721.State := s.coll.map (·.core)

/-! ## Inversion -/

theorem exec_ok {s s' : State} {sender : Addr} {funds : List Coin} {m : ExecMsg} (h : exec s sender funds m = .ok s') :
    ∃ c b1 core' b2, s.coll = some c ∧ s.bank.sendFunds sender c.self funds = some b1 ∧
      Sg721.exec c.core ⟨s.block, sender, funds, toExec c.core s.block m⟩ = .ok core' ∧
      MintPay.applyMsgs c.self b1 (responseMsgs c.self funds m) = some b2 ∧
      s' = { s with bank := b2, coll := some { c with core := core' } } := by
  unfold exec at h
  split at h
  · cases h
  · rename_i c hc
    split at h
    · cases h
    · rename_i b1 hb1
      split at h
      · cases h
      · rename_i core' hcore
        split at h
        · cases h
        · rename_i b2 hb2
          cases h
          exact ⟨c, b1, core', b2, hc, hb1, hcore, hb2, rfl⟩

/-- the converse: the three stages succeed ⇒ the composite accepts -/
theorem exec_of {s : State} {c : Coll} {sender : Addr} {funds : List Coin} {m : ExecMsg} {b1 b2 : Bank} {core' : Sg721.State}
    (hc : s.coll = some c) (hb1 : s.bank.sendFunds sender c.self funds = some b1)
    (hcore : Sg721.exec c.core ⟨s.block, sender, funds, toExec c.core s.block m⟩ = .ok core')
    (hb2 : MintPay.applyMsgs c.self b1 (responseMsgs c.self funds m) = some b2) :
    exec s sender funds m = .ok { s with bank := b2, coll := some { c with core := core' } } := by
  unfold exec; simp only [hc, hb1, hcore, hb2]

theorem onColl_ok {s s' : State} {f : Coll → Except Err Coll} (h : onColl s f = .ok s') :
    ∃ c c', s.coll = some c ∧ f c = .ok c' ∧ s' = { s with coll := some c' } := by
  unfold onColl at h
  split at h
  · cases h
  · rename_i c hc
    split at h
    · cases h
    · rename_i c' hf
      cases h
      exact ⟨c, c', hc, hf, rfl⟩

theorem onColl_some {s : State} {c : Coll} (f : Coll → Except Err Coll) (hc : s.coll = some c) :
    onColl s f = match f c with | .ok c' => .ok { s with coll := some c' } | .error e => .error e := by
  unfold onColl; simp only [hc]; cases f c <;> rfl

theorem instantiate_ok {s s' : State} {k : Kind} {sender : Addr} {funds : List Coin} {name symbol : Nat} {m : InstMsg} {self : Addr}
    (h : instantiate s k sender funds name symbol m self = .ok s') :
    ∃ b1 core, s.coll = none ∧ s.bank.sendFunds sender self funds = some b1 ∧
      Sg721.instantiate k s.block sender funds m = .ok core ∧
      s' = { s with bank := b1, coll := some { core := core, self := self, name := name, symbol := symbol, legacy := none } } := by
  unfold instantiate at h
  split at h
  · cases h
  · rename_i hc
    split at h
    · cases h
    · rename_i b1 hb1
      split at h
      · cases h
      · rename_i core hcore
        cases h
        exact ⟨b1, core, hc, hb1, hcore, rfl⟩

/-- once a collection exists, `instantiate` is refused and every other op keeps it existing -/
theorem step_coll_some {s s' : State} {c : Coll} {op : Op} (hc : s.coll = some c) (h : step s op = .ok s') :
    ∃ c', s'.coll = some c' := by
  cases op with
  | block b => cases h; exact ⟨c, hc⟩
  | fund a x => cases h; exact ⟨c, hc⟩
  | instantiate k sender funds name symbol m self =>
    obtain ⟨_, _, hn, _⟩ := instantiate_ok h
    rw [hc] at hn; cases hn
  | exec sender funds m =>
    obtain ⟨c0, _, core', _, _, _, _, _, rfl⟩ := exec_ok h
    exact ⟨_, rfl⟩
  | migrateUpdatable => obtain ⟨_, c', _, _, rfl⟩ := onColl_ok h; exact ⟨c', rfl⟩
  | migrateSelf => obtain ⟨_, c', _, _, rfl⟩ := onColl_ok h; exact ⟨c', rfl⟩
  | setVersion v => simp only [step] at h; obtain ⟨_, c', _, _, rfl⟩ := onColl_ok h; exact ⟨c', rfl⟩
  | setLegacy a => simp only [step] at h; obtain ⟨_, c', _, _, rfl⟩ := onColl_ok h; exact ⟨c', rfl⟩

/-! ## The migrations against the C09 aspect model (no legacy `minter` item) -/

def okOf {α : Type} : Except Err α → Option α
  | .ok a => some a
  | .error _ => none

theorem upgradeOwnership_none {c : Coll} (h : c.legacy = none) : upgradeOwnership c = .error .notFound := by
  unfold upgradeOwnership; rw [h]

theorem ensure_true {α : Type} (e : Err) (k : Except Err α) : Sg721.ensure true e k = k := rfl
theorem ensure_false {α : Type} (e : Err) (k : Except Err α) : Sg721.ensure false e k = .error e := rfl

/-- sg721-updatable `_migrate`: composite = aspect when there is no legacy item (in particular on every collection
instantiated by today's code) -/
theorem migrateUpdatable_core (c : Coll) (now : Nat) (hl : c.legacy = none) :
    okOf ((migrateUpdatable c now).map (·.core)) = okOf (Sg721.migrateToUpdatable c.core now) := by
  rcases c with ⟨⟨kind, toks, cnt, ops, own, info, fz, rua, fm, upd, ver⟩, self, nm, sym, leg⟩
  simp only at hl; subst hl
  unfold migrateUpdatable Sg721.migrateToUpdatable upgradeRoyalty upgradeOwnership
  generalize Sg721.UPD_EARLIEST = ue
  generalize codeVersion Kind.updatable = code
  generalize Sg721.V_3_0_0 = v30
  generalize Sg721.V_3_1_0 = v31
  generalize DAY_NS = day
  by_cases h3 : ver = code
  · subst h3
    by_cases h1 : ver < ue <;> by_cases h2 : ver < ver <;> by_cases h4 : ver < v30 <;>
      by_cases h5 : ver < v31 <;> by_cases h6 : now < day <;> cases kind <;>
      simp [*, Sg721.ensure, okOf, Except.map]
  · by_cases h1 : ver < ue <;> by_cases h2 : code < ver <;> by_cases h4 : ver < v30 <;>
      by_cases h5 : ver < v31 <;> by_cases h6 : now < day <;> cases kind <;>
      simp [*, Sg721.ensure, okOf, Except.map]

/-- sg721-metadata-onchain `migrate` on its own collection -/
theorem migrateOnchain_core (c : Coll) (hk : c.core.kind = .onchain) (hl : c.legacy = none) :
    okOf ((migrateOnchain c).map (·.core)) = okOf (Sg721.migrateOnchainSelf c.core) := by
  rcases c with ⟨⟨kind, toks, cnt, ops, own, info, fz, rua, fm, upd, ver⟩, self, nm, sym, leg⟩
  simp only at hl hk; subst hl; subst hk
  unfold migrateOnchain Sg721.migrateOnchainSelf upgradeOwnership
  generalize Sg721.ONCHAIN_EARLIEST = ue
  generalize codeVersion Kind.onchain = code
  generalize Sg721.V_3_0_0 = v30
  generalize Sg721.ONCHAIN_TO = to
  by_cases h3 : ver = code
  · subst h3
    by_cases h1 : ver < ue <;> by_cases h2 : ver < ver <;> by_cases h4 : ver < v30 <;>
      simp [*, Sg721.ensure, okOf, Except.map]
  · have h3' : ¬ code = ver := fun h => h3 h.symm
    by_cases h1 : ver < ue <;> by_cases h2 : code < ver <;> by_cases h4 : ver < v30 <;>
      simp [*, Sg721.ensure, okOf, Except.map]

theorem strOf_nt_to : strOf Gen.sg721_nt_TO_VERSION = [51, 46, 48, 46, 48] := by decide
theorem strOf_nt_earliest : strOf Gen.sg721_nt_EARLIEST_VERSION = [48, 46, 49, 54, 46, 48] := by decide

/-- sg721-nt `migrate` compares compile-time constants only; with the constants of the current tree (crate version
above `TO_VERSION = "3.0.0"` in byte order) it always refuses -/
theorem migrateNt_err (c : Coll) : migrateNt c = .error .version := by
  unfold migrateNt
  simp [strOf_nt_to, strOf_nt_earliest, Semver.print, Semver.printNum_small, Semver.printNum_big, codeVersion, Semver.ofTriple,
    Gen.sg721_nt_CRATE_VERSION_TRIPLE, Semver.DOT, Semver.strLt]

theorem migrateNtSelf_err (s : Sg721.State) : okOf (Sg721.migrateNtSelf s) = none := by
  unfold Sg721.migrateNtSelf
  have : (codeVersion .nt = Sg721.NT_TO) = False := by decide
  cases hk : decide (s.kind = .nt) <;> simp [Sg721.ensure, this, okOf]

/-- `MsgMigrateContract` to the code the collection runs: composite = aspect (no legacy item) -/
theorem migrateSelf_core (c : Coll) (now : Nat) (hl : c.legacy = none) :
    okOf ((migrateSelf c now).map (·.core)) = okOf (Sg721.migrateTo c.core c.core.kind now) := by
  unfold migrateSelf Sg721.migrateTo
  cases hk : c.core.kind with
  | base => simp [okOf, Except.map]
  | updatable => simpa using migrateUpdatable_core c now hl
  | onchain => simpa using migrateOnchain_core c hk hl
  | nt => rw [migrateNt_err]; exact (migrateNtSelf_err c.core).symm

/-! ## The `legacy = none` invariant -/

def isMigrate : Op → Bool
  | .migrateUpdatable => true
  | .migrateSelf => true
  | _ => false

def isSetLegacy : Op → Bool
  | .setLegacy _ => true
  | _ => false

/-- no legacy item (true after `instantiate`, kept by every op except the environment op `setLegacy`) -/
def NoLegacy (s : State) : Prop := ∀ c, s.coll = some c → c.legacy = none

theorem upgradeOwnership_legacy {c c' : Coll} (h : upgradeOwnership c = .ok c') : c'.legacy = none := by
  unfold upgradeOwnership at h
  split at h
  · cases h
  · split at h
    · cases h; rfl
    · cases h

theorem migrateUpdatable_legacy {c c' : Coll} {now : Nat} (hl : c.legacy = none) (h : migrateUpdatable c now = .ok c') :
    c'.legacy = none := by
  rcases c with ⟨⟨kind, toks, cnt, ops, own, info, fz, rua, fm, upd, ver⟩, self, nm, sym, leg⟩
  simp only at hl; subst hl
  unfold migrateUpdatable upgradeRoyalty upgradeOwnership at h
  generalize Sg721.UPD_EARLIEST = ue at h
  generalize codeVersion Kind.updatable = code at h
  generalize Sg721.V_3_0_0 = v30 at h
  generalize Sg721.V_3_1_0 = v31 at h
  generalize DAY_NS = day at h
  by_cases h1 : ver < ue <;> by_cases h2 : code < ver <;> by_cases h4 : ver < v30 <;>
    by_cases h5 : ver < v31 <;> by_cases h6 : now < day <;> cases kind <;>
    simp [h1, h2, h4, h5, h6] at h
  all_goals first | (rw [← h]) | (split at h <;> cases h <;> rfl)

theorem migrateUpdatable_ver {c c' : Coll} {now : Nat} (h : migrateUpdatable c now = .ok c') :
    c'.core.kind = .updatable ∧ c'.core.ver = codeVersion .updatable := by
  rcases c with ⟨⟨kind, toks, cnt, ops, own, info, fz, rua, fm, upd, ver⟩, self, nm, sym, leg⟩
  unfold migrateUpdatable upgradeRoyalty upgradeOwnership at h
  generalize Sg721.UPD_EARLIEST = ue at h
  generalize codeVersion Kind.updatable = code at h ⊢
  generalize Sg721.V_3_0_0 = v30 at h
  generalize Sg721.V_3_1_0 = v31 at h
  generalize DAY_NS = day at h
  by_cases h3 : ver = code
  · subst h3
    by_cases h1 : ver < ue <;> by_cases h2 : ver < ver <;> by_cases h4 : ver < v30 <;>
      by_cases h5 : ver < v31 <;> by_cases h6 : now < day <;> cases kind <;> rcases leg with _ | a <;>
      (try by_cases hva : validAddr a = true) <;> simp [*] at h
    all_goals subst h
    all_goals exact ⟨rfl, rfl⟩
  · by_cases h1 : ver < ue <;> by_cases h2 : code < ver <;> by_cases h4 : ver < v30 <;>
      by_cases h5 : ver < v31 <;> by_cases h6 : now < day <;> cases kind <;> rcases leg with _ | a <;>
      (try by_cases hva : validAddr a = true) <;> simp [*] at h
    all_goals subst h
    all_goals exact ⟨rfl, rfl⟩

theorem migrateSelf_legacy {c c' : Coll} {now : Nat} (hl : c.legacy = none) (h : migrateSelf c now = .ok c') :
    c'.legacy = none := by
  unfold migrateSelf at h
  split at h
  · cases h
  · exact migrateUpdatable_legacy hl h
  · unfold migrateOnchain at h
    dsimp only at h
    split at h
    · cases h
    · split at h
      · cases h
      · split at h
        · cases h; exact hl
        · split at h
          · exact upgradeOwnership_legacy h
          · cases h; exact hl
  · rw [migrateNt_err] at h; cases h

theorem NoLegacy_step {s s' : State} {op : Op} (hi : NoLegacy s) (hop : isSetLegacy op = false) (h : step s op = .ok s') :
    NoLegacy s' := by
  intro c' hc'
  cases op with
  | block b => cases h; exact hi c' hc'
  | fund a x => cases h; exact hi c' hc'
  | instantiate k sender funds name symbol m self =>
    obtain ⟨_, _, _, _, _, rfl⟩ := instantiate_ok h
    cases hc'; rfl
  | exec sender funds m =>
    obtain ⟨c0, _, core', _, hc0, _, _, _, rfl⟩ := exec_ok h
    cases hc'; exact hi c0 hc0
  | migrateUpdatable =>
    obtain ⟨c0, c1, hc0, hf, rfl⟩ := onColl_ok h
    cases hc'; exact migrateUpdatable_legacy (hi c0 hc0) hf
  | migrateSelf =>
    obtain ⟨c0, c1, hc0, hf, rfl⟩ := onColl_ok h
    cases hc'; exact migrateSelf_legacy (hi c0 hc0) hf
  | setVersion v =>
    simp only [step] at h
    obtain ⟨c0, c1, hc0, hf, rfl⟩ := onColl_ok h
    cases hc'; cases hf; exact hi c0 hc0
  | setLegacy a => cases hop

theorem NoLegacy_step' {s : State} {op : Op} (hi : NoLegacy s) (hop : isSetLegacy op = false) : NoLegacy (step' s op) := by
  rcases step'_cases s op with ⟨s', h, e⟩ | ⟨_, e⟩
  · rw [e]; exact NoLegacy_step hi hop h
  · rw [e]; exact hi

theorem NoLegacy_run {s : State} {ops : List Op} (hi : NoLegacy s) (hops : ∀ op ∈ ops, isSetLegacy op = false) :
    NoLegacy (run s ops) := by
  induction ops generalizing s with
  | nil => exact hi
  | cons op ops ih =>
    rw [run_cons]
    exact ih (NoLegacy_step' hi (hops op (List.mem_cons_self ..))) (fun o ho => hops o (List.mem_cons_of_mem _ ho))

end LP.CF
