import LaunchpadModel.Lemmas.OpenEditionFull
import LaunchpadModel.Lemmas.VendingFullWindow
/-!
# Open-edition composite ⟶ C04 aspect model (`LP.SaleWindow`, family `openEdition`), part 2

The synthesised whitelist (`VF.synthWl` and its lemmas, Lemmas/VendingFullWindow.lean) is shared with the vending composite —
it only speaks about the interface type `VF.WlInfo`.  Here: aspect-side introduction lemmas for the open-edition family (end-time
gate, optional counter, the uncapped-flex extra limit), the projection, and the gate components.
-/
namespace LP.OE
open LP
open LP.VF (WlInfo SenderView MintKind synthWl liveStage liveIdx proofArg swKind swShape synth_kind synth_config
  synth_activeStage synth_activeIdx synth_hasMemberPlain synth_hasMemberProof synth_memberCount swKind_isTiered
  swKind_isMerkle configParses_eq stageParses_eq)
open LP.SaleWindow (Wl Stage Leaf ProofArg WlConfig)

def swVariant (v : Variant) : SaleWindow.Variant := ⟨.openEdition, swShape v.flavor⟩

/-! ## aspect-side introduction lemmas -/

theorem sw_executeMint_intro {s : SaleWindow.State} {m : SaleWindow.Minter} {sender : Addr} {funds : List Coin}
    {isAdmin : Bool} {kind : SaleWindow.MintKind} {price : Coin}
    (hmint : m.mintable ≠ some 0) (hprice : SaleWindow.mintPrice s m isAdmin = .ok price)
    (hpay : mayPay funds price.denom = .ok price.amount) :
    SaleWindow.executeMint s m sender funds isAdmin kind =
      .ok (match kind with
        | .pub => { m with mintable := m.mintable.map (· - 1), pubCount := SaleWindow.bump m.pubCount sender }
        | .wl none => { m with mintable := m.mintable.map (· - 1), wlCount := SaleWindow.bump m.wlCount sender }
        | .wl (some id) =>
          { m with mintable := m.mintable.map (· - 1),
                   stCount := fun i => if i = id then SaleWindow.bump (m.stCount id) sender else m.stCount i,
                   stTotal := fun i => if i = id then m.stTotal id + 1 else m.stTotal i }) := by
  unfold SaleWindow.executeMint
  have hm : (match m.mintable with | some 0 => (throw Err.soldOut : Except Err PUnit) | _ => pure ()) = pure () := by
    cases hx : m.mintable with
    | none => rfl
    | some n =>
      cases n with
      | zero => exact absurd hx hmint
      | succ k => rfl
  simp only [hm, hprice, hpay, bind, Except.bind, pure, Except.pure]
  cases kind with
  | pub => simp
  | wl slot => cases slot <;> simp

theorem sw_mintSender_intro {s : SaleWindow.State} {m m' : SaleWindow.Minter} {a : SaleWindow.MintArgs}
    {kind : SaleWindow.MintKind} (hv : s.v.family = .openEdition)
    (hk : SaleWindow.isPublicMint s m a = .ok kind)
    (hpub : kind = .pub → m.start ≤ s.now ∧ m.pubCount a.sender < m.perAddr)
    (hend : ∀ e, m.stop = some e → s.now < e)
    (hex : SaleWindow.executeMint s m a.sender a.funds false kind = .ok m') :
    SaleWindow.mintSender s m a = .ok m' := by
  unfold SaleWindow.mintSender
  simp only [hv, hk, bind, Except.bind, pure, Except.pure]
  cases hs : m.stop with
  | none =>
    by_cases hp : kind = .pub
    · subst hp
      obtain ⟨h1, h2⟩ := hpub rfl
      have h1' : ¬ s.now < m.start := by omega
      have h2' : ¬ m.pubCount a.sender ≥ m.perAddr := by omega
      simp [h1', h2']
      exact hex
    · simp [hp]
      exact hex
  | some e =>
    have hlt := hend e hs
    have h' : ¬ e ≤ s.now := by omega
    by_cases hp : kind = .pub
    · subst hp
      obtain ⟨h1, h2⟩ := hpub rfl
      have h1' : ¬ s.now < m.start := by omega
      have h2' : ¬ m.pubCount a.sender ≥ m.perAddr := by omega
      simp [h1', h2', h']
      exact hex
    · simp [hp, h']
      exact hex

theorem sw_wlMintChecks_intro {s : SaleWindow.State} {m : SaleWindow.Minter} {k : Nat} {w : Wl} {cfg : WlConfig}
    {a : SaleWindow.MintArgs} {slot : Option Nat} {lim : Nat}
    (hv : s.v.family = .openEdition)
    (hmem : SaleWindow.memberCheck s.v k w s.now a = .ok true)
    (hslot : SaleWindow.wlSlot w s.now = .ok slot)
    (hlim : SaleWindow.wlLimit s.v w s.now cfg a = .ok lim)
    (hcnt0 : slot = none → m.wlCount a.sender < lim) (hcnt1 : ∀ id, slot = some id → m.stCount id a.sender < lim)
    (hflex : s.v.shape = .flex → m.capped = false →
      (slot = none → m.wlCount a.sender < m.perAddr) ∧ (∀ id, slot = some id → m.stCount id a.sender < m.perAddr))
    (hstage : ∀ id, slot = some id → SaleWindow.stageParses s.v.shape w.kind = true ∧
      ∃ st, w.activeStage s.now = some st ∧ ∀ l, st.countLimit = some l → m.stTotal id < l) :
    SaleWindow.wlMintChecks s m k w cfg a = .ok (.wl slot) := by
  unfold SaleWindow.wlMintChecks
  simp only [hmem, hslot, hlim, hv, bind, Except.bind, pure, Except.pure]
  cases slot with
  | none =>
    have h0 := hcnt0 rfl
    have h0' : ¬ m.wlCount a.sender ≥ lim := by omega
    by_cases hfx : s.v.shape = .flex ∧ m.capped = false
    · have := (hflex hfx.1 hfx.2).1 rfl
      simp [hfx.1, hfx.2, this, h0']
    · by_cases h1 : s.v.shape = .flex
      · have h2 : m.capped = true := by cases hc : m.capped <;> simp_all
        simp [h1, h2, h0']
      · simp [h1, h0']
  | some id =>
    have h0 := hcnt1 id rfl
    have h1 : ¬ m.stCount id a.sender ≥ lim := by omega
    obtain ⟨hp, st, hst, hl⟩ := hstage id rfl
    have hflx : ¬ (s.v.shape = .flex ∧ m.capped = false ∧ ¬ m.stCount id a.sender < m.perAddr) := by
      intro hx
      exact hx.2.2 ((hflex hx.1 hx.2.1).2 id rfl)
    have h1' : ¬ lim ≤ m.stCount id a.sender := by omega
    have hper : s.v.shape = .flex → m.capped = false → m.stCount id a.sender < m.perAddr :=
      fun ha hb => (hflex ha hb).2 id rfl
    cases hcl : st.countLimit with
    | none =>
      cases hsh : s.v.shape <;> cases hc : m.capped <;> rw [hsh] at hp <;>
        first
        | (have := hper hsh hc; simp [hsh, hc, hp, hst, hcl, h1', this])
        | simp [hsh, hc, hp, hst, hcl, h1']
    | some l =>
      have hl' := hl l hcl
      have h2' : ¬ l ≤ m.stTotal id := by omega
      cases hsh : s.v.shape <;> cases hc : m.capped <;> rw [hsh] at hp <;>
        first
        | (have := hper hsh hc; simp [hsh, hc, hp, hst, hcl, h1', h2', this])
        | simp [hsh, hc, hp, hst, hcl, h1', h2']

/-! ## projection -/

def swParams (p : Params) : SaleWindow.Params :=
  { denom := p.minMintPrice.denom, minPrice := p.minMintPrice.amount, airdropPrice := p.airdropMintPrice.amount,
    maxTokenLimit := p.maxTokenLimit }

def swMinter (m : Minter) : SaleWindow.Minter :=
  { admin := m.admin, start := m.startTime, stop := m.endTime, wl := m.whitelist, price := m.mintPrice,
    perAddr := m.perAddressLimit, capped := m.numTokens.isSome, mintable := m.seq.mintable,
    pubCount := m.pub, wlCount := m.wlc, stCount := m.stg, stTotal := m.tot }

def swOf (s : State) (m : Minter) (W : Nat → Option Wl) : SaleWindow.State :=
  { v := swVariant m.v, now := s.now, params := swParams s.params, wls := W, minter := some (swMinter m) }

def swKindOf : MintKind → SaleWindow.MintKind
  | .pub => .pub
  | .wl sid _ => if sid = 0 then .wl none else .wl (some sid)

/-- an active tiered whitelist names its active stage (the only coherence this family needs) -/
def InfoCoherent (i : WlInfo) : Prop := i.kind.tieredName = true → i.active = true → 1 ≤ i.stageId

def claimOf (sender : Addr) (f : MintLimits.Fields) : Leaf := ⟨f.stage, sender, f.alloc⟩

def membersOf (sender : Addr) (sv : SenderView) : List (Addr × Nat) :=
  if sv.memberPlain then [(sender, sv.memberCount)] else []

def leavesOf (sender : Addr) (f : MintLimits.Fields) (sv : SenderView) : List Leaf :=
  if sv.leafOk then [claimOf sender f] else []

def mintWl (i : WlInfo) (now : Nat) (sender : Addr) (f : MintLimits.Fields) (sv : SenderView) : Wl :=
  synthWl (some i) now (membersOf sender sv) (leavesOf sender f sv)

def mintArgs (a : Addr) (i : Option WlInfo) (sender : Addr) (funds : List Coin) (f : MintLimits.Fields) (sv : SenderView) :
    SaleWindow.MintArgs :=
  { sender := sender, funds := funds, stage := f.stage, alloc := f.alloc,
    proof := proofArg a (match i with | some i => liveIdx i | none => 0) (claimOf sender f) f.proof sv.leafOk }

theorem proofArg_absent_iff (k idx : Nat) (claim : Leaf) (presented leafOk : Bool) :
    (proofArg k idx claim presented leafOk = .absent) ↔ presented = false := by
  unfold proofArg
  cases presented <;> cases leafOk <;> simp

/-! ## the gate components -/

theorem sw_memberCheck {s : State} {m : Minter} {a : Addr} {i : WlInfo} {sender : Addr} {funds : List Coin}
    {f : MintLimits.Fields} {sv : SenderView} {leaf : Bool}
    (hact : i.active = true) (hmem : hasMember m.v i f sv = .ok (true, leaf)) :
    SaleWindow.memberCheck (swVariant m.v) a (mintWl i s.now sender f sv) s.now (mintArgs a (some i) sender funds f sv) = .ok true ∧
    (leaf = false → sv.memberPlain = true) := by
  unfold hasMember at hmem
  unfold SaleWindow.memberCheck
  simp only [swVariant, mintWl]
  have hproof : (mintArgs a (some i) sender funds f sv).proof = proofArg a (liveIdx i) (claimOf sender f) f.proof sv.leafOk := rfl
  have hsender : (mintArgs a (some i) sender funds f sv).sender = sender := rfl
  by_cases hfl : m.v.flavor = .merkle
  · rw [if_pos hfl] at hmem
    cases hp : f.proof with
    | false => simp [hp] at hmem
    | true =>
      simp only [hp, Bool.true_eq_false, if_false] at hmem
      split at hmem
      · rename_i hans
        simp only [Except.ok.injEq, Prod.mk.injEq] at hmem
        obtain ⟨hleafOk, hleaf⟩ := hmem
        refine ⟨?_, fun hl => by rw [← hleaf] at hl; cases hl⟩
        simp only [hfl, swShape]
        have hna : ¬ (proofArg a (liveIdx i) (claimOf sender f) f.proof sv.leafOk = ProofArg.absent) := by
          rw [proofArg_absent_iff]; simp [hp]
        rw [hproof, if_neg hna]
        have := synth_hasMemberProof i s.now a (claimOf sender f) sv.leafOk (membersOf sender sv) hact hans
        rw [hp]
        unfold leavesOf
        rw [hleafOk] at this ⊢
        exact this
      · cases hmem
  · rw [if_neg hfl] at hmem
    split at hmem
    · rename_i hans
      simp only [Except.ok.injEq, Prod.mk.injEq] at hmem
      obtain ⟨hmp, hleaf⟩ := hmem
      have hplain := synth_hasMemberPlain i s.now sender sv.memberCount sv.memberPlain (leavesOf sender f sv) hact hans
      rw [hmp] at hplain
      have hplain' : (synthWl (some i) s.now (membersOf sender sv) (leavesOf sender f sv)).hasMemberPlain s.now sender = .ok true := by
        unfold membersOf; rw [hmp]; exact hplain
      refine ⟨?_, fun _ => hmp⟩
      cases hfl' : m.v.flavor with
      | plain => simp only [swShape, hsender]; exact hplain'
      | flex => simp only [swShape, hsender]; exact hplain'
      | merkle => exact absurd hfl' hfl
    · cases hmem

theorem sw_wlSlot {m : Minter} {i : WlInfo} {now : Nat} {sender : Addr} {ms : List (Addr × Nat)} {ls : List Leaf}
    {cnt sid : Nat} (hact : i.active = true) (hcnt : whitelistMintCount m i sender = .ok (cnt, sid)) :
    SaleWindow.wlSlot (synthWl (some i) now ms ls) now = .ok (if sid = 0 then none else some sid) ∧
    cnt = (if sid = 0 then m.wlc sender else m.stg sid sender) := by
  unfold whitelistMintCount at hcnt
  unfold SaleWindow.wlSlot
  rw [synth_kind, swKind_isTiered, synth_activeIdx]
  split at hcnt
  · rename_i ht
    split at hcnt
    · rename_i hr
      simp only [Except.ok.injEq, Prod.mk.injEq] at hcnt
      obtain ⟨hc, hs⟩ := hcnt
      subst hs
      have hne : i.stageId ≠ 0 := by omega
      have hlt : liveIdx i < 3 := by simp [liveIdx, ht]; omega
      have hli : liveIdx i + 1 = i.stageId := by simp [liveIdx, ht]; omega
      simp [ht, hact, hlt, hli, hne, hc.symm]
    · cases hcnt
  · rename_i ht
    simp only [Except.ok.injEq, Prod.mk.injEq] at hcnt
    obtain ⟨hc, hs⟩ := hcnt
    subst hs
    have ht' : i.kind.tieredName = false := by cases h : i.kind.tieredName <;> simp_all
    simp [ht', hc.symm]

theorem sw_wlLimit {s : State} {m : Minter} {a : Addr} {i : WlInfo} {sender : Addr} {funds : List Coin}
    {f : MintLimits.Fields} {sv : SenderView} {ent : Nat} {cfg : WlConfig}
    (hcfg : cfg.perAddr = i.limit) (hact : i.active = true) (hmp : m.v.flavor = .flex → sv.memberPlain = true)
    (hent : wlEntitlement m.v i f sv = .ok ent) :
    SaleWindow.wlLimit (swVariant m.v) (mintWl i s.now sender f sv) s.now cfg (mintArgs a (some i) sender funds f sv) = .ok ent := by
  unfold wlEntitlement at hent
  unfold SaleWindow.wlLimit
  simp only [swVariant]
  cases hfl : m.v.flavor with
  | plain =>
    simp only [hfl] at hent
    cases hent
    simp [swShape, hcfg]
  | flex =>
    simp only [hfl] at hent
    split at hent
    · cases hent
      have hm := hmp hfl
      simp only [swShape, mintWl, synth_activeStage, hact, if_true, mintArgs, membersOf, hm]
      rw [synth_memberCount]
    · cases hent
  | merkle =>
    simp only [hfl] at hent
    cases hent
    have halloc : (mintArgs a (some i) sender funds f sv).alloc = f.alloc := rfl
    simp [swShape, halloc, hcfg]

end LP.OE
