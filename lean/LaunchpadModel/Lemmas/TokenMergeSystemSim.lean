import LaunchpadModel.Lemmas.TokenMergeSystemColl3
import LaunchpadModel.Lemmas.LaunchpadSystem2View
/-!
# Token-merge SYSTEM composite: an accepted deposit IS a `TMF.send` on the views (`deposit_sim`)

The simplified interface of `LP.TMF` has no approvals: its `send caller …` is by the OWNER, and the hook's default recipient is that
caller.  An accepted system deposit by `sender` (owner, approved spender or operator) with recipient `r` is therefore the `TMF` op
`send <current owner> coll id minter (some (r.getD sender)) true picked`; `deposit_sim` proves that `TMF.step` accepts it on
`tmfOf s` and that its result — owner tables after `srcTransfer` + `srcBurn`, ledger / supply after `receiveNft`, the target's
token table after `Coll.mint` — IS `tmfOf` of the system's post-state, whose collections were computed by the `CF` steps.
-/
namespace LP.SysTM
open LP

/-- `TMF.receiveNft` is `hookMinter` followed by the burn of the deposited token on the owner table -/
theorem receiveNft_eq (t : TMF.State) (m : TMF.Minter) (caller sender : Addr) (id : Nat) (recipient : Option Addr) (picked : Nat) :
    TMF.receiveNft t m caller sender id recipient picked =
      match hookMinter t.now m caller sender recipient picked with
      | .error e => .error e
      | .ok (m', _) => TMF.burnDeposit t m caller id m' := by
  unfold TMF.receiveNft hookMinter completes
  by_cases h1 : m.startTime < t.now
  · by_cases h2 : m.mintCount (recipient.getD sender) < m.perAddressLimit
    · cases h3 : TMF.requiredOf m.mintTokens caller with
      | none => simp [h1, h2]
      | some amt =>
        by_cases h4 : m.ledger (recipient.getD sender) caller < amt
        · cases h5 : TMF.allReceived m.mintTokens (TMF.creditLedger m.ledger (recipient.getD sender) caller (recipient.getD sender)) with
          | false => simp [h1, h2, h4]
          | true =>
            cases TMF.deliver m (.at picked) (recipient.getD sender) <;> simp [h1, h2, h4]
        · simp [h1, h2, h4]
    · simp [h1, h2]
  · simp [h1]

/-- the hook reads `recipient` and the cw721 `sender` only through `recipient.unwrap_or(sender)` -/
theorem hookMinter_rcpt (now : Nat) (m : TMF.Minter) (caller sender sender' : Addr) (recipient : Option Addr) (picked : Nat) :
    hookMinter now m caller sender' (some (recipient.getD sender)) picked = hookMinter now m caller sender recipient picked := by
  unfold hookMinter completes
  simp only [Option.getD_some]

/-! ## the bank: messages without funds move no coins -/

theorem execOn_bank {s : State} {bank bank' : MintPay.Bank} {c c' : CF.Coll} {sender : Addr} {m : CF.ExecMsg}
    (hr : CF.responseMsgs c.self [] m = []) (h : execOn s bank c sender [] m = .ok (bank', c')) : bank' = bank := by
  unfold execOn at h
  split at h
  · cases h
  · rename_i q hq
    obtain ⟨c0, b1, core', b2, hc, hb1, _, hb2, rfl⟩ := CF.exec_ok hq
    simp only at hc hb1
    cases hc
    simp only at h
    cases h
    rw [hr] at hb2
    simp only [MintPay.applyMsgs, Option.some.injEq] at hb2
    simp only [MintPay.Bank.sendFunds, Option.some.injEq] at hb1
    rw [← hb2, ← hb1]

/-! ## the source table after a deposit -/

theorem map_fst_setColl (l : List (Addr × CF.Coll)) (a : Addr) (c' : CF.Coll) : (setColl l a c').map Prod.fst = l.map Prod.fst := by
  induction l with
  | nil => rfl
  | cons x xs ih =>
    obtain ⟨d, e⟩ := x
    unfold setColl
    by_cases hd : d = a
    · simp [hd]
    · simp only [hd, if_false, List.map_cons]; rw [ih]

theorem mem_colls_of_lookup {l : List (Addr × CF.Coll)} {a : Addr} {c : CF.Coll} (h : lookup l a = some c) : a ∈ l.map Prod.fst := by
  induction l with
  | nil => simp [lookup] at h
  | cons x xs ih =>
    obtain ⟨d, e⟩ := x
    unfold lookup at h
    by_cases hd : d = a
    · simp [hd]
    · simp only [hd, if_false] at h
      exact List.mem_cons_of_mem _ (ih h)

/-- the owner tables `TMF` computes for a deposit (`srcTransfer` to the minter, then `srcBurn` by the minter) are the view of
the source table after the two `CF` steps -/
theorem srcsView_deposit (l : List (Addr × CF.Coll)) (coll mAddr : Addr) (id : Nat) (c : CF.Coll) (t t' : Sg721.Token)
    (hc : lookup l coll = some c) (hf : c.core.find? id = some t) (hid : t'.id = id) :
    srcsView (setColl (setColl l coll { c with core := c.core.setToken t' }) coll
        { c with core := (c.core.setToken t').removeToken id }) =
      { colls := l.map Prod.fst
        owner := fun a i => if a = coll ∧ i = id then none
                 else if a = coll ∧ i = id then some mAddr else (srcsView l).owner a i
        num := fun a => if a = coll then (srcsView l).num coll - 1 else (srcsView l).num a } := by
  have hl1 : lookup (setColl l coll { c with core := c.core.setToken t' }) coll = some { c with core := c.core.setToken t' } :=
    lookup_setColl_same _ hc
  unfold srcsView
  congr 1
  · rw [map_fst_setColl, map_fst_setColl]
  · funext a i
    by_cases ha : a = coll
    · subst ha
      rw [lookup_setColl_same _ hl1]
      simp only [Option.bind_some, ownerIn, true_and, hc]
      by_cases hi : i = id
      · subst hi
        simp [Sg721.find?_removeToken]
      · simp only [hi, if_false, Sg721.find?_removeToken, Sg721.find?_setToken]
        have : ¬ i = t'.id := by rw [hid]; exact hi
        simp [this]
    · simp only [ha, false_and, if_false]
      rw [lookup_setColl_other _ _ ha, lookup_setColl_other _ _ ha]
  · funext a
    by_cases ha : a = coll
    · subst ha
      rw [lookup_setColl_same _ hl1]
      simp [hc, Sg721.State.removeToken, Sg721.State.setToken]
    · simp only [ha, if_false]
      rw [lookup_setColl_other _ _ ha, lookup_setColl_other _ _ ha]

end LP.SysTM
