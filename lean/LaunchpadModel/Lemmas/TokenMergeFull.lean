import LaunchpadModel.Model.TokenMergeFull
/-!
# Inversion lemmas for the composite token-merge model `LP.TMF` (one per handler) — same shape as `Lemmas/VendingFull.lean`
-/
namespace LP.TMF
open LP
open LP.VF (Pick takeToken GENESIS)

macro "peel " h:ident : tactic => `(tactic| (split at $h:ident <;> try contradiction))

theorem step'_ok {s s' : State} {op : Op} (h : step s op = .ok s') : step' s op = s' := by simp [step', h]
theorem step'_err {s : State} {op : Op} {e : Err} (h : step s op = .error e) : step' s op = s := by simp [step', h]

theorem step'_cases (s : State) (op : Op) :
    (∃ s', step s op = .ok s' ∧ step' s op = s') ∨ ((∃ e, step s op = .error e) ∧ step' s op = s) := by
  cases h : step s op with
  | ok s' => exact Or.inl ⟨s', rfl, step'_ok h⟩
  | error e => exact Or.inr ⟨⟨e, rfl⟩, step'_err h⟩

/-- the composite's own verdict on a message -/
def accepted (s : State) (op : Op) : Bool :=
  match step s op with
  | .ok _ => true
  | .error _ => false

theorem accepted_of_ok {s s' : State} {op : Op} (h : step s op = .ok s') : accepted s op = true := by
  simp [accepted, h]

theorem accepted_of_err {s : State} {op : Op} {e : Err} (h : step s op = .error e) : accepted s op = false := by
  simp [accepted, h]

theorem run_cons (s : State) (op : Op) (ops : List Op) : run s (op :: ops) = run (step' s op) ops := rfl

theorem run_inv (P : State → Prop) (hstep : ∀ s op, P s → P (step' s op)) (s : State) (h0 : P s) (ops : List Op) :
    P (run s ops) := by
  induction ops generalizing s with
  | nil => exact h0
  | cons op ops ih => exact ih _ (hstep s op h0)

theorem nonpayable_ok {funds : List Coin} (h : nonpayable funds = .ok ()) : funds = [] := by
  unfold nonpayable at h
  split at h
  · rename_i he; simpa using he
  · cases h

theorem adminOnly_ok {m : Minter} {sender : Addr} {funds : List Coin} (h : adminOnly m sender funds = .ok ()) :
    funds = [] ∧ sender = m.admin := by
  unfold adminOnly at h
  peel h
  rename_i hn
  peel h
  rename_i hs
  exact ⟨nonpayable_ok hn, by simpa using hs⟩

theorem withMinter_ok {s s' : State} {f : Minter → Except Err Minter} (h : withMinter s f = .ok s') :
    ∃ m m', s.minter = some m ∧ f m = .ok m' ∧ s' = { s with minter := some m' } := by
  unfold withMinter at h
  peel h
  rename_i m hm
  peel h
  rename_i m' hf
  cases h
  exact ⟨m, m', hm, hf, rfl⟩

theorem withMinterS_ok {s s' : State} {f : Minter → Except Err State} (h : withMinterS s f = .ok s') :
    ∃ m, s.minter = some m ∧ f m = .ok s' := by
  unfold withMinterS at h
  peel h
  rename_i m hm
  exact ⟨m, hm, h⟩

theorem onColl_ok {s s' : State} {f : TT.Coll → Except Err TT.Coll} (h : onColl s f = .ok s') :
    ∃ m c, s.minter = some m ∧ f m.tt = .ok c ∧ s' = { s with minter := some { m with tt := c } } := by
  unfold onColl at h
  obtain ⟨m, m', hm, hf, rfl⟩ := withMinter_ok h
  peel hf
  rename_i c hc
  cases hf
  exact ⟨m, c, hm, hc, rfl⟩

theorem onSrcs_ok {s s' : State} {f : Srcs → Except Err Srcs} (h : onSrcs s f = .ok s') :
    ∃ x, f s.srcs = .ok x ∧ s' = { s with srcs := x } := by
  unfold onSrcs at h
  peel h
  rename_i x hx
  cases h
  exact ⟨x, hx, rfl⟩

/-! ## source collections -/

theorem srcGive_ok {x x' : Srcs} {c : Addr} {id : Nat} {to : Addr} (h : srcGive x c id to = .ok x') :
    c ∈ x.colls ∧ x.owner c id = none ∧
      x' = { x with owner := x.set c id (some to), num := fun c' => if c' = c then x.num c + 1 else x.num c' } := by
  unfold srcGive at h
  peel h
  rename_i hc
  cases h
  exact ⟨hc.1, hc.2, rfl⟩

theorem srcTransfer_ok {x x' : Srcs} {caller c : Addr} {id : Nat} {to : Addr} (h : srcTransfer x caller c id to = .ok x') :
    c ∈ x.colls ∧ x.owner c id = some caller ∧ x' = { x with owner := x.set c id (some to) } := by
  unfold srcTransfer at h
  peel h
  rename_i hc
  cases h
  exact ⟨hc.1, hc.2, rfl⟩

theorem srcBurn_ok {x x' : Srcs} {caller c : Addr} {id : Nat} (h : srcBurn x caller c id = .ok x') :
    c ∈ x.colls ∧ x.owner c id = some caller ∧
      x' = { x with owner := x.set c id none, num := fun c' => if c' = c then x.num c - 1 else x.num c' } := by
  unfold srcBurn at h
  peel h
  rename_i hc
  cases h
  exact ⟨hc.1, hc.2, rfl⟩

/-! ## mint -/

theorem deliver_ok {m m' : Minter} {pk : Pick} {rcpt : Addr} (h : deliver m pk rcpt = .ok m') :
    ∃ sup, m.supply.mintable ≠ 0 ∧ m.tt.owner = some m.addr ∧ m.tt.kind ≠ .metadata ∧ takeToken m.supply pk rcpt = some sup ∧
      m' = { m with supply := sup, mintCount := MintLimits.upd m.mintCount rcpt (m.mintCount rcpt + 1) } := by
  unfold deliver at h
  peel h
  rename_i hz
  peel h
  rename_i ho
  peel h
  rename_i hk
  peel h
  rename_i sup hs
  cases h
  refine ⟨sup, hz, Decidable.byContradiction fun hc => ho hc, ?_, hs, rfl⟩
  intro hm
  apply hk
  simp [mintParses, hm]

theorem burnDeposit_ok {s s' : State} {m m' : Minter} {caller : Addr} {tokenId : Nat}
    (h : burnDeposit s m caller tokenId m' = .ok s') :
    ∃ x, srcBurn s.srcs m.addr caller tokenId = .ok x ∧ s' = { s with srcs := x, minter := some m' } := by
  unfold burnDeposit at h
  peel h
  rename_i x hx
  cases h
  exact ⟨x, hx, rfl⟩

/-- the two ways a deposit succeeds: a credit only, or a credit that completes the requirement and mints -/
theorem receiveNft_ok {s s' : State} {m : Minter} {caller sender : Addr} {tokenId : Nat} {recipient : Option Addr}
    {picked : Nat} (h : receiveNft s m caller sender tokenId recipient picked = .ok s') :
    ∃ amt,
      m.startTime < s.now ∧ m.mintCount (recipient.getD sender) < m.perAddressLimit ∧
      requiredOf m.mintTokens caller = some amt ∧ m.ledger (recipient.getD sender) caller < amt ∧
      ((allReceived m.mintTokens (creditLedger m.ledger (recipient.getD sender) caller (recipient.getD sender)) = true ∧
          ∃ m1, deliver m (.at picked) (recipient.getD sender) = .ok m1 ∧
            burnDeposit s m caller tokenId
              { m1 with ledger := clearLedger (creditLedger m.ledger (recipient.getD sender) caller) (recipient.getD sender)
                                    m.mintTokens } = .ok s') ∨
       (allReceived m.mintTokens (creditLedger m.ledger (recipient.getD sender) caller (recipient.getD sender)) = false ∧
          burnDeposit s m caller tokenId { m with ledger := creditLedger m.ledger (recipient.getD sender) caller } = .ok s')) := by
  unfold receiveNft at h
  peel h
  rename_i hst
  peel h
  rename_i hlim
  peel h
  rename_i amt hreq
  peel h
  rename_i hled
  have h1 : m.startTime < s.now := Decidable.byContradiction fun hc => hst hc
  have h2 : m.mintCount (recipient.getD sender) < m.perAddressLimit := Decidable.byContradiction fun hc => hlim hc
  have h3 : m.ledger (recipient.getD sender) caller < amt := Decidable.byContradiction fun hc => hled hc
  refine ⟨amt, h1, h2, hreq, h3, ?_⟩
  split at h
  · rename_i hall
    peel h
    rename_i m1 hd
    exact Or.inl ⟨hall, m1, hd, h⟩
  · rename_i hall
    exact Or.inr ⟨by simpa using hall, h⟩

theorem sendNft_ok {s s' : State} {caller coll : Addr} {id : Nat} {contract : Addr} {recipient : Option Addr} {msgOk : Bool}
    {picked : Nat} (h : sendNft s caller coll id contract recipient msgOk picked = .ok s') :
    ∃ x m, srcTransfer s.srcs caller coll id contract = .ok x ∧ s.minter = some m ∧ contract = m.addr ∧ msgOk = true ∧
      receiveNft { s with srcs := x } m coll caller id recipient picked = .ok s' := by
  unfold sendNft at h
  peel h
  rename_i x hx
  peel h
  rename_i m hm
  peel h
  rename_i hc
  peel h
  rename_i hmk
  refine ⟨x, m, hx, hm, Decidable.byContradiction fun hne => hc hne, ?_, h⟩
  cases msgOk <;> simp_all

theorem receiveDirect_ok {s s' : State} {m : Minter} {caller sender : Addr} {id : Nat} {recipient : Option Addr}
    {msgOk : Bool} {picked : Nat} (h : receiveDirect s m caller sender id recipient msgOk picked = .ok s') :
    msgOk = true ∧ receiveNft s m caller sender id recipient picked = .ok s' := by
  unfold receiveDirect at h
  peel h
  rename_i hmk
  refine ⟨?_, h⟩
  cases msgOk <;> simp_all

theorem airdropMsgs_ok {p : Params} {m : Minter} {ms : List Msg} (h : airdropMsgs p m = .ok ms) :
    networkFee p ≤ p.airdropMintPrice.amount ∧
      ms = (if networkFee p = 0 then [] else Sg1.distributeMintFees ⟨p.airdropMintPrice.denom, networkFee p⟩ false none) ++
           (if p.airdropMintPrice.amount - networkFee p = 0 then []
            else [Msg.send m.admin ⟨p.airdropMintPrice.denom, p.airdropMintPrice.amount - networkFee p⟩]) := by
  unfold airdropMsgs at h
  peel h
  rename_i hle
  cases h
  exact ⟨by omega, rfl⟩

theorem mintAdmin_ok {s s' : State} {m : Minter} {sender : Addr} {funds : List Coin} {rcpt : Addr} {pk : Pick}
    (h : mintAdmin s m sender funds rcpt pk = .ok s') :
    ∃ b1 ms m1 b2,
      s.bank.sendFunds sender m.addr funds = some b1 ∧ sender = m.admin ∧
      mayPay funds s.params.airdropMintPrice.denom = .ok s.params.airdropMintPrice.amount ∧
      airdropMsgs s.params m = .ok ms ∧ deliver m pk rcpt = .ok m1 ∧ MintPay.applyMsgs m.addr b1 ms = some b2 ∧
      s' = { s with bank := b2, minter := some m1 } := by
  unfold mintAdmin at h
  peel h
  rename_i b1 hb1
  peel h
  rename_i hadm
  peel h
  rename_i payment hpay
  peel h
  rename_i hexact
  peel h
  rename_i ms hms
  peel h
  rename_i m1 hd
  peel h
  rename_i b2 hb2
  cases h
  have hp : payment = s.params.airdropMintPrice.amount := Decidable.byContradiction fun hc => hexact hc
  subst hp
  exact ⟨b1, ms, m1, b2, hb1, Decidable.byContradiction fun hc => hadm hc, hpay, hms, hd, hb2, rfl⟩

/-! ## configuration messages -/

theorem purge_ok {m m' : Minter} {funds : List Coin} (h : purge m funds = .ok m') :
    funds = [] ∧ m.supply.mintable = 0 ∧ m' = { m with mintCount := MintLimits.zero } := by
  unfold purge at h
  peel h
  rename_i hn
  peel h
  rename_i hz
  cases h
  exact ⟨nonpayable_ok hn, Decidable.byContradiction fun hc => hz hc, rfl⟩

theorem updateStartTime_ok {s : State} {m m' : Minter} {sender : Addr} {funds : List Coin} {t : Nat}
    (h : updateStartTime s m sender funds t = .ok m') :
    funds = [] ∧ sender = m.admin ∧ s.now < m.startTime ∧ s.now ≤ t ∧ GENESIS ≤ t ∧ m' = { m with startTime := t } := by
  unfold updateStartTime at h
  peel h
  rename_i ha
  obtain ⟨hf, hs⟩ := adminOnly_ok ha
  peel h
  rename_i h1
  peel h
  rename_i h2
  peel h
  rename_i h3
  cases h
  exact ⟨hf, hs, by omega, by omega, by omega, rfl⟩

theorem updateStartTradingTime_ok {s : State} {m m' : Minter} {sender : Addr} {funds : List Coin} {t : Option Nat}
    (h : updateStartTradingTime s m sender funds t = .ok m') :
    ∃ c, funds = [] ∧ sender = m.admin ∧
      TT.tradingUpdateOk .tokenMerge s.now m.startTime s.params.maxTradingOffsetSecs t = true ∧
      m.tt.updateTrading m.addr t = .ok c ∧ m' = { m with tt := c } := by
  unfold updateStartTradingTime at h
  peel h
  rename_i ha
  obtain ⟨hf, hs⟩ := adminOnly_ok ha
  peel h
  rename_i hok
  peel h
  rename_i c hc
  cases h
  refine ⟨c, hf, hs, ?_, hc, rfl⟩
  cases hx : TT.tradingUpdateOk .tokenMerge s.now m.startTime s.params.maxTradingOffsetSecs t <;> simp_all

theorem updatePerAddressLimit_ok {s : State} {m m' : Minter} {sender : Addr} {funds : List Coin} {n : Nat}
    (h : updatePerAddressLimit s m sender funds n = .ok m') :
    funds = [] ∧ sender = m.admin ∧ n ≠ 0 ∧ n ≤ s.params.maxPerAddressLimit ∧
      dynLimitOk n m.supply.n s.params.maxPerAddressLimit = true ∧ m' = { m with perAddressLimit := n } := by
  unfold updatePerAddressLimit at h
  peel h
  rename_i ha
  obtain ⟨hf, hs⟩ := adminOnly_ok ha
  peel h
  rename_i h1
  peel h
  rename_i h2
  cases h
  refine ⟨hf, hs, fun h0 => h1 (Or.inl h0), by omega, ?_, rfl⟩
  cases hx : dynLimitOk n m.supply.n s.params.maxPerAddressLimit <;> simp_all

theorem shuffle_ok {s s' : State} {m : Minter} {sender : Addr} {funds : List Coin} {perm : List Nat}
    (h : shuffle s m sender funds perm = .ok s') :
    ∃ b1 ms sup b2, s.bank.sendFunds sender m.addr funds = some b1 ∧
      Sg1.checkedFairBurn funds m.addr s.params.shuffleFee.amount none = .ok ms ∧ m.supply.shuffle perm = some sup ∧
      MintPay.applyMsgs m.addr b1 ms = some b2 ∧ s' = { s with bank := b2, minter := some { m with supply := sup } } := by
  unfold shuffle at h
  peel h
  rename_i b1 hb1
  peel h
  rename_i ms hms
  peel h
  rename_i sup hsup
  peel h
  rename_i b2 hb2
  cases h
  exact ⟨b1, ms, sup, b2, hb1, hms, hsup, hb2, rfl⟩

theorem burnRemaining_ok {m m' : Minter} {sender : Addr} {funds : List Coin} (h : burnRemaining m sender funds = .ok m') :
    ∃ sup, funds = [] ∧ sender = m.admin ∧ m.supply.burnAll = some sup ∧ m' = { m with supply := sup } := by
  unfold burnRemaining at h
  peel h
  rename_i ha
  obtain ⟨hf, hs⟩ := adminOnly_ok ha
  peel h
  rename_i sup hsup
  cases h
  exact ⟨sup, hf, hs, hsup, rfl⟩

theorem collTransfer_ok {m m' : Minter} {sender : Addr} {id : Nat} {to : Addr} (h : collTransfer m sender id to = .ok m') :
    ∃ c, m.tt.kind ≠ .nt ∧ m.supply.coll.ownerOf id = some sender ∧ m.supply.coll.transfer id to = some c ∧
      m' = { m with supply := { m.supply with coll := c } } := by
  unfold collTransfer at h
  peel h
  rename_i hk
  peel h
  rename_i ho
  peel h
  rename_i c hc
  cases h
  exact ⟨c, hk, Decidable.byContradiction fun hx => ho hx, hc, rfl⟩

theorem collBurn_ok {m m' : Minter} {sender : Addr} {id : Nat} (h : collBurn m sender id = .ok m') :
    ∃ c, m.supply.coll.ownerOf id = some sender ∧ m.supply.coll.burn id = some c ∧
      m' = { m with supply := { m.supply with coll := c } } := by
  unfold collBurn at h
  peel h
  rename_i ho
  peel h
  rename_i c hc
  cases h
  exact ⟨c, Decidable.byContradiction fun hx => ho hx, hc, rfl⟩

/-! ## creation -/

theorem instantiateMinter_ok {s : State} {msg : CreateMsg} {w : CreateWit} {m : Minter}
    (h : instantiateMinter s msg w = .ok m) :
    ∃ trading sup ck,
      dynLimitOk msg.perAddressLimit msg.numTokens s.params.maxPerAddressLimit = true ∧ msg.uriOk = true ∧
      GENESIS ≤ msg.startTime ∧ s.now ≤ msg.startTime ∧
      TT.boundedOrDefault msg.startTime s.params.maxTradingOffsetSecs msg.trading = .ok trading ∧
      Supply.Fixed.init msg.numTokens w.perm = some sup ∧ s.codes.collKindOf msg.collCode = some ck ∧ msg.collOk = true ∧
      m = { addr := w.minterAddr, factory := s.factoryAddr, collectionCodeId := msg.collCode, admin := msg.creator,
            startTime := msg.startTime, perAddressLimit := msg.perAddressLimit, mintTokens := msg.mintTokens,
            sg721 := w.collAddr, supply := sup, mintCount := MintLimits.zero, ledger := fun _ => MintLimits.zero,
            status := {}, tt := TT.Coll.init ck w.minterAddr msg.creator trading } := by
  unfold instantiateMinter at h
  peel h
  rename_i h1
  peel h
  rename_i h2
  peel h
  rename_i h3
  peel h
  rename_i h4
  peel h
  rename_i trading htr
  peel h
  rename_i sup hsup
  peel h
  rename_i ck hck
  peel h
  rename_i h5
  refine ⟨trading, sup, ck, ?_, ?_, by omega, by omega, htr, hsup, hck, ?_, by cases h; rfl⟩
  · cases hx : dynLimitOk msg.perAddressLimit msg.numTokens s.params.maxPerAddressLimit <;> simp_all
  · cases hu : msg.uriOk <;> simp_all
  · cases hu : msg.collOk <;> simp_all

theorem factoryChecks_ok {s : State} {funds : List Coin} {msg : CreateMsg} {ms : List Msg}
    (h : factoryChecks s funds msg = .ok ms) :
    (∃ paid, mustPay funds s.params.creationFee.denom = .ok paid) ∧
      s.params.allowed.contains msg.collCode = true ∧ s.params.frozen = false ∧ creationFeeMsgs s funds = .ok ms ∧
      msg.numTokens ≠ 0 ∧ msg.numTokens ≤ s.params.maxTokenLimit ∧
      msg.perAddressLimit ≠ 0 ∧ msg.perAddressLimit ≤ s.params.maxPerAddressLimit := by
  unfold factoryChecks at h
  peel h
  rename_i paid hpaid
  peel h
  rename_i hall
  peel h
  rename_i hfr
  peel h
  rename_i ms' hms
  peel h
  rename_i hn
  peel h
  rename_i hl
  cases h
  refine ⟨⟨paid, hpaid⟩, ?_, ?_, hms, fun h0 => hn (Or.inl h0), by omega, fun h0 => hl (Or.inl h0), by omega⟩
  · cases hx : s.params.allowed.contains msg.collCode <;> simp_all
  · cases hx : s.params.frozen <;> simp_all

theorem createMinter_ok {s s' : State} {sender : Addr} {funds : List Coin} {msg : CreateMsg} {w : CreateWit}
    (h : createMinter s sender funds msg w = .ok s') :
    ∃ b1 ms b2 m, s.minter = none ∧ s.bank.sendFunds sender s.factoryAddr funds = some b1 ∧
      factoryChecks s funds msg = .ok ms ∧ MintPay.applyMsgs s.factoryAddr b1 ms = some b2 ∧
      s.codes.minters.contains s.params.codeId = true ∧ instantiateMinter s msg w = .ok m ∧
      s' = { s with bank := b2, minter := some m } := by
  unfold createMinter at h
  peel h
  rename_i hnone
  peel h
  rename_i b1 hb1
  peel h
  rename_i ms hms
  peel h
  rename_i b2 hb2
  peel h
  rename_i hcode
  peel h
  rename_i m hm
  cases h
  refine ⟨b1, ms, b2, m, ?_, hb1, hms, hb2, ?_, hm, rfl⟩
  · cases hx : s.minter <;> simp_all
  · cases hx : s.codes.minters.contains s.params.codeId <;> simp_all

end LP.TMF
