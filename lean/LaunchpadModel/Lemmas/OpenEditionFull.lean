import LaunchpadModel.Model.OpenEditionFull
/-!
# Inversion lemmas for the composite open-edition model `LP.OE` (one per handler) — same shape as `Lemmas/VendingFull.lean`
-/
namespace LP.OE
open LP
open LP.VF (WlInfo SenderView MintKind)

macro "peel " h:ident : tactic => `(tactic| (split at $h:ident <;> try contradiction))

theorem step'_ok {s s' : State} {op : Op} (h : step s op = .ok s') : step' s op = s' := by simp [step', h]
theorem step'_err {s : State} {op : Op} {e : Err} (h : step s op = .error e) : step' s op = s := by simp [step', h]

theorem step'_cases (s : State) (op : Op) :
    (∃ s', step s op = .ok s' ∧ step' s op = s') ∨ ((∃ e, step s op = .error e) ∧ step' s op = s) := by
  cases h : step s op with
  | ok s' => exact Or.inl ⟨s', rfl, step'_ok h⟩
  | error e => exact Or.inr ⟨⟨e, rfl⟩, step'_err h⟩

def accepted (s : State) (op : Op) : Bool :=
  match step s op with
  | .ok _ => true
  | .error _ => false

theorem accepted_of_ok {s s' : State} {op : Op} (h : step s op = .ok s') : accepted s op = true := by
  simp [accepted, h]

theorem accepted_of_err {s : State} {op : Op} {e : Err} (h : step s op = .error e) : accepted s op = false := by
  simp [accepted, h]

theorem run_cons (s : State) (op : Op) (ops : List Op) : run s (op :: ops) = run (step' s op) ops := rfl

theorem run_inv (P : State → Prop) (hstep : ∀ s op, P s → P (step' s op)) (s : State) (h0 : P s) (ops : List Op) :
    P (run s ops) := by
  induction ops generalizing s with
  | nil => exact h0
  | cons op ops ih => exact ih _ (hstep s op h0)

theorem nonpayable_ok {funds : List Coin} (h : nonpayable funds = .ok ()) : funds = [] := by
  unfold nonpayable at h
  split at h
  · rename_i he; simpa using he
  · cases h

theorem adminOnly_ok {m : Minter} {sender : Addr} {funds : List Coin} (h : adminOnly m sender funds = .ok ()) :
    funds = [] ∧ sender = m.admin := by
  unfold adminOnly at h
  peel h
  rename_i hn
  peel h
  rename_i hs
  exact ⟨nonpayable_ok hn, by simpa using hs⟩

theorem withMinter_ok {s s' : State} {f : Minter → Except Err Minter} (h : withMinter s f = .ok s') :
    ∃ m m', s.minter = some m ∧ f m = .ok m' ∧ s' = { s with minter := some m' } := by
  unfold withMinter at h
  peel h
  rename_i m hm
  peel h
  rename_i m' hf
  cases h
  exact ⟨m, m', hm, hf, rfl⟩

theorem withMinterS_ok {s s' : State} {f : Minter → Except Err State} (h : withMinterS s f = .ok s') :
    ∃ m, s.minter = some m ∧ f m = .ok s' := by
  unfold withMinterS at h
  peel h
  rename_i m hm
  exact ⟨m, hm, h⟩

theorem onColl_ok {s s' : State} {f : TT.Coll → Except Err TT.Coll} (h : onColl s f = .ok s') :
    ∃ m c, s.minter = some m ∧ f m.tt = .ok c ∧ s' = { s with minter := some { m with tt := c } } := by
  unfold onColl at h
  obtain ⟨m, m', hm, hf, rfl⟩ := withMinter_ok h
  peel hf
  rename_i c hc
  cases hf
  exact ⟨m, c, hm, hc, rfl⟩

/-! ## mint -/

theorem wlConfig_ok {s : State} {v : Variant} {a : Addr} {i : WlInfo} (h : wlConfig s v a = .ok i) :
    s.wls a = some i ∧ MintLimits.configOk v.flavor i.kind = true := by
  unfold wlConfig at h
  peel h
  rename_i i' hi
  peel h
  rename_i hc
  cases h
  exact ⟨hi, hc⟩

theorem wlMintChecks_ok {m : Minter} {i : WlInfo} {sender : Addr} {f : MintLimits.Fields} {sv : SenderView} {g : MintKind}
    (h : wlMintChecks m i sender f sv = .ok g) :
    ∃ leaf cnt sid ent,
      hasMember m.v i f sv = .ok (true, leaf) ∧ whitelistMintCount m i sender = .ok (cnt, sid) ∧
      (m.v.flavor = .flex → m.numTokens = none → cnt < m.perAddressLimit) ∧
      wlEntitlement m.v i f sv = .ok ent ∧ cnt < ent ∧ g = .wl sid cnt ∧
      (sid ≠ 0 → MintLimits.stageOk m.v.flavor i.kind = true ∧ ∀ L, i.stageLimit = some L → m.tot sid < L) := by
  unfold wlMintChecks at h
  split at h
  · cases h
  · cases h
  · rename_i leaf hmem
    peel h
    rename_i cnt sid hcnt
    peel h
    rename_i hoe
    have hoe' : m.v.flavor = .flex → m.numTokens = none → cnt < m.perAddressLimit := by
      intro h1 h2
      exact Decidable.byContradiction fun hc => hoe ⟨h1, by simp [h2], hc⟩
    peel h
    rename_i ent hent
    peel h
    rename_i hlt
    have hlt' : cnt < ent := Decidable.byContradiction fun hc => hlt hc
    split at h
    · rename_i hs0
      cases h
      exact ⟨leaf, cnt, sid, ent, hmem, hcnt, hoe', hent, hlt', by rw [hs0], fun hne => absurd hs0 hne⟩
    · rename_i hs0
      peel h
      rename_i hst
      have hst' : MintLimits.stageOk m.v.flavor i.kind = true := by
        cases hx : MintLimits.stageOk m.v.flavor i.kind <;> simp_all
      split at h
      · rename_i hl
        cases h
        exact ⟨leaf, cnt, sid, ent, hmem, hcnt, hoe', hent, hlt', rfl,
          fun _ => ⟨hst', fun L hL => by rw [hl] at hL; cases hL⟩⟩
      · rename_i L hl
        peel h
        rename_i htot
        cases h
        exact ⟨leaf, cnt, sid, ent, hmem, hcnt, hoe', hent, hlt', rfl,
          fun _ => ⟨hst', fun L' hL' => by rw [hl] at hL'; cases hL'; exact htot⟩⟩

theorem executeMint_ok {s s' : State} {m : Minter} {b1 : MintPay.Bank} {sender : Addr} {funds : List Coin}
    {isAdmin : Bool} {rcpt : Addr} {g : MintKind}
    (h : executeMint s m b1 sender funds isAdmin rcpt g = .ok s') :
    ∃ price ms sq b2,
      m.seq.mintable ≠ some 0 ∧ mintPrice s m isAdmin = .ok price ∧ mayPay funds price.denom = .ok price.amount ∧
      mintMsgs s.params m isAdmin price = .ok ms ∧ m.tt.owner = some m.addr ∧
      m.seq.mint rcpt = some sq ∧ MintPay.applyMsgs m.addr b1 ms = some b2 ∧
      s' = { s with bank := b2,
                    minter := some { bookCount m sender g with
                      seq := sq,
                      airdropCount := if isAdmin then m.airdropCount + 1 else m.airdropCount,
                      received := MintLimits.upd m.received rcpt (m.received rcpt + 1) } } := by
  unfold executeMint at h
  peel h
  rename_i hz
  peel h
  rename_i price hp
  peel h
  rename_i payment hpay
  peel h
  rename_i heq
  peel h
  rename_i ms hms
  peel h
  rename_i how
  peel h
  rename_i _hparse
  peel h
  rename_i sq hsq
  peel h
  rename_i b2 hb2
  refine ⟨price, ms, sq, b2, hz, hp, ?_, hms, ?_, hsq, hb2, ?_⟩
  · have : payment = price.amount := by simpa using heq
    rw [← this]; exact hpay
  · simpa using how
  · cases h; rfl

theorem notYetOver_false {s : State} {m : Minter} (h : notYetOver s m = false) : ∀ e, m.endTime = some e → e < s.now := by
  intro e he
  unfold notYetOver at h
  rw [he] at h
  simp at h
  exact h

theorem startAfterEnd_false {m : Minter} {t : Nat} (h : startAfterEnd m t = false) : ∀ e, m.endTime = some e → t ≤ e := by
  intro e he
  unfold startAfterEnd at h
  rw [he] at h
  simp at h
  exact h

theorem ended_false {s : State} {m : Minter} (h : ended s m = false) : ∀ e, m.endTime = some e → s.now < e := by
  intro e he
  unfold ended at h
  rw [he] at h
  simp at h
  exact h

theorem mintSender_ok {s s' : State} {m : Minter} {sender : Addr} {funds : List Coin} {f : MintLimits.Fields}
    {sv : SenderView} (h : mintSender s m sender funds f sv = .ok s') :
    ∃ b1 g,
      (m.v.flavor = .merkle ∨ f = MintLimits.Fields.empty) ∧
      s.bank.sendFunds sender m.addr funds = some b1 ∧ isPublicMint s m sender f sv = .ok g ∧
      (g = .pub → m.startTime ≤ s.now ∧ m.pub sender < m.perAddressLimit) ∧ ended s m = false ∧
      executeMint s m b1 sender funds false sender g = .ok s' := by
  unfold mintSender at h
  peel h
  rename_i hf
  peel h
  rename_i b1 hb1
  peel h
  rename_i g hg
  peel h
  rename_i h1
  peel h
  rename_i hend
  peel h
  rename_i h2
  refine ⟨b1, g, ?_, hb1, hg, ?_, by cases hx : ended s m <;> simp_all, h⟩
  · by_cases hm : m.v.flavor = .merkle
    · exact Or.inl hm
    · right
      by_cases hfe : f = MintLimits.Fields.empty
      · exact hfe
      · exact absurd ⟨hm, hfe⟩ hf
  · intro hp
    constructor
    · have : ¬ s.now < m.startTime := fun hlt => h1 ⟨hp, hlt⟩
      omega
    · exact Decidable.byContradiction fun hlt => h2 ⟨hp, hlt⟩

theorem mintAdmin_ok {s s' : State} {m : Minter} {sender : Addr} {funds : List Coin} {rcpt : Addr}
    (h : mintAdmin s m sender funds rcpt = .ok s') :
    ∃ b1, s.bank.sendFunds sender m.addr funds = some b1 ∧ sender = m.admin ∧ ended s m = false ∧
      executeMint s m b1 sender funds true rcpt .pub = .ok s' := by
  unfold mintAdmin at h
  peel h
  rename_i b1 hb1
  peel h
  rename_i hs
  peel h
  rename_i hend
  exact ⟨b1, hb1, by simpa using hs, by cases hx : ended s m <;> simp_all, h⟩

/-! ## configuration messages -/

theorem setWhitelist_ok {s : State} {m m' : Minter} {sender : Addr} {funds : List Coin} {wl : Addr} {valid : Bool}
    (h : setWhitelist s m sender funds wl valid = .ok m') :
    ∃ i, funds = [] ∧ sender = m.admin ∧ s.now < m.startTime ∧
      (∀ a0, m.whitelist = some a0 → ∃ i0, wlConfig s m.v a0 = .ok i0 ∧ i0.active = false) ∧
      valid = true ∧ wlConfig s m.v wl = .ok i ∧ i.active = false ∧ i.price.denom = m.mintPrice.denom ∧
      s.params.minMintPrice.amount ≤ i.price.amount ∧ s.params.minMintPrice.denom = i.price.denom ∧
      m' = { m with whitelist := some wl } := by
  unfold setWhitelist at h
  peel h
  rename_i ha
  obtain ⟨hfu, hse⟩ := adminOnly_ok ha
  peel h
  rename_i hst
  peel h
  rename_i hold
  peel h
  rename_i hv
  peel h
  rename_i i hi
  peel h
  rename_i hact
  peel h
  rename_i hden
  peel h
  rename_i hmin
  peel h
  rename_i hfd
  refine ⟨i, hfu, hse, ?_, ?_, ?_, hi, ?_, ?_, ?_, ?_, ?_⟩
  · exact Decidable.byContradiction fun hc => hst hc
  · intro a0 ha0
    rw [ha0] at hold
    simp only at hold
    peel hold
    rename_i i0 hi0
    peel hold
    rename_i hact0
    exact ⟨i0, hi0, by simpa using hact0⟩
  · cases valid <;> simp_all
  · simpa using hact
  · exact Decidable.byContradiction fun hc => hden hc
  · omega
  · exact Decidable.byContradiction fun hc => hfd hc
  · cases h; rfl

theorem purge_ok {s : State} {m m' : Minter} {funds : List Coin} (h : purge s m funds = .ok m') :
    funds = [] ∧ (∀ e, m.endTime = some e → e < s.now) ∧ (m.seq.purge).isSome = true ∧
      m' = { m with pub := MintLimits.zero, wlc := if m.v.isFlex then MintLimits.zero else m.wlc } := by
  unfold purge at h
  peel h
  rename_i hn
  peel h
  rename_i hend
  peel h
  rename_i x hp
  exact ⟨nonpayable_ok hn, notYetOver_false (by cases hx : notYetOver s m <;> simp_all), by simp [hp], by cases h; rfl⟩

theorem updateMintPrice_ok {s : State} {m m' : Minter} {sender : Addr} {funds : List Coin} {price : Nat}
    (h : updateMintPrice s m sender funds price = .ok m') :
    funds = [] ∧ sender = m.admin ∧ ended s m = false ∧ (m.startTime ≤ s.now → price < m.mintPrice.amount) ∧
      s.params.minMintPrice.amount ≤ price ∧ (m.numTokens = none → price ≠ 0) ∧
      m' = { m with mintPrice := ⟨m.mintPrice.denom, price⟩ } := by
  unfold updateMintPrice at h
  peel h
  rename_i ha
  obtain ⟨hfu, hse⟩ := adminOnly_ok ha
  peel h
  rename_i hend
  peel h
  rename_i h1
  peel h
  rename_i h2
  peel h
  rename_i h3
  refine ⟨hfu, hse, by cases hx : ended s m <;> simp_all, ?_, by omega, ?_, by cases h; rfl⟩
  · intro hst
    exact Decidable.byContradiction fun hc => h1 ⟨hst, by omega⟩
  · intro hn hp
    exact h3 ⟨by simp [hn], hp⟩

theorem updateStartTime_ok {s : State} {m m' : Minter} {sender : Addr} {funds : List Coin} {t : Nat}
    (h : updateStartTime s m sender funds t = .ok m') :
    funds = [] ∧ sender = m.admin ∧ s.now < m.startTime ∧ s.now ≤ t ∧ (∀ e, m.endTime = some e → t ≤ e) ∧
      m' = { m with startTime := t } := by
  unfold updateStartTime at h
  peel h
  rename_i ha
  obtain ⟨hfu, hse⟩ := adminOnly_ok ha
  peel h
  rename_i h1
  peel h
  rename_i h2
  peel h
  rename_i h3
  exact ⟨hfu, hse, by omega, by omega, startAfterEnd_false (by cases hx : startAfterEnd m t <;> simp_all), by cases h; rfl⟩

theorem updateEndTime_ok {s : State} {m m' : Minter} {sender : Addr} {funds : List Coin} {t : Nat}
    (h : updateEndTime s m sender funds t = .ok m') :
    ∃ e, funds = [] ∧ sender = m.admin ∧ m.endTime = some e ∧ s.now < e ∧ s.now ≤ t ∧ m.startTime ≤ t ∧
      m' = { m with endTime := some t } := by
  unfold updateEndTime at h
  peel h
  rename_i ha
  obtain ⟨hfu, hse⟩ := adminOnly_ok ha
  peel h
  rename_i e he
  peel h
  rename_i h1
  peel h
  rename_i h2
  peel h
  rename_i h3
  exact ⟨e, hfu, hse, he, by omega, by omega, by omega, by cases h; rfl⟩

theorem updateStartTradingTime_ok {s : State} {m m' : Minter} {sender : Addr} {funds : List Coin} {t : Option Nat}
    (h : updateStartTradingTime s m sender funds t = .ok m') :
    ∃ c, funds = [] ∧ sender = m.admin ∧
      TT.tradingUpdateOk .openEdition s.now m.startTime s.params.maxTradingOffsetSecs t = true ∧
      m.tt.updateTrading m.addr t = .ok c ∧ m' = { m with tt := c } := by
  unfold updateStartTradingTime at h
  peel h
  rename_i ha
  obtain ⟨hfu, hse⟩ := adminOnly_ok ha
  peel h
  rename_i h1
  peel h
  rename_i c hc
  exact ⟨c, hfu, hse, by simpa using h1, hc, by cases h; rfl⟩

theorem updatePerAddressLimit_ok {s : State} {m m' : Minter} {sender : Addr} {funds : List Coin} {n : Nat}
    (h : updatePerAddressLimit s m sender funds n = .ok m') :
    funds = [] ∧ sender = m.admin ∧ n ≠ 0 ∧ n ≤ s.params.maxPerAddressLimit ∧ m' = { m with perAddressLimit := n } := by
  unfold updatePerAddressLimit at h
  peel h
  rename_i ha
  obtain ⟨hfu, hse⟩ := adminOnly_ok ha
  peel h
  rename_i h1
  exact ⟨hfu, hse, by omega, by omega, by cases h; rfl⟩

theorem burnRemaining_ok {s : State} {m m' : Minter} {sender : Addr} {funds : List Coin}
    (h : burnRemaining s m sender funds = .ok m') :
    ∃ sq, funds = [] ∧ sender = m.admin ∧ (∀ e, m.endTime = some e → e < s.now) ∧ m.seq.burnRemaining = some sq ∧
      m' = { m with seq := sq } := by
  unfold burnRemaining at h
  peel h
  rename_i ha
  obtain ⟨hfu, hse⟩ := adminOnly_ok ha
  peel h
  rename_i hend
  peel h
  rename_i sq hsq
  exact ⟨sq, hfu, hse, notYetOver_false (by cases hx : notYetOver s m <;> simp_all), hsq, by cases h; rfl⟩

theorem collTransfer_ok {m m' : Minter} {sender : Addr} {id : Nat} {to : Addr} (h : collTransfer m sender id to = .ok m') :
    ∃ c, m.tt.kind ≠ .nt ∧ m.seq.coll.ownerOf id = some sender ∧ m.seq.coll.transfer id to = some c ∧
      m' = { m with seq := { m.seq with coll := c } } := by
  unfold collTransfer at h
  peel h
  rename_i h1
  peel h
  rename_i h2
  peel h
  rename_i c hc
  exact ⟨c, h1, by simpa using h2, hc, by cases h; rfl⟩

theorem collBurn_ok {m m' : Minter} {sender : Addr} {id : Nat} (h : collBurn m sender id = .ok m') :
    ∃ c, m.seq.coll.ownerOf id = some sender ∧ m.seq.coll.burn id = some c ∧
      m' = { m with seq := { m.seq with coll := c } } := by
  unfold collBurn at h
  peel h
  rename_i h2
  peel h
  rename_i c hc
  exact ⟨c, by simpa using h2, hc, by cases h; rfl⟩

/-! ## creation -/

theorem instantiateMinter_ok {s : State} {v : Variant} {msg : CreateMsg} {w : CreateWit} {m : Minter}
    (h : instantiateMinter s v msg w = .ok m) :
    ∃ wl trading ck,
      msg.uriOk = true ∧ createWhitelist s v msg = .ok wl ∧
      TT.boundedOrDefault msg.startTime s.params.maxTradingOffsetSecs msg.trading = .ok trading ∧
      s.codes.collKindOf msg.collCode = some ck ∧ msg.collOk = true ∧
      m = { v := v, addr := w.minterAddr, factory := s.factoryAddr, collectionCodeId := msg.collCode,
            mintPrice := msg.mintPrice, admin := msg.creator, paymentAddress := msg.paymentAddress,
            whitelist := wl, startTime := msg.startTime, endTime := msg.endTime,
            perAddressLimit := msg.perAddressLimit, numTokens := msg.numTokens, onChain := msg.onChain,
            sg721 := w.collAddr,
            seq := Supply.Seq.create v.seqKind msg.numTokens s.params.maxTokenLimit msg.endTime.isSome,
            pub := MintLimits.zero, wlc := MintLimits.zero, stg := fun _ => MintLimits.zero,
            tot := MintLimits.zero, airdropCount := 0, status := {}, received := MintLimits.zero,
            tt := TT.Coll.init ck w.minterAddr msg.creator trading } := by
  unfold instantiateMinter at h
  peel h
  rename_i h1
  peel h
  rename_i wl hwl
  peel h
  rename_i trading htr
  peel h
  rename_i ck hck
  peel h
  rename_i h2
  refine ⟨wl, trading, ck, ?_, hwl, htr, hck, ?_, by cases h; rfl⟩
  · cases hu : msg.uriOk <;> simp_all
  · cases hu : msg.collOk <;> simp_all

theorem validateInit_ok {s : State} {msg : CreateMsg} (h : validateInit s msg = .ok ()) :
    msg.nftValid = true ∧ (∀ n, msg.numTokens = some n → n ≠ 0 ∧ n ≤ s.params.maxTokenLimit) ∧
      1 ≤ msg.perAddressLimit ∧ msg.perAddressLimit ≤ s.params.maxPerAddressLimit ∧ s.now < msg.startTime ∧
      (∀ e, msg.endTime = some e → msg.startTime < e) ∧ (msg.endTime.isSome = true ∨ msg.numTokens.isSome = true) ∧
      s.params.minMintPrice.amount ≤ msg.mintPrice.amount ∧ s.params.minMintPrice.denom = msg.mintPrice.denom ∧
      (msg.numTokens = none → msg.mintPrice.amount ≠ 0) ∧
      (msg.numTokens = none → s.params.airdropMintPrice.amount ≠ 0) := by
  unfold validateInit at h
  peel h
  rename_i h1
  peel h
  rename_i h2
  peel h
  rename_i h3
  peel h
  rename_i h4
  peel h
  rename_i h5
  peel h
  rename_i h6
  peel h
  rename_i h7
  peel h
  rename_i h8
  peel h
  rename_i h9
  peel h
  rename_i h10
  refine ⟨by cases hx : msg.nftValid <;> simp_all, ?_, by omega, by omega, by omega, ?_, ?_, by omega,
    Decidable.byContradiction fun hc => h8 hc, ?_, ?_⟩
  · intro n hn
    have hb : badNumTokens s.params msg = false := by cases hx : badNumTokens s.params msg <;> simp_all
    unfold badNumTokens at hb
    rw [hn] at hb
    simp at hb
    omega
  · intro e he
    have hb : endNotAfterStart msg = false := by cases hx : endNotAfterStart msg <;> simp_all
    unfold endNotAfterStart at hb
    rw [he] at hb
    simp at hb
    exact hb
  · cases he : msg.endTime with
    | some e => left; rfl
    | none =>
      cases hn : msg.numTokens with
      | some n => right; rfl
      | none => exact absurd ⟨by simp [he], by simp [hn]⟩ h6
  · intro hn hp
    exact h9 ⟨by simp [hn], hp⟩
  · intro hn hp
    exact h10 ⟨hp, by simp [hn]⟩

theorem factoryChecks_ok {s : State} {funds : List Coin} {msg : CreateMsg} {ms : List Msg}
    (h : factoryChecks s funds msg = .ok ms) :
    mustPay funds s.params.creationFee.denom = .ok s.params.creationFee.amount ∧
      s.params.allowed.contains msg.collCode = true ∧ s.params.frozen = false ∧ creationFeeMsgs s funds = .ok ms ∧
      validateInit s msg = .ok () := by
  unfold factoryChecks at h
  peel h
  rename_i paid hpaid
  peel h
  rename_i hex
  peel h
  rename_i hal
  peel h
  rename_i hfr
  peel h
  rename_i ms' hms
  peel h
  rename_i u hv
  cases h
  refine ⟨?_, ?_, ?_, hms, hv⟩
  · have : paid = s.params.creationFee.amount := by simpa using hex
    rw [← this]; exact hpaid
  · cases hx : s.params.allowed.contains msg.collCode <;> simp_all
  · cases hx : s.params.frozen <;> simp_all

theorem createMinter_ok {s s' : State} {sender : Addr} {funds : List Coin} {msg : CreateMsg} {w : CreateWit}
    (h : createMinter s sender funds msg w = .ok s') :
    ∃ b1 ms b2 v m, s.minter = none ∧ s.bank.sendFunds sender s.factoryAddr funds = some b1 ∧
      factoryChecks s funds msg = .ok ms ∧ MintPay.applyMsgs s.factoryAddr b1 ms = some b2 ∧
      variantOf s.codes s.params.codeId = some v ∧ instantiateMinter s v msg w = .ok m ∧
      s' = { s with bank := b2, minter := some m } := by
  unfold createMinter at h
  peel h
  rename_i h0
  peel h
  rename_i b1 hb1
  peel h
  rename_i ms hms
  peel h
  rename_i b2 hb2
  peel h
  rename_i v hv
  peel h
  rename_i m hm
  refine ⟨b1, ms, b2, v, m, ?_, hb1, hms, hb2, hv, hm, by cases h; rfl⟩
  cases hmi : s.minter with
  | none => rfl
  | some x => simp [hmi] at h0

/-! ## frame: which top-level components a message can change -/

theorem step_frame {s s' : State} {op : Op} (h : step s op = .ok s') :
    s'.codes = s.codes ∧ s'.factoryAddr = s.factoryAddr ∧
    ((∃ u, op = .sudoParams u) ∨ s'.params = s.params) ∧
    ((∃ k i, op = .wlEnv k i) ∨ s'.wls = s.wls) ∧
    ((∃ t, op = .setTime t) ∨ s'.now = s.now) := by
  cases op with
  | setTime t =>
    simp only [step] at h; split at h <;> cases h
    exact ⟨rfl, rfl, Or.inr rfl, Or.inr rfl, Or.inl ⟨t, rfl⟩⟩
  | fund a c => simp only [step] at h; cases h; exact ⟨rfl, rfl, Or.inr rfl, Or.inr rfl, Or.inr rfl⟩
  | wlEnv k i => simp only [step] at h; cases h; exact ⟨rfl, rfl, Or.inr rfl, Or.inl ⟨k, i, rfl⟩, Or.inr rfl⟩
  | sudoParams u =>
    simp only [step] at h; split at h <;> cases h
    exact ⟨rfl, rfl, Or.inl ⟨u, rfl⟩, Or.inr rfl, Or.inr rfl⟩
  | instantiateDirect sender => simp [step] at h
  | create sender funds msg w =>
    simp only [step] at h
    obtain ⟨_, _, _, _, _, _, _, _, _, _, _, rfl⟩ := createMinter_ok h
    exact ⟨rfl, rfl, Or.inr rfl, Or.inr rfl, Or.inr rfl⟩
  | mint sender funds f sv =>
    simp only [step] at h
    obtain ⟨m, _, h⟩ := withMinterS_ok h
    obtain ⟨_, _, _, _, _, _, _, h⟩ := mintSender_ok h
    obtain ⟨_, _, _, _, _, _, _, _, _, _, _, rfl⟩ := executeMint_ok h
    exact ⟨rfl, rfl, Or.inr rfl, Or.inr rfl, Or.inr rfl⟩
  | mintTo sender funds rcpt =>
    simp only [step] at h
    obtain ⟨m, _, h⟩ := withMinterS_ok h
    obtain ⟨_, _, _, _, h⟩ := mintAdmin_ok h
    obtain ⟨_, _, _, _, _, _, _, _, _, _, _, rfl⟩ := executeMint_ok h
    exact ⟨rfl, rfl, Or.inr rfl, Or.inr rfl, Or.inr rfl⟩
  | setWhitelist sender funds wl valid =>
    simp only [step] at h
    obtain ⟨_, _, _, _, rfl⟩ := withMinter_ok h
    exact ⟨rfl, rfl, Or.inr rfl, Or.inr rfl, Or.inr rfl⟩
  | purge sender funds =>
    simp only [step] at h
    obtain ⟨_, _, _, _, rfl⟩ := withMinter_ok h
    exact ⟨rfl, rfl, Or.inr rfl, Or.inr rfl, Or.inr rfl⟩
  | updateMintPrice sender funds p =>
    simp only [step] at h
    obtain ⟨_, _, _, _, rfl⟩ := withMinter_ok h
    exact ⟨rfl, rfl, Or.inr rfl, Or.inr rfl, Or.inr rfl⟩
  | updateStartTime sender funds t =>
    simp only [step] at h
    obtain ⟨_, _, _, _, rfl⟩ := withMinter_ok h
    exact ⟨rfl, rfl, Or.inr rfl, Or.inr rfl, Or.inr rfl⟩
  | updateEndTime sender funds t =>
    simp only [step] at h
    obtain ⟨_, _, _, _, rfl⟩ := withMinter_ok h
    exact ⟨rfl, rfl, Or.inr rfl, Or.inr rfl, Or.inr rfl⟩
  | updateStartTradingTime sender funds t =>
    simp only [step] at h
    obtain ⟨_, _, _, _, rfl⟩ := withMinter_ok h
    exact ⟨rfl, rfl, Or.inr rfl, Or.inr rfl, Or.inr rfl⟩
  | updatePerAddressLimit sender funds n =>
    simp only [step] at h
    obtain ⟨_, _, _, _, rfl⟩ := withMinter_ok h
    exact ⟨rfl, rfl, Or.inr rfl, Or.inr rfl, Or.inr rfl⟩
  | burnRemaining sender funds =>
    simp only [step] at h
    obtain ⟨_, _, _, _, rfl⟩ := withMinter_ok h
    exact ⟨rfl, rfl, Or.inr rfl, Or.inr rfl, Or.inr rfl⟩
  | sudoStatus v b e =>
    simp only [step] at h
    obtain ⟨_, _, _, _, rfl⟩ := withMinter_ok h
    exact ⟨rfl, rfl, Or.inr rfl, Or.inr rfl, Or.inr rfl⟩
  | collTransfer sender id to =>
    simp only [step] at h
    obtain ⟨_, _, _, _, rfl⟩ := withMinter_ok h
    exact ⟨rfl, rfl, Or.inr rfl, Or.inr rfl, Or.inr rfl⟩
  | collBurn sender id =>
    simp only [step] at h
    obtain ⟨_, _, _, _, rfl⟩ := withMinter_ok h
    exact ⟨rfl, rfl, Or.inr rfl, Or.inr rfl, Or.inr rfl⟩
  | collTrading sender t =>
    simp only [step] at h
    obtain ⟨_, _, _, _, rfl⟩ := onColl_ok h
    exact ⟨rfl, rfl, Or.inr rfl, Or.inr rfl, Or.inr rfl⟩
  | collCreator sender new =>
    simp only [step] at h
    obtain ⟨_, _, _, _, rfl⟩ := onColl_ok h
    exact ⟨rfl, rfl, Or.inr rfl, Or.inr rfl, Or.inr rfl⟩
  | collFreeze sender =>
    simp only [step] at h
    obtain ⟨_, _, _, _, rfl⟩ := onColl_ok h
    exact ⟨rfl, rfl, Or.inr rfl, Or.inr rfl, Or.inr rfl⟩
  | collOwn sender a =>
    simp only [step] at h
    obtain ⟨_, _, _, _, rfl⟩ := onColl_ok h
    exact ⟨rfl, rfl, Or.inr rfl, Or.inr rfl, Or.inr rfl⟩

end LP.OE
