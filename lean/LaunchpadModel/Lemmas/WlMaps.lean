import LaunchpadModel.Model.WlMembers
/-!
# Helper lemmas for C11 (part 1): ordered member maps (`saveM`, `eraseM`, `hasM`, `getM`) — core Lean only
-/
namespace LP.WlMembers
open LP

/-- the container invariant of a member map: keys strictly ascending (hence pairwise distinct) -/
def SortedKeys (l : List Member) : Prop := (keys l).Pairwise (· < ·)

theorem sortedKeys_nil : SortedKeys [] := by simp [SortedKeys, keys]

theorem SortedKeys.nodup {l : List Member} (h : SortedKeys l) : (keys l).Nodup := by
  unfold SortedKeys at h
  exact h.imp (fun hlt => Nat.ne_of_lt hlt)

theorem keys_cons (x : Member) (xs : List Member) : keys (x :: xs) = x.1 :: keys xs := rfl
theorem keys_length (l : List Member) : (keys l).length = l.length := by simp [keys]

theorem sortedKeys_cons {x : Member} {xs : List Member} :
    SortedKeys (x :: xs) ↔ (∀ a ∈ keys xs, x.1 < a) ∧ SortedKeys xs := by
  simp [SortedKeys, keys_cons, List.pairwise_cons]

theorem hasM_iff (a : Nat) (l : List Member) : hasM a l = true ↔ a ∈ keys l := by
  induction l with
  | nil => simp [hasM, keys]
  | cons x xs ih =>
    simp only [hasM, List.any_cons, keys_cons, List.mem_cons, Bool.or_eq_true, beq_iff_eq] at *
    constructor
    · rintro (h | h)
      · exact Or.inl h.symm
      · exact Or.inr (ih.mp h)
    · rintro (h | h)
      · exact Or.inl h.symm
      · exact Or.inr (ih.mpr h)

theorem hasM_false_iff (a : Nat) (l : List Member) : hasM a l = false ↔ a ∉ keys l := by
  rw [← hasM_iff]; cases hasM a l <;> simp

theorem getM_isSome_iff (a : Nat) (l : List Member) : (getM a l).isSome = true ↔ a ∈ keys l := by
  induction l with
  | nil => simp [getM, keys]
  | cons x xs ih =>
    unfold getM
    rw [keys_cons, List.mem_cons]
    by_cases h : x.1 = a
    · rw [if_pos h]; simp [h]
    · rw [if_neg h, ih]
      constructor
      · exact Or.inr
      · rintro (h1 | h1)
        · exact absurd h1.symm h
        · exact h1

theorem mem_keys_saveM (m : Member) (l : List Member) (a : Nat) :
    a ∈ keys (saveM m l) ↔ a = m.1 ∨ a ∈ keys l := by
  induction l with
  | nil => simp [saveM, keys]
  | cons x xs ih =>
    unfold saveM
    by_cases h1 : m.1 < x.1
    · rw [if_pos h1]; simp [keys_cons]
    · rw [if_neg h1]
      by_cases h2 : m.1 = x.1
      · rw [if_pos h2]; simp [keys_cons, h2]
      · rw [if_neg h2, keys_cons, List.mem_cons, ih, keys_cons, List.mem_cons]
        constructor
        · rintro (h | h | h)
          · exact Or.inr (Or.inl h)
          · exact Or.inl h
          · exact Or.inr (Or.inr h)
        · rintro (h | h | h)
          · exact Or.inr (Or.inl h)
          · exact Or.inl h
          · exact Or.inr (Or.inr h)

theorem sorted_saveM (m : Member) {l : List Member} (h : SortedKeys l) : SortedKeys (saveM m l) := by
  induction l with
  | nil => simp [saveM, SortedKeys, keys]
  | cons x xs ih =>
    have hx := sortedKeys_cons.mp h
    unfold saveM
    by_cases h1 : m.1 < x.1
    · rw [if_pos h1]
      refine sortedKeys_cons.mpr ⟨?_, h⟩
      intro a ha
      rw [keys_cons, List.mem_cons] at ha
      rcases ha with ha | ha
      · omega
      · have := hx.1 a ha; omega
    · rw [if_neg h1]
      by_cases h2 : m.1 = x.1
      · rw [if_pos h2]
        refine sortedKeys_cons.mpr ⟨?_, hx.2⟩
        intro a ha; rw [h2]; exact hx.1 a ha
      · rw [if_neg h2]
        refine sortedKeys_cons.mpr ⟨?_, ih hx.2⟩
        intro a ha
        rcases (mem_keys_saveM m xs a).mp ha with ha | ha
        · omega
        · exact hx.1 a ha

theorem length_saveM_new (m : Member) (l : List Member) (h : m.1 ∉ keys l) :
    (saveM m l).length = l.length + 1 := by
  induction l with
  | nil => simp [saveM]
  | cons x xs ih =>
    rw [keys_cons, List.mem_cons, not_or] at h
    unfold saveM
    by_cases h1 : m.1 < x.1
    · rw [if_pos h1]; simp
    · rw [if_neg h1, if_neg h.1]; simp [ih h.2]

theorem getM_saveM_other (m : Member) (l : List Member) (a : Nat) (h : a ≠ m.1) :
    getM a (saveM m l) = getM a l := by
  have hm : ¬ m.1 = a := fun e => h e.symm
  induction l with
  | nil => simp [saveM, getM, hm]
  | cons x xs ih =>
    unfold saveM
    by_cases h1 : m.1 < x.1
    · rw [if_pos h1]; simp [getM, hm]
    · rw [if_neg h1]
      by_cases h2 : m.1 = x.1
      · rw [if_pos h2]
        have hx : ¬ x.1 = a := fun e => hm (h2.trans e)
        simp [getM, hm, hx]
      · rw [if_neg h2]
        simp only [getM, ih]

theorem mem_keys_eraseM (a : Nat) (l : List Member) (b : Nat) :
    b ∈ keys (eraseM a l) ↔ b ≠ a ∧ b ∈ keys l := by
  induction l with
  | nil => simp [eraseM, keys]
  | cons x xs ih =>
    unfold eraseM at ih ⊢
    rw [List.filter_cons]
    by_cases h : x.1 = a
    · have hc : (x.1 != a) = false := by simp [h]
      rw [hc]; simp only [Bool.false_eq_true, if_false]
      rw [ih, keys_cons, List.mem_cons]
      constructor
      · rintro ⟨h1, h2⟩; exact ⟨h1, Or.inr h2⟩
      · rintro ⟨h1, h2 | h2⟩
        · exact absurd (h2.trans h) h1
        · exact ⟨h1, h2⟩
    · have hc : (x.1 != a) = true := by simp [h]
      rw [hc]; simp only [if_true]
      rw [keys_cons, List.mem_cons, ih, keys_cons, List.mem_cons]
      constructor
      · rintro (h1 | ⟨h1, h2⟩)
        · exact ⟨by rw [h1]; exact h, Or.inl h1⟩
        · exact ⟨h1, Or.inr h2⟩
      · rintro ⟨h1, h2 | h2⟩
        · exact Or.inl h2
        · exact Or.inr ⟨h1, h2⟩

theorem sorted_eraseM (a : Nat) {l : List Member} (h : SortedKeys l) : SortedKeys (eraseM a l) := by
  induction l with
  | nil => simp [eraseM, SortedKeys, keys]
  | cons x xs ih =>
    have hx := sortedKeys_cons.mp h
    have ih' := ih hx.2
    have hm := mem_keys_eraseM a xs
    unfold eraseM at ih' hm ⊢
    rw [List.filter_cons]
    cases hc : (x.1 != a)
    · simpa using ih'
    · simp only [if_true]
      refine sortedKeys_cons.mpr ⟨?_, ih'⟩
      intro b hb
      exact hx.1 b ((hm b).mp hb).2

theorem eraseM_of_not_mem (a : Nat) (l : List Member) (h : a ∉ keys l) : eraseM a l = l := by
  induction l with
  | nil => simp [eraseM]
  | cons x xs ih =>
    rw [keys_cons, List.mem_cons, not_or] at h
    have ih' := ih h.2
    unfold eraseM at ih' ⊢
    have hc : (x.1 != a) = true := by simpa using fun e => h.1 e.symm
    rw [List.filter_cons, hc]; simp only [if_true]; rw [ih']

theorem length_eraseM {a : Nat} {l : List Member} (hs : SortedKeys l) (h : a ∈ keys l) :
    (eraseM a l).length + 1 = l.length := by
  induction l with
  | nil => simp [keys] at h
  | cons x xs ih =>
    have hx := sortedKeys_cons.mp hs
    rw [keys_cons, List.mem_cons] at h
    by_cases hxa : x.1 = a
    · have hn : a ∉ keys xs := fun hm => by have := hx.1 a hm; omega
      have e : eraseM a (x :: xs) = eraseM a xs := by
        unfold eraseM; simp [List.filter_cons, hxa]
      rw [e, eraseM_of_not_mem a xs hn]; simp
    · have hm : a ∈ keys xs := by
        rcases h with h | h
        · exact absurd h.symm hxa
        · exact h
      have e : eraseM a (x :: xs) = x :: eraseM a xs := by
        unfold eraseM; simp [List.filter_cons, hxa]
      rw [e]; simp only [List.length_cons]; rw [ih hx.2 hm]

end LP.WlMembers
