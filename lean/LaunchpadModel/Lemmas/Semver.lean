import LaunchpadModel.Model.Semver
/-!
# Lemmas about `LP.Semver`: the order is a strict total order; `parse ∘ print = id` on `u64` triples
-/
namespace LP.Semver

theorem lt_def (a b : Version) :
    a < b ↔ (a.major < b.major ∨ (a.major = b.major ∧ (a.minor < b.minor ∨ (a.minor = b.minor ∧ a.patch < b.patch)))) :=
  Iff.rfl

theorem le_def (a b : Version) : a ≤ b ↔ ¬ b < a := Iff.rfl

theorem lt_irrefl (a : Version) : ¬ a < a := by
  rw [lt_def]; omega

theorem lt_trans {a b c : Version} (h1 : a < b) (h2 : b < c) : a < c := by
  rw [lt_def] at *; omega

theorem lt_asymm {a b : Version} (h : a < b) : ¬ b < a := by
  rw [lt_def] at *; omega

theorem ext_iff (a b : Version) : a = b ↔ a.major = b.major ∧ a.minor = b.minor ∧ a.patch = b.patch := by
  cases a; cases b; simp

theorem lt_trichotomy (a b : Version) : a < b ∨ a = b ∨ b < a := by
  rw [lt_def, lt_def, ext_iff]; omega

theorem le_iff_lt_or_eq (a b : Version) : a ≤ b ↔ a < b ∨ a = b := by
  rw [le_def, lt_def, lt_def, ext_iff]; omega

theorem le_refl (a : Version) : a ≤ a := lt_irrefl a

theorem le_trans {a b c : Version} (h1 : a ≤ b) (h2 : b ≤ c) : a ≤ c := by
  rw [le_def, lt_def] at *; omega

theorem le_antisymm {a b : Version} (h1 : a ≤ b) (h2 : b ≤ a) : a = b := by
  rw [le_def, lt_def] at *; rw [ext_iff]; omega

theorem le_total (a b : Version) : a ≤ b ∨ b ≤ a := by
  rw [le_def, le_def, lt_def, lt_def]; omega

theorem lt_of_lt_of_le {a b c : Version} (h1 : a < b) (h2 : b ≤ c) : a < c := by
  rw [le_def, lt_def] at *; omega

theorem lt_of_le_of_lt {a b c : Version} (h1 : a ≤ b) (h2 : b < c) : a < c := by
  rw [le_def, lt_def] at *; omega

theorem not_lt_iff_le (a b : Version) : ¬ a < b ↔ b ≤ a := Iff.rfl

theorem le_of_lt {a b : Version} (h : a < b) : a ≤ b := lt_asymm h

theorem le_of_eq {a b : Version} (h : a = b) : a ≤ b := h ▸ le_refl a

/-! ## splitting -/

theorem splitOn_no_sep (sep : Nat) (l : List Nat) (h : sep ∉ l) : splitOn sep l = [l] := by
  induction l with
  | nil => rfl
  | cons c cs ih =>
    have hc : c ≠ sep := fun e => h (e ▸ List.mem_cons_self)
    have hcs : sep ∉ cs := fun m => h (List.mem_cons_of_mem _ m)
    simp [splitOn, hc, ih hcs]

theorem splitOn_append (sep : Nat) (a rest : List Nat) (h : sep ∉ a) :
    splitOn sep (a ++ sep :: rest) = a :: splitOn sep rest := by
  induction a with
  | nil => simp [splitOn]
  | cons c cs ih =>
    have hc : c ≠ sep := fun e => h (e ▸ List.mem_cons_self)
    have hcs : sep ∉ cs := fun m => h (List.mem_cons_of_mem _ m)
    simp [splitOn, hc, ih hcs]

/-! ## printing numbers -/

theorem digitsVal_append (xs : List Nat) (d : Nat) : digitsVal (xs ++ [d]) = digitsVal xs * 10 + (d - 48) := by
  simp [digitsVal, List.foldl_append]

theorem printNum_small {n : Nat} (h : n < 10) : printNum n = [48 + n] := by
  rw [printNum]; simp [h]

theorem printNum_big {n : Nat} (h : ¬ n < 10) : printNum n = printNum (n / 10) ++ [48 + n % 10] := by
  rw [printNum]; simp [h]

theorem printNum_ne_nil (n : Nat) : printNum n ≠ [] := by
  by_cases h : n < 10
  · rw [printNum_small h]; simp
  · rw [printNum_big h]; simp

theorem printNum_digits (n : Nat) : ∀ c ∈ printNum n, 48 ≤ c ∧ c ≤ 57 := by
  induction n using Nat.strongRecOn with
  | _ n ih =>
    by_cases h : n < 10
    · rw [printNum_small h]; intro c hc; simp at hc; omega
    · rw [printNum_big h]; intro c hc
      rcases List.mem_append.mp hc with hc | hc
      · exact ih (n / 10) (by omega) c hc
      · simp at hc; omega

theorem digitsVal_printNum (n : Nat) : digitsVal (printNum n) = n := by
  induction n using Nat.strongRecOn with
  | _ n ih =>
    by_cases h : n < 10
    · rw [printNum_small h]; simp [digitsVal]
    · rw [printNum_big h, digitsVal_append, ih (n / 10) (by omega)]; omega

/-- no leading zero: if the first digit is `0` the numeral is exactly `0` -/
theorem printNum_head_zero (n : Nat) (c : Nat) (rest : List Nat) (h : printNum n = c :: rest) (hc : c = 48) :
    rest = [] := by
  by_cases hn : n < 10
  · rw [printNum_small hn] at h; simp at h; exact h.2
  · exfalso
    -- the head of printNum n is the head of printNum (n / 10), recursively the leading digit, which is non-zero
    have key : ∀ m, 0 < m → ∀ c r, printNum m = c :: r → c ≠ 48 := by
      intro m
      induction m using Nat.strongRecOn with
      | _ m ih =>
        intro hm c r hp
        by_cases hm10 : m < 10
        · rw [printNum_small hm10] at hp; simp at hp; omega
        · rw [printNum_big hm10] at hp
          cases hq : printNum (m / 10) with
          | nil => exact absurd hq (printNum_ne_nil _)
          | cons c' r' =>
            rw [hq] at hp; simp at hp
            exact hp.1 ▸ ih (m / 10) (by omega) (by omega) c' r' hq
    exact key n (by omega) c rest h hc

theorem parseNum_printNum (n : Nat) (h : n < U64_BOUND) : parseNum (printNum n) = some n := by
  cases hp : printNum n with
  | nil => exact absurd hp (printNum_ne_nil n)
  | cons c rest =>
    have hall : (c :: rest).all isDigit = true := by
      rw [← hp, List.all_eq_true]; intro x hx
      have := printNum_digits n x hx
      simp [isDigit]; omega
    have hval : digitsVal (c :: rest) = n := by rw [← hp]; exact digitsVal_printNum n
    have hz : ¬ (c = 48 ∧ rest ≠ []) := fun ⟨h1, h2⟩ => h2 (printNum_head_zero n c rest hp h1)
    simp only [parseNum, hall, hval]
    simp [hz, h]

theorem dot_not_mem_printNum (n : Nat) : DOT ∉ printNum n := by
  intro hm
  have := printNum_digits n DOT hm
  simp [DOT] at this

/-- a version whose components fit `u64` (everything the `semver` crate can represent) -/
def Fits (v : Version) : Prop := v.major < U64_BOUND ∧ v.minor < U64_BOUND ∧ v.patch < U64_BOUND

instance (v : Version) : Decidable (Fits v) := by unfold Fits; exact inferInstance

theorem parse_print (v : Version) (h : Fits v) : parse (print v) = some v := by
  obtain ⟨h1, h2, h3⟩ := h
  unfold parse print
  rw [splitOn_append DOT _ _ (dot_not_mem_printNum _), splitOn_append DOT _ _ (dot_not_mem_printNum _),
    splitOn_no_sep DOT _ (dot_not_mem_printNum _)]
  simp [parseNum_printNum _ h1, parseNum_printNum _ h2, parseNum_printNum _ h3]

theorem print_injective {a b : Version} (ha : Fits a) (hb : Fits b) (h : print a = print b) : a = b := by
  have := parse_print a ha
  rw [h, parse_print b hb] at this
  exact (Option.some.inj this).symm

end LP.Semver
