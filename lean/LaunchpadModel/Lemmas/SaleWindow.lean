import LaunchpadModel.Model.SaleWindow
/-!
# Helper lemmas for C04 (`LP.SaleWindow`)

Inversion lemmas: what a successful run of each model function went through (`…_ok`), the agreement between the
whitelist's `activeStage` / `activeIdx` / `config`, the membership lemmas (`…_entitled`), and the one-step frame
lemma `step_frame` that the history theorems of `Props/C04.lean` lift to operation lists. Core Lean only.
-/
namespace LP
namespace SaleWindow



/-! ## Plumbing: reading `do`-blocks in `Except` -/

theorem bind_ok {ε α β : Type} {x : Except ε α} {f : α → Except ε β} {b : β}
    (h : (x >>= f) = .ok b) : ∃ a, x = .ok a ∧ f a = .ok b := by
  cases x with
  | error e => simp [bind, Except.bind] at h
  | ok a => exact ⟨a, rfl, by simpa [bind, Except.bind] using h⟩

theorem map_ok {ε α β : Type} {x : Except ε α} {f : α → β} {b : β}
    (h : x.map f = .ok b) : ∃ a, x = .ok a ∧ f a = b := by
  cases x with
  | error e => simp [Except.map] at h
  | ok a => exact ⟨a, rfl, by simpa [Except.map] using h⟩

/-- `if c then throw e` as a guard -/
theorem guard_ok {c : Prop} [Decidable c] {e : Err} {u : PUnit}
    (h : (if c then (throw e : Except Err PUnit) else pure PUnit.unit) = .ok u) : ¬ c := by
  by_cases hc : c
  · simp [hc, throw, throwThe, MonadExceptOf.throw] at h
  · exact hc

/-- the whitelist attached to `m` is active now (in the whitelist's own terms) -/
def WlActive (s : State) (m : Minter) : Prop :=
  ∃ k w, m.wl = some k ∧ s.wls k = some w ∧ w.isActive s.now = true

/-- "is a member (of the active stage, or holds a valid Merkle proof bound to the sender)" -/
def Entitled (k : Nat) (w : Wl) (now : Nat) (a : MintArgs) : Prop :=
  ∃ st, w.activeStage now = some st ∧
    (st.hasMember a.sender = true ∨
      ∃ i, w.activeIdx now = some i ∧ a.proof = .forLeaf k i ⟨a.stage, a.sender, a.alloc⟩ ∧
        (⟨a.stage, a.sender, a.alloc⟩ : Leaf) ∈ st.leaves)

theorem config_isActive (w : Wl) (now : Nat) : (w.config now).isActive = w.isActive now := by
  unfold Wl.config Wl.isActive
  cases h : w.activeStage now with
  | some st => simp
  | none =>
    cases hs : w.stages with
    | nil => simp
    | cons s0 rest => simp

theorem config_of_active {w : Wl} {now : Nat} {st : Stage} (h : w.activeStage now = some st) :
    w.config now = ⟨true, ⟨w.denom, st.price⟩, st.perAddr⟩ := by
  simp [Wl.config, h]

theorem findIdx_find {α : Type} (p : α → Bool) : ∀ (l : List α) (i : Nat), l.findIdx? p = some i → l[i]? = l.find? p
  | [], i, h => by simp at h
  | x :: xs, i, h => by
    rw [List.findIdx?_cons] at h
    by_cases hp : p x
    · simp [hp] at h; subst h; simp [List.find?, hp]
    · simp [hp] at h
      obtain ⟨j, hj, rfl⟩ := h
      simp [List.find?, hp, findIdx_find p xs j hj]

/-- the index and the stage reported by the whitelist agree -/
theorem activeIdx_stage {w : Wl} {now i : Nat} (h : w.activeIdx now = some i) :
    w.stages[i]? = w.activeStage now := by
  unfold Wl.activeIdx at h
  unfold Wl.activeStage
  by_cases ht : w.kind.isTiered
  · simp [ht] at h ⊢
    exact findIdx_find _ _ _ h
  · simp [ht] at h ⊢
    cases hs : w.stages with
    | nil => simp [hs] at h
    | cons st rest =>
      simp [hs] at h ⊢
      obtain ⟨hact, rfl⟩ := h
      simp [hact]

theorem activeIdx_of_stage {w : Wl} {now : Nat} {st : Stage} (h : w.activeStage now = some st) :
    ∃ i, w.activeIdx now = some i := by
  unfold Wl.activeStage at h
  unfold Wl.activeIdx
  by_cases ht : w.kind.isTiered
  · simp [ht] at h ⊢
    cases hi : w.stages.findIdx? (fun st => st.activeAt true now) with
    | some i => exact ⟨i, rfl⟩
    | none =>
      rw [List.findIdx?_eq_none_iff] at hi
      have := List.find?_some h
      have hm := List.mem_of_find?_eq_some h
      simp [hi _ hm] at this
  · simp [ht] at h ⊢
    cases hs : w.stages with
    | nil => simp [hs] at h
    | cons s0 rest =>
      simp [hs] at h ⊢
      exact h.1

macro "exc_norm" "at" h:ident : tactic =>
  `(tactic| simp only [bind, Except.bind, pure, Except.pure, throw, throwThe, MonadExceptOf.throw, Except.map] at $h:ident)

theorem isActive_stage {w : Wl} {now : Nat} (h : w.isActive now = true) : ∃ st, w.activeStage now = some st := by
  unfold Wl.isActive at h
  cases hs : w.activeStage now with
  | none => simp [hs] at h
  | some st => exact ⟨st, rfl⟩

/-- single-stage kinds: the active stage is the head of the stage list, at index 0 -/
theorem nontiered_active {w : Wl} {now : Nat} {st : Stage} (ht : w.kind.isTiered = false)
    (h : w.activeStage now = some st) : w.stages.head? = some st ∧ w.activeIdx now = some 0 := by
  unfold Wl.activeStage at h
  unfold Wl.activeIdx
  simp [ht] at h ⊢
  cases hs : w.stages with
  | nil => simp [hs] at h
  | cons s0 rest =>
    simp [hs] at h ⊢
    exact ⟨h.2, h.1⟩

theorem verifies_true {k i : Nat} {st : Option Stage} {claim : Leaf} {p : ProofArg} (h : verifies k i st claim p = true) :
    ∃ s, st = some s ∧ p = .forLeaf k i claim ∧ claim ∈ s.leaves := by
  unfold verifies at h
  split at h
  · rename_i k' i' l s
    simp at h
    obtain ⟨⟨⟨rfl, rfl⟩, rfl⟩, hm⟩ := h
    exact ⟨s, rfl, rfl, hm⟩
  · contradiction

theorem hasMemberPlain_entitled {k : Nat} {w : Wl} {now : Nat} {a : MintArgs} (hact : w.isActive now = true)
    (h : w.hasMemberPlain now a.sender = .ok true) : Entitled k w now a := by
  obtain ⟨st, hst⟩ := isActive_stage hact
  refine ⟨st, hst, Or.inl ?_⟩
  cases hk : w.kind <;> simp only [Wl.hasMemberPlain, hk] at h
  · have := (nontiered_active (by simp [hk, WlKind.isTiered]) hst).1
    simpa [this] using h
  · have := (nontiered_active (by simp [hk, WlKind.isTiered]) hst).1
    simpa [this] using h
  · simpa [hst] using h
  · simpa [hst] using h
  all_goals contradiction

theorem hasMemberProof_entitled {k : Nat} {w : Wl} {now : Nat} {a : MintArgs} (hact : w.isActive now = true)
    (h : w.hasMemberProof k now ⟨a.stage, a.sender, a.alloc⟩ a.proof = .ok true) : Entitled k w now a := by
  obtain ⟨st, hst⟩ := isActive_stage hact
  refine ⟨st, hst, Or.inr ?_⟩
  unfold Wl.hasMemberProof at h
  split at h
  · contradiction
  · cases hk : w.kind <;> simp only [hk] at h
    case merkle =>
      have hn := nontiered_active (by simp [hk, WlKind.isTiered]) hst
      have hv : verifies k 0 w.stages.head? ⟨a.stage, a.sender, a.alloc⟩ a.proof = true := by simpa using h
      obtain ⟨s', hs', hp, hm⟩ := verifies_true hv
      rw [hn.1] at hs'
      cases hs'
      exact ⟨0, hn.2, hp, hm⟩
    case tieredMerkle =>
      split at h
      · contradiction
      · rename_i i hi
        have hv : verifies k i w.stages[i]? ⟨a.stage, a.sender, a.alloc⟩ a.proof = true := by simpa using h
        obtain ⟨s', hs', hp, hm⟩ := verifies_true hv
        rw [activeIdx_stage hi, hst] at hs'
        cases hs'
        exact ⟨i, hi, hp, hm⟩
    all_goals contradiction

theorem memberCheck_entitled {v : Variant} {k : Nat} {w : Wl} {now : Nat} {a : MintArgs} (hact : w.isActive now = true)
    (h : memberCheck v k w now a = .ok true) : Entitled k w now a := by
  unfold memberCheck at h
  simp only at h
  repeat' (split at h)
  all_goals first
    | contradiction
    | exact hasMemberPlain_entitled hact h
    | exact hasMemberProof_entitled hact h

theorem wlMintChecks_ok {s : State} {m : Minter} {k : Nat} {w : Wl} {cfg : WlConfig} {a : MintArgs} {kind : MintKind}
    (h : wlMintChecks s m k w cfg a = .ok kind) :
    memberCheck s.v k w s.now a = .ok true ∧ ∃ slot, kind = .wl slot := by
  unfold wlMintChecks at h
  exc_norm at h
  split at h
  · contradiction
  · rename_i has hhas
    split at h
    · contradiction
    · rename_i hh
      have : has = true := by simpa using hh
      subst this
      refine ⟨hhas, ?_⟩
      repeat' (split at h)
      all_goals first | contradiction | (cases h; exact ⟨_, rfl⟩)

theorem executeMint_ok {s : State} {m m' : Minter} {sender : Addr} {funds : List Coin} {isAdmin : Bool} {kind : MintKind}
    (h : executeMint s m sender funds isAdmin kind = .ok m') :
    ∃ price, mintPrice s m isAdmin = .ok price ∧ mayPay funds price.denom = .ok price.amount ∧
      m.mintable ≠ some 0 ∧ m'.start = m.start ∧ m'.stop = m.stop ∧ m'.wl = m.wl ∧ m'.admin = m.admin := by
  unfold executeMint at h
  exc_norm at h
  split at h
  · contradiction
  · rename_i hne
    split at h
    · contradiction
    · rename_i price hp
      split at h
      · contradiction
      · rename_i paid hpaid
        split at h
        · contradiction
        · rename_i heq
          have heq' : paid = price.amount := by simpa using heq
          subst heq'
          refine ⟨price, hp, hpaid, fun h0 => hne h0, ?_⟩
          split at h <;> (cases h; simp)

theorem isPublicMint_wl {s : State} {m : Minter} {a : MintArgs} {slot : Option Nat}
    (h : isPublicMint s m a = .ok (.wl slot)) :
    ∃ k w, m.wl = some k ∧ s.wls k = some w ∧ w.isActive s.now = true ∧ memberCheck s.v k w s.now a = .ok true := by
  unfold isPublicMint at h
  split at h
  · cases h
  · rename_i k hk
    split at h
    · contradiction
    · rename_i w hw
      split at h
      · contradiction
      · split at h
        · cases h
        · rename_i hact
          rw [config_isActive] at hact
          have hact' : w.isActive s.now = true := by simpa using hact
          exact ⟨k, w, hk, hw, hact', (wlMintChecks_ok h).1⟩

theorem isPublicMint_pub {s : State} {m : Minter} {a : MintArgs}
    (h : isPublicMint s m a = .ok .pub) : ¬ WlActive s m := by
  rintro ⟨k, w, hk, hw, hact⟩
  unfold isPublicMint at h
  simp only [hk, hw, config_isActive, hact] at h
  split at h
  · contradiction
  · simp at h
    obtain ⟨_, slot, hs⟩ := wlMintChecks_ok h
    cases hs

theorem isPublicMint_kind {s : State} {m : Minter} {a : MintArgs} {kind : MintKind}
    (h : isPublicMint s m a = .ok kind) : (kind = .pub ∧ ¬ WlActive s m) ∨ (∃ slot, kind = .wl slot ∧ WlActive s m) := by
  cases kind with
  | pub => exact Or.inl ⟨rfl, isPublicMint_pub h⟩
  | wl slot =>
    obtain ⟨k, w, hk, hw, hact, _⟩ := isPublicMint_wl h
    exact Or.inr ⟨slot, rfl, k, w, hk, hw, hact⟩

/-- what a successful `execute_mint_sender` went through -/
theorem mintSender_ok {s : State} {m m' : Minter} {a : MintArgs} (h : mintSender s m a = .ok m') :
    ∃ kind, isPublicMint s m a = .ok kind ∧
      (kind = .pub → m.start ≤ s.now ∧ m.pubCount a.sender < m.perAddr) ∧
      (s.v.family = .openEdition → ∀ e, m.stop = some e → s.now < e) ∧
      executeMint s m a.sender a.funds false kind = .ok m' := by
  unfold mintSender at h
  exc_norm at h
  split at h
  · contradiction
  · split at h
    · contradiction
    · rename_i kind hkind
      refine ⟨kind, hkind, ?_⟩
      repeat' (split at h)
      all_goals first
        | contradiction
        | skip
      all_goals (refine ⟨?_, ?_, h⟩ <;> intros <;> simp_all <;> omega)

theorem withMinter_ok {s s' : State} {f : Minter → Except Err Minter} (h : withMinter s f = .ok s') :
    ∃ m m', s.minter = some m ∧ f m = .ok m' ∧ s' = { s with minter := some m' } := by
  unfold withMinter at h
  split at h
  · contradiction
  · rename_i m hm
    obtain ⟨m', hm', rfl⟩ := map_ok h
    exact ⟨m, m', hm, hm', rfl⟩

theorem mintTo_ok {s : State} {m m' : Minter} {sender rcpt : Addr} {funds : List Coin}
    (h : mintTo s m sender rcpt funds = .ok m') :
    sender = m.admin ∧ (s.v.family = .openEdition → ∀ e, m.stop = some e → s.now < e) ∧
      ∃ key, executeMint s m key funds true .pub = .ok m' := by
  unfold mintTo at h
  exc_norm at h
  repeat' (split at h)
  all_goals first
    | contradiction
    | (refine ⟨?_, ?_, _, h⟩ <;> intros <;> simp_all <;> omega)

theorem mintPrice_active {s : State} {m : Minter} {k : Nat} {w : Wl} {st : Stage} {price : Coin}
    (hk : m.wl = some k) (hw : s.wls k = some w) (hst : w.activeStage s.now = some st)
    (h : mintPrice s m false = .ok price) : price = ⟨w.denom, st.price⟩ := by
  unfold mintPrice at h
  simp only [hk, hw, config_of_active hst] at h
  split at h
  · contradiction
  · simp at h
    split at h
    · contradiction
    · cases h; rfl

theorem mintPrice_inactive {s : State} {m : Minter} {price : Coin} (hna : ¬ WlActive s m)
    (h : mintPrice s m false = .ok price) : price = m.price := by
  unfold mintPrice at h
  simp only [Bool.false_eq_true, if_false] at h
  split at h
  · cases h; rfl
  · rename_i k hk
    split at h
    · contradiction
    · rename_i w hw
      split at h
      · contradiction
      · split at h
        · rename_i hact
          rw [config_isActive] at hact
          exact absurd ⟨k, w, hk, hw, hact⟩ hna
        · cases h; rfl

theorem updateStart_ok {s : State} {m m' : Minter} {sender : Addr} {t : Nat} (h : updateStart s m sender t = .ok m') :
    sender = m.admin ∧ s.now < m.start ∧ s.now ≤ t ∧
    (s.v.family ≠ .openEdition → GENESIS ≤ t) ∧
    (s.v.family = .openEdition → ∀ e, m.stop = some e → t ≤ e) ∧
    m' = { m with start := t } := by
  unfold updateStart at h
  exc_norm at h
  repeat' (split at h)
  all_goals first
    | contradiction
    | (cases h; refine ⟨?_, ?_, ?_, ?_, ?_, rfl⟩ <;> intros <;> simp_all <;> omega)

theorem updateEnd_ok {s : State} {m m' : Minter} {sender : Addr} {t : Nat} (h : updateEnd s m sender t = .ok m') :
    s.v.family = .openEdition ∧ sender = m.admin ∧ (∃ e, m.stop = some e ∧ s.now < e) ∧ s.now ≤ t ∧ m.start ≤ t ∧
    m' = { m with stop := some t } := by
  unfold updateEnd at h
  exc_norm at h
  repeat' (split at h)
  all_goals first
    | contradiction
    | (cases h; refine ⟨?_, ?_, ⟨_, ‹_›, ?_⟩, ?_, ?_, rfl⟩ <;> simp_all <;> omega)

theorem setWhitelist_ok {s : State} {m m' : Minter} {sender : Addr} {k : Nat} (h : setWhitelist s m sender k = .ok m') :
    sender = m.admin ∧ s.now < m.start ∧ ¬ WlActive s m ∧
    (∃ w, s.wls k = some w ∧ w.isActive s.now = false ∧ configParses s.v.shape w.kind = true) ∧
    m' = { m with wl := some k } := by
  unfold setWhitelist at h
  exc_norm at h
  repeat' (split at h)
  all_goals first
    | contradiction
    | (cases h
       refine ⟨?_, ?_, ?_, ⟨_, ‹_›, ?_, ?_⟩, rfl⟩
       all_goals first
         | (rintro ⟨k1, w1, hk1, hw1, hact1⟩; simp_all [config_isActive])
         | (simp_all [config_isActive]; done)
         | (simp_all [config_isActive]; omega))

theorem createSchedule_ok {s : State} {start : Nat} {stop : Option Nat} {price : Nat} {ntok : Option Nat} {u : Unit}
    (h : createSchedule s start stop price ntok = .ok u) :
    s.now ≤ start ∧ (s.v.family ≠ .openEdition → GENESIS ≤ start) ∧
    (s.v.family = .openEdition → s.now < start ∧ ∀ e, stop = some e → start < e) := by
  unfold createSchedule at h
  simp only at h
  repeat' (split at h)
  all_goals first
    | contradiction
    | (refine ⟨?_, ?_, ?_⟩ <;> intros <;> simp_all <;> omega)

theorem createWl_ok {s : State} {wl wl' : Option Nat} (h : createWl s wl = .ok wl') :
    ∀ k, wl' = some k → ∃ w, s.wls k = some w ∧ w.isActive s.now = false := by
  unfold createWl at h
  repeat' (split at h)
  all_goals first
    | contradiction
    | (cases h; intro k hk; simp_all [config_isActive])

theorem create_ok {s : State} {m : Minter} {sender : Addr} {start : Nat} {stop wl : Option Nat} {price limit : Nat}
    {ntok : Option Nat} (h : create s sender start stop wl price limit ntok = .ok m) :
    s.minter = none ∧ m.start = start ∧ s.now ≤ start ∧
    (s.v.family ≠ .openEdition → GENESIS ≤ start) ∧
    (s.v.family = .openEdition → s.now < start ∧ ∀ e, m.stop = some e → start < e) ∧
    (∀ k, m.wl = some k → ∃ w, s.wls k = some w ∧ w.isActive s.now = false) := by
  unfold create at h
  split at h
  · contradiction
  · rename_i hnone
    split at h
    · contradiction
    · rename_i u hsched
      split at h
      · contradiction
      · rename_i wl' hwl
        cases h
        obtain ⟨h1, h2, h3⟩ := createSchedule_ok hsched
        refine ⟨by simpa using hnone, rfl, h1, h2, ?_, createWl_ok hwl⟩
        intro hoe
        refine ⟨(h3 hoe).1, ?_⟩
        intro e he
        simp [hoe] at he
        exact (h3 hoe).2 e he

/-- the schedule fields every mint path leaves alone -/
def SameSchedule (m m' : Minter) : Prop := m'.start = m.start ∧ m'.stop = m.stop ∧ m'.wl = m.wl ∧ m'.admin = m.admin

theorem deposit_schedule {s : State} {m m' : Minter} {o : Addr} {r : Option Addr} (h : deposit s m o r = .ok m') :
    SameSchedule m m' := by
  unfold deposit at h
  exc_norm at h
  repeat' (split at h)
  all_goals first | contradiction | (cases h; simp [SameSchedule])

/-- One step: the clock never runs backwards; the minter, once created, stays; and
* if the start has been reached, the step changes neither the start nor the attached whitelist;
* if the end has been reached, the step does not change the end. -/
theorem step_frame {s s' : State} {op : Op} (h : step s op = .ok s') :
    s.now ≤ s'.now ∧
    ∀ m, s.minter = some m → ∃ m', s'.minter = some m' ∧
      (m.start ≤ s.now → m'.start = m.start ∧ m'.wl = m.wl) ∧
      (∀ e, m.stop = some e → e ≤ s.now → m'.stop = some e) := by
  cases op with
  | setTime t =>
    simp only [step] at h
    split at h
    · contradiction
    · cases h
      exact ⟨by simp; omega, fun m hm => ⟨m, hm, fun _ => ⟨rfl, rfl⟩, fun e he _ => he⟩⟩
  | wlEnv k w =>
    simp only [step] at h
    cases h
    exact ⟨Nat.le_refl _, fun m hm => ⟨m, hm, fun _ => ⟨rfl, rfl⟩, fun e he _ => he⟩⟩
  | create sender start stop wl price limit ntok =>
    obtain ⟨m1, hm1, rfl⟩ := map_ok h
    refine ⟨Nat.le_refl _, fun m hm => ?_⟩
    have := (create_ok hm1).1
    rw [hm] at this; cases this
  | mint a =>
    obtain ⟨m0, m', hm0, hf, rfl⟩ := withMinter_ok h
    refine ⟨Nat.le_refl _, fun m hm => ?_⟩
    rw [hm0] at hm; cases hm
    obtain ⟨kind, -, -, -, hex⟩ := mintSender_ok hf
    obtain ⟨-, -, -, -, h1, h2, h3, -⟩ := executeMint_ok hex
    exact ⟨m', rfl, fun _ => ⟨h1, h3⟩, fun e he _ => by rw [h2]; exact he⟩
  | mintTo sender rcpt funds =>
    obtain ⟨m0, m', hm0, hf, rfl⟩ := withMinter_ok h
    refine ⟨Nat.le_refl _, fun m hm => ?_⟩
    rw [hm0] at hm; cases hm
    obtain ⟨-, -, key, hex⟩ := mintTo_ok hf
    obtain ⟨-, -, -, -, h1, h2, h3, -⟩ := executeMint_ok hex
    exact ⟨m', rfl, fun _ => ⟨h1, h3⟩, fun e he _ => by rw [h2]; exact he⟩
  | deposit owner rcpt =>
    obtain ⟨m0, m', hm0, hf, rfl⟩ := withMinter_ok h
    refine ⟨Nat.le_refl _, fun m hm => ?_⟩
    rw [hm0] at hm; cases hm
    obtain ⟨h1, h2, h3, -⟩ := deposit_schedule hf
    exact ⟨m', rfl, fun _ => ⟨h1, h3⟩, fun e he _ => by rw [h2]; exact he⟩
  | updateStart sender t =>
    obtain ⟨m0, m', hm0, hf, rfl⟩ := withMinter_ok h
    refine ⟨Nat.le_refl _, fun m hm => ?_⟩
    rw [hm0] at hm; cases hm
    obtain ⟨-, hlt, -, -, -, rfl⟩ := updateStart_ok hf
    exact ⟨_, rfl, fun hge => by omega, fun e he _ => he⟩
  | updateEnd sender t =>
    obtain ⟨m0, m', hm0, hf, rfl⟩ := withMinter_ok h
    refine ⟨Nat.le_refl _, fun m hm => ?_⟩
    rw [hm0] at hm; cases hm
    obtain ⟨-, -, ⟨e0, he0, hlt⟩, -, -, rfl⟩ := updateEnd_ok hf
    exact ⟨_, rfl, fun _ => ⟨rfl, rfl⟩, fun e he hle => by rw [he0] at he; cases he; omega⟩
  | minterEnv price perAddr mintable pp pw =>
    obtain ⟨m0, m', hm0, hf, rfl⟩ := withMinter_ok h
    refine ⟨Nat.le_refl _, fun m hm => ?_⟩
    rw [hm0] at hm; cases hm
    cases hf
    exact ⟨_, rfl, fun _ => ⟨rfl, rfl⟩, fun e he _ => he⟩
  | setWhitelist sender k =>
    obtain ⟨m0, m', hm0, hf, rfl⟩ := withMinter_ok h
    refine ⟨Nat.le_refl _, fun m hm => ?_⟩
    rw [hm0] at hm; cases hm
    obtain ⟨-, hlt, -, -, rfl⟩ := setWhitelist_ok hf
    exact ⟨_, rfl, fun hge => by omega, fun e he _ => he⟩

theorem step'_frame (s : State) (op : Op) :
    s.now ≤ (step' s op).now ∧
    ∀ m, s.minter = some m → ∃ m', (step' s op).minter = some m' ∧
      (m.start ≤ s.now → m'.start = m.start ∧ m'.wl = m.wl) ∧
      (∀ e, m.stop = some e → e ≤ s.now → m'.stop = some e) := by
  unfold step'
  cases h : step s op with
  | ok s' => exact step_frame h
  | error e => exact ⟨Nat.le_refl _, fun m hm => ⟨m, hm, fun _ => ⟨rfl, rfl⟩, fun e he _ => he⟩⟩

end SaleWindow
end LP
