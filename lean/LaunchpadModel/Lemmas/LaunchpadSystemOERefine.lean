import LaunchpadModel.Lemmas.LaunchpadSystemOE
/-!
# The open-edition SYSTEM composite refines both halves (ported from `Lemmas/LaunchpadSystemRefine.lean`)

**Minter side** (`oeOf : SysOE.State → OE.State`). `oeOps s op` = the `OE` op the system op is (a `mint` gets
`Sys.senderViewOf` of the attached whitelist's state as its `SenderView`), followed by one `wlEnv k (some (Sys.wlInfoOf now w))`
per whitelist contract of the post-state. `oe_step_minter`: for every clock / `fund` / factory / minter / collection op
`oeOf (step' s op) = OE.run (oeOf s) (oeOps s op)`. `oe_step_wl`: a whitelist transaction is, for the minter side, a bank
movement outside the `OE` family followed by that refresh. `OEReach`, `oe_run`, `oeReach_inv` as for `LP.Sys`.

**Whitelist side** (`wfOf s k : WF.State`). `wfOps`, `wf_step_own` / `wf_step_other`, `WFReach`, `wf_run`, `wfReach_inv`.
-/
namespace LP.SysOE
open LP.Sys (find replace wlInfoOf senderViewOf viewOf find_nil find_cons find_replace find_replace_none wf_inst_some wf_exec_some)
open LP

/-! ## minter side -/

/-- the `OE` op a system op is (none for a whitelist transaction or a refused interface op) -/
def coreOps (s : State) : Op → List OE.Op
  | .minter o => if witnessed o then [] else [o]
  | .mint sender funds stage alloc proof => [mintOp s sender funds stage alloc proof]
  | .wlInst _ _ _ _ _ => []
  | .wlExec _ _ _ _ => []

/-- the `OE` ops of one system step: the op itself, then the interface refresh from the whitelist states AFTER the step -/
def oeOps (s : State) (op : Op) : List OE.Op :=
  coreOps s op ++ refreshOps (step' s op).now (step' s op).wls

def isWlOp : Op → Bool
  | .wlInst _ _ _ _ _ => true
  | .wlExec _ _ _ _ => true
  | _ => false

theorem refresh_self (s : State) : OE.run (oeOf s) (refreshOps s.now s.wls) = oeOf s :=
  refresh_to_view s (oeOf s) rfl rfl rfl rfl rfl rfl (fun a h => by simp [h])

/-- one accepted / refused `OE` op on the minter side, then the refresh -/
theorem oe_core (s : State) (o : OE.Op) (hw : witnessed o = false)
    (hs : step' s (.minter o) = match OE.step (oeOf s) o with | .ok c => setOe s c | .error _ => s) :
    oeOf (step' s (.minter o)) =
      OE.run (oeOf s) ([o] ++ refreshOps (step' s (.minter o)).now (step' s (.minter o)).wls) := by
  rw [hs]
  simp only [List.singleton_append, OE.run_cons]
  cases hc : OE.step (oeOf s) o with
  | error e =>
    simp only [OE.step'_err hc]
    exact (refresh_self s).symm
  | ok c =>
    simp only [OE.step'_ok hc]
    obtain ⟨h1, h2, _, h4, _⟩ := OE.step_frame hc
    have hwls : c.wls = (oeOf s).wls := by
      rcases h4 with ⟨k, i, rfl⟩ | h4
      · simp [witnessed] at hw
      · exact h4
    symm
    refine refresh_to_view (setOe s c) c rfl rfl rfl rfl rfl rfl ?_
    intro a ha
    rw [hwls]
    simp only [setOe_wls] at ha
    simp [ha]

theorem step'_minter (s : State) (o : OE.Op) (hw : witnessed o = false) :
    step' s (.minter o) = match OE.step (oeOf s) o with | .ok c => setOe s c | .error _ => s := by
  simp only [step', step, hw, Bool.false_eq_true, if_false]
  cases OE.step (oeOf s) o <;> rfl

theorem step'_mint (s : State) (sender : Addr) (funds : List Coin) (stage alloc : Option Nat)
    (proof : Option (List (List Nat))) :
    step' s (.mint sender funds stage alloc proof) =
      match OE.step (oeOf s) (mintOp s sender funds stage alloc proof) with | .ok c => setOe s c | .error _ => s := by
  simp only [step', step]
  cases OE.step (oeOf s) (mintOp s sender funds stage alloc proof) <;> rfl

/-- **minter-side refinement, one step**: every clock / `fund` / factory / minter / collection op of the system is the `OE`
run of `oeOps` — the op with `senderViewOf`-computed witnesses, then `wlEnv` ops carrying `wlInfoOf` of the whitelist states -/
theorem oe_step_minter (s : State) (op : Op) (h : isWlOp op = false) :
    oeOf (step' s op) = OE.run (oeOf s) (oeOps s op) := by
  cases op with
  | minter o =>
    by_cases hw : witnessed o = true
    · have hs : step' s (.minter o) = s := by simp [step', step, hw]
      simp only [oeOps, coreOps, hw, if_true, List.nil_append, hs]
      exact (refresh_self s).symm
    · have hw' : witnessed o = false := by cases hx : witnessed o <;> simp_all
      simp only [oeOps, coreOps, hw', Bool.false_eq_true, if_false]
      exact oe_core s o hw' (step'_minter s o hw')
  | mint sender funds stage alloc proof =>
    simp only [oeOps, coreOps]
    have hw' : witnessed (mintOp s sender funds stage alloc proof) = true := rfl
    -- same argument as `oe_core`, for the op the system builds itself
    rw [step'_mint]
    simp only [List.singleton_append, OE.run_cons]
    cases hc : OE.step (oeOf s) (mintOp s sender funds stage alloc proof) with
    | error e =>
      simp only [OE.step'_err hc]
      exact (refresh_self s).symm
    | ok c =>
      simp only [OE.step'_ok hc]
      obtain ⟨_, _, _, h4, _⟩ := OE.step_frame hc
      have hwls : c.wls = (oeOf s).wls := by
        rcases h4 with ⟨k, i, hk⟩ | h4
        · simp [mintOp] at hk
        · exact h4
      symm
      refine refresh_to_view (setOe s c) c rfl rfl rfl rfl rfl rfl ?_
      intro a ha
      rw [hwls]
      simp only [setOe_wls] at ha
      simp [ha]
  | wlInst v sender funds self m => simp [isWlOp] at h
  | wlExec k sender funds m => simp [isWlOp] at h

/-- **minter-side refinement, whitelist transactions**: for the minter side a whitelist `instantiate` / `execute` is a bank
movement outside the `OE` family followed by the interface refresh -/
theorem oe_step_wl (s : State) (op : Op) (h : isWlOp op = true) :
    oeOf (step' s op) = OE.run { oeOf s with bank := (step' s op).bank } (oeOps s op) := by
  cases op with
  | minter o => simp [isWlOp] at h
  | mint sender funds stage alloc proof => simp [isWlOp] at h
  | wlInst v sender funds self m =>
    simp only [oeOps, coreOps, List.nil_append]
    rcases step'_cases s (.wlInst v sender funds self m) with ⟨s', hs, hs'⟩ | ⟨_, hs'⟩
    · rw [hs']
      obtain ⟨_, r, w, _, _, _, rfl⟩ := step_wlInst_ok hs
      symm
      refine refresh_to_view _ _ rfl rfl rfl rfl rfl rfl ?_
      intro a ha
      simp only [find_cons] at ha
      by_cases hx : a = self
      · simp [hx] at ha
      · simp only [hx, if_false] at ha
        simp [ha]
    · rw [hs']
      exact (refresh_self s).symm
  | wlExec k sender funds m =>
    simp only [oeOps, coreOps, List.nil_append]
    rcases step'_cases s (.wlExec k sender funds m) with ⟨s', hs, hs'⟩ | ⟨_, hs'⟩
    · rw [hs']
      obtain ⟨w, r, w', _, _, _, _, rfl⟩ := step_wlExec_ok hs
      symm
      refine refresh_to_view _ _ rfl rfl rfl rfl rfl rfl ?_
      intro a ha
      simp [find_replace_none _ _ _ _ ha]
    · rw [hs']
      exact (refresh_self s).symm

/-- `OE` runs closed under bank movements of transactions outside the `OE` family -/
inductive OEReach : OE.State → OE.State → Prop
  | refl (c : OE.State) : OEReach c c
  | run {c0 c : OE.State} (l : List OE.Op) : OEReach c0 c → OEReach c0 (OE.run c l)
  | bank {c0 c : OE.State} (b : MintPay.Bank) : OEReach c0 c → OEReach c0 { c with bank := b }

theorem oe_step_reach (c0 : OE.State) (s : State) (op : Op) (h : OEReach c0 (oeOf s)) : OEReach c0 (oeOf (step' s op)) := by
  cases hop : isWlOp op with
  | false => rw [oe_step_minter s op hop]; exact .run _ h
  | true => rw [oe_step_wl s op hop]; exact .run _ (.bank _ h)

/-- **minter-side refinement, runs**: the minter-side projection of every system run is a `OE` run (with the interface inputs
computed by `wlInfoOf` / `senderViewOf`) interleaved with foreign bank movements -/
theorem oe_run (s : State) (ops : List Op) : OEReach (oeOf s) (oeOf (run s ops)) := by
  suffices h : ∀ c0 s, OEReach c0 (oeOf s) → OEReach c0 (oeOf (run s ops)) from h _ s (.refl _)
  induction ops with
  | nil => intro c0 s h; exact h
  | cons op ops ih => intro c0 s h; rw [run_cons]; exact ih c0 _ (oe_step_reach c0 s op h)

/-- every `OE.step'`-invariant that survives a foreign bank movement holds along `OEReach` — hence along system runs -/
theorem oeReach_inv (P : OE.State → Prop) (hstep : ∀ c op, P c → P (OE.step' c op))
    (hbank : ∀ (c : OE.State) (b : MintPay.Bank), P c → P { c with bank := b }) {c0 c : OE.State} (h0 : P c0) (h : OEReach c0 c) : P c := by
  induction h with
  | refl => exact h0
  | run l _ ih => exact OE.run_inv P hstep _ ih l
  | bank b _ ih => exact hbank _ b ih

/-! ## whitelist side -/

/-- the `WF` op a system op is for the contract at `k` -/
def wfOps (k : Addr) (s : State) : Op → List WF.Op
  | .minter (.setTime t) => if t < s.now then [] else [.setTime t]
  | .minter (.fund a c) => [.fund a c]
  | .wlInst v sender funds self m => if self = k ∧ taken s self = false then [.instantiate v sender funds self m] else []
  | .wlExec k' sender funds m => if k' = k then [.exec sender funds m] else []
  | _ => []

theorem taken_find {s : State} {a : Addr} (h : taken s a = false) : find s.wls a = none := by
  unfold taken at h
  cases hf : find s.wls a with
  | none => rfl
  | some w => simp [hf] at h

/-- a step of the minter side that is no accepted clock move keeps the clock -/
theorem minter_frame (s : State) (o : OE.Op) (hnt : ∀ t, o ≠ .setTime t) (k : Addr) :
    wfOf (step' s (.minter o)) k = { wfOf s k with bank := (step' s (.minter o)).bank } := by
  by_cases hw : witnessed o = true
  · have hs : step' s (.minter o) = s := by simp [step', step, hw]
    rw [hs]; rfl
  · have hw' : witnessed o = false := by cases hx : witnessed o <;> simp_all
    rw [step'_minter s o hw']
    cases hc : OE.step (oeOf s) o with
    | error e => rfl
    | ok c =>
      obtain ⟨_, _, _, _, h5⟩ := OE.step_frame hc
      have hn : c.now = s.now := by
        rcases h5 with ⟨t, rfl⟩ | h5
        · exact absurd rfl (hnt t)
        · exact h5
      simp only [wfOf, setOe_now, setOe_bank, setOe_wls, hn]

/-- **whitelist-side refinement, foreign steps**: a system op that is not addressed to the contract at `k` (a minter message,
a mint, a message to another whitelist, a refused clock move) changes at most the bank component of its `WF` state -/
theorem wf_step_other (s : State) (op : Op) (k : Addr) (h : wfOps k s op = []) :
    wfOf (step' s op) k = { wfOf s k with bank := (step' s op).bank } := by
  cases op with
  | minter o =>
    cases o with
    | setTime t =>
      simp only [wfOps] at h
      by_cases ht : t < s.now
      · have hs : step' s (.minter (.setTime t)) = s := by
          simp [step', step, witnessed, OE.step, ht]
        rw [hs]; rfl
      · simp [ht] at h
    | fund a c => simp [wfOps] at h
    | wlEnv k' i => exact minter_frame s _ (by intro t ht; cases ht) k
    | create sender funds msg w => exact minter_frame s _ (by intro t ht; cases ht) k
    | instantiateDirect sender => exact minter_frame s _ (by intro t ht; cases ht) k
    | mint sender funds f sv => exact minter_frame s _ (by intro t ht; cases ht) k
    | mintTo sender funds rcpt => exact minter_frame s _ (by intro t ht; cases ht) k
    | setWhitelist sender funds wl valid => exact minter_frame s _ (by intro t ht; cases ht) k
    | purge sender funds => exact minter_frame s _ (by intro t ht; cases ht) k
    | updateMintPrice sender funds p => exact minter_frame s _ (by intro t ht; cases ht) k
    | updateStartTime sender funds t' => exact minter_frame s _ (by intro t ht; cases ht) k
    | updateEndTime sender funds t' => exact minter_frame s _ (by intro t ht; cases ht) k
    | updateStartTradingTime sender funds t' => exact minter_frame s _ (by intro t ht; cases ht) k
    | updatePerAddressLimit sender funds n => exact minter_frame s _ (by intro t ht; cases ht) k
    | burnRemaining sender funds => exact minter_frame s _ (by intro t ht; cases ht) k
    | sudoStatus v b e => exact minter_frame s _ (by intro t ht; cases ht) k
    | sudoParams u => exact minter_frame s _ (by intro t ht; cases ht) k
    | collTransfer sender id to => exact minter_frame s _ (by intro t ht; cases ht) k
    | collBurn sender id => exact minter_frame s _ (by intro t ht; cases ht) k
    | collTrading sender t' => exact minter_frame s _ (by intro t ht; cases ht) k
    | collCreator sender new => exact minter_frame s _ (by intro t ht; cases ht) k
    | collFreeze sender => exact minter_frame s _ (by intro t ht; cases ht) k
    | collOwn sender a => exact minter_frame s _ (by intro t ht; cases ht) k
  | mint sender funds stage alloc proof =>
    rw [step'_mint]
    cases hc : OE.step (oeOf s) (mintOp s sender funds stage alloc proof) with
    | error e => rfl
    | ok c =>
      obtain ⟨_, _, _, _, h5⟩ := OE.step_frame hc
      have hn : c.now = s.now := by
        rcases h5 with ⟨t, ht⟩ | h5
        · simp [mintOp] at ht
        · exact h5
      simp only [wfOf, setOe_now, setOe_bank, setOe_wls, hn]
  | wlInst v sender funds self m =>
    rcases step'_cases s (.wlInst v sender funds self m) with ⟨s', hs, hs'⟩ | ⟨_, hs'⟩
    · rw [hs']
      obtain ⟨ht, r, w, _, _, _, rfl⟩ := step_wlInst_ok hs
      simp only [wfOps, ht, and_true] at h
      have hne : ¬ k = self := by
        intro hx; subst hx; simp at h
      simp only [wfOf, find_cons, hne, if_false]
    · rw [hs']; rfl
  | wlExec k' sender funds m =>
    rcases step'_cases s (.wlExec k' sender funds m) with ⟨s', hs, hs'⟩ | ⟨_, hs'⟩
    · rw [hs']
      obtain ⟨w, r, w', hf, _, _, _, rfl⟩ := step_wlExec_ok hs
      simp only [wfOps] at h
      have hne : ¬ k = k' := by
        intro hx; subst hx; simp at h
      simp only [wfOf, find_replace _ _ _ _ hf, hne, if_false]
    · rw [hs']; rfl

/-- **whitelist-side refinement, own steps**: a clock move, a `fund`, and every `instantiate` / `execute` addressed to the
contract at `k` is exactly that `WF.step'` on the projection -/
theorem wf_step_own (s : State) (op : Op) (k : Addr) (wop : WF.Op) (h : wfOps k s op = [wop]) :
    wfOf (step' s op) k = WF.step' (wfOf s k) wop := by
  cases op with
  | minter o =>
    cases o with
    | setTime t =>
      simp only [wfOps] at h
      by_cases ht : t < s.now
      · simp [ht] at h
      · simp only [ht, if_false, List.cons.injEq, and_true] at h
        subst h
        have hs : step' s (.minter (.setTime t)) = setOe s { oeOf s with now := t } := by
          simp [step', step, witnessed, OE.step, ht]
        rw [hs]
        simp [wfOf, WF.step', WF.step]
    | fund a c =>
      simp only [wfOps, List.cons.injEq, and_true] at h
      subst h
      have hs : step' s (.minter (.fund a c)) = setOe s { oeOf s with bank := s.bank.fund a c } := by
        simp [step', step, witnessed, OE.step]
      rw [hs]
      simp [wfOf, WF.step', WF.step]
    | wlEnv k' i => simp [wfOps] at h
    | create sender funds msg w => simp [wfOps] at h
    | instantiateDirect sender => simp [wfOps] at h
    | mint sender funds f sv => simp [wfOps] at h
    | mintTo sender funds rcpt => simp [wfOps] at h
    | setWhitelist sender funds wl valid => simp [wfOps] at h
    | purge sender funds => simp [wfOps] at h
    | updateMintPrice sender funds p => simp [wfOps] at h
    | updateStartTime sender funds t' => simp [wfOps] at h
    | updateEndTime sender funds t' => simp [wfOps] at h
    | updateStartTradingTime sender funds t' => simp [wfOps] at h
    | updatePerAddressLimit sender funds n => simp [wfOps] at h
    | burnRemaining sender funds => simp [wfOps] at h
    | sudoStatus v b e => simp [wfOps] at h
    | sudoParams u => simp [wfOps] at h
    | collTransfer sender id to => simp [wfOps] at h
    | collBurn sender id => simp [wfOps] at h
    | collTrading sender t' => simp [wfOps] at h
    | collCreator sender new => simp [wfOps] at h
    | collFreeze sender => simp [wfOps] at h
    | collOwn sender a => simp [wfOps] at h
  | mint sender funds stage alloc proof => simp [wfOps] at h
  | wlInst v sender funds self m =>
    simp only [wfOps] at h
    by_cases hc : self = k ∧ taken s self = false
    · obtain ⟨rfl, ht⟩ := hc
      simp only [ht, and_self, if_true, List.cons.injEq, and_true] at h
      subst h
      have hf : find s.wls self = none := taken_find ht
      have hw : wfOf s self = ⟨s.now, s.bank, none⟩ := by simp [wfOf, hf]
      rw [hw]
      cases hr : WF.step ⟨s.now, s.bank, none⟩ (.instantiate v sender funds self m) with
      | error e =>
        have hs : step' s (.wlInst v sender funds self m) = s := by simp [step', step, ht, hr]
        rw [hs, hw]
        simp [WF.step', hr]
      | ok r =>
        obtain ⟨w, hrw, hrn⟩ := wf_inst_some hr
        have hs : step' s (.wlInst v sender funds self m) = { s with bank := r.bank, wls := (self, w) :: s.wls } := by
          simp [step', step, ht, hr, hrw]
        rw [hs]
        simp only [WF.step', hr, wfOf, find_cons, if_true]
        cases r
        simp only at hrw hrn
        subst hrw hrn
        rfl
    · simp [hc] at h
  | wlExec k' sender funds m =>
    simp only [wfOps] at h
    by_cases hk : k' = k
    · simp only [hk, if_true, List.cons.injEq, and_true] at h
      subst h
      subst hk
      cases hf : find s.wls k' with
      | none =>
        have hs : step' s (.wlExec k' sender funds m) = s := by simp [step', step, hf]
        rw [hs]
        simp [wfOf, hf, WF.step', WF.step, WF.execute]
      | some w =>
        have hw : wfOf s k' = ⟨s.now, s.bank, some w⟩ := by simp [wfOf, hf]
        rw [hw]
        cases hr : WF.step ⟨s.now, s.bank, some w⟩ (.exec sender funds m) with
        | error e =>
          have hs : step' s (.wlExec k' sender funds m) = s := by simp [step', step, hf, hr]
          rw [hs, hw]
          simp [WF.step', hr]
        | ok r =>
          obtain ⟨_, w', _, hrw, hrn⟩ := wf_exec_some hr
          have hs : step' s (.wlExec k' sender funds m) = { s with bank := r.bank, wls := replace s.wls k' w' } := by
            simp [step', step, hf, hr, hrw]
          rw [hs]
          simp only [WF.step', hr, wfOf, find_replace _ _ _ _ hf, if_true]
          cases r
          simp only at hrw hrn
          subst hrw hrn
          rfl
    · simp [hk] at h

theorem wfOps_cases (k : Addr) (s : State) (op : Op) : wfOps k s op = [] ∨ ∃ wop, wfOps k s op = [wop] := by
  cases op with
  | minter o =>
    cases o with
    | setTime t =>
      simp only [wfOps]
      by_cases ht : t < s.now
      · exact Or.inl (by simp [ht])
      · exact Or.inr ⟨.setTime t, by simp [ht]⟩
    | fund a c => exact Or.inr ⟨_, rfl⟩
    | _ => exact Or.inl rfl
  | mint sender funds stage alloc proof => exact Or.inl rfl
  | wlInst v sender funds self m =>
    simp only [wfOps]
    by_cases hc : self = k ∧ taken s self = false
    · exact Or.inr ⟨.instantiate v sender funds self m, by rw [if_pos hc]⟩
    · exact Or.inl (by rw [if_neg hc])
  | wlExec k' sender funds m =>
    simp only [wfOps]
    by_cases hk : k' = k
    · exact Or.inr ⟨.exec sender funds m, by rw [if_pos hk]⟩
    · exact Or.inl (by rw [if_neg hk])

/-- `WF` runs closed under bank movements of transactions that are not addressed to the observed contract -/
inductive WFReach : WF.State → WF.State → Prop
  | refl (c : WF.State) : WFReach c c
  | step {c0 c : WF.State} (op : WF.Op) : WFReach c0 c → WFReach c0 (WF.step' c op)
  | bank {c0 c : WF.State} (b : MintPay.Bank) : WFReach c0 c → WFReach c0 { c with bank := b }

theorem wf_step_reach (c0 : WF.State) (s : State) (op : Op) (k : Addr) (h : WFReach c0 (wfOf s k)) :
    WFReach c0 (wfOf (step' s op) k) := by
  rcases wfOps_cases k s op with h0 | ⟨wop, h1⟩
  · rw [wf_step_other s op k h0]; exact .bank _ h
  · rw [wf_step_own s op k wop h1]; exact .step _ h

/-- **whitelist-side refinement, runs**: the projection of every system run onto the contract at `k` is a `WF` run interleaved
with foreign bank movements -/
theorem wf_run (s : State) (ops : List Op) (k : Addr) : WFReach (wfOf s k) (wfOf (run s ops) k) := by
  suffices h : ∀ c0 s, WFReach c0 (wfOf s k) → WFReach c0 (wfOf (run s ops) k) from h _ s (.refl _)
  induction ops with
  | nil => intro c0 s h; exact h
  | cons op ops ih => intro c0 s h; rw [run_cons]; exact ih c0 _ (wf_step_reach c0 s op k h)

theorem wfReach_inv (P : WF.State → Prop) (hstep : ∀ c op, P c → P (WF.step' c op))
    (hbank : ∀ (c : WF.State) (b : MintPay.Bank), P c → P { c with bank := b }) {c0 c : WF.State} (h0 : P c0) (h : WFReach c0 c) : P c := by
  induction h with
  | refl => exact h0
  | step op _ ih => exact hstep _ op ih
  | bank b _ ih => exact hbank _ b ih

end LP.SysOE
