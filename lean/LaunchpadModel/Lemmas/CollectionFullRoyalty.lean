import LaunchpadModel.Lemmas.CollectionFull
import LaunchpadModel.Lemmas.Sg721
import LaunchpadModel.Lemmas.Royalty
/-!
# C10 refinement, lemmas: the collection composite against the royalty aspect model `LP.Royalty`

Projection `proj10` (conventions of the two models differ: addresses — ids 900…999 malformed vs ids 0 and 5 malformed —,
URLs — validity flag vs parity —, descriptions — (id, length) vs length —, versions — structure vs triple), the message
translation `trU`, and the one-message simulations for `UpdateCollectionInfo` (the composite's royalty gate + the C09
machine against `Royalty.updateCollectionInfo`, two independently written transcriptions), `FreezeCollectionInfo`, every
other message, and the accepted migrations.
-/
namespace LP.CF
open LP
open LP.Sg721 (Kind Block Exp Approval Token Desc Url Info Ownership Operator Action InstMsg validAddr isContract codeVersion)

/-! ## Projection -/

/-- address map: valid strings stay distinct and valid (`addrValid` rejects exactly 0 and 5), every malformed string ↦ 0 -/
def g (a : Nat) : Nat := if validAddr a then a + 6 else 0

def pKind : Kind → Royalty.Kind
  | .base => .base | .nt => .nt | .updatable => .updatable | .onchain => .onchain

def pVer (v : Semver.Version) : Royalty.Ver := (v.major, v.minor, v.patch)

/-- URL map: parity carries `Url::parse`'s verdict -/
def pUrl (u : Url) : Nat := 2 * u.id + (if u.valid then 0 else 1)

def pRoy (r : Sg721.Royalty) : Royalty.RoyaltyInfo := ⟨g r.payment, r.share⟩

def proj10 (c : Sg721.State) : Royalty.Coll :=
  { kind := pKind c.kind, name := pKind c.kind, ver := pVer c.ver, creator := g c.info.creator,
    descLen := c.info.description.len, image := pUrl c.info.image, link := c.info.externalLink.map pUrl,
    explicit := c.info.explicitContent, startTrading := c.info.startTradingTime, royalty := c.info.royalty.map pRoy,
    frozen := c.frozenInfo, updatedAt := c.royaltyUpdatedAt }

def trU (u : UpdateInfo) : Royalty.UpdMsg :=
  { desc := u.description.map (·.len), image := u.image.map pUrl,
    link := (match u.externalLink with | none => .keep | some l => .set (pUrl l)),
    explicit := u.explicitContent,
    royalty := (match u.royalty with | none => .keep | some r => .set (pRoy r)),
    creator := u.creator.map g }

/-! ## Conventions agree -/

theorem addrValid_g (a : Addr) : Royalty.addrValid (g a) = validAddr a := by
  unfold g Royalty.addrValid
  cases h : validAddr a <;> simp

theorem g_inj {a b : Nat} (hb : validAddr b = true) : g a = g b ↔ a = b := by
  unfold g
  cases ha : validAddr a
  · simp only [hb, Bool.false_eq_true, if_false, if_true]
    constructor
    · intro h; omega
    · intro h; rw [h, hb] at ha; cases ha
  · simp only [hb, if_true]; omega

theorem urlValid_p (u : Url) : Royalty.urlValid (pUrl u) = u.valid := by
  unfold Royalty.urlValid pUrl
  cases h : u.valid <;> simp <;> omega

theorem optUrlValid_p (l : Option Url) : Royalty.optUrlValid (l.map pUrl) = Sg721.optUrlValid l := by
  cases l with
  | none => rfl
  | some u => simp [Royalty.optUrlValid, Sg721.optUrlValid, urlValid_p]

theorem DAY_eq : Sg721.DAY_NS = Royalty.DAY_NS := by decide
theorem MAXD_eq : Sg721.MAX_DESC = Royalty.MAX_DESCRIPTION_LENGTH := rfl

theorem raiseOk_p (old : Option Sg721.Royalty) (share : Nat) : Royalty.raiseOk (old.map pRoy) share = raiseOk old share := by
  unfold Royalty.raiseOk raiseOk Royalty.MAX_SHARE_DELTA Royalty.MAX_ROYALTY_SHARE
  cases old with
  | none => rfl
  | some o =>
    simp only [Option.map, pRoy]
    by_cases h1 : o.share < share
    · by_cases h2 : share - o.share > percent Gen.sg721_base_MAX_SHARE_DELTA_PCT
      · have : ¬ share - o.share ≤ percent Gen.sg721_base_MAX_SHARE_DELTA_PCT := by omega
        simp [h1, h2, this]
      · have h2' : share - o.share ≤ percent Gen.sg721_base_MAX_SHARE_DELTA_PCT := by omega
        by_cases h3 : share > percent Gen.sg721_base_MAX_ROYALTY_SHARE_PCT
        · have : ¬ share ≤ percent Gen.sg721_base_MAX_ROYALTY_SHARE_PCT := by omega
          simp [h1, h2, h2', h3, this]
        · have : share ≤ percent Gen.sg721_base_MAX_ROYALTY_SHARE_PCT := by omega
          simp [h1, h2, h2', h3, this]
    · simp [h1]

theorem supported_uci (k : Kind) (u : Sg721.UpdateInfo) (r : Bool) : Sg721.supported k (.updateCollectionInfo u r) = true := by
  cases k <;> rfl

theorem supported_freeze (k : Kind) : Sg721.supported k .freezeCollectionInfo = true := by
  cases k <;> rfl

/-! ## `UpdateCollectionInfo` -/

/-- the link after the update -/
def newLink (c : Sg721.State) (u : UpdateInfo) : Option Url :=
  match u.externalLink with
  | none => c.info.externalLink
  | some l => some l

/-- the collection info after an accepted update, royalty aside -/
def newInfo (c : Sg721.State) (u : UpdateInfo) (roy : Option Sg721.Royalty) : Info :=
  ⟨u.creator.getD c.info.creator, u.description.getD c.info.description, u.image.getD c.info.image, newLink c u,
   u.explicitContent, c.info.startTradingTime, roy⟩

/-- inversion of the composite's `UpdateCollectionInfo` (C09 machine + computed royalty gate) -/
theorem uci_ok_iff (c : Sg721.State) (b : Block) (sender : Addr) (funds : List Coin) (u : UpdateInfo) (core' : Sg721.State) :
    Sg721.exec c ⟨b, sender, funds, .updateCollectionInfo u.toSg (royAccepted c b u)⟩ = .ok core' ↔
      c.frozenInfo = false ∧ c.info.creator = sender ∧ Sg721.optAddrValid u.creator = true ∧
      (u.description.getD c.info.description).len ≤ Sg721.MAX_DESC ∧ (u.image.getD c.info.image).valid = true ∧
      Sg721.optUrlValid (newLink c u) = true ∧
      (match u.royalty with
       | some r => royaltyGate c b r = true ∧ core' = { c with info := newInfo c u (some r), royaltyUpdatedAt := b.time }
       | none => core' = { c with info := newInfo c u c.info.royalty }) := by
  have hl : (u.externalLink.map some).getD c.info.externalLink = newLink c u := by
    unfold newLink; cases u.externalLink <;> rfl
  simp only [Sg721.exec, supported_uci, Sg721.execMsg, Sg721.execUpdateCollectionInfo, UpdateInfo.toSg, Sg721.ensure_ok,
    true_and, Bool.not_eq_true', decide_eq_true_eq, hl]
  cases hr : u.royalty with
  | none =>
    simp only [Option.map, newInfo]
    constructor
    · rintro ⟨h1, h2, h3, h4, h5, h6, h7⟩
      exact ⟨h1, h2, h3, of_decide_eq_true h4, h5, h6, by cases h7; rfl⟩
    · rintro ⟨h1, h2, h3, h4, h5, h6, h7⟩
      exact ⟨h1, h2, h3, decide_eq_true h4, h5, h6, by rw [h7]⟩
  | some r =>
    simp only [royAccepted, hr, Option.map, newInfo, Sg721.ensure_ok]
    constructor
    · rintro ⟨h1, h2, h3, h4, h5, h6, h7, h8⟩
      exact ⟨h1, h2, h3, of_decide_eq_true h4, h5, h6, h7, by cases h8; rfl⟩
    · rintro ⟨h1, h2, h3, h4, h5, h6, h7, h8⟩
      exact ⟨h1, h2, h3, decide_eq_true h4, h5, h6, h7, by rw [h8]⟩

theorem proj10_newInfo (c : Sg721.State) (u : UpdateInfo) (roy : Option Sg721.Royalty) (rua : Nat) :
    proj10 { c with info := newInfo c u roy, royaltyUpdatedAt := rua } =
      { Royalty.applyFields (proj10 c) (trU u) with royalty := roy.map pRoy, updatedAt := rua } := by
  unfold proj10 newInfo Royalty.applyFields trU newLink
  cases u.creator <;> cases u.description <;> cases u.image <;> cases u.externalLink <;> rfl

theorem fieldsOk_iff (c : Sg721.State) (sender : Addr) (u : UpdateInfo) (hv : validAddr sender = true) :
    Royalty.fieldsOk (proj10 c) (g sender) (trU u) ↔
      c.frozenInfo = false ∧ c.info.creator = sender ∧ Sg721.optAddrValid u.creator = true ∧
      (u.description.getD c.info.description).len ≤ Sg721.MAX_DESC ∧ (u.image.getD c.info.image).valid = true ∧
      Sg721.optUrlValid (newLink c u) = true := by
  unfold Royalty.fieldsOk
  have e1 : (proj10 c).frozen = c.frozenInfo := rfl
  have e2 : (proj10 c).creator = g c.info.creator := rfl
  have e3 : (∀ n, (trU u).creator = some n → Royalty.addrValid n = true) ↔ Sg721.optAddrValid u.creator = true := by
    unfold trU Sg721.optAddrValid
    cases u.creator with
    | none => simp
    | some a => simp [addrValid_g]
  have e4 : (trU u).desc.getD (proj10 c).descLen = (u.description.getD c.info.description).len := by
    unfold trU proj10; cases u.description <;> rfl
  have e5 : Royalty.urlValid ((trU u).image.getD (proj10 c).image) = (u.image.getD c.info.image).valid := by
    unfold trU proj10; cases u.image <;> simp [urlValid_p]
  have e6 : Royalty.optUrlValid (Royalty.applyFields (proj10 c) (trU u)).link = Sg721.optUrlValid (newLink c u) := by
    unfold Royalty.applyFields trU proj10 newLink
    cases u.externalLink with
    | none => simp [optUrlValid_p]
    | some l => simp [Royalty.optUrlValid, Sg721.optUrlValid, urlValid_p]
  rw [e1, e2, e3, e4, e5, e6, g_inj hv, MAXD_eq]

/-- **`UpdateCollectionInfo`, forward**: what the composite accepts, the royalty model accepts, with the projected result -/
theorem uci_forward (c : Sg721.State) (b : Block) (sender : Addr) (funds : List Coin) (u : UpdateInfo) (core' : Sg721.State)
    (hv : validAddr sender = true)
    (h : Sg721.exec c ⟨b, sender, funds, .updateCollectionInfo u.toSg (royAccepted c b u)⟩ = .ok core') :
    Royalty.updateCollectionInfo (proj10 c) b.time (g sender) (trU u) = .ok (proj10 core') := by
  obtain ⟨h1, h2, h3, h4, h5, h6, h7⟩ := (uci_ok_iff c b sender funds u core').1 h
  rw [Royalty.update_ok_iff]
  refine ⟨(fieldsOk_iff c sender u hv).2 ⟨h1, h2, h3, h4, h5, h6⟩, ?_⟩
  cases hr : u.royalty with
  | none =>
    rw [hr] at h7
    have : (trU u).royalty = .keep := by unfold trU; rw [hr]
    rw [this, h7]
    simp only
    exact proj10_newInfo c u c.info.royalty c.royaltyUpdatedAt
  | some r =>
    rw [hr] at h7
    obtain ⟨hg, rfl⟩ := h7
    have : (trU u).royalty = .set (pRoy r) := by unfold trU; rw [hr]
    rw [this]
    simp only
    rw [Royalty.applyRoyalty_ok_iff]
    unfold royaltyGate at hg
    simp only [Bool.and_eq_true, decide_eq_true_eq] at hg
    obtain ⟨⟨⟨g1, g2⟩, g3⟩, g4⟩ := hg
    refine ⟨?_, ?_, g3, ?_, ?_⟩
    · show c.royaltyUpdatedAt + Royalty.DAY_NS ≤ b.time
      rw [← DAY_eq]; exact g1
    · show Royalty.addrValid (g r.payment) = true
      rw [addrValid_g]; exact g2
    · show Royalty.raiseOk (c.info.royalty.map pRoy) r.share = true
      rw [raiseOk_p]; exact g4
    · rw [proj10_newInfo]; rfl

/-- **`UpdateCollectionInfo`, backward**: what the royalty model accepts on the projection, the composite accepts -/
theorem uci_backward (c : Sg721.State) (b : Block) (sender : Addr) (funds : List Coin) (u : UpdateInfo) (r' : Royalty.Coll)
    (hv : validAddr sender = true)
    (h : Royalty.updateCollectionInfo (proj10 c) b.time (g sender) (trU u) = .ok r') :
    ∃ core', Sg721.exec c ⟨b, sender, funds, .updateCollectionInfo u.toSg (royAccepted c b u)⟩ = .ok core' := by
  rw [Royalty.update_ok_iff] at h
  obtain ⟨hf, hr⟩ := h
  obtain ⟨h1, h2, h3, h4, h5, h6⟩ := (fieldsOk_iff c sender u hv).1 hf
  cases hu : u.royalty with
  | none =>
    exact ⟨_, (uci_ok_iff c b sender funds u _).2 ⟨h1, h2, h3, h4, h5, h6, by rw [hu]⟩⟩
  | some r =>
    have : (trU u).royalty = .set (pRoy r) := by unfold trU; rw [hu]
    rw [this] at hr
    simp only at hr
    rw [Royalty.applyRoyalty_ok_iff] at hr
    obtain ⟨g1, g2, g3, g4, _⟩ := hr
    have hg : royaltyGate c b r = true := by
      unfold royaltyGate
      simp only [Bool.and_eq_true, decide_eq_true_eq]
      refine ⟨⟨⟨?_, ?_⟩, g3⟩, ?_⟩
      · rw [DAY_eq]; exact g1
      · rw [← addrValid_g]; exact g2
      · rw [← raiseOk_p]; exact g4
    exact ⟨_, (uci_ok_iff c b sender funds u _).2 ⟨h1, h2, h3, h4, h5, h6, by rw [hu]; exact ⟨hg, rfl⟩⟩⟩

/-! ## `FreezeCollectionInfo`, the other messages -/

theorem freeze_sim (c : Sg721.State) (b : Block) (sender : Addr) (funds : List Coin) (hv : validAddr sender = true) :
    okOf ((Sg721.exec c ⟨b, sender, funds, .freezeCollectionInfo⟩).map proj10) =
      okOf (Royalty.step (proj10 c) ⟨b.time, g sender, .freeze⟩) := by
  simp only [Sg721.exec, supported_freeze, Sg721.execMsg, Sg721.execFreezeCollectionInfo, Royalty.step, ensure_true]
  have e : (proj10 c).creator = g c.info.creator := rfl
  by_cases h : c.info.creator = sender
  · have : ¬ (proj10 c).creator ≠ g sender := by rw [e, h]; simp
    rw [if_neg this]
    simp only [h, decide_true, Sg721.ensure, if_true, Except.map, okOf]
    rfl
  · have : (proj10 c).creator ≠ g sender := by rw [e]; intro hh; exact h ((g_inj hv).1 hh)
    rw [if_pos this]
    simp only [h, decide_false, Sg721.ensure, Bool.false_eq_true, if_false, Except.map, okOf]

/-- which messages the royalty model treats specially -/
def isRoyaltyMsg : ExecMsg → Bool
  | .updateCollectionInfo _ => true
  | .freezeCollectionInfo => true
  | .updateStartTradingTime _ => true
  | _ => false

/-- every other accepted message leaves the projection alone -/
theorem other_frame (c core' : Sg721.State) (b : Block) (sender : Addr) (funds : List Coin) (m : ExecMsg)
    (hm : isRoyaltyMsg m = false) (h : Sg721.exec c ⟨b, sender, funds, toExec c b m⟩ = .ok core') :
    proj10 core' = proj10 c := by
  obtain ⟨_, e⟩ := Sg721.exec_eff' h
  cases m <;> simp only [isRoyaltyMsg, Bool.true_eq_false] at hm <;> simp only [toExec] at e <;> cases e <;> rfl

theorem ustt_frame (c core' : Sg721.State) (b : Block) (sender : Addr) (funds : List Coin) (t : Option Nat)
    (h : Sg721.exec c ⟨b, sender, funds, .updateStartTradingTime t⟩ = .ok core') :
    proj10 core' = { proj10 c with startTrading := t } := by
  obtain ⟨_, e⟩ := Sg721.exec_eff' h
  cases e; rfl

/-! ## Migrations -/

theorem verLt_p (a b : Semver.Version) : Royalty.verLt (pVer a) (pVer b) = decide (a < b) := by
  rcases a with ⟨a1, a2, a3⟩
  rcases b with ⟨b1, b2, b3⟩
  have h : ((⟨a1, a2, a3⟩ : Semver.Version) < ⟨b1, b2, b3⟩) ↔
      (a1 < b1 ∨ (a1 = b1 ∧ (a2 < b2 ∨ (a2 = b2 ∧ a3 < b3)))) := Iff.rfl
  simp only [h, Royalty.verLt, pVer]
  by_cases h1 : a1 < b1 <;> by_cases e1 : a1 = b1 <;> by_cases h2 : a2 < b2 <;> by_cases e2 : a2 = b2 <;>
    by_cases h3 : a3 < b3 <;> simp [*] <;> omega

theorem curVer_p (k : Kind) : Royalty.curVer (pKind k) = pVer (codeVersion k) := by cases k <;> rfl

theorem V310_p : Royalty.V310 = pVer Sg721.V_3_1_0 := rfl

/-- an accepted migration to the sg721-updatable code, seen through the projection (with or without a legacy item) -/
theorem migrateUpdatable_proj (c c' : Coll) (now : Nat) (h : migrateUpdatable c now = .ok c') :
    Royalty.migrate (proj10 c.core) now .updatable = .ok (proj10 c'.core) := by
  rcases c with ⟨⟨kind, toks, cnt, ops, own, info, fz, rua, fm, upd, ver⟩, self, nm, sym, leg⟩
  unfold migrateUpdatable upgradeRoyalty upgradeOwnership at h
  have hcv : Royalty.curVer .updatable = pVer (codeVersion .updatable) := rfl
  unfold Royalty.migrate
  simp only [proj10, V310_p, verLt_p, ← DAY_eq, hcv]
  generalize Sg721.UPD_EARLIEST = ue at h
  generalize codeVersion Kind.updatable = code at h ⊢
  generalize Sg721.V_3_0_0 = v30 at h
  generalize Sg721.V_3_1_0 = v31 at h ⊢
  generalize Sg721.DAY_NS = day at h ⊢
  by_cases h3 : ver = code
  · subst h3
    by_cases h1 : ver < ue <;> by_cases h2 : ver < ver <;> by_cases h4 : ver < v30 <;>
      by_cases h5 : ver < v31 <;> by_cases h6 : now < day <;> cases kind <;> rcases leg with _ | a <;>
      (try by_cases hva : validAddr a = true) <;> simp [*] at h
    all_goals subst h
    all_goals simp [pKind, *]
  · by_cases h1 : ver < ue <;> by_cases h2 : code < ver <;> by_cases h4 : ver < v30 <;>
      by_cases h5 : ver < v31 <;> by_cases h6 : now < day <;> cases kind <;> rcases leg with _ | a <;>
      (try by_cases hva : validAddr a = true) <;> simp [*] at h
    all_goals subst h
    all_goals simp [pKind, *]

theorem migrateOnchain_proj (c c' : Coll) (now : Nat) (hk : c.core.kind = .onchain) (h : migrateOnchain c = .ok c') :
    Royalty.migrate (proj10 c.core) now .onchain = .ok (proj10 c'.core) := by
  rcases c with ⟨⟨kind, toks, cnt, ops, own, info, fz, rua, fm, upd, ver⟩, self, nm, sym, leg⟩
  simp only at hk; subst hk
  have hto : pVer Sg721.ONCHAIN_TO = (3, 0, 0) := by decide
  have hcv : Royalty.curVer .onchain = pVer (codeVersion .onchain) := rfl
  unfold migrateOnchain upgradeOwnership at h
  unfold Royalty.migrate
  simp only [proj10, verLt_p, hcv]
  generalize Sg721.ONCHAIN_EARLIEST = ue at h
  generalize codeVersion Kind.onchain = code at h ⊢
  generalize Sg721.V_3_0_0 = v30 at h
  by_cases h3 : ver = code
  · subst h3
    have hirr : ¬ ver < ver := Semver.lt_irrefl ver
    by_cases h1 : ver < ue <;> simp [*] at h
    subst h
    simp [pKind, hirr]
  · have h3' : ¬ code = ver := fun e => h3 e.symm
    by_cases h2 : code < ver
    · by_cases h1 : ver < ue <;> simp [*] at h
    · have hlt : ver < code := by
        rcases Semver.lt_trichotomy ver code with x | x | x
        · exact x
        · exact absurd x h3
        · exact absurd x h2
      by_cases h1 : ver < ue <;> by_cases h4 : ver < v30 <;> rcases leg with _ | a <;>
        (try by_cases hva : validAddr a = true) <;> simp [*] at h
      all_goals subst h
      all_goals simp [pKind, hlt, hto]

theorem migrateSelf_proj (c c' : Coll) (now : Nat) (h : migrateSelf c now = .ok c') :
    Royalty.migrate (proj10 c.core) now (pKind c.core.kind) = .ok (proj10 c'.core) := by
  unfold migrateSelf at h
  split at h
  · cases h
  · rename_i hk; rw [hk]; exact migrateUpdatable_proj c c' now h
  · rename_i hk; rw [hk]; exact migrateOnchain_proj c c' now hk h
  · rw [migrateNt_err] at h; cases h

end LP.CF
