import LaunchpadModel.Lemmas.LaunchpadSystemOE
import LaunchpadModel.Lemmas.LaunchpadSystemMint
/-!
# What an accepted open-edition system `mint` went through, in terms of the WHITELIST's own state

`mint_ok`: inversion of `SysOE.step … (.mint …)` down to the composite gate `OE.isPublicMint`, the end-time check, the price and
the counters written. `isPublicMint_cases`: public branch / whitelist branch. `wl_config`: on the whitelist branch the `WlInfo`
the minter read is `Sys.wlInfoOf now w` of the contract `w` stored at the attached address.

Everything about `Sys.wlInfoOf` / `Sys.wlKindOf` / stages (`Sys.info_*`, `Sys.kind_*`, `Sys.configOk_*`, `Sys.activeStage_*`)
is stated over `WF` only in `Lemmas/LaunchpadSystemMint.lean` and is REUSED from there.
-/
namespace LP.SysOE
open LP
open LP.Sys (find replace wlKindOf wlInfoOf senderViewOf viewOf fieldsOf info_kind)

/-! ## inversion of a system mint -/

theorem isPublicMint_cases {s : OE.State} {m : OE.Minter} {sender : Addr} {f : MintLimits.Fields} {sv : VF.SenderView}
    {g : VF.MintKind} (h : OE.isPublicMint s m sender f sv = .ok g) :
    (g = .pub ∧ (m.whitelist = none ∨ ∃ a i, m.whitelist = some a ∧ OE.wlConfig s m.v a = .ok i ∧ i.active = false)) ∨
    (∃ a i, m.whitelist = some a ∧ OE.wlConfig s m.v a = .ok i ∧ i.active = true ∧
      OE.wlMintChecks m i sender f sv = .ok g) := by
  unfold OE.isPublicMint at h
  split at h
  · rename_i hw
    cases h
    exact Or.inl ⟨rfl, Or.inl hw⟩
  · rename_i a hw
    split at h
    · cases h
    · rename_i i hi
      split at h
      · rename_i hact
        cases h
        exact Or.inl ⟨rfl, Or.inr ⟨a, i, hw, hi, hact⟩⟩
      · rename_i hact
        have hact' : i.active = true := by cases hq : i.active <;> simp_all
        exact Or.inr ⟨a, i, hw, hi, hact', h⟩

/-- on the whitelist branch, what the minter read IS `wlInfoOf` of the contract stored at the attached address -/
theorem wl_config {s : State} {v : OE.Variant} {a : Addr} {i : VF.WlInfo} (h : OE.wlConfig (oeOf s) v a = .ok i) :
    ∃ w, find s.wls a = some w ∧ i = wlInfoOf s.now w ∧ MintLimits.configOk v.flavor (wlKindOf w.v) = true := by
  obtain ⟨h1, h2⟩ := OE.wlConfig_ok h
  rw [oeOf_wls] at h1
  cases hf : find s.wls a with
  | none => simp [hf] at h1
  | some w =>
    simp only [hf, Option.map_some, Option.some.injEq] at h1
    subst h1
    exact ⟨w, rfl, rfl, by rw [info_kind] at h2; exact h2⟩

theorem mintView_eq {s : State} {m : OE.Minter} {a : Addr} {w : WF.Wl} (hm : s.minter = some m) (ha : m.whitelist = some a)
    (hf : find s.wls a = some w) (sender : Addr) (stage alloc : Option Nat) (proof : Option (List (List Nat))) :
    mintView s sender stage alloc proof = senderViewOf s.now w sender stage alloc proof := by
  simp [mintView, hm, ha, hf]

theorem bookCount_frame (m : OE.Minter) (sender : Addr) (g : VF.MintKind) :
    (OE.bookCount m sender g).whitelist = m.whitelist ∧ (OE.bookCount m sender g).v = m.v ∧
    (OE.bookCount m sender g).startTime = m.startTime ∧ (OE.bookCount m sender g).perAddressLimit = m.perAddressLimit ∧
    (OE.bookCount m sender g).endTime = m.endTime := by
  cases g with
  | pub => exact ⟨rfl, rfl, rfl, rfl, rfl⟩
  | wl sid cnt =>
    simp only [OE.bookCount]
    split <;> exact ⟨rfl, rfl, rfl, rfl, rfl⟩

/-- **inversion of an accepted system mint**: the minter exists, the composite gate classified the mint as `g` from the
whitelist states, a public mint passed the public rules, the end time (if any) lies strictly ahead, the attached funds are
exactly the price in force, and the counters written are `OE.bookCount m sender g` (nothing else of the counters moves; clock
and whitelists are untouched) -/
theorem mint_ok {s s' : State} {sender : Addr} {funds : List Coin} {stage alloc : Option Nat}
    {proof : Option (List (List Nat))} (h : step s (.mint sender funds stage alloc proof) = .ok s') :
    ∃ m g price m',
      s.minter = some m ∧
      OE.isPublicMint (oeOf s) m sender (fieldsOf stage alloc proof) (mintView s sender stage alloc proof) = .ok g ∧
      (g = .pub → m.startTime ≤ s.now ∧ m.pub sender < m.perAddressLimit) ∧
      (∀ e, m.endTime = some e → s.now < e) ∧
      OE.mintPrice (oeOf s) m false = .ok price ∧ mayPay funds price.denom = .ok price.amount ∧
      s'.minter = some m' ∧ m'.pub = (OE.bookCount m sender g).pub ∧ m'.wlc = (OE.bookCount m sender g).wlc ∧
      m'.stg = (OE.bookCount m sender g).stg ∧ m'.tot = (OE.bookCount m sender g).tot ∧
      m'.whitelist = m.whitelist ∧ m'.v = m.v ∧ m'.startTime = m.startTime ∧ m'.perAddressLimit = m.perAddressLimit ∧
      m'.endTime = m.endTime ∧
      s'.wls = s.wls ∧ s'.now = s.now := by
  obtain ⟨c, hc, rfl⟩ := step_mint_ok h
  simp only [mintOp, OE.step] at hc
  obtain ⟨m, hm, hc⟩ := OE.withMinterS_ok hc
  obtain ⟨b1, g, _, _, hg, hpub, hend, hex⟩ := OE.mintSender_ok hc
  obtain ⟨price, ms, sq, b2, _, hp, hpay, _, _, _, _, rfl⟩ := OE.executeMint_ok hex
  obtain ⟨hb1, hb2, hb3, hb4, hb5⟩ := bookCount_frame m sender g
  exact ⟨m, g, price, _, hm, hg, hpub, OE.ended_false hend, hp, hpay, rfl, rfl, rfl, rfl, rfl, hb1, hb2, hb3, hb4, hb5, rfl, rfl⟩

/-- **inversion of an accepted airdrop** (`MintTo`): only the admin, and only strictly before the end time -/
theorem mintTo_ok {s s' : State} {sender : Addr} {funds : List Coin} {rcpt : Addr}
    (h : step s (.minter (.mintTo sender funds rcpt)) = .ok s') :
    ∃ m, s.minter = some m ∧ sender = m.admin ∧ (∀ e, m.endTime = some e → s.now < e) := by
  obtain ⟨_, c, hc, rfl⟩ := step_minter_ok h
  simp only [OE.step] at hc
  obtain ⟨m, hm, hc⟩ := OE.withMinterS_ok hc
  obtain ⟨b1, _, hadm, hend, _⟩ := OE.mintAdmin_ok hc
  exact ⟨m, hm, hadm, OE.ended_false hend⟩

end LP.SysOE
