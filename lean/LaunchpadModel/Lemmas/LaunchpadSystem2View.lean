import LaunchpadModel.Lemmas.LaunchpadSystem2
/-!
# System composite 2: what a collection step does to the VIEW (`tokView`, `ttView`)

`TokEff v v' msg` classifies the effect of an ACCEPTED collection message on the token table of the simplified interface
(`Supply.Coll`): a `Coll.transfer`, a `Coll.burn`, a `Coll.mint`, or nothing. `tok_effect` proves it from the relational reading
`Sg721.Eff` of `Sg721.exec` (for states whose ids are duplicate-free, `Sg721.SInv`, an invariant). The ownership / creator /
freeze / trading-time record follows `CF.msg_sim` (`ttView = CF.projTT`).
-/
namespace LP.Sys2
open LP

/-! ## lists -/

theorem tokView_toks (c : Sg721.State) : (tokView c).toks = (c.tokens.map fun t => (t.id, t.owner)).reverse := rfl
theorem tokView_count (c : Sg721.State) : (tokView c).count = c.count := rfl

theorem tokView_ext {c c' : Sg721.State} (h1 : c'.tokens.map (fun t => (t.id, t.owner)) = c.tokens.map (fun t => (t.id, t.owner)))
    (h2 : c'.count = c.count) : tokView c' = tokView c := by
  simp [tokView, h1, h2]

/-- `setToken` with the same owner leaves the (id, owner) table alone when ids are duplicate-free -/
theorem map_setToken_same (c : Sg721.State) (t t' : Sg721.Token) (hn : c.ids.Nodup) (ht : t ∈ c.tokens)
    (hid : t'.id = t.id) (ho : t'.owner = t.owner) :
    (c.setToken t').tokens.map (fun x => (x.id, x.owner)) = c.tokens.map (fun x => (x.id, x.owner)) := by
  simp only [Sg721.State.setToken, List.map_map]
  apply List.map_congr_left
  intro x hx
  simp only [Function.comp]
  by_cases hxt : x.id = t'.id
  · simp only [hxt, if_true]
    have : x = t := Supply.inj_of_nodup_map (fun y : Sg721.Token => y.id) c.tokens hn x hx t ht (by rw [hxt, hid])
    subst this
    rw [hid, ho]
  · simp [hxt]

/-- `setToken` that replaces the owner = `Coll.transfer` on the view -/
theorem map_setToken_owner (c : Sg721.State) (t t' : Sg721.Token) (r : Addr) (hid : t'.id = t.id) (ho : t'.owner = r) :
    (c.setToken t').tokens.map (fun x => (x.id, x.owner)) =
      (c.tokens.map (fun x => (x.id, x.owner))).map (fun e => (e.1, if e.1 == t.id then r else e.2)) := by
  simp only [Sg721.State.setToken, List.map_map]
  apply List.map_congr_left
  intro x _
  simp only [Function.comp]
  by_cases hxt : x.id = t'.id
  · simp [hxt, hid, ho]
  · have : ¬ x.id = t.id := by rw [← hid]; exact hxt
    simp [hxt, this]

/-! ## the effect on the token table -/

/-- the effect of an accepted collection message on the token table of the simplified interface -/
def TokEff (v v' : Supply.Coll) : CF.ExecMsg → Prop
  | .transferNft r id => ∃ o, v.ownerOf id = some o ∧ v.transfer id r = some v'
  | .sendNft r id _ => ∃ o, v.ownerOf id = some o ∧ v.transfer id r = some v'
  | .burn id => ∃ o, v.ownerOf id = some o ∧ v.burn id = some v'
  | .mint id owner _ _ => v.mint id owner = some v'
  | _ => v' = v

theorem mem_view_of_find {c : Sg721.State} {id : Nat} {t : Sg721.Token} (h : c.find? id = some t) : id ∈ (tokView c).ids :=
  (mem_tokView_ids c id).2 (Sg721.mem_ids_of_find? h)

theorem ownerOf_isSome {v : Supply.Coll} {id : Nat} (h : id ∈ v.ids) : ∃ o, v.ownerOf id = some o := by
  unfold Supply.Coll.ownerOf
  cases hf : v.toks.find? (fun e => e.1 == id) with
  | some e => exact ⟨e.2, rfl⟩
  | none =>
    rw [List.find?_eq_none] at hf
    obtain ⟨e, he, rfl⟩ := List.mem_map.mp h
    exact absurd (by simp) (hf e he)

theorem view_transfer (c : Sg721.State) (t : Sg721.Token) (id : Nat) (r : Addr) (hf : c.find? id = some t) :
    (tokView c).transfer id r = some (tokView (c.setToken { t with owner := r, approvals := [] })) := by
  obtain ⟨_, hid⟩ := Sg721.find?_some hf
  have hm := mem_view_of_find hf
  unfold Supply.Coll.transfer
  rw [if_pos hm]
  congr 1
  have := map_setToken_owner c t { t with owner := r, approvals := [] } r rfl rfl
  simp only [tokView]
  rw [this, hid, List.map_reverse]
  rfl

theorem view_burn (c : Sg721.State) (t : Sg721.Token) (id : Nat) (hf : c.find? id = some t) :
    (tokView c).burn id = some (tokView (c.removeToken id)) := by
  have hm := mem_view_of_find hf
  unfold Supply.Coll.burn
  rw [if_pos hm]
  congr 1
  simp only [tokView, Sg721.State.removeToken]
  rw [List.filter_reverse, List.filter_map]
  have : ((fun e : Nat × Nat => e.fst != id) ∘ fun t : Sg721.Token => (t.id, t.owner)) = fun x => !decide (x.id = id) := by
    funext x; simp only [Function.comp, bne]; by_cases hx : x.id = id <;> simp [hx]
  rw [this]

theorem view_mint (c : Sg721.State) (id : Nat) (owner : Addr) (uri : Option Nat) (ext : Nat) (hn : c.find? id = none) :
    (tokView c).mint id owner =
      some (tokView { c with tokens := c.tokens ++ [⟨id, owner, [], uri, ext⟩], count := c.count + 1 }) := by
  have hm : id ∉ (tokView c).ids := by
    rw [mem_tokView_ids]; exact (Sg721.find?_none_iff c id).1 hn
  unfold Supply.Coll.mint
  rw [if_neg hm]
  simp [tokView]

/-- **token-table effect of an accepted collection message** -/
theorem tok_effect {c c' : Sg721.State} {b : Sg721.Block} {sender : Addr} {funds : List Coin} {m : CF.ExecMsg}
    (hn : c.ids.Nodup) (e : Sg721.Eff c b sender funds (CF.toExec c b m) c') : TokEff (tokView c) (tokView c') m := by
  cases m <;> simp only [CF.toExec] at e <;> simp only [TokEff]
  case transferNft r id =>
    cases e with
    | transfer _ _ t hf _ _ =>
      obtain ⟨o, ho⟩ := ownerOf_isSome (mem_view_of_find hf)
      exact ⟨o, ho, view_transfer c t id r hf⟩
  case sendNft r id ok =>
    cases e with
    | send _ _ t hf _ _ =>
      obtain ⟨o, ho⟩ := ownerOf_isSome (mem_view_of_find hf)
      exact ⟨o, ho, view_transfer c t id r hf⟩
  case burn id =>
    cases e with
    | burn _ t hf _ =>
      obtain ⟨o, ho⟩ := ownerOf_isSome (mem_view_of_find hf)
      exact ⟨o, ho, view_burn c t id hf⟩
  case mint id owner uri ext =>
    cases e with
    | mint _ _ _ _ _ _ hnone => exact view_mint c id owner uri _ hnone
  case approve sp id ex =>
    cases e with
    | approve _ _ _ t hf _ _ _ =>
      exact tokView_ext (map_setToken_same c t _ hn (Sg721.find?_some hf).1 rfl rfl) rfl
  case revoke sp id =>
    cases e with
    | revoke _ _ t hf _ _ =>
      exact tokView_ext (map_setToken_same c t _ hn (Sg721.find?_some hf).1 rfl rfl) rfl
  case updateTokenMetadata id uri =>
    cases e with
    | utm _ _ t _ _ _ _ hf =>
      exact tokView_ext (map_setToken_same c t _ hn (Sg721.find?_some hf).1 rfl rfl) rfl
  case approveAll o ex => cases e; rfl
  case revokeAll o => cases e; rfl
  case extension => cases e
  case updateCollectionInfo u => cases e; rfl
  case updateStartTradingTime t => cases e; rfl
  case freezeCollectionInfo => cases e; rfl
  case updateOwnership a => cases e <;> rfl
  case freezeTokenMetadata => cases e; rfl
  case enableUpdatable => cases e; rfl

/-! ## ids stay duplicate-free -/

theorem nodup_eff {c c' : Sg721.State} {b : Sg721.Block} {sender : Addr} {funds : List Coin} {m : Sg721.ExecMsg}
    (hn : c.ids.Nodup) (e : Sg721.Eff c b sender funds m c') : c'.ids.Nodup := by
  cases e with
  | transfer _ _ _ _ _ _ => rw [Sg721.ids_setToken]; exact hn
  | send _ _ _ _ _ _ => rw [Sg721.ids_setToken]; exact hn
  | approve _ _ _ _ _ _ _ _ => rw [Sg721.ids_setToken]; exact hn
  | revoke _ _ _ _ _ _ => rw [Sg721.ids_setToken]; exact hn
  | utm _ _ _ _ _ _ _ _ => rw [Sg721.ids_setToken]; exact hn
  | burn _ _ _ _ => rw [Sg721.ids_removeToken]; exact hn.filter _
  | mint id owner uri ext _ _ hnone =>
    have : id ∉ c.ids := (Sg721.find?_none_iff c id).1 hnone
    simp only [Sg721.State.ids, List.map_append, List.map_cons, List.map_nil]
    rw [List.nodup_append]
    refine ⟨hn, by simp, ?_⟩
    intro a ha b hb
    simp only [List.mem_singleton] at hb
    subst hb
    intro hab
    subst hab
    exact this ha
  | approveAll _ _ _ _ => exact hn
  | revokeAll _ _ => exact hn
  | updateInfo _ _ _ _ _ _ _ => exact hn
  | ustt _ _ => exact hn
  | freeze _ => exact hn
  | ownTransfer _ _ _ _ => exact hn
  | ownAccept _ _ => exact hn
  | ownRenounce _ => exact hn
  | freezeMeta _ _ => exact hn
  | enable _ _ => exact hn

end LP.Sys2
