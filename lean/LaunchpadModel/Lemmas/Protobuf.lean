import LaunchpadModel.Model.Protobuf
/-! Helper lemmas for the protobuf round trip (`LP.Pb`). Core Lean only. -/
namespace LP.Pb

theorem encVarint_ne_nil (n : Nat) : encVarint n ≠ [] := by
  rw [encVarint]; split <;> simp

theorem decVarint_encVarint (n : Nat) (r : Bytes) : decVarint (encVarint n ++ r) = some (n, r) := by
  induction n using Nat.strongRecOn with
  | _ n ih =>
    rw [encVarint]
    by_cases h : n < 128
    · simp [h, decVarint]
    · have hlt : n / 128 < n := by omega
      have hb : ¬ (n % 128 + 128 < 128) := by omega
      simp only [h, if_false, List.cons_append, decVarint, hb, ih (n / 128) hlt]
      congr 2
      omega

/-- a generic list of fields, written one after the other -/
def encFields : List (Nat × Bytes) → Bytes
  | [] => []
  | f :: fs => encLen f.1 f.2 ++ encFields fs

theorem encFields_append (a b : List (Nat × Bytes)) : encFields (a ++ b) = encFields a ++ encFields b := by
  induction a with
  | nil => rfl
  | cons f fs ih => simp [encFields, ih, List.append_assoc]

theorem encLen_isEmpty (f : Nat) (p r : Bytes) : (encLen f p ++ r).isEmpty = false := by
  unfold encLen
  cases h : encVarint (f * 8 + 2) with
  | nil => exact absurd h (encVarint_ne_nil _)
  | cons a t => rfl

theorem encLen_length_pos (f : Nat) (p : Bytes) : 1 ≤ (encLen f p).length := by
  unfold encLen
  cases h : encVarint (f * 8 + 2) with
  | nil => exact absurd h (encVarint_ne_nil _)
  | cons a t => simp

theorem encFields_length (fs : List (Nat × Bytes)) : fs.length ≤ (encFields fs).length := by
  induction fs with
  | nil => simp
  | cons f fs ih =>
    have := encLen_length_pos f.1 f.2
    simp [encFields, List.length_append]
    omega

theorem parseFields_encFields (fs : List (Nat × Bytes)) :
    ∀ fuel, fs.length ≤ fuel → parseFields fuel (encFields fs) = some fs := by
  induction fs with
  | nil => intro fuel _; cases fuel <;> simp [encFields, parseFields]
  | cons f fs ih =>
    intro fuel h
    cases fuel with
    | zero => simp at h
    | succ fuel =>
      have hf : fs.length ≤ fuel := by simpa using h
      have hk : (f.1 * 8 + 2) % 8 = 2 := by omega
      have hd : (f.1 * 8 + 2) / 8 = f.1 := by omega
      simp only [encFields, parseFields, encLen_isEmpty]
      simp only [encLen, List.append_assoc, decVarint_encVarint]
      simp [hk, hd, ih fuel hf]

theorem parse_encFields (fs : List (Nat × Bytes)) :
    parseFields (encFields fs).length (encFields fs) = some fs :=
  parseFields_encFields fs _ (encFields_length fs)

/-- the field list `appendBytes` writes: nothing for empty data -/
def optField (f : Nat) (d : Bytes) : List (Nat × Bytes) := if d.isEmpty then [] else [(f, d)]

theorem appendBytes_eq (f : Nat) (d : Bytes) : appendBytes f d = encFields (optField f d) := by
  unfold appendBytes optField
  cases d <;> simp [encFields]

theorem encodeCoin_eq (d a : Bytes) : encodeCoin d a = encFields (optField 1 d ++ optField 2 a) := by
  simp [encodeCoin, appendBytes_eq, encFields_append]

theorem decodeCoin_encodeCoin (d a : Bytes) : decodeCoin (encodeCoin d a) = some (d, a) := by
  unfold decodeCoin
  rw [encodeCoin_eq, parse_encFields]
  cases d <;> cases a <;> simp [optField, knownFields, lastField]

theorem encodeCoin_ne_nil (d a : Bytes) (h : d ≠ [] ∨ a ≠ []) : encodeCoin d a ≠ [] := by
  intro he
  have := decodeCoin_encodeCoin d a
  rw [he] at this
  simp [decodeCoin, parseFields, knownFields, lastField] at this
  rcases h with h | h
  · exact h this.1
  · exact h this.2

def coinFields : List (Bytes × Bytes) → List (Nat × Bytes)
  | [] => []
  | c :: cs => optField 2 (encodeCoin c.1 c.2) ++ coinFields cs

theorem encodeCoins_eq (cs : List (Bytes × Bytes)) : encodeCoins cs = encFields (coinFields cs) := by
  induction cs with
  | nil => rfl
  | cons c cs ih => simp [encodeCoins, coinFields, appendBytes_eq, encFields_append, ih]

theorem encode_eq (s : Bytes) (cs : List (Bytes × Bytes)) :
    encodeFundFairburnPool s cs = encFields (optField 1 s ++ coinFields cs) := by
  simp [encodeFundFairburnPool, appendBytes_eq, encodeCoins_eq, encFields_append]

/-- the decidable well-formedness the round trip needs: no coin is the all-default (empty) message -/
def coinsWF (cs : List (Bytes × Bytes)) : Bool := cs.all (fun c => !(c.1.isEmpty && c.2.isEmpty))

theorem coinFields_known (cs : List (Bytes × Bytes)) : knownFields (coinFields cs) = true := by
  induction cs with
  | nil => rfl
  | cons c cs ih =>
    unfold knownFields at *
    simp only [coinFields, List.all_append, ih, Bool.and_true]
    unfold optField
    split <;> simp

theorem lastField_coinFields (cs : List (Bytes × Bytes)) (acc : Bytes) :
    (coinFields cs).foldl (fun acc f => if f.1 == 1 then f.2 else acc) acc = acc := by
  induction cs generalizing acc with
  | nil => rfl
  | cons c cs ih =>
    simp only [coinFields, List.foldl_append, ih]
    unfold optField
    split <;> simp

theorem decodeCoins_coinFields (cs : List (Bytes × Bytes)) (h : coinsWF cs = true) :
    decodeCoins (coinFields cs) = some cs := by
  induction cs with
  | nil => rfl
  | cons c cs ih =>
    unfold coinsWF at h ih
    simp only [List.all_cons, Bool.and_eq_true] at h
    have hc : c.1 ≠ [] ∨ c.2 ≠ [] := by
      have h1 := h.1
      cases h1' : c.1 <;> cases h2' : c.2 <;> simp_all
    have hne := encodeCoin_ne_nil c.1 c.2 hc
    have hopt : optField 2 (encodeCoin c.1 c.2) = [(2, encodeCoin c.1 c.2)] := by
      unfold optField
      cases he : encodeCoin c.1 c.2 with
      | nil => exact absurd he hne
      | cons a t => simp
    simp [coinFields, hopt, decodeCoins, decodeCoin_encodeCoin, ih h.2]

theorem decode_encode (s : Bytes) (cs : List (Bytes × Bytes)) (h : coinsWF cs = true) :
    decodeFundFairburnPool (encodeFundFairburnPool s cs) = some (s, cs) := by
  unfold decodeFundFairburnPool
  rw [encode_eq, parse_encFields]
  have hk : knownFields (optField 1 s ++ coinFields cs) = true := by
    have := coinFields_known cs
    unfold knownFields at *
    simp only [List.all_append, this, Bool.and_true]
    unfold optField; split <;> simp
  have hl : lastField 1 (optField 1 s ++ coinFields cs) = s := by
    unfold lastField
    rw [List.foldl_append, lastField_coinFields]
    cases s <;> simp [optField]
  have hd : decodeCoins (optField 1 s ++ coinFields cs) = some cs := by
    rw [← decodeCoins_coinFields cs h]
    cases s <;> simp [optField, decodeCoins]
  simp [hk, hl, hd]

/-! ## decimal digits -/

theorem parseDec_append (a : Bytes) (b : Nat) : parseDec (a ++ [b]) = parseDec a * 10 + (b - 48) := by
  simp [parseDec, List.foldl_append]

theorem parseDec_decDigits (n : Nat) : parseDec (decDigits n) = n := by
  induction n using Nat.strongRecOn with
  | _ n ih =>
    rw [decDigits]
    by_cases h : n < 10
    · simp [h, parseDec]
    · have hlt : n / 10 < n := by omega
      simp only [h, if_false, parseDec_append, ih (n / 10) hlt]
      omega

theorem decDigits_ne_nil (n : Nat) : decDigits n ≠ [] := by
  rw [decDigits]; split <;> simp

/-! ## the output is a byte string whenever the inputs are -/

def isBytes (bs : Bytes) : Prop := ∀ b ∈ bs, b < 256

theorem isBytes_nil : isBytes [] := by intro b hb; cases hb

theorem isBytes_append {a b : Bytes} (ha : isBytes a) (hb : isBytes b) : isBytes (a ++ b) := by
  intro x hx
  rcases List.mem_append.mp hx with h | h
  · exact ha x h
  · exact hb x h

theorem encVarint_isBytes (n : Nat) : isBytes (encVarint n) := by
  induction n using Nat.strongRecOn with
  | _ n ih =>
    rw [encVarint]
    by_cases h : n < 128
    · intro b hb; simp [h] at hb; omega
    · simp only [h, if_false]
      intro b hb
      rcases List.mem_cons.mp hb with rfl | hb
      · omega
      · exact ih (n / 128) (by omega) b hb

theorem appendBytes_isBytes (f : Nat) {d : Bytes} (hd : isBytes d) : isBytes (appendBytes f d) := by
  unfold appendBytes
  split
  · exact isBytes_nil
  · exact isBytes_append (encVarint_isBytes _) (isBytes_append (encVarint_isBytes _) hd)

theorem encodeCoin_isBytes {d a : Bytes} (hd : isBytes d) (ha : isBytes a) : isBytes (encodeCoin d a) :=
  isBytes_append (appendBytes_isBytes 1 hd) (appendBytes_isBytes 2 ha)

theorem encodeCoins_isBytes (cs : List (Bytes × Bytes)) (h : ∀ c ∈ cs, isBytes c.1 ∧ isBytes c.2) : isBytes (encodeCoins cs) := by
  induction cs with
  | nil => exact isBytes_nil
  | cons c cs ih =>
    have hc := h c (List.mem_cons_self ..)
    exact isBytes_append (appendBytes_isBytes 2 (encodeCoin_isBytes hc.1 hc.2))
      (ih (fun x hx => h x (List.mem_cons_of_mem _ hx)))

theorem decDigits_isBytes (n : Nat) : isBytes (decDigits n) := by
  induction n using Nat.strongRecOn with
  | _ n ih =>
    rw [decDigits]
    by_cases h : n < 10
    · intro b hb; simp [h] at hb; omega
    · simp only [h, if_false]
      refine isBytes_append (ih (n / 10) (by omega)) ?_
      intro b hb; simp at hb; omega

end LP.Pb
