import LaunchpadModel.Lemmas.WlInv
/-!
# C11: frame facts and the precise effect of `AddMembers` / `RemoveMembers` on the targeted member map
-/
namespace LP.WlMembers
open LP

/-- frame facts of one successful message: the kind never changes, the limit never decreases, `stray` grows by the tip -/
theorem exec_frame {s s' : WL} {op : Op} (h : exec s op = .ok s') :
    s'.kind = s.kind ∧ s.memberLimit ≤ s'.memberLimit ∧ s'.stray = s.stray + op.tip := by
  unfold exec at h
  split at h
  · exact absurd h (by simp)
  cases op <;> dsimp only at h
  case addMembers sender now tip stage ms =>
    unfold execAddMembers at h
    repeat' (first | (split at h) | (dsimp only at h; split at h))
    all_goals (cases h; try (simp [tipped, Op.tip]))
  case removeMembers sender now tip stage as =>
    unfold execRemoveMembers at h
    repeat' (first | (split at h) | (dsimp only at h; split at h))
    all_goals (cases h; try (simp [tipped, Op.tip]))
  case addStage sender now tip start stop ms =>
    unfold execAddStage at h
    repeat' (first | (split at h) | (dsimp only at h; split at h))
    all_goals (cases h; try (simp [tipped, Op.tip]))
  case removeStage sender now tip stage =>
    unfold execRemoveStage at h
    repeat' (first | (split at h) | (dsimp only at h; split at h))
    all_goals (cases h; try (simp [tipped, Op.tip]))
  case increaseLimit sender now funds limit =>
    unfold execIncreaseLimit at h
    split at h
    · exact absurd h (by simp)
    rename_i hg
    simp only [Bool.or_eq_true, decide_eq_true_eq, not_or, Nat.not_le, Nat.not_lt] at hg
    repeat' (first | (split at h) | (dsimp only at h; split at h))
    all_goals (cases h; try (simp [Op.tip]; omega))
  case env admins start stop times =>
    simp only [Except.ok.injEq] at h; subst h; simp [Op.tip]

theorem mapOf_flat {s : WL} (h : s.kind.isTiered = false) (stage : Nat) : mapOf s stage = s.members := by
  simp [mapOf, h]

theorem mapOf_tiered {s : WL} (h : s.kind.isTiered = true) {stage : Nat} {g : Stage} (hg : s.stages[stage]? = some g) :
    mapOf s stage = g.members := by
  simp [mapOf, h, hg]

/-- the map a message targets is well formed in every reachable state -/
theorem sorted_mapOf {s : WL} (hi : WlInv s) (stage : Nat) : SortedKeys (mapOf s stage) := by
  unfold mapOf
  split
  · split
    · rename_i g hg; exact (hi.stages_ok g (List.mem_of_getElem? hg)).1
    · exact sortedKeys_nil
  · exact hi.flat_sorted

/-- Effect of a successful `AddMembers` on the targeted map (flat kinds: `WHITELIST`; tiered: the stage's slice). -/
theorem add_effect {s s' : WL} {sender now tip stage : Nat} {ms : List Member} (hi : WlInv s)
    (h : exec s (.addMembers sender now tip stage ms) = .ok s') :
    isAdmin s sender = true ∧
    (∀ a, a ∈ keys (mapOf s' stage) ↔ a ∈ keys (mapOf s stage) ∨ a ∈ keys ms) ∧
    s'.numMembers + (mapOf s stage).length = s.numMembers + (mapOf s' stage).length ∧
    (∀ a ∈ keys (mapOf s stage), getM a (mapOf s' stage) = getM a (mapOf s stage)) ∧
    (s.kind = .flex → (∀ a ∈ keys ms, a ∉ keys (mapOf s stage)) ∧ (keys ms).Nodup) := by
  unfold exec at h
  split at h
  · exact absurd h (by simp)
  dsimp only at h
  unfold execAddMembers at h
  split at h
  · exact absurd h (by simp)
  rename_i hadm
  have hadm' : isAdmin s sender = true := by simpa using hadm
  dsimp only at h
  split at h
  · -- tiered
    rename_i ht
    split at h
    · exact absurd h (by simp)
    rename_i g hg
    split at h
    · exact absurd h (by simp)
    rename_i num st added hloop
    cases h
    have hgok := hi.stages_ok g (List.mem_of_getElem? hg)
    have r := addLoop_spec _ _ _ _ _ _ _ _ _ hgok.1 hloop
    have hlt : stage < s.stages.length := by
      rcases Nat.lt_or_ge stage s.stages.length with h1 | h1
      · exact h1
      · rw [List.getElem?_eq_none h1] at hg; exact absurd hg (by simp)
    have e1 : mapOf s stage = g.members := mapOf_tiered ht hg
    have e2 : mapOf (tipped { s with numMembers := num, stages := s.stages.set stage { g with members := st, count := g.count + added } } tip) stage = st := by
      simp [mapOf, tipped, ht, hlt]
    rw [e1, e2]
    refine ⟨hadm', ?_, r.count, r.kept, ?_⟩
    · intro a; rw [r.mem a, mem_keys_prep]
    · intro hk; rw [hk] at ht; exact absurd ht (by decide)
  · rename_i ht
    have ht' : s.kind.isTiered = false := by simpa using ht
    split at h
    · exact absurd h (by simp)
    rename_i num st added hloop
    cases h
    have r := addLoop_spec _ _ _ _ _ _ _ _ _ hi.flat_sorted hloop
    have e1 : mapOf s stage = s.members := mapOf_flat ht' stage
    have e2 : mapOf (tipped { s with numMembers := num, members := st } tip) stage = st := by
      simp [mapOf, tipped, ht']
    rw [e1, e2]
    refine ⟨hadm', ?_, r.count, r.kept, ?_⟩
    · intro a; rw [r.mem a, mem_keys_prep]
    · intro hk
      have hr : (s.kind == Kind.flex) = true := by rw [hk]; decide
      have f := r.fresh hr
      have hp : prep s.kind ms = ms := by rw [hk]; simp [prep, Kind.isFlex]
      rw [hp] at f; exact f

/-- Effect of a successful `RemoveMembers` on the targeted map. -/
theorem remove_effect {s s' : WL} {sender now tip stage : Nat} {as : List Nat} (hi : WlInv s)
    (h : exec s (.removeMembers sender now tip stage as) = .ok s') :
    isAdmin s sender = true ∧
    (∀ a ∈ as, a ∈ keys (mapOf s stage)) ∧ as.Nodup ∧
    (∀ x, x ∈ keys (mapOf s' stage) ↔ x ∈ keys (mapOf s stage) ∧ x ∉ as) ∧
    s'.numMembers + as.length = s.numMembers := by
  unfold exec at h
  split at h
  · exact absurd h (by simp)
  dsimp only at h
  unfold execRemoveMembers at h
  split at h
  · exact absurd h (by simp)
  rename_i hadm
  have hadm' : isAdmin s sender = true := by simpa using hadm
  split at h
  · -- tiered
    rename_i ht
    split at h
    · exact absurd h (by simp)
    rename_i g hg
    split at h
    · exact absurd h (by simp)
    split at h
    · exact absurd h (by simp)
    rename_i num st removed hloop
    cases h
    have hgok := hi.stages_ok g (List.mem_of_getElem? hg)
    have q := removeLoop_spec _ _ _ _ _ _ _ hgok.1 hloop
    have hlt : stage < s.stages.length := by
      rcases Nat.lt_or_ge stage s.stages.length with h1 | h1
      · exact h1
      · rw [List.getElem?_eq_none h1] at hg; exact absurd hg (by simp)
    have e1 : mapOf s stage = g.members := mapOf_tiered ht hg
    have e2 : mapOf (tipped { s with numMembers := num, stages := s.stages.set stage { g with members := st, count := g.count - removed } } tip) stage = st := by
      simp [mapOf, tipped, ht, hlt]
    rw [e1, e2]
    refine ⟨hadm', q.wasMember, q.distinct, q.mem, ?_⟩
    have := q.count; have := q.shrink
    simp only [tipped]; omega
  · rename_i ht
    have ht' : s.kind.isTiered = false := by simpa using ht
    split at h
    · exact absurd h (by simp)
    split at h
    · exact absurd h (by simp)
    rename_i num st removed hloop
    cases h
    have q := removeLoop_spec _ _ _ _ _ _ _ hi.flat_sorted hloop
    have e1 : mapOf s stage = s.members := mapOf_flat ht' stage
    have e2 : mapOf (tipped { s with numMembers := num, members := st } tip) stage = st := by
      simp [mapOf, tipped, ht']
    rw [e1, e2]
    refine ⟨hadm', q.wasMember, q.distinct, q.mem, ?_⟩
    have := q.count; have := q.shrink
    simp only [tipped]; omega

/-- what a successful `IncreaseMemberLimit` charged -/
theorem incr_effect {s s' : WL} {sender now : Nat} {funds : List Coin} {limit : Nat}
    (h : exec s (.increaseLimit sender now funds limit) = .ok s') :
    s.memberLimit < limit ∧ limit ≤ s.kind.maxMembers ∧ s'.memberLimit = limit ∧
    mayPay funds NATIVE = .ok (upgradeFee s.kind s.memberLimit limit) ∧
    s'.feesPaid = s.feesPaid + upgradeFee s.kind s.memberLimit limit := by
  unfold exec at h
  split at h
  · exact absurd h (by simp)
  dsimp only at h
  unfold execIncreaseLimit at h
  split at h
  · exact absurd h (by simp)
  rename_i hg
  simp only [Bool.or_eq_true, decide_eq_true_eq, not_or, Nat.not_le, Nat.not_lt] at hg
  split at h
  · exact absurd h (by simp)
  rename_i payment hpay
  dsimp only at h
  split at h
  · exact absurd h (by simp)
  rename_i hfee
  simp only [ne_eq, Decidable.not_not] at hfee
  split at h
  · exact absurd h (by simp)
  split at h
  · exact absurd h (by simp)
  cases h
  exact ⟨hg.1, hg.2, rfl, hfee ▸ hpay, by simp only []; rw [hfee]⟩

/-- what a successful instantiate of a fee-charging kind was paid -/
theorem inst_effect {k : Kind} {m : InstMsg} {s : WL} (hk : k ≠ .immutable) (h : instantiate k m = .ok s) :
    s.kind = k ∧ s.memberLimit = m.memberLimit ∧ m.memberLimit ≠ 0 ∧
    mustPay m.funds NATIVE = .ok (creationFee k m.memberLimit) ∧ s.feesPaid = creationFee k m.memberLimit ∧ s.stray = 0 := by
  unfold instantiate at h
  split at h
  · exact absurd rfl hk
  split at h
  · exact absurd h (by simp)
  rename_i hlim
  split at h
  · exact absurd h (by simp)
  split at h
  · exact absurd h (by simp)
  dsimp only at h
  split at h
  · exact absurd h (by simp)
  rename_i payment hpay
  split at h
  · exact absurd h (by simp)
  rename_i hfee
  simp only [ne_eq, Decidable.not_not] at hfee
  have hne : m.memberLimit ≠ 0 := by omega
  repeat' (first | (split at h) | (dsimp only at h; split at h))
  all_goals (cases h; try (exact ⟨rfl, rfl, hne, hfee ▸ hpay, hfee, rfl⟩))

theorem inst_immutable {m : InstMsg} {s : WL} (h : instantiate .immutable m = .ok s) :
    s.kind = .immutable ∧ m.funds = [] ∧ s.feesPaid = 0 ∧ s.stray = 0 ∧ s.members ≠ [] := by
  unfold instantiate at h
  dsimp only at h
  split at h
  · exact absurd h (by simp)
  rename_i hf
  split at h
  · exact absurd h (by simp)
  rename_i hl
  cases h
  refine ⟨rfl, by simpa using hf, rfl, rfl, ?_⟩
  intro he
  have hs := sorted_zero_map (keys m.members)
  have := foldl_saveM_fresh_length hs
  simp only [] at he
  rw [he] at this
  simp only [List.length_nil] at this
  omega

/-! ## Paging the `Members` query -/

theorem valid_mapOf {s : WL} (hi : WlInv s) (hk : s.kind ≠ .immutable) (stage : Nat) : AllValid (mapOf s stage) := by
  have hv := hi.valid hk
  unfold mapOf
  split
  · split
    · rename_i g hg; exact hv.2 g (List.mem_of_getElem? hg)
    · intro x hx; simp [keys] at hx
  · exact hv.1

theorem filter_after_none_of_le (a : Nat) (p : List Member) (h : ∀ x ∈ keys p, x ≤ a) :
    p.filter (fun m => decide (a < m.1)) = [] := by
  induction p with
  | nil => rfl
  | cons x xs ih =>
    have hx : x.1 ≤ a := h x.1 (by simp [keys_cons])
    have : decide (a < x.1) = false := by simp; omega
    rw [List.filter_cons, this]
    simp only [Bool.false_eq_true, if_false]
    exact ih (fun y hy => h y (by rw [keys_cons]; exact List.mem_cons_of_mem _ hy))

theorem filter_after_all_of_gt (a : Nat) (q : List Member) (h : ∀ x ∈ keys q, a < x) :
    q.filter (fun m => decide (a < m.1)) = q := by
  induction q with
  | nil => rfl
  | cons x xs ih =>
    have hx : a < x.1 := h x.1 (by simp [keys_cons])
    have : decide (a < x.1) = true := by simp; omega
    rw [List.filter_cons, this]
    simp only [if_true]
    rw [ih (fun y hy => h y (by rw [keys_cons]; exact List.mem_cons_of_mem _ hy))]

theorem sorted_append {p q : List Member} (h : SortedKeys (p ++ q)) :
    SortedKeys p ∧ SortedKeys q ∧ ∀ x ∈ keys p, ∀ y ∈ keys q, x < y := by
  unfold SortedKeys keys at *
  rw [List.map_append, List.pairwise_append] at h
  exact h

/-- in a sorted map, the entries after the last key of a prefix are exactly the rest -/
theorem filter_after_last {p q : List Member} {x : Member} (h : SortedKeys ((p ++ [x]) ++ q)) :
    ((p ++ [x]) ++ q).filter (fun m => decide (x.1 < m.1)) = q := by
  obtain ⟨h1, h2, h3⟩ := sorted_append h
  obtain ⟨h4, _, h6⟩ := sorted_append h1
  rw [List.filter_append, filter_after_none_of_le x.1 (p ++ [x]), filter_after_all_of_gt x.1 q]
  · rfl
  · intro y hy; exact h3 x.1 (by simp [keys]) y hy
  · intro y hy
    simp only [keys, List.map_append, List.mem_append, List.map_cons, List.map_nil, List.mem_singleton] at hy
    rcases hy with hy | hy
    · exact Nat.le_of_lt (h6 y (by simpa [keys] using hy) x.1 (by simp [keys]))
    · omega

/-- Paging the `Members` query to exhaustion (any page size ≥ 1, enough fuel) enumerates the stored map, completely
and in order — provided every stored key passes `addr_validate` (the cursor of the next page is a stored key). -/
theorem walkPages_complete (s : WL) (stage pg : Nat) (hpg : 1 ≤ pg) (hs : SortedKeys (mapOf s stage))
    (hv : ∀ x ∈ keys (mapOf s stage), validAddr x = true) :
    ∀ (fuel : Nat) (p q : List Member), mapOf s stage = p ++ q → q.length < fuel →
      walkPages s stage pg fuel (p.getLast?.map (·.1)) p = mapOf s stage := by
  have hlim : 1 ≤ min pg PAGE_MAX := by
    have : 1 ≤ PAGE_MAX := by decide
    omega
  intro fuel
  induction fuel with
  | zero => intro p q _ hq; omega
  | succ fuel ih =>
    intro p q hpq hq
    -- the page returned for the cursor = last key of `p`
    have hpage : queryMembers s stage (p.getLast?.map (·.1)) (some pg) = some (q.take (min pg PAGE_MAX)) := by
      unfold queryMembers
      simp only [Option.getD_some]
      rcases List.eq_nil_or_concat p with hp | ⟨p', x, hp⟩
      · subst hp; simp only [List.getLast?_nil, Option.map_none]
        rw [hpq]; rfl
      · rw [List.concat_eq_append] at hp; subst hp
        have hx : x.1 ∈ keys (mapOf s stage) := by rw [hpq]; simp [keys]
        simp only [List.getLast?_append, List.getLast?_singleton, Option.some_or, Option.map_some]
        rw [hv x.1 hx]; simp only [if_true]
        rw [hpq, filter_after_last (by rw [← hpq]; exact hs)]
    rw [walkPages, hpage]
    cases hq' : q.take (min pg PAGE_MAX) with
    | nil =>
      have : q = [] := by
        cases q with
        | nil => rfl
        | cons y ys =>
          have : (min pg PAGE_MAX) = (min pg PAGE_MAX - 1) + 1 := by omega
          rw [this, List.take_succ_cons] at hq'; exact absurd hq' (by simp)
      subst this
      simp only [List.append_nil] at hpq
      exact hpq.symm
    | cons y ys =>
      simp only []
      have hne : q.take (min pg PAGE_MAX) ≠ [] := by rw [hq']; simp
      have hlast : (p ++ (y :: ys)).getLast?.map (·.1) = (y :: ys).getLast?.map (·.1) := by
        rw [List.getLast?_append]
        cases hz : (y :: ys).getLast? with
        | none => exact absurd (List.getLast?_eq_none_iff.mp hz) (by simp)
        | some z => rfl
      rw [← hlast]
      apply ih (p ++ (y :: ys)) (q.drop (min pg PAGE_MAX))
      · rw [List.append_assoc, ← hq', List.take_append_drop]; exact hpq
      · have hqne : q ≠ [] := by intro e; rw [e] at hq'; simp at hq'
        have : 0 < q.length := List.length_pos_iff.mpr hqne
        rw [List.length_drop]; omega


end LP.WlMembers
