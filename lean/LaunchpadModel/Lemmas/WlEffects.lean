import LaunchpadModel.Lemmas.WlInv
/-!
# C11: frame facts and the precise effect of `AddMembers` / `RemoveMembers` on the targeted member map
-/
namespace LP.WlMembers
open LP

/-- frame facts of one successful message: the kind never changes, the limit never decreases, `stray` grows by the tip -/
theorem exec_frame {s s' : WL} {op : Op} (h : exec s op = .ok s') :
    s'.kind = s.kind ∧ s.memberLimit ≤ s'.memberLimit ∧ s'.stray = s.stray + op.tip := by
  unfold exec at h
  split at h
  · exact absurd h (by simp)
  cases op <;> dsimp only at h
  case addMembers sender now tip stage ms =>
    unfold execAddMembers at h
    repeat' (first | (split at h) | (dsimp only at h; split at h))
    all_goals (cases h; try (simp [tipped, Op.tip]))
  case removeMembers sender now tip stage as =>
    unfold execRemoveMembers at h
    repeat' (first | (split at h) | (dsimp only at h; split at h))
    all_goals (cases h; try (simp [tipped, Op.tip]))
  case addStage sender now tip start stop ms =>
    unfold execAddStage at h
    repeat' (first | (split at h) | (dsimp only at h; split at h))
    all_goals (cases h; try (simp [tipped, Op.tip]))
  case removeStage sender now tip stage =>
    unfold execRemoveStage at h
    repeat' (first | (split at h) | (dsimp only at h; split at h))
    all_goals (cases h; try (simp [tipped, Op.tip]))
  case increaseLimit sender now funds limit =>
    unfold execIncreaseLimit at h
    split at h
    · exact absurd h (by simp)
    rename_i hg
    simp only [Bool.or_eq_true, decide_eq_true_eq, not_or, Nat.not_le, Nat.not_lt] at hg
    repeat' (first | (split at h) | (dsimp only at h; split at h))
    all_goals (cases h; try (simp [Op.tip]; omega))
  case env admins start stop times =>
    simp only [Except.ok.injEq] at h; subst h; simp [Op.tip]

theorem mapOf_flat {s : WL} (h : s.kind.isTiered = false) (stage : Nat) : mapOf s stage = s.members := by
  simp [mapOf, h]

theorem mapOf_tiered {s : WL} (h : s.kind.isTiered = true) {stage : Nat} {g : Stage} (hg : s.stages[stage]? = some g) :
    mapOf s stage = g.members := by
  simp [mapOf, h, hg]

/-- the map a message targets is well formed in every reachable state -/
theorem sorted_mapOf {s : WL} (hi : WlInv s) (stage : Nat) : SortedKeys (mapOf s stage) := by
  unfold mapOf
  split
  · split
    · rename_i g hg; exact (hi.stages_ok g (List.mem_of_getElem? hg)).1
    · exact sortedKeys_nil
  · exact hi.flat_sorted

/-- Effect of a successful `AddMembers` on the targeted map (flat kinds: `WHITELIST`; tiered: the stage's slice). -/
theorem add_effect {s s' : WL} {sender now tip stage : Nat} {ms : List Member} (hi : WlInv s)
    (h : exec s (.addMembers sender now tip stage ms) = .ok s') :
    isAdmin s sender = true ∧
    (∀ a, a ∈ keys (mapOf s' stage) ↔ a ∈ keys (mapOf s stage) ∨ a ∈ keys ms) ∧
    s'.numMembers + (mapOf s stage).length = s.numMembers + (mapOf s' stage).length ∧
    (∀ a ∈ keys (mapOf s stage), getM a (mapOf s' stage) = getM a (mapOf s stage)) ∧
    (s.kind = .flex → (∀ a ∈ keys ms, a ∉ keys (mapOf s stage)) ∧ (keys ms).Nodup) := by
  unfold exec at h
  split at h
  · exact absurd h (by simp)
  dsimp only at h
  unfold execAddMembers at h
  split at h
  · exact absurd h (by simp)
  rename_i hadm
  have hadm' : isAdmin s sender = true := by simpa using hadm
  dsimp only at h
  split at h
  · -- tiered
    rename_i ht
    split at h
    · exact absurd h (by simp)
    rename_i g hg
    split at h
    · exact absurd h (by simp)
    rename_i num st added hloop
    cases h
    have hgok := hi.stages_ok g (List.mem_of_getElem? hg)
    have r := addLoop_spec _ _ _ _ _ _ _ _ _ hgok.1 hloop
    have hlt : stage < s.stages.length := by
      rcases Nat.lt_or_ge stage s.stages.length with h1 | h1
      · exact h1
      · rw [List.getElem?_eq_none h1] at hg; exact absurd hg (by simp)
    have e1 : mapOf s stage = g.members := mapOf_tiered ht hg
    have e2 : mapOf (tipped { s with numMembers := num, stages := s.stages.set stage { g with members := st, count := g.count + added } } tip) stage = st := by
      simp [mapOf, tipped, ht, hlt]
    rw [e1, e2]
    refine ⟨hadm', ?_, r.count, r.kept, ?_⟩
    · intro a; rw [r.mem a, mem_keys_prep]
    · intro hk; rw [hk] at ht; exact absurd ht (by decide)
  · rename_i ht
    have ht' : s.kind.isTiered = false := by simpa using ht
    split at h
    · exact absurd h (by simp)
    rename_i num st added hloop
    cases h
    have r := addLoop_spec _ _ _ _ _ _ _ _ _ hi.flat_sorted hloop
    have e1 : mapOf s stage = s.members := mapOf_flat ht' stage
    have e2 : mapOf (tipped { s with numMembers := num, members := st } tip) stage = st := by
      simp [mapOf, tipped, ht']
    rw [e1, e2]
    refine ⟨hadm', ?_, r.count, r.kept, ?_⟩
    · intro a; rw [r.mem a, mem_keys_prep]
    · intro hk
      have hr : (s.kind == Kind.flex) = true := by rw [hk]; decide
      have f := r.fresh hr
      have hp : prep s.kind ms = ms := by rw [hk]; simp [prep, Kind.isFlex]
      rw [hp] at f; exact f

/-- Effect of a successful `RemoveMembers` on the targeted map. -/
theorem remove_effect {s s' : WL} {sender now tip stage : Nat} {as : List Nat} (hi : WlInv s)
    (h : exec s (.removeMembers sender now tip stage as) = .ok s') :
    isAdmin s sender = true ∧
    (∀ a ∈ as, a ∈ keys (mapOf s stage)) ∧ as.Nodup ∧
    (∀ x, x ∈ keys (mapOf s' stage) ↔ x ∈ keys (mapOf s stage) ∧ x ∉ as) ∧
    s'.numMembers + as.length = s.numMembers := by
  unfold exec at h
  split at h
  · exact absurd h (by simp)
  dsimp only at h
  unfold execRemoveMembers at h
  split at h
  · exact absurd h (by simp)
  rename_i hadm
  have hadm' : isAdmin s sender = true := by simpa using hadm
  split at h
  · -- tiered
    rename_i ht
    split at h
    · exact absurd h (by simp)
    rename_i g hg
    split at h
    · exact absurd h (by simp)
    split at h
    · exact absurd h (by simp)
    rename_i num st removed hloop
    cases h
    have hgok := hi.stages_ok g (List.mem_of_getElem? hg)
    have q := removeLoop_spec _ _ _ _ _ _ _ hgok.1 hloop
    have hlt : stage < s.stages.length := by
      rcases Nat.lt_or_ge stage s.stages.length with h1 | h1
      · exact h1
      · rw [List.getElem?_eq_none h1] at hg; exact absurd hg (by simp)
    have e1 : mapOf s stage = g.members := mapOf_tiered ht hg
    have e2 : mapOf (tipped { s with numMembers := num, stages := s.stages.set stage { g with members := st, count := g.count - removed } } tip) stage = st := by
      simp [mapOf, tipped, ht, hlt]
    rw [e1, e2]
    refine ⟨hadm', q.wasMember, q.distinct, q.mem, ?_⟩
    have := q.count; have := q.shrink
    simp only [tipped]; omega
  · rename_i ht
    have ht' : s.kind.isTiered = false := by simpa using ht
    split at h
    · exact absurd h (by simp)
    split at h
    · exact absurd h (by simp)
    rename_i num st removed hloop
    cases h
    have q := removeLoop_spec _ _ _ _ _ _ _ hi.flat_sorted hloop
    have e1 : mapOf s stage = s.members := mapOf_flat ht' stage
    have e2 : mapOf (tipped { s with numMembers := num, members := st } tip) stage = st := by
      simp [mapOf, tipped, ht']
    rw [e1, e2]
    refine ⟨hadm', q.wasMember, q.distinct, q.mem, ?_⟩
    have := q.count; have := q.shrink
    simp only [tipped]; omega

/-- what a successful `IncreaseMemberLimit` charged -/
theorem incr_effect {s s' : WL} {sender now : Nat} {funds : List Coin} {limit : Nat}
    (h : exec s (.increaseLimit sender now funds limit) = .ok s') :
    s.memberLimit < limit ∧ limit ≤ s.kind.maxMembers ∧ s'.memberLimit = limit ∧
    mayPay funds NATIVE = .ok (upgradeFee s.kind s.memberLimit limit) ∧
    s'.feesPaid = s.feesPaid + upgradeFee s.kind s.memberLimit limit := by
  unfold exec at h
  split at h
  · exact absurd h (by simp)
  dsimp only at h
  unfold execIncreaseLimit at h
  split at h
  · exact absurd h (by simp)
  rename_i hg
  simp only [Bool.or_eq_true, decide_eq_true_eq, not_or, Nat.not_le, Nat.not_lt] at hg
  split at h
  · exact absurd h (by simp)
  rename_i payment hpay
  dsimp only at h
  split at h
  · exact absurd h (by simp)
  rename_i hfee
  simp only [ne_eq, Decidable.not_not] at hfee
  split at h
  · exact absurd h (by simp)
  split at h
  · exact absurd h (by simp)
  cases h
  exact ⟨hg.1, hg.2, rfl, hfee ▸ hpay, by simp only []; rw [hfee]⟩

/-- what a successful instantiate of a fee-charging kind was paid -/
theorem inst_effect {k : Kind} {m : InstMsg} {s : WL} (hk : k ≠ .immutable) (h : instantiate k m = .ok s) :
    s.kind = k ∧ s.memberLimit = m.memberLimit ∧ m.memberLimit ≠ 0 ∧
    mustPay m.funds NATIVE = .ok (creationFee k m.memberLimit) ∧ s.feesPaid = creationFee k m.memberLimit ∧ s.stray = 0 := by
  unfold instantiate at h
  split at h
  · exact absurd rfl hk
  split at h
  · exact absurd h (by simp)
  rename_i hlim
  split at h
  · exact absurd h (by simp)
  split at h
  · exact absurd h (by simp)
  dsimp only at h
  split at h
  · exact absurd h (by simp)
  rename_i payment hpay
  split at h
  · exact absurd h (by simp)
  rename_i hfee
  simp only [ne_eq, Decidable.not_not] at hfee
  have hne : m.memberLimit ≠ 0 := by omega
  repeat' (first | (split at h) | (dsimp only at h; split at h))
  all_goals (cases h; try (exact ⟨rfl, rfl, hne, hfee ▸ hpay, hfee, rfl⟩))

theorem inst_immutable {m : InstMsg} {s : WL} (h : instantiate .immutable m = .ok s) :
    s.kind = .immutable ∧ m.funds = [] ∧ s.feesPaid = 0 ∧ s.stray = 0 ∧ s.members ≠ [] := by
  unfold instantiate at h
  dsimp only at h
  split at h
  · exact absurd h (by simp)
  rename_i hf
  split at h
  · exact absurd h (by simp)
  rename_i hl
  cases h
  refine ⟨rfl, by simpa using hf, rfl, rfl, ?_⟩
  intro he
  have hs := sorted_zero_map (keys m.members)
  have := foldl_saveM_fresh_length hs
  simp only [] at he
  rw [he] at this
  simp only [List.length_nil] at this
  omega

end LP.WlMembers
