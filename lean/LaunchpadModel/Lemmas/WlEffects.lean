import LaunchpadModel.Lemmas.WlInv
/-!
# C11: frame facts and the precise effect of `AddMembers` / `RemoveMembers` on the targeted member map
-/
namespace LP.WlMembers
open LP

/-- frame facts of one successful message: the kind never changes, the limit never decreases, the `stray` ghosts grow by the tip -/
theorem exec_frame {s s' : WL} {op : Op} (h : exec s op = .ok s') :
    s'.kind = s.kind ∧ s.memberLimit ≤ s'.memberLimit ∧ s'.stray = s.stray + op.tip.native ∧
    s'.strayOther = s.strayOther + op.tip.other := by
  unfold exec at h
  split at h
  · exact absurd h (by simp)
  cases op <;> dsimp only at h
  case addMembers al hf tip stage ms =>
    unfold execAddMembers at h
    repeat' (first | (split at h) | (dsimp only at h; split at h))
    all_goals (cases h; try (simp [tipped, Op.tip]))
  case removeMembers al tip stage as =>
    unfold execRemoveMembers at h
    repeat' (first | (split at h) | (dsimp only at h; split at h))
    all_goals (cases h; try (simp [tipped, Op.tip]))
  case addStage al hf tip ms =>
    unfold execAddStage at h
    repeat' (first | (split at h) | (dsimp only at h; split at h))
    all_goals (cases h; try (simp [tipped, Op.tip]))
  case removeStage al tip stage =>
    unfold execRemoveStage at h
    repeat' (first | (split at h) | (dsimp only at h; split at h))
    all_goals (cases h; try (simp [tipped, Op.tip]))
  case increaseLimit al funds limit =>
    unfold execIncreaseLimit at h
    split at h
    · exact absurd h (by simp)
    split at h
    · exact absurd h (by simp)
    split at h
    · exact absurd h (by simp)
    rename_i hg
    simp only [Bool.or_eq_true, decide_eq_true_eq, not_or, Nat.not_le, Nat.not_lt] at hg
    repeat' (first | (split at h) | (dsimp only at h; split at h))
    all_goals (cases h; try (simp [Op.tip, Tip.zero]; omega))
  case other al tip =>
    split at h
    · simp only [Except.ok.injEq] at h; subst h; simp [tipped, Op.tip]
    · exact absurd h (by simp)

theorem mapOf_flat {s : WL} (h : s.kind.isTiered = false) (stage : Nat) : mapOf s stage = s.members := by
  simp [mapOf, h]

theorem mapOf_tiered {s : WL} (h : s.kind.isTiered = true) {stage : Nat} {g : Stage} (hg : s.stages[stage]? = some g) :
    mapOf s stage = g.members := by
  simp [mapOf, h, hg]

/-- the map a message targets is well formed in every reachable state -/
theorem sorted_mapOf {s : WL} (hi : WlInv s) (stage : Nat) : SortedKeys (mapOf s stage) := by
  unfold mapOf
  split
  · split
    · rename_i g hg; exact (hi.stages_ok g (List.mem_of_getElem? hg)).1
    · exact sortedKeys_nil
  · exact hi.flat_sorted

/-- Effect of a successful `AddMembers` on the targeted map (flat kinds: `WHITELIST`; tiered: the stage's slice). -/
theorem add_effect {s s' : WL} {al hf : Bool} {tip : Tip} {stage : Nat} {ms : List Member} (hi : WlInv s)
    (h : exec s (.addMembers al hf tip stage ms) = .ok s') :
    al = true ∧
    (∀ a, a ∈ keys (mapOf s' stage) ↔ a ∈ keys (mapOf s stage) ∨ a ∈ keys ms) ∧
    s'.numMembers + (mapOf s stage).length = s.numMembers + (mapOf s' stage).length ∧
    (∀ a ∈ keys (mapOf s stage), getM a (mapOf s' stage) = getM a (mapOf s stage)) ∧
    (s.kind = .flex → (∀ a ∈ keys ms, a ∉ keys (mapOf s stage)) ∧ (keys ms).Nodup) := by
  unfold exec at h
  split at h
  · exact absurd h (by simp)
  dsimp only at h
  unfold execAddMembers at h
  split at h
  · exact absurd h (by simp)
  rename_i hadm
  have hadm' : al = true := by simpa using hadm
  dsimp only at h
  split at h
  · -- tiered
    rename_i ht
    split at h
    · exact absurd h (by simp)
    rename_i g hg
    split at h
    · exact absurd h (by simp)
    rename_i num st added hloop
    cases h
    have hgok := hi.stages_ok g (List.mem_of_getElem? hg)
    have r := addLoop_spec _ _ _ _ _ _ _ _ _ hgok.1 hloop
    have hlt : stage < s.stages.length := by
      rcases Nat.lt_or_ge stage s.stages.length with h1 | h1
      · exact h1
      · rw [List.getElem?_eq_none h1] at hg; exact absurd hg (by simp)
    have e1 : mapOf s stage = g.members := mapOf_tiered ht hg
    have e2 : mapOf (tipped { s with numMembers := num, stages := s.stages.set stage { g with members := st, count := g.count + added } } tip) stage = st := by
      simp [mapOf, tipped, ht, hlt]
    rw [e1, e2]
    refine ⟨hadm', ?_, r.count, r.kept, ?_⟩
    · intro a; rw [r.mem a, mem_keys_prep]
    · intro hk; rw [hk] at ht; exact absurd ht (by decide)
  · rename_i ht
    have ht' : s.kind.isTiered = false := by simpa using ht
    split at h
    · exact absurd h (by simp)
    rename_i num st added hloop
    cases h
    have r := addLoop_spec _ _ _ _ _ _ _ _ _ hi.flat_sorted hloop
    have e1 : mapOf s stage = s.members := mapOf_flat ht' stage
    have e2 : mapOf (tipped { s with numMembers := num, members := st } tip) stage = st := by
      simp [mapOf, tipped, ht']
    rw [e1, e2]
    refine ⟨hadm', ?_, r.count, r.kept, ?_⟩
    · intro a; rw [r.mem a, mem_keys_prep]
    · intro hk
      have hr : (s.kind == Kind.flex) = true := by rw [hk]; decide
      have f := r.fresh hr
      have hp : prep s.kind ms = ms := by rw [hk]; simp [prep, Kind.isFlex]
      rw [hp] at f; exact f

/-- Effect of a successful `RemoveMembers` on the targeted map. -/
theorem remove_effect {s s' : WL} {al : Bool} {tip : Tip} {stage : Nat} {as : List Nat} (hi : WlInv s)
    (h : exec s (.removeMembers al tip stage as) = .ok s') :
    al = true ∧
    (∀ a ∈ as, a ∈ keys (mapOf s stage)) ∧ as.Nodup ∧
    (∀ x, x ∈ keys (mapOf s' stage) ↔ x ∈ keys (mapOf s stage) ∧ x ∉ as) ∧
    s'.numMembers + as.length = s.numMembers := by
  unfold exec at h
  split at h
  · exact absurd h (by simp)
  dsimp only at h
  unfold execRemoveMembers at h
  split at h
  · exact absurd h (by simp)
  rename_i hadm
  have hadm' : al = true := by simpa using hadm
  split at h
  · -- tiered
    rename_i ht
    split at h
    · exact absurd h (by simp)
    rename_i g hg
    split at h
    · exact absurd h (by simp)
    rename_i num st removed hloop
    cases h
    have hgok := hi.stages_ok g (List.mem_of_getElem? hg)
    have q := removeLoop_spec _ _ _ _ _ _ _ hgok.1 hloop
    have hlt : stage < s.stages.length := by
      rcases Nat.lt_or_ge stage s.stages.length with h1 | h1
      · exact h1
      · rw [List.getElem?_eq_none h1] at hg; exact absurd hg (by simp)
    have e1 : mapOf s stage = g.members := mapOf_tiered ht hg
    have e2 : mapOf (tipped { s with numMembers := num, stages := s.stages.set stage { g with members := st, count := g.count - removed } } tip) stage = st := by
      simp [mapOf, tipped, ht, hlt]
    rw [e1, e2]
    refine ⟨hadm', q.wasMember, q.distinct, q.mem, ?_⟩
    have := q.count; have := q.shrink
    simp only [tipped]; omega
  · rename_i ht
    have ht' : s.kind.isTiered = false := by simpa using ht
    split at h
    · exact absurd h (by simp)
    rename_i num st removed hloop
    cases h
    have q := removeLoop_spec _ _ _ _ _ _ _ hi.flat_sorted hloop
    have e1 : mapOf s stage = s.members := mapOf_flat ht' stage
    have e2 : mapOf (tipped { s with numMembers := num, members := st } tip) stage = st := by
      simp [mapOf, tipped, ht']
    rw [e1, e2]
    refine ⟨hadm', q.wasMember, q.distinct, q.mem, ?_⟩
    have := q.count; have := q.shrink
    simp only [tipped]; omega

/-- what a successful `IncreaseMemberLimit` charged -/
theorem incr_effect {s s' : WL} {al : Bool} {funds : List Coin} {limit : Nat}
    (h : exec s (.increaseLimit al funds limit) = .ok s') :
    s.memberLimit < limit ∧ limit ≤ s.kind.maxMembers ∧ s'.memberLimit = limit ∧
    mayPay funds NATIVE = .ok (upgradeFee s.kind s.memberLimit limit) ∧
    s'.feesPaid = s.feesPaid + upgradeFee s.kind s.memberLimit limit ∧
    s'.members = s.members ∧ s'.stages = s.stages ∧ s'.numMembers = s.numMembers := by
  unfold exec at h
  split at h
  · exact absurd h (by simp)
  dsimp only at h
  unfold execIncreaseLimit at h
  split at h
  · exact absurd h (by simp)
  split at h
  · exact absurd h (by simp)
  split at h
  · exact absurd h (by simp)
  rename_i hg
  simp only [Bool.or_eq_true, decide_eq_true_eq, not_or, Nat.not_le, Nat.not_lt] at hg
  split at h
  · exact absurd h (by simp)
  rename_i payment hpay
  dsimp only at h
  split at h
  · exact absurd h (by simp)
  rename_i hfee
  simp only [ne_eq, Decidable.not_not] at hfee
  split at h
  · exact absurd h (by simp)
  split at h
  · exact absurd h (by simp)
  cases h
  exact ⟨hg.1, hg.2, rfl, hfee ▸ hpay, by simp only []; rw [hfee], rfl, rfl, rfl⟩

/-- what a successful instantiate of a fee-charging kind was paid -/
theorem inst_effect {k : Kind} {m : InstMsg} {s : WL} (hk : k ≠ .immutable) (h : instantiate k m = .ok s) :
    s.kind = k ∧ s.memberLimit = m.memberLimit ∧ m.memberLimit ≠ 0 ∧
    mustPay m.funds NATIVE = .ok (creationFee k m.memberLimit) ∧ s.feesPaid = creationFee k m.memberLimit ∧ s.stray = 0 ∧
    s.strayOther = 0 := by
  unfold instantiate at h
  split at h
  · exact absurd rfl hk
  split at h
  · exact absurd h (by simp)
  rename_i hlim
  split at h
  · exact absurd h (by simp)
  split at h
  · exact absurd h (by simp)
  dsimp only at h
  split at h
  · exact absurd h (by simp)
  rename_i payment hpay
  split at h
  · exact absurd h (by simp)
  rename_i hfee
  simp only [ne_eq, Decidable.not_not] at hfee
  have hne : m.memberLimit ≠ 0 := by omega
  repeat' (first | (split at h) | (dsimp only at h; split at h))
  all_goals (cases h; try (exact ⟨rfl, rfl, hne, hfee ▸ hpay, hfee, rfl, rfl⟩))

theorem inst_immutable {m : InstMsg} {s : WL} (h : instantiate .immutable m = .ok s) :
    s.kind = .immutable ∧ m.funds = [] ∧ s.feesPaid = 0 ∧ s.stray = 0 ∧ s.members ≠ [] ∧ s.strayOther = 0 := by
  unfold instantiate at h
  dsimp only at h
  split at h
  · exact absurd h (by simp)
  rename_i hf
  split at h
  · exact absurd h (by simp)
  rename_i hl
  cases h
  refine ⟨rfl, by simpa using hf, rfl, rfl, ?_, rfl⟩
  intro he
  have hs := sorted_zero_map (keys m.members)
  have := foldl_saveM_fresh_length hs
  simp only [] at he
  rw [he] at this
  simp only [List.length_nil] at this
  omega


/-! ## Stage messages, frame facts -/

/-- in a map with distinct keys `may_load` returns exactly the stored value -/
theorem getM_eq_some_iff {l : List Member} (hs : SortedKeys l) (a c : Nat) : getM a l = some c ↔ (a, c) ∈ l := by
  induction l with
  | nil => simp [getM]
  | cons x xs ih =>
    have hx := sortedKeys_cons.mp hs
    unfold getM
    by_cases h : x.1 = a
    · rw [if_pos h]
      constructor
      · intro e
        simp only [Option.some.injEq] at e
        have : x = (a, c) := by rw [← h, ← e]
        rw [this]; exact List.mem_cons_self
      · intro hm
        rcases List.mem_cons.mp hm with e | e
        · rw [← e]
        · have : a ∈ keys xs := by
            unfold keys; exact List.mem_map.mpr ⟨(a, c), e, rfl⟩
          have := hx.1 a this
          omega
    · rw [if_neg h, ih hx.2]
      constructor
      · exact List.mem_cons_of_mem _
      · intro hm
        rcases List.mem_cons.mp hm with e | e
        · rw [← e] at h; exact absurd rfl h
        · exact e

/-- Effect of a successful `AddStage`: one stage is appended; it stores exactly the listed addresses, its
`MEMBER_COUNT` is the number of entries stored, and `num_members` grew by that number. -/
theorem addStage_effect {s s' : WL} {al hf : Bool} {tip : Tip} {ms : List Member} (_hi : WlInv s)
    (h : exec s (.addStage al hf tip ms) = .ok s') :
    al = true ∧ s.kind.isTiered = true ∧ s'.members = s.members ∧
    ∃ g, s'.stages = s.stages ++ [g] ∧ (∀ a, a ∈ keys g.members ↔ a ∈ keys ms) ∧ (keys g.members).Nodup ∧
      g.count = g.members.length ∧ s'.numMembers = s.numMembers + g.members.length := by
  unfold exec at h
  split at h
  · exact absurd h (by simp)
  dsimp only at h
  split at h
  rotate_left
  · exact absurd h (by simp)
  rename_i ht
  unfold execAddStage at h
  split at h
  · exact absurd h (by simp)
  rename_i hal
  have hal' : al = true := by simpa using hal
  dsimp only at h
  split at h
  · exact absurd h (by simp)
  rename_i num st added hloop
  cases h
  have r := addLoop_spec _ _ _ _ _ _ _ _ _ sortedKeys_nil hloop
  refine ⟨hal', ht, rfl, ⟨st, _⟩, rfl, ?_, r.sorted.nodup, ?_, ?_⟩
  · intro a; rw [r.mem a, mem_keys_prep]; simp [keys]
  · simp only []
    by_cases hf' : s.kind.isFlex = true
    · rw [if_pos hf']; have := r.added; simp only [List.length_nil] at this; omega
    · rw [if_neg hf']
      have hf'' : s.kind.isFlex = false := by simpa using hf'
      exact (addLoop_fresh_length hloop (sorted_prep hf'' ms)).symm
  · have := r.count; simp only [List.length_nil] at this; simp only [tipped]; omega

/-- Effect of a successful `RemoveStage`: the stage and all later ones are gone, and `num_members` dropped by exactly
the number of entries that were stored under them. -/
theorem removeStage_effect {s s' : WL} {al : Bool} {tip : Tip} {stage : Nat}
    (h : exec s (.removeStage al tip stage) = .ok s') :
    al = true ∧ stage < s.stages.length ∧ s'.members = s.members ∧ s'.stages = s.stages.take stage ∧
    s'.numMembers + stageTotal (s.stages.drop stage) = s.numMembers := by
  unfold exec at h
  split at h
  · exact absurd h (by simp)
  dsimp only at h
  split at h
  rotate_left
  · exact absurd h (by simp)
  unfold execRemoveStage at h
  split at h
  · exact absurd h (by simp)
  rename_i hal
  have hal' : al = true := by simpa using hal
  split at h
  · exact absurd h (by simp)
  rename_i g hg
  dsimp only at h
  split at h
  · exact absurd h (by simp)
  rename_i hd
  cases h
  have hlt : stage < s.stages.length := by
    rcases Nat.lt_or_ge stage s.stages.length with h1 | h1
    · exact h1
    · rw [List.getElem?_eq_none h1] at hg; exact absurd hg (by simp)
  refine ⟨hal', hlt, rfl, rfl, ?_⟩
  simp only [tipped]; omega

/-- messages other than `IncreaseMemberLimit` change neither the limit nor anything about fees -/
theorem exec_frame_fees {s s' : WL} {op : Op} (h : exec s op = .ok s') (hop : ∀ al f l, op ≠ .increaseLimit al f l) :
    s'.memberLimit = s.memberLimit ∧ s'.feesPaid = s.feesPaid ∧ s'.bank.burned = s.bank.burned ∧ s'.bank.pool = s.bank.pool := by
  unfold exec at h
  split at h
  · exact absurd h (by simp)
  cases op <;> dsimp only at h
  case addMembers al hf tip stage ms =>
    unfold execAddMembers at h
    repeat' (first | (split at h) | (dsimp only at h; split at h))
    all_goals (cases h; try (simp [tipped]))
  case removeMembers al tip stage as =>
    unfold execRemoveMembers at h
    repeat' (first | (split at h) | (dsimp only at h; split at h))
    all_goals (cases h; try (simp [tipped]))
  case addStage al hf tip ms =>
    unfold execAddStage at h
    repeat' (first | (split at h) | (dsimp only at h; split at h))
    all_goals (cases h; try (simp [tipped]))
  case removeStage al tip stage =>
    unfold execRemoveStage at h
    repeat' (first | (split at h) | (dsimp only at h; split at h))
    all_goals (cases h; try (simp [tipped]))
  case increaseLimit al funds limit => exact absurd rfl (hop al funds limit)
  case other al tip =>
    split at h
    · simp only [Except.ok.injEq] at h; subst h; simp [tipped]
    · exact absurd h (by simp)

/-- `IncreaseMemberLimit` and the other messages store and remove nothing -/
theorem other_effect {s s' : WL} {al : Bool} {tip : Tip} (h : exec s (.other al tip) = .ok s') :
    s'.members = s.members ∧ s'.stages = s.stages ∧ s'.numMembers = s.numMembers := by
  unfold exec at h
  split at h
  · exact absurd h (by simp)
  dsimp only at h
  split at h
  · simp only [Except.ok.injEq] at h; subst h; simp [tipped]
  · exact absurd h (by simp)

/-- tiered kinds: `AddMembers` / `RemoveMembers` on one stage leave every other stage's map alone -/
theorem add_other_stages {s s' : WL} {al hf : Bool} {tip : Tip} {stage : Nat} {ms : List Member}
    (h : exec s (.addMembers al hf tip stage ms) = .ok s') (ht : s.kind.isTiered = true) :
    s'.stages.length = s.stages.length ∧ ∀ j, j ≠ stage → mapOf s' j = mapOf s j := by
  unfold exec at h
  split at h
  · exact absurd h (by simp)
  dsimp only at h
  unfold execAddMembers at h
  split at h
  · exact absurd h (by simp)
  dsimp only at h
  split at h
  · exact absurd h (by simp)
  split at h
  · exact absurd h (by simp)
  cases h
  refine ⟨by simp [tipped], ?_⟩
  intro j hj
  have hne : stage ≠ j := fun e => hj e.symm
  simp [mapOf, tipped, ht, List.getElem?_set_ne hne]

theorem remove_other_stages {s s' : WL} {al : Bool} {tip : Tip} {stage : Nat} {as : List Nat}
    (h : exec s (.removeMembers al tip stage as) = .ok s') (ht : s.kind.isTiered = true) :
    s'.stages.length = s.stages.length ∧ ∀ j, j ≠ stage → mapOf s' j = mapOf s j := by
  unfold exec at h
  split at h
  · exact absurd h (by simp)
  dsimp only at h
  unfold execRemoveMembers at h
  split at h
  · exact absurd h (by simp)
  split at h
  · exact absurd h (by simp)
  split at h
  · exact absurd h (by simp)
  cases h
  refine ⟨by simp [tipped], ?_⟩
  intro j hj
  have hne : stage ≠ j := fun e => hj e.symm
  simp [mapOf, tipped, ht, List.getElem?_set_ne hne]

/-! ## Paging the `Members` query -/

theorem valid_mapOf {s : WL} (hi : WlInv s) (hk : s.kind ≠ .immutable) (stage : Nat) : AllValid (mapOf s stage) := by
  have hv := hi.valid hk
  unfold mapOf
  split
  · split
    · rename_i g hg; exact hv.2 g (List.mem_of_getElem? hg)
    · intro x hx; simp [keys] at hx
  · exact hv.1

theorem filter_after_none_of_le (a : Nat) (p : List Member) (h : ∀ x ∈ keys p, x ≤ a) :
    p.filter (fun m => decide (a < m.1)) = [] := by
  induction p with
  | nil => rfl
  | cons x xs ih =>
    have hx : x.1 ≤ a := h x.1 (by simp [keys_cons])
    have : decide (a < x.1) = false := by simp; omega
    rw [List.filter_cons, this]
    simp only [Bool.false_eq_true, if_false]
    exact ih (fun y hy => h y (by rw [keys_cons]; exact List.mem_cons_of_mem _ hy))

theorem filter_after_all_of_gt (a : Nat) (q : List Member) (h : ∀ x ∈ keys q, a < x) :
    q.filter (fun m => decide (a < m.1)) = q := by
  induction q with
  | nil => rfl
  | cons x xs ih =>
    have hx : a < x.1 := h x.1 (by simp [keys_cons])
    have : decide (a < x.1) = true := by simp; omega
    rw [List.filter_cons, this]
    simp only [if_true]
    rw [ih (fun y hy => h y (by rw [keys_cons]; exact List.mem_cons_of_mem _ hy))]

theorem sorted_append {p q : List Member} (h : SortedKeys (p ++ q)) :
    SortedKeys p ∧ SortedKeys q ∧ ∀ x ∈ keys p, ∀ y ∈ keys q, x < y := by
  unfold SortedKeys keys at *
  rw [List.map_append, List.pairwise_append] at h
  exact h

/-- in a sorted map, the entries after the last key of a prefix are exactly the rest -/
theorem filter_after_last {p q : List Member} {x : Member} (h : SortedKeys ((p ++ [x]) ++ q)) :
    ((p ++ [x]) ++ q).filter (fun m => decide (x.1 < m.1)) = q := by
  obtain ⟨h1, h2, h3⟩ := sorted_append h
  obtain ⟨h4, _, h6⟩ := sorted_append h1
  rw [List.filter_append, filter_after_none_of_le x.1 (p ++ [x]), filter_after_all_of_gt x.1 q]
  · rfl
  · intro y hy; exact h3 x.1 (by simp [keys]) y hy
  · intro y hy
    simp only [keys, List.map_append, List.mem_append, List.map_cons, List.map_nil, List.mem_singleton] at hy
    rcases hy with hy | hy
    · exact Nat.le_of_lt (h6 y (by simpa [keys] using hy) x.1 (by simp [keys]))
    · omega

/-- Paging the `Members` query to exhaustion (any page size ≥ 1, enough fuel) enumerates the stored map, completely
and in order — provided every stored key passes `addr_validate` (the cursor of the next page is a stored key). -/
theorem walkPages_complete (s : WL) (stage pg : Nat) (hpg : 1 ≤ pg) (hs : SortedKeys (mapOf s stage))
    (hv : ∀ x ∈ keys (mapOf s stage), validAddr x = true) :
    ∀ (fuel : Nat) (p q : List Member), mapOf s stage = p ++ q → q.length < fuel →
      walkPages s stage pg fuel (p.getLast?.map (·.1)) p = mapOf s stage := by
  have hlim : 1 ≤ min pg s.kind.pageMax := by
    have : 1 ≤ s.kind.pageMax := by cases s.kind <;> decide
    omega
  intro fuel
  induction fuel with
  | zero => intro p q _ hq; omega
  | succ fuel ih =>
    intro p q hpq hq
    -- the page returned for the cursor = last key of `p`
    have hpage : queryMembers s stage (p.getLast?.map (·.1)) (some pg) = some (q.take (min pg s.kind.pageMax)) := by
      unfold queryMembers
      simp only [Option.getD_some]
      rcases List.eq_nil_or_concat p with hp | ⟨p', x, hp⟩
      · subst hp; simp only [List.getLast?_nil, Option.map_none]
        rw [hpq]; rfl
      · rw [List.concat_eq_append] at hp; subst hp
        have hx : x.1 ∈ keys (mapOf s stage) := by rw [hpq]; simp [keys]
        simp only [List.getLast?_append, List.getLast?_singleton, Option.some_or, Option.map_some]
        rw [hv x.1 hx]; simp only [if_true]
        rw [hpq, filter_after_last (by rw [← hpq]; exact hs)]
    rw [walkPages, hpage]
    cases hq' : q.take (min pg s.kind.pageMax) with
    | nil =>
      have : q = [] := by
        cases q with
        | nil => rfl
        | cons y ys =>
          have : (min pg s.kind.pageMax) = (min pg s.kind.pageMax - 1) + 1 := by omega
          rw [this, List.take_succ_cons] at hq'; exact absurd hq' (by simp)
      subst this
      simp only [List.append_nil] at hpq
      exact hpq.symm
    | cons y ys =>
      simp only []
      have hne : q.take (min pg s.kind.pageMax) ≠ [] := by rw [hq']; simp
      have hlast : (p ++ (y :: ys)).getLast?.map (·.1) = (y :: ys).getLast?.map (·.1) := by
        rw [List.getLast?_append]
        cases hz : (y :: ys).getLast? with
        | none => exact absurd (List.getLast?_eq_none_iff.mp hz) (by simp)
        | some z => rfl
      rw [← hlast]
      apply ih (p ++ (y :: ys)) (q.drop (min pg s.kind.pageMax))
      · rw [List.append_assoc, ← hq', List.take_append_drop]; exact hpq
      · have hqne : q ≠ [] := by intro e; rw [e] at hq'; simp at hq'
        have : 0 < q.length := List.length_pos_iff.mpr hqne
        rw [List.length_drop]; omega


end LP.WlMembers
