import LaunchpadModel.Lemmas.OpenEditionFull
/-!
# Composite open edition ⟶ C19 aspect model (`LP.TT`, family `.openEdition`): projection, op translation, forward simulation

The composite holds the collection's ownership / trading-time record as a `TT.Coll` and calls `TT.tradingUpdateOk`,
`TT.boundedOrDefault`, `TT.Coll.updateTrading/…` itself; what is checked here is that it wires them exactly as `TT.create`
(open-edition branch: start strictly in the future, end after start), `TT.updTrading`, `TT.updStart` (open-edition branch: not
after the end time) and `TT.updEnd` do.
-/
namespace LP.OE
open LP

def ttMinter (m : Minter) : TT.Minter := { admin := m.admin, mintStart := m.startTime, endTime := m.endTime }

/-- projection onto the C19 aspect world -/
def ttOf (s : State) (m : Minter) : TT.World :=
  { family := .openEdition, now := s.now, offset := s.params.maxTradingOffsetSecs, minterAddr := m.addr,
    mc := some (ttMinter m, m.tt) }

/-- the aspect world before the edition exists -/
def ttInit (s : State) (minterAddr : Addr) : TT.World :=
  { family := .openEdition, now := s.now, offset := s.params.maxTradingOffsetSecs, minterAddr := minterAddr, mc := none }

/-- composite op ↦ C19 aspect ops (forward simulation with stuttering) -/
def ttOps (s : State) (op : Op) : List TT.Op :=
  if accepted s op then
    match op with
    | .setTime t => [.setTime t]
    | .sudoParams u => [.sudoOffset u.maxTradingOffsetSecs]
    | .updateStartTradingTime sender _ t => [.updTrading sender t 0]
    | .updateStartTime sender _ t => [.updStart sender t 0]
    | .updateEndTime sender _ t => [.updEnd sender t 0]
    | .collTrading sender t => [.collTrading sender t]
    | .collCreator sender new => [.collCreator sender new]
    | .collFreeze sender => [.collFreeze sender]
    | .collOwn sender a => [.collOwn sender a]
    | _ => []
  else []

theorem tt_step'_ok {w w' : TT.World} {op : TT.Op} (h : TT.step w op = .ok w') : TT.step' w op = w' := by
  simp [TT.step', h]

theorem tt_run_one (w : TT.World) (op : TT.Op) : TT.run w [op] = TT.step' w op := rfl

theorem tt_updTrading {s : State} {m m' : Minter} {sender : Addr} {funds : List Coin} {t : Option Nat}
    (h : updateStartTradingTime s m sender funds t = .ok m') :
    TT.step (ttOf s m) (.updTrading sender t 0) = .ok (ttOf s m') := by
  obtain ⟨c, _, hadm, hok, hc, rfl⟩ := updateStartTradingTime_ok h
  simp only [TT.step, TT.updTrading, ttOf, ttMinter, TT.adminOf]
  simp [hadm, hok, hc]

theorem tt_updStart {s : State} {m m' : Minter} {sender : Addr} {funds : List Coin} {t : Nat}
    (h : updateStartTime s m sender funds t = .ok m') :
    TT.step (ttOf s m) (.updStart sender t 0) = .ok (ttOf s m') := by
  obtain ⟨_, hadm, hbefore, hnow, hend, rfl⟩ := updateStartTime_ok h
  have h1 : ¬ m.startTime ≤ s.now := by omega
  have h2 : ¬ t < s.now := by omega
  cases he : m.endTime with
  | none => simp [TT.step, TT.updStart, ttOf, ttMinter, hadm, h1, h2, he]
  | some e =>
    have h3 : ¬ e < t := by have := hend e he; omega
    simp [TT.step, TT.updStart, ttOf, ttMinter, hadm, h1, h2, he, h3]

theorem tt_updEnd {s : State} {m m' : Minter} {sender : Addr} {funds : List Coin} {t : Nat}
    (h : updateEndTime s m sender funds t = .ok m') :
    TT.step (ttOf s m) (.updEnd sender t 0) = .ok (ttOf s m') := by
  obtain ⟨e, _, hadm, he, hlt, hnow, hst, rfl⟩ := updateEndTime_ok h
  have h1 : ¬ e ≤ s.now := by omega
  have h2 : ¬ t < s.now := by omega
  have h3 : ¬ t < m.startTime := by omega
  simp [TT.step, TT.updEnd, ttOf, ttMinter, hadm, he, h1, h2, h3]

theorem tt_onColl {s : State} {m : Minter} {f : TT.Coll → Except Err TT.Coll} {c : TT.Coll} (h : f m.tt = .ok c) :
    TT.onColl (ttOf s m) f = .ok (ttOf s { m with tt := c }) := by
  simp [TT.onColl, ttOf, h, ttMinter]

/-- `CreateMinter`: the accepted composite creation is the accepted aspect `create` (start strictly after now, end after start,
trading-time bound and default against the offset in force, ownership of the new collection) -/
theorem tt_create {s s' : State} {sender : Addr} {funds : List Coin} {msg : CreateMsg} {w : CreateWit}
    (h : step s (.create sender funds msg w) = .ok s') :
    ∃ ck m', s.codes.collKindOf msg.collCode = some ck ∧ s'.minter = some m' ∧
      TT.step (ttInit s w.minterAddr) (.create ck msg.creator msg.startTime msg.endTime msg.trading) = .ok (ttOf s' m') := by
  simp only [step] at h
  obtain ⟨b1, ms, b2, v, m, _, _, hfac, _, _, hinst, rfl⟩ := createMinter_ok h
  obtain ⟨wl, trading, ck, _, _, htr, hck, _, rfl⟩ := instantiateMinter_ok hinst
  obtain ⟨_, _, _, _, hval⟩ := factoryChecks_ok hfac
  obtain ⟨_, _, _, _, hstart, hend, _⟩ := validateInit_ok hval
  refine ⟨ck, _, hck, rfl, ?_⟩
  have h1 : ¬ msg.startTime ≤ s.now := by omega
  cases he : msg.endTime with
  | none =>
    simp only [TT.step, TT.create, ttInit, TT.createTrading, h1, if_false, Bool.false_eq_true, htr]
    simp [ttOf, ttMinter, TT.mkMinter, he]
  | some e =>
    have h2 : ¬ e ≤ msg.startTime := by have := hend e he; omega
    simp only [TT.step, TT.create, ttInit, TT.createTrading, h1, if_false, h2, decide_false, Bool.false_eq_true, htr]
    simp [ttOf, ttMinter, TT.mkMinter, he]

end LP.OE
