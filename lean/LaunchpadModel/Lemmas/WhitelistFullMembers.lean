import LaunchpadModel.Lemmas.WhitelistFull
import LaunchpadModel.Lemmas.WlInv
/-!
# Composite whitelist model ⟶ C11 aspect model (`LP.WlMembers`): projection, translation, one-step simulation

`proj11 d` reads the C11 state off the composite state (`d` = the one non-native denom C11's `otherBal` / `strayOther` stand for;
the theorems hold for every `d ≠ NATIVE`). `tr11` translates an `execute` message into the C11 op whose `allowed` flag is the
conjunction of every check C11 does not own, **computed from the composite state**: the bank delivers the attached funds, the
message is a variant of the crate's `ExecuteMsg`, the sender is an admin, the schedule gate is open, the new stage list validates.
-/
namespace LP.WF
open LP

/-- `Config.stages` and the per-stage storage (`WHITELIST_STAGES` prefixes, `MEMBER_COUNT`) have the same length -/
def Aligned (w : Wl) : Prop := w.v.store = .list → w.smembers.length = w.stages.length

/-- projection onto the C11 aspect state -/
def proj11 (d : Denom) (b : Bank) (w : Wl) : WlMembers.WL :=
  { kind := w.v.kind11, self := w.self, numMembers := w.numMembers, memberLimit := w.memberLimit, whaleCap := w.whaleCap,
    members := w.members, stages := w.smembers,
    bank := ⟨b.bal w.self NATIVE, w.g.burned, w.g.pooled⟩, otherBal := b.bal w.self d,
    feesPaid := w.g.feesPaid, stray := w.g.stray NATIVE, strayOther := w.g.stray d }

/-- attached funds as C11 sees them -/
def tipOf (d : Denom) (funds : List Coin) : WlMembers.Tip := ⟨sumDenom NATIVE funds, sumDenom d funds⟩

theorem kind11_list {v : Variant} (h : v.store = .list) :
    v.kind11.isTiered = v.tiered ∧ v.kind11.isFlex = v.flex ∧ v.kind11 ≠ .immutable ∧
    (v.kind11 == WlMembers.Kind.immutable) = false := by
  obtain ⟨st, f, t⟩ := v
  simp only at h; subst h
  cases f <;> cases t <;> simp [Variant.kind11, WlMembers.Kind.isTiered, WlMembers.Kind.isFlex]

theorem kind11_immutable {v : Variant} (h : v.store = .immutable) : v.kind11 = .immutable := by
  simp [Variant.kind11, h]

/-- funds attached to a fee-less message: the composite's ghost + real bank move exactly as C11's `tipped` -/
theorem proj_tipped (d : Denom) {b b1 : Bank} {w : Wl} {sender : Addr} {funds : List Coin}
    (hb : b.sendFunds sender w.self funds = some b1) (hs : sender ≠ w.self) :
    proj11 d b1 (w.tipped funds) = WlMembers.tipped (proj11 d b w) (tipOf d funds) := by
  simp only [proj11, Wl.tipped, Ghost.tip, WlMembers.tipped, tipOf, sendFunds_bal hb hs]

/-! ## the member messages: the composite handler is the C11 handler with `allowed = true` -/

theorem add_corr (d : Denom) (b : Bank) (w : Wl) (hv : w.v.store = .list) (sender : Addr) (stage : Nat) (ms : List Member)
    (tip : WlMembers.Tip) (hadm : isAdmin w sender = true) :
    WlMembers.execAddMembers (proj11 d b w) true false tip stage ms =
      match addMembers w sender stage ms with
      | .ok w' => .ok (WlMembers.tipped (proj11 d b w') tip)
      | .error e => .error e := by
  obtain ⟨ht, _, _, _⟩ := kind11_list hv
  simp only [WlMembers.execAddMembers, addMembers, hadm, Bool.not_true, Bool.false_eq_true, if_false, proj11, ht]
  by_cases htier : w.v.tiered = true
  · simp only [htier, if_true]
    cases hg : w.smembers[stage]? with
    | none => simp
    | some g =>
      simp only []
      cases hl : WlMembers.addLoop ⟨true, w.v.kind11 == .flex, none, false⟩ w.memberLimit (WlMembers.prep w.v.kind11 ms)
          (w.numMembers, g.members, 0) with
      | error e => simp
      | ok r => obtain ⟨num, st, added⟩ := r; simp
  · simp only [htier, if_false, Bool.false_eq_true]
    cases hl : WlMembers.addLoop ⟨true, w.v.kind11 == .flex, none, false⟩ w.memberLimit (WlMembers.prep w.v.kind11 ms)
        (w.numMembers, w.members, 0) with
    | error e => simp
    | ok r => obtain ⟨num, st, added⟩ := r; simp

theorem remove_corr (d : Denom) (b : Bank) (w : Wl) (hv : w.v.store = .list) (now : Nat) (sender : Addr) (stage : Nat)
    (as : List Addr) (tip : WlMembers.Tip) (hadm : isAdmin w sender = true) (t0 : Nat) (hst : startOf w stage = some t0)
    (hnow : now < t0) :
    WlMembers.execRemoveMembers (proj11 d b w) true tip stage as =
      match removeMembers w now sender stage as with
      | .ok w' => .ok (WlMembers.tipped (proj11 d b w') tip)
      | .error e => .error e := by
  obtain ⟨ht, _, _, _⟩ := kind11_list hv
  have hnow' : ¬ now ≥ t0 := by omega
  simp only [WlMembers.execRemoveMembers, removeMembers, hadm, Bool.not_true, Bool.false_eq_true, if_false, proj11, ht, hst, hnow']
  by_cases htier : w.v.tiered = true
  · simp only [htier, if_true]
    cases hg : w.smembers[stage]? with
    | none => simp
    | some g =>
      simp only []
      cases hl : WlMembers.removeLoop as (w.numMembers, g.members, 0) with
      | error e => simp
      | ok r => obtain ⟨num, st, removed⟩ := r; simp
  · simp only [htier, if_false, Bool.false_eq_true]
    cases hl : WlMembers.removeLoop as (w.numMembers, w.members, 0) with
    | error e => simp
    | ok r => obtain ⟨num, st, removed⟩ := r; simp

theorem addStage_corr (d : Denom) (b : Bank) (w : Wl) (now : Nat) (sender : Addr) (st : Stage)
    (ms : List Member) (tip : WlMembers.Tip) (hadm : isAdmin w sender = true) (hlen : w.stages.length < 3)
    (hval : Tiered.validateStages w.v.kind13 now (w.stages ++ [Tiered.normStage w.v.kind13 st]) = true) :
    WlMembers.execAddStage (proj11 d b w) true false tip ms =
      match addStage w now sender st ms with
      | .ok w' => .ok (WlMembers.tipped (proj11 d b w') tip)
      | .error e => .error e := by
  simp only [WlMembers.execAddStage, addStage, hadm, Bool.not_true, Bool.false_eq_true, if_false, proj11, hlen, decide_true, hval]
  cases hl : WlMembers.addLoop ⟨true, false, w.whaleCap, false⟩ w.memberLimit (WlMembers.prep w.v.kind11 ms) (w.numMembers, [], 0) with
  | error e => simp
  | ok r => obtain ⟨num, stm, added⟩ := r; simp; rfl

theorem removeStage_corr (d : Denom) (b : Bank) (w : Wl) (hv : w.v.store = .list) (hal : Aligned w) (now : Nat) (sender : Addr)
    (id : Nat) (tip : WlMembers.Tip) (hadm : isAdmin w sender = true) (st : Stage) (hst : w.stages[id]? = some st)
    (hnow : now < st.start) :
    WlMembers.execRemoveStage (proj11 d b w) true tip id =
      match removeStage w now sender id with
      | .ok w' => .ok (WlMembers.tipped (proj11 d b w') tip)
      | .error e => .error e := by
  have hnow' : ¬ now ≥ st.start := by omega
  have hlt : id < w.stages.length := by
    rcases Nat.lt_or_ge id w.stages.length with h | h
    · exact h
    · rw [List.getElem?_eq_none h] at hst; cases hst
  have hlt' : id < w.smembers.length := by rw [hal hv]; exact hlt
  have hg : w.smembers[id]? = some w.smembers[id] := List.getElem?_eq_getElem hlt'
  simp only [WlMembers.execRemoveStage, removeStage, hadm, Bool.not_true, Bool.false_eq_true, if_false, proj11, hst, hnow', hg]
  by_cases hd : w.numMembers < WlMembers.stageTotal (List.drop id w.smembers)
  · simp [hd]
  · simp [hd]

/-! ## the fee-bearing message -/

theorem mayPay_sum {funds : List Coin} {p : Nat} (h : mayPay funds NATIVE = .ok p) :
    sumDenom NATIVE funds = p ∧ ∀ d, d ≠ NATIVE → sumDenom d funds = 0 := by
  unfold mayPay at h
  split at h
  · simp only [Except.ok.injEq] at h; subst h; exact ⟨rfl, fun _ _ => rfl⟩
  · rename_i c
    split at h
    · rename_i hd
      simp only [Except.ok.injEq] at h; subst h
      refine ⟨by simp [sumDenom, hd], ?_⟩
      intro d hdn
      have : ¬ c.denom = d := by rw [hd]; exact fun e => hdn e.symm
      simp [sumDenom, this]
    · cases h
  · cases h

theorem price_list {v : Variant} (hv : v.store = .list) : 2 ≤ v.kind11.price := by
  obtain ⟨st, f, t⟩ := v
  simp only at hv; subst hv
  cases f <;> cases t <;> decide

theorem upgradeFee_pos {k : WlMembers.Kind} {old new : Nat} (hp : 2 ≤ k.price) (h : WlMembers.upgradeFee k old new > 0) :
    2 ≤ WlMembers.upgradeFee k old new := by
  unfold WlMembers.upgradeFee at h ⊢
  split
  · rename_i c
    have : 1 ≤ WlMembers.tiers new - WlMembers.tiers old := by omega
    calc 2 ≤ k.price := hp
      _ = 1 * k.price := by omega
      _ ≤ _ := Nat.mul_le_mul_right _ this
  · rename_i c; rw [if_neg c] at h; omega

/-- C11's `settle` of the two `fair_burn` messages, with the exact burn share -/
theorem settle_fairBurn (bk : WlMembers.Bank) (self fee : Nat) :
    WlMembers.settle bk fee (Sg1.fairBurn self fee none) =
      .ok ⟨bk.bal, bk.burned + burnShare fee, bk.pool + (fee - burnShare fee)⟩ := by
  have hb : burnShare fee ≤ fee := WlMembers.burnShare_le fee
  rw [fairBurn_eq]
  generalize burnShare fee = x at hb
  unfold WlMembers.settle
  rw [WlMembers.applyMsgs_burn_pool _ self x (fee - x) (by simp; omega)]
  simp only [Except.ok.injEq, WlMembers.Bank.mk.injEq, and_true]
  omega

/-- C11's `execIncreaseLimit` when every step succeeds (generic in the aspect state) -/
theorem execIncr_ok {P : WlMembers.WL} {funds : List Coin} {limit payment : Nat} {msgs : List Msg} {bank : WlMembers.Bank}
    (hdel : WlMembers.deliverable funds = true)
    (hlim : (decide (P.memberLimit ≥ limit) || decide (limit > P.kind.maxMembers)) = false)
    (hpay : mayPay funds NATIVE = .ok payment) (hfee : payment = WlMembers.upgradeFee P.kind P.memberLimit limit)
    (hm : (if WlMembers.upgradeFee P.kind P.memberLimit limit > 0
            then Sg1.checkedFairBurn funds P.self (WlMembers.upgradeFee P.kind P.memberLimit limit) none else .ok []) = .ok msgs)
    (hs : WlMembers.settle P.bank payment msgs = .ok bank) :
    WlMembers.execIncreaseLimit P true funds limit =
      .ok { P with memberLimit := limit, bank := bank, feesPaid := P.feesPaid + payment } := by
  have hne : ¬ payment ≠ WlMembers.upgradeFee P.kind P.memberLimit limit := fun h => h hfee
  simp only [WlMembers.execIncreaseLimit, Bool.not_true, Bool.false_eq_true, if_false, hdel, hlim, hpay, hne, hm, hs]

theorem incr_corr_ok (d : Denom) (hd : d ≠ NATIVE) {b b1 : Bank} {w w' : Wl} (hv : w.v.store = .list) {sender : Addr}
    {funds : List Coin} {limit : Nat} {msgs : List Msg}
    (hb : b.sendFunds sender w.self funds = some b1) (hs : sender ≠ w.self) (hp : w.self ≠ FAIRBURN_POOL)
    (h : increaseMemberLimit w funds limit = .ok (w', msgs)) :
    ∃ b2, MintPay.applyMsgs w.self b1 msgs = some b2 ∧
      WlMembers.execIncreaseLimit (proj11 d b w) true funds limit = .ok (proj11 d b2 w') := by
  have hdel := sendFunds_deliverable hb
  unfold increaseMemberLimit at h
  simp only [] at h
  split at h
  · cases h
  · rename_i hlim
    have hlim' : (decide (w.memberLimit ≥ limit) || decide (limit > w.v.kind11.maxMembers)) = false := by
      cases hx : (decide (w.memberLimit ≥ limit) || decide (limit > w.v.kind11.maxMembers))
      · rfl
      · exact absurd hx hlim
    split at h
    · cases h
    · rename_i payment hpay
      split at h
      · cases h
      · rename_i hfee
        have hfee' : payment = WlMembers.upgradeFee w.v.kind11 w.memberLimit limit := by
          rcases Nat.lt_trichotomy payment (WlMembers.upgradeFee w.v.kind11 w.memberLimit limit) with h1 | h1 | h1
          · exact absurd (Nat.ne_of_lt h1) hfee
          · exact h1
          · exact absurd (Nat.ne_of_gt h1) hfee
        obtain ⟨hsum0, hsumd⟩ := mayPay_sum hpay
        have hbal0 := sendFunds_bal hb hs NATIVE
        have hbald := sendFunds_bal hb hs d
        rw [hsum0] at hbal0
        rw [hsumd d hd] at hbald
        split at h
        · cases h
        · rename_i msgs0 hm
          simp only [Except.ok.injEq, Prod.mk.injEq] at h
          obtain ⟨rfl, rfl⟩ := h
          by_cases hpos : WlMembers.upgradeFee w.v.kind11 w.memberLimit limit > 0
          · have hchk : Sg1.checkedFairBurn funds w.self (WlMembers.upgradeFee w.v.kind11 w.memberLimit limit) none =
                .ok (Sg1.fairBurn w.self (WlMembers.upgradeFee w.v.kind11 w.memberLimit limit) none) := by
              rw [← hfee']; exact WlMembers.checkedFairBurn_exact hpay (by omega)
            have hm' := hm
            rw [if_pos hpos, hchk] at hm'
            simp only [Except.ok.injEq] at hm'
            have h2 := upgradeFee_pos (price_list hv) hpos
            obtain ⟨b2, ha, hb0, hbd⟩ := fairBurn_apply (b := b1) (self := w.self) h2 (by omega) hp
            refine ⟨b2, by rw [← hm']; exact ha, ?_⟩
            have hset := settle_fairBurn (proj11 d b w).bank w.self (WlMembers.upgradeFee w.v.kind11 w.memberLimit limit)
            rw [execIncr_ok (P := proj11 d b w) hdel hlim' hpay hfee' hm (by rw [← hm', hfee']; exact hset)]
            subst hm'
            simp only [proj11, Ghost.fee, fairBurn_burned, fairBurn_pooled, hb0, hbd d hd, hbal0, hbald, Except.ok.injEq,
              WlMembers.WL.mk.injEq, WlMembers.Bank.mk.injEq, and_true, true_and]
            omega
          · have hm' := hm
            rw [if_neg hpos] at hm'
            simp only [Except.ok.injEq] at hm'
            have hz : payment = 0 := by omega
            refine ⟨b1, by rw [← hm']; rfl, ?_⟩
            rw [execIncr_ok (P := proj11 d b w) (bank := (proj11 d b w).bank) hdel hlim' hpay hfee' hm
              (by rw [← hm', hz]; simp [WlMembers.settle, WlMembers.applyMsgs])]
            subst hm'
            simp only [proj11, Ghost.fee, Sg1.burnedBy, Sg1.sentTo, hbal0, hbald, hz,
              Except.ok.injEq, WlMembers.WL.mk.injEq, WlMembers.Bank.mk.injEq, and_true, true_and, Nat.add_zero]

/-- inversion of C11's `execIncreaseLimit` (generic in the aspect state) -/
theorem execIncr_inv {P P' : WlMembers.WL} {al : Bool} {funds : List Coin} {limit : Nat}
    (h : WlMembers.execIncreaseLimit P al funds limit = .ok P') :
    al = true ∧ (decide (P.memberLimit ≥ limit) || decide (limit > P.kind.maxMembers)) = false ∧
    ∃ payment msgs, mayPay funds NATIVE = .ok payment ∧ payment = WlMembers.upgradeFee P.kind P.memberLimit limit ∧
      (if WlMembers.upgradeFee P.kind P.memberLimit limit > 0
        then Sg1.checkedFairBurn funds P.self (WlMembers.upgradeFee P.kind P.memberLimit limit) none else .ok []) = .ok msgs := by
  unfold WlMembers.execIncreaseLimit at h
  split at h
  · cases h
  · rename_i hal
    split at h
    · cases h
    · split at h
      · cases h
      · rename_i hlim
        simp only [] at h
        split at h
        · cases h
        · rename_i payment hpay
          split at h
          · cases h
          · rename_i hfee
            split at h
            · cases h
            · rename_i msgs hm
              refine ⟨by simpa using hal, ?_, payment, msgs, hpay, ?_, hm⟩
              · cases hx : (decide (P.memberLimit ≥ limit) || decide (limit > P.kind.maxMembers))
                · rfl
                · exact absurd hx hlim
              · rcases Nat.lt_trichotomy payment (WlMembers.upgradeFee P.kind P.memberLimit limit) with h1 | h1 | h1
                · exact absurd (Nat.ne_of_lt h1) hfee
                · exact h1
                · exact absurd (Nat.ne_of_gt h1) hfee

theorem incr_corr_err (d : Denom) (b : Bank) {w : Wl} {funds : List Coin} {limit : Nat} {e : Err} (al : Bool)
    (h : increaseMemberLimit w funds limit = .error e) :
    ∃ e', WlMembers.execIncreaseLimit (proj11 d b w) al funds limit = .error e' := by
  cases hc : WlMembers.execIncreaseLimit (proj11 d b w) al funds limit with
  | error e' => exact ⟨e', rfl⟩
  | ok P' =>
    exfalso
    obtain ⟨_, hlim, payment, msgs, hpay, hfee, hm⟩ := execIncr_inv hc
    have hlim' : (decide (w.memberLimit ≥ limit) || decide (limit > w.v.kind11.maxMembers)) = false := hlim
    have hfee' : payment = WlMembers.upgradeFee w.v.kind11 w.memberLimit limit := hfee
    have hm' : (if WlMembers.upgradeFee w.v.kind11 w.memberLimit limit > 0
        then Sg1.checkedFairBurn funds w.self (WlMembers.upgradeFee w.v.kind11 w.memberLimit limit) none else .ok []) = .ok msgs := hm
    have hne : ¬ payment ≠ WlMembers.upgradeFee w.v.kind11 w.memberLimit limit := fun x => x hfee'
    simp only [increaseMemberLimit, hlim', Bool.false_eq_true, if_false, hpay, hne, hm'] at h
    cases h

/-! ## frame: the messages C11 does not name leave its projection alone; no handler moves the contract -/

theorem updateStartTime_frame {w w' : Wl} {now : Nat} {sender : Addr} {t : Nat} (h : updateStartTime w now sender t = .ok w')
    (d : Denom) (b : Bank) : proj11 d b w' = proj11 d b w ∧ w'.self = w.self := by
  unfold updateStartTime at h
  split at h; · cases h
  split at h; · cases h
  split at h; · cases h
  simp only [Except.ok.injEq] at h; subst h; exact ⟨rfl, rfl⟩

theorem updateEndTime_frame {w w' : Wl} {now : Nat} {sender : Addr} {t : Nat} (h : updateEndTime w now sender t = .ok w')
    (d : Denom) (b : Bank) : proj11 d b w' = proj11 d b w ∧ w'.self = w.self := by
  unfold updateEndTime at h
  split at h; · cases h
  split at h; · cases h
  split at h; · cases h
  simp only [Except.ok.injEq] at h; subst h; exact ⟨rfl, rfl⟩

theorem updatePerAddressLimit_frame {w w' : Wl} {sender : Addr} {n : Nat} (h : updatePerAddressLimit w sender n = .ok w')
    (d : Denom) (b : Bank) : proj11 d b w' = proj11 d b w ∧ w'.self = w.self := by
  unfold updatePerAddressLimit at h
  split at h; · cases h
  split at h; · cases h
  simp only [Except.ok.injEq] at h; subst h; exact ⟨rfl, rfl⟩

theorem updateAdmins_frame {w w' : Wl} {sender : Addr} {l : List Addr} (h : updateAdmins w sender l = .ok w')
    (d : Denom) (b : Bank) : proj11 d b w' = proj11 d b w ∧ w'.self = w.self := by
  unfold updateAdmins at h
  split at h; · cases h
  split at h; · cases h
  simp only [Except.ok.injEq] at h; subst h; exact ⟨rfl, rfl⟩

theorem freeze_frame {w w' : Wl} {sender : Addr} (h : freeze w sender = .ok w')
    (d : Denom) (b : Bank) : proj11 d b w' = proj11 d b w ∧ w'.self = w.self := by
  unfold freeze at h
  split at h; · cases h
  simp only [Except.ok.injEq] at h; subst h; exact ⟨rfl, rfl⟩

theorem updateStageConfig_frame {w w' : Wl} {sender : Addr} {u : StageUpdate} (h : updateStageConfig w sender u = .ok w')
    (d : Denom) (b : Bank) : proj11 d b w' = proj11 d b w ∧ w'.self = w.self := by
  unfold updateStageConfig at h
  split at h; · cases h
  split at h; · cases h
  simp only [] at h
  split at h; · cases h
  simp only [Except.ok.injEq] at h; subst h; exact ⟨rfl, rfl⟩

theorem addMembers_self {w w' : Wl} {sender : Addr} {stage : Nat} {ms : List Member} (h : addMembers w sender stage ms = .ok w') :
    w'.self = w.self ∧ w'.v = w.v := by
  unfold addMembers at h
  split at h; · cases h
  simp only [] at h
  split at h
  · split at h; · cases h
    split at h; · cases h
    simp only [Except.ok.injEq] at h; subst h; exact ⟨rfl, rfl⟩
  · split at h; · cases h
    simp only [Except.ok.injEq] at h; subst h; exact ⟨rfl, rfl⟩

theorem removeMembers_self {w w' : Wl} {now : Nat} {sender : Addr} {stage : Nat} {as : List Addr}
    (h : removeMembers w now sender stage as = .ok w') : w'.self = w.self ∧ w'.v = w.v := by
  unfold removeMembers at h
  split at h; · cases h
  split at h; · cases h
  split at h; · cases h
  split at h
  · split at h; · cases h
    split at h; · cases h
    simp only [Except.ok.injEq] at h; subst h; exact ⟨rfl, rfl⟩
  · split at h; · cases h
    simp only [Except.ok.injEq] at h; subst h; exact ⟨rfl, rfl⟩

theorem addStage_self {w w' : Wl} {now : Nat} {sender : Addr} {st : Stage} {ms : List Member}
    (h : addStage w now sender st ms = .ok w') : w'.self = w.self ∧ w'.v = w.v := by
  unfold addStage at h
  split at h; · cases h
  split at h; · cases h
  simp only [] at h
  split at h; · cases h
  split at h; · cases h
  simp only [Except.ok.injEq] at h; subst h; exact ⟨rfl, rfl⟩

theorem removeStage_self {w w' : Wl} {now : Nat} {sender : Addr} {id : Nat}
    (h : removeStage w now sender id = .ok w') : w'.self = w.self ∧ w'.v = w.v := by
  unfold removeStage at h
  split at h; · cases h
  split at h; · cases h
  split at h; · cases h
  simp only [] at h
  split at h; · cases h
  simp only [Except.ok.injEq] at h; subst h; exact ⟨rfl, rfl⟩

end LP.WF
