import LaunchpadModel.Model.Supply
/-!
# Lemmas for C01: list facts, collection invariants, per-operation preservation of the supply invariants.
-/
namespace LP.Supply

/-! ## List facts -/

theorem inj_of_nodup_map {α β : Type} (f : α → β) :
    ∀ (l : List α), (l.map f).Nodup → ∀ x ∈ l, ∀ y ∈ l, f x = f y → x = y
  | [], _, x, hx, _, _, _ => by simp at hx
  | a :: as, h, x, hx, y, hy, hxy => by
    rw [List.map_cons, List.nodup_cons] at h
    rcases List.mem_cons.mp hx with rfl | hx' <;> rcases List.mem_cons.mp hy with rfl | hy'
    · rfl
    · exact absurd (hxy ▸ List.mem_map_of_mem (f := f) hy') h.1
    · exact absurd (hxy ▸ List.mem_map_of_mem (f := f) hx') h.1
    · exact inj_of_nodup_map f as h.2 x hx' y hy' hxy

theorem map_snd_filter_snd (l : List (Nat × Nat)) (id : Nat) :
    (l.filter (fun e => e.2 != id)).map (·.2) = (l.map (·.2)).filter (· != id) := by
  rw [List.filter_map]; rfl

theorem map_fst_filter_fst (l : List (Nat × Nat)) (p : Nat) :
    (l.filter (fun e => e.1 != p)).map (·.1) = (l.map (·.1)).filter (· != p) := by
  rw [List.filter_map]; rfl

theorem length_filter_ne_of_nodup (l : List Nat) (id : Nat) (hn : l.Nodup) (hm : id ∈ l) :
    (l.filter (· != id)).length + 1 = l.length := by
  induction l with
  | nil => simp at hm
  | cons a as ih =>
    rw [List.nodup_cons] at hn
    by_cases h : a = id
    · subst h
      have : as.filter (· != a) = as := by
        apply List.filter_eq_self.mpr; intro x hx
        simp only [bne_iff_ne, ne_eq]; intro hxa; exact hn.1 (hxa ▸ hx)
      simp [this]
    · have hm' : id ∈ as := by
        rcases List.mem_cons.mp hm with h' | h'
        · exact absurd h'.symm h
        · exact h'
      have := ih hn.2 hm'
      have hb : (a != id) = true := by simp [h]
      simp only [List.filter_cons, hb, if_true, List.length_cons]; omega

theorem length_le_of_nodup_subset : ∀ (l₁ l₂ : List Nat), l₁.Nodup → (∀ x ∈ l₁, x ∈ l₂) → l₁.length ≤ l₂.length
  | [], _, _, _ => Nat.zero_le _
  | a :: as, l₂, hn, hs => by
    rw [List.nodup_cons] at hn
    have ha : a ∈ l₂ := hs a (List.mem_cons_self ..)
    have hsub : ∀ x ∈ as, x ∈ l₂.erase a := fun x hx =>
      (List.mem_erase_of_ne (fun (hxa : x = a) => hn.1 (by rw [← hxa]; exact hx))).mpr (hs x (List.mem_cons_of_mem _ hx))
    have ih := length_le_of_nodup_subset as (l₂.erase a) hn.2 hsub
    have hl := List.length_erase_of_mem ha
    have hpos : 0 < l₂.length := List.length_pos_of_mem ha
    simp only [List.length_cons]; omega

/-- with unique keys and unique ids, removing the key of an entry = removing its id -/
theorem filter_key_eq_filter_id (l : List (Nat × Nat)) (p id : Nat)
    (hk : (l.map (·.1)).Nodup) (hi : (l.map (·.2)).Nodup) (hm : (p, id) ∈ l) :
    l.filter (fun e => e.1 != p) = l.filter (fun e => e.2 != id) := by
  apply List.filter_congr
  intro e he
  by_cases h1 : e.1 = p
  · have : e = (p, id) := inj_of_nodup_map (·.1) l hk e he (p, id) hm h1
    subst this; simp
  · by_cases h2 : e.2 = id
    · have : e = (p, id) := inj_of_nodup_map (·.2) l hi e he (p, id) hm h2
      subst this; simp at h1
    · have a : (e.1 != p) = true := by simp [h1]
      have b : (e.2 != id) = true := by simp [h2]
      show (e.1 != p) = (e.2 != id)
      rw [a, b]

theorem lookupPos_mem {pos : List (Nat × Nat)} {p id : Nat} (h : lookupPos pos p = some id) : (p, id) ∈ pos := by
  unfold lookupPos at h
  cases hf : pos.find? (fun e => e.1 == p) with
  | none => simp [hf] at h
  | some e =>
    simp [hf] at h
    have h1 := List.find?_some hf
    have h2 := List.mem_of_find?_eq_some hf
    simp at h1
    have : e = (p, id) := by cases e; simp_all
    exact this ▸ h2

theorem findId_mem {pos : List (Nat × Nat)} {id : Nat} (h : findId pos id ≠ 0) : (findId pos id, id) ∈ pos := by
  unfold findId at h ⊢
  cases hf : pos.find? (fun e => e.2 == id) with
  | none => simp [hf] at h
  | some e =>
    have h1 := List.find?_some hf
    have h2 := List.mem_of_find?_eq_some hf
    simp at h1
    have : e = (e.1, id) := by cases e; simp_all
    simp only []
    exact this ▸ h2

/-- the loop finds every id that is present, at a key that is in the map -/
theorem findId_of_mem {pos : List (Nat × Nat)} {id : Nat} (h : id ∈ pos.map (·.2)) :
    findId pos id ∈ pos.map (·.1) := by
  unfold findId
  cases hf : pos.find? (fun e => e.2 == id) with
  | none =>
    rw [List.find?_eq_none] at hf
    obtain ⟨e, he, rfl⟩ := List.mem_map.mp h
    exact absurd (by simp) (hf e he)
  | some e => exact List.mem_map_of_mem (f := (·.1)) (List.mem_of_find?_eq_some hf)

/-! ## Collection invariant -/

structure CInv (c : Coll) : Prop where
  nodup : c.ids.Nodup
  count : c.count = c.toks.length

theorem CInv.empty : CInv Coll.empty := ⟨by simp [Coll.empty, Coll.ids], rfl⟩

theorem Coll.mint_spec {c c' : Coll} {id o : Nat} (h : c.mint id o = some c') :
    id ∉ c.ids ∧ c'.toks = (id, o) :: c.toks ∧ c'.count = c.count + 1 ∧ c'.ids = id :: c.ids := by
  unfold Coll.mint at h
  split at h
  · simp at h
  · next hn => injection h with h; subst h; exact ⟨hn, rfl, rfl, rfl⟩

theorem Coll.mint_isSome {c : Coll} {id o : Nat} (h : id ∉ c.ids) : ∃ c', c.mint id o = some c' := by
  unfold Coll.mint; simp [h]

theorem Coll.mint_inv {c c' : Coll} {id o : Nat} (hi : CInv c) (h : c.mint id o = some c') : CInv c' := by
  obtain ⟨hn, ht, hc, hids⟩ := Coll.mint_spec h
  exact ⟨by rw [hids, List.nodup_cons]; exact ⟨hn, hi.nodup⟩, by rw [hc, ht, hi.count]; simp⟩

theorem Coll.burn_spec {c c' : Coll} {id : Nat} (h : c.burn id = some c') :
    id ∈ c.ids ∧ c'.ids = c.ids.filter (· != id) ∧ c'.count = c.count - 1 := by
  unfold Coll.burn at h
  split at h
  · next hm =>
    injection h with h; subst h
    refine ⟨hm, ?_, rfl⟩
    simp only [Coll.ids]; rw [List.filter_map]; rfl
  · simp at h

theorem Coll.burn_inv {c c' : Coll} {id : Nat} (hi : CInv c) (h : c.burn id = some c') : CInv c' := by
  obtain ⟨hm, hids, hc⟩ := Coll.burn_spec h
  refine ⟨by rw [hids]; exact hi.nodup.filter _, ?_⟩
  have h1 := length_filter_ne_of_nodup c.ids id hi.nodup hm
  have h2 : c'.toks.length = c'.ids.length := by simp [Coll.ids]
  have h3 : c.toks.length = c.ids.length := by simp [Coll.ids]
  rw [hc, h2, hids, hi.count, h3]; omega

theorem Coll.transfer_spec {c c' : Coll} {id to : Nat} (h : c.transfer id to = some c') :
    id ∈ c.ids ∧ c'.ids = c.ids ∧ c'.count = c.count ∧ c'.toks.length = c.toks.length := by
  unfold Coll.transfer at h
  split at h
  · next hm =>
    injection h with h; subst h
    refine ⟨hm, ?_, rfl, by simp⟩
    simp [Coll.ids, List.map_map, Function.comp_def]
  · simp at h

theorem Coll.transfer_inv {c c' : Coll} {id to : Nat} (hi : CInv c) (h : c.transfer id to = some c') : CInv c' := by
  obtain ⟨_, hids, hc, hl⟩ := Coll.transfer_spec h
  exact ⟨by rw [hids]; exact hi.nodup, by rw [hc, hl, hi.count]⟩

/-! ## Fixed-supply invariant -/

structure FInv (s : Fixed) : Prop where
  /-- positions are ≥ 1 (so the `position == 0` test of MintFor means exactly "not found") -/
  kpos : ∀ p ∈ s.keys, 1 ≤ p
  knodup : s.keys.Nodup
  /-- no id is held by two positions -/
  nodup : s.ids.Nodup
  range : ∀ id ∈ s.ids, 1 ≤ id ∧ id ≤ s.n
  /-- a still-mintable id has never been minted -/
  fresh : ∀ id ∈ s.ids, id ∉ s.minted
  /-- no id was minted twice -/
  mnodup : s.minted.Nodup
  mrange : ∀ id ∈ s.minted, 1 ≤ id ∧ id ≤ s.n
  /-- the counter equals the size of the position map -/
  count : s.mintable = s.pos.length
  total : s.pos.length + s.minted.length + s.burned = s.n
  /-- collection: every existing token was minted by this minter; ids unique; NumTokens exact -/
  csub : ∀ id ∈ s.coll.ids, id ∈ s.minted
  cinv : CInv s.coll

theorem Fixed.init_spec {n : Nat} {perm : List Nat} {s : Fixed} (h : Fixed.init n perm = some s) :
    perm.Perm (List.range' 1 n) ∧
    s = { n, pos := (List.range' 1 n).zip perm, mintable := n, minted := [], burned := 0, coll := Coll.empty } := by
  unfold Fixed.init at h
  split at h
  · next hp => injection h with h; exact ⟨List.isPerm_iff.mp hp, h.symm⟩
  · simp at h

theorem Fixed.init_inv {n : Nat} {perm : List Nat} {s : Fixed} (h : Fixed.init n perm = some s) :
    FInv s ∧ s.n = n := by
  obtain ⟨hp, rfl⟩ := Fixed.init_spec h
  have hl : perm.length = (List.range' 1 n).length := hp.length_eq
  have hk : (List.map (·.1) ((List.range' 1 n).zip perm)) = List.range' 1 n := by
    rw [List.map_fst_zip]; omega
  have hi : (List.map (·.2) ((List.range' 1 n).zip perm)) = perm := by
    rw [List.map_snd_zip]; omega
  have hlen : ((List.range' 1 n).zip perm).length = n := by simp [hl]
  refine ⟨⟨?_, ?_, ?_, ?_, ?_, by simp, by simp, ?_, ?_, by simp [Coll.empty, Coll.ids], CInv.empty⟩, rfl⟩
  · intro p hp'; simp only [Fixed.keys, hk] at hp'; exact (List.mem_range'_1.mp hp').1
  · simp only [Fixed.keys, hk]; exact List.nodup_range' 1 (by omega)
  · simp only [Fixed.ids, hi]; exact hp.nodup_iff.mpr (List.nodup_range' 1 (by omega))
  · intro id hid; simp only [Fixed.ids, hi] at hid
    have := List.mem_range'_1.mp (hp.mem_iff.mp hid)
    show 1 ≤ id ∧ id ≤ n; omega
  · intro id _; simp
  · simp [hlen]
  · simp [hlen]

/-- shared tail of `takeAt` / `takeId` -/
theorem Fixed.deliver_spec {s s' : Fixed} {p id o : Nat} (h : s.deliver p id o = some s') :
    ∃ c, s.coll.mint id o = some c ∧
      s' = { s with pos := s.pos.filter (fun e => e.1 != p), mintable := s.mintable - 1,
                    minted := id :: s.minted, coll := c } := by
  unfold Fixed.deliver at h
  cases hc : s.coll.mint id o with
  | none => simp [hc] at h
  | some c => simp [hc] at h; exact ⟨c, rfl, h.symm⟩

theorem Fixed.deliver_inv {s s' : Fixed} {p id o : Nat} (hi : FInv s) (hm : (p, id) ∈ s.pos)
    (h : s.deliver p id o = some s') : FInv s' ∧ s'.n = s.n := by
  obtain ⟨c, hc, rfl⟩ := Fixed.deliver_spec h
  obtain ⟨hnc, _, _, hcids⟩ := Coll.mint_spec hc
  have hE := filter_key_eq_filter_id s.pos p id hi.knodup hi.nodup hm
  have hmem : id ∈ s.ids := List.mem_map_of_mem (f := (·.2)) hm
  have hpmem : p ∈ s.keys := List.mem_map_of_mem (f := (·.1)) hm
  have hkeys : (s.pos.filter (fun e => e.1 != p)).map (·.1) = s.keys.filter (· != p) := map_fst_filter_fst _ _
  have hids : (s.pos.filter (fun e => e.1 != p)).map (·.2) = s.ids.filter (· != id) := by
    rw [hE]; exact map_snd_filter_snd _ _
  have hlen : (s.pos.filter (fun e => e.1 != p)).length + 1 = s.pos.length := by
    have := length_filter_ne_of_nodup s.ids id hi.nodup hmem
    have e1 : (s.pos.filter (fun e => e.1 != p)).length = (s.ids.filter (· != id)).length := by
      rw [← hids]; simp
    have e2 : s.pos.length = s.ids.length := by simp [Fixed.ids]
    omega
  refine ⟨⟨?_, ?_, ?_, ?_, ?_, ?_, ?_, ?_, ?_, ?_, Coll.mint_inv hi.cinv hc⟩, rfl⟩
  · intro q hq; simp only [Fixed.keys, hkeys] at hq; exact hi.kpos q (List.mem_filter.mp hq).1
  · simp only [Fixed.keys, hkeys]; exact hi.knodup.filter _
  · simp only [Fixed.ids, hids]; exact hi.nodup.filter _
  · intro x hx; simp only [Fixed.ids, hids] at hx; exact hi.range x (List.mem_filter.mp hx).1
  · intro x hx; simp only [Fixed.ids, hids] at hx
    have hx' := List.mem_filter.mp hx
    simp only [List.mem_cons, not_or]
    exact ⟨by simpa using hx'.2, hi.fresh x hx'.1⟩
  · simp only [List.nodup_cons]; exact ⟨hi.fresh id hmem, hi.mnodup⟩
  · intro x hx; simp only [List.mem_cons] at hx
    rcases hx with rfl | hx
    · exact hi.range _ hmem
    · exact hi.mrange x hx
  · simp only; have := hi.count; omega
  · simp only [List.length_cons]; have := hi.total; omega
  · intro x hx; simp only [hcids, List.mem_cons] at hx ⊢
    rcases hx with rfl | hx
    · exact Or.inl rfl
    · exact Or.inr (hi.csub x hx)

theorem Fixed.takeAt_spec {s s' : Fixed} {p o : Nat} (h : s.takeAt p o = some s') :
    s.mintable ≠ 0 ∧ ∃ id, (p, id) ∈ s.pos ∧ s.deliver p id o = some s' := by
  unfold Fixed.takeAt at h
  split at h
  · simp at h
  · next hz =>
    cases hl : lookupPos s.pos p with
    | none => simp [hl] at h
    | some id => simp [hl] at h; exact ⟨hz, id, lookupPos_mem hl, h⟩

theorem Fixed.takeId_spec {s s' : Fixed} {id o : Nat} (h : s.takeId id o = some s') :
    s.mintable ≠ 0 ∧ 1 ≤ id ∧ id ≤ s.n ∧ (findId s.pos id, id) ∈ s.pos ∧ findId s.pos id ≠ 0 ∧
      s.deliver (findId s.pos id) id o = some s' := by
  unfold Fixed.takeId at h
  split at h
  · simp at h
  · next hz =>
    split at h
    · simp at h
    · next hr =>
      simp only at h
      split at h
      · simp at h
      · next hp => exact ⟨hz, by omega, by omega, findId_mem hp, hp, h⟩

theorem Fixed.shuffle_spec {s s' : Fixed} {perm : List Nat} (h : s.shuffle perm = some s') :
    s.mintable ≠ 0 ∧ perm.Perm s.ids ∧ s' = { s with pos := s.keys.zip perm } := by
  unfold Fixed.shuffle at h
  split at h
  · simp at h
  · next hz =>
    split at h
    · next hp => injection h with h; exact ⟨hz, List.isPerm_iff.mp hp, h.symm⟩
    · simp at h

theorem Fixed.shuffle_keys_ids {s : Fixed} {perm : List Nat} (hp : perm.Perm s.ids) :
    ({ s with pos := s.keys.zip perm } : Fixed).keys = s.keys ∧
    ({ s with pos := s.keys.zip perm } : Fixed).ids = perm ∧
    (s.keys.zip perm).length = s.pos.length := by
  have hl : perm.length = s.pos.length := by rw [hp.length_eq]; simp [Fixed.ids]
  have hk : s.keys.length = s.pos.length := by simp [Fixed.keys]
  refine ⟨?_, ?_, by simp [hl, hk]⟩
  · show List.map (·.1) (s.keys.zip perm) = s.keys
    rw [List.map_fst_zip]; omega
  · show List.map (·.2) (s.keys.zip perm) = perm
    rw [List.map_snd_zip]; omega

theorem Fixed.shuffle_inv {s s' : Fixed} {perm : List Nat} (hi : FInv s) (h : s.shuffle perm = some s') :
    FInv s' ∧ s'.n = s.n := by
  obtain ⟨_, hp, rfl⟩ := Fixed.shuffle_spec h
  obtain ⟨hk, hids, hlen⟩ := Fixed.shuffle_keys_ids hp
  refine ⟨⟨?_, ?_, ?_, ?_, ?_, hi.mnodup, hi.mrange, ?_, ?_, hi.csub, hi.cinv⟩, rfl⟩
  · rw [hk]; exact hi.kpos
  · rw [hk]; exact hi.knodup
  · rw [hids]; exact hp.nodup_iff.mpr hi.nodup
  · rw [hids]; intro x hx; exact hi.range x (hp.mem_iff.mp hx)
  · rw [hids]; intro x hx; exact hi.fresh x (hp.mem_iff.mp hx)
  · show s.mintable = (s.keys.zip perm).length; rw [hlen]; exact hi.count
  · show (s.keys.zip perm).length + s.minted.length + s.burned = s.n; rw [hlen]; exact hi.total

theorem Fixed.burnAll_spec {s s' : Fixed} (h : s.burnAll = some s') :
    s.mintable ≠ 0 ∧
    s' = { s with pos := [], mintable := s.mintable - s.pos.length, burned := s.burned + s.pos.length } := by
  unfold Fixed.burnAll at h
  split at h
  · simp at h
  · next hz => injection h with h; exact ⟨hz, h.symm⟩

theorem Fixed.burnAll_inv {s s' : Fixed} (hi : FInv s) (h : s.burnAll = some s') : FInv s' ∧ s'.n = s.n := by
  obtain ⟨_, rfl⟩ := Fixed.burnAll_spec h
  refine ⟨⟨by simp [Fixed.keys], by simp [Fixed.keys], by simp [Fixed.ids], by simp [Fixed.ids],
    by simp [Fixed.ids], hi.mnodup, hi.mrange, ?_, ?_, hi.csub, hi.cinv⟩, rfl⟩
  · simp; have := hi.count; omega
  · simp; have := hi.total; omega

theorem FInv.withColl {s : Fixed} {c : Coll} (hi : FInv s) (hs : ∀ id ∈ c.ids, id ∈ s.coll.ids) (hc : CInv c) :
    FInv { s with coll := c } :=
  ⟨hi.kpos, hi.knodup, hi.nodup, hi.range, hi.fresh, hi.mnodup, hi.mrange, hi.count, hi.total,
    fun id h => hi.csub id (hs id h), hc⟩

theorem Fixed.step_inv {s s' : Fixed} {op : FOp} (hi : FInv s) (h : s.step op = some s') :
    FInv s' ∧ s'.n = s.n := by
  cases op with
  | mint g p o =>
    cases g <;> simp [Fixed.step] at h
    obtain ⟨_, id, hm, hd⟩ := Fixed.takeAt_spec h
    exact Fixed.deliver_inv hi hm hd
  | mintFor g id o =>
    cases g <;> simp [Fixed.step] at h
    obtain ⟨_, _, _, hm, _, hd⟩ := Fixed.takeId_spec h
    exact Fixed.deliver_inv hi hm hd
  | shuffle g perm =>
    cases g <;> simp [Fixed.step] at h
    exact Fixed.shuffle_inv hi h
  | purge g =>
    cases g <;> simp [Fixed.step, Fixed.purge] at h
    obtain ⟨_, rfl⟩ := h; exact ⟨hi, rfl⟩
  | burnRemaining g =>
    cases g <;> simp [Fixed.step] at h
    exact Fixed.burnAll_inv hi h
  | collBurn g id =>
    cases g <;> simp [Fixed.step] at h
    obtain ⟨c, hc, rfl⟩ := h
    obtain ⟨_, hids, _⟩ := Coll.burn_spec hc
    exact ⟨hi.withColl (fun x hx => by rw [hids] at hx; exact (List.mem_filter.mp hx).1) (Coll.burn_inv hi.cinv hc), rfl⟩
  | collTransfer g id to =>
    cases g <;> simp [Fixed.step] at h
    obtain ⟨c, hc, rfl⟩ := h
    obtain ⟨_, hids, _⟩ := Coll.transfer_spec hc
    exact ⟨hi.withColl (fun x hx => by rw [hids] at hx; exact hx) (Coll.transfer_inv hi.cinv hc), rfl⟩
  | noise g =>
    cases g <;> simp [Fixed.step] at h
    subst h; exact ⟨hi, rfl⟩

theorem Fixed.step'_inv {s : Fixed} (op : FOp) (hi : FInv s) : FInv (s.step' op) ∧ (s.step' op).n = s.n := by
  unfold Fixed.step'
  cases h : s.step op with
  | none => exact ⟨hi, rfl⟩
  | some s' => exact Fixed.step_inv hi h

theorem Fixed.run_inv (s : Fixed) (ops : List FOp) (hi : FInv s) : FInv (s.run ops) ∧ (s.run ops).n = s.n := by
  induction ops generalizing s with
  | nil => exact ⟨hi, rfl⟩
  | cons op ops ih =>
    have ⟨h1, h2⟩ := Fixed.step'_inv op hi
    have ⟨h3, h4⟩ := ih (s.step' op) h1
    exact ⟨h3, h4.trans h2⟩

/-! ## History facts of the fixed-supply family -/

/-- the `minted` log changes only by a successful mint op, which conses exactly one id that was mintable -/
theorem Fixed.step_minted {s s' : Fixed} {op : FOp} (h : s.step op = some s') :
    (op.isMint = true ∧ ∃ id, id ∈ s.ids ∧ s'.minted = id :: s.minted ∧ s'.mintable + 1 = s.mintable) ∨
    (op.isMint = false ∧ s'.minted = s.minted ∧ s'.mintable ≤ s.mintable) := by
  cases op with
  | mint g p o =>
    cases g <;> simp [Fixed.step] at h
    obtain ⟨hz, id, hm, hd⟩ := Fixed.takeAt_spec h
    obtain ⟨c, _, rfl⟩ := Fixed.deliver_spec hd
    exact Or.inl ⟨rfl, id, List.mem_map_of_mem (f := (·.2)) hm, rfl, by show s.mintable - 1 + 1 = s.mintable; omega⟩
  | mintFor g id o =>
    cases g <;> simp [Fixed.step] at h
    obtain ⟨hz, _, _, hm, _, hd⟩ := Fixed.takeId_spec h
    obtain ⟨c, _, rfl⟩ := Fixed.deliver_spec hd
    exact Or.inl ⟨rfl, id, List.mem_map_of_mem (f := (·.2)) hm, rfl, by show s.mintable - 1 + 1 = s.mintable; omega⟩
  | shuffle g perm =>
    cases g <;> simp [Fixed.step] at h
    obtain ⟨_, _, rfl⟩ := Fixed.shuffle_spec h
    exact Or.inr ⟨rfl, rfl, Nat.le_refl _⟩
  | purge g =>
    cases g <;> simp [Fixed.step, Fixed.purge] at h
    obtain ⟨_, rfl⟩ := h; exact Or.inr ⟨rfl, rfl, Nat.le_refl _⟩
  | burnRemaining g =>
    cases g <;> simp [Fixed.step] at h
    obtain ⟨_, rfl⟩ := Fixed.burnAll_spec h
    exact Or.inr ⟨rfl, rfl, Nat.sub_le _ _⟩
  | collBurn g id =>
    cases g <;> simp [Fixed.step] at h
    obtain ⟨c, _, rfl⟩ := h; exact Or.inr ⟨rfl, rfl, Nat.le_refl _⟩
  | collTransfer g id to =>
    cases g <;> simp [Fixed.step] at h
    obtain ⟨c, _, rfl⟩ := h; exact Or.inr ⟨rfl, rfl, Nat.le_refl _⟩
  | noise g =>
    cases g <;> simp [Fixed.step] at h
    subst h; exact Or.inr ⟨rfl, rfl, Nat.le_refl _⟩

theorem Fixed.run_cons (s : Fixed) (op : FOp) (ops : List FOp) : s.run (op :: ops) = (s.step' op).run ops := rfl

theorem Fixed.succMints_some {s s' : Fixed} {op : FOp} (ops : List FOp) (h : s.step op = some s') :
    s.succMints (op :: ops) = (if op.isMint then 1 else 0) + s'.succMints ops := by
  simp [Fixed.succMints, h]

theorem Fixed.succMints_none {s : Fixed} {op : FOp} (ops : List FOp) (h : s.step op = none) :
    s.succMints (op :: ops) = s.succMints ops := by
  simp [Fixed.succMints, h]

theorem Fixed.run_minted_length (s : Fixed) (ops : List FOp) :
    (s.run ops).minted.length = s.minted.length + s.succMints ops := by
  induction ops generalizing s with
  | nil => simp [Fixed.run, Fixed.succMints]
  | cons op ops ih =>
    rw [Fixed.run_cons, ih]
    unfold Fixed.step'
    cases h : s.step op with
    | none => rw [Fixed.succMints_none ops h]; simp
    | some s' =>
      rw [Fixed.succMints_some ops h]
      simp only [Option.getD_some]
      rcases Fixed.step_minted h with ⟨hm, id, _, hmt, _⟩ | ⟨hm, hmt, _⟩
      · rw [hmt, hm]; simp; omega
      · rw [hmt, hm]; simp

theorem Fixed.run_mintable_le (s : Fixed) (ops : List FOp) : (s.run ops).mintable ≤ s.mintable := by
  induction ops generalizing s with
  | nil => exact Nat.le_refl _
  | cons op ops ih =>
    rw [Fixed.run_cons]
    refine Nat.le_trans (ih _) ?_
    unfold Fixed.step'
    cases h : s.step op with
    | none => exact Nat.le_refl _
    | some s' =>
      simp only [Option.getD_some]
      rcases Fixed.step_minted h with ⟨_, _, _, _, hl⟩ | ⟨_, _, hl⟩ <;> omega

/-! ## Sequential family invariant -/

structure QInv (s : Seq) : Prop where
  /-- the ids issued so far are exactly `k, k-1, …, 1` (newest first), `k = TOKEN_INDEX` -/
  seq : s.issued = (List.range' 1 s.tokenIndex).reverse
  /-- `TOTAL_MINT_COUNT = TOKEN_INDEX` -/
  total : s.totalMint = s.tokenIndex
  /-- supply never exceeds the cap in force -/
  capOk : ∀ c, s.cap = some c → s.totalMint ≤ c
  /-- until a burn, the counter is `cap − minted` (absent when uncapped) -/
  left : s.burned = false → s.mintable = s.cap.map (· - s.totalMint)
  /-- after a burn the counter is `Some(0)` -/
  burnt : s.burned = true → s.mintable = some 0
  /-- collection tokens are issued ids -/
  csub : ∀ id ∈ s.coll.ids, 1 ≤ id ∧ id ≤ s.tokenIndex
  cinv : CInv s.coll

theorem Seq.create_inv (k : SeqKind) (num : Option Nat) (fmax : Nat) (e : Bool) : QInv (Seq.create k num fmax e) := by
  refine ⟨by simp [Seq.create], rfl, fun c _ => Nat.zero_le _, fun _ => ?_, fun h => by simp [Seq.create] at h,
    by simp [Seq.create, Coll.empty, Coll.ids], CInv.empty⟩
  simp only [Seq.create]
  cases Seq.initialMintable k num fmax <;> simp

theorem Seq.mint_spec {s s' : Seq} {o : Nat} (h : s.mint o = some s') :
    s.mintable ≠ some 0 ∧ ∃ c, s.coll.mint (s.tokenIndex + 1) o = some c ∧
      s' = { s with tokenIndex := s.tokenIndex + 1, totalMint := s.totalMint + 1, mintable := s.mintable.map (· - 1),
                    issued := (s.tokenIndex + 1) :: s.issued, coll := c } := by
  unfold Seq.mint at h
  split at h
  · simp at h
  · next hz =>
    simp only at h
    cases hc : s.coll.mint (s.tokenIndex + 1) o with
    | none => simp [hc] at h
    | some c => simp [hc] at h; exact ⟨hz, c, rfl, h.symm⟩

theorem Seq.mint_inv {s s' : Seq} {o : Nat} (hi : QInv s) (h : s.mint o = some s') : QInv s' := by
  obtain ⟨hz, c, hc, rfl⟩ := Seq.mint_spec h
  obtain ⟨_, _, _, hcids⟩ := Coll.mint_spec hc
  have hnb : s.burned = false := by
    cases hb : s.burned with
    | false => rfl
    | true => exact absurd (hi.burnt hb) hz
  have hl := hi.left hnb
  refine ⟨?_, ?_, ?_, ?_, ?_, ?_, Coll.mint_inv hi.cinv hc⟩
  · show (s.tokenIndex + 1) :: s.issued = (List.range' 1 (s.tokenIndex + 1)).reverse
    rw [List.range'_1_concat, List.reverse_append, hi.seq]; simp [Nat.add_comm]
  · show s.totalMint + 1 = s.tokenIndex + 1; rw [hi.total]
  · intro c' hc'
    show s.totalMint + 1 ≤ c'
    have h0 := hi.capOk c' hc'
    have hc'' : s.cap = some c' := hc'
    rw [hc''] at hl; simp at hl
    have : c' - s.totalMint ≠ 0 := fun h0' => hz (by rw [hl, h0'])
    omega
  · intro _
    show s.mintable.map (· - 1) = s.cap.map (· - (s.totalMint + 1))
    rw [hl]
    cases s.cap with
    | none => rfl
    | some c' => simp; omega
  · intro hb; exact absurd (hb : s.burned = true) (by simp [hnb])
  · intro x hx
    show 1 ≤ x ∧ x ≤ s.tokenIndex + 1
    rw [hcids] at hx
    rcases List.mem_cons.mp hx with rfl | hx
    · omega
    · have := hi.csub x hx; omega

theorem Seq.burnRemaining_spec {s s' : Seq} (h : s.burnRemaining = some s') :
    s.kind ≠ .base ∧ (∃ k, s.mintable = some (k + 1)) ∧ s' = { s with mintable := some 0, burned := true } := by
  unfold Seq.burnRemaining at h
  split at h
  · simp at h
  · next hk =>
    split at h
    · simp at h
    · simp at h
    · next k hne hm =>
      injection h with h
      refine ⟨hk, ?_, h.symm⟩
      cases k with
      | zero => exact absurd hm (by simp at hne)
      | succ k => exact ⟨k, hm⟩

theorem Seq.purge_spec {s s' : Seq} (h : s.purge = some s') : s' = s := by
  unfold Seq.purge at h
  split at h
  · simp at h
  · split at h
    · split at h
      · simp at h
      · injection h with h; exact h.symm
    · injection h with h; exact h.symm

theorem QInv.withColl {s : Seq} {c : Coll} (hi : QInv s) (hs : ∀ id ∈ c.ids, id ∈ s.coll.ids) (hc : CInv c) :
    QInv { s with coll := c } :=
  ⟨hi.seq, hi.total, hi.capOk, hi.left, hi.burnt, fun id h => hi.csub id (hs id h), hc⟩

theorem Seq.step_inv {s s' : Seq} {op : QOp} (hi : QInv s) (h : s.step op = some s') : QInv s' := by
  cases op with
  | mint g o =>
    cases g <;> simp [Seq.step] at h
    exact Seq.mint_inv hi h
  | burnRemaining g =>
    cases g <;> simp [Seq.step] at h
    obtain ⟨_, _, rfl⟩ := Seq.burnRemaining_spec h
    exact ⟨hi.seq, hi.total, hi.capOk, fun hb => by simp at hb, fun _ => rfl, hi.csub, hi.cinv⟩
  | purge g =>
    cases g <;> simp [Seq.step] at h
    rw [Seq.purge_spec h]; exact hi
  | collBurn g id =>
    cases g <;> simp [Seq.step] at h
    obtain ⟨c, hc, rfl⟩ := h
    obtain ⟨_, hids, _⟩ := Coll.burn_spec hc
    exact hi.withColl (fun x hx => by rw [hids] at hx; exact (List.mem_filter.mp hx).1) (Coll.burn_inv hi.cinv hc)
  | collTransfer g id to =>
    cases g <;> simp [Seq.step] at h
    obtain ⟨c, hc, rfl⟩ := h
    obtain ⟨_, hids, _⟩ := Coll.transfer_spec hc
    exact hi.withColl (fun x hx => by rw [hids] at hx; exact hx) (Coll.transfer_inv hi.cinv hc)
  | noise g =>
    cases g <;> simp [Seq.step] at h
    subst h; exact hi

theorem Seq.run_cons (s : Seq) (op : QOp) (ops : List QOp) : s.run (op :: ops) = (s.step' op).run ops := rfl

theorem Seq.step'_inv {s : Seq} (op : QOp) (hi : QInv s) : QInv (s.step' op) := by
  unfold Seq.step'
  cases h : s.step op with
  | none => exact hi
  | some s' => exact Seq.step_inv hi h

theorem Seq.run_inv (s : Seq) (ops : List QOp) (hi : QInv s) : QInv (s.run ops) := by
  induction ops generalizing s with
  | nil => exact hi
  | cons op ops ih => exact ih _ (Seq.step'_inv op hi)

/-- a step changes the counters only through a successful mint -/
theorem Seq.step_counters {s s' : Seq} {op : QOp} (h : s.step op = some s') :
    (op.isMint = true ∧ s'.tokenIndex = s.tokenIndex + 1 ∧ s'.totalMint = s.totalMint + 1 ∧
        s'.issued = (s.tokenIndex + 1) :: s.issued ∧ s.mintable ≠ some 0) ∨
    (op.isMint = false ∧ s'.tokenIndex = s.tokenIndex ∧ s'.totalMint = s.totalMint ∧ s'.issued = s.issued) := by
  cases op with
  | mint g o =>
    cases g <;> simp [Seq.step] at h
    obtain ⟨hz, c, _, rfl⟩ := Seq.mint_spec h
    exact Or.inl ⟨rfl, rfl, rfl, rfl, hz⟩
  | burnRemaining g =>
    cases g <;> simp [Seq.step] at h
    obtain ⟨_, _, rfl⟩ := Seq.burnRemaining_spec h
    exact Or.inr ⟨rfl, rfl, rfl, rfl⟩
  | purge g =>
    cases g <;> simp [Seq.step] at h
    rw [Seq.purge_spec h]; exact Or.inr ⟨rfl, rfl, rfl, rfl⟩
  | collBurn g id =>
    cases g <;> simp [Seq.step] at h
    obtain ⟨c, _, rfl⟩ := h; exact Or.inr ⟨rfl, rfl, rfl, rfl⟩
  | collTransfer g id to =>
    cases g <;> simp [Seq.step] at h
    obtain ⟨c, _, rfl⟩ := h; exact Or.inr ⟨rfl, rfl, rfl, rfl⟩
  | noise g =>
    cases g <;> simp [Seq.step] at h
    subst h; exact Or.inr ⟨rfl, rfl, rfl, rfl⟩

theorem Seq.succMints_some {s s' : Seq} {op : QOp} (ops : List QOp) (h : s.step op = some s') :
    s.succMints (op :: ops) = (if op.isMint then 1 else 0) + s'.succMints ops := by
  simp [Seq.succMints, h]

theorem Seq.succMints_none {s : Seq} {op : QOp} (ops : List QOp) (h : s.step op = none) :
    s.succMints (op :: ops) = s.succMints ops := by
  simp [Seq.succMints, h]

theorem Seq.run_totalMint (s : Seq) (ops : List QOp) : (s.run ops).totalMint = s.totalMint + s.succMints ops := by
  induction ops generalizing s with
  | nil => simp [Seq.run, Seq.succMints]
  | cons op ops ih =>
    rw [Seq.run_cons, ih]
    unfold Seq.step'
    cases h : s.step op with
    | none => rw [Seq.succMints_none ops h]; simp
    | some s' =>
      rw [Seq.succMints_some ops h]
      simp only [Option.getD_some]
      rcases Seq.step_counters h with ⟨hm, _, ht, _, _⟩ | ⟨hm, _, ht, _⟩
      · rw [ht, hm]; simp; omega
      · rw [ht, hm]; simp

/-- once the counter is `Some(0)` it stays `Some(0)` and nothing is minted any more -/
theorem Seq.step_zero {s s' : Seq} {op : QOp} (hz : s.mintable = some 0) (h : s.step op = some s') :
    s'.mintable = some 0 ∧ s'.totalMint = s.totalMint ∧ s'.tokenIndex = s.tokenIndex ∧ s'.issued = s.issued := by
  cases op with
  | mint g o =>
    cases g <;> simp [Seq.step] at h
    exact absurd hz (Seq.mint_spec h).1
  | burnRemaining g =>
    cases g <;> simp [Seq.step] at h
    obtain ⟨_, ⟨k, hk⟩, _⟩ := Seq.burnRemaining_spec h
    rw [hz] at hk; simp at hk
  | purge g =>
    cases g <;> simp [Seq.step] at h
    rw [Seq.purge_spec h]; exact ⟨hz, rfl, rfl, rfl⟩
  | collBurn g id =>
    cases g <;> simp [Seq.step] at h
    obtain ⟨c, _, rfl⟩ := h; exact ⟨hz, rfl, rfl, rfl⟩
  | collTransfer g id to =>
    cases g <;> simp [Seq.step] at h
    obtain ⟨c, _, rfl⟩ := h; exact ⟨hz, rfl, rfl, rfl⟩
  | noise g =>
    cases g <;> simp [Seq.step] at h
    subst h; exact ⟨hz, rfl, rfl, rfl⟩

theorem Seq.run_zero (s : Seq) (ops : List QOp) (hz : s.mintable = some 0) :
    (s.run ops).mintable = some 0 ∧ (s.run ops).totalMint = s.totalMint ∧
    (s.run ops).tokenIndex = s.tokenIndex ∧ (s.run ops).issued = s.issued := by
  induction ops generalizing s with
  | nil => exact ⟨hz, rfl, rfl, rfl⟩
  | cons op ops ih =>
    rw [Seq.run_cons]
    unfold Seq.step'
    cases h : s.step op with
    | none => simpa using ih s hz
    | some s' =>
      simp only [Option.getD_some]
      obtain ⟨h1, h2, h3, h4⟩ := Seq.step_zero hz h
      obtain ⟨k1, k2, k3, k4⟩ := ih s' h1
      exact ⟨k1, k2.trans h2, k3.trans h3, k4.trans h4⟩

/-! ## Round 3: pigeonhole — a duplicate-free list of `n` numbers from `1..=n` contains every one of them -/

theorem mem_of_nodup_range_length (l : List Nat) (n : Nat) (hn : l.Nodup) (hs : ∀ y ∈ l, 1 ≤ y ∧ y ≤ n)
    (hl : n ≤ l.length) (x : Nat) (h1 : 1 ≤ x) (h2 : x ≤ n) : x ∈ l := by
  by_cases hx : x ∈ l
  · exact hx
  · exfalso
    have hxr : x ∈ List.range' 1 n := List.mem_range'_1.mpr (by omega)
    have hsub : ∀ y ∈ l, y ∈ (List.range' 1 n).erase x := fun y hy => by
      have hne : y ≠ x := fun e => hx (e ▸ hy)
      exact (List.mem_erase_of_ne hne).mpr (List.mem_range'_1.mpr (by have := hs y hy; omega))
    have := length_le_of_nodup_subset l _ hn hsub
    rw [List.length_erase_of_mem hxr] at this
    simp at this; omega

end LP.Supply
