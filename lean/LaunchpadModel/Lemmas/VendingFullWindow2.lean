import LaunchpadModel.Lemmas.VendingFullWindow
/-!
# Composite ⟶ C04 aspect model (`LP.SaleWindow`), part 2: projection, the gate bridge, mint / schedule simulation
-/
namespace LP.VF
open LP
open LP.SaleWindow (Wl Stage Leaf ProofArg WlConfig)

/-! ## aspect-side introduction lemmas (sufficient conditions for the `do`-blocks of `SaleWindow` to succeed) -/

theorem sw_executeMint_intro {s : SaleWindow.State} {m : SaleWindow.Minter} {sender : Addr} {funds : List Coin}
    {isAdmin : Bool} {kind : SaleWindow.MintKind} {price : Coin} {n : Nat}
    (hmint : m.mintable = some (n + 1)) (hprice : SaleWindow.mintPrice s m isAdmin = .ok price)
    (hpay : mayPay funds price.denom = .ok price.amount) :
    SaleWindow.executeMint s m sender funds isAdmin kind =
      .ok (match kind with
        | .pub => { m with mintable := some n, pubCount := SaleWindow.bump m.pubCount sender }
        | .wl none => { m with mintable := some n, wlCount := SaleWindow.bump m.wlCount sender }
        | .wl (some id) =>
          { m with mintable := some n,
                   stCount := fun i => if i = id then SaleWindow.bump (m.stCount id) sender else m.stCount i,
                   stTotal := fun i => if i = id then m.stTotal id + 1 else m.stTotal i }) := by
  unfold SaleWindow.executeMint
  simp only [hmint, hprice, hpay, bind, Except.bind, pure, Except.pure]
  cases kind with
  | pub => simp
  | wl slot => cases slot <;> simp

theorem sw_mintSender_intro {s : SaleWindow.State} {m m' : SaleWindow.Minter} {a : SaleWindow.MintArgs}
    {kind : SaleWindow.MintKind} (hv : s.v.family = .vending)
    (hk : SaleWindow.isPublicMint s m a = .ok kind)
    (hpub : kind = .pub → m.start ≤ s.now ∧ m.pubCount a.sender < m.perAddr)
    (hex : SaleWindow.executeMint s m a.sender a.funds false kind = .ok m') :
    SaleWindow.mintSender s m a = .ok m' := by
  unfold SaleWindow.mintSender
  simp only [hv, hk, bind, Except.bind, pure, Except.pure]
  by_cases hp : kind = .pub
  · subst hp
    obtain ⟨h1, h2⟩ := hpub rfl
    have h1' : ¬ s.now < m.start := by omega
    have h2' : ¬ m.pubCount a.sender ≥ m.perAddr := by omega
    simp [h1', h2']
    exact hex
  · simp [hp]
    exact hex

theorem sw_wlMintChecks_intro {s : SaleWindow.State} {m : SaleWindow.Minter} {k : Nat} {w : Wl} {cfg : WlConfig}
    {a : SaleWindow.MintArgs} {slot : Option Nat} {lim : Nat}
    (hv : s.v.family = .vending)
    (hmem : SaleWindow.memberCheck s.v k w s.now a = .ok true)
    (hslot : SaleWindow.wlSlot w s.now = .ok slot)
    (hlim : SaleWindow.wlLimit s.v w s.now cfg a = .ok lim)
    (hcnt0 : slot = none → m.wlCount a.sender < lim) (hcnt1 : ∀ id, slot = some id → m.stCount id a.sender < lim)
    (hstage : ∀ id, slot = some id → SaleWindow.stageParses s.v.shape w.kind = true ∧
      ∃ st, w.activeStage s.now = some st ∧ ∀ l, st.countLimit = some l → m.stTotal id < l) :
    SaleWindow.wlMintChecks s m k w cfg a = .ok (.wl slot) := by
  unfold SaleWindow.wlMintChecks
  simp only [hmem, hslot, hlim, hv, bind, Except.bind, pure, Except.pure]
  cases slot with
  | none =>
    have := hcnt0 rfl
    have : ¬ m.wlCount a.sender ≥ lim := by omega
    simp [this]
  | some id =>
    have := hcnt1 id rfl
    have h1 : ¬ m.stCount id a.sender ≥ lim := by omega
    obtain ⟨hp, st, hst, hl⟩ := hstage id rfl
    simp only [h1, hp, hst]
    cases hcl : st.countLimit with
    | none => simp
    | some l =>
      have := hl l hcl
      have h2 : ¬ m.stTotal id ≥ l := by omega
      simp [h2]

/-! ## projection -/

def swParams (p : Params) : SaleWindow.Params :=
  { denom := p.minMintPrice.denom, minPrice := p.minMintPrice.amount, airdropPrice := p.airdropMintPrice.amount,
    maxTokenLimit := p.maxTokenLimit }

/-- the effective public price (a standing discount replaces the configured price) -/
def effPrice (m : Minter) : Coin := m.discountPrice.getD m.mintPrice

def swMinter (m : Minter) : SaleWindow.Minter :=
  { admin := m.admin, start := m.startTime, stop := none, wl := m.whitelist, price := effPrice m,
    perAddr := m.perAddressLimit, capped := true, mintable := some m.supply.mintable,
    pubCount := m.pub, wlCount := m.wlc, stCount := m.stg, stTotal := m.tot }

/-- projection onto the C04 aspect state; the whitelist pool `W` is not determined by the composite state (it is refreshed
from the interface right before every op that reads it) -/
def swOf (s : State) (m : Minter) (W : Nat → Option Wl) : SaleWindow.State :=
  { v := swVariant m.v, now := s.now, params := swParams s.params, wls := W, minter := some (swMinter m) }

/-- how the composite's booking decision reads in the aspect model -/
def swKindOf : MintKind → SaleWindow.MintKind
  | .pub => .pub
  | .wl sid _ => if sid = 0 then .wl none else .wl (some sid)

/-- the interface answers are those of ONE whitelist contract: the `is_merkle_tree_wl` bit is the kind's, and an active
tiered whitelist names its active stage -/
def InfoCoherent (i : WlInfo) : Prop :=
  i.merkleCfg = i.kind.answersHasMemberProof ∧ (i.kind.tieredName = true → i.active = true → 1 ≤ i.stageId)

def claimOf (sender : Addr) (f : MintLimits.Fields) : Leaf := ⟨f.stage, sender, f.alloc⟩

def membersOf (sender : Addr) (sv : SenderView) : List (Addr × Nat) :=
  if sv.memberPlain then [(sender, sv.memberCount)] else []

def leavesOf (sender : Addr) (f : MintLimits.Fields) (sv : SenderView) : List Leaf :=
  if sv.leafOk then [claimOf sender f] else []

/-- the whitelist the aspect world is given for a mint by `sender` -/
def mintWl (i : WlInfo) (now : Nat) (sender : Addr) (f : MintLimits.Fields) (sv : SenderView) : Wl :=
  synthWl (some i) now (membersOf sender sv) (leavesOf sender f sv)

def mintArgs (a : Addr) (i : Option WlInfo) (sender : Addr) (funds : List Coin) (f : MintLimits.Fields) (sv : SenderView) :
    SaleWindow.MintArgs :=
  { sender := sender, funds := funds, stage := f.stage, alloc := f.alloc,
    proof := proofArg a (match i with | some i => liveIdx i | none => 0) (claimOf sender f) f.proof sv.leafOk }

theorem proofArg_absent_iff (k idx : Nat) (claim : Leaf) (presented leafOk : Bool) :
    (proofArg k idx claim presented leafOk = .absent) ↔ presented = false := by
  unfold proofArg
  cases presented <;> cases leafOk <;> simp

/-! ## the gate bridge -/

theorem sw_memberCheck {s : State} {m : Minter} {a : Addr} {i : WlInfo} {sender : Addr} {funds : List Coin}
    {f : MintLimits.Fields} {sv : SenderView} {leaf : Bool}
    (hco : InfoCoherent i) (hact : i.active = true)
    (hmem : hasMember m.v i f sv = .ok (true, leaf)) :
    SaleWindow.memberCheck (swVariant m.v) a (mintWl i s.now sender f sv) s.now (mintArgs a (some i) sender funds f sv) = .ok true ∧
    (leaf = true ↔ (m.v.flavor = .merkle ∧ i.kind.answersHasMemberProof = true ∧ f.proof = true)) := by
  unfold hasMember at hmem
  unfold SaleWindow.memberCheck
  simp only [swVariant, mintArgs, mintWl]
  by_cases hbr : m.v.flavor = .merkle ∧ i.merkleCfg = true ∧ f.proof = true
  · -- the proof branch
    rw [if_pos hbr] at hmem
    obtain ⟨hfl, hmc, hpr⟩ := hbr
    have hans : i.kind.answersHasMemberProof = true := by rw [← hco.1]; exact hmc
    rw [if_pos hans] at hmem
    simp only [Except.ok.injEq, Prod.mk.injEq] at hmem
    obtain ⟨hleafOk, hleaf⟩ := hmem
    refine ⟨?_, by rw [← hleaf]; simp [hfl, hans, hpr]⟩
    simp only [hfl, swShape, synth_kind, swKind_isMerkle, hans, Bool.true_and]
    have hna : ¬ (proofArg a (liveIdx i) (claimOf sender f) f.proof sv.leafOk = ProofArg.absent) := by
      rw [proofArg_absent_iff]; simp [hpr]
    simp only [hna, decide_false, Bool.not_false, if_true]
    have := synth_hasMemberProof i s.now a (claimOf sender f) sv.leafOk (membersOf sender sv) hact hans
    rw [hpr]
    unfold leavesOf
    rw [hleafOk] at this ⊢
    exact this
  · -- the plain branch
    rw [if_neg hbr] at hmem
    split at hmem
    · rename_i hans
      simp only [Except.ok.injEq, Prod.mk.injEq] at hmem
      obtain ⟨hmp, hleaf⟩ := hmem
      have hplain := synth_hasMemberPlain i s.now sender sv.memberCount sv.memberPlain (leavesOf sender f sv) hact hans
      rw [hmp] at hplain
      have hplain' : (synthWl (some i) s.now (membersOf sender sv) (leavesOf sender f sv)).hasMemberPlain s.now sender = .ok true := by
        unfold membersOf; rw [hmp]; exact hplain
      refine ⟨?_, ?_⟩
      · cases hfl : m.v.flavor with
        | plain => simp only [swShape]; exact hplain'
        | flex => simp only [swShape]; exact hplain'
        | merkle =>
          simp only [swShape, synth_kind, swKind_isMerkle]
          have hx : ¬ (i.kind.answersHasMemberProof = true ∧ f.proof = true) := by
            intro hx; exact hbr ⟨hfl, by rw [hco.1]; exact hx.1, hx.2⟩
          by_cases h1 : i.kind.answersHasMemberProof = true
          · have h2 : f.proof = false := by cases hp : f.proof <;> simp_all
            have habs : proofArg a (liveIdx i) (claimOf sender f) f.proof sv.leafOk = ProofArg.absent := by
              rw [proofArg_absent_iff]; exact h2
            simp only [h1, habs, decide_true, Bool.not_true, Bool.and_false, Bool.false_eq_true, if_false]
            exact hplain'
          · have h1' : i.kind.answersHasMemberProof = false := by cases hp : i.kind.answersHasMemberProof <;> simp_all
            simp only [h1', Bool.false_and, Bool.false_eq_true, if_false]
            exact hplain'
      · rw [← hleaf]
        simp only [Bool.false_eq_true, false_iff]
        intro hx; exact hbr ⟨hx.1, by rw [hco.1]; exact hx.2.1, hx.2.2⟩
    · cases hmem

theorem sw_wlSlot {m : Minter} {i : WlInfo} {now : Nat} {sender : Addr} {ms : List (Addr × Nat)} {ls : List Leaf}
    {cnt sid : Nat} (hact : i.active = true) (hcnt : whitelistMintCount m i sender = .ok (cnt, sid)) :
    SaleWindow.wlSlot (synthWl (some i) now ms ls) now = .ok (if sid = 0 then none else some sid) ∧
    cnt = (if sid = 0 then m.wlc sender else m.stg sid sender) ∧ (sid = 0 ↔ i.kind.tieredName = false) := by
  unfold whitelistMintCount at hcnt
  unfold SaleWindow.wlSlot
  rw [synth_kind, swKind_isTiered, synth_activeIdx]
  split at hcnt
  · rename_i ht
    split at hcnt
    · rename_i hr
      simp only [Except.ok.injEq, Prod.mk.injEq] at hcnt
      obtain ⟨hc, hs⟩ := hcnt
      subst hs
      have hne : i.stageId ≠ 0 := by omega
      have hlt : liveIdx i < 3 := by simp [liveIdx, ht]; omega
      have hli : liveIdx i + 1 = i.stageId := by simp [liveIdx, ht]; omega
      simp [ht, hact, hlt, hli, hne, hc.symm]
    · cases hcnt
  · rename_i ht
    simp only [Except.ok.injEq, Prod.mk.injEq] at hcnt
    obtain ⟨hc, hs⟩ := hcnt
    subst hs
    have ht' : i.kind.tieredName = false := by cases h : i.kind.tieredName <;> simp_all
    simp [ht', hc.symm]

theorem sw_wlLimit {s : State} {m : Minter} {a : Addr} {i : WlInfo} {sender : Addr} {funds : List Coin}
    {f : MintLimits.Fields} {sv : SenderView} {leaf : Bool} {ent : Nat} {cfg : WlConfig}
    (hcfg : cfg.perAddr = i.limit) (hact : i.active = true) (hmp : leaf = false → sv.memberPlain = true)
    (hleaf : leaf = true ↔ (m.v.flavor = .merkle ∧ i.kind.answersHasMemberProof = true ∧ f.proof = true))
    (hent : wlEntitlement m.v i f sv leaf = .ok ent) :
    SaleWindow.wlLimit (swVariant m.v) (mintWl i s.now sender f sv) s.now cfg (mintArgs a (some i) sender funds f sv) = .ok ent := by
  unfold wlEntitlement at hent
  unfold SaleWindow.wlLimit
  simp only [swVariant]
  cases hfl : m.v.flavor with
  | plain =>
    simp only [hfl] at hent
    cases hent
    simp [swShape, hcfg]
  | flex =>
    simp only [hfl] at hent
    split at hent
    · cases hent
      have hl : leaf = false := by
        cases hx : leaf with
        | false => rfl
        | true => have := hleaf.mp hx; rw [hfl] at this; exact absurd this.1 (by simp)
      have hm := hmp hl
      simp only [swShape, mintWl, synth_activeStage, hact, if_true, mintArgs, membersOf, hm]
      rw [synth_memberCount]
    · cases hent
  | merkle =>
    simp only [hfl] at hent
    simp only [swShape, mintWl, synth_kind, swKind_isMerkle]
    have hproof : (mintArgs a (some i) sender funds f sv).proof = proofArg a (liveIdx i) (claimOf sender f) f.proof sv.leafOk := rfl
    have halloc : (mintArgs a (some i) sender funds f sv).alloc = f.alloc := rfl
    split
    · rename_i hc
      simp only [Bool.and_eq_true, Bool.not_eq_true', decide_eq_false_iff_not] at hc
      obtain ⟨h1, h2⟩ := hc
      rw [hproof, proofArg_absent_iff] at h2
      have hpr : f.proof = true := by cases hp : f.proof <;> simp_all
      have hl : leaf = true := hleaf.mpr ⟨hfl, h1, hpr⟩
      rw [halloc]
      cases hal : f.alloc with
      | none => simp only [hal] at hent; cases hent; simp [hcfg]
      | some n => simp only [hal, hl, if_true] at hent; cases hent; simp
    · rename_i hc
      have hl : leaf = false := by
        cases hx : leaf with
        | false => rfl
        | true =>
          exfalso
          obtain ⟨_, h1, h2⟩ := hleaf.mp hx
          apply hc
          simp only [Bool.and_eq_true, Bool.not_eq_true', decide_eq_false_iff_not]
          refine ⟨h1, ?_⟩
          rw [hproof, proofArg_absent_iff]; simp [h2]
      cases hal : f.alloc with
      | none => simp only [hal] at hent; cases hent; simp [hcfg]
      | some n => simp only [hal, hl, Bool.false_eq_true, if_false] at hent; cases hent; simp [hcfg]

end LP.VF
