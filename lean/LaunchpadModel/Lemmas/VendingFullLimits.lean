import LaunchpadModel.Lemmas.VendingFull
import LaunchpadModel.Lemmas.Supply
/-!
# Composite ⟶ C03 aspect model (`LP.MintLimits`): projection, op translation, one-step simulation

The composite's whitelist gate (`VF.isPublicMint`, transcribed from the Rust independently) is shown to agree with the
aspect model's `MintLimits.gate` on the projected state and the `View` assembled from the composite's whitelist interface.
-/
namespace LP.VF
open LP

/-! ## supply frame facts needed by the projection (`numTokens = supply.n`) -/

theorem takeToken_n {sup sup' : Supply.Fixed} {pk : Pick} {o : Addr} (h : takeToken sup pk o = some sup') : sup'.n = sup.n := by
  cases pk with
  | «at» p =>
    obtain ⟨_, id, _, hd⟩ := Supply.Fixed.takeAt_spec h
    obtain ⟨c, _, rfl⟩ := Supply.Fixed.deliver_spec hd
    rfl
  | id i =>
    obtain ⟨_, _, _, _, _, hd⟩ := Supply.Fixed.takeId_spec h
    obtain ⟨c, _, rfl⟩ := Supply.Fixed.deliver_spec hd
    rfl

theorem shuffle_n {sup sup' : Supply.Fixed} {perm : List Nat} (h : sup.shuffle perm = some sup') : sup'.n = sup.n := by
  obtain ⟨_, _, rfl⟩ := Supply.Fixed.shuffle_spec h; rfl

theorem burnAll_n {sup sup' : Supply.Fixed} (h : sup.burnAll = some sup') : sup'.n = sup.n := by
  obtain ⟨_, rfl⟩ := Supply.Fixed.burnAll_spec h; rfl

/-! ## projection -/

theorem kind_flavor (v : Variant) : v.kind.flavor = v.flavor := by
  rcases v with ⟨fe, fl⟩; cases fe <;> cases fl <;> rfl

theorem kind_isOE (v : Variant) : v.kind.isOE = false := by
  rcases v with ⟨fe, fl⟩; cases fe <;> cases fl <;> rfl

theorem kind_ne_oeFlex (v : Variant) : v.kind ≠ .openEditionFlex := by
  rcases v with ⟨fe, fl⟩; cases fe <;> cases fl <;> simp [Variant.kind]

theorem usesDynRule_kind (v : Variant) : MintLimits.usesDynRule v.kind = !v.isFlex := by
  rcases v with ⟨fe, fl⟩; cases fe <;> cases fl <;> rfl

/-- the attached whitelist as the aspect model sees it: (address, kind) when a contract answers there -/
def wlBinding (s : State) (m : Minter) : Option (Nat × MintLimits.WlKind) :=
  match m.whitelist with
  | none => none
  | some a =>
    match s.wls a with
    | none => none
    | some i => some (a, i.kind)

/-- projection onto the C03 aspect state -/
def limitsOf (s : State) (m : Minter) : MintLimits.State :=
  { kind := m.v.kind, admin := m.admin, limit := m.perAddressLimit, numTokens := m.supply.n,
    maxPerAddr := s.params.maxPerAddressLimit, oeNoCap := false, wl := wlBinding s m,
    pub := m.pub, wlc := m.wlc, stg := m.stg, tot := m.tot, owned := m.received }

def viewOf (i : WlInfo) (sv : SenderView) : MintLimits.View :=
  { active := i.active, memberPlain := sv.memberPlain, leafOk := sv.leafOk, limit := i.limit,
    memberCount := sv.memberCount, merkleCfg := i.merkleCfg, stageId := i.stageId, stageLimit := i.stageLimit }

/-- the `View` witness of a mint, computed from the composite's whitelist interface -/
def mintView (s : State) (m : Minter) (sv : SenderView) : MintLimits.View :=
  match m.whitelist with
  | none => {}
  | some a =>
    match s.wls a with
    | none => {}
    | some i => viewOf i sv

/-- how the composite's booking decision reads in the aspect model -/
inductive GateRel (s : State) (m : Minter) : MintKind → MintLimits.Gate → Prop where
  | pub : GateRel s m .pub .pub
  | wl (sid cnt ent : Nat) (slim : Option Nat) (hlt : cnt < ent) :
      GateRel s m (.wl sid cnt) (.wl sid cnt ent (if sid = 0 then 0 else m.tot sid) (if sid = 0 then none else slim))

/-- **the two independently written whitelist gates agree**: whenever the composite's `is_public_mint` lets a mint
through, `MintLimits.gate` on the projected state and the assembled `View` returns the corresponding decision -/
theorem gate_bridge {s : State} {m : Minter} {sender : Addr} {f : MintLimits.Fields} {sv : SenderView} {g : MintKind}
    (h : isPublicMint s m sender f sv = .ok g) :
    ∃ g', MintLimits.gate (limitsOf s m) sender f (mintView s m sv) = .ok g' ∧ GateRel s m g g' := by
  unfold isPublicMint at h
  split at h
  · rename_i hw
    cases h
    exact ⟨.pub, by simp [MintLimits.gate, limitsOf, wlBinding, hw], .pub⟩
  · rename_i a hw
    peel h
    rename_i i hi
    obtain ⟨hwls, hcfg⟩ := wlConfig_ok hi
    have hbind : (limitsOf s m).wl = some (a, i.kind) := by simp [limitsOf, wlBinding, hw, hwls]
    have hview : mintView s m sv = viewOf i sv := by simp [mintView, hw, hwls]
    have hcfg' : MintLimits.configOk (limitsOf s m).kind.flavor i.kind = true := by
      simpa [limitsOf, kind_flavor] using hcfg
    split at h
    · rename_i hact
      cases h
      refine ⟨.pub, ?_, .pub⟩
      unfold MintLimits.gate
      rw [hbind]
      simp only [hcfg', hview]
      simp [viewOf, hact]
    · rename_i hact
      have hact' : i.active = true := by cases hx : i.active <;> simp_all
      obtain ⟨leaf, cnt, sid, ent, hmem, hcnt, hent, hlt, rfl, hstage⟩ := wlMintChecks_ok h
      -- membership
      have hmemb : MintLimits.membership (limitsOf s m).kind i.kind f (viewOf i sv) = some (true, leaf) := by
        unfold hasMember at hmem
        unfold MintLimits.membership
        simp only [limitsOf, kind_flavor, kind_isOE, viewOf]
        cases hfl : m.v.flavor <;> simp only [hfl] at hmem ⊢
        · simp at hmem
          split at hmem <;> simp_all
        · simp at hmem
          split at hmem <;> simp_all
        · by_cases hc : i.merkleCfg = true ∧ f.proof = true
          · have hc' : (i.merkleCfg && f.proof) = true := by simp [hc.1, hc.2]
            simp only [hc', if_true]
            simp [hc.1, hc.2] at hmem
            split at hmem <;> simp_all
          · have hc' : (i.merkleCfg && f.proof) = false := by
              cases h1 : i.merkleCfg <;> cases h2 : f.proof <;> simp_all
            simp only [hc', Bool.false_eq_true, if_false]
            have : ¬ (True ∧ i.merkleCfg = true ∧ f.proof = true) := fun hx => hc hx.2
            simp [hc] at hmem
            split at hmem <;> simp_all
      -- counter
      have hcount : MintLimits.wlCount (limitsOf s m) i.kind sender (viewOf i sv) = some (cnt, sid) := by
        unfold whitelistMintCount at hcnt
        unfold MintLimits.wlCount
        simp only [limitsOf, viewOf]
        split at hcnt
        · rename_i ht
          split at hcnt
          · rename_i hr
            cases hcnt
            simp [ht, hr]
          · cases hcnt
        · rename_i ht
          cases hcnt
          simp [ht]
      -- entitlement
      have hentl : MintLimits.entitlement (limitsOf s m).kind f (viewOf i sv) leaf = ent ∧
          ((limitsOf s m).kind.flavor = .flex → i.kind.answersMember = true) := by
        unfold wlEntitlement at hent
        unfold MintLimits.entitlement
        simp only [limitsOf, kind_flavor, kind_isOE, viewOf]
        cases hfl : m.v.flavor <;> simp only [hfl] at hent ⊢
        · cases hent; simp
        · split at hent
          · rename_i ha; cases hent; simp [ha]
          · cases hent
        · constructor
          · cases hal : f.alloc with
            | none => simp [hal] at hent ⊢; exact hent
            | some n =>
              simp only [hal] at hent ⊢
              split at hent <;> cases hent <;> simp_all
          · intro hx; cases hx
      obtain ⟨hentl, hflex⟩ := hentl
      refine ⟨_, ?_, GateRel.wl sid cnt ent i.stageLimit hlt⟩
      unfold MintLimits.gate
      rw [hbind]
      simp only [hcfg', hview]
      have hva : (viewOf i sv).active = true := hact'
      simp only [hva, hmemb, hcount, hentl]
      have hk : ¬ ((limitsOf s m).kind = .openEditionFlex ∧ (limitsOf s m).oeNoCap = true ∧ ¬ cnt < (limitsOf s m).limit) :=
        fun hx => kind_ne_oeFlex m.v hx.1
      have hfx : ¬ ((limitsOf s m).kind.flavor = .flex ∧ i.kind.answersMember = false) := by
        intro hx; have := hflex hx.1; rw [this] at hx; exact absurd hx.2 (by simp)
      have hnlt : ¬ ¬ cnt < ent := fun hx => hx hlt
      rw [if_neg hk, if_neg hfx, if_neg hnlt]
      by_cases hs0 : sid = 0
      · subst hs0
        simp
      · obtain ⟨hst, htot⟩ := hstage hs0
        have hst' : ¬ MintLimits.stageOk (limitsOf s m).kind.flavor i.kind = false := by
          simp [limitsOf, kind_flavor, hst]
        rw [if_neg hs0, if_neg hst']
        have hvs : (viewOf i sv).stageLimit = i.stageLimit := rfl
        have htt : (limitsOf s m).tot sid = m.tot sid := rfl
        cases hsl : i.stageLimit with
        | none => simp [hvs, hsl, htt, hs0]
        | some L =>
          have := htot L hsl
          simp [hvs, hsl, htt, hs0, this]

/-! ## op translation and one-step simulation -/

/-- the aspect model's transactional step on states (events dropped) -/
def limStep' (a : MintLimits.State) (op : MintLimits.Op) : MintLimits.State := (MintLimits.stepAcc (a, []) op).1

theorem limStep'_ok {a a' : MintLimits.State} {op : MintLimits.Op} {e : MintLimits.Event}
    (h : MintLimits.step a op = .ok (a', e)) : limStep' a op = a' := by
  simp [limStep', MintLimits.stepAcc, h]

theorem limStep'_err {a : MintLimits.State} {op : MintLimits.Op} {e : Err}
    (h : MintLimits.step a op = .error e) : limStep' a op = a := by
  simp [limStep', MintLimits.stepAcc, h]

def activeAt (s : State) (a : Option Addr) : Bool :=
  match a with
  | none => false
  | some x =>
    match s.wls x with
    | none => false
    | some i => i.active

def kindAt (s : State) (a : Addr) : MintLimits.WlKind :=
  match s.wls a with
  | none => .immutable
  | some i => i.kind

/-- composite op ↦ C03 aspect op; every environment witness of the aspect op (`View`, `started`, `pre`, `oldActive`,
`newActive`, the whitelist kind) is computed from the composite state -/
def limitsOp (s : State) (m : Minter) (op : Op) : MintLimits.Op :=
  match op with
  | .mint sender _ f sv _ => .mint sender f (mintView s m sv) (decide (m.startTime ≤ s.now)) (accepted s op)
  | .mintTo sender _ rcpt _ => .mintTo sender rcpt false (accepted s op)
  | .mintFor sender _ _ rcpt => .mintTo sender rcpt true (accepted s op)
  | .updatePerAddressLimit sender funds n => .setLimit sender n (!funds.isEmpty)
  | .setWhitelist sender funds wl _ =>
    .setWhitelist sender wl (kindAt s wl) (!funds.isEmpty) (decide (m.startTime ≤ s.now)) (activeAt s m.whitelist)
      (activeAt s (some wl)) (accepted s op)
  | .purge _ funds => .purge (!funds.isEmpty) (accepted s op)
  -- governance: the RESULTING value, so a refused `sudo UpdateParams` is a no-op
  | .sudoParams _ => .govern (step' s op).params.maxPerAddressLimit
  | _ => .env

/-- the one environment parameter the aspect model holds constant during a case: the (address, kind) binding of the attached
whitelist (governance moving `max_per_address_limit` is the aspect op `govern`) -/
def EnvStable (s : State) (op : Op) : Prop :=
  ∀ m, s.minter = some m → wlBinding (step' s op) m = wlBinding s m

theorem mint_pre_false (a : MintLimits.State) (x : Addr) (f : MintLimits.Fields) (v : MintLimits.View) (st : Bool) :
    ∃ e, MintLimits.step a (.mint x f v st false) = .error e := by
  simp only [MintLimits.step]
  split
  · exact ⟨_, rfl⟩
  · split
    · exact ⟨_, rfl⟩
    · split
      · exact ⟨_, rfl⟩
      · split
        · exact ⟨_, rfl⟩
        · simp
    · simp

theorem mintTo_pre_false (a : MintLimits.State) (x r : Addr) (forId : Bool) :
    ∃ e, MintLimits.step a (.mintTo x r forId false) = .error e := by
  simp only [MintLimits.step]
  split
  · exact ⟨_, rfl⟩
  · split
    · exact ⟨_, rfl⟩
    · simp

theorem setWhitelist_pre_false (a : MintLimits.State) (x : Addr) (id : Nat) (wk : MintLimits.WlKind)
    (fu st oa na : Bool) : ∃ e, MintLimits.step a (.setWhitelist x id wk fu st oa na false) = .error e := by
  simp only [MintLimits.step]
  repeat' split
  all_goals first | exact ⟨_, rfl⟩ | simp_all

theorem purge_pre_false (a : MintLimits.State) (fu : Bool) : ∃ e, MintLimits.step a (.purge fu false) = .error e := by
  simp only [MintLimits.step]
  split
  · exact ⟨_, rfl⟩
  · simp

/-- frame: a minter record that differs only in fields the projection does not read -/
theorem limitsOf_congr {s s' : State} {m m' : Minter}
    (hp : s'.params.maxPerAddressLimit = s.params.maxPerAddressLimit) (hw : wlBinding s' m' = wlBinding s m)
    (h1 : m'.v = m.v) (h2 : m'.admin = m.admin) (h3 : m'.perAddressLimit = m.perAddressLimit)
    (h4 : m'.supply.n = m.supply.n) (h5 : m'.pub = m.pub) (h6 : m'.wlc = m.wlc) (h7 : m'.stg = m.stg)
    (h8 : m'.tot = m.tot) (h9 : m'.received = m.received) : limitsOf s' m' = limitsOf s m := by
  simp [limitsOf, hp, hw, h1, h2, h3, h4, h5, h6, h7, h8, h9]

theorem wlBinding_congr {s s' : State} {m m' : Minter} (hw : s'.wls = s.wls) (hm : m'.whitelist = m.whitelist) :
    wlBinding s' m' = wlBinding s m := by
  simp [wlBinding, hw, hm]

/-- the state-only step of the aspect model on `.env` is the identity -/
theorem limStep'_env (a : MintLimits.State) : limStep' a .env = a := by
  simp [limStep', MintLimits.stepAcc, MintLimits.step]

theorem limStep'_govern (a : MintLimits.State) (mp : Nat) : limStep' a (.govern mp) = { a with maxPerAddr := mp } := by
  simp [limStep', MintLimits.stepAcc, MintLimits.step]

/-- a REJECTED composite message changes nothing in the aspect model either -/
theorem limits_sim_err {s : State} {m : Minter} {op : Op} {e : Err} (hm : s.minter = some m) (h : step s op = .error e) :
    limStep' (limitsOf s m) (limitsOp s m op) = limitsOf s m := by
  have hacc := accepted_of_err h
  cases op with
  | mint sender funds f sv picked =>
    obtain ⟨e', he'⟩ := mint_pre_false (limitsOf s m) sender f (mintView s m sv) (decide (m.startTime ≤ s.now))
    simp only [limitsOp, hacc]; exact limStep'_err he'
  | mintTo sender funds rcpt picked =>
    obtain ⟨e', he'⟩ := mintTo_pre_false (limitsOf s m) sender rcpt false
    simp only [limitsOp, hacc]; exact limStep'_err he'
  | mintFor sender funds id rcpt =>
    obtain ⟨e', he'⟩ := mintTo_pre_false (limitsOf s m) sender rcpt true
    simp only [limitsOp, hacc]; exact limStep'_err he'
  | setWhitelist sender funds wl valid =>
    obtain ⟨e', he'⟩ := setWhitelist_pre_false (limitsOf s m) sender wl (kindAt s wl) (!funds.isEmpty)
      (decide (m.startTime ≤ s.now)) (activeAt s m.whitelist) (activeAt s (some wl))
    simp only [limitsOp, hacc]; exact limStep'_err he'
  | purge sender funds =>
    obtain ⟨e', he'⟩ := purge_pre_false (limitsOf s m) (!funds.isEmpty)
    simp only [limitsOp, hacc]; exact limStep'_err he'
  | updatePerAddressLimit sender funds n =>
    -- deterministic in both models: the composite's rejection implies the aspect model's
    simp only [step, withMinter, hm] at h
    simp only [limitsOp]
    cases hs : MintLimits.step (limitsOf s m) (.setLimit sender n (!funds.isEmpty)) with
    | error e' => exact limStep'_err hs
    | ok r =>
      exfalso
      simp only [MintLimits.step] at hs
      split at hs
      · cases hs
      · rename_i hfu
        split at hs
        · cases hs
        · rename_i hse
          split at hs
          · cases hs
          · rename_i hn
            split at hs
            · cases hs
            · rename_i hdyn
              have hfu' : funds = [] := by
                cases funds with
                | nil => rfl
                | cons c cs => simp at hfu
              have hse' : sender = m.admin := by
                have : ¬ sender ≠ (limitsOf s m).admin := hse
                simpa [limitsOf] using this
              have hupd : ∃ m', updatePerAddressLimit s m sender funds n = .ok m' := by
                unfold updatePerAddressLimit adminOnly nonpayable
                subst hfu'
                simp only [List.isEmpty_nil, if_true]
                rw [if_neg (by simpa using hse')]
                simp only
                have hn' : ¬ (n = 0 ∨ n > s.params.maxPerAddressLimit) := by simpa [limitsOf] using hn
                rw [if_neg hn']
                have hd' : ¬ (m.v.isFlex = false ∧ MintLimits.dynOk n m.supply.n s.params.maxPerAddressLimit = false) := by
                  intro hx
                  apply hdyn
                  simp only [limitsOf, usesDynRule_kind, hx.1, hx.2]
                  simp
                rw [if_neg hd']
                exact ⟨_, rfl⟩
              obtain ⟨m', hm'⟩ := hupd
              rw [hm'] at h
              cases h
  | sudoParams u =>
    simp only [limitsOp, step'_err h, limStep'_govern]
    rfl
  | _ => simp only [limitsOp]; exact limStep'_env _

/-- an ACCEPTED composite message acts on the projection exactly as the translated aspect op
(`EnvStable`: governance does not move `max_per_address_limit`, the interface does not rebind the attached whitelist) -/
theorem limits_sim_ok {s s' : State} {m : Minter} {op : Op} (hm : s.minter = some m) (h : step s op = .ok s')
    (hst : EnvStable s op) :
    ∃ m', s'.minter = some m' ∧ ∃ e,
      MintLimits.step (limitsOf s m) (limitsOp s m op) = .ok (limStep' (limitsOf s m) (limitsOp s m op), e) ∧
      limitsOf s' m' = limStep' (limitsOf s m) (limitsOp s m op) := by
  have hacc := accepted_of_ok h
  have hs' := step'_ok h
  have hstw := hst m hm
  rw [hs'] at hstw
  cases op with
  | setTime t =>
    simp only [step] at h; split at h <;> cases h
    exact ⟨m, hm, .other, by simp only [limitsOp, limStep'_env, MintLimits.step], by simp only [limitsOp, limStep'_env]; rfl⟩
  | fund a c =>
    simp only [step] at h; cases h
    exact ⟨m, hm, .other, by simp only [limitsOp, limStep'_env, MintLimits.step], by simp only [limitsOp, limStep'_env]; rfl⟩
  | wlEnv k i =>
    have hmin : s'.minter = some m := by simp only [step] at h; cases h; exact hm
    have hstp : s'.params.maxPerAddressLimit = s.params.maxPerAddressLimit := by simp only [step] at h; cases h; rfl
    exact ⟨m, hmin, .other, by simp only [limitsOp, limStep'_env, MintLimits.step], by simp only [limitsOp, limStep'_env]; exact limitsOf_congr hstp hstw rfl rfl rfl rfl rfl rfl rfl rfl rfl⟩
  | create sender funds msg w =>
    simp only [step] at h
    obtain ⟨_, _, _, _, _, hnone, _⟩ := createMinter_ok h
    rw [hm] at hnone; cases hnone
  | instantiateDirect sender => simp [step] at h
  | sudoParams u =>
    have hmin : s'.minter = some m := by simp only [step] at h; split at h <;> cases h; exact hm
    refine ⟨m, hmin, .other, by simp only [limitsOp, hs', limStep'_govern, MintLimits.step], ?_⟩
    simp only [limitsOp, hs', limStep'_govern]
    simp only [limitsOf, hstw]
  | mint sender funds f sv picked =>
    simp only [step] at h
    obtain ⟨m0, hm0, h⟩ := withMinterS_ok h
    rw [hm] at hm0; cases hm0
    obtain ⟨b1, g, hfields, _, hgate, hpub, h⟩ := mintSender_ok h
    obtain ⟨price, ms, sup, b2, _, _, _, _, _, htake, _, rfl⟩ := executeMint_ok h
    obtain ⟨g', hg', hrel⟩ := gate_bridge hgate
    refine ⟨_, rfl, ?_⟩
    have hn := takeToken_n htake
    have hfl : ¬ ((limitsOf s m).kind.flavor ≠ .merkle ∧ f ≠ MintLimits.Fields.empty) := by
      simp only [limitsOf, kind_flavor]
      rcases hfields with h1 | h1
      · exact fun hx => hx.1 h1
      · exact fun hx => hx.2 h1
    cases hrel with
    | pub =>
      obtain ⟨hstart, hlim⟩ := hpub rfl
      have hstep : MintLimits.step (limitsOf s m) (limitsOp s m (.mint sender funds f sv picked)) =
          .ok ({ limitsOf s m with pub := MintLimits.upd m.pub sender (m.pub sender + 1),
                                   owned := MintLimits.upd m.received sender (m.received sender + 1) },
               .publicMint sender (m.pub sender) m.perAddressLimit) := by
        simp only [limitsOp, hacc, MintLimits.step]
        rw [if_neg hfl, hg']
        have h1 : ¬ (decide (m.startTime ≤ s.now) = false) := by simp [hstart]
        have h2 : ¬ ¬ (limitsOf s m).pub sender < (limitsOf s m).limit := fun hx => hx hlim
        simp only [h1, if_false, h2]
        simp [limitsOf]
      refine ⟨_, by rw [limStep'_ok hstep]; exact hstep, ?_⟩
      rw [limStep'_ok hstep]
      simp [limitsOf, bookCount, wlBinding, hn]
    | wl sid cnt ent slim hlt =>
      by_cases hs0 : sid = 0
      · subst hs0
        have hstep : MintLimits.step (limitsOf s m) (limitsOp s m (.mint sender funds f sv picked)) =
            .ok ({ limitsOf s m with wlc := MintLimits.upd m.wlc sender (cnt + 1),
                                     owned := MintLimits.upd m.received sender (m.received sender + 1) },
                 .wlMint sender 0 cnt ent 0 none) := by
          simp only [limitsOp, hacc, MintLimits.step]
          rw [if_neg hfl, hg']
          simp [limitsOf]
        refine ⟨_, by rw [limStep'_ok hstep]; exact hstep, ?_⟩
        rw [limStep'_ok hstep]
        simp [limitsOf, bookCount, wlBinding, hn]
      · have hstep : MintLimits.step (limitsOf s m) (limitsOp s m (.mint sender funds f sv picked)) =
            .ok ({ limitsOf s m with stg := MintLimits.upd2 m.stg sid sender (cnt + 1),
                                     tot := MintLimits.upd m.tot sid (m.tot sid + 1),
                                     owned := MintLimits.upd m.received sender (m.received sender + 1) },
                 .wlMint sender sid cnt ent (m.tot sid) slim) := by
          simp only [limitsOp, hacc, MintLimits.step]
          rw [if_neg hfl, hg']
          simp [limitsOf, hs0]
        refine ⟨_, by rw [limStep'_ok hstep]; exact hstep, ?_⟩
        rw [limStep'_ok hstep]
        simp [limitsOf, bookCount, wlBinding, hn, hs0]
  | mintTo sender funds rcpt picked =>
    simp only [step] at h
    obtain ⟨m0, hm0, h⟩ := withMinterS_ok h
    rw [hm] at hm0; cases hm0
    obtain ⟨b1, _, hadm, h⟩ := mintAdmin_ok h
    obtain ⟨price, ms, sup, b2, _, _, _, _, _, htake, _, rfl⟩ := executeMint_ok h
    refine ⟨_, rfl, ?_⟩
    have hn := takeToken_n htake
    have hstep : MintLimits.step (limitsOf s m) (limitsOp s m (.mintTo sender funds rcpt picked)) =
        .ok ({ limitsOf s m with pub := MintLimits.upd m.pub sender (m.pub sender + 1),
                                 owned := MintLimits.upd m.received rcpt (m.received rcpt + 1) },
             .airdrop sender rcpt) := by
      simp only [limitsOp, hacc, MintLimits.step]
      simp [limitsOf, hadm]
    refine ⟨_, by rw [limStep'_ok hstep]; exact hstep, ?_⟩
    rw [limStep'_ok hstep]
    simp [limitsOf, bookCount, wlBinding, hn]
  | mintFor sender funds id rcpt =>
    simp only [step] at h
    obtain ⟨m0, hm0, h⟩ := withMinterS_ok h
    rw [hm] at hm0; cases hm0
    obtain ⟨b1, _, hadm, h⟩ := mintAdmin_ok h
    obtain ⟨price, ms, sup, b2, _, _, _, _, _, htake, _, rfl⟩ := executeMint_ok h
    refine ⟨_, rfl, ?_⟩
    have hn := takeToken_n htake
    have hstep : MintLimits.step (limitsOf s m) (limitsOp s m (.mintFor sender funds id rcpt)) =
        .ok ({ limitsOf s m with pub := MintLimits.upd m.pub sender (m.pub sender + 1),
                                 owned := MintLimits.upd m.received rcpt (m.received rcpt + 1) },
             .airdrop sender rcpt) := by
      simp only [limitsOp, hacc, MintLimits.step]
      simp [limitsOf, hadm, kind_isOE]
    refine ⟨_, by rw [limStep'_ok hstep]; exact hstep, ?_⟩
    rw [limStep'_ok hstep]
    simp [limitsOf, bookCount, wlBinding, hn]
  | setWhitelist sender funds wl valid =>
    simp only [step] at h
    obtain ⟨m0, m', hm0, hf, rfl⟩ := withMinter_ok h
    rw [hm] at hm0; cases hm0
    obtain ⟨i, hfu, hse, hbefore, hold, _, hcfg, hinact, _, _, _, rfl⟩ := setWhitelist_ok hf
    obtain ⟨hwls, hcok⟩ := wlConfig_ok hcfg
    refine ⟨_, rfl, ?_⟩
    have hkind : kindAt s wl = i.kind := by simp [kindAt, hwls]
    have hnew : activeAt s (some wl) = false := by simp [activeAt, hwls, hinact]
    have holdA : activeAt s m.whitelist = false := by
      cases hw : m.whitelist with
      | none => simp [activeAt]
      | some a0 =>
        obtain ⟨i0, hi0, ha0⟩ := hold a0 hw
        obtain ⟨hw0, _⟩ := wlConfig_ok hi0
        simp [activeAt, hw0, ha0]
    have hstep : MintLimits.step (limitsOf s m) (limitsOp s m (.setWhitelist sender funds wl valid)) =
        .ok ({ limitsOf s m with wl := some (wl, i.kind) }, .other) := by
      simp only [limitsOp, hacc, MintLimits.step, hkind, hnew, holdA]
      subst hfu
      have hst : decide (m.startTime ≤ s.now) = false := by simp; omega
      simp [limitsOf, hse, hst, kind_flavor, hcok]
    refine ⟨_, by rw [limStep'_ok hstep]; exact hstep, ?_⟩
    rw [limStep'_ok hstep]
    simp [limitsOf, wlBinding, hwls]
  | purge sender funds =>
    simp only [step] at h
    obtain ⟨m0, m', hm0, hf, rfl⟩ := withMinter_ok h
    rw [hm] at hm0; cases hm0
    obtain ⟨hfu, _, rfl⟩ := purge_ok hf
    refine ⟨_, rfl, ?_⟩
    have hstep : MintLimits.step (limitsOf s m) (limitsOp s m (.purge sender funds)) =
        .ok ({ limitsOf s m with pub := MintLimits.zero,
                                 wlc := if (limitsOf s m).kind.flavor = .flex then MintLimits.zero else m.wlc }, .purge) := by
      simp only [limitsOp, hacc, MintLimits.step]
      subst hfu
      simp [limitsOf]
    refine ⟨_, by rw [limStep'_ok hstep]; exact hstep, ?_⟩
    rw [limStep'_ok hstep]
    simp only [limitsOf, kind_flavor, wlBinding, Variant.isFlex]
    by_cases hfl : m.v.flavor = .flex <;> simp [hfl]
  | updatePerAddressLimit sender funds n =>
    simp only [step] at h
    obtain ⟨m0, m', hm0, hf, rfl⟩ := withMinter_ok h
    rw [hm] at hm0; cases hm0
    obtain ⟨hfu, hse, hn0, hmax, hdyn, rfl⟩ := updatePerAddressLimit_ok hf
    refine ⟨_, rfl, ?_⟩
    have hstep : MintLimits.step (limitsOf s m) (limitsOp s m (.updatePerAddressLimit sender funds n)) =
        .ok ({ limitsOf s m with limit := n }, .other) := by
      simp only [limitsOp, MintLimits.step]
      subst hfu
      have h1 : ¬ (n = 0 ∨ n > (limitsOf s m).maxPerAddr) := by simp [limitsOf]; omega
      have h2 : ¬ (MintLimits.usesDynRule (limitsOf s m).kind = true ∧
          MintLimits.dynOk n (limitsOf s m).numTokens (limitsOf s m).maxPerAddr = false) := by
        simp only [limitsOf, usesDynRule_kind]
        intro hx
        cases hfx : m.v.isFlex with
        | true => simp [hfx] at hx
        | false => rw [hdyn hfx] at hx; exact absurd hx.2 (by simp)
      simp only [List.isEmpty_nil, Bool.not_true, Bool.false_eq_true, if_false]
      rw [if_neg (by simp [limitsOf, hse]), if_neg h1, if_neg h2]
    refine ⟨_, by rw [limStep'_ok hstep]; exact hstep, ?_⟩
    rw [limStep'_ok hstep]
    simp [limitsOf, wlBinding]
  | updateMintPrice sender funds p =>
    simp only [step] at h
    obtain ⟨m0, m', hm0, hf, rfl⟩ := withMinter_ok h
    rw [hm] at hm0; cases hm0
    obtain ⟨_, _, _, _, rfl⟩ := updateMintPrice_ok hf
    exact ⟨_, rfl, .other, by simp only [limitsOp, limStep'_env, MintLimits.step], by simp only [limitsOp, limStep'_env]; rfl⟩
  | updateStartTime sender funds t =>
    simp only [step] at h
    obtain ⟨m0, m', hm0, hf, rfl⟩ := withMinter_ok h
    rw [hm] at hm0; cases hm0
    obtain ⟨_, _, _, _, _, rfl⟩ := updateStartTime_ok hf
    exact ⟨_, rfl, .other, by simp only [limitsOp, limStep'_env, MintLimits.step], by simp only [limitsOp, limStep'_env]; rfl⟩
  | updateStartTradingTime sender funds t =>
    simp only [step] at h
    obtain ⟨m0, m', hm0, hf, rfl⟩ := withMinter_ok h
    rw [hm] at hm0; cases hm0
    obtain ⟨_, _, _, _, _, rfl⟩ := updateStartTradingTime_ok hf
    exact ⟨_, rfl, .other, by simp only [limitsOp, limStep'_env, MintLimits.step], by simp only [limitsOp, limStep'_env]; rfl⟩
  | shuffle sender funds perm =>
    simp only [step] at h
    obtain ⟨m0, hm0, h⟩ := withMinterS_ok h
    rw [hm] at hm0; cases hm0
    obtain ⟨b1, ms, sup, b2, _, _, hsh, _, rfl⟩ := shuffle_ok h
    refine ⟨_, rfl, .other, by simp only [limitsOp, limStep'_env, MintLimits.step], ?_⟩
    simp only [limitsOp, limStep'_env]
    exact limitsOf_congr rfl rfl rfl rfl rfl (shuffle_n hsh) rfl rfl rfl rfl rfl
  | burnRemaining sender funds =>
    simp only [step] at h
    obtain ⟨m0, m', hm0, hf, rfl⟩ := withMinter_ok h
    rw [hm] at hm0; cases hm0
    obtain ⟨sup, _, _, hb, rfl⟩ := burnRemaining_ok hf
    refine ⟨_, rfl, .other, by simp only [limitsOp, limStep'_env, MintLimits.step], ?_⟩
    simp only [limitsOp, limStep'_env]
    exact limitsOf_congr rfl rfl rfl rfl rfl (burnAll_n hb) rfl rfl rfl rfl rfl
  | updateDiscountPrice sender funds p =>
    simp only [step] at h
    obtain ⟨m0, m', hm0, hf, rfl⟩ := withMinter_ok h
    rw [hm] at hm0; cases hm0
    obtain ⟨_, _, _, _, _, _, rfl⟩ := updateDiscountPrice_ok hf
    exact ⟨_, rfl, .other, by simp only [limitsOp, limStep'_env, MintLimits.step], by simp only [limitsOp, limStep'_env]; rfl⟩
  | removeDiscountPrice sender funds =>
    simp only [step] at h
    obtain ⟨m0, m', hm0, hf, rfl⟩ := withMinter_ok h
    rw [hm] at hm0; cases hm0
    obtain ⟨_, _, _, rfl⟩ := removeDiscountPrice_ok hf
    exact ⟨_, rfl, .other, by simp only [limitsOp, limStep'_env, MintLimits.step], by simp only [limitsOp, limStep'_env]; rfl⟩
  | sudoStatus v b e =>
    simp only [step] at h
    obtain ⟨m0, m', hm0, hf, rfl⟩ := withMinter_ok h
    rw [hm] at hm0; cases hm0
    cases hf
    exact ⟨_, rfl, .other, by simp only [limitsOp, limStep'_env, MintLimits.step], by simp only [limitsOp, limStep'_env]; rfl⟩
  | collTransfer sender id to =>
    simp only [step] at h
    obtain ⟨m0, m', hm0, hf, rfl⟩ := withMinter_ok h
    rw [hm] at hm0; cases hm0
    obtain ⟨c, _, _, hc, rfl⟩ := collTransfer_ok hf
    exact ⟨_, rfl, .other, by simp only [limitsOp, limStep'_env, MintLimits.step], by simp only [limitsOp, limStep'_env]; rfl⟩
  | collBurn sender id =>
    simp only [step] at h
    obtain ⟨m0, m', hm0, hf, rfl⟩ := withMinter_ok h
    rw [hm] at hm0; cases hm0
    obtain ⟨c, _, hc, rfl⟩ := collBurn_ok hf
    exact ⟨_, rfl, .other, by simp only [limitsOp, limStep'_env, MintLimits.step], by simp only [limitsOp, limStep'_env]; rfl⟩
  | collTrading sender t =>
    simp only [step] at h
    obtain ⟨m0, c, hm0, _, rfl⟩ := onColl_ok h
    rw [hm] at hm0; cases hm0
    exact ⟨_, rfl, .other, by simp only [limitsOp, limStep'_env, MintLimits.step], by simp only [limitsOp, limStep'_env]; rfl⟩
  | collCreator sender new =>
    simp only [step] at h
    obtain ⟨m0, c, hm0, _, rfl⟩ := onColl_ok h
    rw [hm] at hm0; cases hm0
    exact ⟨_, rfl, .other, by simp only [limitsOp, limStep'_env, MintLimits.step], by simp only [limitsOp, limStep'_env]; rfl⟩
  | collFreeze sender =>
    simp only [step] at h
    obtain ⟨m0, c, hm0, _, rfl⟩ := onColl_ok h
    rw [hm] at hm0; cases hm0
    exact ⟨_, rfl, .other, by simp only [limitsOp, limStep'_env, MintLimits.step], by simp only [limitsOp, limStep'_env]; rfl⟩
  | collOwn sender a =>
    simp only [step] at h
    obtain ⟨m0, c, hm0, _, rfl⟩ := onColl_ok h
    rw [hm] at hm0; cases hm0
    exact ⟨_, rfl, .other, by simp only [limitsOp, limStep'_env, MintLimits.step], by simp only [limitsOp, limStep'_env]; rfl⟩

end LP.VF
