import LaunchpadModel.Lemmas.BaseFull
import LaunchpadModel.Props.C08
/-!
# Base composite ⟶ C08 aspect model (`LP.FC`, Model/FactoryCreate.lean, factory kind `base`): projection, translation, simulation

`FC` is a registry-level model: a world of factories / minters / collections / wasm contract entries with the chain's address
allocation (`1000 + next`), a bank (`Addr → Denom → Nat`) and a supply.  The composite has ONE factory and at most one minter.
`fcOf n s` projects a composite state onto an `FC.World` whose address counter stood at `n` when the (possible) minter was made;
`fcCreateMsg` translates the composite `CreateMinter` (all its fields are in the composite message; the sale parameters the base
factory does not have are left at their defaults).  The two transcriptions of `execute_create_minter` + minter `instantiate` +
sg721 `instantiate` + bank are compared: `create_sim` — for EVERY composite state without a minter and EVERY message,
`fcOf n (step' s create) = FC.step' (fcOf n s) (create …)` — under the environment conventions `FC` hard-codes
(`StdCodes`: base-minter is code 11, the sg721 contracts are codes 16..19 — the table of `lp_harness::minters::World::new`,
checked against the real world by `compbase.rs` in every case header) and with the witnessed addresses being the allocated ones.
-/
namespace LP.BF
open LP

/-! ## bank bridge: `MintPay.Bank` (balances, minted, burned) vs `FC` (balances, supply) -/

def bs (b : MintPay.Bank) : FC.Bank × FC.Supply := (b.bal, b.supply)

theorem debit_bridge (b : MintPay.Bank) (a : Addr) (c : Coin) (hc : c.amount ≠ 0) :
    FC.debit? b.bal a c = (b.debit a c.denom c.amount).map (·.bal) := by
  unfold FC.debit? MintPay.Bank.debit
  by_cases h : c.amount ≤ b.bal a c.denom
  · have h' : ¬ b.bal a c.denom < c.amount := by omega
    simp [hc, h, h']
  · have h' : b.bal a c.denom < c.amount := by omega
    simp [hc, h, h']

theorem debit_supply {b b' : MintPay.Bank} {a : Addr} {d : Denom} {n : Nat} (h : b.debit a d n = some b') :
    b'.minted = b.minted ∧ b'.burned = b.burned := by
  unfold MintPay.Bank.debit at h
  split at h
  · cases h; exact ⟨rfl, rfl⟩
  · cases h

theorem send_bridge (b : MintPay.Bank) (src dst : Addr) (c : Coin) :
    (FC.transfer? b.bal src dst c).map (fun x => (x, b.supply)) = (b.send src dst c).map bs := by
  unfold FC.transfer? MintPay.Bank.send
  by_cases hc : c.amount = 0
  · simp [hc, FC.debit?]
  · rw [debit_bridge b src c hc]
    simp only [hc, if_false]
    cases hd : b.debit src c.denom c.amount with
    | none => simp
    | some b' =>
      obtain ⟨h1, h2⟩ := debit_supply hd
      simp only [Option.map_some, bs, MintPay.Bank.credit, h1, h2]
      rfl

theorem execMsg_bridge (self : Addr) (b : MintPay.Bank) (m : Msg) :
    FC.execMsg self (bs b) m = (MintPay.applyMsg self b m).map bs := by
  cases m with
  | send to c =>
    have := send_bridge b self to c
    simp only [FC.execMsg, MintPay.applyMsg, bs] at this ⊢
    rw [← this]
  | fundPool x c =>
    have := send_bridge b self FAIRBURN_POOL c
    simp only [FC.execMsg, MintPay.applyMsg, bs] at this ⊢
    rw [← this]
  | burn c =>
    simp only [FC.execMsg, MintPay.applyMsg, bs, MintPay.Bank.burn]
    by_cases hc : c.amount = 0
    · simp [hc, FC.debit?]
    · rw [debit_bridge b self c hc]
      simp only [hc, if_false]
      cases hd : b.debit self c.denom c.amount with
      | none => simp
      | some b' =>
        obtain ⟨h1, h2⟩ := debit_supply hd
        simp only [Option.map_some, Option.some.injEq]
        unfold bs
        refine Prod.ext rfl ?_
        funext d
        simp only [MintPay.Bank.supply, h1, h2]
        by_cases hdd : d = c.denom
        · simp [hdd]; omega
        · simp [hdd]

theorem execMsgs_bridge (self : Addr) (ms : List Msg) : ∀ (b : MintPay.Bank),
    FC.execMsgs self (bs b) ms = (MintPay.applyMsgs self b ms).map bs := by
  induction ms with
  | nil => intro b; rfl
  | cons m ms ih =>
    intro b
    simp only [FC.execMsgs, MintPay.applyMsgs]
    rw [execMsg_bridge]
    cases hm : MintPay.applyMsg self b m with
    | none => rfl
    | some b' => simp only [Option.map_some, Option.bind_some]; exact ih b'

theorem sendFunds_one (b : MintPay.Bank) (src dst : Addr) (c : Coin) :
    b.sendFunds src dst [c] = b.send src dst c := by
  by_cases hc : c.amount = 0
  · have hne : (c.amount != 0) = false := by simp [hc]
    simp [MintPay.Bank.sendFunds, List.filter, MintPay.Bank.send, hc]
  · have hne : (c.amount != 0) = true := by simp [hc]
    simp only [MintPay.Bank.sendFunds, List.filter, hne, List.isEmpty_cons, Bool.false_eq_true, if_false,
      MintPay.Bank.sendAll]
    cases b.send src dst c <;> rfl

/-! ## projection and translation -/

/-- the environment conventions hard-coded in `FC` (`MKind.ofCode`, `isSg721Code`) -/
def StdCodes (c : VF.Codes) : Prop := c.minters = [11] ∧ c.colls = [16, 17, 18, 19]

def fcParams (p : Params) : FC.Params :=
  { kind := .base, codeId := p.codeId, allowed := p.allowed, frozen := p.frozen, fee := p.creationFee,
    minPrice := p.minMintPrice, offset := p.maxTradingOffsetSecs, maxTokens := 0, maxPerAddr := 0, airdropPrice := ⟨0, 0⟩ }

def fcMinter (m : Minter) : FC.Minter :=
  { addr := m.addr, kind := .base, factory := m.factory, admin := none, sg721 := m.sg721, sg721Code := m.collectionCodeId,
    numTokens := none, perAddr := none, start := none, endTime := none, price := some m.mintPrice, wl := none, payAddr := none }

def fcCollection (m : Minter) : FC.Collection :=
  { addr := m.sg721, owner := m.tt.owner.getD 0, creator := m.tt.creator, trade := m.tt.trading, royalty := m.royalty }

def fcFactoryEntry (s : State) : FC.ContractInfo := ⟨s.factoryAddr, FC.factoryCode .base, FC.GOV, s.factoryAdmin⟩

/-- `n` = the chain's address counter before the (possible) minter was created -/
def fcOf (n : Nat) (s : State) : FC.World :=
  match s.minter with
  | none =>
    { now := s.now, next := n, bal := s.bank.bal, supply := s.bank.supply, contracts := [fcFactoryEntry s],
      factories := [⟨s.factoryAddr, fcParams s.params⟩], whitelists := [], minters := [], collections := [] }
  | some m =>
    { now := s.now, next := n + 2, bal := s.bank.bal, supply := s.bank.supply,
      contracts := [fcFactoryEntry s, ⟨m.addr, m.codeId, m.factory, some m.wasmAdmin⟩,
                    ⟨m.sg721, m.collectionCodeId, m.addr, some m.collAdmin⟩],
      factories := [⟨s.factoryAddr, fcParams s.params⟩], whitelists := [], minters := [fcMinter m],
      collections := [fcCollection m] }

def fcCreateMsg (sender : Addr) (funds : List Coin) (msg : CreateMsg) : FC.CreateMsg :=
  { sender := sender, funds := funds, sg721Code := msg.collCode, creator := msg.creator, numTokens := none, perAddr := 0,
    start := 0, endTime := none, price := ⟨0, 0⟩, payAddr := none, wl := .none, trade := msg.trading, royalty := msg.royalty,
    descLen := msg.descLen, imageOk := msg.imageOk, linkOk := msg.linkOk, uriOk := true, nftOk := true }

def fcUpdate (u : ParamsUpdate) : FC.Update :=
  { code := u.codeId, add := u.addCodes, rm := u.rmCodes, frozen := u.frozen, fee := u.creationFee, minPrice := u.minMintPrice,
    offset := u.maxTradingOffsetSecs }

/-! ## the pieces agree -/

theorem fc_factory (n : Nat) (s : State) : (fcOf n s).factory? s.factoryAddr = some ⟨s.factoryAddr, fcParams s.params⟩ := by
  unfold fcOf FC.World.factory?
  cases s.minter <;> simp

theorem fc_now (n : Nat) (s : State) : (fcOf n s).now = s.now := by unfold fcOf; cases s.minter <;> rfl
theorem fc_bal (n : Nat) (s : State) : (fcOf n s).bal = s.bank.bal := by unfold fcOf; cases s.minter <;> rfl
theorem fc_supply (n : Nat) (s : State) : (fcOf n s).supply = s.bank.supply := by unfold fcOf; cases s.minter <;> rfl

theorem feeMsgs_eq (s : State) (sender : Addr) (funds : List Coin) (msg : CreateMsg) :
    FC.feeMsgs s.factoryAddr (fcParams s.params) (fcCreateMsg sender funds msg).funds = creationFeeMsgs s funds := rfl

/-- the bank part of a create, in both descriptions -/
theorem bankStep_bridge (s : State) (sender : Addr) (funds : List Coin) (msg : CreateMsg) (c : Coin) (ms : List Msg)
    (hf : funds = [c]) (hms : creationFeeMsgs s funds = .ok ms) :
    FC.bankStep s.bank.bal s.bank.supply s.factoryAddr (fcParams s.params) (fcCreateMsg sender funds msg) =
      ((s.bank.sendFunds sender s.factoryAddr funds).bind fun b1 => MintPay.applyMsgs s.factoryAddr b1 ms).map bs := by
  unfold FC.bankStep
  rw [feeMsgs_eq, hms]
  subst hf
  simp only [fcCreateMsg]
  rw [sendFunds_one]
  have h := send_bridge s.bank sender s.factoryAddr c
  cases hs : s.bank.send sender s.factoryAddr c with
  | none =>
    rw [hs] at h
    cases ht : FC.transfer? s.bank.bal sender s.factoryAddr c with
    | none => rfl
    | some x => rw [ht] at h; cases h
  | some b1 =>
    rw [hs] at h
    cases ht : FC.transfer? s.bank.bal sender s.factoryAddr c with
    | none => rw [ht] at h; cases h
    | some x =>
      rw [ht] at h
      simp only [Option.map_some, Option.some.injEq] at h
      simp only [Option.bind_some]
      have hx : x = b1.bal := congrArg Prod.fst h
      have hsup : s.bank.supply = b1.supply := congrArg Prod.snd h
      rw [hsup, hx]
      exact execMsgs_bridge s.factoryAddr ms b1

theorem ofCode_base_iff (code : Nat) :
    (∃ mk, FC.MKind.ofCode code = some mk ∧ FC.compat .base mk = true) ↔ code = 11 := by
  constructor
  · rintro ⟨mk, h1, h2⟩
    have hb : mk = .base := by
      cases mk <;> simp [FC.compat, FC.MKind.family] at h2 <;> rfl
    subst hb
    unfold FC.MKind.ofCode at h1
    split at h1 <;> first | rfl | cases h1
  · rintro rfl
    exact ⟨.base, rfl, by decide⟩

theorem collKind_std (c : VF.Codes) (hc : c.colls = [16, 17, 18, 19]) (code : Nat) :
    (variantOf c code).isSome = FC.isSg721Code code := by
  unfold FC.isSg721Code
  exact variantOf_std c hc code

theorem collectionChecks_eq (msg : CreateMsg) (sender : Addr) (funds : List Coin) :
    FC.collectionOk (fcCreateMsg sender funds msg) =
      (FC.isSg721Code msg.collCode && collectionChecks msg && msg.creator.isSome) := by
  unfold FC.collectionOk collectionChecks FC.royaltyOk royaltyOk fcCreateMsg
  cases hr : msg.royalty with
  | none => simp [Bool.and_assoc]
  | some sp => obtain ⟨sh, pay⟩ := sp; simp [Bool.and_assoc]

theorem tradeStored_eq (s : State) (sender : Addr) (funds : List Coin) (msg : CreateMsg) :
    FC.tradeStored .base (fcParams s.params) s.now (fcCreateMsg sender funds msg) = createTrading s msg := by
  unfold FC.tradeStored createTrading fcCreateMsg TT.plusSeconds TT.NANOS
  cases msg.trading with
  | some t => rfl
  | none =>
    simp only [fcParams, FC.MKind.family, if_true]

theorem royaltyStored_eq (msg : CreateMsg) (sender : Addr) (funds : List Coin) :
    FC.royaltyStored (fcCreateMsg sender funds msg) = royaltyStored msg.royalty := by
  unfold FC.royaltyStored royaltyStored fcCreateMsg
  cases msg.royalty with
  | none => rfl
  | some sp => obtain ⟨sh, pay⟩ := sp; cases pay <;> rfl

end LP.BF
