import LaunchpadModel.Lemmas.TokenMergeSystemLedger
/-!
# Token-merge SYSTEM composite: the target collection gains a token only through a completing deposit or an admin mint
-/
namespace LP.SysTM
open LP

/-- the flag `hookMinter` returns is `completes` -/
theorem hookMinter_mints {now : Nat} {m m' : TMF.Minter} {caller sender : Addr} {recipient : Option Addr} {picked : Nat} {b : Bool}
    (h : hookMinter now m caller sender recipient picked = .ok (m', b)) : b = completes m caller (recipient.getD sender) := by
  unfold hookMinter at h
  split at h
  · cases h
  · split at h
    · cases h
    · split at h
      · cases h
      · split at h
        · cases h
        · split at h
          · rename_i hcmp
            split at h
            · cases h
            · cases h; exact hcmp.symm
          · rename_i hcmp
            cases h
            simp only [Bool.not_eq_true] at hcmp
            exact hcmp.symm

/-- an accepted hook call that makes a new id exist in the target collection completed the recipient's requirement -/
theorem hook_new {s s' : State} {caller sender : Addr} {id : Nat} {recipient : Option Addr} {picked : Nat}
    (h : hook s caller sender id recipient picked = .ok s') {m m' : Minter} {tc tc' : CF.Coll} (hmc : s.mc = some (m, tc))
    (hmc' : s'.mc = some (m', tc')) (hnew : ∃ x ∈ tc'.core.ids, x ∉ tc.core.ids) :
    completes (vmOf m tc) caller (recipient.getD sender) = true := by
  obtain ⟨m0, tc0, vm', mints, msg, bank1, tc1, c, bank2, c', hmc0, hhm, hmsg, hrs, _, _, rfl⟩ := hook_ok h
  rw [hmc] at hmc0
  simp only [Option.some.injEq, Prod.mk.injEq] at hmc0
  obtain ⟨rfl, rfl⟩ := hmc0
  simp only [Option.some.injEq, Prod.mk.injEq] at hmc'
  obtain ⟨_, rfl⟩ := hmc'
  have hb := hookMinter_mints hhm
  cases hm : mints with
  | true => rw [hm] at hb; exact hb.symm
  | false =>
    rw [hm] at hmsg
    simp only [Bool.false_eq_true, if_false, subMsg] at hmsg
    cases hmsg
    obtain ⟨_, rfl⟩ := runSub_none hrs
    obtain ⟨x, hx, hnx⟩ := hnew
    exact absurd hx hnx

/-- a message from outside (not signed with the minter's address) creates no id in the target collection -/
theorem collExec_keeps {s s' : State} {coll sender : Addr} {funds : List Coin} {msg : CF.ExecMsg}
    (hi : TInv s) (hni : NoImp s (.collExec coll sender funds msg)) (h : collExec s coll sender funds msg = .ok s')
    {m m' : Minter} {tc tc' : CF.Coll} (hmc : s.mc = some (m, tc)) (hmc' : s'.mc = some (m', tc')) :
    ∀ x ∈ tc'.core.ids, x ∈ tc.core.ids := by
  unfold collExec at h
  split at h
  · cases h
  · split at h
    · rename_i mn tc0 hmc0
      rw [hmc] at hmc0
      simp only [Option.some.injEq, Prod.mk.injEq] at hmc0
      obtain ⟨rfl, rfl⟩ := hmc0
      split at h
      · rename_i hcoll
        split at h
        · cases h
        · rename_i bank tc1 hx
          cases h
          simp only [Option.some.injEq, Prod.mk.injEq] at hmc'
          obtain ⟨_, rfl⟩ := hmc'
          have hg := hi _ _ hmc
          have hne : sender ≠ m.addr := hni _ _ hmc hcoll
          obtain ⟨core', hex, rfl⟩ := execOn_ok hx
          obtain ⟨_, e⟩ := Sg721.exec_eff hex
          exact (eff_foreign e hg.1 hne).2
      · split at h
        · cases h
        · split at h
          · cases h
          · cases h
            have : some (m, tc) = some (m', tc') := by rw [← hmc, ← hmc']
            simp only [Option.some.injEq, Prod.mk.injEq] at this
            obtain ⟨_, rfl⟩ := this
            exact fun _ hx => hx
    · rename_i hnone
      rw [hmc] at hnone
      cases hnone

/-- a minter-side op whose sub-message is no `Mint` creates no id in the target collection -/
theorem tmStep_keeps {s s' : State} {op : TMF.Op} (hf : foreignOp op = false) (hn : ∀ rcpt pk, subOf op ≠ .mint rcpt pk)
    (h : tmStep s op = .ok s') {m m' : Minter} {tc tc' : CF.Coll} (hmc : s.mc = some (m, tc)) (hmc' : s'.mc = some (m', tc')) :
    tc'.core.ids = tc.core.ids := by
  unfold tmStep at h
  split at h
  · cases h
  · rename_i r hr
    split at h
    · rename_i hnone
      rw [hmc] at hnone; cases hnone
    · rename_i m0 c0 hmc0
      rw [hmc] at hmc0
      simp only [Option.some.injEq, Prod.mk.injEq] at hmc0
      obtain ⟨rfl, rfl⟩ := hmc0
      split at h
      · cases h
      · rename_i msg hmsg
        split at h
        · cases h
        · rename_i bank c' hrs
          cases h
          have htm : (tmfOf s).minter = some (vmOf m tc) := by simp [tmfOf, hmc]
          obtain ⟨vm', hvm', _, _⟩ := tmf_minter_step hf hr htm
          simp only [setTm, hvm', Option.some.injEq, Prod.mk.injEq] at hmc'
          obtain ⟨_, rfl⟩ := hmc'
          exact (sub_nonmint_frame hn hmsg hrs).2

/-- the sender of an accepted admin mint is the minter's admin -/
theorem tmStep_mint_admin {s s' : State} {op : TMF.Op} (h : tmStep s op = .ok s') {m : Minter} {tc : CF.Coll}
    (hmc : s.mc = some (m, tc)) {rcpt : Addr} {pk : VF.Pick} (hsub : subOf op = .mint rcpt pk) :
    (∃ funds picked, op = .mintTo m.admin funds rcpt picked) ∨ (∃ funds id, op = .mintFor m.admin funds id rcpt) := by
  unfold tmStep at h
  split at h
  · cases h
  · rename_i r hr
    have htm : (tmfOf s).minter = some (vmOf m tc) := by simp [tmfOf, hmc]
    cases op <;> simp only [subOf, reduceCtorEq] at hsub
    case mintTo sender funds rc picked =>
      simp only [TMF.step] at hr
      obtain ⟨m1, hm1, hx⟩ := TMF.withMinterS_ok hr
      rw [htm] at hm1; cases hm1
      obtain ⟨_, _, _, _, _, hadm, _⟩ := TMF.mintAdmin_ok hx
      simp only [Sys2.Sub.mint.injEq] at hsub
      obtain ⟨rfl, _⟩ := hsub
      exact .inl ⟨funds, picked, by rw [hadm]; rfl⟩
    case mintFor sender funds id rc =>
      simp only [TMF.step] at hr
      obtain ⟨m1, hm1, hx⟩ := TMF.withMinterS_ok hr
      rw [htm] at hm1; cases hm1
      obtain ⟨_, _, _, _, _, hadm, _⟩ := TMF.mintAdmin_ok hx
      simp only [Sys2.Sub.mint.injEq] at hsub
      obtain ⟨rfl, _⟩ := hsub
      exact .inr ⟨funds, id, by rw [hadm]; rfl⟩

end LP.SysTM
