import LaunchpadModel.Lemmas.VendingFullWindow4
/-!
# Composite ⟶ C04 aspect model (`LP.SaleWindow`), part 5: the forward simulation for every message
-/
namespace LP.VF
open LP
open LP.SaleWindow (Wl Stage Leaf ProofArg WlConfig)

theorem keepDiscount_denom {d : Option Coin} {p : Nat} {c : Coin} (h : keepDiscount d p = some c) : d = some c := by
  unfold keepDiscount at h
  cases d with
  | none => cases h
  | some x => simp only at h; split at h <;> simp_all

/-- an ACCEPTED composite message, as accepted aspect ops on the projection (any whitelist pool `W` before, some pool after) -/
theorem sw_sim_ok {s s' : State} {m : Minter} {op : Op} (hm : s.minter = some m) (h : step s op = .ok s')
    (hdd : DiscDenom m) (henv : SwEnv s) (hps : swParams s'.params = swParams s.params) (W : Nat → Option Wl) :
    ∃ m' W', s'.minter = some m' ∧ DiscDenom m' ∧ SaleWindow.run (swOf s m W) (swOps s m op) = swOf s' m' W' := by
  have hacc := accepted_of_ok h
  have hs' := step'_ok h
  cases op with
  | setTime t =>
    simp only [step] at h
    split at h
    · cases h
    · rename_i hlt
      cases h
      refine ⟨m, W, hm, hdd, ?_⟩
      simp only [swOps, hacc, if_true, sw_run_cons, sw_run_nil]
      apply sw_step'_ok
      simp [SaleWindow.step, swOf, hlt]
  | fund a c =>
    simp only [step] at h; cases h
    exact ⟨m, W, hm, hdd, by simp [swOps, hacc, sw_run_nil]; rfl⟩
  | wlEnv k i =>
    simp only [step] at h; cases h
    exact ⟨m, W, hm, hdd, by simp [swOps, hacc, sw_run_nil]; rfl⟩
  | sudoParams u =>
    simp only [step] at h
    split at h
    · cases h
    · rename_i p hp
      cases h
      refine ⟨m, W, hm, hdd, ?_⟩
      simp only [swOps, hacc, if_true, sw_run_nil]
      simp only [swOf] at hps ⊢
      rw [hps]
  | create sender funds msg w =>
    simp only [step] at h
    obtain ⟨_, _, _, _, _, hnone, _⟩ := createMinter_ok h
    rw [hm] at hnone; cases hnone
  | instantiateDirect sender => simp [step] at h
  | mint sender funds f sv picked =>
    simp only [step] at h
    obtain ⟨m0, hm0, h⟩ := withMinterS_ok h
    rw [hm] at hm0; cases hm0
    obtain ⟨m', W', hm', hd1, hd2, hrun⟩ := sw_mint_ok h henv.infos W
    exact ⟨m', W', hm', discDenom_of_eq hdd hd1 hd2, by simp only [swOps, hacc, if_true]; exact hrun⟩
  | mintTo sender funds rcpt picked =>
    simp only [step] at h
    obtain ⟨m0, hm0, h⟩ := withMinterS_ok h
    rw [hm] at hm0; cases hm0
    obtain ⟨m', hm', hd1, hd2, hrun⟩ := sw_mintAdmin_ok h henv.params W
    exact ⟨m', W, hm', discDenom_of_eq hdd hd1 hd2, by simp only [swOps, hacc, if_true]; exact hrun⟩
  | mintFor sender funds id rcpt =>
    simp only [step] at h
    obtain ⟨m0, hm0, h⟩ := withMinterS_ok h
    rw [hm] at hm0; cases hm0
    obtain ⟨m', hm', hd1, hd2, hrun⟩ := sw_mintAdmin_ok h henv.params W
    exact ⟨m', W, hm', discDenom_of_eq hdd hd1 hd2, by simp only [swOps, hacc, if_true]; exact hrun⟩
  | setWhitelist sender funds wl valid =>
    simp only [step] at h
    obtain ⟨m0, m', hm0, hf, rfl⟩ := withMinter_ok h
    rw [hm] at hm0; cases hm0
    obtain ⟨i, _, hadm, hbefore, hold, _, hcfg, hinact, hden, hamt, hfd, rfl⟩ := setWhitelist_ok hf
    obtain ⟨hwls, hcok⟩ := wlConfig_ok hcfg
    obtain ⟨W1, hrun1, hW1⟩ := sw_refreshAttached s m W [] []
    refine ⟨_, setW W1 wl (synthWl (s.wls wl) s.now [] []), rfl, discDenom_of_eq hdd rfl rfl, ?_⟩
    simp only [swOps, hacc, if_true]
    rw [sw_run_append, hrun1, sw_run_cons, refreshOp, sw_wlEnv, sw_run_cons, sw_run_nil]
    apply sw_step'_ok
    have hnew : setW W1 wl (synthWl (s.wls wl) s.now [] []) wl = some (synthWl (some i) s.now [] []) := by
      simp [setW, hwls]
    have hintro := sw_setWhitelist_intro (s := swOf s m (setW W1 wl (synthWl (s.wls wl) s.now [] [])))
      (m := swMinter m) (sender := sender) (k := wl) (w := synthWl (some i) s.now [] [])
      rfl (by simp [swMinter, hadm]) hbefore
      (by
        intro k0 hk0
        have hk0' : m.whitelist = some k0 := hk0
        obtain ⟨i0, hi0, ha0⟩ := hold k0 hk0'
        obtain ⟨hw0, hc0⟩ := wlConfig_ok hi0
        refine ⟨synthWl (some i0) s.now [] [], ?_, ?_, ?_⟩
        · show setW W1 wl (synthWl (s.wls wl) s.now [] []) k0 = _
          by_cases hk : k0 = wl
          · subst hk; rw [hnew]; rw [hw0] at hwls; cases hwls; rfl
          · simp only [setW, hk, if_false]; rw [hW1 k0 hk0', hw0]
        · simp only [swOf, swVariant, synth_kind, configParses_eq]; exact hc0
        · simp only [swOf, synth_config]; exact ha0)
      hnew
      (by simp only [swOf, swVariant, synth_kind, configParses_eq]; exact hcok)
      (by simp only [swOf, synth_config]; exact hinact)
      (by
        simp only [swOf, synth_config]
        cases hfx : m.v.isFlex with
        | true =>
          left
          simp only [Variant.isFlex, decide_eq_true_eq] at hfx
          simp [swVariant, hfx, swShape]
        | false =>
          right
          show i.price.denom = (effPrice m).denom
          rw [effPrice_denom hdd]; exact hden hfx)
      (by simp only [swOf, synth_config]; exact hamt)
      (by simp only [swOf, synth_config]; exact hfd)
    simp only [SaleWindow.step, SaleWindow.withMinter]
    show (match (swOf s m (setW W1 wl (synthWl (s.wls wl) s.now [] []))).minter with
      | none => Except.error Err.notFound
      | some m0 => (SaleWindow.setWhitelist (swOf s m (setW W1 wl (synthWl (s.wls wl) s.now [] []))) m0 sender wl).map
          fun m' => { swOf s m (setW W1 wl (synthWl (s.wls wl) s.now [] [])) with minter := some m' }) = _
    simp only [swOf] at hintro ⊢
    rw [hintro]
    rfl
  | updateStartTime sender funds t =>
    simp only [step] at h
    obtain ⟨m0, m', hm0, hf, rfl⟩ := withMinter_ok h
    rw [hm] at hm0; cases hm0
    obtain ⟨_, hadm, hbefore, hnow, hgen, rfl⟩ := updateStartTime_ok hf
    refine ⟨_, W, rfl, discDenom_of_eq hdd rfl rfl, ?_⟩
    simp only [swOps, hacc, if_true, sw_run_cons, sw_run_nil]
    apply sw_step'_ok
    have hintro := sw_updateStart_intro (s := swOf s m W) (m := swMinter m) (sender := sender) (t := t)
      rfl (by simp [swMinter, hadm]) hbefore hnow (by rw [GENESIS_sw]; exact hgen)
    simp only [SaleWindow.step, SaleWindow.withMinter]
    show (match (swOf s m W).minter with
      | none => Except.error Err.notFound
      | some m0 => (SaleWindow.updateStart (swOf s m W) m0 sender t).map
          fun m' => { swOf s m W with minter := some m' }) = _
    simp only [swOf] at hintro ⊢
    rw [hintro]
    rfl
  | purge sender funds =>
    simp only [step] at h
    obtain ⟨m0, m', hm0, hf, rfl⟩ := withMinter_ok h
    rw [hm] at hm0; cases hm0
    obtain ⟨_, _, rfl⟩ := purge_ok hf
    refine ⟨_, W, rfl, discDenom_of_eq hdd rfl rfl, ?_⟩
    simp only [swOps, hacc, if_true, hs', envOp, sw_run_cons, sw_run_nil]
    exact sw_env_step _ _ m _ W true m.v.isFlex rfl rfl rfl rfl rfl rfl rfl rfl rfl rfl
      (by cases m.v.isFlex <;> rfl)
  | updateMintPrice sender funds p =>
    simp only [step] at h
    obtain ⟨m0, m', hm0, hf, rfl⟩ := withMinter_ok h
    rw [hm] at hm0; cases hm0
    obtain ⟨_, _, _, _, rfl⟩ := updateMintPrice_ok hf
    have hdd' : DiscDenom { m with mintPrice := ⟨m.mintPrice.denom, p⟩, discountPrice := keepDiscount m.discountPrice p } := by
      intro d hd
      exact hdd d (keepDiscount_denom hd)
    refine ⟨_, W, rfl, hdd', ?_⟩
    simp only [swOps, hacc, if_true, hs', envOp, sw_run_cons, sw_run_nil]
    exact sw_env_step _ _ m _ W false false rfl rfl rfl rfl rfl rfl rfl rfl
      (by rw [effPrice_denom hdd', effPrice_denom hdd]) rfl rfl
  | updateDiscountPrice sender funds p =>
    simp only [step] at h
    obtain ⟨m0, m', hm0, hf, rfl⟩ := withMinter_ok h
    rw [hm] at hm0; cases hm0
    obtain ⟨_, _, _, _, _, _, rfl⟩ := updateDiscountPrice_ok hf
    have hdd' : DiscDenom { m with discountPrice := some ⟨m.mintPrice.denom, p⟩, lastDiscount := s.now } := by
      intro d hd
      simp only [Option.some.injEq] at hd
      rw [← hd]
    refine ⟨_, W, rfl, hdd', ?_⟩
    simp only [swOps, hacc, if_true, hs', envOp, sw_run_cons, sw_run_nil]
    exact sw_env_step _ _ m _ W false false rfl rfl rfl rfl rfl rfl rfl rfl
      (by rw [effPrice_denom hdd', effPrice_denom hdd]) rfl rfl
  | removeDiscountPrice sender funds =>
    simp only [step] at h
    obtain ⟨m0, m', hm0, hf, rfl⟩ := withMinter_ok h
    rw [hm] at hm0; cases hm0
    obtain ⟨_, _, _, rfl⟩ := removeDiscountPrice_ok hf
    have hdd' : DiscDenom { m with discountPrice := none, lastDiscount := s.now } := by
      intro d hd; cases hd
    refine ⟨_, W, rfl, hdd', ?_⟩
    simp only [swOps, hacc, if_true, hs', envOp, sw_run_cons, sw_run_nil]
    exact sw_env_step _ _ m _ W false false rfl rfl rfl rfl rfl rfl rfl rfl
      (by rw [effPrice_denom hdd', effPrice_denom hdd]) rfl rfl
  | updatePerAddressLimit sender funds n =>
    simp only [step] at h
    obtain ⟨m0, m', hm0, hf, rfl⟩ := withMinter_ok h
    rw [hm] at hm0; cases hm0
    obtain ⟨_, _, _, _, _, rfl⟩ := updatePerAddressLimit_ok hf
    refine ⟨_, W, rfl, discDenom_of_eq hdd rfl rfl, ?_⟩
    simp only [swOps, hacc, if_true, hs', envOp, sw_run_cons, sw_run_nil]
    exact sw_env_step _ _ m _ W false false rfl rfl rfl rfl rfl rfl rfl rfl rfl rfl rfl
  | shuffle sender funds perm =>
    simp only [step] at h
    obtain ⟨m0, hm0, h⟩ := withMinterS_ok h
    rw [hm] at hm0; cases hm0
    obtain ⟨b1, ms, sup, b2, _, _, _, _, rfl⟩ := shuffle_ok h
    refine ⟨_, W, rfl, discDenom_of_eq hdd rfl rfl, ?_⟩
    simp only [swOps, hacc, if_true, hs', envOp, sw_run_cons, sw_run_nil]
    exact sw_env_step _ _ m _ W false false rfl rfl rfl rfl rfl rfl rfl rfl rfl rfl rfl
  | burnRemaining sender funds =>
    simp only [step] at h
    obtain ⟨m0, m', hm0, hf, rfl⟩ := withMinter_ok h
    rw [hm] at hm0; cases hm0
    obtain ⟨sup, _, _, _, rfl⟩ := burnRemaining_ok hf
    refine ⟨_, W, rfl, discDenom_of_eq hdd rfl rfl, ?_⟩
    simp only [swOps, hacc, if_true, hs', envOp, sw_run_cons, sw_run_nil]
    exact sw_env_step _ _ m _ W false false rfl rfl rfl rfl rfl rfl rfl rfl rfl rfl rfl
  | updateStartTradingTime sender funds t =>
    simp only [step] at h
    obtain ⟨m0, m', hm0, hf, rfl⟩ := withMinter_ok h
    rw [hm] at hm0; cases hm0
    obtain ⟨_, _, _, _, _, rfl⟩ := updateStartTradingTime_ok hf
    exact ⟨_, W, rfl, hdd, by simp [swOps, hacc, sw_run_nil]; rfl⟩
  | sudoStatus v b e =>
    simp only [step] at h
    obtain ⟨m0, m', hm0, hf, rfl⟩ := withMinter_ok h
    rw [hm] at hm0; cases hm0
    cases hf
    exact ⟨_, W, rfl, hdd, by simp [swOps, hacc, sw_run_nil]; rfl⟩
  | collTransfer sender id to =>
    simp only [step] at h
    obtain ⟨m0, m', hm0, hf, rfl⟩ := withMinter_ok h
    rw [hm] at hm0; cases hm0
    obtain ⟨_, _, _, _, rfl⟩ := collTransfer_ok hf
    exact ⟨_, W, rfl, hdd, by simp [swOps, hacc, sw_run_nil]; rfl⟩
  | collBurn sender id =>
    simp only [step] at h
    obtain ⟨m0, m', hm0, hf, rfl⟩ := withMinter_ok h
    rw [hm] at hm0; cases hm0
    obtain ⟨_, _, _, rfl⟩ := collBurn_ok hf
    exact ⟨_, W, rfl, hdd, by simp [swOps, hacc, sw_run_nil]; rfl⟩
  | collTrading sender t =>
    simp only [step] at h
    obtain ⟨m0, c, hm0, _, rfl⟩ := onColl_ok h
    rw [hm] at hm0; cases hm0
    exact ⟨_, W, rfl, hdd, by simp [swOps, hacc, sw_run_nil]; rfl⟩
  | collCreator sender new =>
    simp only [step] at h
    obtain ⟨m0, c, hm0, _, rfl⟩ := onColl_ok h
    rw [hm] at hm0; cases hm0
    exact ⟨_, W, rfl, hdd, by simp [swOps, hacc, sw_run_nil]; rfl⟩
  | collFreeze sender =>
    simp only [step] at h
    obtain ⟨m0, c, hm0, _, rfl⟩ := onColl_ok h
    rw [hm] at hm0; cases hm0
    exact ⟨_, W, rfl, hdd, by simp [swOps, hacc, sw_run_nil]; rfl⟩
  | collOwn sender a =>
    simp only [step] at h
    obtain ⟨m0, c, hm0, _, rfl⟩ := onColl_ok h
    rw [hm] at hm0; cases hm0
    exact ⟨_, W, rfl, hdd, by simp [swOps, hacc, sw_run_nil]; rfl⟩

end LP.VF
